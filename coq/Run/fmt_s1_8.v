From FP Require Import Lexer Parser ShowPT Digest Formatter.
From Coq Require Import String List NArith.
Import ListNotations.
Open Scope string_scope.
Set Printing Width 100000000.
Set Printing Depth 100000000.
Definition show_fres (r : fres) : string :=
  match r with
  | FOk s => "OK:" ++ sh_escaped s ""
  | FErr s => "ERR:" ++ sh_escaped s ""
  | FPanic p => "PANIC:" ++ p
  end.
Definition check (rs : list rune) : string := digest (show_fres (format_res rs)).
Definition full (rs : list rune) : string := show_fres (format_res rs).
Eval vm_compute in ("<<<M1367>>>" ++ check (runes_of_ascii "// c
root
packet i64_  {@tag(// " ++ [27880; 37322]%N ++ runes_of_ascii "
255 //
) match o as calculatedFrom { [
10 ] :uint8x ,[  """"  ,
    ""x y""]
:
    uint8x, 00 // `tick` ""quote"" 'q'
: x //x
,
    [ 1 // " ++ [27880; 37322]%N ++ runes_of_ascii "
, ""// no comment"" , 00
    ,
    10 ]
    :int // " ++ [27880; 37322]%N ++ runes_of_ascii "
, ""abc"" :leftPad
,
    """ ++ [28040; 24687]%N ++ runes_of_ascii """	: body , }
, @calculatedFrom(""abc"" )int64
    // trailing space 
    Packet @calculatedFrom( ""CRC32""
    )`tab	here`
    , repeat MetaDataX `// not a comment` ,repeat A {
    //x
    repeat repeatCount { match // trailing space 
float
as uint8x { [ ""it's"" , """ ++ [28040; 24687]%N ++ runes_of_ascii """
    ] :
string_ ,  ""{,}""
: u8x ""a\\"" :
asx	}	, }  , repeat  zchar[42 ] u8x,repeat int16 T ,}// packet A { u8 x, }
, zchar[ 0123456789 ]// a // b
BodyLength	@calculatedFrom( ""`tick`""), @calculatedFrom( ""a\\"")falsey { i16 lengthOf @calculatedFrom( ""packet"" )
`{ , }`
    ,
}, f32
    a1,  } root packet calculatedFrom {
@calculatedFrom( """ ++ [128512]%N ++ runes_of_ascii """  ) repeat uint8
options1 , } packet MetaDataX
{@calculatedFrom(// `tick` ""quote"" 'q'
""\n"") @tag(	7
    ) @lengthOf(charz //x
)a1 {lengthOf @lengthOf(
    calculatedFrom )
, match u128 as BodyLength {
    [ ""a	b"", 007,007, ""1"" ] : f32a ,  """ ++ [233]%N ++ runes_of_ascii "t" ++ [233]%N ++ runes_of_ascii """
    : a1 , ""x y"" // trailing space 
:string_  ""a\""b"": i8i8 , 7
: len
, }
, repeat MetaDataX
{ /// triple
_x
    u8x `
`
, match	A
    as As{ ""x y"":float
//x
//
, }
    ,
// `tick` ""quote"" 'q'
/// triple
} , trueish ,}
, repeat asx{ u128 @calculatedFrom(""abc""	)`doc` , },
    char[] // packet A { u8 x, }
i8i8, repeat char[] stringy `it's`
    ,Foo{ repeat MetaDataX, repeat char Header , match
crc //x
as a1	{ ""it's"" : rootA , 0123456789:
MetaDataX
    } , uint8x	@lengthOf( i8i8 )
    , // trailing space 
}, string_ `line1
line2`
,@tag( 10  )repeat char Packet
    `tab	here`, char u128 @calculatedFrom( ""1"" )//
,}packet Pad { i16
    // " ++ [27880; 37322]%N ++ runes_of_ascii "
    leftPad @calculatedFrom(
    """ ++ [28040; 24687]%N ++ runes_of_ascii """ ) , options1 BodyLength
    ,
    @tag(
007)
    // trailing space 
    int @calculatedFrom(
    // @lengthOf(
    ""packet"" )
, @tag( 4294967296 ) match u as
    x
{
    00 : // a // b
lengthOf} , @tag( 7)
    repeat leftPad
    {
Pad{ uint32 string_/// triple
@lengthOf( //x
Foo )
    `" ++ [233]%N ++ runes_of_ascii "` ,
}  , match
    u
    //x
    as lengthOf { 42
: // " ++ [128512]%N ++ runes_of_ascii " emoji
Packet 255	:
    pack
    }	,// packet A { u8 x, }
matchKey @calculatedFrom( """ ++ [28040; 24687]%N ++ runes_of_ascii """ )`doc`
    ,	},	match float as  Z9_{ 0	: tag [ 65535 ,1 , /// triple
00	, 1 ,
007]
: x_y_z ,
} ,	@calculatedFrom(
""{,}"")
// " ++ [27880; 37322]%N ++ runes_of_ascii "
//x
char[
1 ] Header `doc` // c
,
@lengthOf(metadata ) @calculatedFrom(
""`tick`"" )@lengthOf( body ) uint64 charz , repeat f64 // a // b
string_ , @leftPad
()
match calculatedFrom as msg_type { [
""" ++ [233]%N ++ runes_of_ascii "t" ++ [233]%N ++ runes_of_ascii """ ] : msg_type,255 : x_y_z , // " ++ [27880; 37322]%N ++ runes_of_ascii "
007 : i64_
}
    ,
}")).
Eval vm_compute in ("<<<M1355>>>" ++ check (runes_of_ascii "packet float {  @lengthOf(
matchKey )	int64	options1 @calculatedFrom( ""{,}"" )`it's`, repeat
i32 msg_type `a\` ,  options1  @calculatedFrom(""it's""
)  `// not a comment`, @lengthOf( roots) u8 repeatCount
`say ""hi""` ,
    int16 len, char[]
chars @lengthOf(
    repeatCount ) ,
    /// triple
    @calculatedFrom(""{,}"" ) match body as i64_{ ""x y""
    :	pack  ,
//
// @lengthOf(
}	,
    A
{ i8i8 @calculatedFrom(""a	b"" ),} // c
, @leftPad( '\x00' ) /// triple
metadata { repeat Foo	{	Z9_
//x
// `tick` ""quote"" 'q'
trueish , } , }
, @calculatedFrom(
// " ++ [27880; 37322]%N ++ runes_of_ascii "
/// triple
""" ++ [233]%N ++ runes_of_ascii "t" ++ [233]%N ++ runes_of_ascii """ // " ++ [128512]%N ++ runes_of_ascii " emoji
)
@lengthOf( lengthOf	)
    // packet A { u8 x, }
    @rightPad  (
    '\x00' // " ++ [128512]%N ++ runes_of_ascii " emoji
)
repeat
    char[ 255] // c
string_`a\` ,
    }
MetaData
    trueish {o
T	,	char[ 1 ] BodyLength`{ , }` , } packet Logon
{ @calculatedFrom(""a\\"") // `tick` ""quote"" 'q'
match roots  as
As { 255:stringy , [ // packet A { u8 x, }
10 , """" , """ ++ [233]%N ++ runes_of_ascii "t" ++ [233]%N ++ runes_of_ascii """
, ""a\""b"" ,
    ""\" ++ [233]%N ++ runes_of_ascii """ ]
:  _x  , }
, }	packet
    i64_	{ // a // b
@tag( 007
)float32	metadata`two words`
// @lengthOf(
// `tick` ""quote"" 'q'
,	match Header as matchKey{	""`tick`"" : Pad ,[""a\""b"" ,""a	b""
    , 65535
// packet A { u8 x, }
// packet A { u8 x, }
,
10  ,""1""
,  ""a\""b"" , ""abc"",
""`tick`""] : rootA	,[255 , ""a\""b"" ]:// trailing space 
body ,
    // `tick` ""quote"" 'q'
    ""\n""	: stringy
    ,
    [ 0  , ""\" ++ [233]%N ++ runes_of_ascii """ ,	""\" ++ [233]%N ++ runes_of_ascii """ , 65535 , 3
    ,0 ,""1"" ,
//x
// trailing space 
42 ]
:Z9_,
// a // b
// @lengthOf(
""a\""b"" //
: string_ , } ,len
MetaDataX ,u @lengthOf(calculatedFrom  ) `a\` , Foo {
    match crc
// @lengthOf(
// `tick` ""quote"" 'q'
as
    // trailing space 
    asx // " ++ [27880; 37322]%N ++ runes_of_ascii "
{
""1"":leftPad
    ,
""" ++ [128512]%N ++ runes_of_ascii """
: leftPad
[ ""{,}""  ] : string_
, ""CRC32"":
crc, 42 :u
    }
    ,
    match asx as u {
    [4294967296 ,1	]:	zchar ,//x
} ,	string body ,
    // " ++ [128512]%N ++ runes_of_ascii " emoji
    lengthOf asx
    `two words`
    // trailing space 
    , } ,charz @calculatedFrom( ""abc"" ) // trailing space 
`{ , }` ,char[
// a // b
//x
0123456789]
    // a // b
    o @lengthOf( packetx )
    // " ++ [128512]%N ++ runes_of_ascii " emoji
    , }")).
Eval vm_compute in ("<<<M4021>>>" ++ check (runes_of_ascii "packet crc {
    Logon {
        u64 Z9_ @lengthOf(A),
        f64 int,//
        match BodyLength as MetaDataX {
            """ ++ [28040; 24687]%N ++ runes_of_ascii """ : msg_type,
            00 : falsey,
            00 : tag,
            ""it's"" : options1,
            007 : len,
            65535 : falsey,
        },
        repeat char[] int,//x
    },
}

root packet repeatCount {
}

packet BodyLength {
    stringy {
        len `
                `,
    },
    repeat i32 int,
    match Foo as crc {
        0 : i8i8,
        3 : chars,
    },
    repeat x {
        zchar[007] chars,
        repeat chars {
            repeat stringy {
                x_y_z u128,
                string options1 `two words`,
                char[0123456789] body `crlf
                                line`,
                repeat int32 i64_,
            },
            char[42] crc,
            Pad `tab	here`,
            f32a {
                lengthOf f32a,
            },
        },
    },
    i8 stringy,
    f32a {
        match body as body {
            ""\" ++ [233]%N ++ runes_of_ascii """ : u128,
        },
        repeat string len `a\`,
        repeat As asx `it's`,
    },
}

MetaData rootA {
    metadata metadata,
    A _x,
    u T,
    char[3] a1 `line1
        line2`,
    zchar[4294967296] packetx `{ , }`,
    string Logon `" ++ [233]%N ++ runes_of_ascii "`,
}

packet BodyLength {
    @calculatedFrom(""\n"")
    int8 a1 @lengthOf(falsey),//
    @calculatedFrom(""\" ++ [233]%N ++ runes_of_ascii """)
    @tag(0123456789)
    lengthOf,
    @tag(007)
    //
    match Logon as f32a {
        0 : zchar,
    },
    @lengthOf(i8i8)
    match options1 as string_ {
        [
            00, 4294967296, 4294967296, 1, ""a\""b"",
            ""a	b""
        ] : A,
    },
}")).
Eval vm_compute in ("<<<M903>>>" ++ check (runes_of_ascii "// a // b
packet //x
leftPad{
repeat// " ++ [27880; 37322]%N ++ runes_of_ascii "
crc , repeat f32a{ roots i8i8 ,// trailing space 
string_ msg_type ,
    u128 {  match
u as  o {
""1"" : u8x ,  7: string_
,""" ++ [233]%N ++ runes_of_ascii "t" ++ [233]%N ++ runes_of_ascii """ :trueish ,
}, u16
trueish
    @lengthOf(_x)`a\` , }, u128{ x_y_z ,
    Packet @lengthOf( /// triple
rootA ) `{ , }` , } , }
/// triple
/// triple
, @calculatedFrom( // `tick` ""quote"" 'q'
""CRC32"" ) rootA@calculatedFrom(""\" ++ [233]%N ++ runes_of_ascii """ )
    //
    `tab	here`
,
// " ++ [128512]%N ++ runes_of_ascii " emoji
// " ++ [27880; 37322]%N ++ runes_of_ascii "
match A as
    a1 { 7:
u128 ,[
""// no comment"" // " ++ [27880; 37322]%N ++ runes_of_ascii "
]
    :  stringy """" :
    i8i8 , 65535 : msg_type
[7 ,""a\""b""
,
    65535  ,255 ,4294967296] : packetx// " ++ [27880; 37322]%N ++ runes_of_ascii "
,
    }, }	packet
//x
//
a1
    { uint16 tag,
// " ++ [27880; 37322]%N ++ runes_of_ascii "
// trailing space 
Packet `a\` , }packet tag { } packet  msg_type
{ options1
    int `u8 x,` ,i64 calculatedFrom  , match rootA as
pack	{ 0 : i64_ //	t
,[""abc""
    , 42, 42
, 7 ] :
zchar
7
:u8x , ""{,}"" //	t
: len ,
    } ,match packetx as i8i8 { 65535
    : Foo """ ++ [28040; 24687]%N ++ runes_of_ascii """:
repeatCount
, }
    , // a // b
@rightPad // `tick` ""quote"" 'q'
(
' '
) string Packet
@lengthOf( _x
) ,
matchKey { // " ++ [27880; 37322]%N ++ runes_of_ascii "
zchar
    { f64
    // `tick` ""quote"" 'q'
    falsey
//
// " ++ [27880; 37322]%N ++ runes_of_ascii "
`a\` , uint64 x_y_z `a\` , }
    , } ,//x
@rightPad
// c
// trailing space 
(
'0' )repeat
    leftPad { uint32 stringy
    // a // b
    @calculatedFrom(
"""")
// a // b
/// triple
,
zchar[
    0123456789
    ] MetaDataX`tab	here` //	t
, char len`line1
line2` , } , }root// @lengthOf(
packet Header
    // @lengthOf(
    {}
")).
Eval vm_compute in ("<<<M3732>>>" ++ check (runes_of_ascii "  options
    { StringPrefixLenType

=

u16;  ArrayPrefixLenType  = u16
    ;
}

packet
SampleBinary {
    uint16 MsgType

    `" ++ [28040; 24687; 31867; 22411]%N ++ runes_of_ascii "`

,	u16 BodyLenght
	@lengthOf(Body
)
`" ++ [28040; 24687; 20307; 38271; 24230]%N ++ runes_of_ascii "` ,  match 
MsgType 
as	Body  {

1 :Logon 
,	2:
    Logout,3
:
    Heartbeat  ,
4 
:
	RiskControlRequest
,
    5:
RiskControlResponse

    , },
@calculatedFrom(
""CRC32""

)  u32 
Ckecksum `" ++ [26657; 39564; 21644]%N ++ runes_of_ascii "`

,	}  packet 
Logon
	{

    @leftPad
    ( '0' )

char[10  ]

    UserName 
`" ++ [29992; 25143; 21517]%N ++ runes_of_ascii "`	, string  Password

`" ++ [23494; 30721]%N ++ runes_of_ascii "`	,	uint64 ClientId `" ++ [23458; 25143; 31471]%N ++ runes_of_ascii "ID` , u16
HeartbeatInterval
`" ++ [24515; 36339; 38388; 38548]%N ++ runes_of_ascii "`	,  }

packet
    Logout
{

@rightPad ( '0'  )char[

10
]	UserName
`" ++ [29992; 25143; 21517]%N ++ runes_of_ascii "` ,

uint64
ClientId

`" ++ [23458; 25143; 31471]%N ++ runes_of_ascii "ID`
,
}
packet Heartbeat	{ }

    packet

RiskControlRequest
    {
string	UniqueOrderId`" ++ [21807; 19968; 35746; 21333; 21495]%N ++ runes_of_ascii "` , char[ 
16

    ] ClOrdID`" ++ [23458; 25143; 35746; 21333; 21495]%N ++ runes_of_ascii "`
	, char[	3]	MarketID	`" ++ [24066; 22330]%N ++ runes_of_ascii "id`	,char[
    12
	]SecurityID `" ++ [35777; 21048; 20195; 30721]%N ++ runes_of_ascii "` 
, 
char Side
`" ++ [20080; 21334; 26041; 21521]%N ++ runes_of_ascii "` ,
	char

    OrderType
`" ++ [35746; 21333; 31867; 22411]%N ++ runes_of_ascii "`,
	u64
Price
    `" ++ [20215; 26684]%N ++ runes_of_ascii "`
,

u32  Qty
`" ++ [25968; 37327]%N ++ runes_of_ascii "`
,

repeat
	string ExtraInfo
`" ++ [38468; 21152; 20449; 24687]%N ++ runes_of_ascii "`
    ,  repeat 
SubOrder
	{
    char[

    16  ] ClOrdID

    `" ++ [23376; 35746; 21333; 21495]%N ++ runes_of_ascii "`
	,
u64 Price`" ++ [23376; 35746; 21333; 20215; 26684]%N ++ runes_of_ascii "` ,	u32	Qty  `" ++ [23376; 35746; 21333; 25968; 37327]%N ++ runes_of_ascii "`

,

    }

,
}	packet
	RiskControlResponse

    {
    string	UniqueOrderId
`" ++ [21807; 19968; 35746; 21333; 21495]%N ++ runes_of_ascii "`	,
    i32
Status `" ++ [29366; 24577]%N ++ runes_of_ascii "`

    ,  string Msg`" ++ [32467; 26524; 20449; 24687]%N ++ runes_of_ascii "`
, repeat  Detail, 
}
    packet Detail  {
	string  RuleName
    `" ++ [35268; 21017; 21517; 31216]%N ++ runes_of_ascii "`  , u16 Code  `" ++ [21407; 22240; 20195; 30721]%N ++ runes_of_ascii "`	,}")).
Eval vm_compute in ("<<<M3635>>>" ++ check (runes_of_ascii "// top
options
    // c0
{ // c1a
  // c1b
LittleEndian // c2
= false ; // c5
ArrayPrefixLenType = u8 ; // c9
FixedStringPadChar =
    // c11
'0' // c12a
  // c12b
; // c13a
  // c13b
} // c14a
  // c14b
packet
    // c15
Order
    // c16
{ // c17a
  // c17b
InNote94 // c18
{ f32
    // c20
f1
    // c21
, // c22a
  // c22b
f64 // c23
Side2 , // c25
repeat // c26
InTail47 // c27a
  // c27b
{ char[] // c29
seqNo // c30
,
    // c31
char[]
    // c32
Tail // c33a
  // c33b
, // c34a
  // c34b
char[] // c35a
  // c35b
lastPx
    // c36
, } , } , // c41a
  // c41b
zchar[
    // c42
7 // c43a
  // c43b
] // c44
f1 , // c46a
  // c46b
u8
    // c47
Side2 ,
    // c49
}
    // c50
root packet // c52a
  // c52b
Reject
    // c53
{ // c54a
  // c54b
repeat
    // c55
char[
    // c56
4 // c57a
  // c57b
] Flags
    // c59
, // c60a
  // c60b
InPrice63 { // c62a
  // c62b
InSeqno41 // c63
{ // c64
repeat // c65a
  // c65b
i8
    // c66
OrderId // c67
, // c68
repeat
    // c69
i32 // c70a
  // c70b
clOrdID // c71
, // c72
char[ 9 ]
    // c75
tag7 // c76a
  // c76b
, // c77a
  // c77b
char[] // c78
lastPx , // c80
} // c81
, // c82
Order // c83
, uint8
    // c85
Side2
    // c86
, } // c88a
  // c88b
, } ")).
Eval vm_compute in ("<<<M1068>>>" ++ check (runes_of_ascii "
packet Packet{
    @leftPad
// a // b
// a // b
( ' ' )
    repeat As{ repeatCount
@calculatedFrom(""" ++ [28040; 24687]%N ++ runes_of_ascii """
) ,	repeat pack { /// triple
x {match As
as uint8x  { [
    ""1""
, ""\" ++ [233]%N ++ runes_of_ascii """ , 00 ,""it's"",	""a\""b"" ,
    ""\" ++ [233]%N ++ runes_of_ascii """
] :
// " ++ [128512]%N ++ runes_of_ascii " emoji
// packet A { u8 x, }
pack[ ""a\""b"",""" ++ [233]%N ++ runes_of_ascii "t" ++ [233]%N ++ runes_of_ascii """
    ,
65535
    ,	""a	b"" ,
""`tick`"" ,
//	t
//x
""\n""
// " ++ [128512]%N ++ runes_of_ascii " emoji
// packet A { u8 x, }
]: As
,
0123456789  : float , /// triple
""a	b"" :
    x_y_z
, [ ""abc"" ] :
    stringy // trailing space 
} ,  f64
    MetaDataX ,zchar[
0123456789 ] charz ,
}, crc // trailing space 
{ char[]x_y_z // c
`
`
,	match Z9_
    as i8i8	{  00	:
// c
//	t
charz, } ,}	,	i8 // a // b
_x
,
repeat falsey
    {
    // `tick` ""quote"" 'q'
    char[
65535 // a // b
]
    Packet @calculatedFrom(
""x y""
) `line1
line2` ,	} ,}
, f32a // packet A { u8 x, }
MetaDataX
    `" ++ [233]%N ++ runes_of_ascii "`
, repeat//	t
matchKey{int32
int `crlf
line`	,
} ,} , float{ string	As
`// not a comment` , As
, stringy ,
    } ,
@tag( 00	) Foo ,	repeat int16	Z9_, @lengthOf(u8x )
    u8x{ repeat	uint64 asx ,
// packet A { u8 x, }
//
repeat int
    // packet A { u8 x, }
    `` , char[
1 ] uint8x @calculatedFrom(
    ""\" ++ [233]%N ++ runes_of_ascii """
) ,
    } ,  x , }
")).
Eval vm_compute in ("<<<M983>>>" ++ check (runes_of_ascii "packet Packet { MetaDataX	{
// " ++ [128512]%N ++ runes_of_ascii " emoji
// trailing space 
zchar[
    // @lengthOf(
    255 ] crc
    @calculatedFrom( ""`tick`"") `doc`
    , // c
},
u32 As`
`,
    @lengthOf(
chars) f64
leftPad	`// not a comment` ,
repeat char[ 3 ] len  `doc`
, match
u8x as
chars {4294967296: f32a
    , [
255, 4294967296 ]: string_ 0 :chars , // packet A { u8 x, }
""a\""b"" : options1 7
: falsey ,	} , @lengthOf( // c
len
// `tick` ""quote"" 'q'
// @lengthOf(
) repeat char[10
    // " ++ [27880; 37322]%N ++ runes_of_ascii "
    ]
Header `crlf
line`, // " ++ [27880; 37322]%N ++ runes_of_ascii "
rootA
asx
`two words` ,
}packet //x
Packet{ @tag(//
00 ) u16 asx
    ,	@calculatedFrom( ""a\""b"" ) charz @lengthOf( a1 )
, @lengthOf( asx)
    repeat string
    falsey
, u32 options1@lengthOf(
    packetx) `it's`//x
,} packet
metadata { int16 i8i8 ,
i32 tag
//x
//
`line1
line2` ,	@calculatedFrom( ""a\\""
//x
//	t
) // trailing space 
@lengthOf( repeatCount )
MetaDataX {
repeat
x_y_z,  }
,lengthOf tag `" ++ [233]%N ++ runes_of_ascii "`
    ,
    }
MetaData//	t
Foo
{
body chars
, char[] asx `// not a comment`,char u8x
//
// a // b
, x trueish `crlf
line`
, char[] options1
`u8 x,`
, }")).
Eval vm_compute in ("<<<M4495>>>" ++ check (runes_of_ascii "
root  packet  options1  {
uint64

x , @lengthOf(

    i8i8 ) repeat
	char[
	0

    ] len
,crc`u8 x,`
    ,As @calculatedFrom(
""a	b""
	/// triple

  // @lengthOf(
  )

    ,
@rightPad
	(
    )
    @calculatedFrom( ""1"" 	 //x

	)
	string charz
@calculatedFrom(""" ++ [233]%N ++ runes_of_ascii "t" ++ [233]%N ++ runes_of_ascii """  )

`two words`, @tag(	00)

f32a 
      //x
		//	t
	{ char[]
trueish

@lengthOf(//	t
    MetaDataX ) `// not a comment`
,repeat

    int16
float ,
body

`u8 x,`	, 
}//x
		, @calculatedFrom(	// a // b
  	""x y""
) 

    //x
	//
  match
Header
as 
falsey {

7:f32a

    ,}
	,@tag( 00 ) match zchar
as
Logon{
[

    7
	,

    7
,
	""`tick`""
	,

""\" ++ [233]%N ++ runes_of_ascii """  ,

    255 ] : 
A,	[1]
	:
Z9_	[""1""  ,1,	""`tick`""
,
""a	b"", 

    //	t
// a // b
	""\" ++ [233]%N ++ runes_of_ascii """ 
,

    """ ++ [28040; 24687]%N ++ runes_of_ascii """]	: 
Pad
	[""1""  // " ++ [128512]%N ++ runes_of_ascii " emoji
  ,
    """" 
,
	1, 00

,
    """ ++ [128512]%N ++ runes_of_ascii """	,""1"" , 
1 ,
	""{,}"" ]
	: Z9_,  10:  A

,

    """ ++ [233]%N ++ runes_of_ascii "t" ++ [233]%N ++ runes_of_ascii """ 
:  u8x 
    // " ++ [128512]%N ++ runes_of_ascii " emoji
  , } 
, repeat

    int64	metadata , @rightPad
(  '0'
    )
    match  tag

as
	BodyLength

{  ""CRC32"":
asx
    ,  10 :metadata ,
    }, }
")).
Eval vm_compute in ("<<<M806>>>" ++ check (runes_of_ascii "packet repeatCount
// @lengthOf(
//
{ repeat	Header, char[
42
    ]rootA ``
    ,@lengthOf(
    stringy )repeat int16 leftPad
,repeat // `tick` ""quote"" 'q'
crc
    {
//x
// " ++ [128512]%N ++ runes_of_ascii " emoji
zchar[00  ]body
    @lengthOf( Foo) , repeat Logon { MetaDataX
    @lengthOf(trueish ) , uint8	asx@calculatedFrom( ""\" ++ [233]%N ++ runes_of_ascii """) , metadata {
uint8x @lengthOf( stringy ) ,
    repeat  BodyLength
metadata `say ""hi""` ,}
//x
//
, repeat char[] u, // trailing space 
}
, int16 matchKey ``
, char[]// trailing space 
u8x
@lengthOf(string_ )
    ,	} , // @lengthOf(
match Logon
as	zchar { [""x y"" , 65535// c
,  10 ] : chars [
    ""{,}""
    ,
""a\""b""]
:leftPad ,
    //	t
    65535 : metadata//
,[
    10 , 7 // a // b
, ""// no comment""
    ,// `tick` ""quote"" 'q'
0
    , 65535 , // `tick` ""quote"" 'q'
""abc""
, 7 // " ++ [27880; 37322]%N ++ runes_of_ascii "
,42
    ]  :MetaDataX
},
    repeat int8	packetx `// not a comment` ,// a // b
} packet
    x // a // b
{ u16 roots
,
} options{ int  =  4294967296 u8x = false ; }")).
Eval vm_compute in ("<<<M4085>>>" ++ check (runes_of_ascii "packet leftPad {
    char[] matchKey @lengthOf(MetaDataX),
}

options {
}

packet f32a {
    @lengthOf(int)
    @leftPad('\x00')
    @calculatedFrom(""\" ++ [233]%N ++ runes_of_ascii """)
    repeat T BodyLength,
    @leftPad('\x00')
    uint16 body @calculatedFrom(""{,}"") `" ++ [233]%N ++ runes_of_ascii "`,
    @leftPad(' ')
    match Z9_ as Foo {
        7 : MetaDataX,
        4294967296 : options1,
        ""x y"" : A,
    },
    repeat zchar[10] f32a `it's`,// trailing space 
}

packet x_y_z {
    uint32 _x,
    MetaDataX {
        trueish metadata,
        char[42] falsey,
    },
    char[] packetx `it's`,
    falsey,
    repeat metadata `it's`,//x
    @tag(42)
    x @calculatedFrom(""x y""),
    @lengthOf(float)
    // packet A { u8 x, }
    repeat Foo {
        asx {
            repeat char[] crc `a\`,
            repeat A,
        },
        u Packet `say ""hi""`,
        roots @calculatedFrom(""{,}""),
        zchar[65535] f32a @lengthOf(o),
    },
}")).
Eval vm_compute in ("<<<M382>>>" ++ check (runes_of_ascii "
packet u {@calculatedFrom(""// no comment""  ) string
//	t
// a // b
string_
,@calculatedFrom( //	t
""\" ++ [233]%N ++ runes_of_ascii """ ) match string_ as
len  { """ ++ [233]%N ++ runes_of_ascii "t" ++ [233]%N ++ runes_of_ascii """ :
    roots ,	[""a\""b""
,
""x y"" , """", // `tick` ""quote"" 'q'
""" ++ [28040; 24687]%N ++ runes_of_ascii """ ,""packet"" , 7, 3  ]
    //x
    : /// triple
As, [ """ ++ [128512]%N ++ runes_of_ascii """ ,
    ""// no comment""	, 10 ,
    //
    10] : roots ,""" ++ [28040; 24687]%N ++ runes_of_ascii """ : packetx
    , //
[""1""] :	calculatedFrom ,[1
]
    :len , }, x_y_z
    @calculatedFrom( ""a\""b"") `say ""hi""` , As
    @lengthOf(
    roots
    ) ,
    // a // b
    @calculatedFrom( """ ++ [233]%N ++ runes_of_ascii "t" ++ [233]%N ++ runes_of_ascii """ ) char  i64_
@lengthOf(Header ) , //
u8 int
    @lengthOf(	i64_ )
    `crlf
line` ,// `tick` ""quote"" 'q'
@calculatedFrom( // " ++ [27880; 37322]%N ++ runes_of_ascii "
""1"" ) zchar[3 ] Packet
,
// `tick` ""quote"" 'q'
//x
uint8
    u128`line1
line2`
    ,
    }	options
    { Header = true
    ;  Packet
    // a // b
    =
    0123456789
    matchKey=
    /// triple
    zchar[ 4294967296] }
")).
Eval vm_compute in ("<<<M4270>>>" ++ check (runes_of_ascii "packet
	i8i8
	{

@tag(

65535

    )
i8i8 ,

    repeat
u8
    uint8x ,  zchar[
    7

] u
	// " ++ [27880; 37322]%N ++ runes_of_ascii "

  ,repeat
    char[]Packet ,
@leftPad
( '\x00' 
) i64_ {  x 
`line1
line2`
	,//x
    }

,	// a // b
    repeat
    Foo {

    len
    {

match 	 // a // b
  u

    as
_x
{42
:tag
, [
    """ ++ [233]%N ++ runes_of_ascii "t" ++ [233]%N ++ runes_of_ascii """
]
	:_x
    [

7	,
4294967296 ]
	:  Packet	,
    }
    , 
float64 o

`it's` 
,
int64
	options1,	//	t

} ,
}
    ,
@leftPad(
'\x00'
    )
match
    x  //
	as

    zchar{
	255

    :
    //

  o , 255

    :
    Logon/// triple
,  0
    : Header
, 007
    : msg_type
, [ 
    // packet A { u8 x, }
	""\n""

,	// packet A { u8 x, }
  007  
      // " ++ [27880; 37322]%N ++ runes_of_ascii "
  // a // b
	,""1""

    ,255	// a // b
, 4294967296,  0 
,	007]: int

    ,} 
,

    }// trailing space 

	packet As
	{

    }
")).
Eval vm_compute in ("<<<M3794>>>" ++ check (runes_of_ascii "
packet  int	{

    @calculatedFrom(

""" ++ [28040; 24687]%N ++ runes_of_ascii """ ) @tag(
        // `tick` ""quote"" 'q'

  007	)
	options1	@calculatedFrom(""CRC32"")`tab	here` ,@lengthOf(As  ) x  x_y_z ,

    repeat

x
{i64
	Z9_	, zchar[ 
    // c

007

] body 
	//	t
	// a // b
	@lengthOf(uint8x )
    // c

  , f64  metadata

@calculatedFrom( 
""`tick`"") `tab	here` ,
}	,
} packet
    msg_type
	{

repeat 
    // trailing space 
    // c
  zchar[
255 
] A	, 
int64 
f32a, 	 // " ++ [128512]%N ++ runes_of_ascii " emoji

	Pad 
@lengthOf(
falsey
	), match

    falsey
as x_y_z
    {  7
    :	// `tick` ""quote"" 'q'
  	len
, }

    /// triple
// c
    ,string // " ++ [27880; 37322]%N ++ runes_of_ascii "
  uint8x  `a\` ,string

rootA
	//x
	// a // b
    @lengthOf( int  )
	, }  root 
/// triple
	// `tick` ""quote"" 'q'

packet 
pack
    { crc

    i64_
    ,
	}
")).
Eval vm_compute in ("<<<M380>>>" ++ check (runes_of_ascii "root
    packet
    stringy{	u8x @lengthOf( A)
    , match f32a as // trailing space 
options1
// " ++ [27880; 37322]%N ++ runes_of_ascii "
//	t
{[
""a\""b"" ,	0123456789 ] : trueish[
    ""a\\""
, 3
, 65535
    , 255 ,
    """ ++ [233]%N ++ runes_of_ascii "t" ++ [233]%N ++ runes_of_ascii """, 65535 , ""\" ++ [233]%N ++ runes_of_ascii """ ] // `tick` ""quote"" 'q'
:  body,},
@calculatedFrom( """ ++ [128512]%N ++ runes_of_ascii """ ) repeat uint16 int //
,repeat
/// triple
/// triple
tag	, @leftPad () match int as u8x //
{[ 65535 ,	""" ++ [233]%N ++ runes_of_ascii "t" ++ [233]%N ++ runes_of_ascii """
    ] :
    metadata
,
    }//x
, @rightPad  () repeat zchar[ 7
//	t
// packet A { u8 x, }
] Logon
//
//	t
`crlf
line`
, As
// " ++ [128512]%N ++ runes_of_ascii " emoji
// packet A { u8 x, }
{
int64 roots , } , // packet A { u8 x, }
@tag(255
) int64 charz @calculatedFrom(
""a	b"" ) , BodyLength lengthOf  ,float64
As,  }packet	Foo { char[ 4294967296 ]float `u8 x,`
    , } packet _x { }
")).
Eval vm_compute in ("<<<M1329>>>" ++ check (runes_of_ascii "packet
leftPad
{ @tag(
1
) i8 // a // b
crc , float64 packetx `" ++ [233]%N ++ runes_of_ascii "` , lengthOf
@lengthOf( charz
    // trailing space 
    ) , repeat
    Packet ,	@lengthOf( u )  @lengthOf(// " ++ [27880; 37322]%N ++ runes_of_ascii "
T )
    repeat u16 uint8x `" ++ [28040; 24687; 31867; 22411]%N ++ runes_of_ascii "`,
    zchar[  10
]// a // b
metadata ``
    , match // packet A { u8 x, }
trueish
    as options1{0123456789
: rootA
    ,255: MetaDataX[""a\\"" ,/// triple
""\n"",00
, 10 ] : trueish ,	""CRC32"" :
uint8x, 0 : Z9_ ,  ""1""// c
: i8i8
// `tick` ""quote"" 'q'
// packet A { u8 x, }
,} , @calculatedFrom( ""it's"" ) uint8 chars `
` , } options
    // @lengthOf(
    {
    f32a
= i16 ; // " ++ [128512]%N ++ runes_of_ascii " emoji
u
    = ""abc"" }MetaData chars{	i16 lengthOf , Packet msg_type
    `crlf
line` ,} // " ++ [27880; 37322]%N)).
Eval vm_compute in ("<<<M1378>>>" ++ check (runes_of_ascii "options{
    A = ""\n"" ; matchKey = 4294967296 } root packet repeatCount
{ rootA `{ , }`
    , @tag(0 )	@tag(  007 )
    string
    packetx
    ,  repeat // c
u128
u128	`u8 x,`	, @leftPad
    ( ' '	)
    i64_ @calculatedFrom(""`tick`""	)
    // @lengthOf(
    `it's`
, char[ 00 ] lengthOf `it's` , Foo`u8 x,`, zchar[
65535] i64_ , char[
    // c
    0	]_x
    ,
    repeat zchar[0123456789]	u
,  @tag(
    10 // trailing space 
)
/// triple
// packet A { u8 x, }
int64 pack
@calculatedFrom( ""packet""
    )
`u8 x,`
// a // b
// trailing space 
, } packet
    float
// a // b
//x
{@tag(
0
    // " ++ [27880; 37322]%N ++ runes_of_ascii "
    )
char[0
]
stringy `" ++ [28040; 24687; 31867; 22411]%N ++ runes_of_ascii "`	, } /// triple")).
Eval vm_compute in ("<<<M4367>>>" ++ check (runes_of_ascii "packet Packet {
}

root packet pack {
    @calculatedFrom(""CRC32"")
    string pack `two words`,
    @lengthOf(Pad)
    @lengthOf(rootA)
    i16 A `doc`,
}

options {
    asx = 00;
    string_ = 7;
    x_y_z = 0123456789;
}

packet uint8x {
    int32 trueish @lengthOf(roots) `say ""hi""`,
    @tag(1)
    @lengthOf(a1)
    match f32a as MetaDataX {
        /// triple
        // trailing space 
        7 : pack,
        65535 : calculatedFrom,
        [3, 1, 0123456789, ""// no comment""] : Z9_,
        4294967296 : a1,
        007 : int,
        """ ++ [128512]%N ++ runes_of_ascii """ : o,
    },
    repeat calculatedFrom a1 `crlf
    line`,
}")).
Eval vm_compute in ("<<<M4157>>>" ++ check (runes_of_ascii "packet  pack { A	// a // b
      {
char[ 0

    ]

    msg_type`
`
, }

    ,
@lengthOf( msg_type
)	MetaDataX {
int64 u @calculatedFrom( ""a\""b""
) `
`,
float32 // a // b
  i8i8
@calculatedFrom(""a\\""
    )
	`it's` , match 
uint8x
    as  matchKey 
    // a // b

{
    ""{,}"":i64_,	42 :
T  ,3
	:
x  // c

}
    ,  }
	,

    @tag(
	10  ) @leftPad('\x00')
    zchar { f32a
Foo
, }  ,match

    x_y_z
as
falsey { ""// no comment"" :  i64_
,	} , // `tick` ""quote"" 'q'
  }

options
{ uint8x  
      // " ++ [128512]%N ++ runes_of_ascii " emoji
	='0'	; _x
    = false // `tick` ""quote"" 'q'

	f32a  =
	zchar[
00];
}
")).
Eval vm_compute in ("<<<M4127>>>" ++ check (runes_of_ascii "packet Packet {
    @tag(65535)
    @leftPad(' ')
    @tag(255)
    uint8 len @lengthOf(T),
    int32 u8x,
    @lengthOf(rootA)
    float32 i64_ `u8 x,`,
}

packet int {
    repeat i8i8 {
        lengthOf @lengthOf(int) `line1
        line2`,
        string falsey `
        `,
        uint16 roots @lengthOf(charz),
    },
}

options {
    Foo = ' '
    len = """ ++ [128512]%N ++ runes_of_ascii """;
    chars = u64;
    //x
    //
    uint8x = """ ++ [128512]%N ++ runes_of_ascii """;
    metadata = ' ';
}

MetaData Header {
    i16 matchKey,
    Packet Packet `u8 x,`,
}

packet u128 {
    uint8x @lengthOf(charz) `u8 x,`,
}")).
Eval vm_compute in ("<<<M4529>>>" ++ check (runes_of_ascii "options

    { }
packet

Packet{
repeat
	zchar[ 0123456789
]  crc 
,
	repeat
	zchar[ 4294967296 ]Z9_  ,// packet A { u8 x, }
rootA
	,

    repeat  Packet { lengthOf
    {  u8x`{ , }`  ,zchar[ 0123456789 ]

    lengthOf  `{ , }`
,	// " ++ [27880; 37322]%N ++ runes_of_ascii "

	Header	{ repeat 
// c
    	//x
	  f32 
As	`line1
line2` , 
charz@calculatedFrom(  ""1"" )

    , }

, },} ,

i8 	 //	t
  	float@lengthOf(	T// packet A { u8 x, }
	)
,  @lengthOf(  metadata )
	@calculatedFrom( ""packet"" 
	    // a // b

	) @lengthOf(
	repeatCount	) repeat f32 
Foo	,
}")).
Eval vm_compute in ("<<<M4042>>>" ++ check (runes_of_ascii "

  root	packet	crc

{ 
@leftPad(

    '0' 
) @lengthOf( 
float
) roots
Logon  `u8 x,`,char[
    3 ]repeatCount	`a\` 
// `tick` ""quote"" 'q'
		// @lengthOf(
	,  match

uint8x as	//x

  msg_type
    {
    10 : body ,
    0123456789
:
	o
}

    ,	repeat
x

    // c
	// c

	{	uint8

roots

@calculatedFrom(  ""abc""
    )

`" ++ [28040; 24687; 31867; 22411]%N ++ runes_of_ascii "`

    , }
    , }

    packet 	 //	t

	calculatedFrom
	{ uint8
MetaDataX
	`// not a comment`  ,
}  packet
    crc
	{Z9_
{ repeat  crc

`doc`	, 
Z9_ `` ,} , 
}
// a // b
")).
Eval vm_compute in ("<<<M754>>>" ++ check (runes_of_ascii "packet falsey	{ }packet
i64_ {i64
metadata @lengthOf(
    len ) , repeat i16// a // b
float , } packet Pad
{ @lengthOf( Logon
)Packet { string matchKey , zchar[65535] metadata , string
metadata `" ++ [28040; 24687; 31867; 22411]%N ++ runes_of_ascii "` ,repeat char[ 0123456789 ]
    rootA ,
    }, @tag(
4294967296 ) repeat
    a1
    // `tick` ""quote"" 'q'
    float`// not a comment`	,repeat char[//	t
3
]	As`{ , }`
    ,
@calculatedFrom(
    ""packet"" ) match T	as packetx{ ""a\\"" : Packet
,
    // a // b
    } /// triple
,
    }")).
Eval vm_compute in ("<<<M4029>>>" ++ check (runes_of_ascii "

  packet  // a // b

  stringy {Logon

    {
	match 
string_ as	i64_{  ""x y""
:  string_
	, 
        // " ++ [27880; 37322]%N ++ runes_of_ascii "

// `tick` ""quote"" 'q'
	  ""`tick`"" 
:
    string_  ,
    1 // " ++ [27880; 37322]%N ++ runes_of_ascii "
    	: 
        /// triple
    	// c

  float ,	[

    ""1""
	]
: options1  
      // " ++ [27880; 37322]%N ++ runes_of_ascii "
, }
,zchar[ 1	]  crc @calculatedFrom(

""""

)
    `two words`

    , f32a ,

    float32 lengthOf,
    },  @tag(
255

    )  u8x @calculatedFrom(// packet A { u8 x, }
	  ""abc"" ) `a\` , 
}")).
Eval vm_compute in ("<<<M1000>>>" ++ check (runes_of_ascii "MetaData roots{ }MetaData x_y_z// trailing space 
{
zchar[	42 ]
    i8i8
, options1 _x`doc` ,i8 zchar
    , uint16 Pad`u8 x,`,	} packet MetaDataX{
    zchar[
4294967296 ] rootA  ,
//
//x
}	packet
    T { //x
@lengthOf( len	) @tag( 42) int64 float `{ , }` // c
, @lengthOf(i64_)As @lengthOf(falsey
    // a // b
    ) ,
int64 Pad	@lengthOf( _x)
`it's` , @lengthOf( len
    ) char[
255
]Pad`" ++ [28040; 24687; 31867; 22411]%N ++ runes_of_ascii "`, }
    MetaData Foo
{// " ++ [27880; 37322]%N ++ runes_of_ascii "
char[	1 ] As ,}
")).
Eval vm_compute in ("<<<M395>>>" ++ check (runes_of_ascii "packet trueish
    // " ++ [128512]%N ++ runes_of_ascii " emoji
    { BodyLength
, // packet A { u8 x, }
repeat
    //
    len , @tag(
3 ) zchar[ 0 ] u128 // packet A { u8 x, }
,@calculatedFrom( ""a\""b""
    )char[] u128 `u8 x,` , }
MetaData BodyLength {char[
1]
A	,
/// triple
// `tick` ""quote"" 'q'
rootA	int ,
// trailing space 
// packet A { u8 x, }
string
    //x
    len ,
char[] o// @lengthOf(
, // `tick` ""quote"" 'q'
uint8x u128 `` , } // @lengthOf(")).
Eval vm_compute in ("<<<M1306>>>" ++ check (runes_of_ascii "packet string_ { zchar[ 3 ] // c
stringy @lengthOf( packetx  )`u8 x,` //
, // `tick` ""quote"" 'q'
f64 string_ ``, } MetaData leftPad{ char[
    1 ] MetaDataX `crlf
line` ,
    metadata a1
`tab	here` ,	T o `line1
line2` , // " ++ [128512]%N ++ runes_of_ascii " emoji
o
trueish ,}options
{ }
MetaData
    // @lengthOf(
    T
{Foo Logon
    , Logon lengthOf , char[
    00 ]
    pack , char[7 ]
// @lengthOf(
// trailing space 
i8i8 `` ,}
")).
Eval vm_compute in ("<<<M661>>>" ++ check (runes_of_ascii "MetaData u8x
{ char[]a1 , int16 zchar `tab	here` , u16 charz `
`, stringy Pad
, i32 // @lengthOf(
Header ,zchar[ 7// c
]//	t
crc , }options// packet A { u8 x, }
{
    } packet charz{ repeat int16 packetx
, matchKey o ,
@calculatedFrom( ""it's"" ) MetaDataX @lengthOf( tag)
`a\`
// trailing space 
// " ++ [27880; 37322]%N ++ runes_of_ascii "
, zchar[
    255	] _x , i8	i64_ @lengthOf( Header
    )
    , } // trailing space ")).
Eval vm_compute in ("<<<M1308>>>" ++ check (runes_of_ascii "// `tick` ""quote"" 'q'
packet i8i8	{ // a // b
@rightPad( )  body @calculatedFrom(// a // b
""\" ++ [233]%N ++ runes_of_ascii """ ) , i64 Header @lengthOf(
trueish
) , @tag( 65535 )  @lengthOf( tag//
) @tag( 255
)
    repeat
    float32 repeatCount
, char[
1 ] rootA`u8 x,` , @lengthOf(
    _x ) @lengthOf(
    Header  ) @calculatedFrom( """"
)
//x
// trailing space 
i8i8 pack// trailing space 
, }

")).
Eval vm_compute in ("<<<M858>>>" ++ check (runes_of_ascii "MetaData _x{
    body
float
, float64
    x_y_z `tab	here` ,  char[00
]
o`a\`
, Z9_	crc
    `doc`
,} packet options1 { @lengthOf( T )@lengthOf( chars  ) @rightPad
(
    ' '  ) string_ falsey ,
    // packet A { u8 x, }
    } MetaData Pad
{ //x
Foo Z9_
    `crlf
line` , x_y_z packetx	,
    uint32 calculatedFrom , i64 falsey ,packetx As ``,  }")).
Eval vm_compute in ("<<<M4376>>>" ++ check (runes_of_ascii "MetaData u8x {
    char[] a1,
    int16 zchar `tab	here`,
    u16 charz `
    `,
    stringy Pad,
    i32 Header,
    zchar[7] crc,
}

options {
}

packet charz {
    repeat int16 packetx,
    matchKey o,
    @calculatedFrom(""it's"")
    MetaDataX @lengthOf(tag) `a\`,
    zchar[255] _x,
    i8 i64_ @lengthOf(Header),
}// trailing space")).
Eval vm_compute in ("<<<M1996>>>" ++ check (runes_of_ascii "MetaData
    u { }  options {
// c
// @lengthOf(
float = int8 ;rootA =false ; As =	int16 // `tick` ""quote"" 'q'
repeatCount
    // trailing space 
    =
    int16
; u8x =
    //	t
    '\x00' ; } options	{
    repeatCount repeatCount
= 0
u128
    //
    = false ; i64_
// trailing space 
// `tick` ""quote"" 'q'
= '0' ; //	t
}
")).
Eval vm_compute in ("<<<M1923>>>" ++ check (runes_of_ascii "MetaData
    u { }  options {
// c
// @lengthOf(
float = int8 ;rootA =false repeat As =	int16 // `tick` ""quote"" 'q'
repeatCount
    // trailing space 
    =
    int16
; u8x =
    //	t
    '\x00' ; } options	{
    repeatCount
= 0
u128
    //
    = false ; i64_
// trailing space 
// `tick` ""quote"" 'q'
= '0' ; //	t
}
")).
Eval vm_compute in ("<<<M1911>>>" ++ check (runes_of_ascii "MetaData
    u { }  options {
// c
// @lengthOf(
float = int8 ;rootA = =false ; As =	int16 // `tick` ""quote"" 'q'
repeatCount
    // trailing space 
    =
    int16
; u8x =
    //	t
    '\x00' ; } options	{
    repeatCount
= 0
u128
    //
    = false ; i64_
// trailing space 
// `tick` ""quote"" 'q'
= '0' ; //	t
}
")).
Eval vm_compute in ("<<<M2059>>>" ++ check (runes_of_ascii "MetaData
    u { }  options {
// c
// @lengthOf(
float = int8 ;rootA =false ; As =	int16 // `tick` ""quote"" 'q'
repeatCount
    // trailing space 
    =
    int16
; u8x =
    //	t
    '\x00' ; } options	{
    repeatCount
""= 0
u128
    //
    = false ; i64_
// trailing space 
// `tick` ""quote"" 'q'
= '0' ; //	t
}
")).
Eval vm_compute in ("<<<M1962>>>" ++ check (runes_of_ascii "MetaData
    u { }  options {
// c
// @lengthOf(
float = int8 ;rootA =false ; As =	int16 // `tick` ""quote"" 'q'
repeatCount
    // trailing space 
    =
    int16
; = u8x
    //	t
    '\x00' ; } options	{
    repeatCount
= 0
u128
    //
    = false ; i64_
// trailing space 
// `tick` ""quote"" 'q'
= '0' ; //	t
}
")).
Eval vm_compute in ("<<<M1920>>>" ++ check (runes_of_ascii "MetaData
    u { }  options {
// c
// @lengthOf(
float = int8 ;rootA =false  As =	int16 // `tick` ""quote"" 'q'
repeatCount
    // trailing space 
    =
    int16
; u8x =
    //	t
    '\x00' ; } options	{
    repeatCount
= 0
u128
    //
    = false ; i64_
// trailing space 
// `tick` ""quote"" 'q'
= '0' ; //	t
}
")).
Eval vm_compute in ("<<<M2030>>>" ++ check (runes_of_ascii "MetaData
    u { }  options {
// c
// @lengthOf(
float = int8 ;rootA =false ; As =	int16 // `tick` ""quote"" 'q'
repeatCount
    // trailing space 
    =
    int16
; u8x =
    //	t
    '\x00' ; } options	{
    repeatCount
= 0
u128
    //
    = false ; 
// trailing space 
// `tick` ""quote"" 'q'
= '0' ; //	t
}
")).
Eval vm_compute in ("<<<M1940>>>" ++ check (runes_of_ascii "MetaData
    u { }  options {
// c
// @lengthOf(
float = int8 ;rootA =false ; As =	int16 // `tick` ""quote"" 'q'

    // trailing space 
    =
    int16
; u8x =
    //	t
    '\x00' ; } options	{
    repeatCount
= 0
u128
    //
    = false ; i64_
// trailing space 
// `tick` ""quote"" 'q'
= '0' ; //	t
}
")).
Eval vm_compute in ("<<<M188>>>" ++ check (runes_of_ascii "packet options1 {// " ++ [128512]%N ++ runes_of_ascii " emoji
@calculatedFrom( ""abc""
) //
repeat BodyLength , a1
@lengthOf(
    // trailing space 
    i8i8
    // " ++ [128512]%N ++ runes_of_ascii " emoji
    ) ,
    } packet	asx
    {char[ 0] o`crlf
line`
,char[] options1 `crlf
line`
,
@tag( 42 )
    repeat Foo  ,
asx @calculatedFrom(
    ""`tick`"") ,}")).
Eval vm_compute in ("<<<M238>>>" ++ check (runes_of_ascii "MetaData
    a1 { // a // b
}options { o
= 255
; } packet f32a //
{ uint8 _x	@calculatedFrom( ""x y""
)	,}MetaData
    options1
{  f64 lengthOf `it's`
,lengthOf metadata,	int8 crc
`
` /// triple
,
    char[0123456789//	t
]o ,
// " ++ [128512]%N ++ runes_of_ascii " emoji
// packet A { u8 x, }
char[] //	t
a1,}
")).
Eval vm_compute in ("<<<M3682>>>" ++ check (runes_of_ascii "packet options1 {
    @leftPad('0')
    // " ++ [128512]%N ++ runes_of_ascii " emoji
    match uint8x as T {
        42 : stringy,
        [""1""] : i64_,
        //
        3 : string_,
        ""a\\"" : metadata,
        ""CRC32"" : int,
        //x
        ""packet"" : rootA,
    },
}

root packet i8i8 {
}")).
Eval vm_compute in ("<<<M3672>>>" ++ check (runes_of_ascii "
packet  //
    x
{ }  packet 
lengthOf  {
	repeat a1
{ lengthOf

@lengthOf(	x_y_z ), 	 // `tick` ""quote"" 'q'

  zchar[

0123456789] Packet ,

leftPad

u

    , zchar[
1 ]Foo 

// @lengthOf(
  @calculatedFrom(
""`tick`"" 	 // " ++ [27880; 37322]%N ++ runes_of_ascii "
      )

    ,
	}
,
}
")).
Eval vm_compute in ("<<<M577>>>" ++ check (runes_of_ascii "packet int {
int64 msg_type @calculatedFrom(// trailing space 
""\" ++ [233]%N ++ runes_of_ascii """ ),
} options {
packetx = false tag = // trailing space 
true
    u128= i32 ; msg_type= true
pack = u32 ;
    } options {
    Packet
= char[] ; } root packet roots{ zchar[ 42]
float ,}
")).
Eval vm_compute in ("<<<M1530>>>" ++ check (runes_of_ascii "packet
//	t
// trailing space 
_x {
// packet A { u8 x, }
// c
char[
3
    ] u8x @lengthOf(
true ) , @calculatedFrom(""" ++ [128512]%N ++ runes_of_ascii """ // @lengthOf(
)
i16	Foo
@lengthOf(	string_
    )`doc`	, repeat	i64 metadata , @lengthOf( string_
) i8 // c
u  `line1
line2`	,
}
")).
Eval vm_compute in ("<<<M1559>>>" ++ check (runes_of_ascii "packet
//	t
// trailing space 
_x {
// packet A { u8 x, }
// c
char[
3
    ] u8x @lengthOf(
u8x ) , @calculatedFrom(""" ++ [128512]%N ++ runes_of_ascii """ // @lengthOf(
)
Foo	i16
@lengthOf(	string_
    )`doc`	, repeat	i64 metadata , @lengthOf( string_
) i8 // c
u  `line1
line2`	,
}
")).
Eval vm_compute in ("<<<M1552>>>" ++ check (runes_of_ascii "packet
//	t
// trailing space 
_x {
// packet A { u8 x, }
// c
char[
3
    ] u8x @lengthOf(
u8x ) , @calculatedFrom(""" ++ [128512]%N ++ runes_of_ascii """ // @lengthOf(

i16	Foo
@lengthOf(	string_
    )`doc`	, repeat	i64 metadata , @lengthOf( string_
) i8 // c
u  `line1
line2`	,
}
")).
Eval vm_compute in ("<<<M1605>>>" ++ check (runes_of_ascii "packet
//	t
// trailing space 
_x {
// packet A { u8 x, }
// c
char[
3
    ] u8x @lengthOf(
u8x ) , @calculatedFrom(""" ++ [128512]%N ++ runes_of_ascii """ // @lengthOf(
)
i16	Foo
@lengthOf(	string_
    )`doc`	, repeat	i64 ' ' , @lengthOf( string_
) i8 // c
u  `line1
line2`	,
}
")).
Eval vm_compute in ("<<<M1327>>>" ++ check (runes_of_ascii "
packet
    //x
    leftPad {
    }options
{ Foo
= ""1""zchar
    = 65535 uint8x  = zchar[ 10
    ] ;
} MetaData
    u128 { f32a x
, i16 u8x
    `two words` , BodyLength metadata `// not a comment` // a // b
,
    } options {As= '\x00'
;}")).
Eval vm_compute in ("<<<M2019>>>" ++ check (runes_of_ascii "MetaData
    u { }  options {
// c
// @lengthOf(
float = int8 ;rootA =false ; As =	int16 // `tick` ""quote"" 'q'
repeatCount
    // trailing space 
    =
    int16
; u8x =
    //	t
    '\x00' ; } options	{
    repeatCount
= 0
u128")).
Eval vm_compute in ("<<<M1243>>>" ++ check (runes_of_ascii "packet Header { char
i8i8 @calculatedFrom( // c
""a	b""
    ) , //x
u16
    Z9_ ,	} MetaData As	{
// a // b
//x
zchar[ 10
]crc , } MetaData stringy{
body metadata `
` , char[] trueish	`doc`
, char[] Logon `" ++ [28040; 24687; 31867; 22411]%N ++ runes_of_ascii "` ,
    }
")).
Eval vm_compute in ("<<<M1692>>>" ++ check (runes_of_ascii "options { trueish = ""`tick`"" ""`tick`"" ; string_= """ ++ [233]%N ++ runes_of_ascii "t" ++ [233]%N ++ runes_of_ascii """
    // c
    } root
    packet body { stringy @calculatedFrom(
""a	b"" ) `line1
line2` , }
packet Logon {
    @leftPad(
    ' ' ) //	t
u16 string_ `u8 x,` ,
}
")).
Eval vm_compute in ("<<<M1782>>>" ++ check (runes_of_ascii "options { trueish = ""`tick`"" ; string_= """ ++ [233]%N ++ runes_of_ascii "t" ++ [233]%N ++ runes_of_ascii """
    // c
    } root
    packet body { stringy @calculatedFrom(
""a	b"" ) `line1
line2` , }
packet Logon Logon {
    @leftPad(
    ' ' ) //	t
u16 string_ `u8 x,` ,
}
")).
Eval vm_compute in ("<<<M1737>>>" ++ check (runes_of_ascii "options { trueish = ""`tick`"" ; string_= """ ++ [233]%N ++ runes_of_ascii "t" ++ [233]%N ++ runes_of_ascii """
    // c
    } root
    packet body { { stringy @calculatedFrom(
""a	b"" ) `line1
line2` , }
packet Logon {
    @leftPad(
    ' ' ) //	t
u16 string_ `u8 x,` ,
}
")).
Eval vm_compute in ("<<<M1008>>>" ++ check (runes_of_ascii "packet roots{ @lengthOf(
pack )@tag( 4294967296 // c
) As  i8i8// @lengthOf(
`line1
line2` , repeat Header A,@lengthOf(roots	)
@lengthOf(
packetx)
@tag(// trailing space 
42
) repeat int8
Logon ,
    }
")).
Eval vm_compute in ("<<<M1803>>>" ++ check (runes_of_ascii "options { trueish = ""`tick`"" ; string_= """ ++ [233]%N ++ runes_of_ascii "t" ++ [233]%N ++ runes_of_ascii """
    // c
    } root
    packet body { stringy @calculatedFrom(
""a	b"" ) `line1
line2` , }
packet Logon {
    @leftPad(
    ) ' ' //	t
u16 string_ `u8 x,` ,
}
")).
Eval vm_compute in ("<<<M1784>>>" ++ check (runes_of_ascii "options { trueish = ""`tick`"" ; string_= """ ++ [233]%N ++ runes_of_ascii "t" ++ [233]%N ++ runes_of_ascii """
    // c
    } root
    packet body { stringy @calculatedFrom(
""a	b"" ) `line1
line2` , }
packet i8 {
    @leftPad(
    ' ' ) //	t
u16 string_ `u8 x,` ,
}
")).
Eval vm_compute in ("<<<M1162>>>" ++ check (runes_of_ascii "packet
chars{ @tag( 7 )char options1
    // a // b
    @calculatedFrom( ""a\""b"" ) , Logon	,  zchar[	42 ]u128 ,} options { roots
    =
false ; u128 ='0' ; metadata = uint8 ;  falsey
= //x
true ;	}
")).
Eval vm_compute in ("<<<M4123>>>" ++ check (runes_of_ascii "packet roots {
    @lengthOf(pack)
    @tag(4294967296)
    As i8i8 `line1
        line2`,
    repeat Header A,
    @lengthOf(roots)
    @lengthOf(packetx)
    @tag(42)
    repeat int8 Logon,
}")).
Eval vm_compute in ("<<<M3849>>>" ++ check (runes_of_ascii "root packet rootA {
}

root packet _x {
    i64_,// a // b
}

MetaData options1 {
    a1 float `crlf
    line`,
    u8x falsey `" ++ [233]%N ++ runes_of_ascii "`,
    f32a MetaDataX,
    int64 u8x,
}

packet f32a {
}")).
Eval vm_compute in ("<<<M4515>>>" ++ check (runes_of_ascii "

  packet	Logon 
{stringy
crc
    `crlf
line` 
, T@calculatedFrom(  ""a\""b""  ) 	 // packet A { u8 x, }
  `u8 x,`	// " ++ [27880; 37322]%N ++ runes_of_ascii "
    ,

    }	options  {
    leftPad

    = '\x00' 
}
")).
Eval vm_compute in ("<<<M216>>>" ++ check (runes_of_ascii "MetaData msg_type { }root
    packet T{@rightPad (
    )
    repeat char[ 3 ]	x_y_z ,
    @lengthOf(
roots  ) string	i64_ @lengthOf(
u8x // a // b
) `// not a comment`	,}")).
Eval vm_compute in ("<<<M4280>>>" ++ check (runes_of_ascii "
options
    { 
matchKey

    = 10 }

MetaData	options1 {
	matchKey o  `doc`	,  rootA
	tag , uint32
_x 	 /// triple
`line1
line2` ,	char[] chars `say ""hi""` ,

} ")).
Eval vm_compute in ("<<<M4170>>>" ++ check (runes_of_ascii "// top
root packet matchKey {
    // c3
    zchar[3] pack @calculatedFrom(""a	b"") `doc`,// c12
}// c13

options {
}// c16

MetaData A {
    int8 msg_type,
}// c23")).
Eval vm_compute in ("<<<M531>>>" ++ check (runes_of_ascii "options
    { // " ++ [27880; 37322]%N ++ runes_of_ascii "
i64_//x
= ""1""
} options {matchKey =
65535 Header = ""x y"" stringy
=
//	t
// a // b
true;  } MetaData int {	i8i8
charz `u8 x,` ,
    } 	 ")).
Eval vm_compute in ("<<<M2389>>>" ++ check (runes_of_ascii "// c
packet x { @lengthOf( metadata ) repeat lengthOf
,a1{
trueish	,// c
repeat//	t
MetaDataX , } , zchar[
    42	] ] rootA // `tick` ""quote"" 'q'
,
    }
")).
Eval vm_compute in ("<<<M2150>>>" ++ check (runes_of_ascii "options{
_x
= true
} options
{ o	= /// triple
false
    ; chars
= ""\n"" } } root packet	Pad
/// triple
// packet A { u8 x, }
{	chars
    // a // b
    ,}")).
Eval vm_compute in ("<<<M2182>>>" ++ check (runes_of_ascii "options{
_x
= true
} options
{ o	= /// triple
false
    ; chars
= ""\n"" } root packet	Pad
/// triple
// packet A { u8 x, }
{	chars
    // a // b
    i8}")).
Eval vm_compute in ("<<<M2116>>>" ++ check (runes_of_ascii "options{
_x
= true
} options
{ =	o /// triple
false
    ; chars
= ""\n"" } root packet	Pad
/// triple
// packet A { u8 x, }
{	chars
    // a // b
    ,}")).
Eval vm_compute in ("<<<M2149>>>" ++ check (runes_of_ascii "options{
_x
= true
} options
{ o	= /// triple
false
    ; chars
= ""\n""  root packet	Pad
/// triple
// packet A { u8 x, }
{	chars
    // a // b
    ,}")).
Eval vm_compute in ("<<<M2079>>>" ++ check (runes_of_ascii "f64{
_x
= true
} options
{ o	= /// triple
false
    ; chars
= ""\n"" } root packet	Pad
/// triple
// packet A { u8 x, }
{	chars
    // a // b
    ,}")).
Eval vm_compute in ("<<<M3572>>>" ++ check (runes_of_ascii "root packet // c1
P
    // c2
{
    // c3
repeat // c4
string ss // c6
,
    // c7
repeat // c8
u16
    // c9
ns
    // c10
, // c11
}
    // c12
")).
Eval vm_compute in ("<<<M518>>>" ++ check (runes_of_ascii "
MetaData packetx
    {	len Packet ,x
// `tick` ""quote"" 'q'
// a // b
A ,
matchKey lengthOf `{ , }`
    , char[
7 ]
    Z9_ , A
    rootA,
}
")).
Eval vm_compute in ("<<<M3800>>>" ++ check (runes_of_ascii "

  options	// a // b
    	{

    crc

=

    '0' ;	_x
=  ""a\""b""trueish
	=

char[ 
1

]
charz // c
		=

00	;  As= 	 // c
	""a\""b""
}
")).
Eval vm_compute in ("<<<M4339>>>" ++ check (runes_of_ascii "packet 
A {match
	k

    as 
n 
{[ ""a""  ,
	""bb""
    ,
007
,
    ""d""

,""e""
	,
	66	,	""g""

,
""h""]  : B  ,

    2	:
	C
    } ,
}")).
Eval vm_compute in ("<<<M4562>>>" ++ check (runes_of_ascii "packet uint8x {
    @tag(65535)
    char[7] trueish @lengthOf(options1) `{ , }`,
}

MetaData rootA {
}

root packet leftPad {
}")).
Eval vm_compute in ("<<<M1438>>>" ++ check (runes_of_ascii "
packet
    falsey { Header@calculatedFrom(""packet""  ) , char[ char[
    0123456789 ] packetx
    , } // `tick` ""quote"" 'q'")).
Eval vm_compute in ("<<<M3313>>>" ++ check (runes_of_ascii "root
// c
packet matchKey { zchar[ 3 ] pack @calculatedFrom( ""a	b"" ) `doc` , } options { } MetaData A { int8 msg_type , }")).
Eval vm_compute in ("<<<M3345>>>" ++ check (runes_of_ascii "root packet matchKey { zchar[ 3 ] pack @calculatedFrom( ""a	b"" ) `doc` , } options { }
// c
MetaData A { int8 msg_type , }")).
Eval vm_compute in ("<<<M1556>>>" ++ check (runes_of_ascii "packet
//	t
// trailing space 
_x {
// packet A { u8 x, }
// c
char[
3
    ] u8x @lengthOf(
u8x ) , @calculatedFrom(""" ++ [128512]%N ++ runes_of_ascii """")).
Eval vm_compute in ("<<<M1434>>>" ++ check (runes_of_ascii "
packet
    falsey { Header@calculatedFrom(""packet""  ) char[ ,
    0123456789 ] packetx
    , } // `tick` ""quote"" 'q'")).
Eval vm_compute in ("<<<M626>>>" ++ check (runes_of_ascii "packet i8i8 { } packet options1{
    @lengthOf( uint8x
    ) pack @lengthOf(MetaDataX
) // c
, uint8x `say ""hi""`, }")).
Eval vm_compute in ("<<<M4452>>>" ++ check (runes_of_ascii "packet A {
    u16 len @lengthOf(body) `
    `,
    u32 crc @calculatedFrom(""CRC32"") `
    `,
    string body,
}")).
Eval vm_compute in ("<<<M3778>>>" ++ check (runes_of_ascii "
packet chars{} 
packet
	MetaDataX
{
	@tag( 42
    // c
	) 
i16 
string_
	, repeat
x

    `say ""hi""`,}

")).
Eval vm_compute in ("<<<M2986>>>" ++ check (runes_of_ascii "packet A {
  match k as n {
    [""a"", ""bb"", 007, ""d"", ""e"", 66, ""g"", ""h"", 9, ""j"", ""k""] : B
    2 : C
  },
}")).
Eval vm_compute in ("<<<M2996>>>" ++ check (runes_of_ascii "packet A {
  match k as n {
    [1, 22, ""c c"", 4, 5, ""f"", 7, 8, ""i"", 10, 11, ""l""] : B,
    2 : C
  },
}")).
Eval vm_compute in ("<<<M2980>>>" ++ check (runes_of_ascii "packet A {
  match k as n {
    [1, ""bb"", 007, ""d"", 5, ""f"", 7, ""h"", 9, ""j"", 11] : B
    2 : C
  },
}")).
Eval vm_compute in ("<<<M2984>>>" ++ check (runes_of_ascii "packet A {
  match k as n {
    [1, 22, ""c c"", 4, 5, ""f"", 7, 8, ""i"", 10, 11] : B
    2 : C
  },
}")).
Eval vm_compute in ("<<<M172>>>" ++ check (runes_of_ascii "
options
    // " ++ [128512]%N ++ runes_of_ascii " emoji
    {  roots= false ; f32a = ""// no comment""
// " ++ [128512]%N ++ runes_of_ascii " emoji
// a // b
;
}
")).
Eval vm_compute in ("<<<M2239>>>" ++ check (runes_of_ascii "options
{ } options { BodyLength string u16 Header= f64 ; u128 =
    true
    ; } // a // b")).
Eval vm_compute in ("<<<M3268>>>" ++ check (runes_of_ascii "
// c
MetaData float { float64 charz `
` , } root packet chars { @rightPad ( '0' ) Foo , }")).
Eval vm_compute in ("<<<M3281>>>" ++ check (runes_of_ascii "MetaData float { float64 charz `
` , // c
} root packet chars { @rightPad ( '0' ) Foo , }")).
Eval vm_compute in ("<<<M3492>>>" ++ check (runes_of_ascii "packet chars { }
// c
packet MetaDataX { @tag( 42 ) i16 string_ , repeat x `say ""hi""` , }")).
Eval vm_compute in ("<<<M1944>>>" ++ check (runes_of_ascii "MetaData
    u { }  options {
// c
// @lengthOf(
float = int8 ;rootA =false ; As =	int16")).
Eval vm_compute in ("<<<M2298>>>" ++ check (runes_of_ascii "options
{ } options { BodyLength= u16 Header= f64 ; " ++ [8232]%N ++ runes_of_ascii "u128 =
    true
    ; } // a // b")).
Eval vm_compute in ("<<<M2228>>>" ++ check (runes_of_ascii "options
{ } options BodyLength {= u16 Header= f64 ; u128 =
    true
    ; } // a // b")).
Eval vm_compute in ("<<<M3231>>>" ++ check (runes_of_ascii "packet metadata { Logon { A `" ++ [28040; 24687; 31867; 22411]%N ++ runes_of_ascii "` , tag o // c
, } , zchar len `// not a comment` , }")).
Eval vm_compute in ("<<<M2251>>>" ++ check (runes_of_ascii "options
{ } options { BodyLength= u16 Header f64 ; u128 =
    true
    ; } // a // b")).
Eval vm_compute in ("<<<M3451>>>" ++ check (runes_of_ascii "packet o { repeat Logon uint8x , } options { asx = // c
zchar[ 3 ] stringy = '\x00' }")).
Eval vm_compute in ("<<<M270>>>" ++ check (runes_of_ascii "MetaData _x{ } packet calculatedFrom {
}MetaData
_x	{i32
    body
    , uint8 x , }")).
Eval vm_compute in ("<<<M3396>>>" ++ check (runes_of_ascii "MetaData body // c
{ i64 pack `it's` , } packet stringy { int16 calculatedFrom , }")).
Eval vm_compute in ("<<<M2234>>>" ++ check (runes_of_ascii "options
{ } options { match= u16 Header= f64 ; u128 =
    true
    ; } // a // b")).
Eval vm_compute in ("<<<M2923>>>" ++ check (runes_of_ascii "packet A {
  match k as n {
    [1, 22, 007, 4, 5, 66, 7] : B,
    2 : C
  },
}")).
Eval vm_compute in ("<<<M630>>>" ++ check (runes_of_ascii "packet u { repeat uint64 Pad
`a\` ,} packet string_ { repeat a1 Packet
,}
")).
Eval vm_compute in ("<<<M451>>>" ++ check (runes_of_ascii "options{ } root
packet
    packetx {
// `tick` ""quote"" 'q'
// " ++ [128512]%N ++ runes_of_ascii " emoji
}
")).
Eval vm_compute in ("<<<M4165>>>" ++ check (runes_of_ascii "MetaData x

/// triple
	{
int32  // " ++ [27880; 37322]%N ++ runes_of_ascii "
    a1  `say ""hi""`
	,

    }")).
Eval vm_compute in ("<<<M2739>>>" ++ check (runes_of_ascii "packet int32 ""packet"" = int64 uint64 : char[] 42 `{ , }` options 10")).
Eval vm_compute in ("<<<M321>>>" ++ check (runes_of_ascii "MetaData // " ++ [128512]%N ++ runes_of_ascii " emoji
Header { // trailing space 
u64 falsey ,
}")).
Eval vm_compute in ("<<<M235>>>" ++ check (runes_of_ascii "// " ++ [128512]%N ++ runes_of_ascii " emoji
options {repeatCount = u32 ;tag = ' ' ; } // a // b")).
Eval vm_compute in ("<<<M1029>>>" ++ check (runes_of_ascii "// packet A { u8 x, }
MetaData MetaDataX {
    u8 roots , }")).
Eval vm_compute in ("<<<M3371>>>" ++ check (runes_of_ascii "packet x { @rightPad // c
( ) repeat roots Logon `doc` , }")).
Eval vm_compute in ("<<<M3879>>>" ++ check (runes_of_ascii "MetaData pack {
}

packet i64_ {
    uint16 T,// a // b
}")).
Eval vm_compute in ("<<<M1139>>>" ++ check (runes_of_ascii "options {
    // " ++ [27880; 37322]%N ++ runes_of_ascii "
    len =
// @lengthOf(
// c
3 }
")).
Eval vm_compute in ("<<<M3163>>>" ++ check (runes_of_ascii "packet A { u8 x, } // a
// b
packet B {} // c
// d")).
Eval vm_compute in ("<<<M2842>>>" ++ check (runes_of_ascii "uint16 int16 ; = char[ @leftPad repeat u16 [ as")).
Eval vm_compute in ("<<<M2650>>>" ++ check (runes_of_ascii "MetaData M { u8 x `d` , y z `e`, char[3] w, }")).
Eval vm_compute in ("<<<M3035>>>" ++ check (runes_of_ascii "MetaData M {
    u8 x `x
`,
    T t `x
`,
}")).
Eval vm_compute in ("<<<M4335>>>" ++ check (runes_of_ascii "options {
    repeatCount = 3/// triple
}")).
Eval vm_compute in ("<<<M1097>>>" ++ check (runes_of_ascii "// " ++ [27880; 37322]%N ++ runes_of_ascii "
packet
    Header {
}
// " ++ [128512]%N ++ runes_of_ascii " emoji
")).
Eval vm_compute in ("<<<M2801>>>" ++ check (runes_of_ascii "u64 { @lengthOf( root false i8 repeat")).
Eval vm_compute in ("<<<M1506>>>" ++ check (runes_of_ascii "packet
//	t
// trailing space 
_x {")).
Eval vm_compute in ("<<<M3012>>>" ++ check (runes_of_ascii "root packet A {
    u8 x `a
b`,
}")).
Eval vm_compute in ("<<<M2123>>>" ++ check (runes_of_ascii "options{
_x
= true
} options
{ o")).
Eval vm_compute in ("<<<M891>>>" ++ check (runes_of_ascii "options {
zchar	= '\x00' ;
}
")).
Eval vm_compute in ("<<<M1085>>>" ++ check (runes_of_ascii "options { pack  =  false
;
}
")).
Eval vm_compute in ("<<<M2599>>>" ++ check (runes_of_ascii "packet A { B { u8 x, } C, }")).
Eval vm_compute in ("<<<M3253>>>" ++ check (runes_of_ascii "
// c
root packet pack { }")).
Eval vm_compute in ("<<<M1136>>>" ++ check (runes_of_ascii "// packet A { u8 x, }

")).
Eval vm_compute in ("<<<M2235>>>" ++ check (runes_of_ascii "options
{ } options {")).
Eval vm_compute in ("<<<M2620>>>" ++ check (runes_of_ascii "packet A { @tag(1) }")).
Eval vm_compute in ("<<<M2646>>>" ++ check (runes_of_ascii "MetaData M { x y, }")).
Eval vm_compute in ("<<<M2662>>>" ++ check (runes_of_ascii "options { a = 1, }")).
Eval vm_compute in ("<<<M3135>>>" ++ check (runes_of_ascii "packet A {
}
// c" ++ [65279]%N)).
Eval vm_compute in ("<<<M3093>>>" ++ check (runes_of_ascii "packet A {
}// c" ++ [8232]%N)).
Eval vm_compute in ("<<<M1380>>>" ++ check (runes_of_ascii "packet x  { }
")).
Eval vm_compute in ("<<<M248>>>" ++ check (runes_of_ascii "
options
{}")).
Eval vm_compute in ("<<<M2487>>>" ++ check (runes_of_ascii "@lengthOf(")).
Eval vm_compute in ("<<<M2809>>>" ++ check ([27]%N ++ runes_of_ascii "" ++ [65533; 65533; 8; 65533]%N ++ runes_of_ascii " l")).
Eval vm_compute in ("<<<M2442>>>" ++ check (runes_of_ascii "uint88")).
Eval vm_compute in ("<<<M2485>>>" ++ check (runes_of_ascii "@left")).
Eval vm_compute in ("<<<M2445>>>" ++ check (runes_of_ascii "i8i8")).
Eval vm_compute in ("<<<M2471>>>" ++ check (runes_of_ascii "'0'")).
Eval vm_compute in ("<<<M1001>>>" ++ check (runes_of_ascii "  ")).
Eval vm_compute in ("<<<M2674>>>" ++ check (runes_of_ascii "}")).
