From FP Require Import Lexer Parser ShowPT Digest Formatter.
From Coq Require Import String List NArith.
Import ListNotations.
Open Scope string_scope.
Set Printing Width 100000000.
Set Printing Depth 100000000.
Definition show_fres (r : fres) : string :=
  match r with
  | FOk s => "OK:" ++ sh_escaped s ""
  | FErr s => "ERR:" ++ sh_escaped s ""
  | FPanic p => "PANIC:" ++ p
  end.
Definition check (rs : list rune) : string := digest (show_fres (format_res rs)).
Definition full (rs : list rune) : string := show_fres (format_res rs).
Eval vm_compute in ("<<<M814>>>" ++ check (runes_of_ascii "//	t
packet charz // " ++ [128512]%N ++ runes_of_ascii " emoji
{ @leftPad ( ' '
    )repeat	As `line1
line2` , match tag
// packet A { u8 x, }
// " ++ [27880; 37322]%N ++ runes_of_ascii "
as
Logon { 007: roots ,
""" ++ [128512]%N ++ runes_of_ascii """
    // trailing space 
    :
    calculatedFrom
[65535
    , ""x y"",0 ,
"""" , """" ]: body // c
, ""\n"":	BodyLength, }
    , @leftPad
( '\x00' ) char[ 255
]
    msg_type
@lengthOf( matchKey ) `line1
line2` , u16 options1 @calculatedFrom(""{,}"" ) `two words` ,
Foo {repeat rootA , crc f32a `crlf
line` ,},@lengthOf( packetx	) repeat char[ 4294967296
]
i64_	,  @rightPad ( '0'
) roots stringy
    ,string a1	, @rightPad ( '\x00')
@rightPad ( // " ++ [27880; 37322]%N ++ runes_of_ascii "
'0' ) match
    Header as charz{ 3 :
repeatCount ""{,}"" :	len ,
    } ,@tag( 4294967296 )repeat
i8i8
//
// `tick` ""quote"" 'q'
matchKey `it's`
    ,
}  packet // " ++ [27880; 37322]%N ++ runes_of_ascii "
metadata {
    o { char[] Pad ,
    // `tick` ""quote"" 'q'
    match	repeatCount// @lengthOf(
as Z9_ {	0123456789 //
:  msg_type 4294967296:trueish
,  [""packet"",
""x y"" ]
    :falsey}  , repeat int string_ , // `tick` ""quote"" 'q'
}, @tag(
// a // b
// 50% %s
007
// trailing space 
// packet A { u8 x, }
)
    match Pad
    as
leftPad { [
    ""a\""b"", ""it's"",	""x y"" ,	""it's""  , 007 ,
""`tick`"" , 65535
] :
Header
[
42] : charz ,
007 : rootA , },
zchar[ 0123456789
]
falsey @lengthOf( metadata
    //	t
    ) , A {
    match x as /// triple
f32a {	0123456789 : repeatCount , [ """ ++ [28040; 24687]%N ++ runes_of_ascii """
    ]: tag
, 00 : i64_
},match lengthOf as	Packet {  65535 : string_
, // 50% %s
""a\""b""
    // c
    : roots,
4294967296	:
chars // @lengthOf(
,
    //x
    } ,
    char[
0
    ] x `" ++ [28040; 24687; 31867; 22411]%N ++ runes_of_ascii "` ,
    }
    , match msg_type as
Logon {
65535 : Pad ,}// " ++ [128512]%N ++ runes_of_ascii " emoji
,  @leftPad
( '0' ) repeat
metadata {repeat u32
    // a // b
    Foo`// not a comment`
,match _x // trailing space 
as Foo { // 50% %s
[ ""`tick`""] :
    Foo,
65535: repeatCount  , """ ++ [28040; 24687]%N ++ runes_of_ascii """	:crc""CRC32"" :
calculatedFrom , ""// no comment""
// a // b
// a // b
: lengthOf , }  , repeat int64 repeatCount
    ,
} ,
match Pad// c
as Packet {
""abc""  :
packetx , """" :rootA
    ,""a\""b"" :
    packetx ""\" ++ [233]%N ++ runes_of_ascii """ :f32a
    10	:
x_y_z , },
    u128 `// not a comment` ,@lengthOf( calculatedFrom
// " ++ [27880; 37322]%N ++ runes_of_ascii "
// " ++ [27880; 37322]%N ++ runes_of_ascii "
)match
string_
    // packet A { u8 x, }
    as  u {""" ++ [28040; 24687]%N ++ runes_of_ascii """
:x_y_z
    //
    255 :As	, 007 // " ++ [128512]%N ++ runes_of_ascii " emoji
:
// a // b
// packet A { u8 x, }
len """ ++ [233]%N ++ runes_of_ascii "t" ++ [233]%N ++ runes_of_ascii """ :
/// triple
// trailing space 
a1 0
// " ++ [27880; 37322]%N ++ runes_of_ascii "
//
:
Pad ,
    } ,}
")).
Eval vm_compute in ("<<<M264>>>" ++ check (runes_of_ascii "root packet body { o {a1
rootA , },@leftPad
( ' ' // a // b
)
    // packet A { u8 x, }
    charz int, repeat packetx
// trailing space 
// " ++ [128512]%N ++ runes_of_ascii " emoji
{ repeat Z9_{  lengthOf @calculatedFrom( ""`tick`""
    )
`a\` ,
} ,int8 i64_
// `tick` ""quote"" 'q'
// 50% %s
,} , @lengthOf(
    len ) repeat
    zchar{
    /// triple
    Pad a1 , int16 a1 @calculatedFrom(
    ""1""// 50% %s
) `` ,	rootA	{ match a1 as options1	{ 4294967296 :  Header ,""{,}""
    :i8i8 [ """ ++ [28040; 24687]%N ++ runes_of_ascii """ , 7 ] :x , """":i64_ , }
, f32a // " ++ [27880; 37322]%N ++ runes_of_ascii "
{
    repeat
    a1 ,
    // c
    len // c
@calculatedFrom( ""abc"") , } ,// `tick` ""quote"" 'q'
repeat	zchar[10 ] stringy	`a\`,
repeat calculatedFrom // " ++ [128512]%N ++ runes_of_ascii " emoji
{ repeat repeatCount
// c
//	t
, repeat i32 Pad `" ++ [28040; 24687; 31867; 22411]%N ++ runes_of_ascii "` ,	}
,} ,
lengthOf{ lengthOf @calculatedFrom( ""it's"") ,  char[]  Pad`say ""hi""`
, },
} ,
zchar[
0123456789 ]
chars,	float
@lengthOf(
asx )
, zchar{
    match msg_type as Packet { ""packet"" : packetx 1: chars , 0123456789
: metadata 255 : lengthOf
// trailing space 
/// triple
,""// no comment"": a1,// 50% %s
4294967296 :  pack , } ,
    }	, @leftPad (  ) char[ 00
    ] rootA ,
    MetaDataX { match float
    as body{
// `tick` ""quote"" 'q'
// @lengthOf(
[ ""a\""b"" , 007] :
// @lengthOf(
// 50% %s
_x  , } , match calculatedFrom as
x_y_z { // a // b
0123456789 :o 0 : a1 , }  ,_x{ match body// a // b
as	As	{
7: pack
,
// trailing space 
// `tick` ""quote"" 'q'
""it's""
    : f32a , } , }
, repeat
char[] x
    `a\`, } , }
packet x_y_z{repeat
Pad
    // c
    { int32 int
//	t
// a // b
@calculatedFrom( ""CRC32""
    )
    // c
    , }  , @tag( 3	)
    @lengthOf(roots )	@tag( 00 ) match rootA
    as
// trailing space 
// c
u{ [7] : string_ [// " ++ [128512]%N ++ runes_of_ascii " emoji
10
, ""CRC32""
,
007
]
    :
Logon
, 007
:metadata // `tick` ""quote"" 'q'
,
255:
/// triple
// c
As [ // " ++ [27880; 37322]%N ++ runes_of_ascii "
""packet""
    ]:zchar}
//x
// a // b
, }	packet roots	{	float64
/// triple
// `tick` ""quote"" 'q'
Packet, }
")).
Eval vm_compute in ("<<<M4281>>>" ++ check (runes_of_ascii "
packet

Logon{ string
    Header
`line1
line2`

    ,
@lengthOf(
u)char[]

    Z9_@calculatedFrom(
    ""x y"" ) ,
int @lengthOf(Packet

    // " ++ [128512]%N ++ runes_of_ascii " emoji

) 
,

    char[ 0] 
tag  ,// a // b

	match	crc 
as int

{ [  """" , 
10 
] :
pack

    ,	[

    42
,

007	, 1  // c
,
""\n""  ,""" ++ [28040; 24687]%N ++ runes_of_ascii """

] :

options1 
,0123456789 
      // " ++ [128512]%N ++ runes_of_ascii " emoji
    : 

// `tick` ""quote"" 'q'
// " ++ [128512]%N ++ runes_of_ascii " emoji
lengthOf
// `tick` ""quote"" 'q'
  //x
		,65535 :
matchKey """ ++ [128512]%N ++ runes_of_ascii """
:
    As , 
""\n""
    :charz ,}
,  int8 i8i8

,
	x_y_z  @lengthOf(	options1 ) , //x
  }
	packet
int {@lengthOf(

    BodyLength // @lengthOf(
	  ) 
        //x
@calculatedFrom( """"  )
	@calculatedFrom(

    // trailing space 
  ""// no comment"") repeat
char[]
leftPad
    // " ++ [128512]%N ++ runes_of_ascii " emoji
// " ++ [27880; 37322]%N ++ runes_of_ascii "
    	`100% of %d`

    ,

    MetaDataX
	`
`
,
        // a // b
    	// `tick` ""quote"" 'q'
repeat  i64 

// c
  // `tick` ""quote"" 'q'
T
	, 	 //
	repeat	float

{

    repeat

    zchar[

1] 
len `// not a comment`
, 	 // " ++ [128512]%N ++ runes_of_ascii " emoji
match Logon 
	    //	t
      as len {	[ 
255

    ]: options1 , // trailing space 
  	[

    ""a\""b"" ,  ""\" ++ [233]%N ++ runes_of_ascii """ , 
0123456789, 0123456789

    ,
        // `tick` ""quote"" 'q'
	// c
    	7
	]

    :
options1 
        // " ++ [27880; 37322]%N ++ runes_of_ascii "
  //
, 
[
4294967296
	, ""a\""b"" ]

:
    tag	42 :

T

    [ 
4294967296
,""`tick`""
] :charz
	,

[ 0

, """ ++ [233]%N ++ runes_of_ascii "t" ++ [233]%N ++ runes_of_ascii """
] : len
	}  ,
repeat
f64 zchar `say ""hi""`
    ,
	repeat
	i64 
i64_`// not a comment`

, 	 //	t
    }

    ,

match
	u128  as
Header
    { 
""" ++ [128512]%N ++ runes_of_ascii """	:

x_y_z

""// no comment""
	:

A,
    [
0

    ] :
	int
	,

    }

,@rightPad

    (

    ' '	)pack

    ,
}

")).
Eval vm_compute in ("<<<M3871>>>" ++ check (runes_of_ascii "
// top

options
    // c0

	{	// c1a
    	// c1b
    LittleEndian=

    // c3
true
// c4
	;  // c5
FixedStringPadFromLeft	=	// c7
true  // c8a
    	// c8b
	;  // c9a
// c9b

FixedStringPadChar=// c11a
  	// c11b
  '0'	// c12
	; 
    // c13
  	}
    // c14
  packet// c15
  Reject
	{@rightPad 
    // c18
    ( 	 // c19

  '0'  
  // c20
)char[  // c22
1 // c23a
	// c23b
	  ]	// c24
  Tail// c25a
	// c25b
    	,	// c26a
	  // c26b
string // c27
  	msgKind 
,	InQty95
// c30
      { 	 // c31
u8// c32
pad0 // c33
, 
} // c35
	  ,// c36a
    // c36b
    } packet // c38a
    // c38b
Order
    // c39

  {  uint32 // c41
  Ref	// c42a

// c42b
  ,// c43a
  // c43b
    repeat  // c44
  i16 
    // c45
  seqNo, 
    // c47
	@rightPad

(
	    // c49
    	'\x00' 
)  // c51
char[  
      // c52
	  5
// c53
    	] 
Tail // c55a
  // c55b
		,	// c56a

	// c56b
	Reject  , 	 // c58
    f64 // c59a
// c59b
clOrdID ,}packet 
	// c63
	Heartbeat // c64
  	{
	repeat// c66a
  // c66b
    Order 	 // c67a
    	// c67b
, // c68

  zchar[  // c69
    8// c70
] 	 // c71

	Tail  
  // c72
  , // c73a

// c73b
  }root
packet
Fill

    { // c78a
// c78b
  repeat	// c79a
    // c79b
		Order  // c80a
  	// c80b
    	,

    repeat	// c82
	string
        // c83

	lastPx// c84a
	// c84b
    ,
    // c85
    	} // c86
 
")).
Eval vm_compute in ("<<<M181>>>" ++ check (runes_of_ascii "MetaData int{ }packet T
    {char[ 65535 ]	options1
, @calculatedFrom(
    ""// no comment"" ) // " ++ [128512]%N ++ runes_of_ascii " emoji
leftPad { match
zchar as	charz  { [
    7 ,
0123456789 ,
    //
    007,
    3 ,0123456789] // " ++ [128512]%N ++ runes_of_ascii " emoji
: pack ,
}
    , } , @tag( 255 ) uint64 string_	@lengthOf( matchKey ) `{ , }` , @lengthOf( Pad
    /// triple
    ) repeat matchKey x_y_z , match body as f32a { """ ++ [28040; 24687]%N ++ runes_of_ascii """ : u} ,uint16 As @calculatedFrom(""CRC32"" ) , zchar {//	t
u8 lengthOf ,} ,
    }
packet
    BodyLength { matchKey { repeat string falsey,
    // " ++ [27880; 37322]%N ++ runes_of_ascii "
    } , packetx  @calculatedFrom(""// no comment"" )
    ,falsey
// packet A { u8 x, }
// packet A { u8 x, }
{ Packet
A , uint16
    u@calculatedFrom(""a\""b""
)
,//x
f32 charz @lengthOf( u ) `u8 x,`  ,// @lengthOf(
},
@leftPad// " ++ [27880; 37322]%N ++ runes_of_ascii "
( '\x00' )
    options1
    ,
@rightPad (
    '0'
    ) repeatCount{  repeat u8
body ,
    }// " ++ [128512]%N ++ runes_of_ascii " emoji
,
metadata @lengthOf(	chars
)
`a\`
, @rightPad ( )@lengthOf( Pad )
    @calculatedFrom( ""abc"") float ,  @calculatedFrom(
""" ++ [128512]%N ++ runes_of_ascii """) zchar[
007]
A ,
// 50% %s
// 50% %s
string Pad// @lengthOf(
`line1
line2` ,
} packet
MetaDataX{
    //
    repeat string As`a\` , } packet// a // b
As { string repeatCount @lengthOf(
    Header
)
    ,repeat stringy
    `tab	here`
// 50% %s
// @lengthOf(
,}
")).
Eval vm_compute in ("<<<M3717>>>" ++ check (runes_of_ascii "
packet	metadata {

char[ // trailing space 
  4294967296

]
	a1 // " ++ [27880; 37322]%N ++ runes_of_ascii "
,}
packet
BodyLength
	{ trueish,
char[00 
]

Logon	// " ++ [128512]%N ++ runes_of_ascii " emoji

	@lengthOf(

    As
	// " ++ [128512]%N ++ runes_of_ascii " emoji
// 50% %s

  ) ,
repeat

    uint32	u8x	// 50% %s
, char[]

    len
@lengthOf( 	 /// triple
	i8i8

    )
,packetx chars
	, 
    // packet A { u8 x, }
    string 
Packet @calculatedFrom( ""a	b""
),match len
as
msg_type
{

[
	42	]

    :x
    ,
},chars 
{	u128 
asx
, }, i32

As
	@calculatedFrom(
""a	b""  ) , repeat repeatCount 

// " ++ [27880; 37322]%N ++ runes_of_ascii "
{

repeat u8x 
{
	char[]_x
	`crlf
line`
	, match 
f32a  as  //	t
	i8i8
    {

    [/// triple
  007

    ,
4294967296
    ,  """ ++ [28040; 24687]%N ++ runes_of_ascii """ 
,  // packet A { u8 x, }
  ""a	b"" 	 // packet A { u8 x, }
    ,""// no comment"" ,

    ""a\""b"",
	    // trailing space 
	//
  ""CRC32"",
7 ]
: Foo
    0123456789
:Header,""it's""
    :
u 65535:
Foo
,

    65535 : 

/// triple
      //x
    stringy

,
	255
:f32a
    , //	t

},

match

A
    //	t
	as	u128

    {
	10 
:
chars

""{,}"" : i64_ ""\n"" ://	t
	o  ,""{,}""

    :

x_y_z// 50% %s
	,  [ 0123456789 
,

""" ++ [28040; 24687]%N ++ runes_of_ascii """	] :
a1

,
	},

    }
,
A@lengthOf( 
    // " ++ [27880; 37322]%N ++ runes_of_ascii "
  u8x

)
	,
}
,
	}

")).
Eval vm_compute in ("<<<M4009>>>" ++ check (runes_of_ascii "root packet Packet {
    char i64_,
    match crc as trueish {
        007 : pack,
        [""a\\"", 255] : a1,
        // packet A { u8 x, }
    },
    MetaDataX {
        char[1] Z9_ `100% of %d`,
    },
    @calculatedFrom(""a	b"")
    @tag(3)
    @tag(42)
    match stringy as calculatedFrom {
        """ ++ [233]%N ++ runes_of_ascii "t" ++ [233]%N ++ runes_of_ascii """ : Z9_,
        ""\n"" : uint8x,
        [""x y"", ""packet"", ""it's""] : repeatCount,
    },
    @tag(65535)
    int16 x `doc`,
    @leftPad('0')
    char[] options1,// 50% %s
    match len as As {
        [
            ""x y"", 00, ""it's"", ""1"", 10,
            ""`tick`"", ""// no comment""
        ] : crc,
        3 : T,
    },
}

options {
    calculatedFrom = f64
    calculatedFrom = '\x00';
    zchar = f32;
}

packet lengthOf {
    i8 leftPad,
    i8 uint8x @calculatedFrom(""packet"") `100% of %d`,
    @calculatedFrom("""")
    @tag(007)
    char[10] T @calculatedFrom(""""),
    u8x {
        // " ++ [128512]%N ++ runes_of_ascii " emoji
        zchar @lengthOf(u) `100% of %d`,
    },
    float `" ++ [233]%N ++ runes_of_ascii "`,
    i64 packetx,
    @lengthOf(BodyLength)
    string calculatedFrom,
    repeat zchar[00] roots,
}

packet T {
}
//x")).
Eval vm_compute in ("<<<M3559>>>" ++ check (runes_of_ascii "options {
    o = zchar[0];
    // 50% %s
    leftPad = '0';
    charz = ""packet"";
    zchar = i32;
    u8x = true
}

MetaData As {
    char[0] As `100% of %d`,
    i64 charz,
    tag len `tab	here`,//
    Logon leftPad `it's`,
    char[] x `crlf
    line`,
}

root packet _x {
}

packet Header {
    @leftPad('\x00')
    Header @lengthOf(metadata) `" ++ [28040; 24687; 31867; 22411]%N ++ runes_of_ascii "`,
}

root packet f32a {
    @lengthOf(int)
    repeat Foo {
        u32 i64_,
    },
    Packet @lengthOf(tag) `u8 x,`,
    @calculatedFrom(""" ++ [233]%N ++ runes_of_ascii "t" ++ [233]%N ++ runes_of_ascii """)
    @calculatedFrom(""a	b"")
    char[] lengthOf `{ , }`,// a // b
    repeat int16 falsey `
    `,
    _x u128,
    @lengthOf(pack)
    repeat int32 trueish `100% of %d`,// " ++ [27880; 37322]%N ++ runes_of_ascii "
    @lengthOf(i64_)
    match A as x_y_z {
        // @lengthOf(
        [
            """ ++ [28040; 24687]%N ++ runes_of_ascii """, 0123456789, 0, 7, 65535,
            ""{,}""
        ] : options1,
        ""`tick`"" : uint8x,
        ""packet"" : charz,
    },
    @tag(0123456789)
    char[10] roots @lengthOf(a1),
    f64 asx @calculatedFrom(""a	b""),
    u8 lengthOf @calculatedFrom(""\" ++ [233]%N ++ runes_of_ascii """),
}")).
Eval vm_compute in ("<<<M4293>>>" ++ check (runes_of_ascii "

  packet
A {
@tag( 0)match
	repeatCount as zchar  {[ 
0	// c
	, 3,

    ""a\\""  //x
    ,
00	]  :f32a} ,}

    packet
    matchKey	{  x_y_z `line1
line2`

,

    @rightPad 
(
	) @rightPad ( )float32

    rootA ,

    u32	MetaDataX

    @calculatedFrom(	""1"" 
) ,repeat

asx
	{

repeat
u16
	pack
,
    calculatedFrom a1

`line1
line2` ,repeat// `tick` ""quote"" 'q'
	char[ 
7  ]
As

``  ,

    }  // packet A { u8 x, }
    , 
@lengthOf(
    u8x
)

    float32 // c
	  asx 
`" ++ [233]%N ++ runes_of_ascii "`  // trailing space 
  ,  uint64
options1
@lengthOf(matchKey  ) 
`100% of %d`
    ,
    match
    i8i8

    as  chars {
42 	 // `tick` ""quote"" 'q'
	:
	Foo	,
	}  , 
Packet  _x
`u8 x,`  ,@tag(
	0 ) u64  Packet  @lengthOf(
    asx )	// " ++ [128512]%N ++ runes_of_ascii " emoji
`// not a comment`

    , 
@rightPad (  )  match
    falsey 
as
	As 
{	""a\""b"":_x

,

    ""a\\"":
    crc ,
    ""a\\""
: 
      /// triple
  	metadata

, 
[
	""""
, 255 ,	""" ++ [128512]%N ++ runes_of_ascii """

    ] 
:  
  // @lengthOf(
  falsey	},
}
")).
Eval vm_compute in ("<<<M763>>>" ++ check (runes_of_ascii "  root packet
msg_type { } packet calculatedFrom{
// " ++ [128512]%N ++ runes_of_ascii " emoji
// " ++ [27880; 37322]%N ++ runes_of_ascii "
repeat int32	Pad ,
    //
    }
MetaData
// c
//
Header { char[	65535
    ]As
    ,char[ 65535// 50% %s
]
A `tab	here`
,
    //
    char[ 0 ]
metadata, string// @lengthOf(
Pad , }
    options {crc	=
""a\""b""
;
options1 = ""// no comment"";
} packet Pad {
    repeat/// triple
u8 i64_ , @tag( 255 ) i64 BodyLength ,
    @tag( 0 ) repeat BodyLength u `doc`
, match
    BodyLength as zchar {65535: metadata ,
    00 : MetaDataX ,
7 :
roots """" : As
    , 007:
    _x , [	""" ++ [233]%N ++ runes_of_ascii "t" ++ [233]%N ++ runes_of_ascii """
, ""it's"",
3,
""" ++ [128512]%N ++ runes_of_ascii """ ,3 , 007
] :stringy
,} ,
repeat tag float ,// packet A { u8 x, }
@tag(
    // " ++ [27880; 37322]%N ++ runes_of_ascii "
    0 )
    @rightPad (
'0'
    ) repeat//x
Z9_{
    char[]
lengthOf
@calculatedFrom(""\" ++ [233]%N ++ runes_of_ascii """ )
`100% of %d`,  repeat zchar[ 255 ]  i8i8
/// triple
// `tick` ""quote"" 'q'
`u8 x,`
    ,repeat	i16 falsey `` , char[ 10 ]
    stringy , }
// @lengthOf(
// trailing space 
,
u16 int , }
")).
Eval vm_compute in ("<<<M1345>>>" ++ check (runes_of_ascii "packet uint8x // @lengthOf(
{ match MetaDataX
    as T	{0123456789 : options1 , } , zchar[ //x
255
] x_y_z ,
    @lengthOf( Logon ) char[ 255 // a // b
]
    x `" ++ [233]%N ++ runes_of_ascii "` ,match Logon as
pack{
    ""packet""
: tag ,} , int@calculatedFrom(""" ++ [233]%N ++ runes_of_ascii "t" ++ [233]%N ++ runes_of_ascii """) `" ++ [28040; 24687; 31867; 22411]%N ++ runes_of_ascii "`, char[ 255 ]
    trueish
@calculatedFrom(""a\""b"" ) ,zchar , } options {a1 = zchar[
7
    ]
// @lengthOf(
// a // b
;
//	t
// packet A { u8 x, }
}
    options { }
options{ //x
matchKey = ""it's"" ; } packet calculatedFrom // " ++ [27880; 37322]%N ++ runes_of_ascii "
{ char[] u8x
    @calculatedFrom(
""" ++ [233]%N ++ runes_of_ascii "t" ++ [233]%N ++ runes_of_ascii """ ) ,
@tag( 0123456789
)	@tag(	4294967296 ) int64 a1
// trailing space 
//	t
, @lengthOf(	stringy //	t
)
As , @lengthOf(
pack )	u16 u128// 50% %s
@calculatedFrom( ""a	b"" )
`u8 x,`
, MetaDataX
// a // b
//
@lengthOf( u8x)	`crlf
line` ,
    @tag( // 50% %s
0 ) repeat
// 50% %s
//x
charz	,
    float@lengthOf( As
    )
    //
    `{ , }`
    , }
// 50% %s
")).
Eval vm_compute in ("<<<M713>>>" ++ check (runes_of_ascii "packet A
{@tag( 0) match repeatCount as zchar {[ 0 // c
,3  , ""a\\"" //x
,00 ]  : f32a }
,
    }
packet matchKey	{ x_y_z`line1
line2` , @rightPad ()	@rightPad  ( )
float32 rootA, u32 MetaDataX@calculatedFrom( ""1"")
    ,
repeat	asx { repeat
u16  pack
    ,calculatedFrom a1 `line1
line2`
,
    repeat // `tick` ""quote"" 'q'
char[ 7 ] As `` ,
} // packet A { u8 x, }
, @lengthOf( u8x) float32 // c
asx `" ++ [233]%N ++ runes_of_ascii "`// trailing space 
,
    uint64 options1 @lengthOf( matchKey ) `100% of %d`, match i8i8 as chars
{	42// `tick` ""quote"" 'q'
: Foo
    ,
} ,
    Packet
_x `u8 x,` ,
@tag(
    0
)	u64 Packet @lengthOf( asx
) // " ++ [128512]%N ++ runes_of_ascii " emoji
`// not a comment`  , @rightPad
( ) match
falsey as As {
    ""a\""b"" : _x
    ,	""a\\""
:
crc
, ""a\\"" :
    /// triple
    metadata, [""""
    ,	255,""" ++ [128512]%N ++ runes_of_ascii """ ] :
    // @lengthOf(
    falsey }
    , }
")).
Eval vm_compute in ("<<<M3688>>>" ++ check (runes_of_ascii "
packet

    repeatCount

{ char[ 
00  ]

uint8x  ,
    // a // b
    @calculatedFrom(
    ""a\\""
    )	asx @lengthOf(	charz 
)

,}

    packet
	string_{ @calculatedFrom( ""it's""
    )repeat
        // 50% %s

//
    char[]BodyLength ,	@calculatedFrom( ""abc""  ) 
int32
x, @tag(
    255 )	@calculatedFrom(
""" ++ [28040; 24687]%N ++ runes_of_ascii """
    ) @tag( 0123456789
) char[65535 // `tick` ""quote"" 'q'
		] len	,@tag( 0123456789 )

@lengthOf(stringy
)

int
    /// triple
	/// triple
    	,@tag(
// `tick` ""quote"" 'q'
//	t
  65535 )MetaDataX	{	A
`it's` ,

    float64
options1@calculatedFrom( ""// no comment""	),
    }
    , @rightPad
	('\x00')zchar[	007 ]
rootA@lengthOf( lengthOf  )
`" ++ [28040; 24687; 31867; 22411]%N ++ runes_of_ascii "`
/// triple

  // @lengthOf(
	,

    @lengthOf( 
crc
) repeat string 
charz
, @tag( 
1
	)repeat	a1 ,

    }

")).
Eval vm_compute in ("<<<M3433>>>" ++ check (runes_of_ascii "// top
packet // c0a
  // c0b
P1 // c1
{ // c2
u8 a // c4
, // c5
} packet
    // c7
P2 // c8
{ // c9
P1 // c10a
  // c10b
,
    // c11
} // c12
packet P3 // c14
{ P2
    // c16
,
    // c17
P1
    // c18
, // c19
}
    // c20
packet // c21
P4 // c22a
  // c22b
{ // c23a
  // c23b
repeat P3
    // c25
, P2 // c27a
  // c27b
, // c28a
  // c28b
} root // c30
packet // c31
P5 // c32a
  // c32b
{
    // c33
P4 , // c35
P3 , P1 // c38a
  // c38b
, u8 K , // c42
match K // c44
as // c45a
  // c45b
Body { // c47a
  // c47b
4 : P4 // c50a
  // c50b
, 3 // c52a
  // c52b
: // c53a
  // c53b
P3 // c54a
  // c54b
, 2 // c56
: // c57a
  // c57b
P2 // c58
, 1
    // c60
:
    // c61
P1 // c62a
  // c62b
,
    // c63
} // c64a
  // c64b
,
    // c65
} // c66
")).
Eval vm_compute in ("<<<M1184>>>" ++ check (runes_of_ascii "packet leftPad {options1/// triple
{ zchar[
0123456789]roots `100% of %d`
    , }
, @calculatedFrom(
""a\\"" ) match // 50% %s
a1	as msg_type {
[ 10 , ""packet""
// @lengthOf(
// " ++ [128512]%N ++ runes_of_ascii " emoji
, ""x y""
, ""a	b"" ,  ""packet""
    ,
42 ,
""{,}""  , ""\n""
    // @lengthOf(
    ] :Logon
,4294967296 :
    options1	,3 : string_ , """ ++ [28040; 24687]%N ++ runes_of_ascii """:
i64_ , """ ++ [233]%N ++ runes_of_ascii "t" ++ [233]%N ++ runes_of_ascii """: stringy// packet A { u8 x, }
, 42
: x_y_z} ,
@lengthOf(As)char[] T , lengthOf {
    uint64// " ++ [128512]%N ++ runes_of_ascii " emoji
charz @lengthOf( falsey )`` ,match
Pad as A  {  [4294967296 , //
""a\""b""] : tag ""\" ++ [233]%N ++ runes_of_ascii """ : uint8x
    // trailing space 
    ""{,}"" : lengthOf , [ ""it's"" ,""a	b""
    ] : i64_
    , [  0
    ]
    :
u128
,
}, }
    ,
msg_type i64_, repeat
// @lengthOf(
// @lengthOf(
zchar[
    4294967296 ]
float , }
")).
Eval vm_compute in ("<<<M403>>>" ++ check (runes_of_ascii "// @lengthOf(
root packet T{//
@rightPad(' ' ) @leftPad ('0' ) leftPad// packet A { u8 x, }
, @leftPad ( ) int falsey , @calculatedFrom( ""// no comment"")char[
0123456789 ]calculatedFrom @calculatedFrom( ""packet"" )
    `" ++ [233]%N ++ runes_of_ascii "` , }  root packet
float { char[
4294967296 ] uint8x,
string u , @lengthOf( Pad)
    i32 lengthOf
    // " ++ [27880; 37322]%N ++ runes_of_ascii "
    ,
@calculatedFrom( // c
""abc"" ) x_y_z  {zchar[ 0
]	body@calculatedFrom( ""1""  )
    ,
float64 packetx
    @calculatedFrom(
"""" )
`crlf
line`	, match body
as tag
{ 00:
    //
    chars,
    },
    repeat  tag
{ int8	MetaDataX`u8 x,` , } // a // b
, }
    , @tag(
    7	)string int @calculatedFrom(  ""it's"" ) ,// c
@lengthOf( Z9_ ) zchar[ 42]packetx`it's`, }
")).
Eval vm_compute in ("<<<M502>>>" ++ check (runes_of_ascii "packet o {
repeat
    calculatedFrom { As
    ,repeat
u {//	t
i32 repeatCount
, }, match BodyLength
as u8x { 007 :
trueish }
, asx float  `two words`
, }
    , match pack as// `tick` ""quote"" 'q'
calculatedFrom {""it's"" :	Foo,
// 50% %s
// @lengthOf(
}
, match body as
    calculatedFrom	{	[
    // 50% %s
    ""a\""b"" ] :	o , 42
    :	Packet
    , //
[ 0123456789 ,1	, ""1""
] : float
,}
,
    } MetaData
i64_	{u128
    //x
    crc
    `` , // c
string_ u ,i8 int
    `doc`,
    // " ++ [27880; 37322]%N ++ runes_of_ascii "
    i16 x	`doc`, falsey
/// triple
//
f32a,	} options {	roots //x
=
zchar[
4294967296 ] ;  x
=
    65535 ; crc =	zchar[
    // " ++ [27880; 37322]%N ++ runes_of_ascii "
    7 ] ; metadata= char[]
; leftPad
    =
i32 }")).
Eval vm_compute in ("<<<M4397>>>" ++ check (runes_of_ascii "packet calculatedFrom {
    @lengthOf(pack)
    zchar @lengthOf(Z9_) `a\`,// 50% %s
    @calculatedFrom(""it's"")
    leftPad,
    trueish,// " ++ [128512]%N ++ runes_of_ascii " emoji
    @calculatedFrom(""{,}"")
    float32 string_ @calculatedFrom(""1"") `tab	here`,
}

packet u8x {
    match Header as roots {
        [
            """ ++ [28040; 24687]%N ++ runes_of_ascii """, ""\" ++ [233]%N ++ runes_of_ascii """, 65535, 0, 10,
            65535, ""\n""
        ] : metadata,
        [""// no comment"", ""{,}"", 0, ""\n"", 3] : i8i8,
    },
    match trueish as stringy {
        ""CRC32"" : repeatCount,
        // a // b
        //	t
        [
            ""1"", ""a\\"", ""a\\"", 007, 10,
            ""1"", 007
        ] : repeatCount,
        ""\" ++ [233]%N ++ runes_of_ascii """ : msg_type,
    },
}")).
Eval vm_compute in ("<<<M4346>>>" ++ check (runes_of_ascii "packet BodyLength {
    @tag(255)
    o @calculatedFrom(""""),
    zchar[1] crc @lengthOf(BodyLength),
    repeat zchar `100% of %d`,
    u64 Foo,
    @rightPad('\x00')
    @lengthOf(falsey)
    int64 trueish @lengthOf(chars) `say ""hi""`,
    int @calculatedFrom(""a	b"") `u8 x,`,
    match repeatCount as repeatCount {
        42 : msg_type,
        [""a	b"", 42] : Logon,
        ""packet"" : uint8x,
        7 : u8x,
        // a // b
        ""\" ++ [233]%N ++ runes_of_ascii """ : metadata,
    },
    @leftPad(' ')
    match charz as _x {
        [""" ++ [233]%N ++ runes_of_ascii "t" ++ [233]%N ++ runes_of_ascii """, ""abc""] : Packet,
        ""a\""b"" : MetaDataX,
        [""CRC32"", ""// no comment""] : uint8x,
    },
}")).
Eval vm_compute in ("<<<M1290>>>" ++ check (runes_of_ascii "MetaData
crc { } // c
packet
// `tick` ""quote"" 'q'
// " ++ [128512]%N ++ runes_of_ascii " emoji
Header {	calculatedFrom matchKey	`" ++ [233]%N ++ runes_of_ascii "` ,
    @leftPad('\x00' ) i64// a // b
Logon,
    @tag(
0 ) char[4294967296] i8i8, @tag( 255 ) char zchar//	t
@calculatedFrom( ""// no comment""
) ,  @lengthOf( asx//
) float
,
@calculatedFrom( """ ++ [28040; 24687]%N ++ runes_of_ascii """	)
repeat int32 As//	t
, zchar `" ++ [28040; 24687; 31867; 22411]%N ++ runes_of_ascii "` // c
, // @lengthOf(
u32 _x@calculatedFrom( ""a\\"" ) `u8 x,` , @calculatedFrom(	""\n""
)	char[] BodyLength// 50% %s
`" ++ [233]%N ++ runes_of_ascii "`
, }
root
    packet chars{ zchar[  00]
Z9_	, }	options {i8i8 = 10 A=
//
// " ++ [27880; 37322]%N ++ runes_of_ascii "
' '
//	t
//	t
;float = '0' msg_type = ""x y""
; leftPad = ' ' ;}
")).
Eval vm_compute in ("<<<M3990>>>" ++ check (runes_of_ascii "root packet lengthOf {
    repeat float {
        int32 crc @calculatedFrom(""{,}""),
        match chars as _x {
            00 : crc,
            [""a\""b"", 10, 255] : chars,
            0123456789 : crc,
        },//x
        match Foo as roots {
            ""a\\"" : string_,
            007 : u8x,
            [""" ++ [128512]%N ++ runes_of_ascii """, ""it's""] : MetaDataX,
            [4294967296, 0123456789, 10] : crc,
            [""a\\"", 7] : trueish,
            [10, 1] : string_,
        },
    },
}

packet f32a {
    // @lengthOf(
    @leftPad()
    @tag(7)
    @lengthOf(T)
    repeat packetx x_y_z,
}")).
Eval vm_compute in ("<<<M3757>>>" ++ check (runes_of_ascii "root
	packet
	MetaDataX
	{ 
	/// triple
  	//
      repeat	f64 chars
	`// not a comment`
    ,@tag(  4294967296 )  Pad
,
u8	body	,	// `tick` ""quote"" 'q'
      u// c

@lengthOf(
	i8i8	)
    `line1
line2` ,  /// triple
    @lengthOf(
int
    )
	@lengthOf(	pack
)
u  ,

@tag(  00

    )  repeat// a // b
    f32 
crc
    `tab	here`  , match body  as

    i64_

    {  // c

  0	:

A  ,7
    :
    a1 
,}	,

@calculatedFrom( ""`tick`""	)
	@calculatedFrom(  //x
""a	b""	) char[ 65535 
] asx @calculatedFrom(	""" ++ [233]%N ++ runes_of_ascii "t" ++ [233]%N ++ runes_of_ascii """

)
`two words`	// " ++ [128512]%N ++ runes_of_ascii " emoji
  ,
}

")).
Eval vm_compute in ("<<<M3332>>>" ++ check (runes_of_ascii "// top
options // c0
{ // c1
msg_type // c2
= // c3
255 // c4
o // c5
= // c6
'\x00' // c7
; // c8
x_y_z // c9
= // c10
""abc"" // c11
; // c12
int // c13
= // c14
00 // c15
; // c16
body // c17
= // c18
""\" ++ [233]%N ++ runes_of_ascii """ // c19
; // c20
} // c21
MetaData // c22
BodyLength // c23
{ // c24
repeatCount // c25
metadata // c26
`a\` // c27
, // c28
f64 // c29
float // c30
`tab	here` // c31
, // c32
zchar[ // c33
4294967296 // c34
] // c35
metadata // c36
`" ++ [233]%N ++ runes_of_ascii "` // c37
, // c38
zchar[ // c39
255 // c40
] // c41
float // c42
, // c43
} // c44
")).
Eval vm_compute in ("<<<M1285>>>" ++ check (runes_of_ascii "packet
tag { rootA @lengthOf(
    // 50% %s
    matchKey ) `{ , }` , @calculatedFrom( ""abc"")
/// triple
//	t
T
x
`" ++ [233]%N ++ runes_of_ascii "`
, @calculatedFrom( ""packet"" )
char[// `tick` ""quote"" 'q'
10 ] uint8x `tab	here`
, crc float , @leftPad
    (
' '
)
    // trailing space 
    repeat i8i8 {
    // trailing space 
    match len as packetx
    {//x
""\n""
    //
    : a1
,4294967296 :	falsey , 65535:o ,} // `tick` ""quote"" 'q'
,}// 50% %s
, @leftPad (
    '0')
/// triple
//
u64 matchKey @lengthOf(lengthOf )  , }")).
Eval vm_compute in ("<<<M3614>>>" ++ check (runes_of_ascii "packet T {
    f32a {
        a1,
    },
    zchar[7] stringy `100% of %d`,// `tick` ""quote"" 'q'
}

options {
}

packet A {
    @rightPad()
    @lengthOf(lengthOf)
    @tag(1)
    T @calculatedFrom(""a\""b"") ``,
    Header,
    @tag(4294967296)
    options1 {
        char[] A `{ , }`,
        match Z9_ as rootA {
            [3, """ ++ [233]%N ++ runes_of_ascii "t" ++ [233]%N ++ runes_of_ascii """] : Logon,
        },
        options1 Header `" ++ [233]%N ++ runes_of_ascii "`,
        repeat f64 MetaDataX `it's`,
    },
    // trailing space 
    float64 BodyLength,
}")).
Eval vm_compute in ("<<<M523>>>" ++ check (runes_of_ascii "
packet calculatedFrom { } options { leftPad = true	Pad=true pack
=int64
    ; calculatedFrom=
'0' ; stringy
= false } MetaData As { calculatedFrom u8x,
} root
    packet	charz{ }packet
// `tick` ""quote"" 'q'
// 50% %s
calculatedFrom {
    @calculatedFrom( ""\" ++ [233]%N ++ runes_of_ascii """
)@leftPad
    // " ++ [128512]%N ++ runes_of_ascii " emoji
    ( )
repeat char[
3] chars `// not a comment`, // @lengthOf(
match packetx // " ++ [128512]%N ++ runes_of_ascii " emoji
as	MetaDataX { ""a	b"" :
As , [
    //	t
    255 , 42
] :len
    , } , }
// " ++ [27880; 37322]%N ++ runes_of_ascii "
")).
Eval vm_compute in ("<<<M911>>>" ++ check (runes_of_ascii "  packet len//	t
{ repeat o { //
zchar[ 0]  lengthOf `u8 x,` ,
leftPad
    { lengthOf x`doc`
    ,	zchar[ 65535
] u @lengthOf(asx
),repeat
u8 u`tab	here` , }
,
    //
    },
} root packet
packetx // packet A { u8 x, }
{
// " ++ [27880; 37322]%N ++ runes_of_ascii "
// @lengthOf(
}
root packet Logon
{ zchar[00 ] leftPad	@lengthOf( repeatCount	) , crc packetx
    // a // b
    `
`
    , x
    @lengthOf( pack /// triple
) `tab	here` /// triple
, lengthOf Header, }
")).
Eval vm_compute in ("<<<M3237>>>" ++ check (runes_of_ascii "// top
packet // c0
roots // c1
{ // c2
@lengthOf( // c3
Pad // c4
) // c5
char[ // c6
4294967296 // c7
] // c8
options1 // c9
@calculatedFrom( // c10
""`tick`"" // c11
) // c12
, // c13
lengthOf // c14
, // c15
@tag( // c16
7 // c17
) // c18
repeat // c19
T // c20
, // c21
@calculatedFrom( // c22
""a	b"" // c23
) // c24
char[] // c25
Packet // c26
@lengthOf( // c27
_x // c28
) // c29
`doc` // c30
, // c31
} // c32
")).
Eval vm_compute in ("<<<M3377>>>" ++ check (runes_of_ascii "// top
packet // c0
B
    // c1
{ u8 // c3
a
    // c4
,
    // c5
} // c6
root
    // c7
packet // c8a
  // c8b
P { // c10a
  // c10b
u8 // c11
K , match K
    // c15
as // c16
Body
    // c17
{ // c18
1 // c19
: B // c21a
  // c21b
,
    // c22
} // c23a
  // c23b
, // c24a
  // c24b
u16 // c25
L // c26
@lengthOf( // c27a
  // c27b
Body
    // c28
) // c29a
  // c29b
,
    // c30
} // c31a
  // c31b
")).
Eval vm_compute in ("<<<M4425>>>" ++ check (runes_of_ascii "// `tick` ""quote"" 'q'
    options
	{
rootA
= 
false // @lengthOf(
	  _x  =
""packet""packetx =
    zchar[

    7	// packet A { u8 x, }
	];	} packet
	a1 {
    @rightPad(
' ' )
	u64

    As

    ,string

    u 
,char  roots

@calculatedFrom( // a // b
  """"
)	// a // b
	,
    @calculatedFrom(	""""  // `tick` ""quote"" 'q'
    )
string	o	,
}
	packet

Header 
	// " ++ [27880; 37322]%N ++ runes_of_ascii "
    	{
    } ")).
Eval vm_compute in ("<<<M4382>>>" ++ check (runes_of_ascii "root packet u8x {
    @calculatedFrom("""")
    repeat float pack,
    repeat int32 f32a `doc`,
}

root packet Z9_ {
    x_y_z {
        repeat x_y_z `a\`,
        repeat u32 x,
        repeat leftPad `tab	here`,
    },
}

root packet repeatCount {
    falsey BodyLength ``,
    char[3] calculatedFrom @calculatedFrom(""" ++ [28040; 24687]%N ++ runes_of_ascii """) ``,
    repeat i8 As `// not a comment`,
}")).
Eval vm_compute in ("<<<M1245>>>" ++ check (runes_of_ascii "root packet int {
float  A	`// not a comment` , @lengthOf(string_ )zchar[ 0123456789
]string_  ,
u32 body`a\`, @lengthOf( zchar )
@calculatedFrom(// packet A { u8 x, }
""packet""
    ) @lengthOf( roots
)
matchKey
`crlf
line` , float32 Header	`// not a comment` , u64 asx
    @calculatedFrom(""1"" )`tab	here`,@tag( 007 )string asx , int64	_x , } 	 ")).
Eval vm_compute in ("<<<M1192>>>" ++ check (runes_of_ascii "packet int {
    A { int
{
    zchar[// " ++ [128512]%N ++ runes_of_ascii " emoji
0 ] pack
@calculatedFrom( ""packet"" ) `100% of %d`
    ,
char[]
trueish // a // b
,repeat char[00
    /// triple
    ] crc`{ , }` , } , }
    // 50% %s
    , uint64 roots
@lengthOf( rootA ) , i8 uint8x
    //	t
    ,
    } packet uint8x {}
MetaData int
{  char[] i8i8 `two words` ,
}
")).
Eval vm_compute in ("<<<M4323>>>" ++ check (runes_of_ascii "packet x_y_z {
    float64 leftPad @lengthOf(repeatCount),
    match msg_type as x {
        65535 : roots,
        4294967296 : metadata,
    },
}

packet float {
    u64 x_y_z ``,
    char[7] A @lengthOf(Packet) `" ++ [233]%N ++ runes_of_ascii "`,
    repeat o {
        string MetaDataX `{ , }`,
    },
    @lengthOf(uint8x)
    string int `it's`,
}")).
Eval vm_compute in ("<<<M889>>>" ++ check (runes_of_ascii "packet string_ { i8 matchKey`
`// 50% %s
, //x
}MetaData // packet A { u8 x, }
repeatCount { char[ 007  ] uint8x `{ , }`, } packet A
{
    T {
    // trailing space 
    uint8 len @lengthOf( packetx
    ) // c
, tag `u8 x,`
, float32 BodyLength , crc @calculatedFrom( // packet A { u8 x, }
""""
    ) ,} ,}
")).
Eval vm_compute in ("<<<M276>>>" ++ check (runes_of_ascii "MetaData A {
    float32
u128
, metadata x_y_z	,zchar[// " ++ [27880; 37322]%N ++ runes_of_ascii "
3
    ] zchar , u16	u8x
    ,}
packet Packet {
@calculatedFrom(
"""" ) rootA float ``  , int32 rootA, repeat	float BodyLength
`crlf
line` , float  @lengthOf( u128 ) , }// `tick` ""quote"" 'q'
MetaData len { A Foo
    `100% of %d` ,	}")).
Eval vm_compute in ("<<<M308>>>" ++ check (runes_of_ascii "packet options1 // a // b
{
match leftPad as f32a{
42
:Foo
    00
:i64_ ,0 :
    a1
, }
    ,
// 50% %s
// `tick` ""quote"" 'q'
msg_type
A`it's` , }
packet repeatCount{ @leftPad (
' ' )zchar[00 ] x `{ , }` // 50% %s
, uint8x
    //	t
    @calculatedFrom(	""" ++ [28040; 24687]%N ++ runes_of_ascii """ ) , } // @lengthOf(")).
Eval vm_compute in ("<<<M1329>>>" ++ check (runes_of_ascii "// a // b
packet // `tick` ""quote"" 'q'
matchKey{@leftPad
    ( // `tick` ""quote"" 'q'
)string
metadata , }
    MetaData// c
trueish
    { char[ 42	] As `100% of %d`, } packet tag { @lengthOf( As
    )// " ++ [128512]%N ++ runes_of_ascii " emoji
@leftPad // " ++ [27880; 37322]%N ++ runes_of_ascii "
( '\x00' )
repeat
rootA zchar `it's` , }
//x
")).
Eval vm_compute in ("<<<M1710>>>" ++ check (runes_of_ascii "// 50% %s
packet	a1
    { zchar[
// a // b
// 50% %s
007]
caf" ++ [233]%N ++ runes_of_ascii "_1 `it's`
    ,@rightPad
    // a // b
    (
'\x00')
    o repeatCount , }  packet Logon {  }packet	Logon //x
{ repeat // " ++ [128512]%N ++ runes_of_ascii " emoji
uint16 u128
    //
    `a\`,
falsey
@calculatedFrom(""packet"" ) ,
    } 	 ")).
Eval vm_compute in ("<<<M1632>>>" ++ check (runes_of_ascii "// 50% %s
packet	a1
    { zchar[
// a // b
// 50% %s
007]
T `it's`
    ,@rightPad
    // a // b
    (
'\x00')
    o repeatCount , }  packet Logon {  }packet	Logon //x
{ { repeat // " ++ [128512]%N ++ runes_of_ascii " emoji
uint16 u128
    //
    `a\`,
falsey
@calculatedFrom(""packet"" ) ,
    } 	 ")).
Eval vm_compute in ("<<<M1558>>>" ++ check (runes_of_ascii "// 50% %s
packet	a1
    { zchar[
// a // b
// 50% %s
007]
T `it's`
    @rightPad,
    // a // b
    (
'\x00')
    o repeatCount , }  packet Logon {  }packet	Logon //x
{ repeat // " ++ [128512]%N ++ runes_of_ascii " emoji
uint16 u128
    //
    `a\`,
falsey
@calculatedFrom(""packet"" ) ,
    } 	 ")).
Eval vm_compute in ("<<<M657>>>" ++ check (runes_of_ascii "root	packet  string_  {
    }
MetaData tag {
BodyLength
    // 50% %s
    _x , zchar[0 ]
    //x
    A// a // b
`tab	here` ,//
Packet lengthOf `u8 x,` , string
//
// `tick` ""quote"" 'q'
charz
`u8 x,` ,
string A
, char[
    255 ] uint8x `// not a comment`
, }
")).
Eval vm_compute in ("<<<M1328>>>" ++ check (runes_of_ascii "
options{ body =  '0'; int =""" ++ [28040; 24687]%N ++ runes_of_ascii """ ;
//
// packet A { u8 x, }
A= zchar[ 7
    ]	;
lengthOf
=
true ;}
options	{
i8i8 = ""a\""b"" ;
    As	=// packet A { u8 x, }
' ' chars= 42
}root packet
Logon { match roots as Packet {
42
:// 50% %s
roots 3  ://
Pad
, }
    , }
")).
Eval vm_compute in ("<<<M4390>>>" ++ check (runes_of_ascii "

  packet
o { chars
{  u32  T
	@lengthOf(  msg_type
    )
	, match Pad
    as
i8i8 {[
    ""1""  ]

: a1 
, 0

:

A
	,  //	t
	007
:  // @lengthOf(
      roots

    , 
42 
:_x

    , 
42
:

    body

    ,} , 
asx

    `u8 x,`, }	,
// " ++ [128512]%N ++ runes_of_ascii " emoji
}

")).
Eval vm_compute in ("<<<M35>>>" ++ check (runes_of_ascii "MetaData Z9_ { i64_ lengthOf `" ++ [233]%N ++ runes_of_ascii "` , x_y_z uint8x  `" ++ [233]%N ++ runes_of_ascii "` , string_ //x
chars
// a // b
// @lengthOf(
, char[ 1 ] asx `crlf
line`
,char[
    // `tick` ""quote"" 'q'
    7 ]pack	,
    uint8	body , }MetaData x
    { string  x
`100% of %d`
    ,
    }
")).
Eval vm_compute in ("<<<M843>>>" ++ check (runes_of_ascii "MetaData
    msg_type { }	packet  Pad {@calculatedFrom( """ ++ [28040; 24687]%N ++ runes_of_ascii """) repeat
char[ 7 ] T , }
MetaData BodyLength
{ Packet Pad , o int `crlf
line`
, string string_ // `tick` ""quote"" 'q'
, BodyLength	u, int
repeatCount , // packet A { u8 x, }
}")).
Eval vm_compute in ("<<<M1277>>>" ++ check (runes_of_ascii "MetaData pack // packet A { u8 x, }
{calculatedFrom Pad,
    o
f32a
`doc` , char[ 0123456789]Z9_ `line1
line2` , string string_ `it's`,}
options{ As =
'0'; x_y_z= 255 ; A = ' '
a1 = i16 ; zchar =
    0 } MetaData crc	{ }

")).
Eval vm_compute in ("<<<M921>>>" ++ check (runes_of_ascii "root packet zchar	{ repeat lengthOf crc ,
trueish @lengthOf(crc
) , @rightPad( )
    @tag(0 ) char[ 7] tag	,  }
options  {
    leftPad
= ""abc"" Z9_ =
true ; Z9_
=
    '\x00' repeatCount=
    true MetaDataX
=""it's"" ;}")).
Eval vm_compute in ("<<<M4241>>>" ++ check (runes_of_ascii "packet calculatedFrom {
    @rightPad('0')
    char[1] asx,
    @lengthOf(zchar)
    int32 float @calculatedFrom(""""),
    @rightPad('\x00')
    x lengthOf,
    @tag(7)
    // packet A { u8 x, }
    msg_type,
}")).
Eval vm_compute in ("<<<M3689>>>" ++ check (runes_of_ascii "root packet string_ {
}

MetaData tag {
    BodyLength _x,
    zchar[0] A `tab	here`,//
    Packet lengthOf `u8 x,`,
    string charz `u8 x,`,
    string A,
    char[255] uint8x `// not a comment`,
}")).
Eval vm_compute in ("<<<M158>>>" ++ check (runes_of_ascii "root packet
a1 // " ++ [27880; 37322]%N ++ runes_of_ascii "
{
rootA int ,
}  root packet
f32a { u8 o @calculatedFrom( ""x y"" )`" ++ [28040; 24687; 31867; 22411]%N ++ runes_of_ascii "` , f64 body
`{ , }`, @leftPad ( '\x00'
) @leftPad (
    ) @leftPad (	'0' ) int16 i8i8
    , }
")).
Eval vm_compute in ("<<<M1170>>>" ++ check (runes_of_ascii "// c
packet trueish{ match lengthOf	as a1 {
/// triple
// c
""{,}""
: o ,
} ,	match x  as string_ //	t
{ [
10, ""a\\""
    ]
:options1
    },
    // trailing space 
    } // 50% %s")).
Eval vm_compute in ("<<<M21>>>" ++ check (runes_of_ascii "MetaData MetaDataX { zchar[0  ] calculatedFrom
    // trailing space 
    , float32/// triple
matchKey
    , string_
//x
// " ++ [128512]%N ++ runes_of_ascii " emoji
calculatedFrom,	int lengthOf,
    } 	 ")).
Eval vm_compute in ("<<<M3946>>>" ++ check (runes_of_ascii "
packet stringy

{

@tag(  0	) @calculatedFrom(
    // 50% %s
    ""1"")
@calculatedFrom( 
""""  ) 
string
chars
	`a\` ,
@calculatedFrom(""" ++ [28040; 24687]%N ++ runes_of_ascii """) 
asx  metadata
`" ++ [233]%N ++ runes_of_ascii "`, }
")).
Eval vm_compute in ("<<<M802>>>" ++ check (runes_of_ascii "root packet
    rootA
    {
@tag(
    7
)@calculatedFrom(
""`tick`"" ) a1
    // packet A { u8 x, }
    @calculatedFrom( """ ++ [28040; 24687]%N ++ runes_of_ascii """ ) ,
// packet A { u8 x, }
//x
}

")).
Eval vm_compute in ("<<<M3378>>>" ++ check (runes_of_ascii "
packet B
{

u8
a,

}
    root
packet	P
{	u8 K

    ,
match
	K

    as

    Body {
	1
:
B
	,}  ,
u16
    L
@lengthOf(
    Body) 
,

    }

")).
Eval vm_compute in ("<<<M2121>>>" ++ check (runes_of_ascii "MetaData BodyLength
{ int8 Foo
, string
    MetaDataX , float zchar ,pack options1
,asx asx string_, }
packet u8x {Foo@lengthOf(charz )
`" ++ [28040; 24687; 31867; 22411]%N ++ runes_of_ascii "`,  }
")).
Eval vm_compute in ("<<<M2196>>>" ++ check (runes_of_ascii "MetaData BodyLength
{ int8 Foo
, string
    MetaDataX , float zchar ,pack options1
,asx string_, }
pack''et u8x {Foo@lengthOf(charz )
`" ++ [28040; 24687; 31867; 22411]%N ++ runes_of_ascii "`,  }
")).
Eval vm_compute in ("<<<M800>>>" ++ check (runes_of_ascii "options{f32a
= false ; stringy =' '
    ;
    calculatedFrom= ' '
;
    // packet A { u8 x, }
    }	packet Packet
    { } // `tick` ""quote"" 'q'")).
Eval vm_compute in ("<<<M2208>>>" ++ check (runes_of_ascii "MetaData BodyLength
{ int8 a" ++ [769]%N ++ runes_of_ascii "b
, string
    MetaDataX , float zchar ,pack options1
,asx string_, }
packet u8x {Foo@lengthOf(charz )
`" ++ [28040; 24687; 31867; 22411]%N ++ runes_of_ascii "`,  }
")).
Eval vm_compute in ("<<<M1992>>>" ++ check (runes_of_ascii "
packet leftPad {
@leftPad( '0')
u32
i64_ `100% of %d` ,repeat// 50% %s
i8 chars chars
    ,
} MetaData
    f32a
{ // packet A { u8 x, }
}")).
Eval vm_compute in ("<<<M3639>>>" ++ check (runes_of_ascii "MetaData pack {
    // c
    //	t
    i16 float `two words`,// " ++ [128512]%N ++ runes_of_ascii " emoji
    string string_,
    u16 charz,
    string_ crc,
    Packet Z9_,
}")).
Eval vm_compute in ("<<<M2004>>>" ++ check (runes_of_ascii "
packet leftPad {
@leftPad( '0')
u32
i64_ `100% of %d` ,repeat// 50% %s
i8 chars
    ,
char MetaData
    f32a
{ // packet A { u8 x, }
}")).
Eval vm_compute in ("<<<M2224>>>" ++ check (runes_of_ascii "options
    {
x_y_z// " ++ [27880; 37322]%N ++ runes_of_ascii "
= = 10 ; }
packet body {
    @calculatedFrom(
// trailing space 
// " ++ [27880; 37322]%N ++ runes_of_ascii "
""1""
)	match T as Foo
    {
255 :T , }
,}")).
Eval vm_compute in ("<<<M2125>>>" ++ check (runes_of_ascii "MetaData BodyLength
{ int8 Foo
, string
    MetaDataX , float zchar ,pack options1
,asx , }
packet u8x {Foo@lengthOf(charz )
`" ++ [28040; 24687; 31867; 22411]%N ++ runes_of_ascii "`,  }
")).
Eval vm_compute in ("<<<M1993>>>" ++ check (runes_of_ascii "
packet leftPad {
@leftPad( '0')
u32
i64_ `100% of %d` ,repeat// 50% %s
i8 ,
    chars
} MetaData
    f32a
{ // packet A { u8 x, }
}")).
Eval vm_compute in ("<<<M2311>>>" ++ check (runes_of_ascii "options
    {
x_y_z// " ++ [27880; 37322]%N ++ runes_of_ascii "
= 10 ; }
packet body {
    @calculatedFrom(
// trailing space 
// " ++ [27880; 37322]%N ++ runes_of_ascii "
""1""
)	match T as Foo
    {
255 :{ , }
,}")).
Eval vm_compute in ("<<<M2293>>>" ++ check (runes_of_ascii "options
    {
x_y_z// " ++ [27880; 37322]%N ++ runes_of_ascii "
= 10 ; }
packet body {
    @calculatedFrom(
// trailing space 
// " ++ [27880; 37322]%N ++ runes_of_ascii "
""1""
)	match T as Foo
    
255 :T , }
,}")).
Eval vm_compute in ("<<<M3799>>>" ++ check (runes_of_ascii "//
packet Packet {
    repeat char[] len,
    zchar As `line1
    line2`,
    @lengthOf(charz)
    repeat int8 metadata,/// triple
}")).
Eval vm_compute in ("<<<M1065>>>" ++ check (runes_of_ascii "  packet
    stringy {
    repeatCount @calculatedFrom(""a	b""),
    @lengthOf( string_ //x
) repeat
i64_ metadata `it's`
    , }
")).
Eval vm_compute in ("<<<M3888>>>" ++ check (runes_of_ascii "packet
	A {
match
k

    as

n
	{[ 
""a""  , ""bb"",  ""c c"" ,
""d""
,

""e""
    ,""f""

    ]  :  B ,

    2 :
C

}	,

    }
")).
Eval vm_compute in ("<<<M762>>>" ++ check (runes_of_ascii "root packet u8x  { //	t
@lengthOf( _x ) @tag( 4294967296
    ) @lengthOf(  int ) string i64_@calculatedFrom(""a	b"" ) ,
    }")).
Eval vm_compute in ("<<<M2192>>>" ++ check (runes_of_ascii "MetaData BodyLength
{ int8 Foo
, string
    MetaDataX , float zchar ,pack options1
,asx string_, }
packet u8x {Foo@lengt")).
Eval vm_compute in ("<<<M4067>>>" ++ check (runes_of_ascii "
packet	A {match k as n{	[
""a""  ,""bb"" ,

    007

,

""d""

    , ""e""  , 66] 
: 
B

    , 2 
:
C  }

    ,
} ")).
Eval vm_compute in ("<<<M1911>>>" ++ check (runes_of_ascii "packet o {
    roots `it's`
// trailing space 
//x
, char[ 4" ++ [65279]%N ++ runes_of_ascii "2
    ]  A, // " ++ [27880; 37322]%N ++ runes_of_ascii "
f64
repeatCount
    `crlf
line`
,}")).
Eval vm_compute in ("<<<M2164>>>" ++ check (runes_of_ascii "MetaData BodyLength
{ int8 Foo
, string
    MetaDataX , float zchar ,pack options1
,asx string_, }
packet u8x {Foo")).
Eval vm_compute in ("<<<M1862>>>" ++ check (runes_of_ascii "packet o {
    roots `it's`
// trailing space 
//x
, char[ 
    ]  A, // " ++ [27880; 37322]%N ++ runes_of_ascii "
f64
repeatCount
    `crlf
line`
,}")).
Eval vm_compute in ("<<<M3730>>>" ++ check (runes_of_ascii "

  packet

A 
{
	match 
k	as	n  {
[""a"",	""bb"",

    ""c c"" ,""d""
,
""e""
    ]:B
    ,
    2	: C

} ,

    }

")).
Eval vm_compute in ("<<<M1011>>>" ++ check (runes_of_ascii "packet len
{
T@lengthOf( lengthOf )
    ,
} packet
T {// `tick` ""quote"" 'q'
repeat zchar[
7 ] body ,	}")).
Eval vm_compute in ("<<<M4234>>>" ++ check (runes_of_ascii "packet msg_type {
    uint16 T @lengthOf(i8i8),
    repeat i32 int,
    @lengthOf(x_y_z)
    int64 As,
}")).
Eval vm_compute in ("<<<M3429>>>" ++ check (runes_of_ascii "packet FooBar {
    u8 a,
}
packet foo_bar {
    u16 b,
}
root packet R {
    FooBar,
    foo_bar,
}
")).
Eval vm_compute in ("<<<M1385>>>" ++ check (runes_of_ascii "packet msg_type {
@calculatedFrom( """ ++ [233]%N ++ runes_of_ascii "t" ++ [233]%N ++ runes_of_ascii """
) f64
    lengthOf `" ++ [28040; 24687; 31867; 22411]%N ++ runes_of_ascii "` , repeat	int
,f32	body
    ,}")).
Eval vm_compute in ("<<<M1490>>>" ++ check (runes_of_ascii "packet
T
{ match repeatCount as	calculatedFrom
{ [65535 ]	: As	,
} char[]}
// trailing space 
")).
Eval vm_compute in ("<<<M1473>>>" ++ check (runes_of_ascii "packet
T
{ match repeatCount as	calculatedFrom
{ [65535 ]	: As As	,
} ,}
// trailing space 
")).
Eval vm_compute in ("<<<M1503>>>" ++ check (runes_of_ascii "packet
T
{ match repeatCount as	calculatedFrom
{ [65535 ]	: As	,
$ } ,}
// trailing space 
")).
Eval vm_compute in ("<<<M3798>>>" ++ check (runes_of_ascii "options {
    a1 = ""\n""
    Z9_ = char[4294967296]
    metadata = char[];
    As = u32;
}//")).
Eval vm_compute in ("<<<M2953>>>" ++ check (runes_of_ascii "packet A {
  match k as n {
    [""a"", 22, ""c c"", 4, ""e"", 66, ""g"", 8] : B,
    2 : C
  },
}")).
Eval vm_compute in ("<<<M1437>>>" ++ check (runes_of_ascii "packet
T
{ match repeatCount 	calculatedFrom
{ [65535 ]	: As	,
} ,}
// trailing space 
")).
Eval vm_compute in ("<<<M556>>>" ++ check (runes_of_ascii "options
{ x  = string
x_y_z ='\x00';falsey =
1; chars = true; Logon =
    ""packet"" }

")).
Eval vm_compute in ("<<<M1457>>>" ++ check (runes_of_ascii "packet
T
{ match repeatCount as	calculatedFrom
{ [ ]	: As	,
} ,}
// trailing space 
")).
Eval vm_compute in ("<<<M1762>>>" ++ check (runes_of_ascii "options{  lengthOf =//x
i16;
    BodyLength = 0 ; =
pack false;
    A = char[ 3 ] }")).
Eval vm_compute in ("<<<M1800>>>" ++ check (runes_of_ascii "options{  lengthOf =//x
i16;
    BodyLength = 0 ; pack
= false;
    A = char[ 3  }")).
Eval vm_compute in ("<<<M2928>>>" ++ check (runes_of_ascii "packet A {
  match k as n {
    [""a"", 22, ""c c"", 4, ""e"", 66] : B
    2 : C
  },
}")).
Eval vm_compute in ("<<<M1790>>>" ++ check (runes_of_ascii "options{  lengthOf =//x
i16;
    BodyLength = 0 ; pack
= false;
    A =  3 ] }")).
Eval vm_compute in ("<<<M3269>>>" ++ check (runes_of_ascii "MetaData Foo { zchar[ 0 ] matchKey , } options { lengthOf = // c
i32 u = 00 ; }")).
Eval vm_compute in ("<<<M3394>>>" ++ check (runes_of_ascii "  root packet P {u16
a
,  u32
Sum

    @calculatedFrom( ""CRC32""
)
	, }

")).
Eval vm_compute in ("<<<M2747>>>" ++ check (runes_of_ascii "uint64 '0' packet char[] string @lengthOf( u16 : { repeat = 1 match char[]")).
Eval vm_compute in ("<<<M3907>>>" ++ check (runes_of_ascii "  packet
u8x { }
	MetaData // c
  crc  {
char[4294967296
	] 
Foo,
    } ")).
Eval vm_compute in ("<<<M6>>>" ++ check (runes_of_ascii "packet
    Logon
{
}
MetaData repeatCount{//	t
}
// trailing space 
")).
Eval vm_compute in ("<<<M1560>>>" ++ check (runes_of_ascii "// 50% %s
packet	a1
    { zchar[
// a // b
// 50% %s
007]
T `it's`")).
Eval vm_compute in ("<<<M717>>>" ++ check (runes_of_ascii "packet float
    { @rightPad
( )
char[
4294967296 ]
    int , }
")).
Eval vm_compute in ("<<<M2877>>>" ++ check (runes_of_ascii "packet A {
  match k as n {
    [1, ""bb""] : B,
    2 : C
  },
}")).
Eval vm_compute in ("<<<M3293>>>" ++ check (runes_of_ascii "packet u8x // c
{ } MetaData crc { char[ 4294967296 ] Foo , }")).
Eval vm_compute in ("<<<M2735>>>" ++ check (runes_of_ascii "@calculatedFrom( options ] 0123456789 @calculatedFrom( int16")).
Eval vm_compute in ("<<<M1866>>>" ++ check (runes_of_ascii "packet o {
    roots `it's`
// trailing space 
//x
, char[")).
Eval vm_compute in ("<<<M615>>>" ++ check (runes_of_ascii "options {}
root  packet calculatedFrom {	a1 `" ++ [28040; 24687; 31867; 22411]%N ++ runes_of_ascii "` ,
}")).
Eval vm_compute in ("<<<M3716>>>" ++ check (runes_of_ascii "
packet
int
    {
	leftPad Foo  `// not a comment`,}")).
Eval vm_compute in ("<<<M1232>>>" ++ check (runes_of_ascii "// `tick` ""quote"" 'q'
MetaData calculatedFrom { }")).
Eval vm_compute in ("<<<M3040>>>" ++ check (runes_of_ascii "MetaData M {
    u8 x `a

b`,
    T t `a

b`,
}")).
Eval vm_compute in ("<<<M228>>>" ++ check (runes_of_ascii "MetaData T { char[ 7 ] len
    `tab	here`, }")).
Eval vm_compute in ("<<<M4274>>>" ++ check (runes_of_ascii "MetaData  Foo
    // " ++ [27880; 37322]%N ++ runes_of_ascii "
	// 50% %s
  {}
")).
Eval vm_compute in ("<<<M1278>>>" ++ check (runes_of_ascii "packet x_y_z
    {uint16 asx
    ,  } 	 ")).
Eval vm_compute in ("<<<M3223>>>" ++ check (runes_of_ascii "root packet // c
u128 { chars `doc` , }")).
Eval vm_compute in ("<<<M3710>>>" ++ check (runes_of_ascii "
options
{  u8x 
// c
= 
false

}

")).
Eval vm_compute in ("<<<M2358>>>" ++ check (runes_of_ascii "MetaData
{ Foo Header //
pack ,	} 	 ")).
Eval vm_compute in ("<<<M2367>>>" ++ check (runes_of_ascii "MetaData
Foo {pack //
Header ,	} 	 ")).
Eval vm_compute in ("<<<M2832>>>" ++ check ([65533]%N ++ runes_of_ascii "" ++ [65533; 65533; 65533]%N ++ runes_of_ascii "Ce8xJ" ++ [65533; 65533; 23; 65533; 65533]%N ++ runes_of_ascii "v" ++ [65533; 65533; 65533; 950; 65533; 65533]%N ++ runes_of_ascii "sl" ++ [65533]%N ++ runes_of_ascii "%" ++ [65533; 65533; 77099; 65533; 65533; 1978; 4; 560]%N)).
Eval vm_compute in ("<<<M2400>>>" ++ check (runes_of_ascii "MetaData
Foo {a" ++ [769]%N ++ runes_of_ascii "b //
pack ,	} 	 ")).
Eval vm_compute in ("<<<M2843>>>" ++ check (runes_of_ascii ";" ++ [65533; 1004; 28; 65533]%N ++ runes_of_ascii "K" ++ [26453]%N ++ runes_of_ascii ":qC" ++ [65533]%N ++ runes_of_ascii "mM" ++ [22; 65533; 65533]%N ++ runes_of_ascii "V" ++ [5; 65533; 17; 65533; 65533]%N ++ runes_of_ascii "	" ++ [65533; 65533; 65533; 65533]%N ++ runes_of_ascii "4" ++ [65533; 22; 65533]%N)).
Eval vm_compute in ("<<<M3154>>>" ++ check (runes_of_ascii "packet A {
 u8 x `d" ++ [12]%N ++ runes_of_ascii "`, // c" ++ [12]%N ++ runes_of_ascii "
}")).
Eval vm_compute in ("<<<M2593>>>" ++ check (runes_of_ascii "packet A { x @lengthOf(y), }")).
Eval vm_compute in ("<<<M2631>>>" ++ check (runes_of_ascii "packet A { @leftPad u8 x, }")).
Eval vm_compute in ("<<<M3831>>>" ++ check (runes_of_ascii "options {
    tag = i32;
}")).
Eval vm_compute in ("<<<M3200>>>" ++ check (runes_of_ascii "packet A { // a
 u8 x, }")).
Eval vm_compute in ("<<<M1347>>>" ++ check (runes_of_ascii "MetaData	options1	{	}
")).
Eval vm_compute in ("<<<M4329>>>" ++ check (runes_of_ascii "
MetaData	A {
    }
")).
Eval vm_compute in ("<<<M2639>>>" ++ check (runes_of_ascii "packet A { } packet")).
Eval vm_compute in ("<<<M3098>>>" ++ check (runes_of_ascii "// c" ++ [12288]%N ++ runes_of_ascii "
packet A {
}")).
Eval vm_compute in ("<<<M3199>>>" ++ check (runes_of_ascii "packet A { // a
 }")).
Eval vm_compute in ("<<<M3145>>>" ++ check (runes_of_ascii "packet A {
}// c" ++ [11]%N)).
Eval vm_compute in ("<<<M1086>>>" ++ check (runes_of_ascii "// c
 // a // b")).
Eval vm_compute in ("<<<M2679>>>" ++ check (runes_of_ascii "options A { }")).
Eval vm_compute in ("<<<M461>>>" ++ check (runes_of_ascii "options {}")).
Eval vm_compute in ("<<<M1724>>>" ++ check (runes_of_ascii "options{")).
Eval vm_compute in ("<<<M948>>>" ++ check (runes_of_ascii "// c

")).
Eval vm_compute in ("<<<M2457>>>" ++ check (runes_of_ascii "true1")).
Eval vm_compute in ("<<<M3166>>>" ++ check (runes_of_ascii "// c" ++ [65279]%N)).
Eval vm_compute in ("<<<M1000>>>" ++ check (runes_of_ascii " //")).
Eval vm_compute in ("<<<M2837>>>" ++ check (runes_of_ascii "nfK")).
Eval vm_compute in ("<<<M2526>>>" ++ check (runes_of_ascii "`")).
