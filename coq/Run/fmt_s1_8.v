From FP Require Import Lexer Parser ShowPT Digest Formatter.
From Coq Require Import String List NArith.
Import ListNotations.
Open Scope string_scope.
Set Printing Width 100000000.
Set Printing Depth 100000000.
Definition show_fres (r : fres) : string :=
  match r with
  | FOk s => "OK:" ++ sh_escaped s ""
  | FErr s => "ERR:" ++ sh_escaped s ""
  | FPanic p => "PANIC:" ++ p
  end.
Definition check (rs : list rune) : string := digest (show_fres (format_res rs)).
Definition full (rs : list rune) : string := show_fres (format_res rs).
Eval vm_compute in ("<<<M1367>>>" ++ check (runes_of_ascii "// c
root
packet i64_  {@tag(// " ++ [27880; 37322]%N ++ runes_of_ascii "
255 //
) match o as calculatedFrom { [
10 ] :uint8x ,[  """"  ,
    ""x y""]
:
    uint8x, 00 // `tick` ""quote"" 'q'
: x //x
,
    [ 1 // " ++ [27880; 37322]%N ++ runes_of_ascii "
, ""// no comment"" , 00
    ,
    10 ]
    :int // " ++ [27880; 37322]%N ++ runes_of_ascii "
, ""abc"" :leftPad
,
    """ ++ [28040; 24687]%N ++ runes_of_ascii """	: body , }
, @calculatedFrom(""abc"" )int64
    // trailing space 
    Packet @calculatedFrom( ""CRC32""
    )`tab	here`
    , repeat MetaDataX `// not a comment` ,repeat A {
    //x
    repeat repeatCount { match // trailing space 
float
as uint8x { [ ""it's"" , """ ++ [28040; 24687]%N ++ runes_of_ascii """
    ] :
string_ ,  ""{,}""
: u8x ""a\\"" :
asx	}	, }  , repeat  zchar[42 ] u8x,repeat int16 T ,}// packet A { u8 x, }
, zchar[ 0123456789 ]// a // b
BodyLength	@calculatedFrom( ""`tick`""), @calculatedFrom( ""a\\"")falsey { i16 lengthOf @calculatedFrom( ""packet"" )
`{ , }`
    ,
}, f32
    a1,  } root packet calculatedFrom {
@calculatedFrom( """ ++ [128512]%N ++ runes_of_ascii """  ) repeat uint8
options1 , } packet MetaDataX
{@calculatedFrom(// `tick` ""quote"" 'q'
""\n"") @tag(	7
    ) @lengthOf(charz //x
)a1 {lengthOf @lengthOf(
    calculatedFrom )
, match u128 as BodyLength {
    [ ""a	b"", 007,007, ""1"" ] : f32a ,  """ ++ [233]%N ++ runes_of_ascii "t" ++ [233]%N ++ runes_of_ascii """
    : a1 , ""x y"" // trailing space 
:string_  ""a\""b"": i8i8 , 7
: len
, }
, repeat MetaDataX
{ /// triple
_x
    u8x `
`
, match	A
    as As{ ""x y"":float
//x
//
, }
    ,
// `tick` ""quote"" 'q'
/// triple
} , trueish ,}
, repeat asx{ u128 @calculatedFrom(""abc""	)`doc` , },
    char[] // packet A { u8 x, }
i8i8, repeat char[] stringy `it's`
    ,Foo{ repeat MetaDataX, repeat char Header , match
crc //x
as a1	{ ""it's"" : rootA , 0123456789:
MetaDataX
    } , uint8x	@lengthOf( i8i8 )
    , // trailing space 
}, string_ `line1
line2`
,@tag( 10  )repeat char Packet
    `tab	here`, char u128 @calculatedFrom( ""1"" )//
,}packet Pad { i16
    // " ++ [27880; 37322]%N ++ runes_of_ascii "
    leftPad @calculatedFrom(
    """ ++ [28040; 24687]%N ++ runes_of_ascii """ ) , options1 BodyLength
    ,
    @tag(
007)
    // trailing space 
    int @calculatedFrom(
    // @lengthOf(
    ""packet"" )
, @tag( 4294967296 ) match u as
    x
{
    00 : // a // b
lengthOf} , @tag( 7)
    repeat leftPad
    {
Pad{ uint32 string_/// triple
@lengthOf( //x
Foo )
    `" ++ [233]%N ++ runes_of_ascii "` ,
}  , match
    u
    //x
    as lengthOf { 42
: // " ++ [128512]%N ++ runes_of_ascii " emoji
Packet 255	:
    pack
    }	,// packet A { u8 x, }
matchKey @calculatedFrom( """ ++ [28040; 24687]%N ++ runes_of_ascii """ )`doc`
    ,	},	match float as  Z9_{ 0	: tag [ 65535 ,1 , /// triple
00	, 1 ,
007]
: x_y_z ,
} ,	@calculatedFrom(
""{,}"")
// " ++ [27880; 37322]%N ++ runes_of_ascii "
//x
char[
1 ] Header `doc` // c
,
@lengthOf(metadata ) @calculatedFrom(
""`tick`"" )@lengthOf( body ) uint64 charz , repeat f64 // a // b
string_ , @leftPad
()
match calculatedFrom as msg_type { [
""" ++ [233]%N ++ runes_of_ascii "t" ++ [233]%N ++ runes_of_ascii """ ] : msg_type,255 : x_y_z , // " ++ [27880; 37322]%N ++ runes_of_ascii "
007 : i64_
}
    ,
}")).
Eval vm_compute in ("<<<M4122>>>" ++ check (runes_of_ascii "
// " ++ [27880; 37322]%N ++ runes_of_ascii "
  options {  zchar	// a // b
	=
""x y"" ; options1 
=
u16 ;
}  packet Pad{
Z9_	@calculatedFrom(
"""") `
` 
,	@tag( 42	)//
@tag(	00)
	@lengthOf(
	zchar )

match _x // packet A { u8 x, }
  	as 
metadata  {
	007 :
As ""`tick`"" // packet A { u8 x, }
    :lengthOf , 255
:lengthOf 
""a	b"" 
    // trailing space 

// " ++ [27880; 37322]%N ++ runes_of_ascii "
:	Packet 255
	: a1	,	// c
  [

00  ,
0  ,

    10

    ,""a\\""
,

""it's"" ,
	10, 7
	]:Foo ,
	}
	,  match

Header 
as
    o

    {[ 	 // packet A { u8 x, }
255  ]	:

zchar
	,
0123456789  :
leftPad 
[007

,  3	]
:	leftPad , 	 // c
	0

:	packetx

    ,
	}
	, }	MetaData
    Pad{	// packet A { u8 x, }
}packet T
    // packet A { u8 x, }
	  { 
// " ++ [27880; 37322]%N ++ runes_of_ascii "
		charz

@lengthOf(  asx)``,
} packet

    matchKey 
{
    @tag( 3 ) @calculatedFrom( ""a	b"" 

    /// triple
	// c
)@calculatedFrom(
""""  ) pack
rootA
    , 
repeat//	t
  leftPad ``
	,  repeat
	uint32 Foo
`u8 x,`
,
@calculatedFrom( """ ++ [233]%N ++ runes_of_ascii "t" ++ [233]%N ++ runes_of_ascii """) repeat 
char[
65535 ]	u
, @lengthOf( 
_x
) @lengthOf( 
u8x) 
repeat

    zchar[ 0123456789

    ]  x	, 
match 
i64_  // " ++ [27880; 37322]%N ++ runes_of_ascii "
    as
    falsey
    {// trailing space 
	255:

f32a ,
    ""{,}""

    :
x
, ""\" ++ [233]%N ++ runes_of_ascii """ : matchKey  ,
[ 
""""

, 
  // trailing space 
  	""{,}"" ,10 
,

    """ ++ [128512]%N ++ runes_of_ascii """ 
  // a // b
    // packet A { u8 x, }
	,
""a	b"",

    0
,
    ""1"" , 65535 ]
:
len
,	""\" ++ [233]%N ++ runes_of_ascii """
    : T ,
	[
""CRC32""
    ,
        // " ++ [128512]%N ++ runes_of_ascii " emoji
  1
, ""// no comment"",007,
1
	,	""`tick`""  ,""" ++ [128512]%N ++ runes_of_ascii """]// packet A { u8 x, }
	  : a1 } ,match
	x 
as
    As{ 
""a	b""
	: 
o
,
    007

    :MetaDataX
    ,
    [  ""a	b""

] :
    falsey , 
""// no comment""  : Z9_
""packet""
	:
_x 
// " ++ [128512]%N ++ runes_of_ascii " emoji
    , } ,  repeat rootA
    {  uint8 MetaDataX@calculatedFrom(
""abc""
)	,
match // `tick` ""quote"" 'q'

int  as // a // b
asx

{[10  , 
10 ,

""`tick`""
, 
00,
4294967296]:

    o,
""CRC32""
    :
string_ ,
[0 ]
: roots  65535
:  
  // " ++ [27880; 37322]%N ++ runes_of_ascii "
  // trailing space 
		_x 	 //
	,

""it's"" : 
Pad
	,
4294967296 :

Pad 
, }
,u16 
chars

`line1
line2` 
,  //x
	}
, } ")).
Eval vm_compute in ("<<<M913>>>" ++ check (runes_of_ascii "MetaData trueish { f32
a1 `it's` , A // " ++ [128512]%N ++ runes_of_ascii " emoji
lengthOf`tab	here` , } MetaData	BodyLength
{
    // @lengthOf(
    char[
0123456789 ]stringy
//	t
// c
,
} packet string_ { @rightPad	('0' ) asx
    , @calculatedFrom(""abc""
    )repeat char[ 4294967296 // `tick` ""quote"" 'q'
] packetx ,
// a // b
// " ++ [27880; 37322]%N ++ runes_of_ascii "
repeat
o
    // " ++ [27880; 37322]%N ++ runes_of_ascii "
    { // `tick` ""quote"" 'q'
int64
u8x,repeat u32 leftPad
`a\`
, // packet A { u8 x, }
char[] charz `doc`
,zchar[
65535
] lengthOf@calculatedFrom(  ""a\\""
    )
, }  ,
    // " ++ [27880; 37322]%N ++ runes_of_ascii "
    leftPad
@calculatedFrom(	""// no comment"")`// not a comment` ,
    int32 int
,pack {zchar,
} // c
,repeat zchar[65535 ]
    // c
    x ,
@rightPad  (  '0' )
//x
// c
float32 Z9_
, @calculatedFrom(
// a // b
// " ++ [27880; 37322]%N ++ runes_of_ascii "
""`tick`""
    )
    match
uint8x
    as
Header // `tick` ""quote"" 'q'
{[42
    // " ++ [128512]%N ++ runes_of_ascii " emoji
    ]
    :f32a, 4294967296
    :
    matchKey , """ ++ [28040; 24687]%N ++ runes_of_ascii """
    /// triple
    : tag 1 :// a // b
body
, }
    ,
@tag(// a // b
007
    )@calculatedFrom( ""a\\"" ) @lengthOf(
metadata ) repeat chars ,}
packet roots { char[007
    ]
Foo@lengthOf(zchar ) `line1
line2` , @tag( 255 ) match crc as lengthOf {[ ""// no comment"" ]
:
    Header ,
    //x
    1 :// " ++ [128512]%N ++ runes_of_ascii " emoji
crc ,""\n"" :  options1 , [ 1, """ ++ [28040; 24687]%N ++ runes_of_ascii """
    ,
    00,	1, //	t
42 ,65535  ] : Z9_,}
//x
// a // b
,zchar[ 4294967296
] As `say ""hi""`
    ,	@lengthOf( stringy ) chars
{float32 u8x,} ,
    char[ 255 ] Pad
    @lengthOf(u8x ) ,
int64 metadata,
    // c
    uint8 x_y_z	@lengthOf(
    //
    Header )`two words`,	repeat zchar[ 42 ] calculatedFrom `it's`	, @rightPad
(
'\x00' )
    repeat
    crc
    // @lengthOf(
    {
    // trailing space 
    repeat As {
i64_`line1
line2` , } ,}
, }
")).
Eval vm_compute in ("<<<M499>>>" ++ check (runes_of_ascii "  packet trueish { match
    options1 as
    Packet{[
    ""a\\"" , 3	, ""\" ++ [233]%N ++ runes_of_ascii """ //
,0123456789 ]  : Packet
    ,""// no comment""
    : BodyLength,
[
    10 ]: //	t
stringy , """ ++ [28040; 24687]%N ++ runes_of_ascii """ :  metadata [  ""`tick`""
    ,
7 , ""// no comment"" ] :int ,65535 :
//x
// packet A { u8 x, }
packetx ,
    } ,}
    packet
    f32a
{  @calculatedFrom( //	t
""{,}"" )
char[] len `doc`
    , @leftPad
    ( '\x00'
    ) repeat char[] Z9_ `tab	here` ,
match MetaDataX
// c
// packet A { u8 x, }
as crc {
    ""a	b""
    :	Pad , 10
:
matchKey  [
1 ,""{,}"" ,3 ] :
    uint8x , ""x y"" :
    Header , 7 // trailing space 
: repeatCount ,[ ""a\\"" , ""a\""b""
    // " ++ [128512]%N ++ runes_of_ascii " emoji
    , 10] : a1 ,
} ,
@calculatedFrom(""a\\"" )
    //x
    @leftPad
// a // b
// trailing space 
( ) @leftPad
    ( '\x00'	)calculatedFrom
`tab	here` , @rightPad (// c
'\x00' )
    float32
body ,  } packet
    Pad {Packet
    @calculatedFrom(
    ""a	b""
// trailing space 
// a // b
), @tag(
4294967296
    ) @rightPad// " ++ [128512]%N ++ runes_of_ascii " emoji
( ) @calculatedFrom(
    // a // b
    ""1""	) repeat tag
    matchKey `" ++ [28040; 24687; 31867; 22411]%N ++ runes_of_ascii "` ,  @tag(
    4294967296)
@lengthOf(string_
    ) falsey
//
// " ++ [27880; 37322]%N ++ runes_of_ascii "
i64_
    , @tag( 0123456789 ) As
u `two words` , @leftPad ( '0' ) options1{ uint8 zchar // c
, }
    , @leftPad	( ) repeat uint32
    // a // b
    asx ,	metadata { // c
char[ 0 ] len @lengthOf(T ) , }	, zchar[ 3 ]uint8x @lengthOf( trueish // `tick` ""quote"" 'q'
) `" ++ [233]%N ++ runes_of_ascii "` , @calculatedFrom(  ""CRC32""
)
    roots@lengthOf( x
    ), }")).
Eval vm_compute in ("<<<M1103>>>" ++ check (runes_of_ascii "packet body {
@tag(00) options1 @calculatedFrom(""1""
)
    ,@calculatedFrom(
// " ++ [27880; 37322]%N ++ runes_of_ascii "
// packet A { u8 x, }
""abc"" )
uint8x
    {o
    //	t
    , // c
u16 float
`a\` ,} , @tag( 1 ) u `u8 x,` ,crc { zchar{ match/// triple
i8i8 as // trailing space 
int {	""`tick`"": x_y_z,
}, repeat uint8 f32a,
    }
,// c
i8 As@lengthOf( Foo  ) `it's`
,charz@calculatedFrom(
""it's"") , char[ 4294967296 ] Packet `it's` , } ,
    @lengthOf( Z9_
)  crc  { repeat options1 {
match // `tick` ""quote"" 'q'
MetaDataX
as
    pack
    { [
//	t
//
""a\\"" ]
: i8i8 ,""a\\""  :falsey [""packet""
] : Logon,	[ 4294967296 ,
    ""abc"" ,""{,}"",//x
3 , """ ++ [128512]%N ++ runes_of_ascii """ , 7 ,00
,
    7
    ] : matchKey ,
0 : trueish ,
} ,x_y_z repeatCount , repeat uint16 repeatCount //
, },
options1
, // " ++ [128512]%N ++ runes_of_ascii " emoji
falsey{ char[]
    u `u8 x,` ,  } , }
,
} root packet Pad { match o // trailing space 
as a1{ [
"""" ,
""packet""
    // c
    , 1 ,
    //	t
    0123456789 // trailing space 
]
    : charz
,// trailing space 
""a\""b""
:
x_y_z ,
[
    ""CRC32""
, 007, 255
] :
float , 4294967296 : int ,
""{,}"" :stringy ,
    4294967296: A,
} ,	@rightPad
    () @tag(
    7 //
) match // packet A { u8 x, }
uint8x
as
crc{  255
: pack , }
    ,repeat int8
i8i8 ,} packet a1
{ string As  @calculatedFrom(
    ""a	b""
    ),} MetaData u {  }
    //x
    root packet f32a {	}")).
Eval vm_compute in ("<<<M4065>>>" ++ check (runes_of_ascii "packet pack {
}

options {
    As = ""\" ++ [233]%N ++ runes_of_ascii """;
}

root packet lengthOf {
    @tag(65535)
    @calculatedFrom(""" ++ [233]%N ++ runes_of_ascii "t" ++ [233]%N ++ runes_of_ascii """)
    @calculatedFrom(""abc"")
    repeat string msg_type,
    @calculatedFrom(""" ++ [233]%N ++ runes_of_ascii "t" ++ [233]%N ++ runes_of_ascii """)
    char[255] Logon,
    u64 pack @calculatedFrom(""a\\""),
    @rightPad('0')
    T {
        zchar[3] u8x @calculatedFrom(""CRC32"") `two words`,
        o {
            _x {
                // " ++ [27880; 37322]%N ++ runes_of_ascii "
                float32 calculatedFrom,
            },
            repeat int64 u128,
            float32 string_ @lengthOf(msg_type) `say ""hi""`,
        },
    },
    i16 charz `a\`,
    @lengthOf(x)
    leftPad {
        As {
            int64 i8i8,
        },
        // packet A { u8 x, }
    },
    @tag(7)
    @tag(7)
    x_y_z @lengthOf(body),
    @tag(007)
    repeat calculatedFrom _x,
    @calculatedFrom(""\n"")
    repeat u8 trueish,
    i16 calculatedFrom `it's`,
}

packet A {
    match As as chars {
        ""1"" : options1,
    },
}

packet Packet {
    @leftPad('\x00')
    float64 matchKey,
    zchar[65535] Pad `" ++ [233]%N ++ runes_of_ascii "`,
    repeat uint32 options1,
    @calculatedFrom(""// no comment"")
    char[] metadata `// not a comment`,
    Header @calculatedFrom(""packet"") ``,
}
// a // b")).
Eval vm_compute in ("<<<M3852>>>" ++ check (runes_of_ascii "packet Packet {
    Logon @lengthOf(chars),
    @lengthOf(stringy)
    int {
        // a // b
        char[1] rootA,
        repeat repeatCount `it's`,
        i8 calculatedFrom,
    },
    _x u128,
    //	t
    i16 uint8x @lengthOf(a1),
    a1 @calculatedFrom(""" ++ [233]%N ++ runes_of_ascii "t" ++ [233]%N ++ runes_of_ascii """),
    @lengthOf(x)
    repeat x_y_z {
        int32 crc @calculatedFrom(""packet""),
        repeat string Z9_,
        float64 len,
    },
    repeat options1 `" ++ [28040; 24687; 31867; 22411]%N ++ runes_of_ascii "`,
    // a // b
    // " ++ [128512]%N ++ runes_of_ascii " emoji
    @leftPad(' ')
    string msg_type @calculatedFrom(""a	b""),// trailing space 
    repeat uint8 trueish `line1
        line2`,
}

options {
    body = ""\" ++ [233]%N ++ runes_of_ascii """
}

packet pack {
    /// triple
    @lengthOf(matchKey)
    char[3] a1,
    @leftPad()
    @calculatedFrom(""it's"")
    repeat f32a {
        zchar[00] lengthOf,
        stringy u8x,
        As {
            A @calculatedFrom(""abc""),
            match u8x as crc {
                65535 : trueish,
                ""a	b"" : matchKey,
                // " ++ [128512]%N ++ runes_of_ascii " emoji
            },
        },
        trueish @calculatedFrom(""\n"") `say ""hi""`,
    },
}

packet stringy {
    char[4294967296] u8x,
}")).
Eval vm_compute in ("<<<M494>>>" ++ check (runes_of_ascii "packet leftPad //x
{uint16 x , lengthOf // a // b
chars `// not a comment` , @calculatedFrom( ""a\\"") repeat
char[] As`{ , }`
, metadata
@calculatedFrom(
    ""// no comment"" ),
uint32 f32a`
`
, @tag( // @lengthOf(
255) repeat trueish `doc` ,
char[] trueish
@lengthOf(
len )
,int16
i64_ ,
@calculatedFrom( ""\n""
)
i8i8 `" ++ [28040; 24687; 31867; 22411]%N ++ runes_of_ascii "`  ,
    } root
    packet crc { repeat uint8x	packetx, match
u8x as T {
0
: crc,1  : T ,
    [ ""a\\""// c
, 0123456789 , 00 ] : chars ,	7 :
T //	t
,	}// a // b
,
roots  @lengthOf(	lengthOf
    ) `two words`
    , match
rootA as A{
10
    : x ,
    }, crc @calculatedFrom( ""a	b""
    )
    , chars {
match lengthOf as Header
{4294967296 :// c
zchar
, [4294967296 ,
""a\\""
    ]: asx ,}
,_x  @calculatedFrom(
    ""\" ++ [233]%N ++ runes_of_ascii """)`tab	here` // a // b
, },} //
MetaData asx { zchar[
    42	] uint8x
// `tick` ""quote"" 'q'
// `tick` ""quote"" 'q'
, uint8
    Logon //x
`// not a comment` , } MetaData
    o
//	t
//x
{ u16 // " ++ [27880; 37322]%N ++ runes_of_ascii "
_x , x_y_z float `crlf
line`,BodyLength calculatedFrom
    `tab	here` ,
    uint16
MetaDataX , }
")).
Eval vm_compute in ("<<<M1297>>>" ++ check (runes_of_ascii "packet packetx{ stringy{ repeat  matchKey
    { match
    falsey as matchKey
{ 0123456789 :
float ,
[
""abc"" ] :u128
// " ++ [27880; 37322]%N ++ runes_of_ascii "
// " ++ [128512]%N ++ runes_of_ascii " emoji
""x y"" :// " ++ [27880; 37322]%N ++ runes_of_ascii "
i8i8 } , match  falsey as Foo { 65535// " ++ [128512]%N ++ runes_of_ascii " emoji
:trueish,
} ,
    },  char[]  roots@calculatedFrom(
    """ ++ [28040; 24687]%N ++ runes_of_ascii """), zchar[ 0123456789
// " ++ [27880; 37322]%N ++ runes_of_ascii "
// `tick` ""quote"" 'q'
]i64_ ,	zchar[ 42 ] MetaDataX
@lengthOf( len  )
,  }
, pack @lengthOf(  crc)//x
, @tag( 65535 )
    @leftPad	(
) @lengthOf(
    asx ) u8x {repeat uint64 Pad, x_y_z _x `
`, }
, MetaDataX stringy,
    // trailing space 
    @lengthOf( BodyLength ) string calculatedFrom
@calculatedFrom(""\n"" )
    `line1
line2` , u32
u8x , @tag(
    007
//
// c
)
//
//
@lengthOf( // packet A { u8 x, }
asx
    ) repeat uint8x { match  float
as // @lengthOf(
As{ [ ""1"" ,"""" , 255
,
255 ,
007 , ""1""// " ++ [27880; 37322]%N ++ runes_of_ascii "
]
: rootA""1""
    : msg_type // c
,
65535: f32a , ""x y""
:
    //
    leftPad}
    , }
    // trailing space 
    , u8 asx `u8 x,`, len `it's`,}
//x
/// triple
options {
falsey =
true }
")).
Eval vm_compute in ("<<<M4170>>>" ++ check (runes_of_ascii "//x
packet u8x {
    @lengthOf(As)
    repeat char[4294967296] int `{ , }`,
    repeat int8 len `two words`,
}

root packet tag {
}

root packet rootA {
    o @calculatedFrom(""""),
    leftPad i64_ `it's`,// " ++ [27880; 37322]%N ++ runes_of_ascii "
    @tag(7)
    float,
    int32 x_y_z,
    repeat roots {
        zchar[10] a1,
        f32a options1 `crlf
        line`,
        match _x as zchar {
            1 : u8x,
            ""// no comment"" : float,
            [4294967296, 10, """ ++ [233]%N ++ runes_of_ascii "t" ++ [233]%N ++ runes_of_ascii """, """ ++ [28040; 24687]%N ++ runes_of_ascii """, 1] : u128,
            [""\" ++ [233]%N ++ runes_of_ascii """, 42] : stringy,
            [1, ""\n""] : falsey,
        },
        string charz @calculatedFrom(""""),
    },
    char[] options1 `
    `,
    //	t
    /// triple
    u8x {
        repeat msg_type matchKey `u8 x,`,
    },
    A @lengthOf(pack),
    i64 stringy,
}

packet i8i8 {
    i64_ u128,
    @lengthOf(u8x)
    repeat float64 f32a,
    @calculatedFrom(""`tick`"")
    pack `" ++ [233]%N ++ runes_of_ascii "`,
    uint64 Z9_ @calculatedFrom("""") `tab	here`,
}")).
Eval vm_compute in ("<<<M163>>>" ++ check (runes_of_ascii "packet
    // `tick` ""quote"" 'q'
    u8x {} packet calculatedFrom
    {
    i8i8
len
,
    match lengthOf as leftPad
{ 007
    : crc
, ""abc"": o 10 : falsey
    } , repeat  i8
metadata  , @calculatedFrom(""" ++ [28040; 24687]%N ++ runes_of_ascii """ ) repeat int16
leftPad
    // trailing space 
    ``
    ,BodyLength
    @calculatedFrom(  ""a\\""
    ) ,
char[] f32a,
    tag// packet A { u8 x, }
rootA
, @rightPad (
    // " ++ [27880; 37322]%N ++ runes_of_ascii "
    ' ' ) @tag( 007 ) match o as
    // " ++ [27880; 37322]%N ++ runes_of_ascii "
    _x { [ 1
    // " ++ [27880; 37322]%N ++ runes_of_ascii "
    ,
""a	b""
, ""1"" ,
00 ,7
// " ++ [128512]%N ++ runes_of_ascii " emoji
//x
,""" ++ [233]%N ++ runes_of_ascii "t" ++ [233]%N ++ runes_of_ascii """
    ,
    // c
    7 ,00
    ]
    : Foo ,
    // " ++ [27880; 37322]%N ++ runes_of_ascii "
    ""\" ++ [233]%N ++ runes_of_ascii """// @lengthOf(
:  matchKey
    ,},//x
@rightPad (	'\x00' )string msg_type	, }
packet  trueish {u8x
``
, @lengthOf( Header
    )
    repeat int64 int	`` ,
} MetaData matchKey	{ string msg_type	, zchar[
    //	t
    4294967296
]
repeatCount `it's`
, u8
crc
, zchar
o ,int64 asx
, }root
packet chars{
    }
")).
Eval vm_compute in ("<<<M989>>>" ++ check (runes_of_ascii "packet int
// a // b
// @lengthOf(
{i16 Logon @calculatedFrom(
    ""a\\"" ) ,  repeat
calculatedFrom	`// not a comment` , @calculatedFrom(
    // @lengthOf(
    ""CRC32"" ) Z9_ charz , @lengthOf(  Z9_) /// triple
matchKey  `u8 x,` , } MetaData asx { }packet
Packet {
    @tag( 65535  ) options1, int @lengthOf(
metadata
) `it's`,
    //x
    u8x{ char[00 ] Logon ,
repeat  i32 T
`// not a comment` , chars { float64
msg_type@lengthOf(
body	), f64 Z9_ ,
// a // b
// @lengthOf(
u16 string_
@lengthOf( int )`doc`	,//x
repeatCount
    @calculatedFrom( ""x y""	),} , }, match A/// triple
as	u { [
    ""packet"" , ""x y"" ] : f32a ,
[
65535 /// triple
,00 ] :stringy 255 : pack
    ,
[ 0 , ""`tick`""
    ] :
x
    ,
    1 : matchKey
, } , } packet
    roots{
@calculatedFrom( ""\n"" ) char[
65535
    // a // b
    ] Packet , }
")).
Eval vm_compute in ("<<<M3824>>>" ++ check (runes_of_ascii "  packet
    leftPad
{ @tag( 1
)
    i8  // a // b
crc

    , float64	packetx `" ++ [233]%N ++ runes_of_ascii "`

,
	lengthOf	@lengthOf(	charz
        // trailing space 
  )	,
repeat
	Packet ,  @lengthOf(u)
	@lengthOf( 	 // " ++ [27880; 37322]%N ++ runes_of_ascii "
  T

    )
	repeat u16 uint8x
    `" ++ [28040; 24687; 31867; 22411]%N ++ runes_of_ascii "`
    ,

zchar[

10  ] 	 // a // b
metadata
``
,  match  // packet A { u8 x, }
  trueish
as
	options1  {
0123456789 
:  rootA,
255
    : MetaDataX

[""a\\""

, 	 /// triple
      ""\n""
	,	00	,
10] :trueish
,

    ""CRC32""
:  uint8x
, 0 
: Z9_,
""1""  // c
: 
i8i8 
  // `tick` ""quote"" 'q'
  	// packet A { u8 x, }
	, },
@calculatedFrom( ""it's""	)
uint8 chars`
` 
,

    } options
    // @lengthOf(
    {
	f32a
    =i16
	;// " ++ [128512]%N ++ runes_of_ascii " emoji
	u
	=
	""abc""

} 
MetaData chars{

i16
    lengthOf,
Packet
msg_type	`crlf
line`
    ,	}// " ++ [27880; 37322]%N ++ runes_of_ascii "
")).
Eval vm_compute in ("<<<M870>>>" ++ check (runes_of_ascii "packet As { //	t
char[ 4294967296
    ] o
    @calculatedFrom(
    ""// no comment"" ) , @calculatedFrom( ""\" ++ [233]%N ++ runes_of_ascii """
)Foo{ pack@lengthOf( uint8x  ) , } ,@calculatedFrom( ""it's"") @lengthOf( Pad ) //
@calculatedFrom( """ ++ [128512]%N ++ runes_of_ascii """ )
    repeat
zchar[ 42 ]BodyLength ,
match body  as
T
{
    255 //x
: msg_type
// @lengthOf(
// @lengthOf(
, 4294967296 : metadata
    , [ ""{,}"" , 4294967296
] :f32a
    7  : options1
,
    10 :
    float , [
    ""abc"" ,  ""abc""
, 0
    //x
    ] : u ,
}  , repeat
    //	t
    int64 o `
`  , i8i8
    `// not a comment` , } packet x { }  packet falsey	{
    repeat char
    Logon	, }packet
    _x
    {
@calculatedFrom( ""a\""b"")@tag( 7
// trailing space 
// a // b
) @calculatedFrom( ""a\\"" ) metadata
    // " ++ [128512]%N ++ runes_of_ascii " emoji
    , }
")).
Eval vm_compute in ("<<<M1014>>>" ++ check (runes_of_ascii "packet	Header {
char repeatCount@lengthOf(a1
    ) , Packet @calculatedFrom( ""{,}""
    )
    `tab	here` ,
    _x
    `" ++ [28040; 24687; 31867; 22411]%N ++ runes_of_ascii "` ,  @tag(
255 ) u32
    string_	@calculatedFrom( ""{,}"" ) `line1
line2`// packet A { u8 x, }
, options1 @lengthOf( len
)
`u8 x,` , @leftPad ( ' ' )
lengthOf { char[
65535 ] options1// " ++ [128512]%N ++ runes_of_ascii " emoji
, MetaDataX @calculatedFrom( """ ++ [28040; 24687]%N ++ runes_of_ascii """ ) , } , @leftPad  ( '\x00' ) zchar[ 255 ]
    pack @calculatedFrom(
    ""1"")
`u8 x,`  , u32 Header , @lengthOf(
    falsey)	@rightPad
(' ' )
//x
//x
@calculatedFrom(
// " ++ [128512]%N ++ runes_of_ascii " emoji
/// triple
""a\\"" ) msg_type , }
    root packet chars{
} options {}MetaData Pad{
    string
    // " ++ [128512]%N ++ runes_of_ascii " emoji
    _x
`{ , }` ,  Packet u128, zchar[
4294967296 ] A
    ``
, }")).
Eval vm_compute in ("<<<M4327>>>" ++ check (runes_of_ascii "packet x_y_z {
    @leftPad()
    int8 x_y_z,
    @lengthOf(f32a)
    repeat char[7] len,
    int64 matchKey @calculatedFrom(""// no comment""),
    @lengthOf(roots)
    @lengthOf(MetaDataX)
    int32 Packet,// a // b
    @rightPad(' ')
    i8i8 {
        char Packet @lengthOf(crc) `" ++ [28040; 24687; 31867; 22411]%N ++ runes_of_ascii "`,
    },
    @calculatedFrom("""")
    repeat zchar[255] i64_,
    @tag(0123456789)
    Logon,
    @lengthOf(options1)
    int32 Header,
    @leftPad()
    int64 crc,
    @lengthOf(As)
    match trueish as BodyLength {
        ""\" ++ [233]%N ++ runes_of_ascii """ : x,
        0123456789 : stringy,
        [255, 0, """ ++ [128512]%N ++ runes_of_ascii """, ""packet""] : _x,
        ""packet"" : o,
        42 : stringy,
        ""abc"" : Logon,
    },
}")).
Eval vm_compute in ("<<<M375>>>" ++ check (runes_of_ascii "packet zchar
{BodyLength x // `tick` ""quote"" 'q'
, // trailing space 
@rightPad ('0' )
match _x as x { [
    """ ++ [128512]%N ++ runes_of_ascii """ ] : falsey  , 65535
:  chars 0 : falsey , [ ""packet""
    ] :// c
metadata	0 : repeatCount,00//
:  packetx ,
} , } packet crc  { match body
//x
//x
as len {
7:
    leftPad
,007 : x_y_z , 00
:
    x_y_z, [ 0, 10 ,
10 , //	t
10	] :	calculatedFrom // packet A { u8 x, }
, ""packet"" : calculatedFrom } , @leftPad ( '0' ) @tag(
4294967296
    ) match u128 // c
as trueish
{	3
: i64_
    ,
    }, char[255
]o @lengthOf(leftPad
    )
`u8 x,` , } MetaData o {float
roots ,
    x_y_z MetaDataX , packetx zchar
    , }")).
Eval vm_compute in ("<<<M938>>>" ++ check (runes_of_ascii "options {	o/// triple
= '0'
; } packet // @lengthOf(
u128	{
// @lengthOf(
// `tick` ""quote"" 'q'
@calculatedFrom(""{,}"" )
uint16
pack
@calculatedFrom( """ ++ [233]%N ++ runes_of_ascii "t" ++ [233]%N ++ runes_of_ascii """)
, }
packet
A { //x
u8 chars@lengthOf( BodyLength )
    ,
    lengthOf @calculatedFrom(//x
""// no comment""
    ) , x_y_z{ string
    Pad  `" ++ [233]%N ++ runes_of_ascii "` ,
    // " ++ [27880; 37322]%N ++ runes_of_ascii "
    len{ zchar[ 0123456789 ]
T
    ,
    match // a // b
u128 as	metadata  { 3 : u128 , ""\n"" :x [ """ ++ [233]%N ++ runes_of_ascii "t" ++ [233]%N ++ runes_of_ascii """,
//
// " ++ [27880; 37322]%N ++ runes_of_ascii "
""packet""
    ] : // @lengthOf(
tag 10
: options1 , ""abc""
    : // trailing space 
u ,	},} ,tag
@calculatedFrom(
    // packet A { u8 x, }
    """" )
`it's`	, } , } // " ++ [27880; 37322]%N)).
Eval vm_compute in ("<<<M3948>>>" ++ check (runes_of_ascii "packet packetx {
    @calculatedFrom(""packet"")
    // " ++ [27880; 37322]%N ++ runes_of_ascii "
    @calculatedFrom(""// no comment"")
    @leftPad('0')
    //	t
    Z9_ T,
    leftPad uint8x,
    @tag(4294967296)
    leftPad {
        roots {
            char options1,
        },
        match Pad as int {
            [10] : roots,
            [
                ""CRC32"", ""1"", 3, 7, 0,
                0, ""CRC32"", 7
            ] : Packet,
            1 : tag,
            1 : matchKey,
            [42] : _x,
        },
        repeat tag {
            metadata `" ++ [233]%N ++ runes_of_ascii "`,
        },//	t
        u `a\`,
    },
}")).
Eval vm_compute in ("<<<M3982>>>" ++ check (runes_of_ascii "  root packet
    Pad {

@tag(65535 )  @lengthOf(

matchKey

    ) //

int32
	pack  ,// `tick` ""quote"" 'q'

zchar[  65535
]
charz
@calculatedFrom(""""
	)

    `crlf
line`
    ,
    }

    MetaData
options1

    {
charz crc

    //
	  // " ++ [27880; 37322]%N ++ runes_of_ascii "
  ,body packetx`// not a comment`

,
}	packet

string_ {

    char[7 // @lengthOf(
  ]  T 
@calculatedFrom( ""\" ++ [233]%N ++ runes_of_ascii """

)// c
  ,

    @leftPad ('\x00' 
)
	@calculatedFrom(
""packet""
    ) @tag(42
        // " ++ [128512]%N ++ runes_of_ascii " emoji
	// " ++ [128512]%N ++ runes_of_ascii " emoji
)
    string	string_
@calculatedFrom(
    """ ++ [28040; 24687]%N ++ runes_of_ascii """
	) `a\`
	,
} ")).
Eval vm_compute in ("<<<M1150>>>" ++ check (runes_of_ascii "
packet
    // " ++ [27880; 37322]%N ++ runes_of_ascii "
    chars {u8x metadata	`u8 x,` , @lengthOf( o
) leftPad /// triple
@lengthOf( leftPad)
    `line1
line2` , match  falsey as o //x
{[ ""\" ++ [233]%N ++ runes_of_ascii """
    ,""a\\"",00]: falsey,0 : u	""a\""b"" :	roots , """ ++ [128512]%N ++ runes_of_ascii """ :
Foo, [
    """ ++ [233]%N ++ runes_of_ascii "t" ++ [233]%N ++ runes_of_ascii """ , ""a\""b""//x
, 7  ]	: // a // b
string_
    // a // b
    ""a\\"" :
    string_	,
    },@calculatedFrom( ""a	b"" ) repeat body  `a\` , }options {stringy = 0 }packet
    // a // b
    chars {
charz@calculatedFrom( ""a	b"" ) ,uint32 lengthOf, int8
    repeatCount ,
uint16 // @lengthOf(
o`
` ,
    }")).
Eval vm_compute in ("<<<M950>>>" ++ check (runes_of_ascii "root
packet // " ++ [128512]%N ++ runes_of_ascii " emoji
msg_type
    {
zchar[ 1  ] float
    @lengthOf( A )
    // packet A { u8 x, }
    , u8x {// @lengthOf(
repeat trueish {match
    crc as Logon {
    [ 1, 7 ]
: // @lengthOf(
A
,} , } ,  } ,@tag(255
    // c
    ) match A as options1 { 7:body ,
    [	""x y"", 3 /// triple
, 0 ,7  , 0123456789] : tag ,
    ""x y"" : crc
    }	,	match stringy// packet A { u8 x, }
as Z9_ { ""it's""
// a // b
// " ++ [128512]%N ++ runes_of_ascii " emoji
: x_y_z
    //
    ,	1
:pack }
, //	t
}
MetaData repeatCount
    {
}
")).
Eval vm_compute in ("<<<M593>>>" ++ check (runes_of_ascii "root packet matchKey // trailing space 
{ // a // b
u8 roots `two words` , // " ++ [27880; 37322]%N ++ runes_of_ascii "
} //	t
root packet float {	@rightPad ( '0') i8i8
    , packetx @calculatedFrom( ""a\\""
) ,float32
    trueish
    `
`  ,
    @calculatedFrom(
""x y"" // c
)
    @lengthOf( //
o
// c
/// triple
) @lengthOf( uint8x ) i16 Logon
    , @leftPad (
    ' ' ) @lengthOf(
zchar	)
@lengthOf(
    x_y_z )
o
matchKey
    `" ++ [233]%N ++ runes_of_ascii "` ,
    match u8x	as Z9_  { ""a\""b"":// " ++ [27880; 37322]%N ++ runes_of_ascii "
_x , } , crc
BodyLength `it's` ,}
//
")).
Eval vm_compute in ("<<<M4191>>>" ++ check (runes_of_ascii "  root packet //x
  pack
{
    match  matchKey//	t
    	as  int	// @lengthOf(
	{
    00

:metadata , ""a\\"" 
:
	o 
,""// no comment""

    :  // `tick` ""quote"" 'q'
	x
	,
	[  ""packet"" 
]
	:
A	,	[  ""\n"" , 0123456789 
,00 ,""// no comment""

, 007 ,
255 , 1

, 	 // c
  0 ]
    // a // b
    :  metadata
	,

[ 00
	]
:
	Pad	,
	}

    , } // @lengthOf(
    MetaData
tag{  uint64 
i64_
    `doc` 
,
}	packet 
BodyLength  {
	repeat

    u32 u128

,} ")).
Eval vm_compute in ("<<<M3874>>>" ++ check (runes_of_ascii "MetaData metadata {
}

packet u {
    //
    @lengthOf(T)
    // packet A { u8 x, }
    @lengthOf(u)
    /// triple
    @leftPad('0')
    repeat uint8 x_y_z `" ++ [28040; 24687; 31867; 22411]%N ++ runes_of_ascii "`,
}

root packet A {
    @tag(10)
    repeat zchar[0] asx `doc`,
    char[7] float @lengthOf(BodyLength) `crlf
    line`,
    zchar[0123456789] u128,
    @rightPad()
    repeat zchar[255] Packet ``,
    BodyLength Pad,
    @tag(1)
    zchar[10] float @lengthOf(roots),
}")).
Eval vm_compute in ("<<<M617>>>" ++ check (runes_of_ascii "root packet BodyLength { int8 asx ``
    , match stringy  as falsey
    { 7
:stringy } , Header `u8 x,` ,match string_  as falsey{ 007 :
    BodyLength 65535:	roots [
//
//x
10,
00, ""a\""b""  , 0123456789 ,	3
    , /// triple
""" ++ [233]%N ++ runes_of_ascii "t" ++ [233]%N ++ runes_of_ascii """, ""x y"" , ""abc""
] :
crc , 0123456789
    : f32a
, 1
    :
    Logon,  [""CRC32"" // a // b
,
""a	b"" ,
    65535 , ""1"" ,// trailing space 
""1""	,
65535 ] :
zchar //	t
,  } , i64_ , } //	t")).
Eval vm_compute in ("<<<M4500>>>" ++ check (runes_of_ascii "options {
    T = zchar[0123456789]
}

root packet Pad {
    match repeatCount as pack {
        [
            3, 255, ""// no comment"", """ ++ [28040; 24687]%N ++ runes_of_ascii """, ""it's"",
            255, ""it's""
        ] : packetx,
    },
    @calculatedFrom(""CRC32"")
    @lengthOf(Header)
    @lengthOf(u)
    match As as calculatedFrom {
        [255, 00] : Z9_,
        [""a	b""] : Header,
    },
    x_y_z,
    // packet A { u8 x, }
}")).
Eval vm_compute in ("<<<M683>>>" ++ check (runes_of_ascii "MetaData float { u8 Packet
    ,
    string i64_ `" ++ [28040; 24687; 31867; 22411]%N ++ runes_of_ascii "`
, charz pack , char
rootA ,char[0123456789 ] msg_type ,
    uint8 calculatedFrom , } packet	Pad
    { }
    root packet len{ // c
matchKey
    @calculatedFrom(""a\""b""
    ) `u8 x,`
, //x
@leftPad
    ( ) match roots as u128{ [  4294967296
    // packet A { u8 x, }
    , 007] :body , } , charz ,
    // trailing space 
    }")).
Eval vm_compute in ("<<<M3712>>>" ++ check (runes_of_ascii "options {
    Foo = ""packet"";
}

/// triple
//	t
options {
    // `tick` ""quote"" 'q'
    x = ' ';
}// @lengthOf(

MetaData calculatedFrom {
    char[65535] asx,
    zchar stringy `
        `,
    roots packetx,
    zchar[3] options1,
    float u8x,
    char asx `doc`,
}

packet lengthOf {
    uint16 calculatedFrom @calculatedFrom(""x y""),
}// packet A { u8 x, }")).
Eval vm_compute in ("<<<M1344>>>" ++ check (runes_of_ascii "packet x { @tag(7 // " ++ [27880; 37322]%N ++ runes_of_ascii "
) @calculatedFrom(""{,}"")
    int16
    Packet @calculatedFrom(
""it's""
    ) `a\`
    ,charz f32a// @lengthOf(
, match metadata
    as BodyLength{ [ 65535 , 3, 1 ,00,// `tick` ""quote"" 'q'
""a	b""	]: // " ++ [27880; 37322]%N ++ runes_of_ascii "
stringy , /// triple
[ ""`tick`""
] :
//
// packet A { u8 x, }
float },
@tag(  007 ) @tag(7)leftPad @lengthOf(pack) , }
")).
Eval vm_compute in ("<<<M955>>>" ++ check (runes_of_ascii "
options { u128
// c
// packet A { u8 x, }
=false
}packet i64_
{ @calculatedFrom( ""a	b"" ) Z9_ {
    x_y_z`two words` , string_
/// triple
//x
, }, match // trailing space 
BodyLength as As {
    //x
    [
""a\""b""]: Z9_	, } ,
//	t
// a // b
char[]	asx
,
    i16
crc `doc` , } packet o
    { @leftPad ( '\x00' ) repeat u8x
T,
    }
")).
Eval vm_compute in ("<<<M1886>>>" ++ check (runes_of_ascii "MetaData
    u { }  options {
// c
// @lengthOf(
float float = int8 ;rootA =false ; As =	int16 // `tick` ""quote"" 'q'
repeatCount
    // trailing space 
    =
    int16
; u8x =
    //	t
    '\x00' ; } options	{
    repeatCount
= 0
u128
    //
    = false ; i64_
// trailing space 
// `tick` ""quote"" 'q'
= '0' ; //	t
}
")).
Eval vm_compute in ("<<<M1928>>>" ++ check (runes_of_ascii "MetaData
    u { }  options {
// c
// @lengthOf(
float = int8 ;rootA =false ; @tag( =	int16 // `tick` ""quote"" 'q'
repeatCount
    // trailing space 
    =
    int16
; u8x =
    //	t
    '\x00' ; } options	{
    repeatCount
= 0
u128
    //
    = false ; i64_
// trailing space 
// `tick` ""quote"" 'q'
= '0' ; //	t
}
")).
Eval vm_compute in ("<<<M2065>>>" ++ check (runes_of_ascii "MetaData
    u { }  options {
// c
// @lengthOf(
float = int8 ;rootA =false ; ' As =	int16 // `tick` ""quote"" 'q'
repeatCount
    // trailing space 
    =
    int16
; u8x =
    //	t
    '\x00' ; } options	{
    repeatCount
= 0
u128
    //
    = false ; i64_
// trailing space 
// `tick` ""quote"" 'q'
= '0' ; //	t
}
")).
Eval vm_compute in ("<<<M1902>>>" ++ check (runes_of_ascii "MetaData
    u { }  options {
// c
// @lengthOf(
float = int8 rootA; =false ; As =	int16 // `tick` ""quote"" 'q'
repeatCount
    // trailing space 
    =
    int16
; u8x =
    //	t
    '\x00' ; } options	{
    repeatCount
= 0
u128
    //
    = false ; i64_
// trailing space 
// `tick` ""quote"" 'q'
= '0' ; //	t
}
")).
Eval vm_compute in ("<<<M2047>>>" ++ check (runes_of_ascii "MetaData
    u { }  options {
// c
// @lengthOf(
float = int8 ;rootA =false ; As =	int16 // `tick` ""quote"" 'q'
repeatCount
    // trailing space 
    =
    int16
; u8x =
    //	t
    '\x00' ; } options	{
    repeatCount
= 0
u128
    //
    = false ; i64_
// trailing space 
// `tick` ""quote"" 'q'
= '0' } //	t
;
")).
Eval vm_compute in ("<<<M1878>>>" ++ check (runes_of_ascii "MetaData
    u { }  match {
// c
// @lengthOf(
float = int8 ;rootA =false ; As =	int16 // `tick` ""quote"" 'q'
repeatCount
    // trailing space 
    =
    int16
; u8x =
    //	t
    '\x00' ; } options	{
    repeatCount
= 0
u128
    //
    = false ; i64_
// trailing space 
// `tick` ""quote"" 'q'
= '0' ; //	t
}
")).
Eval vm_compute in ("<<<M3807>>>" ++ check (runes_of_ascii "MetaData T {
    Foo lengthOf,
    string packetx `// not a comment`,
    zchar[0] metadata `crlf
        line`,
    x string_ `line1
        line2`,
}

packet repeatCount {
    char[255] A @calculatedFrom(""a\\""),
    float32 BodyLength @lengthOf(_x) `doc`,
    char[] trueish @calculatedFrom(""packet""),
}")).
Eval vm_compute in ("<<<M1200>>>" ++ check (runes_of_ascii "root packet msg_type{
repeat
char[ 7 ]
    o  `doc`,
    @calculatedFrom( // packet A { u8 x, }
""x y""
    )repeat packetx tag ,
char[]A
    `doc`,
    repeat
// " ++ [128512]%N ++ runes_of_ascii " emoji
// trailing space 
BodyLength {
//
//
int8
As , i16 stringy , x_y_z {
zchar[ 65535 ] matchKey
@lengthOf( zchar ) ,}
, }, } //")).
Eval vm_compute in ("<<<M3592>>>" ++ check (runes_of_ascii "packet A {
    u8 a,
}
packet B {
    u16 b,
}
packet C {
    u32 c,
}
root packet M {
    u16 Kc, u16 Kb, u16 Ka,
    match Kc as X {
        9 : A,
        10 : B,
    },
    match Kb as Y {
        2 : C,
        1 : A,
    },
    match Ka as Z {
        1 : B,
    },
    A, B, C,
}
")).
Eval vm_compute in ("<<<M676>>>" ++ check (runes_of_ascii "packet charz { @tag(7) repeat _x , }MetaData x	{ i32 float , f32 u8x,uint64
rootA	`crlf
line` , }  options{ T
= f64 ;
    calculatedFrom=
true	}
packet trueish {
    } root
    //	t
    packet rootA
{ crc _x `say ""hi""`, stringy
    //
    uint8x, repeat
x_y_z`u8 x,`
, }
")).
Eval vm_compute in ("<<<M3955>>>" ++ check (runes_of_ascii "
options  { 
  // c1
    LittleEndian// c2
    =
true 
  // c4

  ; 
    // c5

}  // c6
    root 	 // c7a
	// c7b
packet 
	    // c8
  P {	repeat	// c11a
// c11b
    char 

// c12
	  cs 
    // c13
	, u8

x  // c16
      , 
// c17
		}	// c18a
	// c18b
")).
Eval vm_compute in ("<<<M1084>>>" ++ check (runes_of_ascii "packet
tag { int8 packetx , }packet Foo/// triple
{//x
repeatCount@calculatedFrom( ""x y"" /// triple
)
,char[00
] As @lengthOf( a1 )
`crlf
line`
,
    @tag( 10) len {  char[	10// " ++ [128512]%N ++ runes_of_ascii " emoji
] matchKey `" ++ [233]%N ++ runes_of_ascii "` , f32a@lengthOf( u128
    )
    `it's` ,
    } ,
}
")).
Eval vm_compute in ("<<<M1533>>>" ++ check (runes_of_ascii "packet
//	t
// trailing space 
_x {
// packet A { u8 x, }
// c
char[
3
    ] u8x @lengthOf(
u8x ) ) , @calculatedFrom(""" ++ [128512]%N ++ runes_of_ascii """ // @lengthOf(
)
i16	Foo
@lengthOf(	string_
    )`doc`	, repeat	i64 metadata , @lengthOf( string_
) i8 // c
u  `line1
line2`	,
}
")).
Eval vm_compute in ("<<<M1671>>>" ++ check (runes_of_ascii "packet
//	t
// trailing space 
_x {
// packet A { u8 x, }
// c
char[
3
    ] u8x @lengthOf(
u8x ) , @calculatedFrom(""" ++ [128512]%N ++ runes_of_ascii """ // @lengthOf(
)
i16	" ++ [252]%N ++ runes_of_ascii "ber
@lengthOf(	string_
    )`doc`	, repeat	i64 metadata , @lengthOf( string_
) i8 // c
u  `line1
line2`	,
}
")).
Eval vm_compute in ("<<<M1609>>>" ++ check (runes_of_ascii "packet
//	t
// trailing space 
_x {
// packet A { u8 x, }
// c
char[
3
    ] u8x @lengthOf(
u8x ) , @calculatedFrom(""" ++ [128512]%N ++ runes_of_ascii """ // @lengthOf(
)
i16	Foo
@lengthOf(	string_
    )`doc`	, repeat	i64 metadata @lengthOf( , string_
) i8 // c
u  `line1
line2`	,
}
")).
Eval vm_compute in ("<<<M1492>>>" ++ check (runes_of_ascii "packet
//	t
// trailing space 
 {
// packet A { u8 x, }
// c
char[
3
    ] u8x @lengthOf(
u8x ) , @calculatedFrom(""" ++ [128512]%N ++ runes_of_ascii """ // @lengthOf(
)
i16	Foo
@lengthOf(	string_
    )`doc`	, repeat	i64 metadata , @lengthOf( string_
) i8 // c
u  `line1
line2`	,
}
")).
Eval vm_compute in ("<<<M3940>>>" ++ check (runes_of_ascii "packet packetx {
    @leftPad('0')
    @lengthOf(T)
    @calculatedFrom(""\" ++ [233]%N ++ runes_of_ascii """)
    match i64_ as tag {
        ""abc"" : Header,
        [7] : chars,
        ""a	b"" : f32a,
        ""\" ++ [233]%N ++ runes_of_ascii """ : f32a,
        ""CRC32"" : zchar,
        ""abc"" : Z9_,
    },
}")).
Eval vm_compute in ("<<<M590>>>" ++ check (runes_of_ascii "MetaData
As  {BodyLength roots	, uint8x
    uint8x
    , } packet pack
    /// triple
    { lengthOf `crlf
line` , char
i8i8 ,
@tag( 4294967296) zchar[ 1 ] Header `say ""hi""` , @tag(4294967296 )
    string chars,	}
// trailing space 
")).
Eval vm_compute in ("<<<M716>>>" ++ check (runes_of_ascii "MetaData  u8x{ msg_type T
    `it's` ,
// `tick` ""quote"" 'q'
// trailing space 
zchar[
    4294967296
]	len/// triple
, u32 chars `a\` , metadata calculatedFrom
`{ , }`
,
    } packet Z9_ {	}  root packet
Logon {}
/// triple
")).
Eval vm_compute in ("<<<M677>>>" ++ check (runes_of_ascii "root packet
    leftPad
    { @lengthOf(
/// triple
//x
_x ) // trailing space 
stringy{
Pad //
{ stringy falsey , int32 metadata @lengthOf( x_y_z)
, }, }
, @rightPad ( )
@tag( 10 ) BodyLength
    `say ""hi""`
,
    }")).
Eval vm_compute in ("<<<M1792>>>" ++ check (runes_of_ascii "options { trueish = ""`tick`"" ; string_= """ ++ [233]%N ++ runes_of_ascii "t" ++ [233]%N ++ runes_of_ascii """
    // c
    } root
    packet body { stringy @calculatedFrom(
""a	b"" ) `line1
line2` , }
packet Logon {
    @leftPad @leftPad(
    ' ' ) //	t
u16 string_ `u8 x,` ,
}
")).
Eval vm_compute in ("<<<M1712>>>" ++ check (runes_of_ascii "options { trueish = ""`tick`"" ; string_= """ ++ [233]%N ++ runes_of_ascii "t" ++ [233]%N ++ runes_of_ascii """ """ ++ [233]%N ++ runes_of_ascii "t" ++ [233]%N ++ runes_of_ascii """
    // c
    } root
    packet body { stringy @calculatedFrom(
""a	b"" ) `line1
line2` , }
packet Logon {
    @leftPad(
    ' ' ) //	t
u16 string_ `u8 x,` ,
}
")).
Eval vm_compute in ("<<<M1737>>>" ++ check (runes_of_ascii "options { trueish = ""`tick`"" ; string_= """ ++ [233]%N ++ runes_of_ascii "t" ++ [233]%N ++ runes_of_ascii """
    // c
    } root
    packet body { { stringy @calculatedFrom(
""a	b"" ) `line1
line2` , }
packet Logon {
    @leftPad(
    ' ' ) //	t
u16 string_ `u8 x,` ,
}
")).
Eval vm_compute in ("<<<M1008>>>" ++ check (runes_of_ascii "packet roots{ @lengthOf(
pack )@tag( 4294967296 // c
) As  i8i8// @lengthOf(
`line1
line2` , repeat Header A,@lengthOf(roots	)
@lengthOf(
packetx)
@tag(// trailing space 
42
) repeat int8
Logon ,
    }
")).
Eval vm_compute in ("<<<M1803>>>" ++ check (runes_of_ascii "options { trueish = ""`tick`"" ; string_= """ ++ [233]%N ++ runes_of_ascii "t" ++ [233]%N ++ runes_of_ascii """
    // c
    } root
    packet body { stringy @calculatedFrom(
""a	b"" ) `line1
line2` , }
packet Logon {
    @leftPad(
    ) ' ' //	t
u16 string_ `u8 x,` ,
}
")).
Eval vm_compute in ("<<<M1784>>>" ++ check (runes_of_ascii "options { trueish = ""`tick`"" ; string_= """ ++ [233]%N ++ runes_of_ascii "t" ++ [233]%N ++ runes_of_ascii """
    // c
    } root
    packet body { stringy @calculatedFrom(
""a	b"" ) `line1
line2` , }
packet i8 {
    @leftPad(
    ' ' ) //	t
u16 string_ `u8 x,` ,
}
")).
Eval vm_compute in ("<<<M1611>>>" ++ check (runes_of_ascii "packet
//	t
// trailing space 
_x {
// packet A { u8 x, }
// c
char[
3
    ] u8x @lengthOf(
u8x ) , @calculatedFrom(""" ++ [128512]%N ++ runes_of_ascii """ // @lengthOf(
)
i16	Foo
@lengthOf(	string_
    )`doc`	, repeat	i64 metadata")).
Eval vm_compute in ("<<<M354>>>" ++ check (runes_of_ascii "MetaData u128 { char[]falsey ,u8  roots	, i8
u `doc`, packetx int ,
}// c
packet asx
{ }
options	{ matchKey= ""// no comment"" Logon
= char[]
    u128=
false options1 =' '
len
    = '\x00'  }")).
Eval vm_compute in ("<<<M3595>>>" ++ check (runes_of_ascii "options {
    FixedStringPadChar = '0';
}
packet Q {
    zchar[4] z,
    @rightPad('\x00') char[3] n,
    char[5] d,
}
root packet R {
    Q,
    zchar[8] top,
    repeat zchar[2] zs,
}
")).
Eval vm_compute in ("<<<M967>>>" ++ check (runes_of_ascii "packet
f32a {int16 x	@calculatedFrom( ""{,}"" ) ,  repeat char[]
    As	, repeat char[] u128 , stringy @calculatedFrom( ""a	b"") ,
    } MetaData A
    { zchar[
    65535	] //
body,}")).
Eval vm_compute in ("<<<M1810>>>" ++ check (runes_of_ascii "options { trueish = ""`tick`"" ; string_= """ ++ [233]%N ++ runes_of_ascii "t" ++ [233]%N ++ runes_of_ascii """
    // c
    } root
    packet body { stringy @calculatedFrom(
""a	b"" ) `line1
line2` , }
packet Logon {
    @leftPad(
    ' '")).
Eval vm_compute in ("<<<M1257>>>" ++ check (runes_of_ascii "root packet falsey {
repeat char[] leftPad	, repeat
f64 // " ++ [128512]%N ++ runes_of_ascii " emoji
_x `{ , }` , @tag(  0)
    // `tick` ""quote"" 'q'
    uint64 float
    @calculatedFrom(""{,}"") , }
")).
Eval vm_compute in ("<<<M1287>>>" ++ check (runes_of_ascii "  packet rootA { asx , @tag(
    //x
    10 // " ++ [128512]%N ++ runes_of_ascii " emoji
)	@tag( 1	) @calculatedFrom( ""1"" ) /// triple
charz @calculatedFrom( ""a\\"")`line1
line2`, // @lengthOf(
}")).
Eval vm_compute in ("<<<M2346>>>" ++ check (runes_of_ascii "// c
packet match { @lengthOf( metadata ) repeat lengthOf
,a1{
trueish	,// c
repeat//	t
MetaDataX , } , zchar[
    42	] rootA // `tick` ""quote"" 'q'
,
    }
")).
Eval vm_compute in ("<<<M2352>>>" ++ check (runes_of_ascii "// c
packet x { @lengthOf( metadata ) repeat lengthOf
,a1{
trueish	,// c
repeat//	t
MetaDataX , } , , zchar[
    42	] rootA // `tick` ""quote"" 'q'
,
    }
")).
Eval vm_compute in ("<<<M2090>>>" ++ check (runes_of_ascii "options{
_x
= = true
} options
{ o	= /// triple
false
    ; chars
= ""\n"" } root packet	Pad
/// triple
// packet A { u8 x, }
{	chars
    // a // b
    ,}")).
Eval vm_compute in ("<<<M2418>>>" ++ check (runes_of_ascii "// c
packet x { @lengthOf( metadata ) repeat lengthOf
,a1{
trueish	,// c
repeat//	t
MetaDataX } , , zchar[
    42	] rootA // `tick` ""quote"" 'q'
,
    }
")).
Eval vm_compute in ("<<<M2092>>>" ++ check (runes_of_ascii "options{
_x
) true
} options
{ o	= /// triple
false
    ; chars
= ""\n"" } root packet	Pad
/// triple
// packet A { u8 x, }
{	chars
    // a // b
    ,}")).
Eval vm_compute in ("<<<M2080>>>" ++ check (runes_of_ascii "options
_x
= true
} options
{ o	= /// triple
false
    ; chars
= ""\n"" } root packet	Pad
/// triple
// packet A { u8 x, }
{	chars
    // a // b
    ,}")).
Eval vm_compute in ("<<<M2318>>>" ++ check (runes_of_ascii "// c
packet x { @lengthOf( metadata ) repeat lengthOf
,a1{
trueish	,// c
repeat//	t
MetaDataX , } , zchar[
    42	]  // `tick` ""quote"" 'q'
,
    }
")).
Eval vm_compute in ("<<<M2174>>>" ++ check (runes_of_ascii "options{
_x
= true
} options
{ o	= /// triple
false
    ; chars
= ""\n"" } root packet	Pad
/// triple
// packet A { u8 x, }
{	
    // a // b
    ,}")).
Eval vm_compute in ("<<<M708>>>" ++ check (runes_of_ascii "packet  As
{ char[] metadata
`doc`
, } root packet	int
{ // packet A { u8 x, }
zchar[ // @lengthOf(
007 ] leftPad ,
} // `tick` ""quote"" 'q'")).
Eval vm_compute in ("<<<M1651>>>" ++ check (runes_of_ascii "packet
//	t
// trailing space 
_x {
// packet A { u8 x, }
// c
char[
3
    ] u8x @lengthOf(
u8x ) , @calculatedFrom(""" ++ [128512]%N ++ runes_of_ascii """ // @lengthOf(
)
i1")).
Eval vm_compute in ("<<<M1418>>>" ++ check (runes_of_ascii "
packet
    falsey { Header@calculatedFrom( @calculatedFrom(""packet""  ) , char[
    0123456789 ] packetx
    , } // `tick` ""quote"" 'q'")).
Eval vm_compute in ("<<<M685>>>" ++ check (runes_of_ascii "MetaData
u128
    {string	falsey `u8 x,` // c
,
trueish
roots , } options
    {msg_type =
/// triple
// trailing space 
""" ++ [128512]%N ++ runes_of_ascii """ ; }")).
Eval vm_compute in ("<<<M1399>>>" ++ check (runes_of_ascii "
packet packet
    falsey { Header@calculatedFrom(""packet""  ) , char[
    0123456789 ] packetx
    , } // `tick` ""quote"" 'q'")).
Eval vm_compute in ("<<<M4594>>>" ++ check (runes_of_ascii "

  packet crc { 
@lengthOf(

    falsey

    )
Packet  /// triple
    	`crlf
line`
    // trailing space 
    , }

")).
Eval vm_compute in ("<<<M3339>>>" ++ check (runes_of_ascii "root packet matchKey { zchar[ 3 ] pack @calculatedFrom( ""a	b"" ) `doc` , }
// c
options { } MetaData A { int8 msg_type , }")).
Eval vm_compute in ("<<<M1458>>>" ++ check (runes_of_ascii "
packet
    falsey { Header@calculatedFrom(""packet""  ) , char[
    0123456789 ] packetx
    , , } // `tick` ""quote"" 'q'")).
Eval vm_compute in ("<<<M1312>>>" ++ check (runes_of_ascii "options{ charz =
    0 ; rootA = false
;
// @lengthOf(
// packet A { u8 x, }
As
//	t
//x
=
    true ; Pad = '\x00' }
")).
Eval vm_compute in ("<<<M1485>>>" ++ check (runes_of_ascii "
packet
    falsey { na" ++ [239]%N ++ runes_of_ascii "ve@calculatedFrom(""packet""  ) , char[
    0123456789 ] packetx
    , } // `tick` ""quote"" 'q'")).
Eval vm_compute in ("<<<M1437>>>" ++ check (runes_of_ascii "
packet
    falsey { Header@calculatedFrom(""packet""  ) , 
    0123456789 ] packetx
    , } // `tick` ""quote"" 'q'")).
Eval vm_compute in ("<<<M3872>>>" ++ check (runes_of_ascii "

  packet
o {
repeat Logon

uint8x
    ,
}
    options	{
    asx
	= 
zchar[
// c
	3	]
stringy=  '\x00'

}")).
Eval vm_compute in ("<<<M833>>>" ++ check (runes_of_ascii "packet
chars
    { @tag(	0123456789) match crc as
tag { 10
    : uint8x ,
[ 42 ]:
int // " ++ [128512]%N ++ runes_of_ascii " emoji
,}
, }
")).
Eval vm_compute in ("<<<M3569>>>" ++ check (runes_of_ascii "// top
root // c0a
  // c0b
packet P // c2a
  // c2b
{ // c3
string
    // c4
s
    // c5
,
    // c6
} ")).
Eval vm_compute in ("<<<M2979>>>" ++ check (runes_of_ascii "packet A {
  match k as n {
    [1, ""bb"", 007, ""d"", 5, ""f"", 7, ""h"", 9, ""j"", 11] : B,
    2 : C
  },
}")).
Eval vm_compute in ("<<<M3040>>>" ++ check (runes_of_ascii "packet A {
    Inner {
        u8 x `
x`,
        Deep {
            u8 y `
x`,
        },
    },
}")).
Eval vm_compute in ("<<<M2421>>>" ++ check (runes_of_ascii "// c
packet x { @lengthOf( metadata ) repeat lengthOf
,a1{
trueish	,// c
repeat//	t
MetaDataX ,")).
Eval vm_compute in ("<<<M609>>>" ++ check (runes_of_ascii "packet float	{i64 u8x @lengthOf(
    //x
    leftPad ) // packet A { u8 x, }
`line1
line2`
,}")).
Eval vm_compute in ("<<<M2215>>>" ++ check (runes_of_ascii "options
""it's"" } options { BodyLength= u16 Header= f64 ; u128 =
    true
    ; } // a // b")).
Eval vm_compute in ("<<<M4020>>>" ++ check (runes_of_ascii "MetaData body 
{ i64
pack
	`it's`	,	}
packet stringy

{
int16

calculatedFrom , 
// c
	}")).
Eval vm_compute in ("<<<M3287>>>" ++ check (runes_of_ascii "MetaData float { float64 charz `
` , } root packet // c
chars { @rightPad ( '0' ) Foo , }")).
Eval vm_compute in ("<<<M3498>>>" ++ check (runes_of_ascii "packet chars { } packet MetaDataX {
// c
@tag( 42 ) i16 string_ , repeat x `say ""hi""` , }")).
Eval vm_compute in ("<<<M2252>>>" ++ check (runes_of_ascii "options
{ } options { BodyLength= u16 Header= = f64 ; u128 =
    true
    ; } // a // b")).
Eval vm_compute in ("<<<M2307>>>" ++ check (runes_of_ascii "options
{ } options { BodyLength= u16 Header= f64 ; #u128 =
    true
    ; } // a // b")).
Eval vm_compute in ("<<<M2268>>>" ++ check (runes_of_ascii "options
{ } options { BodyLength= u16 Header= f64 ; = u128
    true
    ; } // a // b")).
Eval vm_compute in ("<<<M3238>>>" ++ check (runes_of_ascii "packet metadata { Logon { A `" ++ [28040; 24687; 31867; 22411]%N ++ runes_of_ascii "` , tag o , } ,
// c
zchar len `// not a comment` , }")).
Eval vm_compute in ("<<<M3429>>>" ++ check (runes_of_ascii "packet // c
o { repeat Logon uint8x , } options { asx = zchar[ 3 ] stringy = '\x00' }")).
Eval vm_compute in ("<<<M3461>>>" ++ check (runes_of_ascii "packet o { repeat Logon uint8x , } options { asx = zchar[ 3 ] stringy = // c
'\x00' }")).
Eval vm_compute in ("<<<M2269>>>" ++ check (runes_of_ascii "options
{ } options { BodyLength= u16 Header= f64 ; = =
    true
    ; } // a // b")).
Eval vm_compute in ("<<<M3404>>>" ++ check (runes_of_ascii "MetaData body { i64 pack `it's` // c
, } packet stringy { int16 calculatedFrom , }")).
Eval vm_compute in ("<<<M2932>>>" ++ check (runes_of_ascii "packet A {
  match k as n {
    [1, 22, ""c c"", 4, 5, ""f"", 7] : B
    2 : C
  },
}")).
Eval vm_compute in ("<<<M3056>>>" ++ check (runes_of_ascii "packet A {
    u32 crc @calculatedFrom(""\
""),
    @calculatedFrom(""\
"") u8 y,
}")).
Eval vm_compute in ("<<<M4176>>>" ++ check (runes_of_ascii "packet A {
    match k as n {
        [""a"", 22] : B,
        2 : C,
    },
}")).
Eval vm_compute in ("<<<M4618>>>" ++ check (runes_of_ascii "  packet  x  // c
    { @rightPad
(  )
repeat
roots
	Logon `doc` ,
    }")).
Eval vm_compute in ("<<<M1055>>>" ++ check (runes_of_ascii "packet packetx { /// triple
@rightPad ('0' ) @tag( 007)Logon Pad ,  }
")).
Eval vm_compute in ("<<<M3785>>>" ++ check (runes_of_ascii "packet pack {
    int64 options1,
    // packet A { u8 x, }
    //
}")).
Eval vm_compute in ("<<<M2872>>>" ++ check (runes_of_ascii "packet A {
  match k as n {
    [1, 22, 007] : B
    2 : C
  },
}")).
Eval vm_compute in ("<<<M4088>>>" ++ check (runes_of_ascii "MetaData M {
    u8 x `a
    
    b`,
    T t `a
    
    b`,
}")).
Eval vm_compute in ("<<<M3038>>>" ++ check (runes_of_ascii "packet A {
    B b `
x`,
    B `
x`,
    repeat B bs `
x`,
}")).
Eval vm_compute in ("<<<M3249>>>" ++ check (runes_of_ascii "// top
root // c0
packet // c1
pack // c2
{ // c3
} // c4
")).
Eval vm_compute in ("<<<M2883>>>" ++ check (runes_of_ascii "packet A { Inner { match k as n { [1,22,007] : B, }, }, }")).
Eval vm_compute in ("<<<M4004>>>" ++ check (runes_of_ascii "// trailing space 
packet Foo {
    zchar[255] body,
}")).
Eval vm_compute in ("<<<M2861>>>" ++ check (runes_of_ascii "packet A { Inner { match k as n { [1] : B, }, }, }")).
Eval vm_compute in ("<<<M2831>>>" ++ check (runes_of_ascii "repeat @leftPad false int8 int16 char[ uint64 ]")).
Eval vm_compute in ("<<<M2611>>>" ++ check (runes_of_ascii "packet A { match k as n { [1,""a"",2] : B, }, }")).
Eval vm_compute in ("<<<M4517>>>" ++ check (runes_of_ascii "// c
root packet u128 {
    chars `it's`,
}")).
Eval vm_compute in ("<<<M2612>>>" ++ check (runes_of_ascii "packet A { match k as n { [[1]] : B }, }")).
Eval vm_compute in ("<<<M2792>>>" ++ check (runes_of_ascii "&b}S=WnA*Kztkm]4ju&E{0O4$QB[x]{2&jMd""VW")).
Eval vm_compute in ("<<<M4086>>>" ++ check (runes_of_ascii "packet A {
    u8 x `a
    
    b`,
}")).
Eval vm_compute in ("<<<M2604>>>" ++ check (runes_of_ascii "packet A { match k as n { 1 : B } }")).
Eval vm_compute in ("<<<M4494>>>" ++ check (runes_of_ascii "packet	A {	B 
{ u8
    x,
	}

,
} ")).
Eval vm_compute in ("<<<M3127>>>" ++ check (runes_of_ascii "packet A {
 u8 x `d 	`, // c 	
}")).
Eval vm_compute in ("<<<M2728>>>" ++ check ([12; 1143; 65533]%N ++ runes_of_ascii ",j^" ++ [65533; 65533]%N ++ runes_of_ascii "t" ++ [65533; 65533; 19; 65533; 65533; 65533; 65533; 65533]%N ++ runes_of_ascii "-
" ++ [65533; 1407; 65533]%N ++ runes_of_ascii "}^$" ++ [65533; 65533]%N ++ runes_of_ascii "O " ++ [65533]%N)).
Eval vm_compute in ("<<<M2446>>>" ++ check (runes_of_ascii "f32 f64 float32 float64 float")).
Eval vm_compute in ("<<<M2643>>>" ++ check (runes_of_ascii "packet A { } x packet B { }")).
Eval vm_compute in ("<<<M3262>>>" ++ check (runes_of_ascii "root packet pack { } // c
")).
Eval vm_compute in ("<<<M634>>>" ++ check (runes_of_ascii "options {
As = true ; }")).
Eval vm_compute in ("<<<M59>>>" ++ check (runes_of_ascii "// packet A { u8 x, }
")).
Eval vm_compute in ("<<<M4275>>>" ++ check (runes_of_ascii "// packet A { u8 x, }")).
Eval vm_compute in ("<<<M2540>>>" ++ check (runes_of_ascii ": , ; = ( ) [ ] { }")).
Eval vm_compute in ("<<<M2103>>>" ++ check (runes_of_ascii "options{
_x
= true")).
Eval vm_compute in ("<<<M3130>>>" ++ check (runes_of_ascii "packet A {
}
// c" ++ [8203]%N)).
Eval vm_compute in ("<<<M3088>>>" ++ check (runes_of_ascii "packet A {
}// c" ++ [8202]%N)).
Eval vm_compute in ("<<<M1173>>>" ++ check (runes_of_ascii "packet f32a
{}
")).
Eval vm_compute in ("<<<M4039>>>" ++ check (runes_of_ascii "
options
{}
")).
Eval vm_compute in ("<<<M2487>>>" ++ check (runes_of_ascii "@lengthOf(")).
Eval vm_compute in ("<<<M340>>>" ++ check (runes_of_ascii "// " ++ [27880; 37322]%N ++ runes_of_ascii "

")).
Eval vm_compute in ("<<<M2515>>>" ++ check (runes_of_ascii """a\b""")).
Eval vm_compute in ("<<<M2838>>>" ++ check (runes_of_ascii "{yr*k")).
Eval vm_compute in ("<<<M2510>>>" ++ check (runes_of_ascii """a\""")).
Eval vm_compute in ("<<<M2528>>>" ++ check (runes_of_ascii "007")).
Eval vm_compute in ("<<<M2520>>>" ++ check (runes_of_ascii "``")).
Eval vm_compute in ("<<<M2799>>>" ++ check (runes_of_ascii "J")).
