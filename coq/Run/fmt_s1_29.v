From FP Require Import Lexer Parser ShowPT Digest Formatter.
From Coq Require Import String List NArith.
Import ListNotations.
Open Scope string_scope.
Set Printing Width 100000000.
Set Printing Depth 100000000.
Definition show_fres (r : fres) : string :=
  match r with
  | FOk s => "OK:" ++ sh_escaped s ""
  | FErr s => "ERR:" ++ sh_escaped s ""
  | FPanic p => "PANIC:" ++ p
  end.
Definition check (rs : list rune) : string := digest (show_fres (format_res rs)).
Definition full (rs : list rune) : string := show_fres (format_res rs).
Eval vm_compute in ("<<<M1816>>>" ++ check (runes_of_ascii "options {
    lengthOf = ""CRC32"";
    stringy = uint16;
    u8x = float32;
    x_y_z = zchar[007]
    repeatCount = ""a\""b"";
    // c
    //	t
}

MetaData trueish {
    As roots `" ++ [28040; 24687; 31867; 22411]%N ++ runes_of_ascii "`,
    char[00] Packet,
}

root packet roots {
    int8 Logon,
    body @lengthOf(lengthOf) `
    `,
    @rightPad('0')
    Packet @calculatedFrom(""x y"") `a\`,
    @lengthOf(T)
    match matchKey as _x {
        """ ++ [128512]%N ++ runes_of_ascii """ : stringy,
        4294967296 : x_y_z,
        ""\n"" : leftPad,
        [42, 42, ""it's"", ""\n"", ""// no comment""] : asx,
    },
    char[10] BodyLength,
    @leftPad('0')
    char[] Z9_ `crlf
    line`,
    string falsey,
    int16 asx @calculatedFrom(""x y""),
    u128 Z9_ `it's`,
    @rightPad('0')
    Packet {
        // " ++ [128512]%N ++ runes_of_ascii " emoji
        int64 float,
        repeat leftPad {
            repeat Z9_ {
                match T as lengthOf {
                    ""`tick`"" : msg_type,
                    ""1"" : x_y_z,
                    0 : chars,
                },
            },
            repeat trueish {
                zchar[255] crc `doc`,
                char Logon @lengthOf(_x),
                //
                a1 `doc`,
                //x
                //	t
            },
            match msg_type as zchar {
                ""it's"" : body,
                """ ++ [28040; 24687]%N ++ runes_of_ascii """ : u,
            },
        },
    },
}

packet As {
    @leftPad('\x00')
    @tag(255)
    @lengthOf(o)
    zchar[42] string_ @calculatedFrom(""a\""b"") `" ++ [28040; 24687; 31867; 22411]%N ++ runes_of_ascii "`,
    char[] repeatCount @lengthOf(calculatedFrom),
    metadata @calculatedFrom(""abc"") `two words`,
    // `tick` ""quote"" 'q'
    // c
    @lengthOf(matchKey)
    match packetx as falsey {
        007 : A,
        ""1"" : packetx,
        //
        7 : charz,
        [65535] : stringy,
        65535 : a1,
        [""a	b"", 1] : Logon,
        // a // b
        // " ++ [128512]%N ++ runes_of_ascii " emoji
    },
}")).
Eval vm_compute in ("<<<M1940>>>" ++ check (runes_of_ascii "packet BodyLength {
    leftPad lengthOf,
    float rootA `it's`,
    @leftPad('0')
    repeat BodyLength,
    @rightPad()
    i16 falsey @lengthOf(i64_),// `tick` ""quote"" 'q'
    repeat char[0123456789] uint8x,
    repeat f64 i64_,
    a1 tag `" ++ [233]%N ++ runes_of_ascii "`,
    char[10] packetx `say ""hi""`,
    repeat tag metadata `tab	here`,
}

/// triple
options {
    crc = """";
}

packet int {
    repeat zchar[255] i64_ `two words`,
    string tag @lengthOf(Header),
    char chars,
    @lengthOf(crc)
    match asx as Foo {
        7 : BodyLength,
        ""packet"" : Z9_,
        007 : matchKey,
    },
    uint16 metadata,
    i64_ {
        repeat u8 msg_type,
        stringy {
            char[0123456789] o @calculatedFrom(""\n"") `" ++ [233]%N ++ runes_of_ascii "`,
        },
        zchar[00] stringy `line1
        line2`,
    },
    @leftPad('0')
    match uint8x as u128 {
        [1, ""abc""] : _x,
        ""a	b"" : Packet,
        // c
        3 : _x,
        ""`tick`"" : packetx,
        ""\n"" : Header,
    },
    x @calculatedFrom(""\n""),
    zchar[65535] Packet,
}

MetaData Logon {
}

packet packetx {
    @calculatedFrom(""a\\"")
    match roots as Foo {
        [""\n"", 4294967296] : asx,
        00 : o,
        ""{,}"" : Header,
        255 : packetx,
        [255, 4294967296] : MetaDataX,
    },
}")).
Eval vm_compute in ("<<<M1535>>>" ++ check (runes_of_ascii "  options  {

    StringPrefixLenType
= u16 
; ArrayPrefixLenType =
    u8  ;

    FixedStringPadFromLeft =

true	;
FixedStringPadChar= 
' '

;
}
    packet Quote  { int64  OrderId
, char[]Ref
,

    @leftPad
( '0'  )
char[ 5
	]

    price ,	}packet	Heartbeat 
{zchar[	3 ]venue
, string
Flags,

    }packet Trade  {	repeat

    InTag787 {i32

venue
	,char[
5
] sym

    ,	repeat 
InPx98 
{

char[11	]

    Qty
,
Heartbeat ,char[]
price,
u32 x ,float64 count

,
    repeat

    Quote 
, },
zchar[ 
7
]Note
    ,	repeat

char[  1 ]

Tail
	,

}

,
repeat  char[
2 
]
	seqNo

, 
InTail55 {
repeat Quote	, 
string msgKind , InPx18{char[]
count 
,  repeat
	Quote 
,
uint16
	Qty
	,	},	char[4  ]seqNo	,repeat Heartbeat ,repeat
string sym ,

}  ,	repeat
Quote
, Heartbeat ,@leftPad
(  ' '

) char[ 10	] 
OrderId
,
    }
root

    packet 
Fill{ Heartbeat
    ,

uint32
count 
,
u8
    OrderId 
, match
OrderId
as

Body
	{	96
:	Quote
,
195	:
	Trade , 187

:
Heartbeat , }
    ,  u32 venue
@calculatedFrom( ""CRC32""

    )
	, 
}
")).
Eval vm_compute in ("<<<M208>>>" ++ check (runes_of_ascii "packet zchar{
    uint8x { MetaDataX , match stringy as calculatedFrom { """" : options1,""// no comment""
: //x
u
""\" ++ [233]%N ++ runes_of_ascii """
:  body
, [
""abc""
    , ""it's"" , // c
007 ] : packetx
//	t
// @lengthOf(
,65535:
roots
, } ,  zchar[	10 ]
lengthOf`two words`  ,	} // trailing space 
,
//
// packet A { u8 x, }
} root
packet Header{repeat f32a o `two words`,
    @lengthOf(
    f32a ) char[	42
]
    uint8x ,	@tag( 42
)
    float@lengthOf(
MetaDataX  ) , string T	, match _x as leftPad
    { 0123456789 :
    stringy, } ,  @leftPad // @lengthOf(
( )repeat uint8x// c
{
string_ { char[ 255] a1 @calculatedFrom( ""abc""
), metadata @lengthOf(	asx ),
    } , repeat falsey /// triple
,
    Logon { As ,
repeat char[]// trailing space 
u
    , } , },
    @leftPad
    (	' '
    )
char[ 10
] charz
@lengthOf(  float ), @calculatedFrom(
    """ ++ [233]%N ++ runes_of_ascii "t" ++ [233]%N ++ runes_of_ascii """
) i64 trueish
    `two words`
, } options{ options1	=7
; u
    // " ++ [27880; 37322]%N ++ runes_of_ascii "
    = """" ; } 	 ")).
Eval vm_compute in ("<<<M54>>>" ++ check (runes_of_ascii "root packet calculatedFrom
{ /// triple
@calculatedFrom( // packet A { u8 x, }
""{,}"" ) match asx
as i8i8 { ""CRC32"" :f32a	,
    ""// no comment""	:Packet
    ,// trailing space 
}
,
    repeat zchar[ 7 ] len , //
match	options1// c
as string_	{""" ++ [128512]%N ++ runes_of_ascii """ : metadata ,	[""\n""
// `tick` ""quote"" 'q'
//
,
    ""CRC32"" , ""a\""b""]
:
// " ++ [128512]%N ++ runes_of_ascii " emoji
// " ++ [128512]%N ++ runes_of_ascii " emoji
x_y_z // " ++ [27880; 37322]%N ++ runes_of_ascii "
, 42
: string_	},@lengthOf(
msg_type) string Pad
// trailing space 
// @lengthOf(
`tab	here` ,
f32a
, match  Logon as stringy { 007
    :
    metadata	, [ 255 , 10 ] : matchKey, [
10 ,""1"",	""`tick`"" , 0]:roots , 255
// @lengthOf(
// c
: o,	[ 1 ]
: msg_type  , 0123456789
: falsey	} , } root packet
crc { }
    options
    { falsey =
false ;len =
""\" ++ [233]%N ++ runes_of_ascii """// " ++ [27880; 37322]%N ++ runes_of_ascii "
;A
=
""a	b""	lengthOf	= ""1""}
")).
Eval vm_compute in ("<<<M150>>>" ++ check (runes_of_ascii "packet
    Header	{	repeat string
    Header
,
repeat options1  ,	zchar[
    //	t
    00 ] matchKey ,} options
// @lengthOf(
// `tick` ""quote"" 'q'
{charz= ""\n"" ; // a // b
BodyLength = ""x y"" u8x
    = ""x y""
    u // `tick` ""quote"" 'q'
= 255 }
MetaData u8x{
// a // b
// c
Z9_
i8i8 , float32  stringy , float msg_type // `tick` ""quote"" 'q'
`doc`
    ,
calculatedFrom T , Foo T `a\` , }	root
    packet
    roots
    {	@tag( 00
) /// triple
match// `tick` ""quote"" 'q'
len
    as roots {
    // @lengthOf(
    [ 4294967296 ]
    : tag ""// no comment"" :float ,"""" : uint8x ,
// " ++ [27880; 37322]%N ++ runes_of_ascii "
// trailing space 
007
    // " ++ [27880; 37322]%N ++ runes_of_ascii "
    :
    options1 , } , }")).
Eval vm_compute in ("<<<M1841>>>" ++ check (runes_of_ascii "packet i8i8 {
    char[] string_ `tab	here`,
    @lengthOf(T)
    @lengthOf(uint8x)
    @rightPad('\x00')
    zchar[4294967296] f32a @calculatedFrom(""CRC32"") `it's`,
}// @lengthOf(

root packet A {
    @rightPad()
    @calculatedFrom(""" ++ [233]%N ++ runes_of_ascii "t" ++ [233]%N ++ runes_of_ascii """)
    string T `crlf
        line`,
    u64 falsey `two words`,
    zchar[65535] lengthOf `doc`,
    match crc as int {
        [""packet"", ""it's""] : body,
        007 : leftPad,
        ""{,}"" : Z9_,
        [
            0123456789, 00, ""a\\"", """ ++ [128512]%N ++ runes_of_ascii """, ""\" ++ [233]%N ++ runes_of_ascii """,
            ""`tick`"", ""it's"", """ ++ [233]%N ++ runes_of_ascii "t" ++ [233]%N ++ runes_of_ascii """
        ] : x_y_z,
    },
}")).
Eval vm_compute in ("<<<M1604>>>" ++ check (runes_of_ascii "MetaData rootA {
}

options {
    rootA = '\x00'
    zchar = '0'
    rootA = float64;
    trueish = 3
    i64_ = float64;
}

options {
    body = '0';
    T = ""CRC32"";
    matchKey = char[];
}

packet rootA {
    // " ++ [128512]%N ++ runes_of_ascii " emoji
    @lengthOf(Z9_)
    @rightPad('0')
    Packet calculatedFrom,
}

packet body {
    match metadata as asx {
        3 : Header,
        3 : packetx,
        [10] : Packet,
        """" : pack,
        10 : pack,
        [255, """", 00, ""it's""] : x,
    },
}")).
Eval vm_compute in ("<<<M173>>>" ++ check (runes_of_ascii "MetaData T  {
char[] metadata ,
    // `tick` ""quote"" 'q'
    i8
Header
    //	t
    ,
u128 chars `a\` , char[
    42
] calculatedFrom
, } // packet A { u8 x, }
packet stringy {
    @rightPad( // c
)
    //	t
    string trueish
`two words`, } MetaData metadata{ zchar[//
007]x_y_z
, zchar[ 10 ] u	`// not a comment`
    , string u8x, char[]repeatCount// " ++ [128512]%N ++ runes_of_ascii " emoji
, zchar Pad ,u32 f32a
    `doc`
, } // `tick` ""quote"" 'q'")).
Eval vm_compute in ("<<<M2065>>>" ++ check (runes_of_ascii "
packet 
// @lengthOf(
// " ++ [128512]%N ++ runes_of_ascii " emoji
  Foo{
@calculatedFrom(
    """")  @calculatedFrom( ""1""
)@rightPad (

    ) int32

As
	@calculatedFrom(
    """"  // a // b
    	) `say ""hi""` // c
	, @calculatedFrom(

    ""\n"")
	    // trailing space 
	/// triple
	char[  // trailing space 

  65535]asx

, repeat

int8
trueish	`{ , }` ,

    }
root  packet
    lengthOf  {

}")).
Eval vm_compute in ("<<<M1733>>>" ++ check (runes_of_ascii "

  root

    packet

tag
	{ }packet

    MetaDataX{char[ 
007] 

    // c
  /// triple
asx 
@calculatedFrom(

""a\""b""
    ) `say ""hi""` 	 // " ++ [27880; 37322]%N ++ runes_of_ascii "
  ,
    @tag( 
4294967296

)

char[ 1	//x
	] packetx @calculatedFrom(""a\""b""

    ) ,
    // " ++ [128512]%N ++ runes_of_ascii " emoji
	// a // b
	  @calculatedFrom(	""" ++ [233]%N ++ runes_of_ascii "t" ++ [233]%N ++ runes_of_ascii """	) 
repeat	pack
	pack // " ++ [27880; 37322]%N ++ runes_of_ascii "
,}	// c")).
Eval vm_compute in ("<<<M1336>>>" ++ check (runes_of_ascii "// top
packet
    // c0
o
    // c1
{
    // c2
repeat
    // c3
Logon
    // c4
uint8x
    // c5
,
    // c6
}
    // c7
options
    // c8
{
    // c9
asx
    // c10
=
    // c11
zchar[
    // c12
3
    // c13
]
    // c14
stringy
    // c15
=
    // c16
'\x00'
    // c17
}
    // c18
")).
Eval vm_compute in ("<<<M564>>>" ++ check (runes_of_ascii "root packet tag { }  packet MetaDataX{char[007	]
// c
/// triple
asx  @calculatedFrom( ""a\""b""
) `say ""hi""`// " ++ [27880; 37322]%N ++ runes_of_ascii "
,  @tag( @tag(4294967296 )
    char[1//x
] packetx @calculatedFrom(""a\""b""
    ) ,
// " ++ [128512]%N ++ runes_of_ascii " emoji
// a // b
@calculatedFrom(""" ++ [233]%N ++ runes_of_ascii "t" ++ [233]%N ++ runes_of_ascii """  ) repeat pack // " ++ [27880; 37322]%N ++ runes_of_ascii "
,
    } // c")).
Eval vm_compute in ("<<<M559>>>" ++ check (runes_of_ascii "root packet tag { }  packet MetaDataX{char[007	]
// c
/// triple
asx  @calculatedFrom( ""a\""b""
) `say ""hi""`// " ++ [27880; 37322]%N ++ runes_of_ascii "
, ,  @tag(4294967296 )
    char[1//x
] packetx @calculatedFrom(""a\""b""
    ) ,
// " ++ [128512]%N ++ runes_of_ascii " emoji
// a // b
@calculatedFrom(""" ++ [233]%N ++ runes_of_ascii "t" ++ [233]%N ++ runes_of_ascii """  ) repeat pack // " ++ [27880; 37322]%N ++ runes_of_ascii "
,
    } // c")).
Eval vm_compute in ("<<<M668>>>" ++ check (runes_of_ascii "root packet tag { }  packet MetaData<X{char[007	]
// c
/// triple
asx  @calculatedFrom( ""a\""b""
) `say ""hi""`// " ++ [27880; 37322]%N ++ runes_of_ascii "
,  @tag(4294967296 )
    char[1//x
] packetx @calculatedFrom(""a\""b""
    ) ,
// " ++ [128512]%N ++ runes_of_ascii " emoji
// a // b
@calculatedFrom(""" ++ [233]%N ++ runes_of_ascii "t" ++ [233]%N ++ runes_of_ascii """  ) repeat pack // " ++ [27880; 37322]%N ++ runes_of_ascii "
,
    } // c")).
Eval vm_compute in ("<<<M625>>>" ++ check (runes_of_ascii "root packet tag { }  packet MetaDataX{char[007	]
// c
/// triple
asx  @calculatedFrom( ""a\""b""
) `say ""hi""`// " ++ [27880; 37322]%N ++ runes_of_ascii "
,  @tag(4294967296 )
    char[1//x
] packetx @calculatedFrom(""a\""b""
    ) ,
// " ++ [128512]%N ++ runes_of_ascii " emoji
// a // b
@calculatedFrom()  """ ++ [233]%N ++ runes_of_ascii "t" ++ [233]%N ++ runes_of_ascii """ repeat pack // " ++ [27880; 37322]%N ++ runes_of_ascii "
,
    } // c")).
Eval vm_compute in ("<<<M488>>>" ++ check (runes_of_ascii "root packet  { }  packet MetaDataX{char[007	]
// c
/// triple
asx  @calculatedFrom( ""a\""b""
) `say ""hi""`// " ++ [27880; 37322]%N ++ runes_of_ascii "
,  @tag(4294967296 )
    char[1//x
] packetx @calculatedFrom(""a\""b""
    ) ,
// " ++ [128512]%N ++ runes_of_ascii " emoji
// a // b
@calculatedFrom(""" ++ [233]%N ++ runes_of_ascii "t" ++ [233]%N ++ runes_of_ascii """  ) repeat pack // " ++ [27880; 37322]%N ++ runes_of_ascii "
,
    } // c")).
Eval vm_compute in ("<<<M601>>>" ++ check (runes_of_ascii "root packet tag { }  packet MetaDataX{char[007	]
// c
/// triple
asx  @calculatedFrom( ""a\""b""
) `say ""hi""`// " ++ [27880; 37322]%N ++ runes_of_ascii "
,  @tag(4294967296 )
    char[1//x
] packetx char[""a\""b""
    ) ,
// " ++ [128512]%N ++ runes_of_ascii " emoji
// a // b
@calculatedFrom(""" ++ [233]%N ++ runes_of_ascii "t" ++ [233]%N ++ runes_of_ascii """  ) repeat pack // " ++ [27880; 37322]%N ++ runes_of_ascii "
,
    } // c")).
Eval vm_compute in ("<<<M301>>>" ++ check (runes_of_ascii "  MetaData // c
crc
{ i64 matchKey,
    _x msg_type//
, zchar zchar
    ,
    MetaDataX	matchKey
    `a\` ,
    u32 Header // " ++ [128512]%N ++ runes_of_ascii " emoji
, } MetaData
_x{
    } root packet
    calculatedFrom
// `tick` ""quote"" 'q'
// @lengthOf(
{	}
")).
Eval vm_compute in ("<<<M79>>>" ++ check (runes_of_ascii "root packet Foo {i16 BodyLength `// not a comment`
    // c
    ,
    //x
    }options { // packet A { u8 x, }
} options
    {Z9_ = // trailing space 
false msg_type //
=
true f32a = ' ' zchar  =""`tick`"";}
")).
Eval vm_compute in ("<<<M138>>>" ++ check (runes_of_ascii "options
{ MetaDataX=""\n""
    /// triple
    stringy = 4294967296 ; Packet=
    false	; As = ""a\\"" /// triple
; stringy = ' ';} options {
}
    MetaData roots {
stringy MetaDataX
    , }")).
Eval vm_compute in ("<<<M415>>>" ++ check (runes_of_ascii "packet
    // `tick` ""quote"" 'q'
    crc
// packet A { u8 x, }
//	t
{
u32 a1 ,
    // trailing space 
    roots roots
charz //
`two words`,	}
    MetaData int {
} /// triple")).
Eval vm_compute in ("<<<M437>>>" ++ check (runes_of_ascii "packet
    // `tick` ""quote"" 'q'
    crc
// packet A { u8 x, }
//	t
{
u32 a1 ,
    // trailing space 
    roots
charz //
`two words`,	i16
    MetaData int {
} /// triple")).
Eval vm_compute in ("<<<M401>>>" ++ check (runes_of_ascii "packet
    // `tick` ""quote"" 'q'
    crc
// packet A { u8 x, }
//	t
{
a1 u32 ,
    // trailing space 
    roots
charz //
`two words`,	}
    MetaData int {
} /// triple")).
Eval vm_compute in ("<<<M434>>>" ++ check (runes_of_ascii "packet
    // `tick` ""quote"" 'q'
    crc
// packet A { u8 x, }
//	t
{
u32 a1 ,
    // trailing space 
    roots
charz //
`two words`,	
    MetaData int {
} /// triple")).
Eval vm_compute in ("<<<M419>>>" ++ check (runes_of_ascii "packet
    // `tick` ""quote"" 'q'
    crc
// packet A { u8 x, }
//	t
{
u32 a1 ,
    // trailing space 
    roots
 //
`two words`,	}
    MetaData int {
} /// triple")).
Eval vm_compute in ("<<<M1693>>>" ++ check (runes_of_ascii "options {
    matchKey = 10
}

MetaData options1 {
    matchKey o `doc`,
    rootA tag,
    uint32 _x `line1
        line2`,
    char[] chars `say ""hi""`,
}")).
Eval vm_compute in ("<<<M592>>>" ++ check (runes_of_ascii "root packet tag { }  packet MetaDataX{char[007	]
// c
/// triple
asx  @calculatedFrom( ""a\""b""
) `say ""hi""`// " ++ [27880; 37322]%N ++ runes_of_ascii "
,  @tag(4294967296 )
    char[1")).
Eval vm_compute in ("<<<M1601>>>" ++ check (runes_of_ascii "  packet
A

    {	match

    k
as

n	{ [ ""a"" ,  22,

""c c"" ,

4 
,""e"" ,
66,

""g"",

    8 , 
""i""
	,

10] :
B 2
:
    C } 
,
    }")).
Eval vm_compute in ("<<<M1955>>>" ++ check (runes_of_ascii "packet A {
    match k

as
	n
	{ 
[ ""a""
    , 
""bb"" , ""c c""
    ,
""d"",
    ""e""
	, ""f"" , ""g""  ,""h"" ] :

    B

,
2: C
}

, }
")).
Eval vm_compute in ("<<<M1231>>>" ++ check (runes_of_ascii "root packet matchKey { zchar[ // c
3 ] pack @calculatedFrom( ""a	b"" ) `doc` , } options { } MetaData A { int8 msg_type , }")).
Eval vm_compute in ("<<<M1263>>>" ++ check (runes_of_ascii "root packet matchKey { zchar[ 3 ] pack @calculatedFrom( ""a	b"" ) `doc` , } options { } MetaData A { int8 // c
msg_type , }")).
Eval vm_compute in ("<<<M1686>>>" ++ check (runes_of_ascii "

  packet
metadata  { 
Logon
{

    A
	`" ++ [28040; 24687; 31867; 22411]%N ++ runes_of_ascii "` 
  // c

  ,  tag
o

,
}, zchar
    len`// not a comment`  ,
	} ")).
Eval vm_compute in ("<<<M938>>>" ++ check (runes_of_ascii "packet A {
    u16 len @lengthOf(body) `a

b`,
    u32 crc @calculatedFrom(""CRC32"") `a

b`,
    string body,
}")).
Eval vm_compute in ("<<<M53>>>" ++ check (runes_of_ascii "MetaData
trueish {int
falsey , char[
10
    ] u  , zchar[ 007 ] leftPad , string
x `two words`
    ,  }
")).
Eval vm_compute in ("<<<M1696>>>" ++ check (runes_of_ascii "
packet
    A
	{  match k  as n{
[ ""a"",

""bb""
, 
007 ,

""d"",

""e""  ,	66  , ""g""]
	:

B  2  : 
C }	,
	}
")).
Eval vm_compute in ("<<<M1972>>>" ++ check (runes_of_ascii "packet o {
    repeat Logon uint8x,
}

options {
    // c
    asx = zchar[3]
    stringy = '\x00'
}")).
Eval vm_compute in ("<<<M1720>>>" ++ check (runes_of_ascii "packet 
A  {

B

b	`a
    b
  c` ,B `a
    b
  c`	,

    repeat B bs
    `a
    b
  c` ,
}

")).
Eval vm_compute in ("<<<M1866>>>" ++ check (runes_of_ascii "packet A {
    match k as n {
        [""a"", 22, ""c c"", 4, ""e""] : B,
        2 : C,
    },
}")).
Eval vm_compute in ("<<<M1190>>>" ++ check (runes_of_ascii "MetaData float { float64 charz `
` // c
, } root packet chars { @rightPad ( '0' ) Foo , }")).
Eval vm_compute in ("<<<M1401>>>" ++ check (runes_of_ascii "packet chars {
// c
} packet MetaDataX { @tag( 42 ) i16 string_ , repeat x `say ""hi""` , }")).
Eval vm_compute in ("<<<M2032>>>" ++ check (runes_of_ascii "

  root packet
P 
{

    u16
a ,u32

    Sum @calculatedFrom(  ""CR\
C32"" )
    ,

}")).
Eval vm_compute in ("<<<M1131>>>" ++ check (runes_of_ascii "packet metadata { Logon
// c
{ A `" ++ [28040; 24687; 31867; 22411]%N ++ runes_of_ascii "` , tag o , } , zchar len `// not a comment` , }")).
Eval vm_compute in ("<<<M855>>>" ++ check (runes_of_ascii "packet A {
  match k as n {
    [1, 22, ""c c"", 4, 5, ""f"", 7, 8] : B,
    2 : C
  },
}")).
Eval vm_compute in ("<<<M1368>>>" ++ check (runes_of_ascii "packet o { repeat Logon uint8x , } options { asx = zchar[ 3 ] // c
stringy = '\x00' }")).
Eval vm_compute in ("<<<M1334>>>" ++ check (runes_of_ascii "MetaData body { i64 pack `it's` , } packet stringy { int16 calculatedFrom , }
// c
")).
Eval vm_compute in ("<<<M1329>>>" ++ check (runes_of_ascii "MetaData body { i64 pack `it's` , } packet stringy { int16 calculatedFrom // c
, }")).
Eval vm_compute in ("<<<M1593>>>" ++ check (runes_of_ascii "MetaData M {
    u8 x `a
        
        b`,
    T t `a
        
        b`,
}")).
Eval vm_compute in ("<<<M801>>>" ++ check (runes_of_ascii "packet A {
  match k as n {
    [""a"", 22, ""c c"", 4] : B,
    2 : C
  },
}")).
Eval vm_compute in ("<<<M793>>>" ++ check (runes_of_ascii "packet A {
  match k as n {
    [""a"", ""bb"", 007] : B
    2 : C
  },
}")).
Eval vm_compute in ("<<<M1705>>>" ++ check (runes_of_ascii "packet crc {
    @lengthOf(falsey)
    Packet `crlf
    line`,
}")).
Eval vm_compute in ("<<<M2040>>>" ++ check (runes_of_ascii "MetaData u128 {
    uint8x msg_type `line1
        line2`,
}")).
Eval vm_compute in ("<<<M1289>>>" ++ check (runes_of_ascii "packet x { @rightPad ( ) repeat
// c
roots Logon `doc` , }")).
Eval vm_compute in ("<<<M327>>>" ++ check (runes_of_ascii "options {
_x = 0
; As = zchar[ 4294967296 ] ; } //x")).
Eval vm_compute in ("<<<M1958>>>" ++ check (runes_of_ascii "root

packet

    pack
{
    }  
      // c
")).
Eval vm_compute in ("<<<M1986>>>" ++ check (runes_of_ascii "  options
	{

    falsey =
false
    }
")).
Eval vm_compute in ("<<<M2012>>>" ++ check (runes_of_ascii "root packet A {
    u8 x `tab
    	x`,
}")).
Eval vm_compute in ("<<<M56>>>" ++ check (runes_of_ascii "// `tick` ""quote"" 'q'

/// triple
")).
Eval vm_compute in ("<<<M1803>>>" ++ check (runes_of_ascii "root packet P {
    string s,
}")).
Eval vm_compute in ("<<<M912>>>" ++ check (runes_of_ascii "packet A {
    u8 x `a
b`,
}")).
Eval vm_compute in ("<<<M1171>>>" ++ check (runes_of_ascii "root packet pack { // c
}")).
Eval vm_compute in ("<<<M1057>>>" ++ check (runes_of_ascii "// c x
packet A {
}")).
Eval vm_compute in ("<<<M1017>>>" ++ check (runes_of_ascii "// c" ++ [8239]%N ++ runes_of_ascii "
packet A {
}")).
Eval vm_compute in ("<<<M1024>>>" ++ check (runes_of_ascii "packet A {
}// c" ++ [11]%N)).
Eval vm_compute in ("<<<M1953>>>" ++ check (runes_of_ascii "  // c" ++ [8233]%N ++ runes_of_ascii "
")).
Eval vm_compute in ("<<<M1030>>>" ++ check (runes_of_ascii "// c" ++ [12]%N)).
