From FP Require Import Lexer Parser ShowPT Digest Formatter.
From Coq Require Import String List NArith.
Import ListNotations.
Open Scope string_scope.
Set Printing Width 100000000.
Set Printing Depth 100000000.
Definition show_fres (r : fres) : string :=
  match r with
  | FOk s => "OK:" ++ sh_escaped s ""
  | FErr s => "ERR:" ++ sh_escaped s ""
  | FPanic p => "PANIC:" ++ p
  end.
Definition check (rs : list rune) : string := digest (show_fres (format_res rs)).
Definition full (rs : list rune) : string := show_fres (format_res rs).
Eval vm_compute in ("<<<M439>>>" ++ check (runes_of_ascii "/// triple
packet
string_{
char[] calculatedFrom
    ,string	rootA	`two words` ,  @tag(
    10 // " ++ [128512]%N ++ runes_of_ascii " emoji
)@lengthOf( packetx ) char[] falsey
    ,// @lengthOf(
int8 MetaDataX @calculatedFrom(""CRC32"" )
    `two words`
, zchar[
    7
]float
    ,  uint32 calculatedFrom,
    matchKey {
zchar[ 10 ]u
@calculatedFrom( ""a\\""
// `tick` ""quote"" 'q'
// " ++ [27880; 37322]%N ++ runes_of_ascii "
)
,
// " ++ [27880; 37322]%N ++ runes_of_ascii "
// packet A { u8 x, }
} , @calculatedFrom( ""1"" )int16 rootA , float64 uint8x
    // " ++ [27880; 37322]%N ++ runes_of_ascii "
    ,
    // " ++ [128512]%N ++ runes_of_ascii " emoji
    } packet u8x{@calculatedFrom( ""CRC32"" ) repeat //x
u64 u8x // packet A { u8 x, }
`a\` , } // trailing space 
packet
    Packet	{ @calculatedFrom(
""packet""
) repeat
len i64_
,
@lengthOf(trueish
)
@lengthOf(u )
    // a // b
    @lengthOf( A
) char[] zchar`say ""hi""`
// " ++ [128512]%N ++ runes_of_ascii " emoji
//
,
    @calculatedFrom(""{,}"" )	chars@calculatedFrom( ""{,}""	)
    ,repeat
//	t
// @lengthOf(
pack lengthOf , // `tick` ""quote"" 'q'
}
//x
// " ++ [27880; 37322]%N ++ runes_of_ascii "
packet
i64_{ calculatedFrom
{ stringy {
zchar[
    // c
    1  ] tag , match
    float as _x  { ""it's"" : Packet ,
[	0123456789 ,// c
4294967296
,""1"", 00, 42 ] :Foo , [""a\\""  , 42 //x
, 255 ,""`tick`"" , 3 , """ ++ [128512]%N ++ runes_of_ascii """ ] :pack , // @lengthOf(
4294967296
    :
    pack,
[ 0123456789 , """ ++ [28040; 24687]%N ++ runes_of_ascii """ ,
""{,}"",
/// triple
// " ++ [27880; 37322]%N ++ runes_of_ascii "
4294967296 ,""packet"", ""x y"" , // packet A { u8 x, }
""x y""	]//	t
: uint8x  ,
    } , } ,
} //
,@tag(00)
BodyLength ,@calculatedFrom(""a	b"" )match msg_type
as Foo { [ ""\n""
, 42,
42 ]
: Pad , } , u64
packetx `" ++ [233]%N ++ runes_of_ascii "`
// packet A { u8 x, }
//x
,repeat
i64 tag
,
//x
// @lengthOf(
@tag( 65535 // `tick` ""quote"" 'q'
)
    @lengthOf(
    // `tick` ""quote"" 'q'
    Pad
    ) match matchKey as f32a
{3 :  BodyLength ,[//	t
""" ++ [128512]%N ++ runes_of_ascii """ , ""packet""  ,
    65535 ,255 , ""a	b""
, 0 , //	t
007 //	t
] : /// triple
u8x ,4294967296
//x
// a // b
: As 007 :i64_
    ""it's"":lengthOf, ""\" ++ [233]%N ++ runes_of_ascii """ :	u8x , },  rootA
    // c
    { f32 Packet@lengthOf(A ), i32 repeatCount
@calculatedFrom( ""x y""	)
//x
// c
, repeatCount
    @calculatedFrom(
""" ++ [233]%N ++ runes_of_ascii "t" ++ [233]%N ++ runes_of_ascii """) // trailing space 
`" ++ [28040; 24687; 31867; 22411]%N ++ runes_of_ascii "`,
    char[] Packet, }, @lengthOf( body
)
@tag(65535 )	@calculatedFrom(""\" ++ [233]%N ++ runes_of_ascii """ )metadata @lengthOf( uint8x
    ) ,
    }packet i64_ { match o as
    asx { ""`tick`""
    : charz
    }
//	t
// trailing space 
,
    }
")).
Eval vm_compute in ("<<<M4522>>>" ++ check (runes_of_ascii "// " ++ [27880; 37322]%N ++ runes_of_ascii "
options {
    zchar = ""x y"";
    options1 = u16;
}

packet Pad {
    Z9_ @calculatedFrom("""") `
        `,
    @tag(42)
    @tag(00)
    @lengthOf(zchar)
    match _x as metadata {
        007 : As,
        ""`tick`"" : lengthOf,
        255 : lengthOf,
        ""a	b"" : Packet,
        255 : a1,
        // c
        [
            00, 0, 10, 10, 7,
            ""a\\"", ""it's""
        ] : Foo,
    },
    match Header as o {
        [255] : zchar,
        0123456789 : leftPad,
        [007, 3] : leftPad,
        // c
        0 : packetx,
    },
}

MetaData Pad {
}

packet T {
    // " ++ [27880; 37322]%N ++ runes_of_ascii "
    charz @lengthOf(asx) ``,
}

packet matchKey {
    @tag(3)
    @calculatedFrom(""a	b"")
    @calculatedFrom("""")
    pack rootA,
    repeat leftPad ``,
    repeat uint32 Foo `u8 x,`,
    @calculatedFrom(""" ++ [233]%N ++ runes_of_ascii "t" ++ [233]%N ++ runes_of_ascii """)
    repeat char[65535] u,
    @lengthOf(_x)
    @lengthOf(u8x)
    repeat zchar[0123456789] x,
    match i64_ as falsey {
        // trailing space 
        255 : f32a,
        ""{,}"" : x,
        ""\" ++ [233]%N ++ runes_of_ascii """ : matchKey,
        [
            10, 0, 65535, """", ""{,}"",
            """ ++ [128512]%N ++ runes_of_ascii """, ""a	b"", ""1""
        ] : len,
        ""\" ++ [233]%N ++ runes_of_ascii """ : T,
        [
            1, 007, 1, ""CRC32"", ""// no comment"",
            ""`tick`"", """ ++ [128512]%N ++ runes_of_ascii """
        ] : a1,
    },
    match x as As {
        ""a	b"" : o,
        007 : MetaDataX,
        [""a	b""] : falsey,
        ""// no comment"" : Z9_,
        ""packet"" : _x,
    },
    repeat rootA {
        uint8 MetaDataX @calculatedFrom(""abc""),
        match int as asx {
            [10, 10, 00, 4294967296, ""`tick`""] : o,
            ""CRC32"" : string_,
            [0] : roots,
            65535 : _x,
            ""it's"" : Pad,
            4294967296 : Pad,
        },
        u16 chars `line1
                line2`,//x
    },
}")).
Eval vm_compute in ("<<<M1138>>>" ++ check (runes_of_ascii "packet T { @lengthOf(
Foo ) @tag( 10 )@lengthOf(rootA )chars `it's`,repeat
    char roots //	t
,
@tag(	0 ) match  charz as leftPad { 0 :tag
,} , Z9_ // trailing space 
u128 ,
    int32 int@calculatedFrom(  ""\n""  ) , @lengthOf( int )	Z9_
    // " ++ [27880; 37322]%N ++ runes_of_ascii "
    {
    repeat	char[] calculatedFrom`crlf
line`
,	zchar[0
    ] o @calculatedFrom( ""\" ++ [233]%N ++ runes_of_ascii """ ) ,
    u8x{_x
, // @lengthOf(
zchar[ 3 ] stringy @lengthOf( T) //	t
,
    // trailing space 
    uint8
body
    , char[]falsey
// `tick` ""quote"" 'q'
// @lengthOf(
@calculatedFrom( ""// no comment"" ) `" ++ [233]%N ++ runes_of_ascii "` , /// triple
}
, }
    , @tag(
1 )@calculatedFrom(""a\\""
    )
    // c
    @rightPad(
    '0')
    i32 tag @calculatedFrom(
    ""a\""b""
) `crlf
line` , match
    BodyLength as	f32a
    {[ 3
    ,""`tick`"" , ""`tick`"" , 007 , ""1"" , 65535// " ++ [128512]%N ++ runes_of_ascii " emoji
, //	t
1	,  0
] :
Z9_ ,
[ ""CRC32"" ,
    ""a\\""
] :
chars
,
""a\""b""
: roots , 1
: f32a
    , // " ++ [27880; 37322]%N ++ runes_of_ascii "
}
    , trueish{
//
/// triple
zchar{ match Pad
as tag {  [
0123456789 , 00
,
    7,""a	b"" , // @lengthOf(
""CRC32"" ] :
    options1 ,
    // @lengthOf(
    } , pack  { zchar[ 10
]
    chars ,}	,u `crlf
line`  , repeat // " ++ [27880; 37322]%N ++ runes_of_ascii "
int32 _x `two words` ,  } , }, // trailing space 
falsey
    As , } options {falsey // " ++ [128512]%N ++ runes_of_ascii " emoji
=
    ""abc"" ; Foo=	false ; } root
packet
A { @lengthOf(uint8x ) match u8x as
msg_type
{ [
007 , 00 ]: u128 , [	255 ,// a // b
""{,}""
    ,
    10
// " ++ [128512]%N ++ runes_of_ascii " emoji
// " ++ [27880; 37322]%N ++ runes_of_ascii "
, ""// no comment""	,""""  ,
    """ ++ [128512]%N ++ runes_of_ascii """ ] :
T ,255:string_ , ""`tick`"" :
As
},
}MetaData chars
{
char[	65535 ]
roots, i64 u128 , char[ 42]	pack // " ++ [128512]%N ++ runes_of_ascii " emoji
,} //x")).
Eval vm_compute in ("<<<M641>>>" ++ check (runes_of_ascii "options { T=""it's"" ; // trailing space 
Z9_  =""\" ++ [233]%N ++ runes_of_ascii """
int = '\x00'u8x  =	""`tick`""crc
=""packet"" ;	} root // packet A { u8 x, }
packet string_ { match charz
//x
// c
as u { // " ++ [128512]%N ++ runes_of_ascii " emoji
0123456789 :
    zchar , 42
    // packet A { u8 x, }
    :rootA ,  007:
//	t
// packet A { u8 x, }
crc , """ ++ [28040; 24687]%N ++ runes_of_ascii """ : Foo[
007	, ""x y"" ] :int , // " ++ [27880; 37322]%N ++ runes_of_ascii "
}
,
    @tag(  7
// a // b
// @lengthOf(
) repeat
// `tick` ""quote"" 'q'
//
metadata, string len // a // b
@lengthOf( o ) `crlf
line` , repeat int32 falsey `
`
// a // b
// " ++ [27880; 37322]%N ++ runes_of_ascii "
, @leftPad( )
x
    @calculatedFrom(
    ""// no comment"" )`// not a comment`
,uint16 rootA , @lengthOf( a1// `tick` ""quote"" 'q'
) char calculatedFrom , @tag( /// triple
3 ) zchar[ 65535 ]	body ,}
packet Logon // `tick` ""quote"" 'q'
{ @leftPad (/// triple
)@tag( 7 )
char
u128 `say ""hi""` ,
@tag( 10 ) char[42  ]
    roots , } root // " ++ [27880; 37322]%N ++ runes_of_ascii "
packet	i64_ {
    repeat
    _x { repeat
    // @lengthOf(
    MetaDataX o //x
, } , u128 { asx { u8 a1  ,
repeat	As, // a // b
}	,} ,
    int16 Foo ,
    u64
asx `
` , u8x @lengthOf( crc ) //	t
, @calculatedFrom(
    // `tick` ""quote"" 'q'
    ""CRC32"" ) @lengthOf(body	) @tag( 7 ) falsey
//x
// a // b
body
`{ , }` ,	MetaDataX { trueish
MetaDataX`tab	here` , char[ 3 ] i8i8
@calculatedFrom(""" ++ [128512]%N ++ runes_of_ascii """  )
`" ++ [233]%N ++ runes_of_ascii "`, },
}options { _x
=false
    _x
    =// c
char[
    0123456789 ]	repeatCount
=
    ' '_x = ""packet"";
}

")).
Eval vm_compute in ("<<<M741>>>" ++ check (runes_of_ascii "packet float { @calculatedFrom(
// @lengthOf(
// a // b
""abc"" ) u64 roots
, repeat u {repeat A `a\` , As @lengthOf( len ) , uint16 falsey ,
    leftPad @lengthOf(
//x
// c
crc)
    ,
    } , zchar[007 ]
    int
`a\`
    ,
@calculatedFrom( ""x y"")
char[] Logon `
`// `tick` ""quote"" 'q'
, @rightPad ( ' ' // a // b
)@lengthOf(
tag) @tag( 0123456789 ) match
    rootA as Z9_{ 65535 :
    chars ""1"" : Pad // packet A { u8 x, }
, }, @tag(	65535 ) tag
    // " ++ [27880; 37322]%N ++ runes_of_ascii "
    { char[
//
// " ++ [27880; 37322]%N ++ runes_of_ascii "
255]// @lengthOf(
charz@lengthOf( len
)`a\` ,uint16 i64_
@lengthOf(string_
//x
//
) , }
    ,
// c
/// triple
o o `// not a comment` , @calculatedFrom(
""1"" ) repeat T `" ++ [28040; 24687; 31867; 22411]%N ++ runes_of_ascii "`	, } root packet crc
{ repeat
zchar[ 4294967296
    ] u8x, match MetaDataX as
string_
{
[""`tick`"" ,	""packet""	, 10
, ""packet"",	""// no comment"" , """ ++ [233]%N ++ runes_of_ascii "t" ++ [233]%N ++ runes_of_ascii """ ,
65535] : stringy
// packet A { u8 x, }
//
,
[
    3 ] :	stringy, [""" ++ [28040; 24687]%N ++ runes_of_ascii """ , 3 ] : asx	, // " ++ [128512]%N ++ runes_of_ascii " emoji
[ 7, // @lengthOf(
00, // @lengthOf(
""" ++ [28040; 24687]%N ++ runes_of_ascii """ , ""a	b"" , 0, 4294967296// @lengthOf(
,255
,  007 ] :As//
,
""1"" : x_y_z
// `tick` ""quote"" 'q'
// @lengthOf(
, } , } MetaData
    falsey { } packet o // c
{ @lengthOf(	Packet/// triple
)
@lengthOf( Z9_ ) @leftPad (
'\x00' ) repeat
Pad// packet A { u8 x, }
matchKey
,}
MetaData
stringy {}
")).
Eval vm_compute in ("<<<M867>>>" ++ check (runes_of_ascii "packet asx { a1
{ match
pack
//	t
//	t
as
body {
    255:	rootA , } ,
x_y_z
//x
//	t
@calculatedFrom(
"""" ) ,repeat A metadata, }
,	match
    // `tick` ""quote"" 'q'
    stringy
as BodyLength { 00
// @lengthOf(
// `tick` ""quote"" 'q'
:charz ,
[00
,
    65535
, ""a\\"",
    ""{,}""
,0
    // trailing space 
    ]
:
lengthOf ,	[ ""\" ++ [233]%N ++ runes_of_ascii """ ] :
chars [4294967296 , 4294967296 ,
/// triple
//	t
""\n"" , """ ++ [233]%N ++ runes_of_ascii "t" ++ [233]%N ++ runes_of_ascii """ ]  :	Foo , [ 42
    ,00//x
, ""// no comment""
    ,
    """",""`tick`""
    , ""1"" , 3,
""packet"" ]:
matchKey , /// triple
""\n"" :
repeatCount
, }	, repeat chars , repeat o lengthOf//
`it's` , x { uint16
A`doc` ,match	A as
pack	{
    ""abc"" :u8x ,007 :BodyLength,	""a\""b"" : charz, 7: _x ,
0 :Logon , } ,
string_, Logon @calculatedFrom( """ ++ [128512]%N ++ runes_of_ascii """
)  `` , }// c
, @calculatedFrom(""" ++ [28040; 24687]%N ++ runes_of_ascii """ )
    // `tick` ""quote"" 'q'
    @lengthOf( body
    // a // b
    ) char[] a1 // c
`a\` , repeat uint8x msg_type
    , repeat char[ 0123456789
    ]
/// triple
/// triple
len ,char[ 10 ] uint8x@calculatedFrom( ""CRC32""
)
,  }
packet Header {
// c
// @lengthOf(
@tag(65535 )options1 ,  @rightPad
( '\x00'
)repeat
_x ,
@calculatedFrom(// c
""\" ++ [233]%N ++ runes_of_ascii """
    // " ++ [27880; 37322]%N ++ runes_of_ascii "
    )int16 len	`crlf
line` ,
f32 trueish,
}")).
Eval vm_compute in ("<<<M994>>>" ++ check (runes_of_ascii "// c
packet options1 {	roots
    // " ++ [128512]%N ++ runes_of_ascii " emoji
    @lengthOf( zchar ) , @calculatedFrom(
""" ++ [128512]%N ++ runes_of_ascii """
)uint64 //
matchKey
, @tag(
42 ) i64
    // trailing space 
    Logon@lengthOf(
i64_  )// `tick` ""quote"" 'q'
`doc` //x
, @calculatedFrom(""a\""b""
    ) A , @calculatedFrom(
    ""it's"")repeat Pad``
, @tag( 7 ) zchar[ 00 ]  trueish`" ++ [233]%N ++ runes_of_ascii "`, repeat options1 {
repeatCount
{
Header ,
char[
// " ++ [128512]%N ++ runes_of_ascii " emoji
// packet A { u8 x, }
7 ]
Logon
`a\` , /// triple
}
,}, char[1
] int
`doc` , // a // b
@calculatedFrom(""""
)@calculatedFrom(
    ""a	b""
)
@lengthOf( packetx )
msg_type// trailing space 
{ string calculatedFrom `{ , }`
    // `tick` ""quote"" 'q'
    , zchar  @calculatedFrom(""" ++ [28040; 24687]%N ++ runes_of_ascii """
) , uint8
// " ++ [128512]%N ++ runes_of_ascii " emoji
// trailing space 
o `doc` // " ++ [128512]%N ++ runes_of_ascii " emoji
, f32a ,}  , //x
} MetaData
    Z9_ {
char A//	t
, }packet // trailing space 
options1 {
msg_type { chars ,	zchar[
3 ] crc
    `doc`, } ,
@lengthOf( crc) @tag(10) @lengthOf(asx
    )zchar[ 10 ]
Header @calculatedFrom( ""a\\"" ) `u8 x,` ,
} packet
int
{ string x_y_z , @calculatedFrom( ""\" ++ [233]%N ++ runes_of_ascii """)	match pack as
    roots { 65535 :
    options1 , // @lengthOf(
}
,
    }
")).
Eval vm_compute in ("<<<M3913>>>" ++ check (runes_of_ascii "packet BodyLength {
    @rightPad()
    int8 BodyLength @calculatedFrom(""packet"") `
        `,
    u8x calculatedFrom,//x
    repeat f32a {
        zchar[3] BodyLength,
        match i8i8 as A {
            3 : packetx,
            ""CRC32"" : options1,
        },
    },
    @leftPad(' ')
    @lengthOf(Header)
    repeat len string_,
    @tag(4294967296)
    @calculatedFrom(""" ++ [233]%N ++ runes_of_ascii "t" ++ [233]%N ++ runes_of_ascii """)
    len repeatCount,
    u64 i64_ `{ , }`,
    i16 o,
    @lengthOf(repeatCount)
    @lengthOf(Header)
    @rightPad('\x00')
    repeat options1 {
        // c
        roots @calculatedFrom(""1"") `tab	here`,
        repeat options1 zchar,
        repeat a1 {
            u128 {
                match Z9_ as x {
                    ""`tick`"" : o,
                    ""`tick`"" : pack,
                    [255] : Header,
                    3 : asx,
                    [255, ""CRC32""] : charz,
                },
            },
        },
        char[10] stringy,
    },// " ++ [27880; 37322]%N ++ runes_of_ascii "
    @leftPad()
    // packet A { u8 x, }
    // a // b
    char[007] len `doc`,
}")).
Eval vm_compute in ("<<<M1226>>>" ++ check (runes_of_ascii "root packet u128 {
@lengthOf(
// `tick` ""quote"" 'q'
//x
T) repeat Header
    , @tag(
    255) @tag(
    //x
    255 ) //x
u64
    crc
    , @tag( 65535
) @lengthOf( u128
)uint32 chars ,	} packet
i64_	{ i8 string_ @calculatedFrom(	""it's"" ) , @leftPad
( ' '
//	t
// " ++ [27880; 37322]%N ++ runes_of_ascii "
) repeat //x
Pad
{ repeat MetaDataX {
o packetx , roots Header ,
match falsey as
    roots {007  :msg_type ,[ 10	] :	T"""" // c
:Packet,	42
:msg_type ,
    }
, string
    string_`tab	here`
    , } ,
repeat  float64  repeatCount`doc` // packet A { u8 x, }
, // @lengthOf(
}
,match falsey as u8x
    { ""\" ++ [233]%N ++ runes_of_ascii """ : metadata 0 :repeatCount
    ,
    0123456789
:repeatCount , ""packet"": Foo
// @lengthOf(
// @lengthOf(
, 0123456789
: tag ,
    },
@lengthOf(
As )
match A	as // " ++ [128512]%N ++ runes_of_ascii " emoji
repeatCount{
    42  : a1
    ,65535
    :
Packet , 7 :	len """" : rootA """ ++ [233]%N ++ runes_of_ascii "t" ++ [233]%N ++ runes_of_ascii """ : rootA},
    @calculatedFrom( ""CRC32"" )
    repeatCount @calculatedFrom( ""`tick`"" )	,
f32 crc `doc` ,
crc  ,
// c
// packet A { u8 x, }
char[] Header
,
} 	 ")).
Eval vm_compute in ("<<<M1304>>>" ++ check (runes_of_ascii "
packet matchKey //	t
{ @leftPad
(
    ) // a // b
calculatedFrom	,@lengthOf( msg_type
    // `tick` ""quote"" 'q'
    )	repeat x_y_z `doc`  , uint8 o //
@lengthOf( leftPad )`" ++ [28040; 24687; 31867; 22411]%N ++ runes_of_ascii "` , repeat x_y_z
{match
    u8x	as i8i8 {
""a\""b"" : lengthOf ,
    [
3
    ,
""a\""b""
, 65535
,00 ,
    10 , ""1"" ]//x
:
// trailing space 
// c
roots,
3:  crc
    ,
    [ """ ++ [28040; 24687]%N ++ runes_of_ascii """,3 // a // b
] //	t
:	msg_type , [ """ ++ [128512]%N ++ runes_of_ascii """	] : Packet , 4294967296 :
    matchKey
    // " ++ [128512]%N ++ runes_of_ascii " emoji
    }, match A // a // b
as u8x
{
3 : Packet 1  : Pad ,
// " ++ [128512]%N ++ runes_of_ascii " emoji
// trailing space 
""1""
    :
//	t
// " ++ [27880; 37322]%N ++ runes_of_ascii "
options1 , }
,asx
    { o `// not a comment`
    , repeat
    rootA `// not a comment` ,
    i8i8 @lengthOf(stringy ) `" ++ [28040; 24687; 31867; 22411]%N ++ runes_of_ascii "`
    , zchar[
    // trailing space 
    3] options1 @calculatedFrom(""x y"" ) ,},
} ,
}  packet
    // " ++ [128512]%N ++ runes_of_ascii " emoji
    A { @calculatedFrom( """" ) @tag(0123456789 )f32a packetx `say ""hi""`,
    repeat
    x  uint8x ,}  options {} // trailing space ")).
Eval vm_compute in ("<<<M4357>>>" ++ check (runes_of_ascii "packet leftPad {
    @tag(3)
    @tag(255)
    @tag(7)
    Packet @calculatedFrom(""\n""),
    @calculatedFrom(""abc"")
    repeat f32a trueish `// not a comment`,
    match calculatedFrom as stringy {
        [1, 65535] : u,
    },
    zchar[10] o ``,
    @lengthOf(calculatedFrom)
    char x_y_z,
    char[] BodyLength,
    stringy o `line1
    line2`,
    @tag(00)
    options1 {
        // @lengthOf(
        float32 asx @lengthOf(roots),
        // " ++ [128512]%N ++ runes_of_ascii " emoji
        // `tick` ""quote"" 'q'
        match Z9_ as int {
            ""{,}"" : A,
            [""a\""b"", ""it's""] : repeatCount,
            1 : float,
            ""a\\"" : zchar,
            // `tick` ""quote"" 'q'
            [
                0, 0, 00, 0, ""abc"",
                """ ++ [128512]%N ++ runes_of_ascii """
            ] : T,
            0123456789 : As,
        },
    },
    @lengthOf(msg_type)
    i8 matchKey,
    repeat len len `a\`,
}")).
Eval vm_compute in ("<<<M4063>>>" ++ check (runes_of_ascii "

  packet  u128 {
	@tag(  0)

BodyLength{  Z9_ { stringy {metadata  
  // @lengthOf(

// a // b
  	,
	} ,zchar @lengthOf(
x_y_z 
)
,
	match

lengthOf  as float
{ 10 :  repeatCount
, }  ,
repeat string
    Pad

`" ++ [233]%N ++ runes_of_ascii "` ,
}
	,  // packet A { u8 x, }
	u64

    u128

@calculatedFrom(""a\""b""
)
	,
    } ,  @rightPad
	( 
'0' )
    uint32
    x_y_z
@lengthOf( crc)

    ,
    match
    tag
    as	roots {  4294967296
    :
	packetx

,
    007
	:Packet ,  // packet A { u8 x, }

  [""" ++ [128512]%N ++ runes_of_ascii """,  7
    // trailing space 
//
,
255 	 // " ++ [27880; 37322]%N ++ runes_of_ascii "
  	,  ""a	b"" 
]
:
	x_y_z  ,
3
:
//	t
	u128
    ,
""a	b""
	:	u128	,}
	,Foo 
@lengthOf(
o ) , 
i32
int
	,options1  ,

@rightPad()  @rightPad
(

'\x00'

) x `crlf
line`
, @tag(255)int16
	u8x
@lengthOf(

    trueish 
)

`" ++ [28040; 24687; 31867; 22411]%N ++ runes_of_ascii "`

, f64  leftPad  @calculatedFrom(
""CRC32""
	) `doc` , 
}

")).
Eval vm_compute in ("<<<M1212>>>" ++ check (runes_of_ascii "/// triple
packet matchKey {// `tick` ""quote"" 'q'
repeatCount
`line1
line2` , @calculatedFrom(
""1"")
u128 @calculatedFrom(
    ""\" ++ [233]%N ++ runes_of_ascii """ ) , // @lengthOf(
@calculatedFrom( ""abc""	)repeat int
uint8x , Packet  @lengthOf(trueish ) , @tag( 3 // `tick` ""quote"" 'q'
) rootA
    @lengthOf(asx ) `it's`
,repeat tag // " ++ [128512]%N ++ runes_of_ascii " emoji
body ,
    @lengthOf( //	t
_x )	@calculatedFrom( ""1""
) @leftPad ( '0'
    )
    i8 i64_	@calculatedFrom( ""a\""b"" ) ,}packet x_y_z {
@tag(  7) match// @lengthOf(
Z9_  as i64_	{ """"
: roots , ""`tick`""
    :
T,007: zchar , [ // packet A { u8 x, }
4294967296 ,	7,4294967296 ,
4294967296 ,""\" ++ [233]%N ++ runes_of_ascii """, // " ++ [27880; 37322]%N ++ runes_of_ascii "
10 ,255 ]	: pack
// packet A { u8 x, }
//
, 1 : asx
,""CRC32"" :
x_y_z } , // a // b
} options
    { // c
}
root //
packet packetx{i8i8 @lengthOf( u128 ) , }")).
Eval vm_compute in ("<<<M1086>>>" ++ check (runes_of_ascii "packet
u128 {
    @tag( 0 ) BodyLength { Z9_ {  stringy {	metadata
// @lengthOf(
// a // b
, } ,	zchar @lengthOf(
x_y_z)
, match	lengthOf
as
    float{ 10 : repeatCount,
}
    , repeat
string Pad `" ++ [233]%N ++ runes_of_ascii "` , } , // packet A { u8 x, }
u64
u128 @calculatedFrom( ""a\""b""
    ) ,} ,@rightPad
(	'0') uint32
    x_y_z@lengthOf(crc ) ,
    match tag	as
roots {
    4294967296 : packetx , 007
    :
    Packet
,// packet A { u8 x, }
[ """ ++ [128512]%N ++ runes_of_ascii """
,	7
// trailing space 
//
, 255 // " ++ [27880; 37322]%N ++ runes_of_ascii "
, ""a	b""
]
: x_y_z
,
3	:
    //	t
    u128,
""a	b"" : u128,}  , Foo
@lengthOf( o ), i32 int
    , options1 ,	@rightPad(
    ) @rightPad (  '\x00' )
x
`crlf
line` , @tag(
255
)  int16 u8x@lengthOf(trueish)  `" ++ [28040; 24687; 31867; 22411]%N ++ runes_of_ascii "` ,
f64 leftPad @calculatedFrom( ""CRC32"" ) `doc`,
    }")).
Eval vm_compute in ("<<<M3627>>>" ++ check (runes_of_ascii "options {
    LittleEndian = false;
    StringPrefixLenType = u8;
    ArrayPrefixLenType = u8;
    FixedStringPadFromLeft = true;
    FixedStringPadChar = ' ';
}
packet Trade {
    zchar[2] Side2,
    i8 seqNo,
}
packet Party {
    uint32 price,
}
packet Ack {
    @rightPad('\x00') char[6] x,
    repeat char[4] Flags,
    zchar[9] f1,
}
packet Cancel {
    Ack,
}
packet Heartbeat {
    string Px,
    string Acct,
    f64 Side2,
    InQty24 {
        i16 seqNo,
        repeat i32 Flags,
    },
}
root packet Logon {
    Trade,
    i64 venue,
    u32 x,
    u8 seqNo,
    match seqNo as Body {
        [1, 164] : Ack,
        31 : Cancel,
        23 : Heartbeat,
        64 : Party,
    },
}
")).
Eval vm_compute in ("<<<M362>>>" ++ check (runes_of_ascii "  packet
    // a // b
    MetaDataX {
match _x as roots {
""`tick`"" :o , [00, // `tick` ""quote"" 'q'
0123456789
, 1 ,
    0123456789,""a\\""  ,
    ""`tick`""  , 007
,
    // " ++ [27880; 37322]%N ++ runes_of_ascii "
    ""// no comment""]
: Logon , }	, f32 len @calculatedFrom(
""{,}"" // c
) `" ++ [233]%N ++ runes_of_ascii "` , // a // b
@calculatedFrom( """") @leftPad
( '\x00') i32 calculatedFrom@lengthOf(
    Packet)
    // @lengthOf(
    `line1
line2`
    , @calculatedFrom( ""\" ++ [233]%N ++ runes_of_ascii """	)
match asx as	As { ""it's"" :_x,""x y""  : calculatedFrom, ""packet"" :
    Pad
, } ,  char[] x, char[] matchKey,trueish lengthOf ,@lengthOf(roots	) repeat len // c
, @lengthOf( crc) repeat
//
// " ++ [27880; 37322]%N ++ runes_of_ascii "
char[]u128 `tab	here`, repeat u64 Header
    //
    , }
")).
Eval vm_compute in ("<<<M4068>>>" ++ check (runes_of_ascii "packet Foo
	{@calculatedFrom( ""`tick`""
	)

@rightPad

    ( ' '
)

/// triple
  	//x
	repeat
	float 
{
repeatCount ,/// triple
    zchar[ 
0123456789

    ] rootA

@calculatedFrom(""{,}""
)
,

match

// c
// a // b
	matchKey 
as

T{
	""\n""	:o
	//

	// `tick` ""quote"" 'q'
    	00
:tag [

3// trailing space 
    ,
    65535

// trailing space 
	]	:	body	, }
, 
} ,@rightPad 
    // @lengthOf(
  (' '  )  @leftPad

    ( 
'0' ) 
string

    packetx

    @calculatedFrom(  ""x y""  ), @lengthOf( charz 
) string i64_ `crlf
line` ,

    @rightPad

    (
'0' ) repeat
	string calculatedFrom
`tab	here`
	,
}")).
Eval vm_compute in ("<<<M646>>>" ++ check (runes_of_ascii "  root packet stringy { u
@calculatedFrom(	""packet""	)
``,  @calculatedFrom( """ ++ [28040; 24687]%N ++ runes_of_ascii """ ) @lengthOf(//x
Foo // packet A { u8 x, }
)@calculatedFrom( // trailing space 
""abc"" ) u64 zchar ,
    match body
// " ++ [128512]%N ++ runes_of_ascii " emoji
// c
as
// trailing space 
// " ++ [27880; 37322]%N ++ runes_of_ascii "
body { 0
:
charz ""packet"":
    charz ,
0123456789
    : repeatCount , ""\" ++ [233]%N ++ runes_of_ascii """
:Foo}
    , repeat string	asx `u8 x,` , } MetaData
    BodyLength{
    string Z9_
,zchar[
    0123456789
    ]  Header	,
    char[65535 ]
    asx ,zchar[255 ] charz `// not a comment` ,
f32 crc ,}options	{
    }packet
_x{ }packet trueish { @calculatedFrom("""" )x
, // " ++ [27880; 37322]%N ++ runes_of_ascii "
} 	 ")).
Eval vm_compute in ("<<<M1018>>>" ++ check (runes_of_ascii "
root packet
Foo
    {match As as// packet A { u8 x, }
rootA
{ ""CRC32""  : packetx
, 4294967296 : Header , [0123456789
    ,
    255
// @lengthOf(
//x
, 0
    , ""\n""
,
    ""packet"" ] : BodyLength
,
[
7
// a // b
// c
, 255
    , 65535  ,00,
    3 , ""packet""	, // @lengthOf(
""abc""] :  f32a
,} ,
    f32
calculatedFrom @lengthOf(// trailing space 
metadata
) `crlf
line` ,
    } //	t
options
{ // c
x_y_z //x
=7 body	=zchar[1
] ; }
packet i8i8// trailing space 
{string_{ u32 //x
options1 // c
@calculatedFrom(
""1"" )  , }// `tick` ""quote"" 'q'
,} // `tick` ""quote"" 'q'")).
Eval vm_compute in ("<<<M4102>>>" ++ check (runes_of_ascii "

  packet falsey	{} 
packet
i64_
	{i64 metadata
    @lengthOf(

    len)
,	repeat
	i16 // a // b

float

    ,

}
packet

Pad
{
@lengthOf(

Logon
	)Packet
{

string
matchKey

    , zchar[  65535
    ] metadata,
string metadata `" ++ [28040; 24687; 31867; 22411]%N ++ runes_of_ascii "`

,  repeat

    char[ 0123456789
] rootA
    ,  }
	, @tag(
4294967296 )repeat a1 
  // `tick` ""quote"" 'q'
	float
`// not a comment`  ,	repeat
char[ //	t
	3 ]As

`{ , }` ,
@calculatedFrom( 
""packet"" )
    match  T as

    packetx
{""a\\""
:
    Packet, 
    // a // b
	}  /// triple

,
} ")).
Eval vm_compute in ("<<<M1209>>>" ++ check (runes_of_ascii "options { rootA = false ; }MetaData /// triple
float { u16 falsey ``
,  char[ 1 ]
options1 , uint32 stringy `` , f32
leftPad  `it's`	,
    /// triple
    x repeatCount ,asx
    repeatCount
`{ , }` ,
    }  packet
    rootA { @tag(
    7 ) len string_ , } packet As
{@leftPad ( ' '
    // " ++ [128512]%N ++ runes_of_ascii " emoji
    ) repeat chars { f32 leftPad @lengthOf( Packet ) `a\` ,
    int32
    //x
    T `tab	here`	, match string_ as len { 65535
: rootA ,} , A { falsey @calculatedFrom(
    ""CRC32"" ) ,
    uint8x
,
zchar ,} , } , }
")).
Eval vm_compute in ("<<<M722>>>" ++ check (runes_of_ascii "
options{
} MetaData
    trueish{  }
MetaData
options1
    {
    // @lengthOf(
    Z9_ Logon `doc` ,
    }
packet i64_ /// triple
{
    falsey
// " ++ [27880; 37322]%N ++ runes_of_ascii "
/// triple
rootA
    ,	@calculatedFrom( ""// no comment"")
string x_y_z
,	rootA`{ , }` ,	u `tab	here` // " ++ [128512]%N ++ runes_of_ascii " emoji
, i64_ Packet, _x
asx	,@tag( 255 )uint64 trueish , @tag(
    4294967296 ) @rightPad ( ' '  ) @calculatedFrom( """ ++ [28040; 24687]%N ++ runes_of_ascii """) i64 //
MetaDataX, @leftPad (' ' // packet A { u8 x, }
) Pad `a\` , } packet
asx
    {// packet A { u8 x, }
}")).
Eval vm_compute in ("<<<M337>>>" ++ check (runes_of_ascii "options { }packet BodyLength {i8i8 @lengthOf(trueish ) , repeat body ,// " ++ [27880; 37322]%N ++ runes_of_ascii "
@calculatedFrom( ""1"" )repeat int64 i64_ ,@tag(0 )
    MetaDataX msg_type `" ++ [28040; 24687; 31867; 22411]%N ++ runes_of_ascii "`  , Pad { Header @calculatedFrom( """"), }, @tag(  42
    ) u8 asx `u8 x,` , @tag( 3
) repeat string_ {
metadata
{// @lengthOf(
char[ 0123456789  ] crc, Packet
    `" ++ [28040; 24687; 31867; 22411]%N ++ runes_of_ascii "` , //x
options1
    // " ++ [128512]%N ++ runes_of_ascii " emoji
    `tab	here` // packet A { u8 x, }
,
}, repeat Packet , } , }
    //x
    options { x
    =  char[ 10	] ; }")).
Eval vm_compute in ("<<<M4221>>>" ++ check (runes_of_ascii "MetaData u {
    int8 body,
    string Packet,
}

options {
    matchKey = float64;
}

packet roots {
    @calculatedFrom(""abc"")
    match MetaDataX as _x {
        007 : o,
        [
            42, 65535, 1, 65535, 4294967296,
            00, ""x y"", ""a	b""
        ] : f32a,
        ""CRC32"" : repeatCount,
        ""CRC32"" : u128,
    },
}

options {
}

MetaData uint8x {
    char[] u128,
    body crc `
        `,
    lengthOf rootA,
    i8 crc,
}")).
Eval vm_compute in ("<<<M1333>>>" ++ check (runes_of_ascii "root	packet chars{
uint16
//x
// @lengthOf(
As
@lengthOf( len )
,
    // trailing space 
    repeat char[ 4294967296
]	Header ,@calculatedFrom( ""a	b""
    ) @tag(
1
)@lengthOf( uint8x //
) T msg_type ,
@lengthOf(
u8x )lengthOf int
    // packet A { u8 x, }
    `" ++ [28040; 24687; 31867; 22411]%N ++ runes_of_ascii "` ,
@leftPad
('0'
) @calculatedFrom( ""a	b"") char[] packetx`say ""hi""`
, uint8x	{ float32 tag , }
    , @leftPad ( )char[ 3  ]
    msg_type `" ++ [233]%N ++ runes_of_ascii "` ,
    } options{
}
")).
Eval vm_compute in ("<<<M813>>>" ++ check (runes_of_ascii "packet chars	{
} root  packet chars { zchar[// @lengthOf(
00 ]
    lengthOf
    `" ++ [28040; 24687; 31867; 22411]%N ++ runes_of_ascii "` ,}root packet  tag  {
    @rightPad ( '\x00' ) zchar[ 3] Foo @lengthOf(pack),
zchar[ 10 ]tag ,	repeat uint32
int, @rightPad
    ( '\x00'
)	@lengthOf(f32a ) @rightPad
//
//x
( ' ' )Packet int ,
match
    //	t
    len// " ++ [27880; 37322]%N ++ runes_of_ascii "
as i8i8
{ 10	: chars ,}
    , @calculatedFrom( ""x y"" ) Z9_
    @calculatedFrom(	""it's""	) ,
    } //	t")).
Eval vm_compute in ("<<<M4244>>>" ++ check (runes_of_ascii "

  root
	packet Header{
@lengthOf(
    stringy ) calculatedFrom@lengthOf(
chars )	,
char[ 255	] 
  // `tick` ""quote"" 'q'
    metadata  ``
, u8
    MetaDataX
    `crlf
line` , 
} options {} options{ uint8x
	=
    42 ;
	T= i32; calculatedFrom	// `tick` ""quote"" 'q'
    	=

""// no comment""
	;
	u8x 
=

    0
	}

    root
packet
    roots
    {repeat

    i64

    falsey 	 //x
		,}

")).
Eval vm_compute in ("<<<M4001>>>" ++ check (runes_of_ascii "options {
    x = ""// no comment""
}

packet trueish {
    @lengthOf(_x)
    Header {
        char[] Pad @calculatedFrom(""" ++ [28040; 24687]%N ++ runes_of_ascii """),
        float64 msg_type,
    },
    repeat string packetx `u8 x,`,
    match Header as charz {
        65535 : pack,
    },
}

packet float {
}

root packet A {
    @calculatedFrom(""x y"")
    // @lengthOf(
    string len @lengthOf(metadata),
}")).
Eval vm_compute in ("<<<M691>>>" ++ check (runes_of_ascii "//x
packet string_ { @calculatedFrom(
""// no comment"" ) @calculatedFrom( ""abc"" ) @calculatedFrom(	""a	b"" )
match u8x as u8x { 7 :x
, [
    ""packet""]	: chars ,} , } MetaData i8i8 { char[] a1 , crc// trailing space 
a1 , // trailing space 
char[
1 ] // @lengthOf(
matchKey , // `tick` ""quote"" 'q'
}
    options {Logon
    = ""{,}""	; }// " ++ [27880; 37322]%N ++ runes_of_ascii "
options {  }

")).
Eval vm_compute in ("<<<M121>>>" ++ check (runes_of_ascii "root
    packet stringy{ // trailing space 
@calculatedFrom(
""" ++ [28040; 24687]%N ++ runes_of_ascii """ ) repeat
Foo {float64	i64_
    @lengthOf(Z9_ ),	}
    ,	repeat // `tick` ""quote"" 'q'
lengthOf {
falsey
    { uint16 len//x
,	} , Packet uint8x `a\`,} , @calculatedFrom(""" ++ [128512]%N ++ runes_of_ascii """)  string MetaDataX	`" ++ [233]%N ++ runes_of_ascii "`  ,} packet
chars { @leftPad ( '0'
    )i64 trueish
@lengthOf( Z9_  )
    ,
}
")).
Eval vm_compute in ("<<<M3830>>>" ++ check (runes_of_ascii "packet  len
	{

@calculatedFrom( ""x y""
)
@tag(3 
        // packet A { u8 x, }
	  // `tick` ""quote"" 'q'

	) 
      //
  // c
  @tag(
	1
) 
    /// triple
    match 
o 
as Header
{
007
: BodyLength , 
""x y""
:zchar ,[ ""abc""

] 
:
    string_  ,
},  // c

	int32 

    // packet A { u8 x, }
	// a // b
	  leftPad

,}	// c
")).
Eval vm_compute in ("<<<M1886>>>" ++ check (runes_of_ascii "MetaData
    u { }  options {
// c
// @lengthOf(
float float = int8 ;rootA =false ; As =	int16 // `tick` ""quote"" 'q'
repeatCount
    // trailing space 
    =
    int16
; u8x =
    //	t
    '\x00' ; } options	{
    repeatCount
= 0
u128
    //
    = false ; i64_
// trailing space 
// `tick` ""quote"" 'q'
= '0' ; //	t
}
")).
Eval vm_compute in ("<<<M1926>>>" ++ check (runes_of_ascii "MetaData
    u { }  options {
// c
// @lengthOf(
float = int8 ;rootA =false ; As As =	int16 // `tick` ""quote"" 'q'
repeatCount
    // trailing space 
    =
    int16
; u8x =
    //	t
    '\x00' ; } options	{
    repeatCount
= 0
u128
    //
    = false ; i64_
// trailing space 
// `tick` ""quote"" 'q'
= '0' ; //	t
}
")).
Eval vm_compute in ("<<<M2065>>>" ++ check (runes_of_ascii "MetaData
    u { }  options {
// c
// @lengthOf(
float = int8 ;rootA =false ; ' As =	int16 // `tick` ""quote"" 'q'
repeatCount
    // trailing space 
    =
    int16
; u8x =
    //	t
    '\x00' ; } options	{
    repeatCount
= 0
u128
    //
    = false ; i64_
// trailing space 
// `tick` ""quote"" 'q'
= '0' ; //	t
}
")).
Eval vm_compute in ("<<<M1912>>>" ++ check (runes_of_ascii "MetaData
    u { }  options {
// c
// @lengthOf(
float = int8 ;rootA false= ; As =	int16 // `tick` ""quote"" 'q'
repeatCount
    // trailing space 
    =
    int16
; u8x =
    //	t
    '\x00' ; } options	{
    repeatCount
= 0
u128
    //
    = false ; i64_
// trailing space 
// `tick` ""quote"" 'q'
= '0' ; //	t
}
")).
Eval vm_compute in ("<<<M2052>>>" ++ check (runes_of_ascii "MetaData
    u { }  options {
// c
// @lengthOf(
float = int8 ;rootA =false ; As =	int16 // `tick` ""quote"" 'q'
repeatCount
    // trailing space 
    =
    int16
; u8x =
    //	t
    '\x00' ; } options	{
    repeatCount
= 0
u128
    //
    = false ; i64_
// trailing space 
// `tick` ""quote"" 'q'
= '0' ; //	t
]
")).
Eval vm_compute in ("<<<M4100>>>" ++ check (runes_of_ascii "MetaData As {
    float32 calculatedFrom,
    BodyLength asx `two words`,
}

options {
    f32a = ' ';
    a1 = '\x00'
}// trailing space 

MetaData T {
    charz metadata,
    lengthOf T `crlf
    line`,
    T rootA `
    `,
    char[] repeatCount `it's`,
    stringy rootA,
    zchar[0123456789] MetaDataX,
}")).
Eval vm_compute in ("<<<M1856>>>" ++ check (runes_of_ascii "
    u { }  options {
// c
// @lengthOf(
float = int8 ;rootA =false ; As =	int16 // `tick` ""quote"" 'q'
repeatCount
    // trailing space 
    =
    int16
; u8x =
    //	t
    '\x00' ; } options	{
    repeatCount
= 0
u128
    //
    = false ; i64_
// trailing space 
// `tick` ""quote"" 'q'
= '0' ; //	t
}
")).
Eval vm_compute in ("<<<M2055>>>" ++ check (runes_of_ascii "MetaData
    u { }  options {
// c
// @lengthOf(
float = int8 ;rootA =false ; As =	int16 // `tick` ""quote"" 'q'
repeatCount
    // trailing space 
    =
    int16
; u8x =
    //	t
    '\x00' ; } options	{
    repeatCount
= 0
u128
    //
    = false ; i64_
// trailing space 
// `tick` ""quote"" 'q")).
Eval vm_compute in ("<<<M160>>>" ++ check (runes_of_ascii "packet matchKey
{ // packet A { u8 x, }
zchar[ 65535
//	t
// packet A { u8 x, }
] Foo @calculatedFrom(
// " ++ [128512]%N ++ runes_of_ascii " emoji
// a // b
""\n"" ) ``, @tag(10 ) repeat
x Logon`
` , @calculatedFrom(
    ""it's"" ) @rightPad (
) zchar[ 255 ]	lengthOf
    // @lengthOf(
    , repeat uint8x`" ++ [233]%N ++ runes_of_ascii "`
,
    }
")).
Eval vm_compute in ("<<<M217>>>" ++ check (runes_of_ascii "options{ // " ++ [128512]%N ++ runes_of_ascii " emoji
x =i8 BodyLength	=	'\x00'	;
options1 // a // b
=// c
zchar[
    42] ; msg_type = ""a	b""  x_y_z =// a // b
int64
; } //x
options
{ pack =
""a\\""matchKey  =
    true Packet =""abc"" //	t
falsey =
'\x00'
; }  root packet charz { body
    `doc` , } // c")).
Eval vm_compute in ("<<<M1613>>>" ++ check (runes_of_ascii "packet
//	t
// trailing space 
_x {
// packet A { u8 x, }
// c
char[
3
    ] u8x @lengthOf(
u8x ) , @calculatedFrom(""" ++ [128512]%N ++ runes_of_ascii """ // @lengthOf(
)
i16	Foo
@lengthOf(	string_
    )`doc`	, repeat	i64 metadata , @lengthOf( @lengthOf( string_
) i8 // c
u  `line1
line2`	,
}
")).
Eval vm_compute in ("<<<M662>>>" ++ check (runes_of_ascii "  packet f32a { } MetaData x {BodyLength zchar , // @lengthOf(
}  packet metadata{ @tag( 7 ) @lengthOf( uint8x )
    body{ u8 Z9_ @calculatedFrom( /// triple
""it's"" ) `u8 x,`
    // @lengthOf(
    , }
, float32 falsey
@lengthOf( u//	t
) `line1
line2` ,}")).
Eval vm_compute in ("<<<M1633>>>" ++ check (runes_of_ascii "packet
//	t
// trailing space 
_x {
// packet A { u8 x, }
// c
char[
3
    ] u8x @lengthOf(
u8x ) , @calculatedFrom(""" ++ [128512]%N ++ runes_of_ascii """ // @lengthOf(
)
i16	Foo
@lengthOf(	string_
    )`doc`	, repeat	i64 metadata , @lengthOf( string_
) i8 // c
u u  `line1
line2`	,
}
")).
Eval vm_compute in ("<<<M1509>>>" ++ check (runes_of_ascii "packet
//	t
// trailing space 
_x {
// packet A { u8 x, }
// c
char[
]
    3 u8x @lengthOf(
u8x ) , @calculatedFrom(""" ++ [128512]%N ++ runes_of_ascii """ // @lengthOf(
)
i16	Foo
@lengthOf(	string_
    )`doc`	, repeat	i64 metadata , @lengthOf( string_
) i8 // c
u  `line1
line2`	,
}
")).
Eval vm_compute in ("<<<M1670>>>" ++ check (runes_of_ascii "packet
//	t
// trailing space 
x" ++ [178]%N ++ runes_of_ascii " {
// packet A { u8 x, }
// c
char[
3
    ] u8x @lengthOf(
u8x ) , @calculatedFrom(""" ++ [128512]%N ++ runes_of_ascii """ // @lengthOf(
)
i16	Foo
@lengthOf(	string_
    )`doc`	, repeat	i64 metadata , @lengthOf( string_
) i8 // c
u  `line1
line2`	,
}
")).
Eval vm_compute in ("<<<M1557>>>" ++ check (runes_of_ascii "packet
//	t
// trailing space 
_x {
// packet A { u8 x, }
// c
char[
3
    ] u8x @lengthOf(
u8x ) , @calculatedFrom(""" ++ [128512]%N ++ runes_of_ascii """ // @lengthOf(
)
	Foo
@lengthOf(	string_
    )`doc`	, repeat	i64 metadata , @lengthOf( string_
) i8 // c
u  `line1
line2`	,
}
")).
Eval vm_compute in ("<<<M1213>>>" ++ check (runes_of_ascii "options { string_ = char[] ;
}
packet Z9_
{
// " ++ [27880; 37322]%N ++ runes_of_ascii "
// a // b
@tag( 1 ) matchKey matchKey
    ,
}	root packet
    // `tick` ""quote"" 'q'
    Z9_ {	@leftPad
    ( '\x00' ) @rightPad // " ++ [27880; 37322]%N ++ runes_of_ascii "
(
'\x00'// packet A { u8 x, }
)
float64 chars `it's` , }")).
Eval vm_compute in ("<<<M3859>>>" ++ check (runes_of_ascii "  options

{
Foo	=
1

i64_	= char[] 
        /// triple
  	;
string_//
=uint16 
;

    chars=

char[] ;	//	t
  }  root	packet
msg_type  {body 
, @calculatedFrom( 	 // " ++ [27880; 37322]%N ++ runes_of_ascii "
    ""packet"")
    repeat
zchar[ 4294967296

]
u128 
,

} ")).
Eval vm_compute in ("<<<M1636>>>" ++ check (runes_of_ascii "packet
//	t
// trailing space 
_x {
// packet A { u8 x, }
// c
char[
3
    ] u8x @lengthOf(
u8x ) , @calculatedFrom(""" ++ [128512]%N ++ runes_of_ascii """ // @lengthOf(
)
i16	Foo
@lengthOf(	string_
    )`doc`	, repeat	i64 metadata , @lengthOf( string_
) i8")).
Eval vm_compute in ("<<<M1371>>>" ++ check (runes_of_ascii "
packet  _x {	repeat
    // packet A { u8 x, }
    A{
    int64 uint8x `tab	here` ,
}
    , } packet Pad  { @tag(	65535
)string _x //x
@lengthOf( asx)  , @rightPad ( '0'	)u8 MetaDataX , u64 chars,
    // c
    }

")).
Eval vm_compute in ("<<<M1777>>>" ++ check (runes_of_ascii "options { trueish = ""`tick`"" ; string_= """ ++ [233]%N ++ runes_of_ascii "t" ++ [233]%N ++ runes_of_ascii """
    // c
    } root
    packet body { stringy @calculatedFrom(
""a	b"" ) `line1
line2` , }
packet packet Logon {
    @leftPad(
    ' ' ) //	t
u16 string_ `u8 x,` ,
}
")).
Eval vm_compute in ("<<<M456>>>" ++ check (runes_of_ascii "MetaData Foo
{
zchar[ 10 ]
i8i8 //	t
,
    zchar[	1 ]  zchar  ,  zchar lengthOf, string//
metadata `tab	here` , matchKey  x// " ++ [128512]%N ++ runes_of_ascii " emoji
, /// triple
f32
    // @lengthOf(
    leftPad `it's` ,
    // c
    }")).
Eval vm_compute in ("<<<M1754>>>" ++ check (runes_of_ascii "options { trueish = ""`tick`"" ; string_= """ ++ [233]%N ++ runes_of_ascii "t" ++ [233]%N ++ runes_of_ascii """
    // c
    } root
    packet body { stringy @calculatedFrom(
char[] ) `line1
line2` , }
packet Logon {
    @leftPad(
    ' ' ) //	t
u16 string_ `u8 x,` ,
}
")).
Eval vm_compute in ("<<<M1753>>>" ++ check (runes_of_ascii "options { trueish = ""`tick`"" ; string_= """ ++ [233]%N ++ runes_of_ascii "t" ++ [233]%N ++ runes_of_ascii """
    // c
    } root
    packet body { stringy @calculatedFrom(
) ""a	b"" `line1
line2` , }
packet Logon {
    @leftPad(
    ' ' ) //	t
u16 string_ `u8 x,` ,
}
")).
Eval vm_compute in ("<<<M1771>>>" ++ check (runes_of_ascii "options { trueish = ""`tick`"" ; string_= """ ++ [233]%N ++ runes_of_ascii "t" ++ [233]%N ++ runes_of_ascii """
    // c
    } root
    packet body { stringy @calculatedFrom(
""a	b"" ) `line1
line2` , 
packet Logon {
    @leftPad(
    ' ' ) //	t
u16 string_ `u8 x,` ,
}
")).
Eval vm_compute in ("<<<M1675>>>" ++ check (runes_of_ascii "[ { trueish = ""`tick`"" ; string_= """ ++ [233]%N ++ runes_of_ascii "t" ++ [233]%N ++ runes_of_ascii """
    // c
    } root
    packet body { stringy @calculatedFrom(
""a	b"" ) `line1
line2` , }
packet Logon {
    @leftPad(
    ' ' ) //	t
u16 string_ `u8 x,` ,
}
")).
Eval vm_compute in ("<<<M4004>>>" ++ check (runes_of_ascii "  packet
Pad 	 // `tick` ""quote"" 'q'

	{ }
root packet

    f32a

    {// c
		@calculatedFrom( ""it's"")@tag(
	255
)match  roots
as trueish
{	7 :tag ,	} , repeat zchar[0
]  repeatCount  ,}
")).
Eval vm_compute in ("<<<M138>>>" ++ check (runes_of_ascii "options
{ MetaDataX=""\n""
    /// triple
    stringy = 4294967296 ; Packet=
    false	; As = ""a\\"" /// triple
; stringy = ' ';} options {
}
    MetaData roots {
stringy MetaDataX
    , }")).
Eval vm_compute in ("<<<M591>>>" ++ check (runes_of_ascii "options { packetx =' '
}root	packet i64_ {string // trailing space 
Foo , @tag(// " ++ [27880; 37322]%N ++ runes_of_ascii "
3	) u128 @calculatedFrom( ""\" ++ [233]%N ++ runes_of_ascii """ )	`
` , repeat char[//
00  ] Logon ,repeat crc lengthOf`a\` , }
")).
Eval vm_compute in ("<<<M4363>>>" ++ check (runes_of_ascii "root
    packet

    // c

matchKey	{  zchar[

    3 ]pack
	@calculatedFrom(

    ""a	b""  )

`doc` 
,

} options	{

    }
	MetaData  A

    { int8
	msg_type

    ,}
")).
Eval vm_compute in ("<<<M249>>>" ++ check (runes_of_ascii "
root packet /// triple
Foo { int32 tag
    `doc` , char[0
    ]
    u8x`u8 x,`
, charz charz
    , @rightPad(' ')@tag( 3 ) @rightPad	('0' )
repeat
int16	float ,}
")).
Eval vm_compute in ("<<<M4412>>>" ++ check (runes_of_ascii "MetaData crc {
    i64 matchKey,
    _x msg_type,
    zchar zchar,
    MetaDataX matchKey `a\`,
    u32 Header,
}

MetaData _x {
}

root packet calculatedFrom {
}")).
Eval vm_compute in ("<<<M2107>>>" ++ check (runes_of_ascii "options{
_x
= true
} `line1
line2`
{ o	= /// triple
false
    ; chars
= ""\n"" } root packet	Pad
/// triple
// packet A { u8 x, }
{	chars
    // a // b
    ,}")).
Eval vm_compute in ("<<<M2165>>>" ++ check (runes_of_ascii "options{
_x
= true
} options
{ o	= /// triple
false
    ; chars
= ""\n"" } root packet	Pad Pad
/// triple
// packet A { u8 x, }
{	chars
    // a // b
    ,}")).
Eval vm_compute in ("<<<M304>>>" ++ check (runes_of_ascii "  packet
    Packet { i8 MetaDataX , }
    root packet
    a1
{ rootA @lengthOf( uint8x )
    ,
    repeatCount
{
char[]u , u16
msg_type
`a\` ,
    }
, }
")).
Eval vm_compute in ("<<<M2402>>>" ++ check (runes_of_ascii "// c
packet x { @lengthOf( metadata ) lengthOf repeat
,a1{
trueish	,// c
repeat//	t
MetaDataX , } , zchar[
    42	] rootA // `tick` ""quote"" 'q'
,
    }
")).
Eval vm_compute in ("<<<M1228>>>" ++ check (runes_of_ascii "// packet A { u8 x, }
options { matchKey =	true ; } MetaData int {uint16
    packetx`tab	here` ,	}
options/// triple
{ msg_type = """"  ; } // @lengthOf(")).
Eval vm_compute in ("<<<M1321>>>" ++ check (runes_of_ascii "  options
{ Pad =  zchar[ 0 ] ;
    tag=char[ 4294967296
    ] ; u128=	false ; } MetaData repeatCount
    {
u16 u128, }  options {
leftPad
    = '0'; }")).
Eval vm_compute in ("<<<M2162>>>" ++ check (runes_of_ascii "options{
_x
= true
} options
{ o	= /// triple
false
    ; chars
= ""\n"" } root i16	Pad
/// triple
// packet A { u8 x, }
{	chars
    // a // b
    ,}")).
Eval vm_compute in ("<<<M2174>>>" ++ check (runes_of_ascii "options{
_x
= true
} options
{ o	= /// triple
false
    ; chars
= ""\n"" } root packet	Pad
/// triple
// packet A { u8 x, }
{	
    // a // b
    ,}")).
Eval vm_compute in ("<<<M4194>>>" ++ check (runes_of_ascii "packet A {
    match k as n {
        [
            1, 007, 5, 7, 9,
            ""bb"", ""d"", ""f"", ""h"", ""j""
        ] : B,
        2 : C,
    },
}")).
Eval vm_compute in ("<<<M1005>>>" ++ check (runes_of_ascii "root  packet
    leftPad { int64 BodyLength `// not a comment` ,	@tag(0 ) @leftPad( ) @tag( 255
    )
repeat Header // @lengthOf(
, } // c")).
Eval vm_compute in ("<<<M4466>>>" ++ check (runes_of_ascii "  packet
    A {match k as
	n{	[ 
""a"" ,  ""bb"",  007 
,
	""d"" , ""e""	,	66 
,
""g""
,

""h""  ,
	9 
,
    ""j"" ]
    :
B 
2
    : C
    }	,}
")).
Eval vm_compute in ("<<<M443>>>" ++ check (runes_of_ascii "packet  T {
@lengthOf(// trailing space 
matchKey // packet A { u8 x, }
)
match
u as crc { [ ""it's"",""CRC32"" ,
3 ]:Z9_, } , }

")).
Eval vm_compute in ("<<<M1399>>>" ++ check (runes_of_ascii "
packet packet
    falsey { Header@calculatedFrom(""packet""  ) , char[
    0123456789 ] packetx
    , } // `tick` ""quote"" 'q'")).
Eval vm_compute in ("<<<M3690>>>" ++ check (runes_of_ascii "packet B {
    u8 a,
}

root packet P {
    u8 K,
    match K as Body {
        1 : B,
    },
    u16 L @lengthOf(Body),
}")).
Eval vm_compute in ("<<<M3334>>>" ++ check (runes_of_ascii "root packet matchKey { zchar[ 3 ] pack @calculatedFrom( ""a	b"" ) `doc` // c
, } options { } MetaData A { int8 msg_type , }")).
Eval vm_compute in ("<<<M351>>>" ++ check (runes_of_ascii "packet lengthOf
    { @tag(007 )trueish
    // c
    {
    repeat string asx,
} , } options
    {roots=
    ""x y""	; }
")).
Eval vm_compute in ("<<<M1400>>>" ++ check (runes_of_ascii "
falsey
    packet { Header@calculatedFrom(""packet""  ) , char[
    0123456789 ] packetx
    , } // `tick` ""quote"" 'q'")).
Eval vm_compute in ("<<<M1462>>>" ++ check (runes_of_ascii "
packet
    falsey { Header@calculatedFrom(""packet""  ) , char[
    0123456789 ] packetx
    ,  // `tick` ""quote"" 'q'")).
Eval vm_compute in ("<<<M1437>>>" ++ check (runes_of_ascii "
packet
    falsey { Header@calculatedFrom(""packet""  ) , 
    0123456789 ] packetx
    , } // `tick` ""quote"" 'q'")).
Eval vm_compute in ("<<<M2187>>>" ++ check (runes_of_ascii "options{
_x
= true
} options
{ o	= /// triple
false
    ; chars
= ""\n"" } root packet	Pad
/// triple
// packe")).
Eval vm_compute in ("<<<M2985>>>" ++ check (runes_of_ascii "packet A {
  match k as n {
    [""a"", ""bb"", 007, ""d"", ""e"", 66, ""g"", ""h"", 9, ""j"", ""k""] : B,
    2 : C
  },
}")).
Eval vm_compute in ("<<<M2981>>>" ++ check (runes_of_ascii "packet A {
  match k as n {
    [""a"", 22, ""c c"", 4, ""e"", 66, ""g"", 8, ""i"", 10, ""k""] : B,
    2 : C
  },
}")).
Eval vm_compute in ("<<<M2952>>>" ++ check (runes_of_ascii "packet A {
  match k as n {
    [""a"", ""bb"", ""c c"", ""d"", ""e"", ""f"", ""g"", ""h"", ""i""] : B
    2 : C
  },
}")).
Eval vm_compute in ("<<<M3535>>>" ++ check (runes_of_ascii "  packet
    Inner

    {	u8

    a

    ,  }	root packet

P
{ Inner	ref_obj ,
	u8

x
, }
")).
Eval vm_compute in ("<<<M4380>>>" ++ check (runes_of_ascii "MetaData u128 {
    string falsey `u8 x,`,
    trueish roots,
}

options {
    msg_type = """ ++ [128512]%N ++ runes_of_ascii """;
}")).
Eval vm_compute in ("<<<M2947>>>" ++ check (runes_of_ascii "packet A {
  match k as n {
    [""a"", ""bb"", 007, ""d"", ""e"", 66, ""g"", ""h""] : B
    2 : C
  },
}")).
Eval vm_compute in ("<<<M4291>>>" ++ check (runes_of_ascii "packet A {
    u32 crc @calculatedFrom(""\
    ""),
    @calculatedFrom(""\
    "")
    u8 y,
}")).
Eval vm_compute in ("<<<M3270>>>" ++ check (runes_of_ascii "MetaData
// c
float { float64 charz `
` , } root packet chars { @rightPad ( '0' ) Foo , }")).
Eval vm_compute in ("<<<M3302>>>" ++ check (runes_of_ascii "MetaData float { float64 charz `
` , } root packet chars { @rightPad ( '0' ) Foo
// c
, }")).
Eval vm_compute in ("<<<M3513>>>" ++ check (runes_of_ascii "packet chars { } packet MetaDataX { @tag( 42 ) i16 string_ , repeat x // c
`say ""hi""` , }")).
Eval vm_compute in ("<<<M794>>>" ++ check (runes_of_ascii "packet MetaDataX
{ char[]
len , // a // b
float64 len
@calculatedFrom( ""packet"" )
, }
")).
Eval vm_compute in ("<<<M817>>>" ++ check (runes_of_ascii "  packet
    stringy  {
@lengthOf(crc
) string repeatCount @calculatedFrom(""{,}"" )
, }")).
Eval vm_compute in ("<<<M3220>>>" ++ check (runes_of_ascii "packet metadata { Logon
// c
{ A `" ++ [28040; 24687; 31867; 22411]%N ++ runes_of_ascii "` , tag o , } , zchar len `// not a comment` , }")).
Eval vm_compute in ("<<<M4028>>>" ++ check (runes_of_ascii "
packet
    A

{

    Inner{

    u8  x `
x`,Deep{u8

    y

`
x`,

}  ,
}

, }
")).
Eval vm_compute in ("<<<M3440>>>" ++ check (runes_of_ascii "packet o { repeat Logon uint8x
// c
, } options { asx = zchar[ 3 ] stringy = '\x00' }")).
Eval vm_compute in ("<<<M2920>>>" ++ check (runes_of_ascii "packet A {
  match k as n {
    [""a"", ""bb"", 007, ""d"", ""e"", 66] : B,
    2 : C
  },
}")).
Eval vm_compute in ("<<<M496>>>" ++ check (runes_of_ascii "
options { repeatCount = ""a	b"" ;As = ' '
    ;
    len= true ;string_ = int16 ; }
")).
Eval vm_compute in ("<<<M3417>>>" ++ check (runes_of_ascii "MetaData body { i64 pack `it's` , } packet stringy { int16
// c
calculatedFrom , }")).
Eval vm_compute in ("<<<M4478>>>" ++ check (runes_of_ascii "root packet len {
    char[1] Foo @calculatedFrom(""abc""),// `tick` ""quote"" 'q'
}")).
Eval vm_compute in ("<<<M460>>>" ++ check (runes_of_ascii "root packet packetx
{  zchar[4294967296 ] uint8x@lengthOf( uint8x	) ,
    }
")).
Eval vm_compute in ("<<<M63>>>" ++ check (runes_of_ascii "MetaData
    Packet { string Logon `" ++ [233]%N ++ runes_of_ascii "`
,
    int8
    _x
//	t
// " ++ [27880; 37322]%N ++ runes_of_ascii "
,
}

")).
Eval vm_compute in ("<<<M1055>>>" ++ check (runes_of_ascii "packet packetx { /// triple
@rightPad ('0' ) @tag( 007)Logon Pad ,  }
")).
Eval vm_compute in ("<<<M2875>>>" ++ check (runes_of_ascii "packet A {
  match k as n {
    [1, ""bb"", 007] : B,
    2 : C
  },
}")).
Eval vm_compute in ("<<<M539>>>" ++ check (runes_of_ascii "root
packet
// a // b
// " ++ [128512]%N ++ runes_of_ascii " emoji
Z9_ // a // b
{ // " ++ [128512]%N ++ runes_of_ascii " emoji
}
")).
Eval vm_compute in ("<<<M2293>>>" ++ check (runes_of_ascii "options
{ } options { BodyLength= u16 Header= f64 ; u128 =
   ")).
Eval vm_compute in ("<<<M22>>>" ++ check (runes_of_ascii "options
    // a // b
    {
float	= char[ 4294967296 ] ; }
")).
Eval vm_compute in ("<<<M2816>>>" ++ check (runes_of_ascii "zchar[ f64 char string int32 as false char[ char @rightPad")).
Eval vm_compute in ("<<<M4401>>>" ++ check (runes_of_ascii "root packet P {
    repeat string ss,
    repeat u16 ns,
}")).
Eval vm_compute in ("<<<M1180>>>" ++ check (runes_of_ascii "packet
    Header
{
i32 float, } // `tick` ""quote"" 'q'")).
Eval vm_compute in ("<<<M1215>>>" ++ check (runes_of_ascii "root packet calculatedFrom { char[] trueish `
` ,}
")).
Eval vm_compute in ("<<<M3745>>>" ++ check (runes_of_ascii "packet o {
    stringy @calculatedFrom(""a	b""),
}")).
Eval vm_compute in ("<<<M85>>>" ++ check (runes_of_ascii "
MetaData f32a { char[ 42
    ] zchar
, //x
}")).
Eval vm_compute in ("<<<M620>>>" ++ check (runes_of_ascii "  options { u8x =/// triple
zchar[ 00 ] ; }")).
Eval vm_compute in ("<<<M2626>>>" ++ check (runes_of_ascii "packet A { @leftPad('0' '0') char[2] x, }")).
Eval vm_compute in ("<<<M3201>>>" ++ check (runes_of_ascii "root packet u128 { chars `it's` , // c
}")).
Eval vm_compute in ("<<<M4330>>>" ++ check (runes_of_ascii "  packet A
{ u8 x`d" ++ [12]%N ++ runes_of_ascii "`
    , // c" ++ [12]%N ++ runes_of_ascii "
  }")).
Eval vm_compute in ("<<<M4560>>>" ++ check (runes_of_ascii "
packet	A

    { }  
      // c" ++ [160]%N ++ runes_of_ascii "
")).
Eval vm_compute in ("<<<M2245>>>" ++ check (runes_of_ascii "options
{ } options { BodyLength=")).
Eval vm_compute in ("<<<M2834>>>" ++ check (runes_of_ascii "dxT`3-=WNaxe4?ugHL<=^O4.Z~pd=^ii}")).
Eval vm_compute in ("<<<M2625>>>" ++ check (runes_of_ascii "packet A { @leftPad('0' u8 x, }")).
Eval vm_compute in ("<<<M3107>>>" ++ check (runes_of_ascii "packet A {
 u8 x `d" ++ [8239]%N ++ runes_of_ascii "`, // c" ++ [8239]%N ++ runes_of_ascii "
}")).
Eval vm_compute in ("<<<M2822>>>" ++ check (runes_of_ascii "sa;6G`'h:_2TsaQbH%GtGhb$f\i""")).
Eval vm_compute in ("<<<M2190>>>" ++ check (runes_of_ascii "options{
_x
= true
} optio")).
Eval vm_compute in ("<<<M3257>>>" ++ check (runes_of_ascii "root packet
// c
pack { }")).
Eval vm_compute in ("<<<M2593>>>" ++ check (runes_of_ascii "packet A { x @tag(1), }")).
Eval vm_compute in ("<<<M3770>>>" ++ check (runes_of_ascii "packet BodyLength {
}")).
Eval vm_compute in ("<<<M1073>>>" ++ check (runes_of_ascii "packet msg_type {}
")).
Eval vm_compute in ("<<<M4264>>>" ++ check (runes_of_ascii "  options
	{
    } ")).
Eval vm_compute in ("<<<M3105>>>" ++ check (runes_of_ascii "packet A {
}
// c" ++ [8239]%N)).
Eval vm_compute in ("<<<M2656>>>" ++ check (runes_of_ascii "options { a = 1 }")).
Eval vm_compute in ("<<<M2641>>>" ++ check (runes_of_ascii "root options { }")).
Eval vm_compute in ("<<<M416>>>" ++ check (runes_of_ascii "
options { }
")).
Eval vm_compute in ("<<<M2093>>>" ++ check (runes_of_ascii "options{
_x")).
Eval vm_compute in ("<<<M1864>>>" ++ check (runes_of_ascii "MetaData")).
Eval vm_compute in ("<<<M2779>>>" ++ check (runes_of_ascii "3" ++ [65533; 3]%N ++ runes_of_ascii "4" ++ [65533]%N ++ runes_of_ascii "*M")).
Eval vm_compute in ("<<<M2430>>>" ++ check (runes_of_ascii "chars")).
Eval vm_compute in ("<<<M3119>>>" ++ check (runes_of_ascii "// c" ++ [12]%N)).
Eval vm_compute in ("<<<M2719>>>" ++ check (runes_of_ascii "D-{a")).
Eval vm_compute in ("<<<M2552>>>" ++ check (runes_of_ascii "a" ++ [8232]%N ++ runes_of_ascii "b")).
Eval vm_compute in ("<<<M14>>>" ++ check (runes_of_ascii "
")).
