From FP Require Import Lexer Parser ShowPT Digest Formatter.
From Coq Require Import String List NArith.
Import ListNotations.
Open Scope string_scope.
Set Printing Width 100000000.
Set Printing Depth 100000000.
Definition show_fres (r : fres) : string :=
  match r with
  | FOk s => "OK:" ++ sh_escaped s ""
  | FErr s => "ERR:" ++ sh_escaped s ""
  | FPanic p => "PANIC:" ++ p
  end.
Definition check (rs : list rune) : string := digest (show_fres (format_res rs)).
Definition full (rs : list rune) : string := show_fres (format_res rs).
Eval vm_compute in ("<<<M4486>>>" ++ check (runes_of_ascii "
root packet MetaDataX

    { int32
Logon
	,	}packet

    roots	{ match
    calculatedFrom  as	i8i8	{

[ ""// no comment"" ,""\" ++ [233]%N ++ runes_of_ascii """

,// c
	10 ,

    ""\n"" ,
	""{,}""  ,  //	t
  65535
,

""x y"" ]	:	// " ++ [128512]%N ++ runes_of_ascii " emoji
	As
,
    10
    : o , 
""\" ++ [233]%N ++ runes_of_ascii """ :
	MetaDataX
	}	,

@leftPad
(

    '\x00' )
    @lengthOf(  a1)
	// `tick` ""quote"" 'q'
		@calculatedFrom(
""a\\""

    )
    uint16
float
	@calculatedFrom(""`tick`"") 	 //	t
	,
    string BodyLength
    @calculatedFrom(

    ""x y"" ) ,

calculatedFrom
    stringy // packet A { u8 x, }
,

@lengthOf(  a1

)
    @tag(

    65535
	) char[] falsey `// not a comment`

,
	@calculatedFrom( """ ++ [233]%N ++ runes_of_ascii "t" ++ [233]%N ++ runes_of_ascii """  )

    char[
    255 ]/// triple
		msg_type ,  o
    ,	@rightPad
(

    '0'
	)	// trailing space 

repeat  rootA {
x

{repeat 
u8
    Z9_  `
`
, 
char[
    255]// " ++ [128512]%N ++ runes_of_ascii " emoji
    leftPad  , 
int32 len `line1
line2`  , 
} , // `tick` ""quote"" 'q'

	repeat

    uint8x 
{char[]
rootA
    @lengthOf(

Z9_

    )
	,

    match  zchar  as
	x_y_z  { 0:  Z9_

    ,[  007 ,
007
, 
1 ,
007	,""""  ,
	""1""  ]  :

packetx , [ ""1"" ,

"""" ] 
:len
    ,

""""
    :
BodyLength
    , [
""// no comment""

    ,
        //	t

	""" ++ [128512]%N ++ runes_of_ascii """ 
, ""`tick`""]

:
	chars

,10
	:  T} , }	,
        // " ++ [27880; 37322]%N ++ runes_of_ascii "
	a1

@lengthOf(body), 
} 
//x
, 
}  MetaData// c
	crc
{
    }	options	{
	rootA = 
'\x00' }  packet  lengthOf{
char[]

    float 	 // " ++ [128512]%N ++ runes_of_ascii " emoji
	`" ++ [28040; 24687; 31867; 22411]%N ++ runes_of_ascii "`  , char[]
	falsey

    ,

repeatCount

    `crlf
line`
,// packet A { u8 x, }
    uint32 Foo

    @lengthOf(
string_
)
`doc`
    ,@calculatedFrom(  // @lengthOf(
	""\n""
) f64
	Pad

    @lengthOf(  i8i8 ) 
,
@lengthOf( i8i8 
)
    x_y_z  // `tick` ""quote"" 'q'
    x,	@calculatedFrom(
""1"" 
    // packet A { u8 x, }
	// packet A { u8 x, }
  )
pack { float64
leftPad
    `crlf
line`	,
repeat int {

match packetx as
    repeatCount
{	// " ++ [27880; 37322]%N ++ runes_of_ascii "
[
""a\""b"",
	    // c
    42
    ] :repeatCount // a // b
    ,
	3
: 	 // " ++ [128512]%N ++ runes_of_ascii " emoji
    	leftPad , ""it's"" 
:  i8i8 ,

""packet"" 
:x_y_z ""`tick`""
: asx ,

    3
	:

Foo
,
    }
    , i32//	t

  options1 `" ++ [233]%N ++ runes_of_ascii "` ,
repeat	int
	i64_ ,

}
	, }

, } ")).
Eval vm_compute in ("<<<M1074>>>" ++ check (runes_of_ascii "root packet options1 {
@rightPad( '0'
    )	u64  string_
    `a\`, @lengthOf(u128
    /// triple
    ) @tag(	7 )i16 // " ++ [27880; 37322]%N ++ runes_of_ascii "
o ,repeat uint8 a1 , @lengthOf( msg_type ) repeat float64 Z9_`two words` ,  match metadata
as
Logon
/// triple
// a // b
{ [""" ++ [128512]%N ++ runes_of_ascii """
, 42]
    : A , } , BodyLength len ,
    // a // b
    }
    packet
zchar {
string_ lengthOf , match x as Logon { """ ++ [28040; 24687]%N ++ runes_of_ascii """ : calculatedFrom ,	""" ++ [233]%N ++ runes_of_ascii "t" ++ [233]%N ++ runes_of_ascii """ : roots
[ 255 ] ://	t
falsey 255 :
T ,// packet A { u8 x, }
}, repeat
charz ,@calculatedFrom( // " ++ [128512]%N ++ runes_of_ascii " emoji
""it's""  ) @calculatedFrom( ""\n"" ) @rightPad ( ' ')
    int32
    rootA , i64_ leftPad, roots , char[]
// c
// " ++ [128512]%N ++ runes_of_ascii " emoji
msg_type `" ++ [233]%N ++ runes_of_ascii "`
    , pack @calculatedFrom(""// no comment"" ) , @rightPad ( ' ' )	repeat// trailing space 
leftPad ,int64 lengthOf,} // trailing space 
packet  msg_type
{@lengthOf(
Z9_ )	repeat trueish
// " ++ [27880; 37322]%N ++ runes_of_ascii "
// " ++ [27880; 37322]%N ++ runes_of_ascii "
{// trailing space 
stringy
`{ , }` , u64 calculatedFrom	@calculatedFrom( ""it's"") ,char[ // @lengthOf(
10 //x
] crc
// a // b
// " ++ [128512]%N ++ runes_of_ascii " emoji
,
    }	, match f32a as Logon{
    // @lengthOf(
    ""abc""
: BodyLength, [	0 , 42
]  :
    Header
007: Z9_
""a\""b"":chars	,
} ,@lengthOf(  roots
)options1 // trailing space 
A `u8 x,`
    //	t
    ,  char[
1 ] u128
    // " ++ [27880; 37322]%N ++ runes_of_ascii "
    ,@lengthOf( x_y_z )
//x
//
MetaDataX @calculatedFrom( ""1""
    )
`{ , }` , len
{
x_y_z Logon ,matchKey repeatCount
// a // b
// " ++ [27880; 37322]%N ++ runes_of_ascii "
,
T { i8 trueish @calculatedFrom( ""\" ++ [233]%N ++ runes_of_ascii """ )`tab	here`
,} ,
    // a // b
    repeat float zchar /// triple
`two words` ,} ,repeat  u8	metadata
`crlf
line`
    ,@calculatedFrom( ""\" ++ [233]%N ++ runes_of_ascii """ )char[ 0	]
trueish
@calculatedFrom("""" )
//
//
, //x
uint8 charz // @lengthOf(
, } MetaData
    // a // b
    a1{
f32 trueish `line1
line2` ,string uint8x// packet A { u8 x, }
`" ++ [28040; 24687; 31867; 22411]%N ++ runes_of_ascii "`, i32 tag,
stringy zchar  `" ++ [28040; 24687; 31867; 22411]%N ++ runes_of_ascii "`
,	}
")).
Eval vm_compute in ("<<<M681>>>" ++ check (runes_of_ascii "options {	leftPad = false
    ;
Packet  =//	t
int16 ;
    // c
    len = ' ' calculatedFrom =65535
; } MetaData Header{  int32 Z9_ , f32
zchar `u8 x,` , char[  10 // a // b
]x , asx
_x
`two words`
    /// triple
    , zchar[ 1 ]calculatedFrom `it's` ,}
// a // b
//	t
packet
    o{
    u msg_type
// " ++ [27880; 37322]%N ++ runes_of_ascii "
//
,@leftPad( '0' ) repeat BodyLength u
    `" ++ [233]%N ++ runes_of_ascii "` , @leftPad
('0'// " ++ [27880; 37322]%N ++ runes_of_ascii "
)@tag( 1 )zchar[ 1 ]i64_ @calculatedFrom( """ ++ [233]%N ++ runes_of_ascii "t" ++ [233]%N ++ runes_of_ascii """	)	`it's` , @lengthOf( x
    )
    @tag( 255  ) @tag(  7 )
repeat zchar[ 10
] chars
`two words` ,	@lengthOf(	Foo )rootA `" ++ [233]%N ++ runes_of_ascii "`
, } packet o {pack // " ++ [27880; 37322]%N ++ runes_of_ascii "
{repeat i8	lengthOf
    ,char int //	t
`u8 x,` ,
//	t
// a // b
i64 matchKey@lengthOf( x_y_z // @lengthOf(
), }
, zchar[ 007 ]
//x
// packet A { u8 x, }
metadata`say ""hi""`  , @rightPad ( ' ' )
    match //x
MetaDataX
    as
x_y_z { 0 : roots , """" : chars
    ,
    """ ++ [28040; 24687]%N ++ runes_of_ascii """ : T , 0 :
//x
// a // b
Foo
//	t
/// triple
,
    [ 0123456789, """ ++ [28040; 24687]%N ++ runes_of_ascii """ , 0 , """ ++ [233]%N ++ runes_of_ascii "t" ++ [233]%N ++ runes_of_ascii """ ,
    10 , ""a	b""
, """ ++ [233]%N ++ runes_of_ascii "t" ++ [233]%N ++ runes_of_ascii """ //	t
,""" ++ [128512]%N ++ runes_of_ascii """
]  :
options1 0123456789  :u ,// " ++ [128512]%N ++ runes_of_ascii " emoji
} , len @calculatedFrom(
""a\""b""
) // " ++ [27880; 37322]%N ++ runes_of_ascii "
, @tag(42 )
@lengthOf( x_y_z	)
// a // b
/// triple
leftPad chars , //	t
i8 options1
@lengthOf(i64_
    )	,
repeat
matchKey `
` , o	@calculatedFrom( ""`tick`"" ) ,
    @lengthOf( len ) len
{match float as
    rootA {
[ ""x y""  , ""a\""b"" ,7 , """"
, """ ++ [233]%N ++ runes_of_ascii "t" ++ [233]%N ++ runes_of_ascii """ , 4294967296
    ,
    ""abc"" , 65535
]: float
    , } ,	f32
    Packet ,
u16 a1	,	zchar[ 65535 ]
stringy, } ,	} root packet
    metadata // a // b
{
    @tag( 4294967296
    ) // " ++ [27880; 37322]%N ++ runes_of_ascii "
string	u8x
    `a\` , }
")).
Eval vm_compute in ("<<<M783>>>" ++ check (runes_of_ascii "MetaData
asx{ Packet i64_	, zchar[ 0 ] stringy ,
A tag , }
    options	{ } root packet
//x
// trailing space 
metadata { repeat x_y_z matchKey , repeat char[]
x_y_z
    // packet A { u8 x, }
    `crlf
line`	, @lengthOf(	As )  char[]x_y_z ,
@tag(  00)  @calculatedFrom(""" ++ [233]%N ++ runes_of_ascii "t" ++ [233]%N ++ runes_of_ascii """ )
    u8	pack @calculatedFrom( ""CRC32"" ) , roots
    // " ++ [27880; 37322]%N ++ runes_of_ascii "
    repeatCount ,	uint8x /// triple
`two words`,
}  options { Z9_ // `tick` ""quote"" 'q'
= string Z9_ =
    0 string_= true ; // c
crc =
i64 ; } packet packetx {  @leftPad (
'0' )// " ++ [128512]%N ++ runes_of_ascii " emoji
@rightPad
( '0' ) @lengthOf(
stringy )
char[]
body `" ++ [28040; 24687; 31867; 22411]%N ++ runes_of_ascii "` , // " ++ [27880; 37322]%N ++ runes_of_ascii "
match u as Foo
    { // " ++ [27880; 37322]%N ++ runes_of_ascii "
4294967296 :  Logon , } ,
match
stringy as BodyLength{  ""a\\"" :
    chars 4294967296 : Packet,
4294967296:	_x,255 :Foo , 1 : roots, }, @rightPad ( '0' ) //x
match
    // `tick` ""quote"" 'q'
    u8x
as f32a{
[  ""x y"", // a // b
""" ++ [128512]%N ++ runes_of_ascii """ ,
    ""`tick`"" ] : calculatedFrom ,
    ""a\""b""
: packetx
    // packet A { u8 x, }
    ,	[
    0 ]
: /// triple
As ,[ """ ++ [28040; 24687]%N ++ runes_of_ascii """
] :
    // `tick` ""quote"" 'q'
    Z9_ } ,	@lengthOf(// a // b
Logon	) match
    chars as
    len{[ 3 ,	""a\\""
    //x
    ]:string_[
// `tick` ""quote"" 'q'
// c
""it's""  ,// c
""a\\""	] : len ,
    [ ""\n""	,
3
,""" ++ [28040; 24687]%N ++ runes_of_ascii """ ]
: rootA , 10	: msg_type , }, char[]	chars@lengthOf( trueish )
`
` , //
@tag( 0
) repeat // " ++ [128512]%N ++ runes_of_ascii " emoji
zchar[ 7 ] A	,  char[
7 ] rootA  ,
// " ++ [128512]%N ++ runes_of_ascii " emoji
// c
}")).
Eval vm_compute in ("<<<M1348>>>" ++ check (runes_of_ascii "options { tag = 0;} packet u8x
    { // trailing space 
u Z9_ , @tag(
    00 )@rightPad ( '\x00'
    )  @calculatedFrom(
""CRC32"" ) //	t
crc, metadata	@calculatedFrom(
""a	b""
    ) // c
, @tag( 4294967296  ) u64 rootA
    `tab	here`, // @lengthOf(
@calculatedFrom( ""\n""
    )char[]	pack
    @lengthOf( chars) `" ++ [28040; 24687; 31867; 22411]%N ++ runes_of_ascii "` ,zchar[ 255 ]Foo @lengthOf( f32a ) , @leftPad
(	) @lengthOf( string_ )
@rightPad(
' '
    )
    match
msg_type
as // " ++ [128512]%N ++ runes_of_ascii " emoji
falsey  {
    // a // b
    ""a	b"" :
x ,} , @calculatedFrom( ""{,}"" )
match
body as MetaDataX {42 // " ++ [27880; 37322]%N ++ runes_of_ascii "
: u8x 0123456789
: options1 , // c
[ 3 ]: As , [ 00 ] :// c
A ,
""CRC32""
: zchar , [	""it's"" ,
""" ++ [233]%N ++ runes_of_ascii "t" ++ [233]%N ++ runes_of_ascii """  ,	""1"", 3, ""a	b""
    , 1
    //x
    ,  0123456789, //	t
4294967296
] :
    packetx
    , // " ++ [27880; 37322]%N ++ runes_of_ascii "
}, repeat uint8 o`{ , }`
    ,
//	t
//
} packet leftPad {
u32
// packet A { u8 x, }
//x
packetx
`a\` ,@calculatedFrom( ""// no comment""	) @rightPad ( ) @lengthOf(
    asx
    )
// c
// trailing space 
char[ 42
    ] calculatedFrom @lengthOf( packetx ), @tag(
    00
)stringy  msg_type , u128 i64_ `it's` ,@rightPad
    ('\x00') u8x
, @calculatedFrom( """ ++ [28040; 24687]%N ++ runes_of_ascii """
) len msg_type , // packet A { u8 x, }
MetaDataX pack
    // c
    ,@calculatedFrom( """ ++ [28040; 24687]%N ++ runes_of_ascii """ ) string MetaDataX//	t
`
` , }
")).
Eval vm_compute in ("<<<M3742>>>" ++ check (runes_of_ascii "// " ++ [27880; 37322]%N ++ runes_of_ascii "
packet a1 {
    @calculatedFrom(""" ++ [233]%N ++ runes_of_ascii "t" ++ [233]%N ++ runes_of_ascii """)
    Logon {
        options1 falsey `// not a comment`,
        Z9_ @calculatedFrom(""packet""),
        int8 Packet `two words`,
    },
    @tag(007)
    char[] chars @lengthOf(Packet) `crlf
    line`,
    match msg_type as Header {
        """ ++ [28040; 24687]%N ++ runes_of_ascii """ : _x,
        //x
    },
    repeat u128 {
        Logon @calculatedFrom(""it's"") `{ , }`,
    },
    int64 calculatedFrom,
    repeat zchar[0] a1 `say ""hi""`,
    match options1 as repeatCount {
        [
            ""1"", ""`tick`"", 10, ""\" ++ [233]%N ++ runes_of_ascii """, 0123456789,
            ""a\""b""
        ] : pack,
        // @lengthOf(
        0123456789 : Logon,
        255 : x,
    },
    @calculatedFrom(""abc"")
    @lengthOf(x)
    repeat Pad {
        u8x {
            uint8 T @lengthOf(float),
            match Header as trueish {
                ""a	b"" : body,
            },
            int8 MetaDataX @calculatedFrom(""a	b""),
            i8i8 Pad `" ++ [28040; 24687; 31867; 22411]%N ++ runes_of_ascii "`,
        },
        repeat i8 A,// trailing space 
    },
    uint32 x @lengthOf(Logon) `two words`,
}

packet trueish {
}

MetaData msg_type {
}

packet i8i8 {
    @tag(007)
    //x
    zchar[10] msg_type,
}")).
Eval vm_compute in ("<<<M3633>>>" ++ check (runes_of_ascii "// top
options // c0
{
    // c1
LittleEndian // c2a
  // c2b
=
    // c3
true // c4a
  // c4b
; // c5a
  // c5b
StringPrefixLenType = u16 // c8a
  // c8b
; // c9
ArrayPrefixLenType // c10a
  // c10b
= u64 ; } // c14
packet // c15
Fill { // c17
} // c18
packet Logon
    // c20
{
    // c21
repeat
    // c22
char[ // c23
3 // c24a
  // c24b
] // c25a
  // c25b
Tail
    // c26
,
    // c27
zchar[ // c28
6
    // c29
] // c30a
  // c30b
venue // c31
,
    // c32
repeat // c33a
  // c33b
string Side2 // c35a
  // c35b
,
    // c36
} // c37a
  // c37b
root packet Cancel
    // c40
{ // c41
char[] Flags // c43a
  // c43b
, char[] // c45
OrderId ,
    // c47
zchar[ 6
    // c49
]
    // c50
msgKind // c51a
  // c51b
,
    // c52
Fill // c53a
  // c53b
, char[] // c55a
  // c55b
Acct , u8 f1
    // c59
, match f1
    // c62
as Body // c64
{ // c65a
  // c65b
188
    // c66
:
    // c67
Fill // c68
,
    // c69
5 // c70a
  // c70b
:
    // c71
Logon , // c73a
  // c73b
}
    // c74
, // c75
u32 clOrdID // c77
@calculatedFrom(
    // c78
""CRC32"" ) , } // c82
")).
Eval vm_compute in ("<<<M1258>>>" ++ check (runes_of_ascii "options { lengthOf
    =
""" ++ [128512]%N ++ runes_of_ascii """  Pad= ""it's""
    Packet
=' '
;} packet
stringy {@calculatedFrom( ""a\\"" ) stringy asx
    //x
    `doc` , f32a  , options1 { f64 BodyLength @lengthOf(i64_ )  , matchKey
    // `tick` ""quote"" 'q'
    roots,  repeat i8 chars ,
    /// triple
    } ,
charz
    string_ ,
    i8  repeatCount `crlf
line`
, }
    packet uint8x
    {@tag( 00 // " ++ [128512]%N ++ runes_of_ascii " emoji
)
uint64	MetaDataX  ,@tag( 00
) char uint8x @lengthOf(
    uint8x
    ) , roots @lengthOf( stringy  ) `
`
, @rightPad ()
    zchar[ 0123456789
    //
    ] T//x
`" ++ [233]%N ++ runes_of_ascii "`	, @tag(42
) repeat i64
    repeatCount // `tick` ""quote"" 'q'
, falsey `doc` , char[65535]
falsey
`say ""hi""` , x_y_z
    int, @lengthOf(  MetaDataX
) match
    Logon
as
    leftPad {""abc""	:
zchar , 255
: A	,},  }  MetaData falsey{
    }
    packet BodyLength
{ Pad asx , @calculatedFrom(
""a	b""// " ++ [27880; 37322]%N ++ runes_of_ascii "
) string packetx
//
// packet A { u8 x, }
`it's`, float64 uint8x
`two words`
    ,
    zchar[ 007
]	uint8x @calculatedFrom(
    ""a\\"" //x
)
    `" ++ [28040; 24687; 31867; 22411]%N ++ runes_of_ascii "` ,}")).
Eval vm_compute in ("<<<M4127>>>" ++ check (runes_of_ascii "// packet A { u8 x, }
packet packetx {
    @tag(7)
    f64 o @calculatedFrom(""" ++ [233]%N ++ runes_of_ascii "t" ++ [233]%N ++ runes_of_ascii """),
    repeat MetaDataX {
        i8 Logon,
    },
    char[7] string_,
    repeat o {
        u16 Foo,
        repeat i16 packetx,
        match matchKey as As {
            ""packet"" : roots,
            42 : falsey,
            0123456789 : matchKey,
            ""\" ++ [233]%N ++ runes_of_ascii """ : zchar,
            """ ++ [233]%N ++ runes_of_ascii "t" ++ [233]%N ++ runes_of_ascii """ : stringy,
            [65535] : rootA,
        },
        repeat char[] lengthOf,
    },
    match x as falsey {
        ""1"" : Packet,
        1 : u,
        0 : charz,
        [""1""] : pack,
        ""a\""b"" : options1,
    },
    @tag(0)
    // trailing space 
    // " ++ [128512]%N ++ runes_of_ascii " emoji
    repeat int16 matchKey,
    uint16 rootA ``,// c
    match string_ as A {
        [3, """ ++ [28040; 24687]%N ++ runes_of_ascii """] : zchar,
    },
}

packet f32a {
}

MetaData falsey {
    char[] Header,
    metadata Pad `two words`,
    zchar[10] calculatedFrom,
    char[] lengthOf,
    float32 u `line1
        line2`,
}")).
Eval vm_compute in ("<<<M261>>>" ++ check (runes_of_ascii "root packet pack { match MetaDataX as Packet { 7: trueish , /// triple
""" ++ [233]%N ++ runes_of_ascii "t" ++ [233]%N ++ runes_of_ascii """: MetaDataX
,4294967296
:msg_type  65535 : metadata ,3: x_y_z 42 :
//
/// triple
_x// trailing space 
,}	, } packet x_y_z
    {repeat crc	metadata,match A as u8x  { [""it's"" ,""\" ++ [233]%N ++ runes_of_ascii """ ,
0123456789  , ""1"" ,""abc""
,""// no comment"", 4294967296 ]
: pack ,007 : tag , } , } packet
// c
//x
repeatCount  { @lengthOf(stringy )
uint8 f32a , }options
{
BodyLength
    =  '\x00' ; body
    = ' ' ; } packet
    charz { repeat Z9_ rootA `two words` , //
@calculatedFrom( ""a\\""  ) f32a @lengthOf( msg_type
    )	`say ""hi""` ,int8 As , string	stringy
@lengthOf(options1 )
`crlf
line`,	i8 i8i8
, f32a options1,
@leftPad(
    '\x00' )
u
    @calculatedFrom( """ ++ [128512]%N ++ runes_of_ascii """
) ,
@calculatedFrom(
""\" ++ [233]%N ++ runes_of_ascii """ ) @tag(  00 ) @tag(
0)
int64 trueish@calculatedFrom(""`tick`"" // trailing space 
)
, @leftPad (
' ' )
    zchar@lengthOf( Z9_ )
,} // " ++ [27880; 37322]%N)).
Eval vm_compute in ("<<<M1266>>>" ++ check (runes_of_ascii "MetaData
    //	t
    i8i8  {
    u8 string_ `crlf
line` ,} root // trailing space 
packet MetaDataX
{ @rightPad
    //
    ( ' '
)char[] MetaDataX
@lengthOf(
packetx	) ,//	t
} packet packetx	{ @lengthOf(
uint8x )//
trueish`doc`	,
@calculatedFrom(
    ""a\""b""
)
    @rightPad
    (' '
) @calculatedFrom(  ""a\\""
) repeat zchar[7/// triple
]asx	, @tag( 1
) char[3 ] string_
    , string_
@lengthOf(
Logon// a // b
) ,	@rightPad ( // " ++ [128512]%N ++ runes_of_ascii " emoji
'\x00' )@leftPad
//x
// " ++ [128512]%N ++ runes_of_ascii " emoji
(
    // " ++ [128512]%N ++ runes_of_ascii " emoji
    '0' )	repeat
As
    // packet A { u8 x, }
    { trueish { leftPad{i64 crc
,
u8 zchar @lengthOf(
    f32a
)
    // packet A { u8 x, }
    ,
tag @lengthOf( Z9_ )	`// not a comment` , Z9_  _x , }
,// packet A { u8 x, }
char[ 00] Foo `a\` , }	,} , @tag( 7 // packet A { u8 x, }
) char[
    4294967296 ] u128	, }
// packet A { u8 x, }
")).
Eval vm_compute in ("<<<M4027>>>" ++ check (runes_of_ascii "packet roots {
}

root packet metadata {
    repeat float32 int,
    _x @lengthOf(packetx) `
    `,
    repeat Packet Header,
    @tag(0)
    /// triple
    float32 msg_type @calculatedFrom(""\" ++ [233]%N ++ runes_of_ascii """),
    char[0] BodyLength,
    len @calculatedFrom(""" ++ [28040; 24687]%N ++ runes_of_ascii """) `tab	here`,
}

root packet calculatedFrom {
    @rightPad(' ')
    tag @calculatedFrom(""// no comment""),
    crc @calculatedFrom(""\" ++ [233]%N ++ runes_of_ascii """),
    @lengthOf(u128)
    @lengthOf(chars)
    repeat lengthOf `tab	here`,
    @tag(007)
    char[] roots,
    @calculatedFrom(""" ++ [233]%N ++ runes_of_ascii "t" ++ [233]%N ++ runes_of_ascii """)
    repeat zchar[0] chars `crlf
    line`,// `tick` ""quote"" 'q'
    @calculatedFrom(""a\\"")
    options1,
    // " ++ [27880; 37322]%N ++ runes_of_ascii "
    @rightPad()
    Z9_ {
        float32 x_y_z @lengthOf(asx),
        repeat float32 asx,
        f32 zchar `" ++ [28040; 24687; 31867; 22411]%N ++ runes_of_ascii "`,
        char[007] Packet `a\`,
    },
}")).
Eval vm_compute in ("<<<M1305>>>" ++ check (runes_of_ascii "MetaData Packet{	x_y_z // " ++ [27880; 37322]%N ++ runes_of_ascii "
lengthOf`tab	here` ,
rootA  u128 `" ++ [28040; 24687; 31867; 22411]%N ++ runes_of_ascii "`, char[ 10 ]	u8x `say ""hi""`, zchar[ 7 ]	i64_ , } packet charz{ @tag( 0 ) match
    // `tick` ""quote"" 'q'
    float as // " ++ [128512]%N ++ runes_of_ascii " emoji
T{//	t
""packet"" : i8i8, ""CRC32"" : string_ 65535:
pack	, // @lengthOf(
} , i32
    matchKey @calculatedFrom( ""a\""b"") // `tick` ""quote"" 'q'
, @tag(
65535)repeat int {
match// `tick` ""quote"" 'q'
u8x as zchar{ ""\" ++ [233]%N ++ runes_of_ascii """ :BodyLength} , }, uint16 roots
    , @rightPad	(
' ' )int8 i64_ @calculatedFrom( ""it's"" ) , @tag( 255 )
repeat rootA {repeat string
Z9_
, lengthOf roots `" ++ [233]%N ++ runes_of_ascii "`,zchar @calculatedFrom(""x y""  )	`{ , }`
    , } ,
    @tag(
0 ) calculatedFrom
Logon , } packet leftPad { uint64 A
, match  pack as	u
    { ""`tick`"" :
f32a""1"" :	i8i8  ""\" ++ [233]%N ++ runes_of_ascii """: A ,} , }")).
Eval vm_compute in ("<<<M4072>>>" ++ check (runes_of_ascii "
packet Packet
    { } 
root
	packet

    pack { 
@calculatedFrom(	""CRC32"" ) 
string	pack

    `two words` 
// " ++ [128512]%N ++ runes_of_ascii " emoji
  ,
    @lengthOf( Pad ) @lengthOf(

rootA)

i16  A
    `doc`, }
	options
{asx  = 00  ;	string_ =

7  ;
x_y_z  =0123456789;

}packet uint8x

    { int32 trueish  @lengthOf(

roots
) `say ""hi""` ,
    @tag(

    1)

    @lengthOf(a1

)	match	f32a as 
MetaDataX
{ 

/// triple
// trailing space 
	7 
:pack

65535:
//
  // `tick` ""quote"" 'q'
    calculatedFrom 
    // a // b

// " ++ [27880; 37322]%N ++ runes_of_ascii "

  ,	[	3 
, ""// no comment"" , 1 
,
    /// triple
	/// triple

  0123456789
    ]	: 
	// c
      Z9_
,	4294967296
	: 
a1  ,007
	:
int """ ++ [128512]%N ++ runes_of_ascii """  : o 
,  } 
,
repeat calculatedFrom

a1 
`crlf
line`
	,
}")).
Eval vm_compute in ("<<<M274>>>" ++ check (runes_of_ascii "packet  int  { @calculatedFrom( """ ++ [28040; 24687]%N ++ runes_of_ascii """  )
@tag(
    // `tick` ""quote"" 'q'
    007
    ) options1 @calculatedFrom( ""CRC32"" ) `tab	here`
, @lengthOf(
As )
    x x_y_z , repeat x
{ i64 Z9_,
zchar[
    // c
    007 ] body
//	t
// a // b
@lengthOf( uint8x
    )
    // c
    , f64  metadata @calculatedFrom( ""`tick`""	)
    `tab	here`, }	, } packet msg_type {
    repeat
// trailing space 
// c
zchar[255 ]A, int64 f32a ,// " ++ [128512]%N ++ runes_of_ascii " emoji
Pad
@lengthOf( falsey
)
,
match
    falsey
as
x_y_z {
7: // `tick` ""quote"" 'q'
len
,}
/// triple
// c
, string // " ++ [27880; 37322]%N ++ runes_of_ascii "
uint8x
    `a\`,string rootA
//x
// a // b
@lengthOf( int	) ,	}	root
/// triple
// `tick` ""quote"" 'q'
packet pack { crc i64_ , }
")).
Eval vm_compute in ("<<<M3795>>>" ++ check (runes_of_ascii "root packet stringy {
    u8x @lengthOf(A),
    match f32a as options1 {
        [""a\""b"", 0123456789] : trueish,
        [
            ""a\\"", 3, 65535, 255, """ ++ [233]%N ++ runes_of_ascii "t" ++ [233]%N ++ runes_of_ascii """,
            65535, ""\" ++ [233]%N ++ runes_of_ascii """
        ] : body,
    },
    @calculatedFrom(""" ++ [128512]%N ++ runes_of_ascii """)
    repeat uint16 int,
    repeat tag,
    @leftPad()
    match int as u8x {
        [65535, """ ++ [233]%N ++ runes_of_ascii "t" ++ [233]%N ++ runes_of_ascii """] : metadata,
    },
    @rightPad()
    repeat zchar[7] Logon `crlf
    line`,
    As {
        int64 roots,
    },// packet A { u8 x, }
    @tag(255)
    int64 charz @calculatedFrom(""a	b""),
    BodyLength lengthOf,
    float64 As,
}

packet Foo {
    char[4294967296] float `u8 x,`,
}

packet _x {
}")).
Eval vm_compute in ("<<<M4552>>>" ++ check (runes_of_ascii "
packet packetx {  @calculatedFrom(  ""packet"" ) 
// " ++ [27880; 37322]%N ++ runes_of_ascii "
	@calculatedFrom(  ""// no comment""	)

    @leftPad /// triple
(
'0'

) 	 //	t
    Z9_
T, 
leftPad
uint8x,

@tag( 4294967296
        //

)
leftPad//
    {roots

{char	options1  , 
}  ,
match
	Pad

    as
int  {	[
    10	] :roots  //	t
,[
	""CRC32""

,
    ""1"", 3

    ,

7	, 	 // " ++ [27880; 37322]%N ++ runes_of_ascii "
0
,	0	, 
/// triple
    	""CRC32""
,
7  
  // `tick` ""quote"" 'q'
    // a // b
    ]

:  Packet

,  1
	:

tag  ,1:
    matchKey
[
42]
	:
_x	} , 
repeat
tag 
  // packet A { u8 x, }
  	// " ++ [128512]%N ++ runes_of_ascii " emoji
  	{
metadata 
`" ++ [233]%N ++ runes_of_ascii "` ,  }, 	 //	t
u
    `a\`,
	}
	,

    }
")).
Eval vm_compute in ("<<<M221>>>" ++ check (runes_of_ascii "packet
matchKey { match Header as chars
{ [ """ ++ [233]%N ++ runes_of_ascii "t" ++ [233]%N ++ runes_of_ascii """ ,0 ]	: body
,
    [
    42,10 ]
    :msg_type
,
""" ++ [128512]%N ++ runes_of_ascii """
: options1 ,7 :
    roots ""\n"" :
    // c
    packetx,	} ,
    zchar[
0 ]
A
@lengthOf(  int )
, char[] Header `
` ,// trailing space 
repeat
    float { repeat
o
    , // `tick` ""quote"" 'q'
repeat
int32 x_y_z `
` , }	,@tag( 0 ) u64 string_ @calculatedFrom(""`tick`"" ) // " ++ [27880; 37322]%N ++ runes_of_ascii "
`two words` , calculatedFrom // " ++ [27880; 37322]%N ++ runes_of_ascii "
{ matchKey
//
// packet A { u8 x, }
, // packet A { u8 x, }
rootA
, } ,
}
    options // " ++ [128512]%N ++ runes_of_ascii " emoji
{ chars =	"""" //
;
    As = true	; Foo =
7	; lengthOf =  ""a\\"" }

")).
Eval vm_compute in ("<<<M1148>>>" ++ check (runes_of_ascii "// packet A { u8 x, }
packet
    Foo { }
    packet i64_ {asx @lengthOf( a1 )`two words` , repeat
i64_ {char[]u `crlf
line`,char[
    10
    // @lengthOf(
    ] metadata,
    //
    a1  {
    repeat zchar[
    1
    ] len , char[ 00 // packet A { u8 x, }
]Z9_@calculatedFrom( ""a\\"" ) // " ++ [27880; 37322]%N ++ runes_of_ascii "
,	zchar[ 7 ] Header
    @lengthOf(	x ) , repeat//
pack,// @lengthOf(
}  , // trailing space 
}
    //x
    ,  match tag as u8x { ""{,}""
    : zchar ,  1
: metadata , """ ++ [233]%N ++ runes_of_ascii "t" ++ [233]%N ++ runes_of_ascii """
    :
a1 """ ++ [233]%N ++ runes_of_ascii "t" ++ [233]%N ++ runes_of_ascii """ : chars //
,[ ""a\\""]  :crc	} ,
    tag@calculatedFrom( """ ++ [128512]%N ++ runes_of_ascii """) , }
//
")).
Eval vm_compute in ("<<<M157>>>" ++ check (runes_of_ascii "root
packet o { @leftPad (
    '0'  )repeat uint16 o // `tick` ""quote"" 'q'
,// `tick` ""quote"" 'q'
@tag( 1
    // `tick` ""quote"" 'q'
    )
//x
// " ++ [128512]%N ++ runes_of_ascii " emoji
@tag( 65535 ) u32 options1 ,@lengthOf( i8i8) @lengthOf(int ) @leftPad// " ++ [27880; 37322]%N ++ runes_of_ascii "
() char[  42 ] len @calculatedFrom( ""packet"" ) ,
    u32 Foo @calculatedFrom( ""a\\"") ,
    } packet a1 {@lengthOf(
    A /// triple
)	Foo MetaDataX `it's`, Z9_ metadata
    //
    `" ++ [28040; 24687; 31867; 22411]%N ++ runes_of_ascii "` ,
match MetaDataX
    as falsey { [ 42
    ]
    :body // " ++ [128512]%N ++ runes_of_ascii " emoji
[""packet""	, 4294967296]
    :  A} , Z9_ ,}")).
Eval vm_compute in ("<<<M648>>>" ++ check (runes_of_ascii "MetaData i8i8 { char[0123456789
    ]
    body `doc`, // c
} packet uint8x{pack { char u `crlf
line`
, float , zchar[ 007] //	t
A ,} , char[]
    /// triple
    calculatedFrom `
` , char[
    42 ] matchKey @calculatedFrom(
//
// " ++ [27880; 37322]%N ++ runes_of_ascii "
""a\\"")`` , }  root  packet int { @rightPad (
'0'// packet A { u8 x, }
) Pad  { match zchar as asx {
    [""a	b"" , 42 ] :Logon//
} ,
Packet
    {
    zchar[ 4294967296 ]
    A ,}
//	t
//
, match x as float {  ""x y""	: o
    // a // b
    ,
    1	: calculatedFrom}, } ,}
//
")).
Eval vm_compute in ("<<<M754>>>" ++ check (runes_of_ascii "packet falsey	{ }packet
i64_ {i64
metadata @lengthOf(
    len ) , repeat i16// a // b
float , } packet Pad
{ @lengthOf( Logon
)Packet { string matchKey , zchar[65535] metadata , string
metadata `" ++ [28040; 24687; 31867; 22411]%N ++ runes_of_ascii "` ,repeat char[ 0123456789 ]
    rootA ,
    }, @tag(
4294967296 ) repeat
    a1
    // `tick` ""quote"" 'q'
    float`// not a comment`	,repeat char[//	t
3
]	As`{ , }`
    ,
@calculatedFrom(
    ""packet"" ) match T	as packetx{ ""a\\"" : Packet
,
    // a // b
    } /// triple
,
    }")).
Eval vm_compute in ("<<<M246>>>" ++ check (runes_of_ascii "packet // c
Z9_ {
As
    x
, @rightPad ( ' ') @lengthOf( Header) @rightPad(  ' '
)match u as  string_{ ""a	b""
    : Pad
    // trailing space 
    ,1: T , [ """" , 255, ""abc""
, 7
    //	t
    ] :
BodyLength ,  },match falsey
as  metadata{ 42: float ,
    // `tick` ""quote"" 'q'
    } , match lengthOf
as As {1
:
As, [	"""" ,	""a\\"" ,
""{,}"" , ""it's"" ,
    //
    42,""a\\"" , 0 // trailing space 
, 3  ]  : f32a, } , // packet A { u8 x, }
repeat float64 roots ,	}
")).
Eval vm_compute in ("<<<M4135>>>" ++ check (runes_of_ascii "MetaData metadata {
}

packet u {
    //
    @lengthOf(T)
    // packet A { u8 x, }
    @lengthOf(u)
    /// triple
    @leftPad('0')
    repeat uint8 x_y_z `" ++ [28040; 24687; 31867; 22411]%N ++ runes_of_ascii "`,
}

root packet A {
    @tag(10)
    repeat zchar[0] asx `doc`,
    char[7] float @lengthOf(BodyLength) `crlf
        line`,
    zchar[0123456789] u128,
    @rightPad()
    repeat zchar[255] Packet ``,
    BodyLength Pad,
    @tag(1)
    zchar[10] float @lengthOf(roots),
}")).
Eval vm_compute in ("<<<M173>>>" ++ check (runes_of_ascii "MetaData T  {
char[] metadata ,
    // `tick` ""quote"" 'q'
    i8
Header
    //	t
    ,
u128 chars `a\` , char[
    42
] calculatedFrom
, } // packet A { u8 x, }
packet stringy {
    @rightPad( // c
)
    //	t
    string trueish
`two words`, } MetaData metadata{ zchar[//
007]x_y_z
, zchar[ 10 ] u	`// not a comment`
    , string u8x, char[]repeatCount// " ++ [128512]%N ++ runes_of_ascii " emoji
, zchar Pad ,u32 f32a
    `doc`
, } // `tick` ""quote"" 'q'")).
Eval vm_compute in ("<<<M438>>>" ++ check (runes_of_ascii "packet Packet {
@calculatedFrom( ""a	b"" ) int16 int
    @lengthOf(
// @lengthOf(
// packet A { u8 x, }
rootA ) ,Foo{ repeat string int
    // `tick` ""quote"" 'q'
    ,
    rootA packetx
    ,match
    uint8x as Pad{ 1	:
    // packet A { u8 x, }
    Foo , 3	:
chars , 255
:
//
// `tick` ""quote"" 'q'
charz ""x y""
: lengthOf , [
    4294967296 ,	""" ++ [233]%N ++ runes_of_ascii "t" ++ [233]%N ++ runes_of_ascii """//x
] : crc } //x
,	} //	t
,
    string
msg_type , }

")).
Eval vm_compute in ("<<<M3693>>>" ++ check (runes_of_ascii "root packet x {
    @calculatedFrom(""a\\"")
    zchar[42] float @calculatedFrom(""a\""b"") `
    `,
}

MetaData o {
    int8 BodyLength,
    string len,
    string len,
    float falsey,
    T float,
}

MetaData pack {
    /// triple
    charz o `// not a comment`,
    float64 f32a `tab	here`,
    int32 u8x `// not a comment`,
    char[10] a1,
    float32 options1,
}// `tick` ""quote"" 'q'")).
Eval vm_compute in ("<<<M1269>>>" ++ check (runes_of_ascii "packet BodyLength
{ @tag( 255 ) match tag as
//	t
// " ++ [128512]%N ++ runes_of_ascii " emoji
x_y_z  {	7:Pad , ""a\""b"" :
matchKey	, [ // `tick` ""quote"" 'q'
42 , ""`tick`"" ,
    //
    ""// no comment""	, """"
    // " ++ [128512]%N ++ runes_of_ascii " emoji
    ,  1
,
"""" , 7 , """"
    // `tick` ""quote"" 'q'
    ]:
stringy
    , } , f64 repeatCount `a\`, }
    // c
    packet zchar// `tick` ""quote"" 'q'
{	i8 _x `tab	here`	, } MetaData x { }
")).
Eval vm_compute in ("<<<M1311>>>" ++ check (runes_of_ascii "root packet Header {
    @lengthOf( stringy ) calculatedFrom @lengthOf(  chars  ) , char[ 255
    ]
    // `tick` ""quote"" 'q'
    metadata``	, u8 MetaDataX `crlf
line`
,} options
{ } options
{uint8x = 42 ; T
    = i32;
    calculatedFrom // `tick` ""quote"" 'q'
=
""// no comment""	;
    u8x =
0
    }
    root packet roots {repeat i64 falsey //x
,
}")).
Eval vm_compute in ("<<<M1131>>>" ++ check (runes_of_ascii "packet
int // a // b
{  match pack as charz {10  :// a // b
i8i8,// @lengthOf(
10 : MetaDataX , [ 42 ]:options1 , } , repeat uint16 zchar , char[007
    ] asx ,
@lengthOf(// " ++ [27880; 37322]%N ++ runes_of_ascii "
As
)  @calculatedFrom( ""1"" )
    lengthOf  @lengthOf(
BodyLength
    )`tab	here`
,char[]T `// not a comment` ,// packet A { u8 x, }
@leftPad(
) packetx , }")).
Eval vm_compute in ("<<<M65>>>" ++ check (runes_of_ascii "  options	{ string_
=true; } options
{ T
= false}
packet
u8x { @lengthOf( int
    //
    )
zchar[ 255 ] BodyLength , } // trailing space 
root
packet
    f32a  { }packet roots
{ Foo
    , repeat char[ 007 ] Pad
,repeat  int8
packetx
    ,
    match Z9_ as T	{
00 :A , ""a\""b"" :
    falsey  , //
""CRC32""
:a1
,
    }	, }
")).
Eval vm_compute in ("<<<M1993>>>" ++ check (runes_of_ascii "MetaData
    u { }  options {
// c
// @lengthOf(
float = int8 ;rootA =false ; As =	int16 // `tick` ""quote"" 'q'
repeatCount
    // trailing space 
    =
    int16
; u8x =
    //	t
    '\x00' ; } options	false
    repeatCount
= 0
u128
    //
    = false ; i64_
// trailing space 
// `tick` ""quote"" 'q'
= '0' ; //	t
}
")).
Eval vm_compute in ("<<<M2001>>>" ++ check (runes_of_ascii "MetaData
    u { }  options {
// c
// @lengthOf(
float = int8 ;rootA =false ; As =	int16 // `tick` ""quote"" 'q'
repeatCount
    // trailing space 
    =
    int16
; u8x =
    //	t
    '\x00' ; } options	{
    repeatCount
= = 0
u128
    //
    = false ; i64_
// trailing space 
// `tick` ""quote"" 'q'
= '0' ; //	t
}
")).
Eval vm_compute in ("<<<M957>>>" ++ check (runes_of_ascii "packet body {
@rightPad
    ( ' ' )
    msg_type{match u as zchar
{
""""// c
:metadata
, } ,As @calculatedFrom( ""CRC32""
// " ++ [128512]%N ++ runes_of_ascii " emoji
// " ++ [27880; 37322]%N ++ runes_of_ascii "
) ,
//x
// @lengthOf(
}
, repeat u16 tag
,
    repeat MetaDataX ,
} packet Foo {
@rightPad() @leftPad( ' '  ) @calculatedFrom( ""\" ++ [233]%N ++ runes_of_ascii """
    ) i8 i64_ ,
    repeat uint16 float ,  }")).
Eval vm_compute in ("<<<M1992>>>" ++ check (runes_of_ascii "MetaData
    u { }  options {
// c
// @lengthOf(
float = int8 ;rootA =false ; As =	int16 // `tick` ""quote"" 'q'
repeatCount
    // trailing space 
    =
    int16
; u8x =
    //	t
    '\x00' ; } options	repeatCount
    {
= 0
u128
    //
    = false ; i64_
// trailing space 
// `tick` ""quote"" 'q'
= '0' ; //	t
}
")).
Eval vm_compute in ("<<<M1988>>>" ++ check (runes_of_ascii "MetaData
    u { }  options {
// c
// @lengthOf(
float = int8 ;rootA =false ; As =	int16 // `tick` ""quote"" 'q'
repeatCount
    // trailing space 
    =
    int16
; u8x =
    //	t
    '\x00' ; } zchar[	{
    repeatCount
= 0
u128
    //
    = false ; i64_
// trailing space 
// `tick` ""quote"" 'q'
= '0' ; //	t
}
")).
Eval vm_compute in ("<<<M2020>>>" ++ check (runes_of_ascii "MetaData
    u { }  options {
// c
// @lengthOf(
float = int8 ;rootA =false ; As =	int16 // `tick` ""quote"" 'q'
repeatCount
    // trailing space 
    =
    int16
; u8x =
    //	t
    '\x00' ; } options	{
    repeatCount
= 0
u128
    //
    =  ; i64_
// trailing space 
// `tick` ""quote"" 'q'
= '0' ; //	t
}
")).
Eval vm_compute in ("<<<M40>>>" ++ check (runes_of_ascii "packet// " ++ [128512]%N ++ runes_of_ascii " emoji
charz
    {
repeat options1 {char x_y_z
/// triple
//x
, T	{ string_ @calculatedFrom(""1"") , } ,
f64
    crc ,
u64 A
// trailing space 
/// triple
@calculatedFrom(""CRC32""	), } ,} MetaData MetaDataX //	t
{
}
root packet
u128{ string_  {
    repeat pack {
As matchKey , } ,} ,
}
")).
Eval vm_compute in ("<<<M445>>>" ++ check (runes_of_ascii "packet  calculatedFrom { @calculatedFrom( ""a	b"" ) T // packet A { u8 x, }
{ zchar[ 0123456789 ]
    falsey `say ""hi""`
, match o as
    // " ++ [27880; 37322]%N ++ runes_of_ascii "
    matchKey {
    [ ""`tick`""	,
    //
    ""it's""
] :int , 1 :	float // a // b
, } ,string Foo @calculatedFrom( ""a\\""), // `tick` ""quote"" 'q'
} ,	}
")).
Eval vm_compute in ("<<<M4373>>>" ++ check (runes_of_ascii "options {
    Foo = true;
}

packet u128 {
    @calculatedFrom(""x y"")
    lengthOf @lengthOf(msg_type) `tab	here`,
    asx x,
    zchar[10] i64_,
    repeat body,
    char[255] asx @calculatedFrom(""" ++ [128512]%N ++ runes_of_ascii """) `crlf
    line`,
    u128 string_,
    int {
        zchar[7] _x,
    },
}")).
Eval vm_compute in ("<<<M72>>>" ++ check (runes_of_ascii "MetaData len //	t
{ f64 calculatedFrom , x_y_z	x
,} packet repeatCount { @lengthOf(pack ) match
x_y_z as o // " ++ [27880; 37322]%N ++ runes_of_ascii "
{ 7:
Header
// `tick` ""quote"" 'q'
// a // b
} , } options { lengthOf  = true; }
packet  leftPad
    {
    MetaDataX @lengthOf( T ) `two words` ,
    }")).
Eval vm_compute in ("<<<M3604>>>" ++ check (runes_of_ascii "packet P1 {
    u8 a,
}
packet P2 {
    P1,
}
packet P3 {
    P2,
    P1,
}
packet P4 {
    repeat P3,
    P2,
}
root packet P5 {
    P4,
    P3,
    P1,
    u8 K,
    match K as Body {
        4 : P4,
        3 : P3,
        2 : P2,
        1 : P1,
    },
}
")).
Eval vm_compute in ("<<<M1493>>>" ++ check (runes_of_ascii "packet
//	t
// trailing space 
_x _x {
// packet A { u8 x, }
// c
char[
3
    ] u8x @lengthOf(
u8x ) , @calculatedFrom(""" ++ [128512]%N ++ runes_of_ascii """ // @lengthOf(
)
i16	Foo
@lengthOf(	string_
    )`doc`	, repeat	i64 metadata , @lengthOf( string_
) i8 // c
u  `line1
line2`	,
}
")).
Eval vm_compute in ("<<<M1505>>>" ++ check (runes_of_ascii "packet
//	t
// trailing space 
_x {
// packet A { u8 x, }
// c
uint16
3
    ] u8x @lengthOf(
u8x ) , @calculatedFrom(""" ++ [128512]%N ++ runes_of_ascii """ // @lengthOf(
)
i16	Foo
@lengthOf(	string_
    )`doc`	, repeat	i64 metadata , @lengthOf( string_
) i8 // c
u  `line1
line2`	,
}
")).
Eval vm_compute in ("<<<M1559>>>" ++ check (runes_of_ascii "packet
//	t
// trailing space 
_x {
// packet A { u8 x, }
// c
char[
3
    ] u8x @lengthOf(
u8x ) , @calculatedFrom(""" ++ [128512]%N ++ runes_of_ascii """ // @lengthOf(
)
Foo	i16
@lengthOf(	string_
    )`doc`	, repeat	i64 metadata , @lengthOf( string_
) i8 // c
u  `line1
line2`	,
}
")).
Eval vm_compute in ("<<<M1552>>>" ++ check (runes_of_ascii "packet
//	t
// trailing space 
_x {
// packet A { u8 x, }
// c
char[
3
    ] u8x @lengthOf(
u8x ) , @calculatedFrom(""" ++ [128512]%N ++ runes_of_ascii """ // @lengthOf(

i16	Foo
@lengthOf(	string_
    )`doc`	, repeat	i64 metadata , @lengthOf( string_
) i8 // c
u  `line1
line2`	,
}
")).
Eval vm_compute in ("<<<M1605>>>" ++ check (runes_of_ascii "packet
//	t
// trailing space 
_x {
// packet A { u8 x, }
// c
char[
3
    ] u8x @lengthOf(
u8x ) , @calculatedFrom(""" ++ [128512]%N ++ runes_of_ascii """ // @lengthOf(
)
i16	Foo
@lengthOf(	string_
    )`doc`	, repeat	i64 ' ' , @lengthOf( string_
) i8 // c
u  `line1
line2`	,
}
")).
Eval vm_compute in ("<<<M923>>>" ++ check (runes_of_ascii "packet options1 { @leftPad
    (
    '0' )
repeat char[1 ] // " ++ [27880; 37322]%N ++ runes_of_ascii "
roots  `
` , i32 A`
`, repeat
    char[ 3] stringy // `tick` ""quote"" 'q'
, repeat	f64
    Z9_
`tab	here`, }
    packet T	{
    @tag( 00	)repeat float
`say ""hi""`,} /// triple")).
Eval vm_compute in ("<<<M3933>>>" ++ check (runes_of_ascii "packet metadata {
    @lengthOf(i8i8)
    match BodyLength as Foo {
        3 : len,
    },
    body @lengthOf(roots),
    f32a x,
}

root packet i8i8 {
    zchar[10] i64_ @calculatedFrom(""a\\"") `
        `,
}// packet A { u8 x, }")).
Eval vm_compute in ("<<<M428>>>" ++ check (runes_of_ascii "root	packet  As { zchar[0123456789] MetaDataX ,
    zchar[10 ] falsey
    , @calculatedFrom( """ ++ [128512]%N ++ runes_of_ascii """ )pack ,	A
{repeat u8x tag ,  int64 T @lengthOf( Packet
) ,	x Logon
    //x
    , options1 @calculatedFrom( ""a	b"") , } , } 	 ")).
Eval vm_compute in ("<<<M4124>>>" ++ check (runes_of_ascii "packet _x {
    // packet A { u8 x, }
    // c
    char[3] u8x @lengthOf(u8x),
    @calculatedFrom(""" ++ [128512]%N ++ runes_of_ascii """)
    i16 Foo @lengthOf(string_) `doc`,
    repeat metadata,
    @lengthOf(string_)
    i8 u `line1
    line2`,
}")).
Eval vm_compute in ("<<<M872>>>" ++ check (runes_of_ascii "
options
    // @lengthOf(
    {
    } root packet
    // c
    falsey {}MetaData _x {}
packet
// packet A { u8 x, }
// trailing space 
o
    // " ++ [128512]%N ++ runes_of_ascii " emoji
    {falsey , @tag(3
) // `tick` ""quote"" 'q'
uint8 Foo,}")).
Eval vm_compute in ("<<<M1704>>>" ++ check (runes_of_ascii "options { trueish = ""`tick`"" ; @lengthOf(= """ ++ [233]%N ++ runes_of_ascii "t" ++ [233]%N ++ runes_of_ascii """
    // c
    } root
    packet body { stringy @calculatedFrom(
""a	b"" ) `line1
line2` , }
packet Logon {
    @leftPad(
    ' ' ) //	t
u16 string_ `u8 x,` ,
}
")).
Eval vm_compute in ("<<<M1754>>>" ++ check (runes_of_ascii "options { trueish = ""`tick`"" ; string_= """ ++ [233]%N ++ runes_of_ascii "t" ++ [233]%N ++ runes_of_ascii """
    // c
    } root
    packet body { stringy @calculatedFrom(
char[] ) `line1
line2` , }
packet Logon {
    @leftPad(
    ' ' ) //	t
u16 string_ `u8 x,` ,
}
")).
Eval vm_compute in ("<<<M1753>>>" ++ check (runes_of_ascii "options { trueish = ""`tick`"" ; string_= """ ++ [233]%N ++ runes_of_ascii "t" ++ [233]%N ++ runes_of_ascii """
    // c
    } root
    packet body { stringy @calculatedFrom(
) ""a	b"" `line1
line2` , }
packet Logon {
    @leftPad(
    ' ' ) //	t
u16 string_ `u8 x,` ,
}
")).
Eval vm_compute in ("<<<M1766>>>" ++ check (runes_of_ascii "options { trueish = ""`tick`"" ; string_= """ ++ [233]%N ++ runes_of_ascii "t" ++ [233]%N ++ runes_of_ascii """
    // c
    } root
    packet body { stringy @calculatedFrom(
""a	b"" ) `line1
line2`  }
packet Logon {
    @leftPad(
    ' ' ) //	t
u16 string_ `u8 x,` ,
}
")).
Eval vm_compute in ("<<<M625>>>" ++ check (runes_of_ascii "
root	packet i64_ { roots a1	, @calculatedFrom(""`tick`"" )
i64 //
float `it's` ,@calculatedFrom(
""\n"" ) @calculatedFrom( ""1"" ) @tag(
    10 )	f64
trueish
`" ++ [28040; 24687; 31867; 22411]%N ++ runes_of_ascii "`	, trueish @calculatedFrom( ""\n"" ) ,}")).
Eval vm_compute in ("<<<M1115>>>" ++ check (runes_of_ascii "options { i64_ =
true} root packet // c
repeatCount { u32 Foo //	t
, int8	rootA ,  zchar[
0
]
MetaDataX ,	@calculatedFrom( ""a\""b"" ) char  o, // " ++ [128512]%N ++ runes_of_ascii " emoji
}packet i64_ { } //
packet Foo
{ }
")).
Eval vm_compute in ("<<<M506>>>" ++ check (runes_of_ascii "MetaData metadata { //	t
uint8x pack , a1
f32a , zchar a1 , rootA Header ,
    char[  42
    ]	string_,
    asx charz `crlf
line`
    // @lengthOf(
    , } options /// triple
{
    } 	 ")).
Eval vm_compute in ("<<<M1185>>>" ++ check (runes_of_ascii "  packet zchar { @calculatedFrom( ""// no comment""
)i32
//x
//
x_y_z , }options {int = i8 ; MetaDataX
=
// trailing space 
// c
char[] ; Logon
    =false; roots= 0//
Pad
=
false ;
}")).
Eval vm_compute in ("<<<M4193>>>" ++ check (runes_of_ascii "packet A {
    u8 a,
}

packet B {
    u16 b,
}

root packet P {
    u8 K1,
    u8 K2,
    match K1 as M1 {
        1 : A,
    },
    match K2 as M2 {
        1 : B,
    },
}")).
Eval vm_compute in ("<<<M2083>>>" ++ check (runes_of_ascii "options@calculatedFrom(
_x
= true
} options
{ o	= /// triple
false
    ; chars
= ""\n"" } root packet	Pad
/// triple
// packet A { u8 x, }
{	chars
    // a // b
    ,}")).
Eval vm_compute in ("<<<M4303>>>" ++ check (runes_of_ascii "packet A {
    match k as n {
        [
            ""a"", 22, ""c c"", 4, ""e"",
            66, ""g"", 8, ""i"", 10,
            ""k""
        ] : B,
        2 : C,
    },
}")).
Eval vm_compute in ("<<<M2160>>>" ++ check (runes_of_ascii "options{
_x
= true
} options
{ o	= /// triple
false
    ; chars
= ""\n"" } root packet packet	Pad
/// triple
// packet A { u8 x, }
{	chars
    // a // b
    ,}")).
Eval vm_compute in ("<<<M4499>>>" ++ check (runes_of_ascii "// top
MetaData float {
    // c2
    float64 charz `
    `,// c6
}// c7

root packet chars {
    // c11
    @rightPad('0')
    // c15
    Foo,// c17
}// c18")).
Eval vm_compute in ("<<<M2364>>>" ++ check (runes_of_ascii "// c
packet x { @lengthOf( metadata ) repeat lengthOf
,a1{
trueish	u8// c
repeat//	t
MetaDataX , } , zchar[
    42	] rootA // `tick` ""quote"" 'q'
,
    }
")).
Eval vm_compute in ("<<<M2363>>>" ++ check (runes_of_ascii "// c
packet x { @lengthOf( metadata ) repeat lengthOf
a1,{
trueish	,// c
repeat//	t
MetaDataX , } , zchar[
    42	] rootA // `tick` ""quote"" 'q'
,
    }
")).
Eval vm_compute in ("<<<M2416>>>" ++ check (runes_of_ascii "// c
packet x { @lengthOf( metadata ) repeat lengthOf
,a1
trueish	,// c
repeat//	t
MetaDataX , } , zchar[
    42	] rootA // `tick` ""quote"" 'q'
,
    }
")).
Eval vm_compute in ("<<<M2206>>>" ++ check (runes_of_ascii "options{
x" ++ [178]%N ++ runes_of_ascii "
= true
} options
{ o	= /// triple
false
    ; chars
= ""\n"" } root packet	Pad
/// triple
// packet A { u8 x, }
{	chars
    // a // b
    ,}")).
Eval vm_compute in ("<<<M2084>>>" ++ check (runes_of_ascii "options{

= true
} options
{ o	= /// triple
false
    ; chars
= ""\n"" } root packet	Pad
/// triple
// packet A { u8 x, }
{	chars
    // a // b
    ,}")).
Eval vm_compute in ("<<<M3544>>>" ++ check (runes_of_ascii "packet B

{
	u8
a
, }
    root
	packet
    P {u8
K

    ,u8
L
    @lengthOf( Body
) ,	match
K
as
Body {	1

    :
	B

    ,	}

    ,
}
")).
Eval vm_compute in ("<<<M2411>>>" ++ check (runes_of_ascii "// c
packet x { @lengthOf( metadata ) repeat lengthOf
,a1{
trueish	,// c
repeat//	t
 , } , zchar[
    42	] rootA // `tick` ""quote"" 'q'
,
    }
")).
Eval vm_compute in ("<<<M4257>>>" ++ check (runes_of_ascii "packet  A {
Inner  { match  k 
as
    n

    { [
	1 , 22
,007 ,

4  ,

5
,
66
,	7
,	8

,  9

    , 10,
	11
	,12  ]:B	,} ,
	},

    }
")).
Eval vm_compute in ("<<<M3966>>>" ++ check (runes_of_ascii "packet A {
    match k as n {
        [
            1, ""bb"", 007, ""d"", 5,
            ""f"", 7, ""h""
        ] : B,
        2 : C,
    },
}")).
Eval vm_compute in ("<<<M3858>>>" ++ check (runes_of_ascii "
// top
		root 
// c0
	  packet

// c1

u128 
	    // c2
	{ 
// c3
chars
    // c4
`it's` 
// c5
	,

// c6
    	}
    // c7")).
Eval vm_compute in ("<<<M4184>>>" ++ check (runes_of_ascii "packet rootA {
}

// `tick` ""quote"" 'q'
/// triple
options {
    stringy = 0123456789;
    T = 42;
    string_ = ""a\""b"";
}
//")).
Eval vm_compute in ("<<<M1483>>>" ++ check (runes_of_ascii "
packet
    falsey { Header@calculatedFrom(""packet""  ) @tag , char[
    0123456789 ] packetx
    , } // `tick` ""quote"" 'q'")).
Eval vm_compute in ("<<<M3328>>>" ++ check (runes_of_ascii "root packet matchKey { zchar[ 3 ] pack @calculatedFrom( // c
""a	b"" ) `doc` , } options { } MetaData A { int8 msg_type , }")).
Eval vm_compute in ("<<<M4119>>>" ++ check (runes_of_ascii "

  packet chars {
}
packet
MetaDataX{ @tag(  42 
      // c
    	)

i16
string_ 
,

    repeat
    x  `say ""hi""`
, }")).
Eval vm_compute in ("<<<M1482>>>" ++ check (runes_of_ascii "
packet
    falsey { Header@calculatedFrom(""packet""  ) , char[
    0123456789 ] packetx
  #  , } // `tick` ""quote"" 'q'")).
Eval vm_compute in ("<<<M3814>>>" ++ check (runes_of_ascii "

  packet falsey

{
Header  @calculatedFrom(	""packet""	)
, char[
0123456789 ]  packetx, } // `tick` ""quote"" 'q'#
")).
Eval vm_compute in ("<<<M4190>>>" ++ check (runes_of_ascii "

  packet 
A  {	u16 len  @lengthOf( 
body
	)

`
` ,

u32 
crc @calculatedFrom(""CRC32"" )

`
` 
,  string
body

, }")).
Eval vm_compute in ("<<<M904>>>" ++ check (runes_of_ascii "packet uint8x {
    repeat // c
repeatCount { Packet
@calculatedFrom( ""packet"" ) , } , // packet A { u8 x, }
}")).
Eval vm_compute in ("<<<M2329>>>" ++ check (runes_of_ascii "// c
packet x { @lengthOf( metadata ) repeat lengthOf
,a1{
trueish	,// c
repeat//	t
MetaDataX , } , zchar[")).
Eval vm_compute in ("<<<M3723>>>" ++ check (runes_of_ascii "MetaData float {
    float64 charz `
        `,
}

// c
root packet chars {
    @rightPad('0')
    Foo,
}")).
Eval vm_compute in ("<<<M4238>>>" ++ check (runes_of_ascii "packet chars {
}

packet MetaDataX {
    @tag(42)
    // c
    i16 string_,
    repeat x `say ""hi""`,
}")).
Eval vm_compute in ("<<<M4058>>>" ++ check (runes_of_ascii "

  /// triple
    options { Z9_= 007 ;
    // a // b

  //
Pad
    = 0123456789	u
    =
""CRC32"" 
} ")).
Eval vm_compute in ("<<<M2984>>>" ++ check (runes_of_ascii "packet A {
  match k as n {
    [1, 22, ""c c"", 4, 5, ""f"", 7, 8, ""i"", 10, 11] : B
    2 : C
  },
}")).
Eval vm_compute in ("<<<M2222>>>" ++ check (runes_of_ascii "options
{ } options options { BodyLength= u16 Header= f64 ; u128 =
    true
    ; } // a // b")).
Eval vm_compute in ("<<<M1466>>>" ++ check (runes_of_ascii "
packet
    falsey { Header@calculatedFrom(""packet""  ) , char[
    0123456789 ] packetx
    ")).
Eval vm_compute in ("<<<M2257>>>" ++ check (runes_of_ascii "options
{ } options { BodyLength= u16 Header= f64 f64 ; u128 =
    true
    ; } // a // b")).
Eval vm_compute in ("<<<M3276>>>" ++ check (runes_of_ascii "MetaData float { float64
// c
charz `
` , } root packet chars { @rightPad ( '0' ) Foo , }")).
Eval vm_compute in ("<<<M3487>>>" ++ check (runes_of_ascii "packet chars // c
{ } packet MetaDataX { @tag( 42 ) i16 string_ , repeat x `say ""hi""` , }")).
Eval vm_compute in ("<<<M3775>>>" ++ check (runes_of_ascii "packet A { 
match

k
as

n
{

    [  1
, 22 , ""c c""	, 4  ]

    :
B
	2  :	C	}
,
}

")).
Eval vm_compute in ("<<<M2253>>>" ++ check (runes_of_ascii "options
{ } options { BodyLength= u16 Header f64 = ; u128 =
    true
    ; } // a // b")).
Eval vm_compute in ("<<<M2210>>>" ++ check (runes_of_ascii "{
options } options { BodyLength= u16 Header= f64 ; u128 =
    true
    ; } // a // b")).
Eval vm_compute in ("<<<M3227>>>" ++ check (runes_of_ascii "packet metadata { Logon { A `" ++ [28040; 24687; 31867; 22411]%N ++ runes_of_ascii "` , // c
tag o , } , zchar len `// not a comment` , }")).
Eval vm_compute in ("<<<M2244>>>" ++ check (runes_of_ascii "options
{ } options { BodyLength= as Header= f64 ; u128 =
    true
    ; } // a // b")).
Eval vm_compute in ("<<<M3450>>>" ++ check (runes_of_ascii "packet o { repeat Logon uint8x , } options { asx
// c
= zchar[ 3 ] stringy = '\x00' }")).
Eval vm_compute in ("<<<M4472>>>" ++ check (runes_of_ascii "packet A {
    match k as n {
        [1, 22, ""c c"", 4] : B,
        2 : C,
    },
}")).
Eval vm_compute in ("<<<M3392>>>" ++ check (runes_of_ascii "// c
MetaData body { i64 pack `it's` , } packet stringy { int16 calculatedFrom , }")).
Eval vm_compute in ("<<<M4481>>>" ++ check (runes_of_ascii "
MetaData body{ 
string asx, asx 	 // a // b
int , u128 a1
	,
    int32
	len , }
")).
Eval vm_compute in ("<<<M834>>>" ++ check (runes_of_ascii "  packet //	t
crc {i32 Z9_
// packet A { u8 x, }
// " ++ [27880; 37322]%N ++ runes_of_ascii "
@lengthOf( Pad ) ``, }
")).
Eval vm_compute in ("<<<M460>>>" ++ check (runes_of_ascii "root packet packetx
{  zchar[4294967296 ] uint8x@lengthOf( uint8x	) ,
    }
")).
Eval vm_compute in ("<<<M4525>>>" ++ check (runes_of_ascii "packet Inner {
    u8 a,
}

root packet P {
    Inner ref_obj,
    u8 x,
}")).
Eval vm_compute in ("<<<M4616>>>" ++ check (runes_of_ascii "root packet P {
    u16 a,
    u32 Sum @calculatedFrom(""CR\
    C32""),
}")).
Eval vm_compute in ("<<<M692>>>" ++ check (runes_of_ascii "options {
T
= false // a // b
;
    tag =
    char[ 0 ]
    ;
    }
")).
Eval vm_compute in ("<<<M3251>>>" ++ check (runes_of_ascii "// top
root // c0a
  // c0b
packet pack // c2a
  // c2b
{ // c3
} ")).
Eval vm_compute in ("<<<M1235>>>" ++ check (runes_of_ascii "options	{ falsey // " ++ [27880; 37322]%N ++ runes_of_ascii "
=
""\" ++ [233]%N ++ runes_of_ascii """	; lengthOf
=
0	;
    // c
    }
")).
Eval vm_compute in ("<<<M2797>>>" ++ check (runes_of_ascii "char[ '\x00' uint16 @lengthOf( i16 zchar[ MetaData u32 repeat")).
Eval vm_compute in ("<<<M190>>>" ++ check (runes_of_ascii "MetaData zchar
    {  i32 Z9_ `say ""hi""` ,
    } // a // b")).
Eval vm_compute in ("<<<M3384>>>" ++ check (runes_of_ascii "packet x { @rightPad ( ) repeat roots Logon `doc`
// c
, }")).
Eval vm_compute in ("<<<M300>>>" ++ check (runes_of_ascii "
MetaData trueish // c
{  string	trueish `it's`	,
}")).
Eval vm_compute in ("<<<M650>>>" ++ check (runes_of_ascii "packet
    u128 {
repeat string
As`say ""hi""`, } 	 ")).
Eval vm_compute in ("<<<M3715>>>" ++ check (runes_of_ascii "MetaData crc {
    uint8x float,
}
// @lengthOf(")).
Eval vm_compute in ("<<<M4547>>>" ++ check (runes_of_ascii "packet  Logon  {
    string u `two words` , }
")).
Eval vm_compute in ("<<<M2562>>>" ++ check (runes_of_ascii "packet A { repeat match k as n { 1 : B }, }")).
Eval vm_compute in ("<<<M3188>>>" ++ check (runes_of_ascii "
// c
root packet u128 { chars `it's` , }")).
Eval vm_compute in ("<<<M4024>>>" ++ check (runes_of_ascii "options {
    leftPad = """ ++ [28040; 24687]%N ++ runes_of_ascii """
}// " ++ [128512]%N ++ runes_of_ascii " emoji")).
Eval vm_compute in ("<<<M2583>>>" ++ check (runes_of_ascii "packet A { zchar[3] x @lengthOf(y), }")).
Eval vm_compute in ("<<<M244>>>" ++ check (runes_of_ascii "
packet/// triple
packetx {
} // " ++ [27880; 37322]%N)).
Eval vm_compute in ("<<<M2621>>>" ++ check (runes_of_ascii "packet A { @tag(1) @tag(2) u8 x, }")).
Eval vm_compute in ("<<<M1316>>>" ++ check (runes_of_ascii "packet As
{stringy i8i8
,} // c")).
Eval vm_compute in ("<<<M3805>>>" ++ check (runes_of_ascii "options

    {falsey
	=false}")).
Eval vm_compute in ("<<<M3142>>>" ++ check (runes_of_ascii "packet A {
 u8 x `d" ++ [6158]%N ++ runes_of_ascii "`, // c" ++ [6158]%N ++ runes_of_ascii "
}")).
Eval vm_compute in ("<<<M4128>>>" ++ check (runes_of_ascii "//x
options {
    o = ' ';
}")).
Eval vm_compute in ("<<<M2447>>>" ++ check (runes_of_ascii "int8 int16 int32 int64 int")).
Eval vm_compute in ("<<<M3258>>>" ++ check (runes_of_ascii "root packet pack // c
{ }")).
Eval vm_compute in ("<<<M1288>>>" ++ check (runes_of_ascii "packet
falsey
    { }
")).
Eval vm_compute in ("<<<M2648>>>" ++ check (runes_of_ascii "MetaData M { x y z, }")).
Eval vm_compute in ("<<<M4375>>>" ++ check (runes_of_ascii "root packet u128 {
}")).
Eval vm_compute in ("<<<M3474>>>" ++ check (runes_of_ascii "MetaData o // c
{ }")).
Eval vm_compute in ("<<<M3100>>>" ++ check (runes_of_ascii "packet A {
}
// c" ++ [8233]%N)).
Eval vm_compute in ("<<<M2647>>>" ++ check (runes_of_ascii "MetaData M { x, }")).
Eval vm_compute in ("<<<M2641>>>" ++ check (runes_of_ascii "root options { }")).
Eval vm_compute in ("<<<M4510>>>" ++ check (runes_of_ascii "

  /// triple")).
Eval vm_compute in ("<<<M779>>>" ++ check (runes_of_ascii "options { }")).
Eval vm_compute in ("<<<M2457>>>" ++ check (runes_of_ascii "optionss")).
Eval vm_compute in ("<<<M2425>>>" ++ check (runes_of_ascii "char[]")).
Eval vm_compute in ("<<<M2461>>>" ++ check (runes_of_ascii "roots")).
Eval vm_compute in ("<<<M908>>>" ++ check (runes_of_ascii "//x
")).
Eval vm_compute in ("<<<M2454>>>" ++ check (runes_of_ascii "asx")).
Eval vm_compute in ("<<<M247>>>" ++ check (runes_of_ascii "

")).
Eval vm_compute in ("<<<M2554>>>" ++ check ([233]%N)).
