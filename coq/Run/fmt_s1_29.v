From FP Require Import Lexer Parser ShowPT Digest Formatter.
From Coq Require Import String List NArith.
Import ListNotations.
Open Scope string_scope.
Set Printing Width 100000000.
Set Printing Depth 100000000.
Definition show_fres (r : fres) : string :=
  match r with
  | FOk s => "OK:" ++ sh_escaped s ""
  | FErr s => "ERR:" ++ sh_escaped s ""
  | FPanic p => "PANIC:" ++ p
  end.
Definition check (rs : list rune) : string := digest (show_fres (format_res rs)).
Definition full (rs : list rune) : string := show_fres (format_res rs).
Eval vm_compute in ("<<<M90>>>" ++ check (runes_of_ascii "root packet
f32a { i8i8 @lengthOf( BodyLength) `line1
line2` , /// triple
string_ _x , zchar
,  char rootA
,@rightPad()
// @lengthOf(
// 50% %s
@lengthOf(
charz//
)
    u128 `it's`, i16 uint8x// packet A { u8 x, }
@lengthOf(tag )	, char[]
string_, // a // b
@calculatedFrom(
""a\""b""  ) //x
@calculatedFrom( ""\" ++ [233]%N ++ runes_of_ascii """) @calculatedFrom( // " ++ [128512]%N ++ runes_of_ascii " emoji
""packet"")
repeat A
    { match uint8x
as metadata
{  [ 65535
    ,""\" ++ [233]%N ++ runes_of_ascii """,	3]
: MetaDataX , } , x
    {
    repeat crc Pad `crlf
line` ,
u32 string_ `tab	here`	,} , //
falsey	@lengthOf( x
// " ++ [27880; 37322]%N ++ runes_of_ascii "
/// triple
) , match // a // b
a1 as
calculatedFrom { [ 1 // 50% %s
, 4294967296 ,
""""
    , 7 ] : matchKey[ """" , ""`tick`"" ]: x ,
    // c
    ""abc""
    //x
    :_x } // packet A { u8 x, }
, }
    ,match stringy // trailing space 
as repeatCount //
{
255 : falsey , ""it's""  :roots,[ """ ++ [128512]%N ++ runes_of_ascii """, 3 ,""// no comment""  ] :o [ 0123456789 ] :
    //	t
    uint8x
    ,
10 : int
,
0123456789 :	Header
    // `tick` ""quote"" 'q'
    ,
    }
, repeat
    //x
    MetaDataX , } MetaData tag
{u64 u ,// " ++ [128512]%N ++ runes_of_ascii " emoji
}
root packet
string_ { char[// packet A { u8 x, }
65535]// a // b
asx  @calculatedFrom(  ""{,}"")// c
,uint8x @calculatedFrom( // `tick` ""quote"" 'q'
""" ++ [233]%N ++ runes_of_ascii "t" ++ [233]%N ++ runes_of_ascii """ ) , string
repeatCount @calculatedFrom(	""abc""
) `crlf
line`,  @calculatedFrom(
    // @lengthOf(
    ""a\\"")	repeat // " ++ [27880; 37322]%N ++ runes_of_ascii "
char[ 1] matchKey //	t
`two words`,	} packet Z9_
{
// @lengthOf(
// c
@tag( 42 )
    //
    @calculatedFrom(
""1"" ) match u8x
as chars {[ ""CRC32"" ]
: packetx,""" ++ [233]%N ++ runes_of_ascii "t" ++ [233]%N ++ runes_of_ascii """
:tag
, 0123456789: calculatedFrom// a // b
, 7 : lengthOf , [ ""a	b"" , 65535 , 3	,
""`tick`""
    /// triple
    ,  255 //x
] :
    u8x , 4294967296
    :
    Header , } , @lengthOf(
// " ++ [27880; 37322]%N ++ runes_of_ascii "
// @lengthOf(
i64_ )	a1 `a\` , //x
f32a
    MetaDataX // " ++ [27880; 37322]%N ++ runes_of_ascii "
, @lengthOf(
    options1 )
Pad @lengthOf( Pad ) // " ++ [128512]%N ++ runes_of_ascii " emoji
`100% of %d` //	t
, // 50% %s
f32a
    `{ , }`
    ,
    match MetaDataX//
as asx  {""\" ++ [233]%N ++ runes_of_ascii """ : metadata
    ,} , @tag(
    255
)
char
calculatedFrom
    `crlf
line`, @lengthOf( leftPad )
repeatCount @lengthOf( int)
,}
packet
T
{ }
")).
Eval vm_compute in ("<<<M3530>>>" ++ check (runes_of_ascii "packet u {
    @rightPad()
    x `{ , }`,
    uint64 _x,
    options1 `doc`,
    match falsey as charz {
        [7] : int,
        [""\n""] : matchKey,
        [""// no comment"", 4294967296] : crc,
        7 : lengthOf,
        00 : Foo,
    },
    char[00] int @lengthOf(Pad),
}

packet msg_type {
    int64 rootA,
    x {
        len @calculatedFrom(""1""),
        chars {
            u8 asx `say ""hi""`,
            zchar[7] x_y_z `tab	here`,
            char[] f32a `doc`,
        },
    },
    u64 f32a,
    @calculatedFrom(""a\""b"")
    @lengthOf(_x)
    @rightPad()
    a1 metadata `{ , }`,
    i32 Header `line1
    line2`,
    match Logon as int {
        [""\n"", """ ++ [233]%N ++ runes_of_ascii "t" ++ [233]%N ++ runes_of_ascii """, ""it's""] : chars,
        42 : u8x,
        [65535, ""a\\"", 255] : packetx,
    },
    match body as len {
        4294967296 : Header,
        // trailing space 
        [""packet""] : MetaDataX,
        [""\" ++ [233]%N ++ runes_of_ascii """, 007] : Header,
    },
    u8 packetx @calculatedFrom(""it's"") `two words`,// 50% %s
    repeat chars {
        uint8 metadata @lengthOf(len),
        //
    },
}

root packet i64_ {
}

root packet calculatedFrom {
    repeat int8 BodyLength `doc`,
    // @lengthOf(
    // c
    @lengthOf(charz)
    char[1] x_y_z @calculatedFrom(""1""),
    @lengthOf(trueish)
    repeat zchar[10] rootA,
    zchar[4294967296] matchKey @calculatedFrom(""1"") `tab	here`,
    trueish {
        repeat zchar[0123456789] Z9_,
    },
    @lengthOf(x)
    repeat options1 `{ , }`,
    roots Packet,
    int16 tag,
    repeat BodyLength {
        u8x,
        float32 uint8x @calculatedFrom(""// no comment""),
        float64 Packet @lengthOf(roots),
        repeat zchar[255] Foo,
    },
}

options {
    T = ""x y""
    // a // b
    //	t
    Logon = char[255];
}")).
Eval vm_compute in ("<<<M1339>>>" ++ check (runes_of_ascii "
packet BodyLength  {
match
// " ++ [128512]%N ++ runes_of_ascii " emoji
// trailing space 
i64_ as asx
{ [10,
    ""\" ++ [233]%N ++ runes_of_ascii """  , 0 , 1, ""CRC32"" ,0, 007,""" ++ [233]%N ++ runes_of_ascii "t" ++ [233]%N ++ runes_of_ascii """
    ] :
// c
// packet A { u8 x, }
options1 , 007 :trueish, 00:  metadata ,
    [ ""it's""]
:
    msg_type
// `tick` ""quote"" 'q'
/// triple
,},
    @tag( 65535 )  repeat string repeatCount //
, @lengthOf( tag
) @leftPad ( '\x00'	)
@lengthOf( A	)  i16 asx@lengthOf(
    // c
    string_ )
`
` ,
    @calculatedFrom(""// no comment""
) match packetx
as
x_y_z
{  [ 007
, 255 , ""x y""	, // trailing space 
42 ]
    : i64_ // " ++ [128512]%N ++ runes_of_ascii " emoji
, """ ++ [233]%N ++ runes_of_ascii "t" ++ [233]%N ++ runes_of_ascii """
    :
f32a [
""packet"" // trailing space 
, ""a\\"" , 7,""it's"" ]: rootA ""a\""b"" : MetaDataX ,	255 : i64_  ""CRC32""
:repeatCount ,} ,@tag( 0123456789
)@rightPad ( ' ') @leftPad( '\x00'// `tick` ""quote"" 'q'
)
roots `100% of %d` ,repeat
x {
repeat char[]  pack ,
    char[  00
] Packet // @lengthOf(
@calculatedFrom( ""\" ++ [233]%N ++ runes_of_ascii """ )
    `two words`,// c
MetaDataX , }, match
    u as zchar { 65535 : A , [00
, 4294967296
// `tick` ""quote"" 'q'
//x
,""// no comment"" , 65535,""a\""b""  , 255
, 0 , 7 ]
    : a1 , [ ""{,}"" ]
: Header ,}
, @rightPad ( ' ' ) match i64_ as Z9_ { [ """ ++ [128512]%N ++ runes_of_ascii """ ,
    ""// no comment"" , ""packet""
, 255 , 65535	] :  stringy , [
""""
    , // @lengthOf(
007
    , // c
""it's""// " ++ [27880; 37322]%N ++ runes_of_ascii "
] : Z9_  [ """ ++ [128512]%N ++ runes_of_ascii """ ] : calculatedFrom
, 1 :T ,} , @tag( 0123456789
    )@calculatedFrom(
""{,}"" )
@leftPad// trailing space 
( )
repeat i8i8 i8i8
    ,string
    Z9_ ,
    }")).
Eval vm_compute in ("<<<M521>>>" ++ check (runes_of_ascii "
packet u128
{ @leftPad
( ' ' )	zchar[ 7
    ] string_
,Pad @calculatedFrom(""" ++ [128512]%N ++ runes_of_ascii """	)
    // c
    `tab	here` // 50% %s
, crc metadata, @lengthOf( string_ )leftPad , string msg_type`it's`
, @leftPad
( ' '	) trueish
{repeat x Header	`" ++ [28040; 24687; 31867; 22411]%N ++ runes_of_ascii "`// c
, }
    ,@calculatedFrom( """ ++ [233]%N ++ runes_of_ascii "t" ++ [233]%N ++ runes_of_ascii """)stringy
a1, }
    root packet roots //	t
{ @tag( 65535) @tag( 007  )@rightPad ( /// triple
'\x00' )
char[ 007 // " ++ [27880; 37322]%N ++ runes_of_ascii "
]
    //
    u @lengthOf(
    MetaDataX )`// not a comment`, @calculatedFrom( ""a\""b"")  i32	msg_type , float  ,
    // a // b
    }
packet
    int {
int8 u ,
uint16 string_,
    @lengthOf( i64_ )
    As ,
repeat float32
    metadata , zchar[ 0 ] f32a @lengthOf( body )
`it's` ,
@lengthOf(rootA) @lengthOf(
    Packet // @lengthOf(
)@calculatedFrom( // a // b
""a\""b"" ) match Logon as// `tick` ""quote"" 'q'
a1{ 10 : stringy ,
// `tick` ""quote"" 'q'
//	t
42 :	leftPad ,
} ,@tag( 42 )	int64 msg_type@calculatedFrom(
// " ++ [128512]%N ++ runes_of_ascii " emoji
/// triple
""a\\"" ) ``
    ,@calculatedFrom(""it's"" // trailing space 
)@lengthOf(Packet ) @calculatedFrom( ""x y"" )	repeat//	t
char[10
] chars `two words`, @rightPad(' ' ) T @calculatedFrom( ""it's""
    // a // b
    ) `two words`
,
u	,
    }options {
    len
=""\n""	;
// trailing space 
// a // b
uint8x =
// " ++ [128512]%N ++ runes_of_ascii " emoji
// c
true f32a // a // b
= ""\n"" ; options1 =
char[1 ] }
")).
Eval vm_compute in ("<<<M988>>>" ++ check (runes_of_ascii "root
packet
    // @lengthOf(
    x { @calculatedFrom( """ ++ [233]%N ++ runes_of_ascii "t" ++ [233]%N ++ runes_of_ascii """)
// `tick` ""quote"" 'q'
// 50% %s
Header tag
    // packet A { u8 x, }
    `
`
,	pack
BodyLength  `" ++ [233]%N ++ runes_of_ascii "` ,/// triple
@tag(7) Packet ,} packet
BodyLength { BodyLength	,} packet float{ match
packetx // " ++ [27880; 37322]%N ++ runes_of_ascii "
as u{ [
10, """ ++ [128512]%N ++ runes_of_ascii """
, 255 , ""// no comment""
, 42 //x
,
    // a // b
    00 // `tick` ""quote"" 'q'
,
/// triple
// a // b
""{,}"" ,
""" ++ [28040; 24687]%N ++ runes_of_ascii """ ]
    : Packet // " ++ [128512]%N ++ runes_of_ascii " emoji
,
    }, @rightPad
('0'
    )
    repeat  uint16 chars //
,
    @calculatedFrom(	""" ++ [233]%N ++ runes_of_ascii "t" ++ [233]%N ++ runes_of_ascii """
)
string
leftPad
,match len as stringy
    { 3 //	t
: pack , }
    ,repeat
    // " ++ [27880; 37322]%N ++ runes_of_ascii "
    u8
Foo
,	roots @lengthOf( len
    ) `it's` ,
// a // b
// trailing space 
@lengthOf(u128 ) char[255 ]	string_, zchar[0123456789 ] stringy
    , @tag(	10 //x
)match metadata
as A{ 0123456789: lengthOf ,
10:
    o
,
// packet A { u8 x, }
// 50% %s
[ ""a	b"" // a // b
,00
,3 , 007 ,
""a\""b"" , 10
] : chars
, 42 :
    u""" ++ [28040; 24687]%N ++ runes_of_ascii """ :
f32a
, 7 :
    u8x  , } // a // b
,
    }
root packet
    //x
    u { repeat o{ repeat crc { int8 i8i8
    // a // b
    @calculatedFrom(""x y"" )  `tab	here` , repeat falsey { uint32 crc
@lengthOf(
    MetaDataX
)  `100% of %d` , }
,
    }
    , }
, }
")).
Eval vm_compute in ("<<<M234>>>" ++ check (runes_of_ascii "options{roots
=
u8
    // 50% %s
    ; tag//
= 42 ;
    //	t
    falsey = ""{,}""metadata
// `tick` ""quote"" 'q'
/// triple
= ""abc"" ;
    } packet pack
    // trailing space 
    {
    @calculatedFrom(//	t
""a	b"")zchar[255] len, // 50% %s
} options { // trailing space 
asx =	false ; options1 = ""packet""
    ; trueish = char[] ;
pack = '0'
; }packet u128 // " ++ [27880; 37322]%N ++ runes_of_ascii "
{ @tag(
3 )
zchar[
    // `tick` ""quote"" 'q'
    42 ]
    Foo //	t
@calculatedFrom( """"
) ,  @leftPad// a // b
(
'\x00' // " ++ [128512]%N ++ runes_of_ascii " emoji
)// trailing space 
Logon { repeat char[]// " ++ [27880; 37322]%N ++ runes_of_ascii "
x
`100% of %d`
    , } ,
    } packet matchKey{
match
    crc as Packet {
""1""
    // `tick` ""quote"" 'q'
    : packetx , }	,match	int as float	{ ""1""
:metadata
}, repeat float32 uint8x , string u `" ++ [233]%N ++ runes_of_ascii "` , @rightPad ( '0' )	Logon
// `tick` ""quote"" 'q'
/// triple
,  float{
    crc
{
u
, uint64 Packet @calculatedFrom(
""`tick`"" ) `
`
    , char[]	T `
` ,},
}  , @calculatedFrom( ""// no comment"") char[ 0123456789 ] x
    `crlf
line`
, @leftPad(' ' ) @tag(
1  ) @calculatedFrom( ""abc""
)char[  65535 ]Header
,
    repeat	zchar[00 ]trueish // 50% %s
`" ++ [28040; 24687; 31867; 22411]%N ++ runes_of_ascii "`, }")).
Eval vm_compute in ("<<<M1374>>>" ++ check (runes_of_ascii "packet x_y_z { @lengthOf( crc
    ) match repeatCount as
u8x	{
    // 50% %s
    """" :
    string_// " ++ [128512]%N ++ runes_of_ascii " emoji
, 4294967296
    /// triple
    :// a // b
msg_type
    ,// 50% %s
} , @tag(
    007) float { char[
    // c
    3
    ]MetaDataX @lengthOf(
u
) , } // c
,@leftPad
    ( ' ' ) repeat
    char[]trueish
    `two words`
, }
    //x
    root packet // " ++ [128512]%N ++ runes_of_ascii " emoji
asx {zchar[ 10 // " ++ [27880; 37322]%N ++ runes_of_ascii "
]f32a @calculatedFrom( ""x y"" ),	@calculatedFrom( ""abc"" ) zchar[ 10 ] u8x ,
    repeat  _x
{// " ++ [128512]%N ++ runes_of_ascii " emoji
int8 charz `two words` ,i16 u128 ,
} ,/// triple
packetx  @lengthOf( Logon
)
// `tick` ""quote"" 'q'
// `tick` ""quote"" 'q'
`" ++ [28040; 24687; 31867; 22411]%N ++ runes_of_ascii "`
, char[00 ]
pack , @rightPad
( ) match
repeatCount as	packetx {
""1"" : int , }, match stringy as
    leftPad
{ [ 00 , ""a	b"" ] // " ++ [128512]%N ++ runes_of_ascii " emoji
:
    As, }
    ,
f64 crc @lengthOf(
    float) , @leftPad('\x00' )
    // a // b
    @rightPad (
    ' ' )	repeat roots packetx
    , @tag(
65535
//	t
// " ++ [128512]%N ++ runes_of_ascii " emoji
)  uint64 matchKey,}
    // a // b
    root packet Logon
    { } MetaData Packet {
    string asx `u8 x,`
    , }
")).
Eval vm_compute in ("<<<M1228>>>" ++ check (runes_of_ascii "options { options1
= // " ++ [27880; 37322]%N ++ runes_of_ascii "
true // @lengthOf(
}
// 50% %s
// c
packet Header{
    // c
    @calculatedFrom(
// packet A { u8 x, }
//
""" ++ [233]%N ++ runes_of_ascii "t" ++ [233]%N ++ runes_of_ascii """ ) u16
Foo ,}
    root packet pack {@tag( 255
) a1 { // packet A { u8 x, }
char[] x_y_z, } ,
@lengthOf( falsey) uint64 tag , char[]
    // `tick` ""quote"" 'q'
    Header@calculatedFrom(""// no comment""	) ,
@leftPad ( '0'  ) @rightPad ('\x00' ) tag @calculatedFrom(
// " ++ [128512]%N ++ runes_of_ascii " emoji
// " ++ [27880; 37322]%N ++ runes_of_ascii "
""" ++ [28040; 24687]%N ++ runes_of_ascii """
// @lengthOf(
// c
) , uint16 x @calculatedFrom( ""`tick`"" ) `tab	here`
    ,
    repeat  i64 string_ `u8 x,`
, _x @calculatedFrom( ""packet"" ) `// not a comment` , repeat // @lengthOf(
x {// `tick` ""quote"" 'q'
i32 o `
`
    // " ++ [27880; 37322]%N ++ runes_of_ascii "
    ,}
    ,
    match uint8x// `tick` ""quote"" 'q'
as falsey {""\" ++ [233]%N ++ runes_of_ascii """ :
falsey , 4294967296 : roots """ ++ [28040; 24687]%N ++ runes_of_ascii """ :
float
,// " ++ [27880; 37322]%N ++ runes_of_ascii "
[  1 , /// triple
1 , """" ,
// trailing space 
// @lengthOf(
""CRC32""
    ,00 , ""a	b"" ,""a	b"" ] :calculatedFrom
    }
, @calculatedFrom(""{,}"") //x
zchar[ 00
    ] Pad , } packet
    /// triple
    calculatedFrom { }
")).
Eval vm_compute in ("<<<M319>>>" ++ check (runes_of_ascii "  root packet matchKey {zchar[1//x
]
i64_//x
@lengthOf(Pad ) ,  char[ 0123456789
    ] BodyLength`crlf
line`,@calculatedFrom(""" ++ [128512]%N ++ runes_of_ascii """)//x
o @calculatedFrom( ""1""
    ) `two words` ,
    char pack// " ++ [128512]%N ++ runes_of_ascii " emoji
@calculatedFrom(""it's"" ) ,} packet string_ { } root packet Z9_// " ++ [27880; 37322]%N ++ runes_of_ascii "
{ char[ 10] a1 , @tag(00) match
    metadata as tag  { ""it's"" : A ""{,}"" :body, }, @calculatedFrom(  ""a\""b""
    ) @rightPad( '0' ) i16 msg_type
@lengthOf( zchar) ``
,
float64// @lengthOf(
matchKey @lengthOf(  roots )`two words` ,
    @calculatedFrom( ""CRC32"" //x
)
    // " ++ [128512]%N ++ runes_of_ascii " emoji
    @tag( // packet A { u8 x, }
0
)@rightPad ( ' ' ) Foo @lengthOf( int
    //x
    ) `" ++ [28040; 24687; 31867; 22411]%N ++ runes_of_ascii "` ,
    @lengthOf(  o )	@tag( 42 )@tag( 1 //	t
) char[] Logon ,
@calculatedFrom(
// `tick` ""quote"" 'q'
// 50% %s
""a	b"" ) repeat
    u8  options1 , zchar[ 0 ] i64_ , } MetaData o// packet A { u8 x, }
{ body Header , i64 matchKey , pack body ,
}	MetaData crc
    // trailing space 
    { }")).
Eval vm_compute in ("<<<M69>>>" ++ check (runes_of_ascii "packet
    zchar{zchar[ // 50% %s
4294967296
] len `crlf
line`, @tag(
7 ) @tag( 4294967296 ) i8 msg_type @calculatedFrom(""1"" ) `crlf
line`  ,
    zchar[ 0] // " ++ [27880; 37322]%N ++ runes_of_ascii "
body @calculatedFrom(
""// no comment""
)  , repeat f64 _x // trailing space 
,char[3
] x @calculatedFrom(""`tick`"" )
    `say ""hi""` , @tag(
65535  ) char MetaDataX// @lengthOf(
@lengthOf( BodyLength ) ,// packet A { u8 x, }
@lengthOf(Z9_ )match Pad as Z9_ { ""x y"":
    chars , ""a	b"":
u128 , """ ++ [128512]%N ++ runes_of_ascii """ : Header }
    , zchar[	007]
    float
    `u8 x,`, }options
{
    stringy = zchar[7 ] ;}packet Header
{	matchKey  tag	, @calculatedFrom(	""// no comment"") @calculatedFrom( """"	)	@rightPad  (' ') u128// trailing space 
{repeat leftPad
{ int64
    rootA	@lengthOf(
crc ) `" ++ [233]%N ++ runes_of_ascii "` , }  ,
    } ,zchar[
42
    ] matchKey	,
    // " ++ [27880; 37322]%N ++ runes_of_ascii "
    @lengthOf(rootA ) float32
chars @lengthOf( pack // `tick` ""quote"" 'q'
)
// " ++ [27880; 37322]%N ++ runes_of_ascii "
// c
``
,}
")).
Eval vm_compute in ("<<<M1162>>>" ++ check (runes_of_ascii "  packet packetx{
    float64
string_ , o
{ Pad options1
`" ++ [233]%N ++ runes_of_ascii "`
,
    roots {float32 Z9_`a\` ,
uint32 Logon
,
match
asx as
rootA { ""`tick`""  : As
// trailing space 
// c
, 00 : int ,/// triple
} , repeat char[]
// 50% %s
// a // b
Logon , }	,f32// `tick` ""quote"" 'q'
u128`crlf
line`
    , } ,} packet float{	falsey, crc
    @calculatedFrom(""abc"" ) ,
@calculatedFrom(
""1"" ) repeat //	t
T , @rightPad(
'\x00') repeat Header `tab	here` , repeat //x
char[] uint8x , pack @calculatedFrom( """ ++ [233]%N ++ runes_of_ascii "t" ++ [233]%N ++ runes_of_ascii """ ) ,
@lengthOf( i8i8 )
    u16 a1 ``
,  int64 roots
// 50% %s
// 50% %s
@calculatedFrom(	""x y"" ) , rootA  , BodyLength
    // a // b
    @lengthOf(
zchar
    /// triple
    )
, // 50% %s
}MetaData calculatedFrom{  stringy crc //	t
,
    }
    MetaData Foo { Packet
    A , int8 Packet, As calculatedFrom ,calculatedFrom
    calculatedFrom `` , }
")).
Eval vm_compute in ("<<<M3940>>>" ++ check (runes_of_ascii "// @lengthOf(
root
packet 
T{//
	@rightPad
(
' '
    )

@leftPad('0'
	)
    leftPad	// packet A { u8 x, }

	, @leftPad  (

    ) 
int

    falsey,
	@calculatedFrom(
""// no comment""
) char[0123456789
	] calculatedFrom @calculatedFrom( ""packet""
	)	`" ++ [233]%N ++ runes_of_ascii "`
,

}	root	packet float {

    char[
4294967296 ]
uint8x
,string	u,
	@lengthOf(Pad
    )
i32
    lengthOf
    // " ++ [27880; 37322]%N ++ runes_of_ascii "

  ,
    @calculatedFrom(// c
""abc""

)

x_y_z

    {

zchar[ 0

    ] body
@calculatedFrom(""1"")	, float64

    packetx 
@calculatedFrom(	""""
	)  `crlf
line`,
match
body as
	tag
    {00
	:
    //
    chars
	,
},
repeat
tag 
{	int8	MetaDataX 
`u8 x,`
,
    }	// a // b
	,} ,
@tag( 7 
)

string

    int

    @calculatedFrom(

""it's""
    ) , 	 // c
@lengthOf( 
Z9_
    )

zchar[ 42] packetx
`it's`
	,
} ")).
Eval vm_compute in ("<<<M4206>>>" ++ check (runes_of_ascii "root
    // packet A { u8 x, }

  packet A
    {
    f64	chars

@lengthOf(
    Z9_
) ,@lengthOf(repeatCount	// `tick` ""quote"" 'q'
)	//
	match
falsey
	as  crc{
	7
    :_x  , },}packet 
body{ @lengthOf(
    BodyLength	)charz // @lengthOf(

	@calculatedFrom( ""// no comment"" 	 // " ++ [27880; 37322]%N ++ runes_of_ascii "
	)  `line1
line2` 
,	@calculatedFrom(""// no comment""

    )@leftPad(' '

)
	@lengthOf(  // `tick` ""quote"" 'q'
  body

    )  options1@lengthOf( 	 // @lengthOf(
    string_) `
` 
    // 50% %s
    // " ++ [128512]%N ++ runes_of_ascii " emoji
  ,
	match

_x as 
    // " ++ [128512]%N ++ runes_of_ascii " emoji
// packet A { u8 x, }
    lengthOf

{// `tick` ""quote"" 'q'
""`tick`""

    :u8x,	""abc""

    :
    o

    , 

    // c
    1

    :metadata , [ 3]
:  
      // c

	// @lengthOf(

	uint8x , 
65535
	:charz /// triple
    	, }
,}

")).
Eval vm_compute in ("<<<M842>>>" ++ check (runes_of_ascii "options { stringy = ""a\""b"" ;	Foo
=true
; crc// 50% %s
=
true
    } MetaData float{i16 options1 `100% of %d` // trailing space 
,  As
// packet A { u8 x, }
// @lengthOf(
Header`
`, } root	packet crc {  char[
    00 ]	i8i8
    `u8 x,`,match body as f32a { 0 // packet A { u8 x, }
: packetx
, ""a\\"" :
    a1 ,42 : crc , ""{,}""	: options1
    , [
""" ++ [28040; 24687]%N ++ runes_of_ascii """, 3//x
, ""a\""b""
] :options1
    ,[00
, 3,// a // b
""" ++ [28040; 24687]%N ++ runes_of_ascii """ ] // packet A { u8 x, }
: f32a ,	}, @lengthOf( crc ) @rightPad( ' ')
@calculatedFrom(
""packet""
) body	`" ++ [233]%N ++ runes_of_ascii "`
, // " ++ [128512]%N ++ runes_of_ascii " emoji
@calculatedFrom(// packet A { u8 x, }
""1"" )@lengthOf(	msg_type ) @tag(
//	t
//
7 ) repeat zchar[3]  rootA
, As @calculatedFrom(
""{,}"" ) , char[] o	@lengthOf(//x
float
    //
    ) `say ""hi""`//	t
,
    }options { }
")).
Eval vm_compute in ("<<<M1037>>>" ++ check (runes_of_ascii "packet BodyLength{@calculatedFrom( ""a\""b"")@leftPad
( '\x00' )// " ++ [128512]%N ++ runes_of_ascii " emoji
@lengthOf(
// " ++ [27880; 37322]%N ++ runes_of_ascii "
// @lengthOf(
charz ) string_
lengthOf
, @tag(// trailing space 
4294967296) @tag( 3	)
@lengthOf(
body
) int64 T ``, @tag( 42 ) charz
    {
asx@calculatedFrom( ""\" ++ [233]%N ++ runes_of_ascii """ ),}, @rightPad ( '\x00' ) match BodyLength as msg_type
{ [
1] :int ,""{,}"" :
    int ,
    }
,
    repeat
    i16 roots`line1
line2` ,repeat // trailing space 
o
    {  match A
as T{3:
    a1 , }
, repeat
string Z9_
`" ++ [233]%N ++ runes_of_ascii "`	, f32 calculatedFrom `100% of %d` ,},	repeat zchar[ 255 ] x , // " ++ [128512]%N ++ runes_of_ascii " emoji
float32 T `line1
line2`, @calculatedFrom( """ ++ [28040; 24687]%N ++ runes_of_ascii """ )repeat f32a string_ ,@calculatedFrom( ""1""
    )
@tag( 0) @lengthOf( calculatedFrom ) u16 zchar `a\` ,}")).
Eval vm_compute in ("<<<M220>>>" ++ check (runes_of_ascii "// 50% %s
packet rootA	{ @lengthOf(u8x )	Z9_ @lengthOf(charz
) , }
    packet
// " ++ [27880; 37322]%N ++ runes_of_ascii "
//
crc{	@calculatedFrom(
    // a // b
    ""a\""b"" )
    repeat
msg_type `{ , }`  ,
    @tag( 42 ) repeat char[ 42 ] packetx `{ , }`,options1/// triple
{
    //
    zchar[ 4294967296 ]packetx
    @calculatedFrom( ""CRC32""
// c
// `tick` ""quote"" 'q'
)
    , // `tick` ""quote"" 'q'
u128  {	u32
tag`doc`,
    },
} , @leftPad ( '0') falsey
{match f32a
as T{ ""a\""b"" : chars,// c
""a\\""
    :
    body,
    [ ""\n"" , ""CRC32"" , 0// c
, 10	,
""" ++ [233]%N ++ runes_of_ascii "t" ++ [233]%N ++ runes_of_ascii """
    ]
// " ++ [128512]%N ++ runes_of_ascii " emoji
// " ++ [27880; 37322]%N ++ runes_of_ascii "
:
    packetx	,
[""a\""b"" /// triple
] :
A
0
: leftPad
,
    /// triple
    4294967296 :
BodyLength, } ,msg_type
// " ++ [27880; 37322]%N ++ runes_of_ascii "
//
,
}
,}")).
Eval vm_compute in ("<<<M4058>>>" ++ check (runes_of_ascii "packet
// a // b
    	msg_type{@leftPad (

'0'
) repeat
	zchar[4294967296
	]
    roots  ,

repeat
	u32  u128
	,

@rightPad
('\x00'  )match

x_y_z as 
As
    {
007	:	Foo, } ,

@leftPad( ' '

    )@leftPad
(

) _x u,
	@tag( 7 )	repeat 
chars

{

falsey
leftPad`" ++ [28040; 24687; 31867; 22411]%N ++ runes_of_ascii "`
,
zchar[

4294967296 ]
packetx	@lengthOf( i64_	// " ++ [128512]%N ++ runes_of_ascii " emoji
	) `doc`

,

    char[1 ]

options1	@calculatedFrom( ""1""
    )
	,	} ,
i64
    matchKey @calculatedFrom( 
""x y""	)
    `line1
line2` ,
zchar[
007
]
    uint8x ``,

@lengthOf(falsey 	 /// triple
  )
@calculatedFrom( 
""" ++ [233]%N ++ runes_of_ascii "t" ++ [233]%N ++ runes_of_ascii """

    )	// 50% %s
As { 	 //
    zchar{
repeat	int8

    asx
	,
	repeat Packet  , } , }

,
} ")).
Eval vm_compute in ("<<<M47>>>" ++ check (runes_of_ascii "root
packet
metadata //	t
{ @lengthOf( rootA ) string
    Logon@lengthOf( u8x
    ) , uint8 repeatCount @lengthOf( //x
crc )
`it's` , @lengthOf( MetaDataX ) match x as x_y_z { 65535:
uint8x, // " ++ [27880; 37322]%N ++ runes_of_ascii "
[	""// no comment""
    , ""// no comment"" ,  """ ++ [233]%N ++ runes_of_ascii "t" ++ [233]%N ++ runes_of_ascii """ , ""\" ++ [233]%N ++ runes_of_ascii """ , //
7	, 1,""" ++ [128512]%N ++ runes_of_ascii """] :BodyLength ,
    """ ++ [128512]%N ++ runes_of_ascii """ :
    u8x ,65535 :metadata,	""" ++ [233]%N ++ runes_of_ascii "t" ++ [233]%N ++ runes_of_ascii """
/// triple
// 50% %s
: Packet,// packet A { u8 x, }
} , packetx i8i8
    `100% of %d` ,  char[] u8x
    @calculatedFrom(""{,}""  )
`u8 x,`, zchar[ 3
] Z9_
,@calculatedFrom( """"
    ) @lengthOf(	trueish ) @lengthOf(
lengthOf) tag , uint64 // packet A { u8 x, }
metadata // 50% %s
`100% of %d`
,
}
")).
Eval vm_compute in ("<<<M3515>>>" ++ check (runes_of_ascii "packet

Z9_ 
{// 50% %s
    repeat  leftPad
,
	} packet	x  { 
roots

    {  uint16 	 // 50% %s
	  stringy , match Packet as _x { ""x y"" 
: 
matchKey ,
255: rootA 
,	7 
:	Foo 
,
""\n""

:
options1

, }

    ,
repeat roots {
match
int 
as
    a1  // trailing space 
{
1 :
asx

""" ++ [28040; 24687]%N ++ runes_of_ascii """
    : 	 // `tick` ""quote"" 'q'
    i8i8  ,
	[
    0  ,

    1] 
:

    //

charz
}
,
    // trailing space 
  },

x_y_z

``  ,

}

,	}

options 	 // @lengthOf(
  {	uint8x=

'\x00'  ;
zchar	= 
' ' ;o  =	""\n"" a1 =
    zchar[
0123456789
]; 
} root packet Z9_ 
{ int16
    Pad

    @lengthOf(
Header

) `` ,}
")).
Eval vm_compute in ("<<<M355>>>" ++ check (runes_of_ascii "packet Z9_ {
@lengthOf( i8i8)
match
    A as Z9_ { 0123456789
    // 50% %s
    :	tag, 00 : leftPad
    ,
""packet"":
    trueish
,
[ 65535
]
: // trailing space 
T , }
,// 50% %s
zchar[ 255 ] i8i8
, }root// a // b
packet  leftPad { // c
repeat charz	{	repeat  i8 stringy
,	} , asx  {  char[ 42 ]
    //	t
    a1 `// not a comment` ,
    //x
    char[4294967296
] A@calculatedFrom( ""a\\"" )
,	i8
    _x ,  } ,uint8x msg_type
// @lengthOf(
// @lengthOf(
, roots falsey , }
MetaData Pad { float32 repeatCount
// " ++ [27880; 37322]%N ++ runes_of_ascii "
// `tick` ""quote"" 'q'
, }
MetaData int
{ char[]
repeatCount , }
")).
Eval vm_compute in ("<<<M3412>>>" ++ check (runes_of_ascii "// top
packet
    // c0
A
    // c1
{ // c2
u8
    // c3
a , // c5a
  // c5b
} // c6a
  // c6b
packet // c7a
  // c7b
B
    // c8
{ // c9a
  // c9b
u16 // c10a
  // c10b
b // c11a
  // c11b
,
    // c12
} // c13
root
    // c14
packet
    // c15
P
    // c16
{ // c17a
  // c17b
u8
    // c18
K , // c20a
  // c20b
match K
    // c22
as // c23a
  // c23b
M
    // c24
{ // c25a
  // c25b
[ // c26a
  // c26b
1 ,
    // c28
2
    // c29
] : // c31
A , 3 // c34
:
    // c35
B ,
    // c37
7 // c38
: A // c40
, // c41a
  // c41b
} // c42
,
    // c43
} // c44
")).
Eval vm_compute in ("<<<M481>>>" ++ check (runes_of_ascii "packet pack { // " ++ [128512]%N ++ runes_of_ascii " emoji
stringy{ repeat
string falsey , char[] Z9_ , repeat i64_ { char[ 10
] msg_type ,match string_
as msg_type{
    3 : x_y_z, [7 ] :o 007: Foo // trailing space 
, ""{,}"" :
    T, [ ""CRC32""	, // " ++ [27880; 37322]%N ++ runes_of_ascii "
""`tick`"" //x
]	:u128 , // 50% %s
3 :
    i64_
    /// triple
    ,} , // trailing space 
} , zchar[ 4294967296 ]
crc ,
    } ,  repeat i8i8{ matchKey@lengthOf(  i8i8 )
`// not a comment`, } , @tag( 4294967296)repeat Logon {
    string asx
    `" ++ [233]%N ++ runes_of_ascii "`, } ,matchKey@lengthOf( Pad	),}
    MetaData leftPad
    {}
// " ++ [27880; 37322]%N ++ runes_of_ascii "
")).
Eval vm_compute in ("<<<M581>>>" ++ check (runes_of_ascii "root packet Logon { @tag( 65535  ) repeat
matchKey	{
Foo
// c
// packet A { u8 x, }
{i16
    calculatedFrom // `tick` ""quote"" 'q'
@calculatedFrom(	""`tick`"" ) // 50% %s
,
/// triple
// packet A { u8 x, }
crc`it's` , }, Packet
{ repeat string a1
, A	{uint8 tag
    // `tick` ""quote"" 'q'
    , i32 MetaDataX , }, } , i8
/// triple
// " ++ [27880; 37322]%N ++ runes_of_ascii "
uint8x, }  , //x
leftPad
    @lengthOf(
packetx) ,repeat uint16	Foo
    ,
@tag( 42// packet A { u8 x, }
) char[
00] _x
    `100% of %d` , } MetaData /// triple
chars
    { }
")).
Eval vm_compute in ("<<<M3565>>>" ++ check (runes_of_ascii "packet 
i8i8{ 	 // 50% %s
  @rightPad ( ' '
)  @lengthOf(  i64_

) @calculatedFrom(
    ""abc""
) string
crc
@calculatedFrom( 
""" ++ [128512]%N ++ runes_of_ascii """
), char[

7  ] float

@calculatedFrom( ""{,}""
    )
    ,  @rightPad
(
	'\x00'

)
match _x 
as

    As 
{ 
  // " ++ [27880; 37322]%N ++ runes_of_ascii "

// `tick` ""quote"" 'q'
  ""\n"" :asx  [
	7	,

""" ++ [28040; 24687]%N ++ runes_of_ascii """, ""\n"" ,0	,1  ] :
	leftPad  , 0123456789 :len """ ++ [128512]%N ++ runes_of_ascii """:

    Header , 
""a\\"":  // " ++ [27880; 37322]%N ++ runes_of_ascii "

  u, 
4294967296  /// triple
  :
	a1 },

    @calculatedFrom(
	""\n""
)

float32 
Header	``,// " ++ [128512]%N ++ runes_of_ascii " emoji
  }")).
Eval vm_compute in ("<<<M737>>>" ++ check (runes_of_ascii "MetaData float {  i64_
    roots , char[ 007
    ]
int, /// triple
msg_type
    rootA
// " ++ [27880; 37322]%N ++ runes_of_ascii "
/// triple
,
    char[	255 ]x_y_z
`crlf
line` ,
uint8x	body, }	options { // " ++ [128512]%N ++ runes_of_ascii " emoji
msg_type =false} packet
string_	{o Pad ,zchar[0123456789 ] zchar
    @calculatedFrom( ""CRC32"" ) , uint8  matchKey , }options { //
T= f32 ;options1 // packet A { u8 x, }
= """" ; matchKey = """ ++ [233]%N ++ runes_of_ascii "t" ++ [233]%N ++ runes_of_ascii """
;
    x// packet A { u8 x, }
= ""x y"" packetx =
    // 50% %s
    ""x y""
//
// a // b
}
")).
Eval vm_compute in ("<<<M312>>>" ++ check (runes_of_ascii "packet
    Pad { crc /// triple
@lengthOf( // trailing space 
u128 ),
x
`tab	here`
// trailing space 
//x
,match roots as _x
{  ["""", 1
    ] :// trailing space 
pack
// " ++ [128512]%N ++ runes_of_ascii " emoji
//
[ """ ++ [233]%N ++ runes_of_ascii "t" ++ [233]%N ++ runes_of_ascii """,
""x y""
,	""abc"" //	t
,
    0]	:// @lengthOf(
pack  ,65535 :
falsey } ,
    uint8 o
    ,lengthOf @lengthOf( Z9_
) // @lengthOf(
, // trailing space 
uint8 // packet A { u8 x, }
_x `two words` , leftPad  , repeatCount
@calculatedFrom(
""abc"" ) , }")).
Eval vm_compute in ("<<<M57>>>" ++ check (runes_of_ascii "packet //	t
trueish
{/// triple
string crc`two words`,
T chars , }
packet
asx	{ @leftPad ( '0'
) match x as u8x { [ ""{,}"" ,
1 ,
65535, ""// no comment""	,  7,3 ,// c
10
,	42 ]:
    o ,
}
, // c
@leftPad(	'0'	) //	t
repeat	int64
    f32a`doc` ,  @tag( 4294967296)	@rightPad
    (
// trailing space 
//x
' ') @tag( 3)	o
`u8 x,` ,} packet	options1//x
{ // `tick` ""quote"" 'q'
char crc,
    rootA
//
// a // b
`a\` ,
    }
")).
Eval vm_compute in ("<<<M890>>>" ++ check (runes_of_ascii "packet chars	{}
    packet leftPad {
    // `tick` ""quote"" 'q'
    @tag(3 )
    // packet A { u8 x, }
    As @calculatedFrom( ""abc"" ) /// triple
, //x
repeat//
string
rootA // a // b
,
repeat	char[] falsey
    // c
    `{ , }`
, char[]
zchar @calculatedFrom(
    ""\" ++ [233]%N ++ runes_of_ascii """
    )
``
    ,  } MetaData lengthOf{char[
255  ] MetaDataX
`{ , }` ,
    // a // b
    } packet charz  { // 50% %s
i64
    charz , }
")).
Eval vm_compute in ("<<<M1227>>>" ++ check (runes_of_ascii "packet o
{repeat
int8 o
, }
MetaData i8i8{ falsey _x , leftPad
body
,char[
65535 ] float `two words`
    , f32
BodyLength , }
MetaData a1 {
    uint64 Header , packetx packetx `it's`, int16 lengthOf
, x x_y_z, } packet roots //x
{ @calculatedFrom(
""// no comment""
) x_y_z// packet A { u8 x, }
, } options	{tag =
string
    ; pack =65535; leftPad	=char[65535 ]
Z9_
    = ""`tick`"" ;
}

")).
Eval vm_compute in ("<<<M1204>>>" ++ check (runes_of_ascii "  packet
len{	u
Header
, // trailing space 
u128  , match _x as msg_type
    { 1	:	BodyLength , 42 : packetx ,
/// triple
//x
[
    ""{,}"" ] : //
chars
    // `tick` ""quote"" 'q'
    , [ ""`tick`"" , 0 ,""" ++ [233]%N ++ runes_of_ascii "t" ++ [233]%N ++ runes_of_ascii """ ,
65535
, //
""packet"",
    ""{,}""] //	t
: chars ,
    // packet A { u8 x, }
    3 :	packetx , 7	: crc ,
    }, } MetaData
    Z9_	{}
    packet repeatCount	{ //	t
}
")).
Eval vm_compute in ("<<<M564>>>" ++ check (runes_of_ascii "packet metadata {	@calculatedFrom(
""" ++ [128512]%N ++ runes_of_ascii """ //
)
    //
    repeat chars { repeat
falsey o
,
int32 falsey @calculatedFrom(
""`tick`"" ) ,
}	, }	options { // packet A { u8 x, }
falsey = ""1"" ;matchKey =
    string ;	BodyLength =""\" ++ [233]%N ++ runes_of_ascii """
    ;// " ++ [128512]%N ++ runes_of_ascii " emoji
calculatedFrom =true }packet
    Foo { _x
    falsey,string_ x_y_z`two words`
    , msg_type body
`say ""hi""`, }

")).
Eval vm_compute in ("<<<M104>>>" ++ check (runes_of_ascii "// a // b
root
packet falsey // " ++ [27880; 37322]%N ++ runes_of_ascii "
{ }
packet	i8i8 { char[] body `" ++ [233]%N ++ runes_of_ascii "` , }
packet
Logon  { @calculatedFrom( ""\n"") @tag(7 ) @calculatedFrom( ""1"" )
repeat  char[// " ++ [27880; 37322]%N ++ runes_of_ascii "
1
/// triple
// c
] float `" ++ [233]%N ++ runes_of_ascii "` ,
    @lengthOf( As
)
    // " ++ [27880; 37322]%N ++ runes_of_ascii "
    lengthOf@calculatedFrom( ""`tick`"" ), @lengthOf( Foo) repeat char[ 0123456789 ] a1 , Packet `tab	here` ,
}
")).
Eval vm_compute in ("<<<M165>>>" ++ check (runes_of_ascii "options { charz= ""x y""
    ;
}MetaData Pad
{
    }
packet As
{
    } packet
body { match matchKey as f32a{""a\\"" : tag ,007
:
    tag , 3 : //	t
Packet ,
[ // c
""{,}"" // packet A { u8 x, }
, ""a\\"" , ""{,}"" ]
:
// @lengthOf(
//x
MetaDataX  ,
// c
// " ++ [128512]%N ++ runes_of_ascii " emoji
} , repeat zchar[1 ]
    x_y_z `doc` ,
} packet BodyLength {
}")).
Eval vm_compute in ("<<<M366>>>" ++ check (runes_of_ascii "packet pack{ match
    options1 as
    trueish { 10 :	packetx , [ ""a\\""
// @lengthOf(
//x
,// 50% %s
00 ,
    // `tick` ""quote"" 'q'
    007
    // `tick` ""quote"" 'q'
    , 00 ]:
f32a// " ++ [128512]%N ++ runes_of_ascii " emoji
,[ 0123456789
, ""it's""
// a // b
// trailing space 
,""a\\""] :body , }
, a1 // a // b
`it's` , repeat
    A
,}
//	t
")).
Eval vm_compute in ("<<<M3380>>>" ++ check (runes_of_ascii "// top
packet
    // c0
B
    // c1
{
    // c2
u8 // c3
a // c4
, // c5
string // c6a
  // c6b
s // c7a
  // c7b
, }
    // c9
root
    // c10
packet P // c12
{ // c13
u16 // c14
L // c15a
  // c15b
@lengthOf( B // c17
) // c18
, B
    // c20
, // c21a
  // c21b
u8 // c22
t
    // c23
, } // c25
")).
Eval vm_compute in ("<<<M790>>>" ++ check (runes_of_ascii "packet
    Header
    {
char[] MetaDataX`" ++ [28040; 24687; 31867; 22411]%N ++ runes_of_ascii "`
, } packet Foo { int64 stringy
, int // `tick` ""quote"" 'q'
`" ++ [233]%N ++ runes_of_ascii "`
    ,repeat zchar[
00 ]
    Header
`" ++ [233]%N ++ runes_of_ascii "` ,
    crc pack
,	}options {/// triple
trueish
=
    //x
    ""abc"" ; u128 =
// packet A { u8 x, }
//
true ; stringy // a // b
=
7 ;	}
")).
Eval vm_compute in ("<<<M1082>>>" ++ check (runes_of_ascii "packet As{ // " ++ [128512]%N ++ runes_of_ascii " emoji
roots ,
    @tag( 00)
    Foo
// a // b
// 50% %s
, repeat int16 Z9_ ,
//x
// a // b
@lengthOf( u8x )u8x {
repeat uint64
asx , //	t
repeat int `two words` // packet A { u8 x, }
, char[ 1 ] uint8x@calculatedFrom(""\" ++ [233]%N ++ runes_of_ascii """	) ,
    }
, } // trailing space ")).
Eval vm_compute in ("<<<M1607>>>" ++ check (runes_of_ascii "// 50% %s
packet	a1
    { zchar[
// a // b
// 50% %s
007]
T `it's`
    ,@rightPad
    // a // b
    (
'\x00')
    o repeatCount , }  packet Logon Logon {  }packet	Logon //x
{ repeat // " ++ [128512]%N ++ runes_of_ascii " emoji
uint16 u128
    //
    `a\`,
falsey
@calculatedFrom(""packet"" ) ,
    } 	 ")).
Eval vm_compute in ("<<<M1542>>>" ++ check (runes_of_ascii "// 50% %s
packet	a1
    { zchar[
// a // b
// 50% %s
007] ]
T `it's`
    ,@rightPad
    // a // b
    (
'\x00')
    o repeatCount , }  packet Logon {  }packet	Logon //x
{ repeat // " ++ [128512]%N ++ runes_of_ascii " emoji
uint16 u128
    //
    `a\`,
falsey
@calculatedFrom(""packet"" ) ,
    } 	 ")).
Eval vm_compute in ("<<<M1700>>>" ++ check (runes_of_ascii "// 50% %s
packet	a1
    { zchar[
// a // b
// 50% %s
007]
T `it's`
    ,@rightPad
    // a // b
    (
'\x00')
    o repeatCount , }  packet Logon <{  }packet	Logon //x
{ repeat // " ++ [128512]%N ++ runes_of_ascii " emoji
uint16 u128
    //
    `a\`,
falsey
@calculatedFrom(""packet"" ) ,
    } 	 ")).
Eval vm_compute in ("<<<M1653>>>" ++ check (runes_of_ascii "// 50% %s
packet	a1
    { zchar[
// a // b
// 50% %s
007]
T `it's`
    ,@rightPad
    // a // b
    (
'\x00')
    o repeatCount , }  packet Logon {  }packet	Logon //x
{ repeat // " ++ [128512]%N ++ runes_of_ascii " emoji
uint16 u128
    //
    ,`a\`
falsey
@calculatedFrom(""packet"" ) ,
    } 	 ")).
Eval vm_compute in ("<<<M1644>>>" ++ check (runes_of_ascii "// 50% %s
packet	a1
    { zchar[
// a // b
// 50% %s
007]
T `it's`
    ,@rightPad
    // a // b
    (
'\x00')
    o repeatCount , }  packet Logon {  }packet	Logon //x
{ repeat // " ++ [128512]%N ++ runes_of_ascii " emoji
root u128
    //
    `a\`,
falsey
@calculatedFrom(""packet"" ) ,
    } 	 ")).
Eval vm_compute in ("<<<M1601>>>" ++ check (runes_of_ascii "// 50% %s
packet	a1
    { zchar[
// a // b
// 50% %s
007]
T `it's`
    ,@rightPad
    // a // b
    (
'\x00')
    o repeatCount , }   Logon {  }packet	Logon //x
{ repeat // " ++ [128512]%N ++ runes_of_ascii " emoji
uint16 u128
    //
    `a\`,
falsey
@calculatedFrom(""packet"" ) ,
    } 	 ")).
Eval vm_compute in ("<<<M3569>>>" ++ check (runes_of_ascii "  packet
    zchar	{	Logon  a1
	, u128`
`,
@lengthOf( charz )

i64
	u8x
@lengthOf( msg_type) 
`// not a comment`
, repeat	roots
	a1 
,
    asx	msg_type
	`crlf
line`

    ,@tag(
    42
)
        /// triple
  u64	metadata
    `{ , }`

    , 
}

")).
Eval vm_compute in ("<<<M429>>>" ++ check (runes_of_ascii "options
{ roots =
    007 u128 =
""abc"" zchar
    =
    // 50% %s
    int16
;// packet A { u8 x, }
} root
packet
Z9_ // 50% %s
{ }MetaData
u // " ++ [27880; 37322]%N ++ runes_of_ascii "
{ repeatCount u, chars uint8x// c
,char[]
    packetx  , uint16 T `two words` , _x T  , }

")).
Eval vm_compute in ("<<<M3631>>>" ++ check (runes_of_ascii "options {
    // a // b
}

packet lengthOf {
    // trailing space 
    u64 string_ @lengthOf(MetaDataX),
}

MetaData _x {
    char[] leftPad `" ++ [233]%N ++ runes_of_ascii "`,
    i64 a1,
    float32 A `{ , }`,
    i16 crc,
    MetaDataX metadata `say ""hi""`,
}")).
Eval vm_compute in ("<<<M317>>>" ++ check (runes_of_ascii "
packet
// a // b
// packet A { u8 x, }
i8i8 {u@calculatedFrom(
""" ++ [233]%N ++ runes_of_ascii "t" ++ [233]%N ++ runes_of_ascii """)
`doc`
    ,
} // packet A { u8 x, }
options
    {
u8x =true x_y_z = ' ' ;  }
//x
/// triple
MetaData BodyLength{ u128// `tick` ""quote"" 'q'
float ,}")).
Eval vm_compute in ("<<<M4152>>>" ++ check (runes_of_ascii "MetaData zchar {
    char[] rootA,
}

MetaData roots {
    int16 Logon,
    u32 matchKey `say ""hi""`,
    char[00] f32a `line1
    line2`,// trailing space 
    packetx matchKey,
}

MetaData u {
    string len,
}")).
Eval vm_compute in ("<<<M673>>>" ++ check (runes_of_ascii "
MetaData x { Logon a1
    `two words` , }
options { roots =	""" ++ [128512]%N ++ runes_of_ascii """;} options
    {	u8x	= ""a	b""lengthOf = ""// no comment""; T  = float64 ;
} // a // b
packet
MetaDataX
{ metadata trueish  `100% of %d` , }
")).
Eval vm_compute in ("<<<M373>>>" ++ check (runes_of_ascii "// c
options {// a // b
}
packet chars	{
Foo
repeatCount, } root packet BodyLength { // c
@leftPad (
) repeat x_y_z {string_
/// triple
// packet A { u8 x, }
metadata `two words`
,}
    ,	}")).
Eval vm_compute in ("<<<M578>>>" ++ check (runes_of_ascii "packet BodyLength {	} options {Logon
    // " ++ [128512]%N ++ runes_of_ascii " emoji
    = ""CRC32"" ;_x
//	t
// 50% %s
= 3 pack
= '\x00' options1=
    true Pad	= 4294967296 }
packet falsey{ i32 pack `crlf
line`, }
")).
Eval vm_compute in ("<<<M979>>>" ++ check (runes_of_ascii "root
packet
    roots
{
    repeat stringy uint8x
, repeatCount {char metadata @lengthOf(_x ) // @lengthOf(
`crlf
line`,
    //
    repeatCount { char msg_type ,} ,	}, }")).
Eval vm_compute in ("<<<M3288>>>" ++ check (runes_of_ascii "// top
packet // c0a
  // c0b
u8x { } MetaData // c4
crc // c5
{
    // c6
char[ // c7
4294967296 // c8
] // c9a
  // c9b
Foo // c10a
  // c10b
, // c11
}
    // c12
")).
Eval vm_compute in ("<<<M155>>>" ++ check (runes_of_ascii "MetaData matchKey { calculatedFrom A `
` ,  }
    options { tag=
""\" ++ [233]%N ++ runes_of_ascii """ ; Logon = ' '
    Header
= true ; } options { packetx = zchar[
    // " ++ [128512]%N ++ runes_of_ascii " emoji
    3  ]}
")).
Eval vm_compute in ("<<<M2081>>>" ++ check (runes_of_ascii "MetaData BodyLength
{ int8 Foo
, string
    MetaDataX MetaDataX , float zchar ,pack options1
,asx string_, }
packet u8x {Foo@lengthOf(charz )
`" ++ [28040; 24687; 31867; 22411]%N ++ runes_of_ascii "`,  }
")).
Eval vm_compute in ("<<<M357>>>" ++ check (runes_of_ascii "options { asx
= true //
Header = char[4294967296
    ]
;pack
    // " ++ [128512]%N ++ runes_of_ascii " emoji
    =//x
1;
    x_y_z =
42 ;
//
// " ++ [128512]%N ++ runes_of_ascii " emoji
Z9_
    =
    zchar[ 7 ] }
")).
Eval vm_compute in ("<<<M2116>>>" ++ check (runes_of_ascii "MetaData BodyLength
{ int8 Foo
, string
    MetaDataX , float zchar ,pack options1
, ,asx string_, }
packet u8x {Foo@lengthOf(charz )
`" ++ [28040; 24687; 31867; 22411]%N ++ runes_of_ascii "`,  }
")).
Eval vm_compute in ("<<<M2200>>>" ++ check (runes_of_ascii "MetaData BodyLength
{ int8 Foo
, stri~ng
    MetaDataX , float zchar ,pack options1
,asx string_, }
packet u8x {Foo@lengthOf(charz )
`" ++ [28040; 24687; 31867; 22411]%N ++ runes_of_ascii "`,  }
")).
Eval vm_compute in ("<<<M2133>>>" ++ check (runes_of_ascii "MetaData BodyLength
{ int8 Foo
, string
    MetaDataX , float zchar ,pack options1
,asx string_{ }
packet u8x {Foo@lengthOf(charz )
`" ++ [28040; 24687; 31867; 22411]%N ++ runes_of_ascii "`,  }
")).
Eval vm_compute in ("<<<M2180>>>" ++ check (runes_of_ascii "MetaData BodyLength
{ int8 Foo
, string
    MetaDataX , float zchar ,pack options1
,asx string_, }
packet u8x {Foo@lengthOf(charz )
`" ++ [28040; 24687; 31867; 22411]%N ++ runes_of_ascii "`  }
")).
Eval vm_compute in ("<<<M2063>>>" ++ check (runes_of_ascii "MetaData BodyLength
{ ; Foo
, string
    MetaDataX , float zchar ,pack options1
,asx string_, }
packet u8x {Foo@lengthOf(charz )
`" ++ [28040; 24687; 31867; 22411]%N ++ runes_of_ascii "`,  }
")).
Eval vm_compute in ("<<<M2343>>>" ++ check (runes_of_ascii "options
    {
x_y_z// " ++ [27880; 37322]%N ++ runes_of_ascii "
= 10 ; }
packet body {
    @calculatedFrom(
// trailing space 
// " ++ [27880; 37322]%N ++ runes_of_ascii "
""1""
)	match T as Foo
    '1' {
255 :T , }
,}")).
Eval vm_compute in ("<<<M2017>>>" ++ check (runes_of_ascii "
packet leftPad {
@leftPad( '0')
u32
i64_ `100% of %d` ,repeat// 50% %s
i8 chars
    ,
} MetaData
    f32a
{ { // packet A { u8 x, }
}")).
Eval vm_compute in ("<<<M952>>>" ++ check (runes_of_ascii "packet chars { char[]
    Pad @lengthOf( u128 )
    // a // b
    `it's`,
@tag( 4294967296
    )
    MetaDataX tag`` , Logon `{ , }` ,}
")).
Eval vm_compute in ("<<<M1948>>>" ++ check (runes_of_ascii "
packet leftPad {
@leftPad'0' ()
u32
i64_ `100% of %d` ,repeat// 50% %s
i8 chars
    ,
} MetaData
    f32a
{ // packet A { u8 x, }
}")).
Eval vm_compute in ("<<<M2260>>>" ++ check (runes_of_ascii "options
    {
x_y_z// " ++ [27880; 37322]%N ++ runes_of_ascii "
= 10 ; }
packet body {
    ""1""
// trailing space 
// " ++ [27880; 37322]%N ++ runes_of_ascii "
@calculatedFrom(
)	match T as Foo
    {
255 :T , }
,}")).
Eval vm_compute in ("<<<M2080>>>" ++ check (runes_of_ascii "MetaData BodyLength
{ int8 Foo
, string
     , float zchar ,pack options1
,asx string_, }
packet u8x {Foo@lengthOf(charz )
`" ++ [28040; 24687; 31867; 22411]%N ++ runes_of_ascii "`,  }
")).
Eval vm_compute in ("<<<M2276>>>" ++ check (runes_of_ascii "options
    {
x_y_z// " ++ [27880; 37322]%N ++ runes_of_ascii "
= 10 ; }
packet body {
    @calculatedFrom(
// trailing space 
// " ++ [27880; 37322]%N ++ runes_of_ascii "
""1""
)	i16 T as Foo
    {
255 :T , }
,}")).
Eval vm_compute in ("<<<M2413>>>" ++ check (runes_of_ascii "MetaData
    calculatedFrom
{ zchar[  10 ]
    " ++ [127]%N ++ runes_of_ascii " As`tab	here`,
    }// trailing space 
options  { roots ='\x00' ; } packet A
{ }
")).
Eval vm_compute in ("<<<M2416>>>" ++ check (runes_of_ascii "MetaData
    calculatedFrom
{ 10  zchar[ ]
    As`tab	here`,
    }// trailing space 
options  { roots ='\x00' ; } packet A
{ }
")).
Eval vm_compute in ("<<<M3976>>>" ++ check (runes_of_ascii "MetaData uint8x {
    leftPad Pad `crlf
    line`,
    char[3] falsey,
    zchar[0123456789] a1,
    string float `{ , }`,
}")).
Eval vm_compute in ("<<<M1163>>>" ++ check (runes_of_ascii "MetaData A {
    } packet zchar
// packet A { u8 x, }
// `tick` ""quote"" 'q'
{
    /// triple
    } options { } /// triple")).
Eval vm_compute in ("<<<M853>>>" ++ check (runes_of_ascii "MetaData leftPad
    // c
    {
int8  falsey
    `line1
line2`,
    } /// triple
options
{BodyLength = //	t
'0'
; }")).
Eval vm_compute in ("<<<M3397>>>" ++ check (runes_of_ascii "// top
root // c0a
  // c0b
packet // c1a
  // c1b
P
    // c2
{
    // c3
string // c4
s // c5
, // c6a
  // c6b
} ")).
Eval vm_compute in ("<<<M1844>>>" ++ check (runes_of_ascii "packet o {
    `it's` roots
// trailing space 
//x
, char[ 42
    ]  A, // " ++ [27880; 37322]%N ++ runes_of_ascii "
f64
repeatCount
    `crlf
line`
,}")).
Eval vm_compute in ("<<<M3846>>>" ++ check (runes_of_ascii "
packet A{ u16 len  @lengthOf(
body 
) 
`a
b`
,	u32
crc
    @calculatedFrom(""CRC32""  ) `a
b`
, string body,	} ")).
Eval vm_compute in ("<<<M3431>>>" ++ check (runes_of_ascii "

  packet
FooBar
{

    u8
a ,
	}  packet  foo_bar {  u16
	b
    ,} root packet

R { FooBar
,foo_bar
,  } ")).
Eval vm_compute in ("<<<M3387>>>" ++ check (runes_of_ascii "options {

FixedStringPadFromLeft =
true;	}
	root

    packet

    P { 
char[

    4

    ]z
,

}
")).
Eval vm_compute in ("<<<M3923>>>" ++ check (runes_of_ascii "packet	A	{

    repeat crc  uint8x // @lengthOf(
	,@calculatedFrom(
	""it's""	)
uint64

Logon`a\`

,
}
")).
Eval vm_compute in ("<<<M3061>>>" ++ check (runes_of_ascii "packet A {
    B b `100% of %s %d %v`,
    B `100% of %s %d %v`,
    repeat B bs `100% of %s %d %v`,
}")).
Eval vm_compute in ("<<<M194>>>" ++ check (runes_of_ascii "options{
lengthOf =
// packet A { u8 x, }
// c
""a	b"";} root packet //	t
body
{ f32a Foo , //x
}")).
Eval vm_compute in ("<<<M3000>>>" ++ check (runes_of_ascii "packet A {
  match k as n {
    [1, 22, 007, 4, 5, 66, 7, 8, 9, 10, 11, 12] : B
    2 : C
  },
}")).
Eval vm_compute in ("<<<M2981>>>" ++ check (runes_of_ascii "packet A {
  match k as n {
    [1, 22, ""c c"", 4, 5, ""f"", 7, 8, ""i"", 10] : B,
    2 : C
  },
}")).
Eval vm_compute in ("<<<M1423>>>" ++ check (runes_of_ascii "packet
T
{ { match repeatCount as	calculatedFrom
{ [65535 ]	: As	,
} ,}
// trailing space 
")).
Eval vm_compute in ("<<<M1508>>>" ++ check (runes_of_ascii "packet
T
{ match repeatCount as	cal" ++ [127]%N ++ runes_of_ascii "culatedFrom
{ [65535 ]	: As	,
} ,}
// trailing space 
")).
Eval vm_compute in ("<<<M1474>>>" ++ check (runes_of_ascii "packet
T
{ match repeatCount as	calculatedFrom
{ [65535 ]	: ,	As
} ,}
// trailing space 
")).
Eval vm_compute in ("<<<M1753>>>" ++ check (runes_of_ascii "options{  lengthOf =//x
i16;
    BodyLength = packet ; pack
= false;
    A = char[ 3 ] }")).
Eval vm_compute in ("<<<M1816>>>" ++ check (runes_of_ascii "options{  lengthOf =//x
i16;
    BodyLength = 0 ; pack
= false;
    A = char[ 3'1' ] }")).
Eval vm_compute in ("<<<M2924>>>" ++ check (runes_of_ascii "packet A {
  match k as n {
    [""a"", ""bb"", ""c c"", ""d"", ""e"", ""f""] : B
    2 : C
  },
}")).
Eval vm_compute in ("<<<M1413>>>" ++ check (runes_of_ascii "
T
{ match repeatCount as	calculatedFrom
{ [65535 ]	: As	,
} ,}
// trailing space 
")).
Eval vm_compute in ("<<<M1715>>>" ++ check (runes_of_ascii "options  lengthOf =//x
i16;
    BodyLength = 0 ; pack
= false;
    A = char[ 3 ] }")).
Eval vm_compute in ("<<<M2947>>>" ++ check (runes_of_ascii "packet A {
  match k as n {
    [1, 22, 007, 4, 5, 66, 7, 8] : B,
    2 : C
  },
}")).
Eval vm_compute in ("<<<M107>>>" ++ check (runes_of_ascii "root packet	repeatCount {
    // @lengthOf(
    @tag( 42 )
int64 lengthOf , }
")).
Eval vm_compute in ("<<<M3258>>>" ++ check (runes_of_ascii "MetaData Foo { zchar[ 0 ] matchKey
// c
, } options { lengthOf = i32 u = 00 ; }")).
Eval vm_compute in ("<<<M2935>>>" ++ check (runes_of_ascii "packet A {
  match k as n {
    [1, 22, 007, 4, 5, 66, 7] : B
    2 : C
  },
}")).
Eval vm_compute in ("<<<M2913>>>" ++ check (runes_of_ascii "packet A {
  match k as n {
    [1, ""bb"", 007, ""d"", 5] : B
    2 : C
  },
}")).
Eval vm_compute in ("<<<M1222>>>" ++ check (runes_of_ascii "packet Foo { match body as leftPad{ 4294967296  :/// triple
tag , } , }
")).
Eval vm_compute in ("<<<M646>>>" ++ check (runes_of_ascii "packet
    msg_type
{ @rightPad (
' ')u32 a1, u8x
@lengthOf( crc ) , }")).
Eval vm_compute in ("<<<M2896>>>" ++ check (runes_of_ascii "packet A {
  match k as n {
    [1, 22, 007, 4] : B
    2 : C
  },
}")).
Eval vm_compute in ("<<<M3019>>>" ++ check (runes_of_ascii "packet A {
    B b `a
b`,
    B `a
b`,
    repeat B bs `a
b`,
}")).
Eval vm_compute in ("<<<M4140>>>" ++ check (runes_of_ascii "MetaData trueish {
    T Pad,
    char[] _x,
}// trailing space ")).
Eval vm_compute in ("<<<M656>>>" ++ check (runes_of_ascii "MetaData i8i8
    /// triple
    {char[
1 ] // 50% %s
Foo ,}
")).
Eval vm_compute in ("<<<M3314>>>" ++ check (runes_of_ascii "packet u8x { } MetaData crc { char[ 4294967296 ] Foo ,
// c
}")).
Eval vm_compute in ("<<<M3783>>>" ++ check (runes_of_ascii "

  // c
      root packet u128

    {
	chars `doc` 
, 
}")).
Eval vm_compute in ("<<<M3686>>>" ++ check (runes_of_ascii "
MetaData

    options1
{

    Packet 
roots
,
}
")).
Eval vm_compute in ("<<<M431>>>" ++ check (runes_of_ascii "root
packet i8i8 {
repeat int8 tag
`two words`
,}
")).
Eval vm_compute in ("<<<M2028>>>" ++ check (runes_of_ascii "
packet leftPad {
@leftPad( '0')
u32
i64_ `100% ")).
Eval vm_compute in ("<<<M4222>>>" ++ check (runes_of_ascii "
packet 
u8x 

    //	t
      // 50% %s
	{
}
")).
Eval vm_compute in ("<<<M1754>>>" ++ check (runes_of_ascii "options{  lengthOf =//x
i16;
    BodyLength =")).
Eval vm_compute in ("<<<M2609>>>" ++ check (runes_of_ascii "packet A { B { match k as n { 1 : C }, }, }")).
Eval vm_compute in ("<<<M3035>>>" ++ check (runes_of_ascii "root packet A {
    u8 x `a
    b
  c`,
}")).
Eval vm_compute in ("<<<M4429>>>" ++ check (runes_of_ascii "root
	packet P
    {
char
	c
	,u8	x
	,}
")).
Eval vm_compute in ("<<<M1191>>>" ++ check (runes_of_ascii "// a // b
packet// " ++ [128512]%N ++ runes_of_ascii " emoji
trueish{ }
")).
Eval vm_compute in ("<<<M2622>>>" ++ check (runes_of_ascii "packet A { match as as n { 1 : B }, }")).
Eval vm_compute in ("<<<M3741>>>" ++ check (runes_of_ascii "packet A {
    u8 x `a
        b`,
}")).
Eval vm_compute in ("<<<M2360>>>" ++ check (runes_of_ascii "MetaData
Foo Header //
pack ,	} 	 ")).
Eval vm_compute in ("<<<M313>>>" ++ check (runes_of_ascii "// a // b
 // packet A { u8 x, }")).
Eval vm_compute in ("<<<M880>>>" ++ check (runes_of_ascii "options { leftPad
=
    false }")).
Eval vm_compute in ("<<<M3099>>>" ++ check (runes_of_ascii "packet A {
 u8 x `d" ++ [12288]%N ++ runes_of_ascii "`, // c" ++ [12288]%N ++ runes_of_ascii "
}")).
Eval vm_compute in ("<<<M3704>>>" ++ check (runes_of_ascii "root packet tag {
}// " ++ [128512]%N ++ runes_of_ascii " emoji")).
Eval vm_compute in ("<<<M971>>>" ++ check (runes_of_ascii "root packet MetaDataX {  }
")).
Eval vm_compute in ("<<<M2601>>>" ++ check (runes_of_ascii "packet A { u8 x @tag(1), }")).
Eval vm_compute in ("<<<M1142>>>" ++ check (runes_of_ascii "
 // `tick` ""quote"" 'q'")).
Eval vm_compute in ("<<<M2796>>>" ++ check (runes_of_ascii "k~" ++ [65533; 65533; 65533; 28; 65533]%N ++ runes_of_ascii "." ++ [65533; 65533; 65533; 1006; 14; 65533; 65533; 65533; 65533]%N ++ runes_of_ascii "
F" ++ [65533; 65533; 65533; 16]%N)).
Eval vm_compute in ("<<<M2655>>>" ++ check (runes_of_ascii "MetaData M { x y z, }")).
Eval vm_compute in ("<<<M668>>>" ++ check (runes_of_ascii "  packet u8x { } 	 ")).
Eval vm_compute in ("<<<M1945>>>" ++ check (runes_of_ascii "
packet leftPad {")).
Eval vm_compute in ("<<<M3152>>>" ++ check (runes_of_ascii "packet A {
}
// c" ++ [12]%N)).
Eval vm_compute in ("<<<M3090>>>" ++ check (runes_of_ascii "packet A {
}// c ")).
Eval vm_compute in ("<<<M2668>>>" ++ check (runes_of_ascii "options { a 1; }")).
Eval vm_compute in ("<<<M2641>>>" ++ check (runes_of_ascii "packet A { } 1")).
Eval vm_compute in ("<<<M4367>>>" ++ check (runes_of_ascii "packet A {
}")).
Eval vm_compute in ("<<<M2736>>>" ++ check (runes_of_ascii "match u32")).
Eval vm_compute in ("<<<M2475>>>" ++ check (runes_of_ascii "matches")).
Eval vm_compute in ("<<<M3724>>>" ++ check (runes_of_ascii "// c" ++ [8232]%N ++ runes_of_ascii "
")).
Eval vm_compute in ("<<<M3106>>>" ++ check (runes_of_ascii "// c" ++ [133]%N)).
Eval vm_compute in ("<<<M2549>>>" ++ check (runes_of_ascii "{}{}")).
Eval vm_compute in ("<<<M2541>>>" ++ check (runes_of_ascii "a_b")).
Eval vm_compute in ("<<<M2563>>>" ++ check ([233]%N ++ runes_of_ascii "a")).
