From FP Require Import PT Flatten ShowPT Visitor VisitorShow Faults Spelling NoPanic.
From FP Require BModel.
From Coq Require Import String List NArith.
Import ListNotations.
Open Scope string_scope.
Set Printing Width 100000000.
Set Printing Depth 100000000.
Fixpoint bs (l : list nat) : string := match l with [] => EmptyString | n :: r => String (Ascii.ascii_of_nat n) (bs r) end.
Definition T_ (b : bool) : string := if b then "T" else "F".
Definition t51 : pt := (mkPacket (mkPtok 1 "options" 1 0 0) (Some (mkPtok 3 "}" 1 113 33)) [(DOption (mkOptionDef (mkSpan (mkPtok 1 "options" 1 0 0) (mkPtok 3 "}" 1 41 6)) (mkPtok 1 "options" 1 0 0) (mkPtok 2 "{" 1 8 1) [(mkOptionDecl (mkSpan (mkPtok 42 "FixedStringPadFromLeft" 1 10 2) (mkPtok 41 ";" 1 39 5)) (mkPtok 42 "FixedStringPadFromLeft" 1 10 2) (mkPtok 4 "=" 1 33 3) (VTrue (mkSpan (mkPtok 10 "true" 1 35 4) (mkPtok 10 "true" 1 35 4)) (mkPtok 10 "true" 1 35 4)) (Some (mkPtok 41 ";" 1 39 5)))] (mkPtok 3 "}" 1 41 6))); (DPacket (mkPacketDef (mkSpan (mkPtok 35 "packet" 1 43 7) (mkPtok 3 "}" 1 65 15)) None (mkPtok 35 "packet" 1 43 7) (mkPtok 42 "B" 1 50 8) (mkPtok 2 "{" 1 52 9) [(mkFieldWithAttr (mkSpan (mkPtok 12 "char[" 1 54 10) (mkPtok 40 "," 1 63 14)) [] (MetaField (mkSpan (mkPtok 12 "char[" 1 54 10) (mkPtok 40 "," 1 63 14)) None (mkMetaDecl (mkSpan (mkPtok 12 "char[" 1 54 10) (mkPtok 40 "," 1 63 14)) (TyFixed (mkSpan (mkPtok 12 "char[" 1 54 10) (mkPtok 13 "]" 1 60 12)) (mkFixedString (mkSpan (mkPtok 12 "char[" 1 54 10) (mkPtok 13 "]" 1 60 12)) (mkPtok 12 "char[" 1 54 10) (mkPtok 30 "4" 1 59 11) (mkPtok 13 "]" 1 60 12))) (mkPtok 42 "x" 1 62 13) None (mkPtok 40 "," 1 63 14))))] (mkPtok 3 "}" 1 65 15))); (DPacket (mkPacketDef (mkSpan (mkPtok 34 "root" 1 67 16) (mkPtok 3 "}" 1 113 33)) (Some (mkPtok 34 "root" 1 67 16)) (mkPtok 35 "packet" 1 72 17) (mkPtok 42 "A" 1 79 18) (mkPtok 2 "{" 1 81 19) [(mkFieldWithAttr (mkSpan (mkPtok 20 "u8" 1 83 20) (mkPtok 40 "," 1 87 22)) [] (MetaField (mkSpan (mkPtok 20 "u8" 1 83 20) (mkPtok 40 "," 1 87 22)) None (mkMetaDecl (mkSpan (mkPtok 20 "u8" 1 83 20) (mkPtok 40 "," 1 87 22)) (TyBasic (mkSpan (mkPtok 20 "u8" 1 83 20) (mkPtok 20 "u8" 1 83 20)) (mkBasicType (mkSpan (mkPtok 20 "u8" 1 83 20) (mkPtok 20 "u8" 1 83 20)) (mkPtok 20 "u8" 1 83 20))) (mkPtok 42 "k" 1 86 21) None (mkPtok 40 "," 1 87 22)))); (mkFieldWithAttr (mkSpan (mkPtok 38 "match" 1 89 23) (mkPtok 40 "," 1 111 32)) [] (MatchField (mkSpan (mkPtok 38 "match" 1 89 23) (mkPtok 40 "," 1 111 32)) (mkMatchFieldDecl (mkSpan (mkPtok 38 "match" 1 89 23) (mkPtok 3 "}" 1 110 31)) (mkPtok 38 "match" 1 89 23) (mkPtok 42 "k" 1 95 24) (mkPtok 17 "as" 1 97 25) (mkPtok 42 "m" 1 100 26) (mkPtok 2 "{" 1 102 27) [(mkMatchPair (mkSpan (mkPtok 30 "1" 1 104 28) (mkPtok 42 "B" 1 108 30)) (MKDigits (mkPtok 30 "1" 1 104 28)) (mkPtok 39 ":" 1 106 29) (mkPtok 42 "B" 1 108 30) None)] (mkPtok 3 "}" 1 110 31)) (mkPtok 40 "," 1 111 32)))] (mkPtok 3 "}" 1 113 33)))]).
Eval vm_compute in ("<<<W51_alias_short>>>" ++ sh_escaped (render (rw_alias_short t51)) "").
Eval vm_compute in ("<<<W51_alias_long>>>" ++ sh_escaped (render (rw_alias_long t51)) "").
Eval vm_compute in ("<<<W51_alias_long_opts>>>" ++ sh_escaped (render (rw_alias_long_opts t51)) "").
Eval vm_compute in ("<<<W51_zchar>>>" ++ sh_escaped (render (rw_zchar t51)) "").
Eval vm_compute in ("<<<W51_drop_default_pad>>>" ++ sh_escaped (render (rw_drop_default_pad t51)) "").
Eval vm_compute in ("<<<W51_add_default_pad>>>" ++ sh_escaped (render (rw_add_default_pad t51)) "").
Eval vm_compute in ("<<<W51_prefix_attr>>>" ++ sh_escaped (render (rw_prefix_attr t51)) "").
Eval vm_compute in ("<<<W51_default_options>>>" ++ sh_escaped (render (rw_default_options t51)) "").
Eval vm_compute in ("<<<W51_expand_keys>>>" ++ sh_escaped (render (rw_expand_keys t51)) "").
Eval vm_compute in ("<<<W51_inline_meta>>>" ++ sh_escaped (render (rw_inline_meta t51)) "").
Eval vm_compute in ("<<<W51_seps_all>>>" ++ sh_escaped (render (rw_seps_all t51)) "").
Eval vm_compute in ("<<<W51_seps_none>>>" ++ sh_escaped (render (rw_seps_none t51)) "").
Eval vm_compute in ("<<<W51_drop_docs>>>" ++ sh_escaped (render (rw_drop_docs t51)) "").
