From FP Require Import Lexer Parser ShowPT Digest.
From Coq Require Import String List NArith.
Import ListNotations.
Open Scope string_scope.
Set Printing Width 100000000.
Set Printing Depth 100000000.
Definition nl : string := String (Ascii.ascii_of_nat 10) EmptyString.
Definition model_lex (rs : list rune) : string := show_toks (lex rs).
Definition model_parse (rs : list rune) : string :=
  show_pt (match lex rs with Some ts => parse ts | None => None end).
(* coqc is slow at printing long strings: digests first (Digest.v), full texts on demand *)
Definition check (rs : list rune) : string :=
  digest (model_lex rs) ++ " " ++ digest (model_parse rs).
Definition full (rs : list rune) : string := model_lex rs ++ nl ++ model_parse rs.
Definition terms (ts : list tok) (t : pt) : string :=
  digest (show_toks (Some ts)) ++ " " ++ digest (show_pt (Some t)) ++ " " ++ digest (show_pt (parse ts)).
Definition terms_full (ts : list tok) (t : pt) : string :=
  show_toks (Some ts) ++ nl ++ show_pt (Some t) ++ nl ++ show_pt (parse ts).
Eval vm_compute in ("<<<M4>>>" ++ check (runes_of_ascii "packet // a // b
tag {
    char[ 7]
body
@calculatedFrom( ""a	b"")
// trailing space 
// trailing space 
,
}")).
Eval vm_compute in ("<<<M14>>>" ++ check (runes_of_ascii "MetaData	packetx {
    packetx i64_ `say ""hi""` ,  } options {
    } packet string_ {
@lengthOf(repeatCount ) len
{ zchar[ 10]
// " ++ [128512]%N ++ runes_of_ascii " emoji
// `tick` ""quote"" 'q'
u128 ,
    f32
    falsey`say ""hi""`
,uint16// a // b
f32a
    `crlf
line`
,
    } , }
// " ++ [27880; 37322]%N ++ runes_of_ascii "
")).
Eval vm_compute in ("<<<M24>>>" ++ check (runes_of_ascii "packet _x { int32 u , @tag(3)char[ 255]
    // @lengthOf(
    A
    @calculatedFrom( ""x y""
    )
`crlf
line`,
    }")).
Eval vm_compute in ("<<<M34>>>" ++ check (runes_of_ascii "options{// `tick` ""quote"" 'q'
len // `tick` ""quote"" 'q'
= """ ++ [28040; 24687]%N ++ runes_of_ascii """;
options1 = // " ++ [27880; 37322]%N ++ runes_of_ascii "
int32 zchar	=
    ""1"" ;float
= true tag =""" ++ [28040; 24687]%N ++ runes_of_ascii """ ; } MetaData u128 { msg_type i8i8 `doc` ,	o body
, }
")).
Eval vm_compute in ("<<<T34>>>" ++ terms [mkTok 1 "options" 1 0 false; mkTok 2 "{" 1 7 false; mkTok 44 "// `tick` ""quote"" 'q'" 1 8 true; mkTok 42 "len" 2 0 false; mkTok 44 "// `tick` ""quote"" 'q'" 2 4 true; mkTok 4 "=" 3 0 false; mkTok 31 (string_of_bytes [34; 230; 182; 136; 230; 129; 175; 34]%N) 3 2 false; mkTok 41 ";" 3 6 false; mkTok 42 "options1" 4 0 false; mkTok 4 "=" 4 9 false; mkTok 44 (string_of_bytes [47; 47; 32; 230; 179; 168; 233; 135; 138]%N) 4 11 true; mkTok 26 "int32" 5 0 false; mkTok 42 "zchar" 5 6 false; mkTok 4 "=" 5 12 false; mkTok 31 """1""" 6 4 false; mkTok 41 ";" 6 8 false; mkTok 42 "float" 6 9 false; mkTok 4 "=" 7 0 false; mkTok 10 "true" 7 2 false; mkTok 42 "tag" 7 7 false; mkTok 4 "=" 7 11 false; mkTok 31 (string_of_bytes [34; 230; 182; 136; 230; 129; 175; 34]%N) 7 12 false; mkTok 41 ";" 7 17 false; mkTok 3 "}" 7 19 false; mkTok 37 "MetaData" 7 21 false; mkTok 42 "u128" 7 30 false; mkTok 2 "{" 7 35 false; mkTok 42 "msg_type" 7 37 false; mkTok 42 "i8i8" 7 46 false; mkTok 43 "`doc`" 7 51 false; mkTok 40 "," 7 57 false; mkTok 42 "o" 7 59 false; mkTok 42 "body" 7 61 false; mkTok 40 "," 8 0 false; mkTok 3 "}" 8 2 false; mkTok 0 "<EOF>" 9 0 false] (mkPacket (mkPtok 1 "options" 1 0 0) (Some (mkPtok 3 "}" 8 2 34)) [(DOption (mkOptionDef (mkSpan (mkPtok 1 "options" 1 0 0) (mkPtok 3 "}" 7 19 23)) (mkPtok 1 "options" 1 0 0) (mkPtok 2 "{" 1 7 1) [(mkOptionDecl (mkSpan (mkPtok 42 "len" 2 0 3) (mkPtok 41 ";" 3 6 7)) (mkPtok 42 "len" 2 0 3) (mkPtok 4 "=" 3 0 5) (VString (mkSpan (mkPtok 31 (string_of_bytes [34; 230; 182; 136; 230; 129; 175; 34]%N) 3 2 6) (mkPtok 31 (string_of_bytes [34; 230; 182; 136; 230; 129; 175; 34]%N) 3 2 6)) (mkPtok 31 (string_of_bytes [34; 230; 182; 136; 230; 129; 175; 34]%N) 3 2 6)) (Some (mkPtok 41 ";" 3 6 7))); (mkOptionDecl (mkSpan (mkPtok 42 "options1" 4 0 8) (mkPtok 26 "int32" 5 0 11)) (mkPtok 42 "options1" 4 0 8) (mkPtok 4 "=" 4 9 9) (VType (mkSpan (mkPtok 26 "int32" 5 0 11) (mkPtok 26 "int32" 5 0 11)) (TyBasic (mkSpan (mkPtok 26 "int32" 5 0 11) (mkPtok 26 "int32" 5 0 11)) (mkBasicType (mkSpan (mkPtok 26 "int32" 5 0 11) (mkPtok 26 "int32" 5 0 11)) (mkPtok 26 "int32" 5 0 11)))) None); (mkOptionDecl (mkSpan (mkPtok 42 "zchar" 5 6 12) (mkPtok 41 ";" 6 8 15)) (mkPtok 42 "zchar" 5 6 12) (mkPtok 4 "=" 5 12 13) (VString (mkSpan (mkPtok 31 """1""" 6 4 14) (mkPtok 31 """1""" 6 4 14)) (mkPtok 31 """1""" 6 4 14)) (Some (mkPtok 41 ";" 6 8 15))); (mkOptionDecl (mkSpan (mkPtok 42 "float" 6 9 16) (mkPtok 10 "true" 7 2 18)) (mkPtok 42 "float" 6 9 16) (mkPtok 4 "=" 7 0 17) (VTrue (mkSpan (mkPtok 10 "true" 7 2 18) (mkPtok 10 "true" 7 2 18)) (mkPtok 10 "true" 7 2 18)) None); (mkOptionDecl (mkSpan (mkPtok 42 "tag" 7 7 19) (mkPtok 41 ";" 7 17 22)) (mkPtok 42 "tag" 7 7 19) (mkPtok 4 "=" 7 11 20) (VString (mkSpan (mkPtok 31 (string_of_bytes [34; 230; 182; 136; 230; 129; 175; 34]%N) 7 12 21) (mkPtok 31 (string_of_bytes [34; 230; 182; 136; 230; 129; 175; 34]%N) 7 12 21)) (mkPtok 31 (string_of_bytes [34; 230; 182; 136; 230; 129; 175; 34]%N) 7 12 21)) (Some (mkPtok 41 ";" 7 17 22)))] (mkPtok 3 "}" 7 19 23))); (DMeta (mkMetaDef (mkSpan (mkPtok 37 "MetaData" 7 21 24) (mkPtok 3 "}" 8 2 34)) (mkPtok 37 "MetaData" 7 21 24) (mkPtok 42 "u128" 7 30 25) (mkPtok 2 "{" 7 35 26) [(MIRef (mkRefMetaDecl (mkSpan (mkPtok 42 "msg_type" 7 37 27) (mkPtok 40 "," 7 57 30)) (mkPtok 42 "msg_type" 7 37 27) (mkPtok 42 "i8i8" 7 46 28) (Some (mkPtok 43 "`doc`" 7 51 29)) (mkPtok 40 "," 7 57 30))); (MIRef (mkRefMetaDecl (mkSpan (mkPtok 42 "o" 7 59 31) (mkPtok 40 "," 8 0 33)) (mkPtok 42 "o" 7 59 31) (mkPtok 42 "body" 7 61 32) None (mkPtok 40 "," 8 0 33)))] (mkPtok 3 "}" 8 2 34)))])).
Eval vm_compute in ("<<<M44>>>" ++ check (runes_of_ascii "packet Header { @lengthOf( BodyLength)string body	@lengthOf(	zchar	)  `two words` , @lengthOf( rootA )i32 metadata `it's` ,
    @tag( 00 ) // trailing space 
msg_type@lengthOf( // " ++ [27880; 37322]%N ++ runes_of_ascii "
As )  ,
int { repeat string
//
//	t
u128 `" ++ [233]%N ++ runes_of_ascii "`,
    match MetaDataX as packetx {[ 1	,0] : MetaDataX
    , ""{,}"" :calculatedFrom ,} ,
    // trailing space 
    match asx as Logon  {
7 :uint8x  , 00 : x_y_z
,
    ""\" ++ [233]%N ++ runes_of_ascii """
    : o ,""" ++ [233]%N ++ runes_of_ascii "t" ++ [233]%N ++ runes_of_ascii """
:chars /// triple
, } , body
// `tick` ""quote"" 'q'
// a // b
i64_ `crlf
line` , },	a1
    `line1
line2`  ,
// `tick` ""quote"" 'q'
// a // b
chars `// not a comment`	,@tag( 7
    )
leftPad charz	, int64 a1 @calculatedFrom(
""\n""
)  ,
}")).
Eval vm_compute in ("<<<M54>>>" ++ check (runes_of_ascii "
")).
Eval vm_compute in ("<<<M64>>>" ++ check (runes_of_ascii "  root packet pack {zchar[	255
    ] T`a\`
    , char[] Z9_ @lengthOf(
// c
//x
u8x  )
    `two words` , A
{ repeat  char[]
    x  ``,
// @lengthOf(
/// triple
repeat zchar[ //
007  ] i64_
    ,  } , uint8x @lengthOf(
    i64_
    )	``,
}
packet	calculatedFrom{ @leftPad ( )
u32	calculatedFrom``
,
@tag(0123456789 // " ++ [27880; 37322]%N ++ runes_of_ascii "
)@leftPad ( ) int8 _x
``
,
match rootA as  u { // c
10
: Z9_ , 0123456789: float
//
// c
0: float ,
[ ""it's""/// triple
]
:
packetx , } ,// `tick` ""quote"" 'q'
@lengthOf( string_ ) zchar[ 0123456789
    ] body @lengthOf(
repeatCount	) ,
    @calculatedFrom( ""\n"" ) match // `tick` ""quote"" 'q'
body as u8x{ ""a\""b""
    :T , [ ""\n"" ,// " ++ [27880; 37322]%N ++ runes_of_ascii "
""" ++ [233]%N ++ runes_of_ascii "t" ++ [233]%N ++ runes_of_ascii """, ""CRC32"", 255 ,7
, ""// no comment""
,
    """ ++ [28040; 24687]%N ++ runes_of_ascii """] : x , 255	: packetx } , @tag(65535 ) repeat
    // a // b
    Header
zchar , } MetaData Logon { }
")).
Eval vm_compute in ("<<<M74>>>" ++ check (runes_of_ascii "options	{ i64_ =00 }
")).
Eval vm_compute in ("<<<M84>>>" ++ check (runes_of_ascii "options { zchar=
    false ; }")).
Eval vm_compute in ("<<<M94>>>" ++ check (runes_of_ascii "options  { BodyLength
=
    string; trueish	=""it's"" i8i8
    =  ""// no comment""
    // trailing space 
    roots
// a // b
// packet A { u8 x, }
=// `tick` ""quote"" 'q'
""" ++ [28040; 24687]%N ++ runes_of_ascii """ ;// a // b
falsey = '\x00' ; } packet metadata{
    packetx
    { repeat rootA x_y_z `tab	here` , repeat pack
, Logon {
    u16 msg_type , u8 BodyLength
`
`,
zchar[
3 ] int  ,} ,
a1
T, }
, // `tick` ""quote"" 'q'
repeat f32 o `crlf
line`
, i32 rootA, int32  matchKey , @leftPad
// a // b
// @lengthOf(
( )
x_y_z {	match body	as	u8x
    { [ ""{,}"" ]:u8x	, 3:
u8x , 4294967296: As ,
[ ""CRC32"" ]:A
,
255 // packet A { u8 x, }
: body
    //
    , // c
42
    :
x_y_z }
, } , repeat
body float
, } // trailing space 
packet trueish
{ stringy @lengthOf( float )	`{ , }`
,repeat// packet A { u8 x, }
i64_ ,
    uint16 string_
    // `tick` ""quote"" 'q'
    @calculatedFrom(
""\" ++ [233]%N ++ runes_of_ascii """)
`
`	, // a // b
@tag( 0123456789)char[
    //x
    4294967296 ]
    calculatedFrom @lengthOf( int )`line1
line2`	, // packet A { u8 x, }
match rootA as asx
{	""\" ++ [233]%N ++ runes_of_ascii """: f32a, ""\n"" :
    rootA [ ""a\\""
//
//
, 0123456789 ] : crc
,1 : msg_type , ""a	b"" :stringy// packet A { u8 x, }
, }
    // " ++ [27880; 37322]%N ++ runes_of_ascii "
    ,repeat len	{ string_{i16 _x , _x { repeat uint8x a1
, char[ 42
    ]	zchar
    `say ""hi""` , zchar[ 7  ] uint8x ,
}
    ,repeat i8i8 body, }
    // " ++ [128512]%N ++ runes_of_ascii " emoji
    , uint8
T	@lengthOf(
repeatCount ), } ,}root packet asx { @calculatedFrom(	""x y""
)
repeat pack ,repeat string_ { u8 metadata
,} ,  @calculatedFrom( ""abc"" )	roots
@lengthOf(
    T
) `` , match asx as uint8x
{ 3: u8x, }
    // a // b
    ,// trailing space 
u8x@calculatedFrom( ""{,}"" ) , } packet o // " ++ [128512]%N ++ runes_of_ascii " emoji
{ string Logon ,charz metadata , match// c
len as
float{
255
    :
    //	t
    uint8x , ""CRC32"": As ,
    1
    : body , 7
:	options1 ,[	""" ++ [128512]%N ++ runes_of_ascii """,""it's"" //
]:
    repeatCount}, @leftPad ( ) @calculatedFrom( ""x y"" )  @leftPad(  ' ' )repeat lengthOf,zchar[
42  ]
    Logon@calculatedFrom(// packet A { u8 x, }
"""" ), }
//x
")).
Eval vm_compute in ("<<<M104>>>" ++ check (runes_of_ascii "root // trailing space 
packet Foo
    // " ++ [128512]%N ++ runes_of_ascii " emoji
    {
    //x
    char[] body`crlf
line`, // " ++ [128512]%N ++ runes_of_ascii " emoji
} options {
    _x=  false
    }
packet BodyLength	{
} 	 ")).
Eval vm_compute in ("<<<T104>>>" ++ terms [mkTok 34 "root" 1 0 false; mkTok 44 "// trailing space " 1 5 true; mkTok 35 "packet" 2 0 false; mkTok 42 "Foo" 2 7 false; mkTok 44 (string_of_bytes [47; 47; 32; 240; 159; 152; 128; 32; 101; 109; 111; 106; 105]%N) 3 4 true; mkTok 2 "{" 4 4 false; mkTok 44 "//x" 5 4 true; mkTok 16 "char[]" 6 4 false; mkTok 42 "body" 6 11 false; mkTok 43 (string_of_bytes [96; 99; 114; 108; 102; 13; 10; 108; 105; 110; 101; 96]%N) 6 15 false; mkTok 40 "," 7 5 false; mkTok 44 (string_of_bytes [47; 47; 32; 240; 159; 152; 128; 32; 101; 109; 111; 106; 105]%N) 7 7 true; mkTok 3 "}" 8 0 false; mkTok 1 "options" 8 2 false; mkTok 2 "{" 8 10 false; mkTok 42 "_x" 9 4 false; mkTok 4 "=" 9 6 false; mkTok 11 "false" 9 9 false; mkTok 3 "}" 10 4 false; mkTok 35 "packet" 11 0 false; mkTok 42 "BodyLength" 11 7 false; mkTok 2 "{" 11 18 false; mkTok 3 "}" 12 0 false; mkTok 0 "<EOF>" 12 4 false] (mkPacket (mkPtok 34 "root" 1 0 0) (Some (mkPtok 3 "}" 12 0 22)) [(DPacket (mkPacketDef (mkSpan (mkPtok 34 "root" 1 0 0) (mkPtok 3 "}" 8 0 12)) (Some (mkPtok 34 "root" 1 0 0)) (mkPtok 35 "packet" 2 0 2) (mkPtok 42 "Foo" 2 7 3) (mkPtok 2 "{" 4 4 5) [(mkFieldWithAttr (mkSpan (mkPtok 16 "char[]" 6 4 7) (mkPtok 40 "," 7 5 10)) [] (MetaField (mkSpan (mkPtok 16 "char[]" 6 4 7) (mkPtok 40 "," 7 5 10)) None (mkMetaDecl (mkSpan (mkPtok 16 "char[]" 6 4 7) (mkPtok 40 "," 7 5 10)) (TyDynamic (mkSpan (mkPtok 16 "char[]" 6 4 7) (mkPtok 16 "char[]" 6 4 7)) (mkDynamicString (mkSpan (mkPtok 16 "char[]" 6 4 7) (mkPtok 16 "char[]" 6 4 7)) (mkPtok 16 "char[]" 6 4 7))) (mkPtok 42 "body" 6 11 8) (Some (mkPtok 43 (string_of_bytes [96; 99; 114; 108; 102; 13; 10; 108; 105; 110; 101; 96]%N) 6 15 9)) (mkPtok 40 "," 7 5 10))))] (mkPtok 3 "}" 8 0 12))); (DOption (mkOptionDef (mkSpan (mkPtok 1 "options" 8 2 13) (mkPtok 3 "}" 10 4 18)) (mkPtok 1 "options" 8 2 13) (mkPtok 2 "{" 8 10 14) [(mkOptionDecl (mkSpan (mkPtok 42 "_x" 9 4 15) (mkPtok 11 "false" 9 9 17)) (mkPtok 42 "_x" 9 4 15) (mkPtok 4 "=" 9 6 16) (VFalse (mkSpan (mkPtok 11 "false" 9 9 17) (mkPtok 11 "false" 9 9 17)) (mkPtok 11 "false" 9 9 17)) None)] (mkPtok 3 "}" 10 4 18))); (DPacket (mkPacketDef (mkSpan (mkPtok 35 "packet" 11 0 19) (mkPtok 3 "}" 12 0 22)) None (mkPtok 35 "packet" 11 0 19) (mkPtok 42 "BodyLength" 11 7 20) (mkPtok 2 "{" 11 18 21) [] (mkPtok 3 "}" 12 0 22)))])).
Eval vm_compute in ("<<<M114>>>" ++ check (runes_of_ascii "packet T {	match Packet as
// c
// " ++ [27880; 37322]%N ++ runes_of_ascii "
Header { 42 : BodyLength , ""// no comment""
// `tick` ""quote"" 'q'
// packet A { u8 x, }
: matchKey ""`tick`"" :
crc ,	[ 1  ]	:o, } ,	}// " ++ [128512]%N ++ runes_of_ascii " emoji
packet As {
} options  { u128
= //x
' '
body=
    char[] }
")).
Eval vm_compute in ("<<<M124>>>" ++ check (runes_of_ascii "
packet x { @leftPad ( )	i32 float
,}
    options{  chars =
'0'
    ;Header // c
=
""`tick`""  x =
// `tick` ""quote"" 'q'
//
'\x00' ; rootA = char[	65535  ] ;
}options	{
x =
""it's"" asx
    // " ++ [27880; 37322]%N ++ runes_of_ascii "
    = char[ 007] ;  zchar= int8 ;
//	t
// a // b
zchar =true ; chars= char[]
/// triple
// `tick` ""quote"" 'q'
}
    options {  o  = 7 Logon
=	10 /// triple
body =
    false a1 // c
= ""x y"" }
")).
Eval vm_compute in ("<<<M134>>>" ++ check (@nil rune)).
Eval vm_compute in ("<<<M144>>>" ++ check (runes_of_ascii "packet T{ } packet string_ { @tag(7	)repeat uint8 rootA
    // " ++ [27880; 37322]%N ++ runes_of_ascii "
    ,@lengthOf(	o
    )
    float
u ,// trailing space 
Packet @calculatedFrom(
    ""a\\"" ) ,
    f32	repeatCount `say ""hi""` /// triple
, } packet MetaDataX	{match	leftPad as Packet { 007
: // `tick` ""quote"" 'q'
x ,
} , // trailing space 
}")).
Eval vm_compute in ("<<<M154>>>" ++ check (runes_of_ascii "
packet
// `tick` ""quote"" 'q'
// `tick` ""quote"" 'q'
rootA{ @tag( 3  ) zchar[
00 ] // trailing space 
x_y_z
    `" ++ [28040; 24687; 31867; 22411]%N ++ runes_of_ascii "`  , _x ,
    // a // b
    float64
    A
@lengthOf( //
u8x ) , u8 rootA`line1
line2`	, zchar[ 7
    ] // c
stringy,
match Header as f32a { ""\" ++ [233]%N ++ runes_of_ascii """:	o ,[
    // `tick` ""quote"" 'q'
    4294967296
, 7 ,// c
4294967296
, ""packet"" , ""a	b"" , ""CRC32"" ,	7 ,
""a	b""// trailing space 
]	: // packet A { u8 x, }
repeatCount, ""a\""b"" :
    Header  [""a\""b"" ] :
crc  ,	[  007
,
007, ""abc"" ] :
    metadata, 4294967296 : chars ,
} // " ++ [128512]%N ++ runes_of_ascii " emoji
, @tag( 1 ) i8 matchKey	`a\` ,
// @lengthOf(
// " ++ [128512]%N ++ runes_of_ascii " emoji
@lengthOf(
    body ) tag ,@lengthOf( matchKey
)
    @lengthOf(  o	)  @lengthOf( pack
    ) repeat u {
calculatedFrom @lengthOf( falsey  ), } , }
")).
Eval vm_compute in ("<<<M164>>>" ++ check (runes_of_ascii "root packet // packet A { u8 x, }
a1 {
    // " ++ [27880; 37322]%N ++ runes_of_ascii "
    repeat leftPad {
    // a // b
    lengthOf
, }
    ,
    @tag(// c
0123456789)int64 repeatCount ``,	match
int as len {
1 : repeatCount , """" : lengthOf,
[
""a\""b""
    , 255,
7 ,""it's"" ,255,
    00 , 7 , ""`tick`""
    //
    ]
    : msg_type , 42 :body
    ,
    } ,
    repeat asx { charz { char[ 007 ]f32a ,
    // a // b
    } ,match
    u as
    Z9_ { """ ++ [233]%N ++ runes_of_ascii "t" ++ [233]%N ++ runes_of_ascii """ : float
,
    // c
    ""1""
: Pad , [
    """", 10 ] // packet A { u8 x, }
: Header , [ 42 ]: repeatCount , 00// a // b
: T , } , } ,
@rightPad ( ' ' )
falsey,
    @tag( 0) @calculatedFrom(	""1"" )
@leftPad (
    '\x00') o , }
    MetaData i64_{ } packet x{
@lengthOf( Header) repeat
msg_type {
    repeat char[ 0123456789 ] u,
    // packet A { u8 x, }
    uint32
BodyLength	@lengthOf( _x) `crlf
line` , },} MetaData Header { Header
    options1,
    f32a
stringy ,
    char[] uint8x `a\` , char[ // trailing space 
1
    // packet A { u8 x, }
    ] u128, i32 Z9_
    ,
    float32 // a // b
msg_type,
    }

")).
Eval vm_compute in ("<<<M174>>>" ++ check (runes_of_ascii "
packet
    float {
    char[ 00 ] u8x ,	}
packet // " ++ [128512]%N ++ runes_of_ascii " emoji
A // @lengthOf(
{ string
i8i8 , A //x
@calculatedFrom(
""a	b"" ) `a\`, @tag( 1 )
    chars	@lengthOf( Pad ) `u8 x,`
    , /// triple
match repeatCount as stringy { 42 :
x
3: // @lengthOf(
tag, [ 00 , 0123456789
] : packetx , [ """ ++ [28040; 24687]%N ++ runes_of_ascii """	, ""packet""
]: string_ , }	,
}options // @lengthOf(
{ i8i8= """ ++ [233]%N ++ runes_of_ascii "t" ++ [233]%N ++ runes_of_ascii """ Foo
    = false
    // packet A { u8 x, }
    ;  Pad =
' '
    ;}")).
Eval vm_compute in ("<<<T174>>>" ++ terms [mkTok 35 "packet" 2 0 false; mkTok 42 "float" 3 4 false; mkTok 2 "{" 3 10 false; mkTok 12 "char[" 4 4 false; mkTok 30 "00" 4 10 false; mkTok 13 "]" 4 13 false; mkTok 42 "u8x" 4 15 false; mkTok 40 "," 4 19 false; mkTok 3 "}" 4 21 false; mkTok 35 "packet" 5 0 false; mkTok 44 (string_of_bytes [47; 47; 32; 240; 159; 152; 128; 32; 101; 109; 111; 106; 105]%N) 5 7 true; mkTok 42 "A" 6 0 false; mkTok 44 "// @lengthOf(" 6 2 true; mkTok 2 "{" 7 0 false; mkTok 15 "string" 7 2 false; mkTok 42 "i8i8" 8 0 false; mkTok 40 "," 8 5 false; mkTok 42 "A" 8 7 false; mkTok 44 "//x" 8 9 true; mkTok 5 "@calculatedFrom(" 9 0 false; mkTok 31 (string_of_bytes [34; 97; 9; 98; 34]%N) 10 0 false; mkTok 6 ")" 10 6 false; mkTok 43 "`a\`" 10 8 false; mkTok 40 "," 10 12 false; mkTok 9 "@tag(" 10 14 false; mkTok 30 "1" 10 20 false; mkTok 6 ")" 10 22 false; mkTok 42 "chars" 11 4 false; mkTok 7 "@lengthOf(" 11 10 false; mkTok 42 "Pad" 11 21 false; mkTok 6 ")" 11 25 false; mkTok 43 "`u8 x,`" 11 27 false; mkTok 40 "," 12 4 false; mkTok 44 "/// triple" 12 6 true; mkTok 38 "match" 13 0 false; mkTok 42 "repeatCount" 13 6 false; mkTok 17 "as" 13 18 false; mkTok 42 "stringy" 13 21 false; mkTok 2 "{" 13 29 false; mkTok 30 "42" 13 31 false; mkTok 39 ":" 13 34 false; mkTok 42 "x" 14 0 false; mkTok 30 "3" 15 0 false; mkTok 39 ":" 15 1 false; mkTok 44 "// @lengthOf(" 15 3 true; mkTok 42 "tag" 16 0 false; mkTok 40 "," 16 3 false; mkTok 18 "[" 16 5 false; mkTok 30 "00" 16 7 false; mkTok 40 "," 16 10 false; mkTok 30 "0123456789" 16 12 false; mkTok 13 "]" 17 0 false; mkTok 39 ":" 17 2 false; mkTok 42 "packetx" 17 4 false; mkTok 40 "," 17 12 false; mkTok 18 "[" 17 14 false; mkTok 31 (string_of_bytes [34; 230; 182; 136; 230; 129; 175; 34]%N) 17 16 false; mkTok 40 "," 17 21 false; mkTok 31 """packet""" 17 23 false; mkTok 13 "]" 18 0 false; mkTok 39 ":" 18 1 false; mkTok 42 "string_" 18 3 false; mkTok 40 "," 18 11 false; mkTok 3 "}" 18 13 false; mkTok 40 "," 18 15 false; mkTok 3 "}" 19 0 false; mkTok 1 "options" 19 1 false; mkTok 44 "// @lengthOf(" 19 9 true; mkTok 2 "{" 20 0 false; mkTok 42 "i8i8" 20 2 false; mkTok 4 "=" 20 6 false; mkTok 31 (string_of_bytes [34; 195; 169; 116; 195; 169; 34]%N) 20 8 false; mkTok 42 "Foo" 20 14 false; mkTok 4 "=" 21 4 false; mkTok 11 "false" 21 6 false; mkTok 44 "// packet A { u8 x, }" 22 4 true; mkTok 41 ";" 23 4 false; mkTok 42 "Pad" 23 7 false; mkTok 4 "=" 23 11 false; mkTok 33 "' '" 24 0 false; mkTok 41 ";" 25 4 false; mkTok 3 "}" 25 5 false; mkTok 0 "<EOF>" 25 6 false] (mkPacket (mkPtok 35 "packet" 2 0 0) (Some (mkPtok 3 "}" 25 5 81)) [(DPacket (mkPacketDef (mkSpan (mkPtok 35 "packet" 2 0 0) (mkPtok 3 "}" 4 21 8)) None (mkPtok 35 "packet" 2 0 0) (mkPtok 42 "float" 3 4 1) (mkPtok 2 "{" 3 10 2) [(mkFieldWithAttr (mkSpan (mkPtok 12 "char[" 4 4 3) (mkPtok 40 "," 4 19 7)) [] (MetaField (mkSpan (mkPtok 12 "char[" 4 4 3) (mkPtok 40 "," 4 19 7)) None (mkMetaDecl (mkSpan (mkPtok 12 "char[" 4 4 3) (mkPtok 40 "," 4 19 7)) (TyFixed (mkSpan (mkPtok 12 "char[" 4 4 3) (mkPtok 13 "]" 4 13 5)) (mkFixedString (mkSpan (mkPtok 12 "char[" 4 4 3) (mkPtok 13 "]" 4 13 5)) (mkPtok 12 "char[" 4 4 3) (mkPtok 30 "00" 4 10 4) (mkPtok 13 "]" 4 13 5))) (mkPtok 42 "u8x" 4 15 6) None (mkPtok 40 "," 4 19 7))))] (mkPtok 3 "}" 4 21 8))); (DPacket (mkPacketDef (mkSpan (mkPtok 35 "packet" 5 0 9) (mkPtok 3 "}" 19 0 65)) None (mkPtok 35 "packet" 5 0 9) (mkPtok 42 "A" 6 0 11) (mkPtok 2 "{" 7 0 13) [(mkFieldWithAttr (mkSpan (mkPtok 15 "string" 7 2 14) (mkPtok 40 "," 8 5 16)) [] (MetaField (mkSpan (mkPtok 15 "string" 7 2 14) (mkPtok 40 "," 8 5 16)) None (mkMetaDecl (mkSpan (mkPtok 15 "string" 7 2 14) (mkPtok 40 "," 8 5 16)) (TyDynamic (mkSpan (mkPtok 15 "string" 7 2 14) (mkPtok 15 "string" 7 2 14)) (mkDynamicString (mkSpan (mkPtok 15 "string" 7 2 14) (mkPtok 15 "string" 7 2 14)) (mkPtok 15 "string" 7 2 14))) (mkPtok 42 "i8i8" 8 0 15) None (mkPtok 40 "," 8 5 16)))); (mkFieldWithAttr (mkSpan (mkPtok 42 "A" 8 7 17) (mkPtok 40 "," 10 12 23)) [] (CheckSumField (mkSpan (mkPtok 42 "A" 8 7 17) (mkPtok 40 "," 10 12 23)) (mkChecksumFieldDecl (mkSpan (mkPtok 42 "A" 8 7 17) (mkPtok 40 "," 10 12 23)) None (mkPtok 42 "A" 8 7 17) (mkCalculatedFrom (mkSpan (mkPtok 5 "@calculatedFrom(" 9 0 19) (mkPtok 6 ")" 10 6 21)) (mkPtok 5 "@calculatedFrom(" 9 0 19) (mkPtok 31 (string_of_bytes [34; 97; 9; 98; 34]%N) 10 0 20) (mkPtok 6 ")" 10 6 21)) (Some (mkPtok 43 "`a\`" 10 8 22)) (mkPtok 40 "," 10 12 23)))); (mkFieldWithAttr (mkSpan (mkPtok 9 "@tag(" 10 14 24) (mkPtok 40 "," 12 4 32)) [(FATag (mkSpan (mkPtok 9 "@tag(" 10 14 24) (mkPtok 6 ")" 10 22 26)) (mkTagAttr (mkSpan (mkPtok 9 "@tag(" 10 14 24) (mkPtok 6 ")" 10 22 26)) (mkPtok 9 "@tag(" 10 14 24) (mkPtok 30 "1" 10 20 25) (mkPtok 6 ")" 10 22 26)))] (LengthField (mkSpan (mkPtok 42 "chars" 11 4 27) (mkPtok 40 "," 12 4 32)) (mkLengthFieldDecl (mkSpan (mkPtok 42 "chars" 11 4 27) (mkPtok 40 "," 12 4 32)) None (mkPtok 42 "chars" 11 4 27) (mkLengthOf (mkSpan (mkPtok 7 "@lengthOf(" 11 10 28) (mkPtok 6 ")" 11 25 30)) (mkPtok 7 "@lengthOf(" 11 10 28) (mkPtok 42 "Pad" 11 21 29) (mkPtok 6 ")" 11 25 30)) (Some (mkPtok 43 "`u8 x,`" 11 27 31)) (mkPtok 40 "," 12 4 32)))); (mkFieldWithAttr (mkSpan (mkPtok 38 "match" 13 0 34) (mkPtok 40 "," 18 15 64)) [] (MatchField (mkSpan (mkPtok 38 "match" 13 0 34) (mkPtok 40 "," 18 15 64)) (mkMatchFieldDecl (mkSpan (mkPtok 38 "match" 13 0 34) (mkPtok 3 "}" 18 13 63)) (mkPtok 38 "match" 13 0 34) (mkPtok 42 "repeatCount" 13 6 35) (mkPtok 17 "as" 13 18 36) (mkPtok 42 "stringy" 13 21 37) (mkPtok 2 "{" 13 29 38) [(mkMatchPair (mkSpan (mkPtok 30 "42" 13 31 39) (mkPtok 42 "x" 14 0 41)) (MKDigits (mkPtok 30 "42" 13 31 39)) (mkPtok 39 ":" 13 34 40) (mkPtok 42 "x" 14 0 41) None); (mkMatchPair (mkSpan (mkPtok 30 "3" 15 0 42) (mkPtok 40 "," 16 3 46)) (MKDigits (mkPtok 30 "3" 15 0 42)) (mkPtok 39 ":" 15 1 43) (mkPtok 42 "tag" 16 0 45) (Some (mkPtok 40 "," 16 3 46))); (mkMatchPair (mkSpan (mkPtok 18 "[" 16 5 47) (mkPtok 40 "," 17 12 54)) (MKList (mkKeyList (mkSpan (mkPtok 18 "[" 16 5 47) (mkPtok 13 "]" 17 0 51)) (mkPtok 18 "[" 16 5 47) (mkPtok 30 "00" 16 7 48) [((mkPtok 40 "," 16 10 49), (mkPtok 30 "0123456789" 16 12 50))] (mkPtok 13 "]" 17 0 51))) (mkPtok 39 ":" 17 2 52) (mkPtok 42 "packetx" 17 4 53) (Some (mkPtok 40 "," 17 12 54))); (mkMatchPair (mkSpan (mkPtok 18 "[" 17 14 55) (mkPtok 40 "," 18 11 62)) (MKList (mkKeyList (mkSpan (mkPtok 18 "[" 17 14 55) (mkPtok 13 "]" 18 0 59)) (mkPtok 18 "[" 17 14 55) (mkPtok 31 (string_of_bytes [34; 230; 182; 136; 230; 129; 175; 34]%N) 17 16 56) [((mkPtok 40 "," 17 21 57), (mkPtok 31 """packet""" 17 23 58))] (mkPtok 13 "]" 18 0 59))) (mkPtok 39 ":" 18 1 60) (mkPtok 42 "string_" 18 3 61) (Some (mkPtok 40 "," 18 11 62)))] (mkPtok 3 "}" 18 13 63)) (mkPtok 40 "," 18 15 64)))] (mkPtok 3 "}" 19 0 65))); (DOption (mkOptionDef (mkSpan (mkPtok 1 "options" 19 1 66) (mkPtok 3 "}" 25 5 81)) (mkPtok 1 "options" 19 1 66) (mkPtok 2 "{" 20 0 68) [(mkOptionDecl (mkSpan (mkPtok 42 "i8i8" 20 2 69) (mkPtok 31 (string_of_bytes [34; 195; 169; 116; 195; 169; 34]%N) 20 8 71)) (mkPtok 42 "i8i8" 20 2 69) (mkPtok 4 "=" 20 6 70) (VString (mkSpan (mkPtok 31 (string_of_bytes [34; 195; 169; 116; 195; 169; 34]%N) 20 8 71) (mkPtok 31 (string_of_bytes [34; 195; 169; 116; 195; 169; 34]%N) 20 8 71)) (mkPtok 31 (string_of_bytes [34; 195; 169; 116; 195; 169; 34]%N) 20 8 71)) None); (mkOptionDecl (mkSpan (mkPtok 42 "Foo" 20 14 72) (mkPtok 41 ";" 23 4 76)) (mkPtok 42 "Foo" 20 14 72) (mkPtok 4 "=" 21 4 73) (VFalse (mkSpan (mkPtok 11 "false" 21 6 74) (mkPtok 11 "false" 21 6 74)) (mkPtok 11 "false" 21 6 74)) (Some (mkPtok 41 ";" 23 4 76))); (mkOptionDecl (mkSpan (mkPtok 42 "Pad" 23 7 77) (mkPtok 41 ";" 25 4 80)) (mkPtok 42 "Pad" 23 7 77) (mkPtok 4 "=" 23 11 78) (VPaddingChar (mkSpan (mkPtok 33 "' '" 24 0 79) (mkPtok 33 "' '" 24 0 79)) (mkPtok 33 "' '" 24 0 79)) (Some (mkPtok 41 ";" 25 4 80)))] (mkPtok 3 "}" 25 5 81)))])).
Eval vm_compute in ("<<<M184>>>" ++ check (runes_of_ascii "//
packet
    u { }
    packet
    u8x { }options  {
    Logon =string ; calculatedFrom ='\x00'
;
BodyLength// " ++ [27880; 37322]%N ++ runes_of_ascii "
= 1; //	t
_x// " ++ [27880; 37322]%N ++ runes_of_ascii "
=""CRC32""; } root
/// triple
// " ++ [27880; 37322]%N ++ runes_of_ascii "
packet Z9_ {
}
    MetaData chars  {
}
")).
Eval vm_compute in ("<<<M194>>>" ++ check (runes_of_ascii "
")).
Eval vm_compute in ("<<<M204>>>" ++ check (runes_of_ascii "//


")).
Eval vm_compute in ("<<<M214>>>" ++ check (runes_of_ascii "packet A { Logon {
    repeat  char[ 42 ]falsey `a\`  ,repeat int32 T , } ,}")).
Eval vm_compute in ("<<<M224>>>" ++ check (runes_of_ascii "packet leftPad
    {  BodyLength
{ // a // b
rootA {
char[ 00]
leftPad,
    // trailing space 
    tag // " ++ [27880; 37322]%N ++ runes_of_ascii "
@calculatedFrom( ""abc""
    // " ++ [128512]%N ++ runes_of_ascii " emoji
    ) , char[	42 ] // c
len ,
string MetaDataX  ,}, match Z9_ as A { ""1""  : x, ""packet"" // trailing space 
: lengthOf	} , i64
    // trailing space 
    chars @lengthOf(	msg_type
    ) `
`
, },zchar[ 3 //
]  u128
    @lengthOf(//	t
packetx
) , @leftPad ( '\x00'
)char[] chars @calculatedFrom( ""`tick`"" ) //
, }
")).
Eval vm_compute in ("<<<M234>>>" ++ check (runes_of_ascii "root packet x {string
packetx
    // @lengthOf(
    `{ , }`, char stringy`// not a comment`
, match charz as
u128
{ """ ++ [128512]%N ++ runes_of_ascii """
: _x,0 : options1 // packet A { u8 x, }
42
    :trueish , [
// @lengthOf(
// `tick` ""quote"" 'q'
""it's"" , 00
, """ ++ [28040; 24687]%N ++ runes_of_ascii """  , ""\n""
    // trailing space 
    , 255 , 00 ]
: lengthOf ,
    1:len
    , },}
")).
Eval vm_compute in ("<<<M244>>>" ++ check (runes_of_ascii "packet x_y_z { char[
    // packet A { u8 x, }
    42 ] A @calculatedFrom( ""`tick`"" ) `it's` , }

")).
Eval vm_compute in ("<<<T244>>>" ++ terms [mkTok 35 "packet" 1 0 false; mkTok 42 "x_y_z" 1 7 false; mkTok 2 "{" 1 13 false; mkTok 12 "char[" 1 15 false; mkTok 44 "// packet A { u8 x, }" 2 4 true; mkTok 30 "42" 3 4 false; mkTok 13 "]" 3 7 false; mkTok 42 "A" 3 9 false; mkTok 5 "@calculatedFrom(" 3 11 false; mkTok 31 """`tick`""" 3 28 false; mkTok 6 ")" 3 37 false; mkTok 43 "`it's`" 3 39 false; mkTok 40 "," 3 46 false; mkTok 3 "}" 3 48 false; mkTok 0 "<EOF>" 5 0 false] (mkPacket (mkPtok 35 "packet" 1 0 0) (Some (mkPtok 3 "}" 3 48 13)) [(DPacket (mkPacketDef (mkSpan (mkPtok 35 "packet" 1 0 0) (mkPtok 3 "}" 3 48 13)) None (mkPtok 35 "packet" 1 0 0) (mkPtok 42 "x_y_z" 1 7 1) (mkPtok 2 "{" 1 13 2) [(mkFieldWithAttr (mkSpan (mkPtok 12 "char[" 1 15 3) (mkPtok 40 "," 3 46 12)) [] (CheckSumField (mkSpan (mkPtok 12 "char[" 1 15 3) (mkPtok 40 "," 3 46 12)) (mkChecksumFieldDecl (mkSpan (mkPtok 12 "char[" 1 15 3) (mkPtok 40 "," 3 46 12)) (Some (TyFixed (mkSpan (mkPtok 12 "char[" 1 15 3) (mkPtok 13 "]" 3 7 6)) (mkFixedString (mkSpan (mkPtok 12 "char[" 1 15 3) (mkPtok 13 "]" 3 7 6)) (mkPtok 12 "char[" 1 15 3) (mkPtok 30 "42" 3 4 5) (mkPtok 13 "]" 3 7 6)))) (mkPtok 42 "A" 3 9 7) (mkCalculatedFrom (mkSpan (mkPtok 5 "@calculatedFrom(" 3 11 8) (mkPtok 6 ")" 3 37 10)) (mkPtok 5 "@calculatedFrom(" 3 11 8) (mkPtok 31 """`tick`""" 3 28 9) (mkPtok 6 ")" 3 37 10)) (Some (mkPtok 43 "`it's`" 3 39 11)) (mkPtok 40 "," 3 46 12))))] (mkPtok 3 "}" 3 48 13)))])).
Eval vm_compute in ("<<<M254>>>" ++ check (runes_of_ascii "packet x_y_z {
packetx { i16 pack `doc` ,
    repeat char[
    255
]leftPad
    ,
} , u8x , match o as roots {
[ // a // b
0123456789 ]
    // packet A { u8 x, }
    : x_y_z [""a\\""
    ] : packetx
    , }
,  repeat charz{	int32 i64_ `{ , }`,
}  ,  }
    packet x_y_z { @calculatedFrom(
""CRC32""
    )
@tag( 00 ) @lengthOf(x ) match As as
stringy
    { 1	: i64_
    ,// " ++ [27880; 37322]%N ++ runes_of_ascii "
[""it's""
,
""1"" ,
""x y"" //
, 4294967296
    ,
""\n"" , ""x y"" ] :
u128 ,00 : calculatedFrom
,	[ // " ++ [128512]%N ++ runes_of_ascii " emoji
4294967296
    , ""// no comment""
    , 42
    ,
3,""{,}""
    // packet A { u8 x, }
    ]  :	charz} ,
@calculatedFrom( ""a\\""
)  Logon A ,chars  @lengthOf(Logon
), @rightPad
('0' )@tag(	0 ) @rightPad  ( '0' ) string Foo // trailing space 
`a\`
    ,
}  packet packetx
{repeat i64_
    {  o @lengthOf(A) ,
    },@tag(
    42
    ) repeat char[]
    crc ,
    @leftPad ( ) u16 roots , falsey @lengthOf( As) , repeat  Foo{ float32 f32a@calculatedFrom( ""`tick`"" )
, len
`
`
// a // b
/// triple
,
    // packet A { u8 x, }
    }, @leftPad
('\x00' )	T@calculatedFrom( ""a	b"" ) `" ++ [28040; 24687; 31867; 22411]%N ++ runes_of_ascii "`,  char[]
// c
// " ++ [128512]%N ++ runes_of_ascii " emoji
trueish `u8 x,` , @lengthOf(falsey
    )
    match
    // " ++ [27880; 37322]%N ++ runes_of_ascii "
    rootA
    as BodyLength { // " ++ [128512]%N ++ runes_of_ascii " emoji
[
""CRC32"" ]: x ,
// @lengthOf(
// c
42
:
// packet A { u8 x, }
// `tick` ""quote"" 'q'
BodyLength , // trailing space 
} ,
    }")).
Eval vm_compute in ("<<<M264>>>" ++ check (runes_of_ascii "
options {
Header
    // a // b
    =
false float
=
""abc"" ;
i64_  = false ;}options // " ++ [128512]%N ++ runes_of_ascii " emoji
{
//
//x
repeatCount
    =
    ""a\\"";
}
//
")).
Eval vm_compute in ("<<<M274>>>" ++ check (runes_of_ascii "MetaData stringy
    //x
    { A MetaDataX ,}
    packet  x	{ @calculatedFrom( /// triple
"""")
char[] body``
/// triple
// c
, matchKey @lengthOf( uint8x ) , } // packet A { u8 x, }
options{	T
// `tick` ""quote"" 'q'
// trailing space 
=true
; o// packet A { u8 x, }
=
// c
//	t
'0'	; asx
    //
    = 4294967296
x= ""CRC32""o =
zchar[ 7 ] } options { /// triple
As =false ; } //x")).
Eval vm_compute in ("<<<M284>>>" ++ check (runes_of_ascii "options { // " ++ [27880; 37322]%N ++ runes_of_ascii "
T
=int64  }
")).
Eval vm_compute in ("<<<M294>>>" ++ check (runes_of_ascii "  MetaData/// triple
pack{
i64 Header
, u64
As
,
}
")).
Eval vm_compute in ("<<<M304>>>" ++ check (runes_of_ascii "options {
    StringPrefixLenType = u16;
    ArrayPrefixLenType = u16;
}

packet SampleBinary {
    uint16 MsgType `" ++ [28040; 24687; 31867; 22411]%N ++ runes_of_ascii "`,
    u16 BodyLenght @lengthOf(Body) `" ++ [28040; 24687; 20307; 38271; 24230]%N ++ runes_of_ascii "`,
    match MsgType as Body {
        1 : Logon,
        2 : Logout,
        3 : Heartbeat,
        4 : RiskControlRequest,
        5 : RiskControlResponse,
    },
    @calculatedFrom(""CRC32"")
    u32 Ckecksum `" ++ [26657; 39564; 21644]%N ++ runes_of_ascii "`,
}

packet Logon {
    @leftPad('0')
    char[10] UserName `" ++ [29992; 25143; 21517]%N ++ runes_of_ascii "`,
    string Password `" ++ [23494; 30721]%N ++ runes_of_ascii "`,
    uint64 ClientId `" ++ [23458; 25143; 31471]%N ++ runes_of_ascii "ID`,
    u16 HeartbeatInterval `" ++ [24515; 36339; 38388; 38548]%N ++ runes_of_ascii "`,
}

packet Logout {
    @rightPad('0')
    char[10] UserName `" ++ [29992; 25143; 21517]%N ++ runes_of_ascii "`,
    uint64 ClientId `" ++ [23458; 25143; 31471]%N ++ runes_of_ascii "ID`,
}

packet Heartbeat {
}

packet RiskControlRequest {
    string UniqueOrderId `" ++ [21807; 19968; 35746; 21333; 21495]%N ++ runes_of_ascii "`,
    char[16] ClOrdID `" ++ [23458; 25143; 35746; 21333; 21495]%N ++ runes_of_ascii "`,
    char[3] MarketID `" ++ [24066; 22330]%N ++ runes_of_ascii "id`,
    char[12] SecurityID `" ++ [35777; 21048; 20195; 30721]%N ++ runes_of_ascii "`,
    char Side `" ++ [20080; 21334; 26041; 21521]%N ++ runes_of_ascii "`,
    char OrderType `" ++ [35746; 21333; 31867; 22411]%N ++ runes_of_ascii "`,
    u64 Price `" ++ [20215; 26684]%N ++ runes_of_ascii "`,
    u32 Qty `" ++ [25968; 37327]%N ++ runes_of_ascii "`,
    repeat string ExtraInfo `" ++ [38468; 21152; 20449; 24687]%N ++ runes_of_ascii "`,
    repeat SubOrder {
        char[16] ClOrdID `" ++ [23376; 35746; 21333; 21495]%N ++ runes_of_ascii "`,
        u64 Price `" ++ [23376; 35746; 21333; 20215; 26684]%N ++ runes_of_ascii "`,
        u32 Qty `" ++ [23376; 35746; 21333; 25968; 37327]%N ++ runes_of_ascii "`,
    },
}

packet RiskControlResponse {
    string UniqueOrderId `" ++ [21807; 19968; 35746; 21333; 21495]%N ++ runes_of_ascii "`,
    i32 Status `" ++ [29366; 24577]%N ++ runes_of_ascii "`,
    string Msg `" ++ [32467; 26524; 20449; 24687]%N ++ runes_of_ascii "`,
    repeat Detail,
}

packet Detail {
    string RuleName `" ++ [35268; 21017; 21517; 31216]%N ++ runes_of_ascii "`,
    u16 Code `" ++ [21407; 22240; 20195; 30721]%N ++ runes_of_ascii "`,
}")).
Eval vm_compute in ("<<<M314>>>" ++ check (runes_of_ascii "root  asx { @tag(007 ) // @lengthOf(
repeat
    u64  leftPad , } packet
i64_{ // packet A { u8 x, }
@calculatedFrom(
""a\""b"" )
    zchar[
    10]
    chars,
    }
    MetaData A { charz
uint8x
    // trailing space 
    , len uint8x , u8
    charz,	string_ msg_type ,}
")).
Eval vm_compute in ("<<<M324>>>" ++ check (runes_of_ascii "root packet asx  @tag(007 ) // @lengthOf(
repeat
    u64  leftPad , } packet
i64_{ // packet A { u8 x, }
@calculatedFrom(
""a\""b"" )
    zchar[
    10]
    chars,
    }
    MetaData A { charz
uint8x
    // trailing space 
    , len uint8x , u8
    charz,	string_ msg_type ,}
")).
Eval vm_compute in ("<<<M334>>>" ++ check (runes_of_ascii "root packet asx { @tag( ) // @lengthOf(
repeat
    u64  leftPad , } packet
i64_{ // packet A { u8 x, }
@calculatedFrom(
""a\""b"" )
    zchar[
    10]
    chars,
    }
    MetaData A { charz
uint8x
    // trailing space 
    , len uint8x , u8
    charz,	string_ msg_type ,}
")).
Eval vm_compute in ("<<<M344>>>" ++ check (runes_of_ascii "root packet asx { @tag(007 ) // @lengthOf(

    u64  leftPad , } packet
i64_{ // packet A { u8 x, }
@calculatedFrom(
""a\""b"" )
    zchar[
    10]
    chars,
    }
    MetaData A { charz
uint8x
    // trailing space 
    , len uint8x , u8
    charz,	string_ msg_type ,}
")).
Eval vm_compute in ("<<<M354>>>" ++ check (runes_of_ascii "root packet asx { @tag(007 ) // @lengthOf(
repeat
    u64   , } packet
i64_{ // packet A { u8 x, }
@calculatedFrom(
""a\""b"" )
    zchar[
    10]
    chars,
    }
    MetaData A { charz
uint8x
    // trailing space 
    , len uint8x , u8
    charz,	string_ msg_type ,}
")).
Eval vm_compute in ("<<<M364>>>" ++ check (runes_of_ascii "root packet asx { @tag(007 ) // @lengthOf(
repeat
    u64  leftPad ,  packet
i64_{ // packet A { u8 x, }
@calculatedFrom(
""a\""b"" )
    zchar[
    10]
    chars,
    }
    MetaData A { charz
uint8x
    // trailing space 
    , len uint8x , u8
    charz,	string_ msg_type ,}
")).
Eval vm_compute in ("<<<M374>>>" ++ check (runes_of_ascii "root packet asx { @tag(007 ) // @lengthOf(
repeat
    u64  leftPad , } packet
{ // packet A { u8 x, }
@calculatedFrom(
""a\""b"" )
    zchar[
    10]
    chars,
    }
    MetaData A { charz
uint8x
    // trailing space 
    , len uint8x , u8
    charz,	string_ msg_type ,}
")).
Eval vm_compute in ("<<<M384>>>" ++ check (runes_of_ascii "root packet asx { @tag(007 ) // @lengthOf(
repeat
    u64  leftPad , } packet
i64_{ // packet A { u8 x, }

""a\""b"" )
    zchar[
    10]
    chars,
    }
    MetaData A { charz
uint8x
    // trailing space 
    , len uint8x , u8
    charz,	string_ msg_type ,}
")).
Eval vm_compute in ("<<<M394>>>" ++ check (runes_of_ascii "root packet asx { @tag(007 ) // @lengthOf(
repeat
    u64  leftPad , } packet
i64_{ // packet A { u8 x, }
@calculatedFrom(
""a\""b"" 
    zchar[
    10]
    chars,
    }
    MetaData A { charz
uint8x
    // trailing space 
    , len uint8x , u8
    charz,	string_ msg_type ,}
")).
Eval vm_compute in ("<<<M404>>>" ++ check (runes_of_ascii "root packet asx { @tag(007 ) // @lengthOf(
repeat
    u64  leftPad , } packet
i64_{ // packet A { u8 x, }
@calculatedFrom(
""a\""b"" )
    zchar[
    ]
    chars,
    }
    MetaData A { charz
uint8x
    // trailing space 
    , len uint8x , u8
    charz,	string_ msg_type ,}
")).
Eval vm_compute in ("<<<M414>>>" ++ check (runes_of_ascii "root packet asx { @tag(007 ) // @lengthOf(
repeat
    u64  leftPad , } packet
i64_{ // packet A { u8 x, }
@calculatedFrom(
""a\""b"" )
    zchar[
    10]
    ,
    }
    MetaData A { charz
uint8x
    // trailing space 
    , len uint8x , u8
    charz,	string_ msg_type ,}
")).
Eval vm_compute in ("<<<M424>>>" ++ check (runes_of_ascii "root packet asx { @tag(007 ) // @lengthOf(
repeat
    u64  leftPad , } packet
i64_{ // packet A { u8 x, }
@calculatedFrom(
""a\""b"" )
    zchar[
    10]
    chars,
    
    MetaData A { charz
uint8x
    // trailing space 
    , len uint8x , u8
    charz,	string_ msg_type ,}
")).
Eval vm_compute in ("<<<M434>>>" ++ check (runes_of_ascii "root packet asx { @tag(007 ) // @lengthOf(
repeat
    u64  leftPad , } packet
i64_{ // packet A { u8 x, }
@calculatedFrom(
""a\""b"" )
    zchar[
    10]
    chars,
    }
    MetaData  { charz
uint8x
    // trailing space 
    , len uint8x , u8
    charz,	string_ msg_type ,}
")).
Eval vm_compute in ("<<<M444>>>" ++ check (runes_of_ascii "root packet asx { @tag(007 ) // @lengthOf(
repeat
    u64  leftPad , } packet
i64_{ // packet A { u8 x, }
@calculatedFrom(
""a\""b"" )
    zchar[
    10]
    chars,
    }
    MetaData A { 
uint8x
    // trailing space 
    , len uint8x , u8
    charz,	string_ msg_type ,}
")).
Eval vm_compute in ("<<<M454>>>" ++ check (runes_of_ascii "root packet asx { @tag(007 ) // @lengthOf(
repeat
    u64  leftPad , } packet
i64_{ // packet A { u8 x, }
@calculatedFrom(
""a\""b"" )
    zchar[
    10]
    chars,
    }
    MetaData A { charz
uint8x
    // trailing space 
     len uint8x , u8
    charz,	string_ msg_type ,}
")).
Eval vm_compute in ("<<<M464>>>" ++ check (runes_of_ascii "root packet asx { @tag(007 ) // @lengthOf(
repeat
    u64  leftPad , } packet
i64_{ // packet A { u8 x, }
@calculatedFrom(
""a\""b"" )
    zchar[
    10]
    chars,
    }
    MetaData A { charz
uint8x
    // trailing space 
    , len  , u8
    charz,	string_ msg_type ,}
")).
Eval vm_compute in ("<<<M474>>>" ++ check (runes_of_ascii "root packet asx { @tag(007 ) // @lengthOf(
repeat
    u64  leftPad , } packet
i64_{ // packet A { u8 x, }
@calculatedFrom(
""a\""b"" )
    zchar[
    10]
    chars,
    }
    MetaData A { charz
uint8x
    // trailing space 
    , len uint8x , 
    charz,	string_ msg_type ,}
")).
Eval vm_compute in ("<<<M484>>>" ++ check (runes_of_ascii "root packet asx { @tag(007 ) // @lengthOf(
repeat
    u64  leftPad , } packet
i64_{ // packet A { u8 x, }
@calculatedFrom(
""a\""b"" )
    zchar[
    10]
    chars,
    }
    MetaData A { charz
uint8x
    // trailing space 
    , len uint8x , u8
    charz	string_ msg_type ,}
")).
Eval vm_compute in ("<<<M494>>>" ++ check (runes_of_ascii "root packet asx { @tag(007 ) // @lengthOf(
repeat
    u64  leftPad , } packet
i64_{ // packet A { u8 x, }
@calculatedFrom(
""a\""b"" )
    zchar[
    10]
    chars,
    }
    MetaData A { charz
uint8x
    // trailing space 
    , len uint8x , u8
    charz,	string_  ,}
")).
Eval vm_compute in ("<<<M504>>>" ++ check (runes_of_ascii "root packet asx { @tag(007 ) // @lengthOf(
repeat
    u64  leftPad , } packet
i64_{ // packet A { u8 x, }
@calculatedFrom(
""a\""b"" )
    zchar[
    10]
    chars,
    }
    MetaData A { charz
uint8x
    // trailing space 
    , len uint8x , u8
    charz,	string_ msg_type ,
")).
Eval vm_compute in ("<<<M514>>>" ++ check (runes_of_ascii "root packet asx { @tag(007 ) // @lengthOf(
repeat
    u64  leftPad , } packet
i64_{ // packet A { u8 x, }
@calculatedFrom(
""a\""b"" )
    zchar[
    \10]
    chars,
    }
    MetaData A { charz
uint8x
    // trailing space 
    , len uint8x , u8
    charz,	string_ msg_type ,}
")).
Eval vm_compute in ("<<<M524>>>" ++ check (runes_of_ascii "root packet asx { @tag(007 ) @tag// @lengthOf(
repeat
    u64  leftPad , } packet
i64_{ // packet A { u8 x, }
@calculatedFrom(
""a\""b"" )
    zchar[
    10]
    chars,
    }
    MetaData A { charz
uint8x
    // trailing space 
    , len uint8x , u8
    charz,	string_ msg_type ,}
")).
Eval vm_compute in ("<<<M534>>>" ++ check (runes_of_ascii "MetaData asx
{ @tag( 7
] roots
,leftPad
Foo
    `" ++ [233]%N ++ runes_of_ascii "`
, Header Header , int16
falsey , // `tick` ""quote"" 'q'
u16 Packet , int64 packetx// " ++ [128512]%N ++ runes_of_ascii " emoji
,}")).
Eval vm_compute in ("<<<M544>>>" ++ check (runes_of_ascii "MetaData asx
{ zchar[ 7
] roots
,leftPad
Foo
    `" ++ [233]%N ++ runes_of_ascii "`
, Header Header , int16
falsey , // `tick` ""quote"" 'q'
u16 Packet , @int64 packetx// " ++ [128512]%N ++ runes_of_ascii " emoji
,}")).
Eval vm_compute in ("<<<M554>>>" ++ check (runes_of_ascii "MetaData asx
{ zchar[ 7
] roots
,leftPad
Foo
    `" ++ [233]%N ++ runes_of_ascii "`
, Header Header , int16
falsey , // `tick` ""quote"" 'q'
u16 Packet" ++ [0]%N ++ runes_of_ascii " , int64 packetx// " ++ [128512]%N ++ runes_of_ascii " emoji
,}")).
Eval vm_compute in ("<<<M564>>>" ++ check (runes_of_ascii " ")).
Eval vm_compute in ("<<<M574>>>" ++ check ([65279]%N)).
Eval vm_compute in ("<<<M584>>>" ++ check (runes_of_ascii "packet i8 :")).
Eval vm_compute in ("<<<M594>>>" ++ check (runes_of_ascii "eo1")).
