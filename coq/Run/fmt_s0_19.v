From FP Require Import Lexer Parser ShowPT Digest Formatter.
From Coq Require Import String List NArith.
Import ListNotations.
Open Scope string_scope.
Set Printing Width 100000000.
Set Printing Depth 100000000.
Definition show_fres (r : fres) : string :=
  match r with
  | FOk s => "OK:" ++ sh_escaped s ""
  | FErr s => "ERR:" ++ sh_escaped s ""
  | FPanic p => "PANIC:" ++ p
  end.
Definition check (rs : list rune) : string := digest (show_fres (format_res rs)).
Definition full (rs : list rune) : string := show_fres (format_res rs).
Eval vm_compute in ("<<<M263>>>" ++ check (runes_of_ascii "
packet Z9_ //x
{ @calculatedFrom( ""1"" )
match
body as u8x{ [ 7 ] :
u ,
[7
,00, ""a\""b""
, """" , ""\n"" , 00
] : charz , 1	: // c
Packet
, """ ++ [28040; 24687]%N ++ runes_of_ascii """ :
f32a ,  00 : // trailing space 
len } ,@lengthOf(calculatedFrom )	MetaDataX
    , Packet	@lengthOf(
    int ) , repeat // `tick` ""quote"" 'q'
char[ 7 ]calculatedFrom, @calculatedFrom(""a\\"" ) zchar[ //
255 // " ++ [128512]%N ++ runes_of_ascii " emoji
] f32a @calculatedFrom( """ ++ [233]%N ++ runes_of_ascii "t" ++ [233]%N ++ runes_of_ascii """ ) ,	@calculatedFrom( ""a\""b"" // packet A { u8 x, }
)char[7
    //	t
    ] i8i8 @calculatedFrom(""a\\"") `crlf
line` ,zchar[
    0123456789	]
x `line1
line2`
,@leftPad () repeat
u64 stringy , @lengthOf( x	) repeat
body
{//	t
Z9_ {
repeat asx , repeat crc i64_ // " ++ [27880; 37322]%N ++ runes_of_ascii "
, repeat rootA { repeat rootA MetaDataX `line1
line2`
    // `tick` ""quote"" 'q'
    ,match
i64_ as
calculatedFrom {
    7
:
x[ 7 ] : stringy , ""1"": i8i8 , [
""1"" , 42 ,
// trailing space 
/// triple
""" ++ [233]%N ++ runes_of_ascii "t" ++ [233]%N ++ runes_of_ascii """ , 10 ,
255 , 0 , 10 ]
: u ,
""x y""
:
    i8i8 }
// `tick` ""quote"" 'q'
//x
,uint64 _x `
` ,char[ 0 ] i64_ @calculatedFrom( ""CRC32""
)
    , }, x_y_z {
char[] T
// a // b
// @lengthOf(
,} ,} ,repeat  u64 Foo `a\`,
    uint8
uint8x,
match
//	t
// trailing space 
roots
as chars {1
    : _x ""a\""b"" :uint8x, 42 : metadata // " ++ [128512]%N ++ runes_of_ascii " emoji
, // `tick` ""quote"" 'q'
[// @lengthOf(
""\n"" ,
255]
: zchar
[ """ ++ [233]%N ++ runes_of_ascii "t" ++ [233]%N ++ runes_of_ascii """ ,3
, 4294967296 ,// trailing space 
0123456789 , ""x y"" ] : metadata[ // c
""it's"" , ""// no comment""
]  :Z9_
    , }
,	}
    , } // a // b
MetaData rootA	{ char[ 4294967296 ] msg_type,// @lengthOf(
char[]  u128, uint64 a1 , int8 crc , Pad
    msg_type `doc`
,
}
//	t
/// triple
packet x_y_z
    {@lengthOf( crc) match packetx as f32a	{ 0123456789:A
,	00 :	u // @lengthOf(
}, }
")).
Eval vm_compute in ("<<<M257>>>" ++ check (runes_of_ascii "options
{
BodyLength
=3 ;// " ++ [128512]%N ++ runes_of_ascii " emoji
T = ""packet""
// @lengthOf(
// trailing space 
;
// c
// trailing space 
crc = true ;
falsey= '\x00'/// triple
;
} root packet A
    {@leftPad (
'0' )	char[
65535 ] Header  `" ++ [233]%N ++ runes_of_ascii "` ,
@rightPad( '0' ) //
a1 @lengthOf( msg_type ) , @lengthOf( rootA )
    match
_x as //x
stringy {""CRC32"" : chars, 3// `tick` ""quote"" 'q'
:float , 255	:	asx // `tick` ""quote"" 'q'
, 10  : tag ,//
} ,
    @calculatedFrom(
    """ ++ [128512]%N ++ runes_of_ascii """	) u32 u8x`crlf
line` , repeat char[]	asx `a\` , @rightPad ( '0'	)match f32a  as Packet
    { [ 255 , ""CRC32"" , 007
, ""1"",""packet"" , 00 ,
    4294967296 ]	: calculatedFrom , ""packet"" :
    falsey, ""a\""b"": body , 7// a // b
: Packet // " ++ [128512]%N ++ runes_of_ascii " emoji
0123456789 :	i64_ ,
    // a // b
    [4294967296 , 0123456789 ]  : // `tick` ""quote"" 'q'
options1	} ,crc /// triple
@lengthOf(	Foo
    )
    ,
@calculatedFrom( ""{,}"")@lengthOf(metadata ) @lengthOf( i8i8
)int64 options1 @calculatedFrom(""CRC32"" )
    `line1
line2` , // @lengthOf(
} packet a1 // `tick` ""quote"" 'q'
{ match lengthOf//
as x_y_z
{ ""it's"" :matchKey
//
// @lengthOf(
, 10 :
Packet , [ //x
""abc""
    ]// a // b
: A 10 //x
: metadata
    ,
    } ,
}MetaData
    body { char string_, char[]
x, len Pad , string
    leftPad , } // trailing space ")).
Eval vm_compute in ("<<<M1734>>>" ++ check (runes_of_ascii "// a // b
packet stringy {
    string zchar,
    repeat T,
    match u as charz {
        007 : float,
        ""\" ++ [233]%N ++ runes_of_ascii """ : Logon,
        ""a	b"" : pack,
    },
    match uint8x as roots {
        1 : len,
    },
}

packet zchar {
    roots options1 `// not a comment`,
    int64 As,
    i16 float @lengthOf(falsey) `a\`,
    int64 msg_type `tab	here`,
    @tag(0)
    repeat uint8x,
    @lengthOf(x)
    repeat metadata,
    zchar[0] int,
    uint64 zchar,
    zchar[7] msg_type,
    @calculatedFrom(""" ++ [28040; 24687]%N ++ runes_of_ascii """)
    crc,
}

root packet zchar {
    repeat leftPad,
}

packet A {
    @lengthOf(string_)
    x @lengthOf(options1) `two words`,
    string len,
}

packet falsey {
    i64_ @calculatedFrom(""{,}""),
    repeat string chars,
    zchar[7] calculatedFrom,
    Header {
        char u `two words`,
        repeat char[] tag `say ""hi""`,
        Z9_ @lengthOf(T) `line1
        line2`,
    },
    msg_type @calculatedFrom(""// no comment""),
    @rightPad('\x00')
    @lengthOf(asx)
    falsey,
}// packet A { u8 x, }")).
Eval vm_compute in ("<<<M1488>>>" ++ check (runes_of_ascii "// top
packet Frame {
    // c2a
    // c2b
    u8 HK,
    // c5
    u8 BK,// c8a
    // c8b
    u8 TK,// c11a
    // c11b
    match HK as Hdr {
        // c16
        1 : HdrA,
        2 : HdrB,
        // c24a
        // c24b
    },
    // c26
    match BK as Body {
        // c31
        1 : BodyA,
        // c35
        2 : BodyB,
    },// c41
    match TK as Trl {
        // c46a
        // c46b
        1 : TrlA,
        // c50a
        // c50b
    },// c52a
    // c52b
}// c53a

// c53b
packet HdrA {
    u8 a,// c59
}// c60

packet HdrB {
    // c63a
    // c63b
    u16 b,// c66
}// c67

packet BodyA {
    // c70a
    // c70b
    u32 c,
}// c74

packet BodyB {
    // c77
    u64 d,// c80a
    // c80b
}// c81a

// c81b
packet TrlA {
    // c84
    u8 e,
    // c87
}// c88a

// c88b
root packet Msg {
    Frame,// c94a
    // c94b
    u8 x,// c97a
    // c97b
}
// c98")).
Eval vm_compute in ("<<<M228>>>" ++ check (runes_of_ascii "packet
//
// " ++ [27880; 37322]%N ++ runes_of_ascii "
BodyLength  {
repeat
    // @lengthOf(
    zchar[	255]tag `crlf
line` , } MetaData BodyLength	{
char[ 65535] //	t
packetx `" ++ [28040; 24687; 31867; 22411]%N ++ runes_of_ascii "` , } options
    {
    metadata =3; // trailing space 
} packet Packet
{ o { uint16	Logon
    , } , @leftPad (  )char[ 0123456789 ]
a1 `" ++ [28040; 24687; 31867; 22411]%N ++ runes_of_ascii "` // a // b
,
    repeat string
lengthOf
    `{ , }`	,stringy crc
,@rightPad (
' ' ) u32	MetaDataX
    ,
@rightPad('0' ) tag	{repeat f64 tag `u8 x,`
, }
    //	t
    , char[
    00 ] uint8x `` , match leftPad  as Header {""" ++ [233]%N ++ runes_of_ascii "t" ++ [233]%N ++ runes_of_ascii """  : Foo
, [	""\" ++ [233]%N ++ runes_of_ascii """
, 007
,00 , 10, ""\" ++ [233]%N ++ runes_of_ascii """ ]: crc
, [ 1 ,007 , ""a\\""
    ,
""packet""
    ]: //	t
len // packet A { u8 x, }
, 10 : MetaDataX
//x
// " ++ [128512]%N ++ runes_of_ascii " emoji
,  }
//	t
/// triple
, } packet
    i64_{
@rightPad	('\x00'
)
@leftPad(
) i8 body@calculatedFrom(""" ++ [233]%N ++ runes_of_ascii "t" ++ [233]%N ++ runes_of_ascii """) `it's` , }
// @lengthOf(
")).
Eval vm_compute in ("<<<M93>>>" ++ check (runes_of_ascii "packet float { char[]
    u8x
@lengthOf( roots ) ,
}MetaData leftPad	{ string
    // `tick` ""quote"" 'q'
    a1, }root
packet // " ++ [27880; 37322]%N ++ runes_of_ascii "
pack { falsey,
    /// triple
    match Logon
as // " ++ [128512]%N ++ runes_of_ascii " emoji
trueish
{""packet""
    : Foo ,"""" : len, 0123456789: i64_ , ""it's"" : packetx
    ,
    255
    : len
, }
    , repeat
As As `" ++ [233]%N ++ runes_of_ascii "` , @tag( 3  ) uint32 a1
, repeat  zchar[ 4294967296]
pack	,@leftPad (' ' )  zchar  @lengthOf( string_ ) `// not a comment` , repeat int ,
repeat
i8i8 // " ++ [27880; 37322]%N ++ runes_of_ascii "
{ u64
    // a // b
    tag `say ""hi""`	,u8x , char trueish  , repeat // packet A { u8 x, }
float32
    stringy `line1
line2` ,} ,match o
as	o { 007  : float },
// packet A { u8 x, }
// c
repeat
    Pad ,
// " ++ [27880; 37322]%N ++ runes_of_ascii "
// trailing space 
}")).
Eval vm_compute in ("<<<M58>>>" ++ check (runes_of_ascii "packet pack
// c
// packet A { u8 x, }
{u8 a1
// trailing space 
/// triple
`say ""hi""` // packet A { u8 x, }
, @leftPad (
'\x00' )  uint8 Logon	`
` // `tick` ""quote"" 'q'
,
char[]lengthOf // " ++ [27880; 37322]%N ++ runes_of_ascii "
`" ++ [233]%N ++ runes_of_ascii "` ,
//
//x
repeat char[] As,
    //	t
    @lengthOf(string_ )  @calculatedFrom(
""a\\"" )
    repeat
    u8x	o	, char string_ @calculatedFrom(
""a\""b"" )
`tab	here`
    , repeat As { char[
    // packet A { u8 x, }
    0 ] i64_//	t
@lengthOf( T)
`" ++ [233]%N ++ runes_of_ascii "` , char[4294967296	]
T @calculatedFrom( ""\" ++ [233]%N ++ runes_of_ascii """ )
, trueish
, repeat int
{string Logon @calculatedFrom(	""1"" ) , metadata  ,
uint32
Z9_  , // " ++ [27880; 37322]%N ++ runes_of_ascii "
} , },@tag( 00 ) //	t
i16  a1 `a\`
    ,
    }
")).
Eval vm_compute in ("<<<M1892>>>" ++ check (runes_of_ascii "
packet  charz
{  
  // " ++ [27880; 37322]%N ++ runes_of_ascii "
	/// triple
    repeat	// c
      string

    int

    `" ++ [28040; 24687; 31867; 22411]%N ++ runes_of_ascii "` ,  @calculatedFrom(
""it's"" )
@tag(

255 ) 
f64 	 // a // b
    asx

    ,string
    T`doc` , zchar[

    007 
]
	tag @lengthOf(//
    Z9_	)
`// not a comment`
, } options	{

u
=
u16;}	MetaData
	chars

    { i16
falsey 
,	f64
pack ,

char[ 
1

    ]
    asx	`it's`
	,
char[] body
, 
	    // `tick` ""quote"" 'q'

  //x

  }  packet
	leftPad
    {  @rightPad

    (
// @lengthOf(
    //x
) repeat  Pad  float`{ , }` ,  } options

    {

roots
    =
    true ;

    }
")).
Eval vm_compute in ("<<<M1115>>>" ++ check (runes_of_ascii "packet float
    // c1
{ // c2
@rightPad // c3a
  // c3b
( // c4a
  // c4b
) // c5a
  // c5b
rootA // c6
@lengthOf( // c7a
  // c7b
trueish // c8
)
    // c9
,
    // c10
stringy // c11a
  // c11b
@lengthOf( // c12a
  // c12b
matchKey )
    // c14
, // c15a
  // c15b
char[ 4294967296 ]
    // c18
pack @lengthOf(
    // c20
uint8x
    // c21
) // c22a
  // c22b
,
    // c23
} // c24
root // c25
packet trueish {
    // c28
repeat uint64
    // c30
u128
    // c31
`line1
line2` // c32
,
    // c33
}
    // c34
")).
Eval vm_compute in ("<<<M1235>>>" ++ check (runes_of_ascii "// top
options
    // c0
{
    // c1
f32a
    // c2
=
    // c3
0
    // c4
}
    // c5
packet
    // c6
trueish
    // c7
{
    // c8
}
    // c9
MetaData
    // c10
_x
    // c11
{
    // c12
char[
    // c13
0123456789
    // c14
]
    // c15
zchar
    // c16
,
    // c17
string
    // c18
crc
    // c19
,
    // c20
char[
    // c21
1
    // c22
]
    // c23
options1
    // c24
,
    // c25
uint8
    // c26
repeatCount
    // c27
,
    // c28
}
    // c29
")).
Eval vm_compute in ("<<<M1638>>>" ++ check (runes_of_ascii "  options{u 
=
7  
  // " ++ [27880; 37322]%N ++ runes_of_ascii "

roots
	= zchar[

65535]	msg_type
    =""" ++ [233]%N ++ runes_of_ascii "t" ++ [233]%N ++ runes_of_ascii """
    ;x
=
false
}
MetaData string_
	{
char[ 	 // trailing space 
	  42 
        //x
    // " ++ [128512]%N ++ runes_of_ascii " emoji

]
	i8i8

    `" ++ [28040; 24687; 31867; 22411]%N ++ runes_of_ascii "`
    , u8 x_y_z

    ,packetx 
lengthOf
    `` 
      // " ++ [27880; 37322]%N ++ runes_of_ascii "

,
    T Header
	`line1
line2`

    ,
char[]	// " ++ [27880; 37322]%N ++ runes_of_ascii "
u8x
	`two words` ,
    } packet	float//x
    {calculatedFrom ,
	@rightPad
    ( '0') 
char[  3
	]u128, } ")).
Eval vm_compute in ("<<<M1259>>>" ++ check (runes_of_ascii "// top
packet // c0
B // c1a
  // c1b
{ // c2
u8 // c3a
  // c3b
a // c4
, } // c6
root // c7a
  // c7b
packet // c8a
  // c8b
P { // c10
u8
    // c11
K , // c13
u8 // c14a
  // c14b
L // c15a
  // c15b
@lengthOf( // c16a
  // c16b
Body )
    // c18
, match // c20
K as // c22a
  // c22b
Body
    // c23
{ 1 :
    // c26
B // c27
, }
    // c29
,
    // c30
}
    // c31
")).
Eval vm_compute in ("<<<M1674>>>" ++ check (runes_of_ascii "

  root packet
	int{

match MetaDataX as

    charz
    {
255
:

uint8x
,

65535 : // @lengthOf(

u128""\" ++ [233]%N ++ runes_of_ascii """

:
	o  , 0123456789
	:  _x 
""{,}""	: 
matchKey
	// `tick` ""quote"" 'q'
    // `tick` ""quote"" 'q'
[

4294967296
    , 
"""",	10 ] : charz , 
}	,@lengthOf(  roots

    )	x  @calculatedFrom(
	""\n"" ),
    i32	tag  ,
    }")).
Eval vm_compute in ("<<<M1359>>>" ++ check (runes_of_ascii "options
    {
	LittleEndian 
=
false ; StringPrefixLenType

    =
u16

; }  packet
    Heartbeat
	{ @rightPad(

    '0')
	char[
7 ]
seqNo	,
	uint64 Tail
,

    i16
Flags 
,
u16
msgKind,  } root

packet
    Reject
{ 
zchar[
	3
]tag7

,
    repeat Heartbeat ,	repeat 
string
	clOrdID,	}

")).
Eval vm_compute in ("<<<M1689>>>" ++ check (runes_of_ascii "//	t
    options 
{	chars

    = true	As= char[] 
// trailing space 
// " ++ [128512]%N ++ runes_of_ascii " emoji
	; 	 /// triple
  	x_y_z = 7

;	// " ++ [27880; 37322]%N ++ runes_of_ascii "
    i8i8  =
true packetx=  /// triple
	' ' 
}	root
packet x_y_z {
repeat  char[
42
    //x
    ]	//	t
  Pad,
	} 
    // packet A { u8 x, }")).
Eval vm_compute in ("<<<M1659>>>" ++ check (runes_of_ascii "
options { 
Z9_
	=  // trailing space 
	""packet""
	; 
float 
= false 
;
A
	= ' '
}

// c
	  MetaData 
pack 
{zchar[3

] leftPad , zchar 
falsey  `it's`
,
char[] 
repeatCount , char[ 65535// " ++ [128512]%N ++ runes_of_ascii " emoji
  ]  Z9_ ,
} 
	    //	t
")).
Eval vm_compute in ("<<<M249>>>" ++ check (runes_of_ascii "
packet
rootA {
} // trailing space 
packet f32a //	t
{ match
zchar as zchar
    {	65535 : f32a , 7 : charz// trailing space 
,
""{,}""
//	t
//x
: Header , 42
    :a1 // packet A { u8 x, }
, }
, }
")).
Eval vm_compute in ("<<<M1293>>>" ++ check (runes_of_ascii "packet A {
    u8 a,
}
packet B {
    u16 b,
}
root packet P {
    u8 K1,
    u8 K2,
    match K1 as M1 {
        1 : A,
    },
    match K2 as M2 {
        1 : B,
    },
}
")).
Eval vm_compute in ("<<<M1849>>>" ++ check (runes_of_ascii "packet A {
    match k as n {
        [
            1, ""bb"", 007, ""d"", 5,
            ""f"", 7, ""h"", 9, ""j"",
            11
        ] : B,
        2 : C,
    },
}")).
Eval vm_compute in ("<<<M1480>>>" ++ check (runes_of_ascii "
packet 
i64_
{ }
MetaData
uint8x { Packet
tag
    ,
u8	repeatCount  ,
	x_y_z	_x

    `" ++ [233]%N ++ runes_of_ascii "`  ,  zchar[
    42
    ]
	crc
	`a\`
, 
}

    options{ }
")).
Eval vm_compute in ("<<<M531>>>" ++ check (runes_of_ascii "packet uint8x
{ match pack
    as msg_type	{
    0123456789 :	float
}
,
} packet //	t
a1
    { } options {packetx
    = '\x00'	; u128= ""a	b""  ; } }
")).
Eval vm_compute in ("<<<M432>>>" ++ check (runes_of_ascii "packet uint8x
{ match pack
    as msg_type	{
    : 0123456789	float
}
,
} packet //	t
a1
    { } options {packetx
    = '\x00'	; u128= ""a	b""  ; }
")).
Eval vm_compute in ("<<<M455>>>" ++ check (runes_of_ascii "packet uint8x
{ match pack
    as msg_type	{
    0123456789 :	float
}
,
 packet //	t
a1
    { } options {packetx
    = '\x00'	; u128= ""a	b""  ; }
")).
Eval vm_compute in ("<<<M510>>>" ++ check (runes_of_ascii "packet uint8x
{ match pack
    as msg_type	{
    0123456789 :	float
}
,
} packet //	t
a1
    { } options {packetx
    = '\x00'	; = ""a	b""  ; }
")).
Eval vm_compute in ("<<<M677>>>" ++ check (runes_of_ascii "// @lengthOf(
packet i8i8 { u128 o , }
options { MetaDataX = true;
    BodyLength =""packet"" x_y_z 007 =
crc //x
= ""abc"" ;
    msg_type =
i16 }")).
Eval vm_compute in ("<<<M704>>>" ++ check (runes_of_ascii "// @lengthOf(
packet i8i8 { u128 o , }
options { MetaDataX = true;
    BodyLength =""packet"" x_y_z 007
crc //x
= ""abc"" ;
    msg_type =
i16 }")).
Eval vm_compute in ("<<<M519>>>" ++ check (runes_of_ascii "packet uint8x
{ match pack
    as msg_type	{
    0123456789 :	float
}
,
} packet //	t
a1
    { } options {packetx
    = '\x00'	; u128")).
Eval vm_compute in ("<<<M1545>>>" ++ check (runes_of_ascii "MetaData leftPad {
    chars MetaDataX,
}

packet repeatCount {
    char[255] uint8x `" ++ [233]%N ++ runes_of_ascii "`,
}

MetaData pack {
    // c
    As Foo,
}")).
Eval vm_compute in ("<<<M1532>>>" ++ check (runes_of_ascii "packet A {
    u16 len @lengthOf(body) `tab
    	x`,
    u32 crc @calculatedFrom(""CRC32"") `tab
    	x`,
    string body,
}")).
Eval vm_compute in ("<<<M1154>>>" ++ check (runes_of_ascii "MetaData leftPad { chars MetaDataX ,
// c
} packet repeatCount { char[ 255 ] uint8x `" ++ [233]%N ++ runes_of_ascii "` , } MetaData pack { As Foo , }")).
Eval vm_compute in ("<<<M1186>>>" ++ check (runes_of_ascii "MetaData leftPad { chars MetaDataX , } packet repeatCount { char[ 255 ] uint8x `" ++ [233]%N ++ runes_of_ascii "` , } MetaData pack { As Foo
// c
, }")).
Eval vm_compute in ("<<<M1577>>>" ++ check (runes_of_ascii "packet asx {
    match u128 as lengthOf {
        //	t
        // `ti/ck` ""quote"" 'q'
        255 : x,
    },
}")).
Eval vm_compute in ("<<<M24>>>" ++ check (runes_of_ascii "options { metadata
= '\x00' ;
    u128
=
    ""CRC32"" ; charz = ' 'options1 = 00 ; }
packet string_ { }
")).
Eval vm_compute in ("<<<M160>>>" ++ check (runes_of_ascii "
MetaData zchar { roots
A , char[] falsey `line1
line2` ,
// " ++ [128512]%N ++ runes_of_ascii " emoji
// @lengthOf(
int crc ,	} //	t")).
Eval vm_compute in ("<<<M876>>>" ++ check (runes_of_ascii "packet A {
  match k as n {
    [""a"", ""bb"", 007, ""d"", ""e"", 66, ""g"", ""h"", 9] : B
    2 : C
  },
}")).
Eval vm_compute in ("<<<M1672>>>" ++ check (runes_of_ascii "
packet A{  Inner 
{

match
k

    as n	{
	[
1
	,
22
]
    :B

    ,

}	,}
	,
    }

")).
Eval vm_compute in ("<<<M632>>>" ++ check (runes_of_ascii "
packet
    asx {match u128 a|s lengthOf
{
//	t
// `tick` ""quote"" 'q'
255 : x ,
    } ,	}")).
Eval vm_compute in ("<<<M1389>>>" ++ check (runes_of_ascii "MetaData crc {
    Pad T,
    zchar[0123456789] a1,
    int8 trueish,
}

packet float {
}")).
Eval vm_compute in ("<<<M1955>>>" ++ check (runes_of_ascii "

  packet A  { match k
	as n

    {  [ 1,""bb""	,

    007
,
	""d""	] :B 2 : C}
,

}")).
Eval vm_compute in ("<<<M815>>>" ++ check (runes_of_ascii "packet A {
  match k as n {
    [""a"", ""bb"", ""c c"", ""d"", ""e""] : B,
    2 : C
  },
}")).
Eval vm_compute in ("<<<M840>>>" ++ check (runes_of_ascii "packet A {
  match k as n {
    [1, 22, 007, 4, 5, 66, 7] : B
    2 : C
  },
}")).
Eval vm_compute in ("<<<M1859>>>" ++ check (runes_of_ascii "packet

A	{ 
match k
	as  n {[ 
""a""
,
""bb""
    ] : B,	2

    :C } , }
")).
Eval vm_compute in ("<<<M809>>>" ++ check (runes_of_ascii "packet A {
  match k as n {
    [1, 22, ""c c"", 4] : B
    2 : C
  },
}")).
Eval vm_compute in ("<<<M628>>>" ++ check (runes_of_ascii "
packet
    asx {match u128 as lengthOf
{
//	t
// `tick` ""quote""")).
Eval vm_compute in ("<<<M261>>>" ++ check (runes_of_ascii "options{ asx= ""1"" //	t
Pad =  0 stringy =
    '\x00'
    ; }")).
Eval vm_compute in ("<<<M1423>>>" ++ check (runes_of_ascii "
MetaData
_x {  i64 u128
	,
	Packet	Header	,

    }
")).
Eval vm_compute in ("<<<M1199>>>" ++ check (runes_of_ascii "packet // c
body { i32 f32a `{ , }` , } options { }")).
Eval vm_compute in ("<<<M333>>>" ++ check (runes_of_ascii "  MetaData
x_y_z{ }	packet chars	{	} options {}
")).
Eval vm_compute in ("<<<M755>>>" ++ check (runes_of_ascii "string i8 ) } u8 [ uint32 ] } = uint8 '\x00'")).
Eval vm_compute in ("<<<M1702>>>" ++ check (runes_of_ascii "  MetaData

    u{ 
        // c

	}

")).
Eval vm_compute in ("<<<M1897>>>" ++ check (runes_of_ascii "packet

    x
{
} 
    // c
 
")).
Eval vm_compute in ("<<<M934>>>" ++ check (runes_of_ascii "root packet A {
    u8 x `
`,
}")).
Eval vm_compute in ("<<<M175>>>" ++ check (runes_of_ascii "
packet calculatedFrom { } 	 ")).
Eval vm_compute in ("<<<M1652>>>" ++ check (runes_of_ascii "// c" ++ [12288]%N ++ runes_of_ascii "
	  packet
    A{} ")).
Eval vm_compute in ("<<<M1103>>>" ++ check (runes_of_ascii "// c
MetaData tag { }")).
Eval vm_compute in ("<<<M1130>>>" ++ check (runes_of_ascii "MetaData // c
u { }")).
Eval vm_compute in ("<<<M1021>>>" ++ check (runes_of_ascii "packet A {
}
// c" ++ [8239]%N)).
Eval vm_compute in ("<<<M999>>>" ++ check (runes_of_ascii "packet A {
}// c" ++ [8192]%N)).
Eval vm_compute in ("<<<M378>>>" ++ check (runes_of_ascii "// @lengthOf(

")).
Eval vm_compute in ("<<<M1911>>>" ++ check (runes_of_ascii "
// c" ++ [12288]%N ++ runes_of_ascii "
 
")).
Eval vm_compute in ("<<<M754>>>" ++ check (runes_of_ascii "Y )'")).
