From FP Require Import Lexer Parser ShowPT Digest Formatter.
From Coq Require Import String List NArith.
Import ListNotations.
Open Scope string_scope.
Set Printing Width 100000000.
Set Printing Depth 100000000.
Definition show_fres (r : fres) : string :=
  match r with
  | FOk s => "OK:" ++ sh_escaped s ""
  | FErr s => "ERR:" ++ sh_escaped s ""
  | FPanic p => "PANIC:" ++ p
  end.
Definition check (rs : list rune) : string := digest (show_fres (format_res rs)).
Definition full (rs : list rune) : string := show_fres (format_res rs).
Eval vm_compute in ("<<<M1963>>>" ++ check (runes_of_ascii "// packet A { u8 x, }
    root 
packet	rootA{ repeat
char[]
    int 
	    /// triple
      `it's`	,  string

    asx @calculatedFrom( 
""a\""b"" 
) 	 //x
	`tab	here`
,
falsey 
``	,
	repeat  string metadata ``
    //
// " ++ [27880; 37322]%N ++ runes_of_ascii "
    	, match x 
    // @lengthOf(
  as

    chars

{
007
	:
    lengthOf	""// no comment""
:
o,
[
""" ++ [233]%N ++ runes_of_ascii "t" ++ [233]%N ++ runes_of_ascii """] 	 //	t
  :

len

, [0123456789	,007

,	""" ++ [233]%N ++ runes_of_ascii "t" ++ [233]%N ++ runes_of_ascii """, 	 // trailing space 
42
	,

    0123456789
	,

""packet""
    , 
00 ] : x
	,  },

match pack
	as

int

{	[// a // b
1,""a\""b"" 
,	""a\""b""
    ]: x ,

    },
} root packet	int
	{ char[ 10  ] len

    @lengthOf(string_)

    ,
	@calculatedFrom(

""1"" )  repeat 
    //	t
packetx  { char[ 42
]Foo
, 
a1

    A ,repeat

    zchar[
	1  ]i8i8  `a\` ,zchar[4294967296 
]

x_y_z 
@lengthOf(
T	)

    `` ,  }  , char
	chars 
,repeat zchar[
255

]

tag `tab	here`
,
@calculatedFrom(""it's""	//	t

) 	 // packet A { u8 x, }
	char[00
	]

    BodyLength
    //x
    // " ++ [128512]%N ++ runes_of_ascii " emoji
    ``
, 
        //	t
  /// triple
    }
    packet asx
{	zchar[ 255  ]

    x
@lengthOf(

    int

    ) ,
}
    MetaData 
repeatCount {
a1
    Logon	,

    u8x
As,char[ 
	    /// triple
      00 ]// c
  metadata
`line1
line2` ,	i32
	Logon

    `it's`
,  string
falsey,
	}  packet  Z9_
// trailing space 
	// " ++ [27880; 37322]%N ++ runes_of_ascii "
    { options1
	{
	u32 
MetaDataX	, char[ 1 ] 
	// " ++ [128512]%N ++ runes_of_ascii " emoji
  //x

x
@lengthOf( Header
)
    ,
	repeatCount 

/// triple
	x_y_z
,

}
,	float
,
	repeat
    packetx 
Z9_ , @rightPad  ( 
      // trailing space 
  // trailing space 
  ' '
) asx
	{
    string 
asx	@lengthOf(  uint8x	// c
)
	,
packetx

    ,  char[  007] metadata	, }  ,  } ")).
Eval vm_compute in ("<<<M125>>>" ++ check (runes_of_ascii "
packet
    o // @lengthOf(
{
    @leftPad(
    ) @tag( 00
)  int16 int
    @lengthOf(
Header )
`
`	,
@leftPad (
'\x00')
    char[00// c
]	body@lengthOf( // packet A { u8 x, }
a1 ) `" ++ [28040; 24687; 31867; 22411]%N ++ runes_of_ascii "` , } packet roots
{ Logon  `crlf
line` ,}packet // `tick` ""quote"" 'q'
_x
// `tick` ""quote"" 'q'
//
{ zchar[4294967296
] Header`
`	,chars @calculatedFrom( ""1"" ) // packet A { u8 x, }
, match As
// 50% %s
//
as
// @lengthOf(
//x
A {""`tick`""// " ++ [27880; 37322]%N ++ runes_of_ascii "
:u }
    , repeat string
    zchar ,
    repeat packetx { match
pack
    //x
    as
lengthOf
    { 3: calculatedFrom
    , 3
    // packet A { u8 x, }
    : metadata ,
    ""abc"" // " ++ [128512]%N ++ runes_of_ascii " emoji
:
    falsey,4294967296 :
len ,
}  , match Packet as repeatCount
{ [""a\\"", 1 , ""a\\"" ,0
, ""packet"" , ""a	b"" ] : f32a
    , 4294967296
    :
tag  1 :
packetx  , [ ""\n"", 42 ,
    4294967296
    ,
""a	b""
    , 10
,
255 ,	007 ]
:
chars
,  [ ""1"" ,""// no comment""
,0 , // 50% %s
1 ,""`tick`"" , 3 , 42 , ""\" ++ [233]%N ++ runes_of_ascii """ ]
: BodyLength
    }, // trailing space 
},string u8x `" ++ [28040; 24687; 31867; 22411]%N ++ runes_of_ascii "`  ,
    repeat
    f32a{
char[7 ] // " ++ [128512]%N ++ runes_of_ascii " emoji
x_y_z `
` // trailing space 
,
} , }
MetaData Packet { chars u , char[]u8x
,
// 50% %s
// trailing space 
x_y_z
    /// triple
    asx
    `" ++ [28040; 24687; 31867; 22411]%N ++ runes_of_ascii "`,
int8 Header `{ , }` , zchar[
4294967296 ]
    rootA `u8 x,`
/// triple
//
,
char[] calculatedFrom, }
")).
Eval vm_compute in ("<<<M1895>>>" ++ check (runes_of_ascii "
root packet 
packetx

{char[]

    leftPad
	@lengthOf( 
chars ),
@lengthOf( 
u)	repeat

    uint8
float 
,

A  ,zchar[ 4294967296 ]string_@lengthOf(  float
    )
    ,  match
    rootA
    as
As
{  // " ++ [128512]%N ++ runes_of_ascii " emoji
      [
""it's"" ,

255 ,  // 50% %s
	  0123456789  ,""" ++ [233]%N ++ runes_of_ascii "t" ++ [233]%N ++ runes_of_ascii """ 
,	""{,}"" ,  ""abc""

    ,
""" ++ [233]%N ++ runes_of_ascii "t" ++ [233]%N ++ runes_of_ascii """] : int
,
4294967296
: tag// trailing space 
, }

,@calculatedFrom(
	""\" ++ [233]%N ++ runes_of_ascii """
// packet A { u8 x, }
	) @lengthOf(
	tag
    ) match leftPad as
	u 
{ [

    ""it's""

]
:string_	,} ,
@calculatedFrom(  ""\n""

    // 50% %s
	  // packet A { u8 x, }
  ) 
@lengthOf( calculatedFrom

    )
	    // 50% %s
@lengthOf(
    // trailing space 

  // trailing space 
MetaDataX) charz
, @tag(
65535 
)match	f32a as 
rootA {

[

    """ ++ [128512]%N ++ runes_of_ascii """ ] 
:
falsey 0:  // packet A { u8 x, }
    	MetaDataX
    ,  // @lengthOf(
	}
,char[

    007 ]
    i8i8
    @calculatedFrom(// c
""" ++ [233]%N ++ runes_of_ascii "t" ++ [233]%N ++ runes_of_ascii """ 
  // trailing space 
		// " ++ [128512]%N ++ runes_of_ascii " emoji
	) `
`, }

options
	{
trueish 

    /// triple
	= // c
	true	;	rootA
=
""\" ++ [233]%N ++ runes_of_ascii """
	;
    trueish  = 
false
	; }	// a // b
 
")).
Eval vm_compute in ("<<<M224>>>" ++ check (runes_of_ascii "packet
leftPad {
@lengthOf( len
)  Pad u
`" ++ [28040; 24687; 31867; 22411]%N ++ runes_of_ascii "` , } root
packet As{ uint16
    calculatedFrom ,
    // c
    }packet
Header { }
packet
int{@rightPad ( // " ++ [27880; 37322]%N ++ runes_of_ascii "
'0'	)repeat
Foo// @lengthOf(
stringy ,
len
    // " ++ [27880; 37322]%N ++ runes_of_ascii "
    { float64
i64_ `it's` , } ,repeat
MetaDataX//x
{
rootA
`crlf
line`	, match string_ as roots {""it's""
    // @lengthOf(
    :x 7
    :
    A //x
, // @lengthOf(
}
,
char
u128 `" ++ [233]%N ++ runes_of_ascii "` ,}  , @lengthOf( MetaDataX ) @leftPad ('0' ) //
@leftPad ( ) char[] body , @calculatedFrom(
""""
) calculatedFrom
    trueish ,
    Packet ,repeat As{
    char[ 65535] Header , i8 /// triple
Packet ,
} ,  char[
    00]	packetx
@lengthOf(
u8x) `u8 x,` // " ++ [27880; 37322]%N ++ runes_of_ascii "
,
    // " ++ [128512]%N ++ runes_of_ascii " emoji
    @calculatedFrom( ""`tick`"" ) @lengthOf(
A
    )
    match
body
as //
i64_
{// a // b
[ 1 ] :
// trailing space 
// `tick` ""quote"" 'q'
f32a, },	i8 _x @calculatedFrom(	""// no comment"" )
// trailing space 
// a // b
``, }
// a // b
")).
Eval vm_compute in ("<<<M1196>>>" ++ check (runes_of_ascii "// top
options
    // c0
{
    // c1
}
    // c2
MetaData
    // c3
packetx
    // c4
{
    // c5
int
    // c6
falsey
    // c7
`two words`
    // c8
,
    // c9
int32
    // c10
trueish
    // c11
,
    // c12
char[]
    // c13
u8x
    // c14
,
    // c15
A
    // c16
x
    // c17
`// not a comment`
    // c18
,
    // c19
}
    // c20
root
    // c21
packet
    // c22
i8i8
    // c23
{
    // c24
@lengthOf(
    // c25
repeatCount
    // c26
)
    // c27
@tag(
    // c28
1
    // c29
)
    // c30
@calculatedFrom(
    // c31
""a	b""
    // c32
)
    // c33
string
    // c34
stringy
    // c35
@calculatedFrom(
    // c36
""\n""
    // c37
)
    // c38
`line1
line2`
    // c39
,
    // c40
pack
    // c41
`100% of %d`
    // c42
,
    // c43
}
    // c44
")).
Eval vm_compute in ("<<<M1390>>>" ++ check (runes_of_ascii "
options{LittleEndian =true	;
StringPrefixLenType =

    u32
	;

    ArrayPrefixLenType= u8;}
	packet
    Heartbeat	{ 
string

    msgKind,
}
    packet

Logon 
{
repeat  Heartbeat 
,  repeat

    string  Px ,

uint8

Tail 
,	char[]

    f1
, }packet
	Cancel
	{
	zchar[ 4  ]
OrderId

,
    Logon  ,
repeat

    InMsgkind98{  repeat
    u8

tag7,
	repeat
	InFlags69
{
	char[]

Note	,char[]
lastPx

    ,	char[ 11
]
	Ref ,
Logon,}
    ,repeat  Heartbeat , } , 
zchar[

    7	]

Px 
,
	u32
seqNo 
,	}

root

    packet Reject {
	i16
tag7
    ,
	char[3

] Qty

    ,
	InRef42 {  u8
pad0

,
},
uint32 f1 ,zchar[

7]
OrderId  ,zchar[ 
8
]x	,} ")).
Eval vm_compute in ("<<<M1338>>>" ++ check (runes_of_ascii "// top
packet
    // c0
Logon {
    // c2
string // c3
user
    // c4
,
    // c5
} root packet // c8a
  // c8b
Frame // c9a
  // c9b
{
    // c10
u8
    // c11
K // c12a
  // c12b
,
    // c13
match K // c15a
  // c15b
as
    // c16
Body {
    // c18
1 // c19
: // c20a
  // c20b
Logon // c21
, // c22
2
    // c23
:
    // c24
Logout // c25
, // c26a
  // c26b
} , // c28a
  // c28b
Tail , } packet // c32
Logout // c33a
  // c33b
{ // c34
u16 // c35
reason // c36a
  // c36b
,
    // c37
} // c38a
  // c38b
packet Tail
    // c40
{ // c41a
  // c41b
u32 crc // c43
, } // c45
")).
Eval vm_compute in ("<<<M1883>>>" ++ check (runes_of_ascii "  root

    packet  float { repeat  calculatedFrom
metadata	`say ""hi""`,
Pad
	{ 	 // " ++ [27880; 37322]%N ++ runes_of_ascii "
	repeat	string
	o`" ++ [233]%N ++ runes_of_ascii "`

    ,
	match string_//	t

as
u8x
{ 	 // trailing space 

[ ""abc""

] :
    pack 
,	[ ""a	b""	]

:	// `tick` ""quote"" 'q'
  len
    00
	:
x
[
	""packet""
]	: 
uint8x, [ 
""abc""

    ,""""
	//	t
	,""{,}""	, 
0123456789 ,""`tick`"",""" ++ [28040; 24687]%N ++ runes_of_ascii """
	]:	//

  Foo
	, }, f64 
a1
// c
`doc`,
	}

    ,	char[]

    Pad
`{ , }` ,	} root
packet

    a1
{repeat
i64_  stringy 
, 	 // 50% %s
  	}
	MetaData

Packet{
	int32

tag
,}
")).
Eval vm_compute in ("<<<M239>>>" ++ check (runes_of_ascii "MetaData pack  {float32 Header
    `two words` //
, rootA charz `" ++ [233]%N ++ runes_of_ascii "`
, //
int32 falsey`doc`, }packet matchKey { i64_ { float64 tag
@lengthOf( msg_type) , u8x f32a,
    Pad
{
char[ 10 ]
// trailing space 
// @lengthOf(
f32a `// not a comment`,},
int {repeat
    packetx { char[] T @calculatedFrom( ""it's"" )
, } , } , } , char[ 255
] trueish@lengthOf(calculatedFrom// " ++ [128512]%N ++ runes_of_ascii " emoji
) //	t
, repeat rootA string_ ,
}
packet x_y_z	{  @lengthOf( i64_
    )BodyLength `" ++ [233]%N ++ runes_of_ascii "`
// @lengthOf(
//	t
, }")).
Eval vm_compute in ("<<<M1420>>>" ++ check (runes_of_ascii "packet body { @leftPad  // " ++ [27880; 37322]%N ++ runes_of_ascii "

  ('0'	)

stringy 
roots 
,	@rightPad ('0'	)
asx  @lengthOf( _x
	)

,
    //	t
	}

    packet chars
	{

@tag( 255 )  i32 
msg_type  , 
o
	{ pack
@calculatedFrom(  ""abc""	) 
, match rootA
    as 
tag	{ 
[

0123456789 
	    // @lengthOf(
	,	7

    ] :len
    ,} , u32 BodyLength

@calculatedFrom( ""packet""

)  `say ""hi""` ,
lengthOf
    u	,
},@rightPad  (' '
)  repeat
f32a,  }

MetaData  msg_type
    {

}")).
Eval vm_compute in ("<<<M1522>>>" ++ check (runes_of_ascii "// top
options {
    // c1
}// c2

MetaData packetx {
    // c5
    int falsey `two words`,// c9
    int32 trueish,// c12
    char[] u8x,// c15
    A x `// not a comment`,// c19
}// c20

root packet i8i8 {
    // c24
    @lengthOf(repeatCount)
    // c27
    @tag(1)
    // c30
    @calculatedFrom(""a	b"")
    // c33
    string stringy @calculatedFrom(""\n"") `line1
    line2`,// c40
    pack `100% of %d`,// c43
}// c44")).
Eval vm_compute in ("<<<M1876>>>" ++ check (runes_of_ascii "  packet 
Logon

{char[	0123456789
]
Pad`a\`,	match pack//	t

as
    As
	{ [""1""

    ,
""a	b"",
0, ""packet""]	// @lengthOf(
  :
u  ,
7
: asx
, }	,
@lengthOf(

Logon
	)
match 
A  as zchar  //
	{
10:o

    , 
}, 
@leftPad
    (  // " ++ [128512]%N ++ runes_of_ascii " emoji
	'0' 
) o

    {
repeat f32 Logon 
, repeatCount @calculatedFrom(
    ""\n""  ), 
    // @lengthOf(
	// `tick` ""quote"" 'q'
	  }	,  }")).
Eval vm_compute in ("<<<M231>>>" ++ check (runes_of_ascii "MetaData	Logon /// triple
{
char[255 ]
// trailing space 
// `tick` ""quote"" 'q'
msg_type
,
    A msg_type , char[
4294967296
    ]u ,// 50% %s
} root packet
    /// triple
    uint8x
    { match _x as len
    { 255
    : a1 , 10
    // a // b
    : options1
    } ,
crc
    // a // b
    ,
@lengthOf(
Header ) repeat roots `say ""hi""`,
//
// c
}
")).
Eval vm_compute in ("<<<M1396>>>" ++ check (runes_of_ascii "options {
	LittleEndian
= true ; 
} 
packet
    Sub { u8 a

    ,	@calculatedFrom(  ""CRC16""

    )  uint64
    SubSum  , 
}
    root
	packet Frame  {
	u16 MsgType
    , u16
BodyLen @lengthOf(
	Body 
)
	,	Sub Body,string
    note 
,
@calculatedFrom(""CRC16"" 
)  uint64

    Checksum,	u8

    tail,
}
")).
Eval vm_compute in ("<<<M1647>>>" ++ check (runes_of_ascii "packet a1 {
    zchar[0] x `say ""hi""`,
}

packet BodyLength {
    match Pad as A {
        ""\n"" : len,
    },
}

MetaData repeatCount {
    string tag,
}

MetaData trueish {
    u128 string_,
    char[00] o,
    string tag,
}

packet calculatedFrom {
    BodyLength `tab	here`,
}")).
Eval vm_compute in ("<<<M402>>>" ++ check (runes_of_ascii "packet
    asx { @calculatedFrom( @calculatedFrom(
""""  ) @tag( 255 )repeat
// packet A { u8 x, }
// trailing space 
int16 u8x
,
@tag(
    //
    007 )
    @tag( 0
    /// triple
    ) @tag( 1) u
    @lengthOf( T ),
// `tick` ""quote"" 'q'
//x
} // " ++ [128512]%N ++ runes_of_ascii " emoji")).
Eval vm_compute in ("<<<M422>>>" ++ check (runes_of_ascii "packet
    asx { @calculatedFrom(
""""  ) @tag( 255 255 )repeat
// packet A { u8 x, }
// trailing space 
int16 u8x
,
@tag(
    //
    007 )
    @tag( 0
    /// triple
    ) @tag( 1) u
    @lengthOf( T ),
// `tick` ""quote"" 'q'
//x
} // " ++ [128512]%N ++ runes_of_ascii " emoji")).
Eval vm_compute in ("<<<M533>>>" ++ check (runes_of_ascii "packet
    asx { @calculatedFrom(
""""  ) @tag( 255 )repeat
// packet A { u8 x, }
// trailing space 
int16 u8x
,
@tag(
    //
    007 )
    @tag( 0
    /// triple
    ) @tag( 1) u
    @lengthOf( T ),
// `tick` ""quote"" 'q'
//x
}"" // " ++ [128512]%N ++ runes_of_ascii " emoji")).
Eval vm_compute in ("<<<M483>>>" ++ check (runes_of_ascii "packet
    asx { @calculatedFrom(
""""  ) @tag( 255 )repeat
// packet A { u8 x, }
// trailing space 
int16 u8x
,
@tag(
    //
    007 )
    @tag( 0
    /// triple
    ) 1 @tag() u
    @lengthOf( T ),
// `tick` ""quote"" 'q'
//x
} // " ++ [128512]%N ++ runes_of_ascii " emoji")).
Eval vm_compute in ("<<<M459>>>" ++ check (runes_of_ascii "packet
    asx { @calculatedFrom(
""""  ) @tag( 255 )repeat
// packet A { u8 x, }
// trailing space 
int16 u8x
,
@tag(
    //
    [ )
    @tag( 0
    /// triple
    ) @tag( 1) u
    @lengthOf( T ),
// `tick` ""quote"" 'q'
//x
} // " ++ [128512]%N ++ runes_of_ascii " emoji")).
Eval vm_compute in ("<<<M1264>>>" ++ check (runes_of_ascii "packet Inner
    // c1
{ // c2a
  // c2b
u8 // c3
a // c4
,
    // c5
} // c6a
  // c6b
root // c7
packet // c8
P // c9
{ repeat
    // c11
Inner items // c13a
  // c13b
, // c14a
  // c14b
u8 x
    // c16
, }
    // c18
")).
Eval vm_compute in ("<<<M1826>>>" ++ check (runes_of_ascii "  root

    packet Frame
    {

u8  K , 
Logon 
first 
,
	match	K as	Body	{1 
: 
Logon
,

2 :
Logout 
, }

    , }
packet Logon {
string
user ,	} packet  Logout {

    u16
reason,

    } ")).
Eval vm_compute in ("<<<M1744>>>" ++ check (runes_of_ascii "
MetaData  u
	{}
    MetaData o{
	float uint8x
    `100% of %d` ,repeatCount
u8x ,string_ leftPad ,i32 
Foo 
,
    int64	x 
`two '1'words` , calculatedFrom stringy
    `a\` 
, 
} ")).
Eval vm_compute in ("<<<M714>>>" ++ check (runes_of_ascii "packet
crc
int64 repeat  Foo A  `u8 x,` ,	@lengthOf( uint8x ) string
matchKey @lengthOf( stringy ) `a\`
,
    // c
    }
MetaData chars{
leftPad
    //	t
    crc
`" ++ [233]%N ++ runes_of_ascii "`
,}")).
Eval vm_compute in ("<<<M562>>>" ++ check (runes_of_ascii "MetaData u
    { } } MetaData o
{ float uint8x
`100% of %d` ,repeatCount u8x, string_ leftPad
, i32
    Foo , int64 x `two words` , calculatedFrom
stringy `a\` ,
}
")).
Eval vm_compute in ("<<<M1678>>>" ++ check (runes_of_ascii "MetaData o {
}

MetaData Header {
    repeatCount matchKey,
}

packet As {
    // c
    @tag(0123456789)
    char[] tag,
    @calculatedFrom(""x y"")
    crc `it's`,
}")).
Eval vm_compute in ("<<<M678>>>" ++ check (runes_of_ascii "MetaData u
    { } MetaData o
{ float uint8x
`100% of %d` ,repeatCount u8x, string_ leftPad
, i32
    Foo , int64 x `two words` , calculatedFrom
stringy , `a\`
}
")).
Eval vm_compute in ("<<<M1312>>>" ++ check (runes_of_ascii "
packet  A
{	u8 a
,
	}  packet  B { u16
	b,} root 
packet
	P
{ u8

K  ,
match

    K as M
{[1 ,
	2  ]
: A

,  3

    :
    B, 
7  :
A
    ,  },

    }

")).
Eval vm_compute in ("<<<M659>>>" ++ check (runes_of_ascii "MetaData u
    { } MetaData o
{ float uint8x
`100% of %d` ,repeatCount u8x, string_ leftPad
, i32
    Foo , int64 x } , calculatedFrom
stringy `a\` ,
}
")).
Eval vm_compute in ("<<<M675>>>" ++ check (runes_of_ascii "MetaData u
    { } MetaData o
{ float uint8x
`100% of %d` ,repeatCount u8x, string_ leftPad
, i32
    Foo , int64 x `two words` , calculatedFrom")).
Eval vm_compute in ("<<<M1635>>>" ++ check (runes_of_ascii "packet A {
    B b `a
            b
          c`,
    B `a
            b
          c`,
    repeat B bs `a
            b
          c`,
}")).
Eval vm_compute in ("<<<M281>>>" ++ check (runes_of_ascii "packet lengthOf{
len charz `it's`, }options
{ } packet metadata {string Pad @calculatedFrom( """ ++ [128512]%N ++ runes_of_ascii """)
    `crlf
line` , } // " ++ [128512]%N ++ runes_of_ascii " emoji")).
Eval vm_compute in ("<<<M460>>>" ++ check (runes_of_ascii "packet
    asx { @calculatedFrom(
""""  ) @tag( 255 )repeat
// packet A { u8 x, }
// trailing space 
int16 u8x
,
@tag(")).
Eval vm_compute in ("<<<M1208>>>" ++ check (runes_of_ascii "options { }
// c
options { MetaDataX = char ; } MetaData Pad { i8 metadata , string stringy , int8 As `{ , }` , }")).
Eval vm_compute in ("<<<M1240>>>" ++ check (runes_of_ascii "options { } options { MetaDataX = char ; } MetaData Pad { i8 metadata , string stringy ,
// c
int8 As `{ , }` , }")).
Eval vm_compute in ("<<<M917>>>" ++ check (runes_of_ascii "packet A {
    u16 len @lengthOf(body) `a
b`,
    u32 crc @calculatedFrom(""CRC32"") `a
b`,
    string body,
}")).
Eval vm_compute in ("<<<M1707>>>" ++ check (runes_of_ascii "  packet orderItem  { 
u8
a,}

    root
packet

    newOrder  {
orderItem
,
    u8
	x

    , } ")).
Eval vm_compute in ("<<<M1547>>>" ++ check (runes_of_ascii "  packet

A {	match

k
as
n {	[ 
1	,""bb"", 007

    , 
""d"" ,	5,""f""
    ]  :B
    2:  C
} , }
")).
Eval vm_compute in ("<<<M1778>>>" ++ check (runes_of_ascii "  packet
A

{

    B b `a
    b
  c` 
,
	B  `a
    b
  c` 
,repeat 
B bs	`a
    b
  c`
, }
")).
Eval vm_compute in ("<<<M847>>>" ++ check (runes_of_ascii "packet A {
  match k as n {
    [""a"", ""bb"", 007, ""d"", ""e"", 66, ""g""] : B,
    2 : C
  },
}")).
Eval vm_compute in ("<<<M1599>>>" ++ check (runes_of_ascii "packet A {
    match k as n {
        [""a"", ""bb"", ""c c""] : B,
        2 : C,
    },
}")).
Eval vm_compute in ("<<<M45>>>" ++ check (runes_of_ascii "root packet
// a // b
/// triple
msg_type{ uint64 matchKey@lengthOf(
    _x ), }
")).
Eval vm_compute in ("<<<M1790>>>" ++ check (runes_of_ascii "
packet

A {
match

k

    as n
{ [
    1
, 22	,  007
]:
	B	2 :
	C } 
,}
")).
Eval vm_compute in ("<<<M804>>>" ++ check (runes_of_ascii "packet A {
  match k as n {
    [""a"", 22, ""c c"", 4] : B,
    2 : C
  },
}")).
Eval vm_compute in ("<<<M792>>>" ++ check (runes_of_ascii "packet A {
  match k as n {
    [""a"", 22, ""c c""] : B
    2 : C
  },
}")).
Eval vm_compute in ("<<<M1972>>>" ++ check (runes_of_ascii "root packet P {
    u8 s_u8,
    repeat u8 r_u8,
    u16 b_len,
}")).
Eval vm_compute in ("<<<M1739>>>" ++ check (runes_of_ascii "  packet
A
	{match k
as  n {[ 
1	, ""bb""

]: B
	2 :
C }	,}")).
Eval vm_compute in ("<<<M1138>>>" ++ check (runes_of_ascii "// top
root // c0
packet // c1
a1 // c2
{ // c3
} // c4
")).
Eval vm_compute in ("<<<M1092>>>" ++ check (runes_of_ascii "packet A {} packet B {} MetaData M {} options {}")).
Eval vm_compute in ("<<<M990>>>" ++ check (runes_of_ascii "options {
    a = ""%d%s"";
    b = ""%d%s""
}")).
Eval vm_compute in ("<<<M1086>>>" ++ check (runes_of_ascii "packet A {    u8 x, // c    u8 y,}")).
Eval vm_compute in ("<<<M1191>>>" ++ check (runes_of_ascii "options { A = ""// no comment"" // c
}")).
Eval vm_compute in ("<<<M752>>>" ++ check (runes_of_ascii "K""kF<NCf7hLi{m{6<\cF\H9]3_e'\jS3a")).
Eval vm_compute in ("<<<M975>>>" ++ check (runes_of_ascii "packet A {
    u8 x `%%d%!`,
}")).
Eval vm_compute in ("<<<M770>>>" ++ check (runes_of_ascii "match char[ false @lengthOf(")).
Eval vm_compute in ("<<<M1151>>>" ++ check (runes_of_ascii "root packet a1 { } // c
")).
Eval vm_compute in ("<<<M1124>>>" ++ check (runes_of_ascii "MetaData // c
tag { }")).
Eval vm_compute in ("<<<M1025>>>" ++ check (runes_of_ascii "packet A {
}
// c" ++ [8202]%N)).
Eval vm_compute in ("<<<M998>>>" ++ check (runes_of_ascii "packet A {
}// c" ++ [12288]%N)).
Eval vm_compute in ("<<<M763>>>" ++ check (runes_of_ascii "qGUQn" ++ [65533; 65533]%N ++ runes_of_ascii "_O" ++ [65533; 65533]%N ++ runes_of_ascii "}3" ++ [65533]%N ++ runes_of_ascii "I")).
Eval vm_compute in ("<<<M1059>>>" ++ check (runes_of_ascii "// c 	")).
Eval vm_compute in ("<<<M1619>>>" ++ check (runes_of_ascii "  ")).
