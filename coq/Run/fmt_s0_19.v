From FP Require Import Lexer Parser ShowPT Digest Formatter.
From Coq Require Import String List NArith.
Import ListNotations.
Open Scope string_scope.
Set Printing Width 100000000.
Set Printing Depth 100000000.
Definition show_fres (r : fres) : string :=
  match r with
  | FOk s => "OK:" ++ sh_escaped s ""
  | FErr s => "ERR:" ++ sh_escaped s ""
  | FPanic p => "PANIC:" ++ p
  end.
Definition check (rs : list rune) : string := digest (show_fres (format_res rs)).
Definition full (rs : list rune) : string := show_fres (format_res rs).
Eval vm_compute in ("<<<M41>>>" ++ check (runes_of_ascii "  root packet u{ match crc as
leftPad { [ 00 ] : //
o,  42
    /// triple
    :
// trailing space 
//x
crc [
""a	b"" ,
""CRC32"" , ""a\""b"" , ""\n""
, 0
, 255 ] : // packet A { u8 x, }
zchar ,
// " ++ [128512]%N ++ runes_of_ascii " emoji
//
} //	t
,	string stringy
    @lengthOf(matchKey ),
    int ,@tag(
1)repeat	zchar[ 4294967296] roots , @leftPad ( '\x00'	) x
    //x
    @lengthOf( crc ), } packet// c
repeatCount { zchar[ 255]	f32a	@calculatedFrom(
    ""x y"" )
,@tag(
    255) char[] asx
@calculatedFrom(""" ++ [28040; 24687]%N ++ runes_of_ascii """
    // " ++ [27880; 37322]%N ++ runes_of_ascii "
    ) , leftPad{
/// triple
// a // b
repeat int u8x ,
i64
trueish	@lengthOf(	i8i8 ) `" ++ [28040; 24687; 31867; 22411]%N ++ runes_of_ascii "`
    // a // b
    ,
repeat
int64 //	t
pack
    , } ,
    match float as o { //
65535
:
Pad ,[
""" ++ [128512]%N ++ runes_of_ascii """ , """ ++ [28040; 24687]%N ++ runes_of_ascii """,
    0123456789 ]
//x
// @lengthOf(
:i8i8
, 7 :
asx 00: stringy } ,@calculatedFrom(
""" ++ [233]%N ++ runes_of_ascii "t" ++ [233]%N ++ runes_of_ascii """ ) f32a
// packet A { u8 x, }
// trailing space 
u , repeat msg_type `" ++ [233]%N ++ runes_of_ascii "` ,
repeat zchar[
42 ]crc
    , uint64
    // " ++ [27880; 37322]%N ++ runes_of_ascii "
    lengthOf , repeat As``
    ,
zchar[ 007 ] tag `tab	here`  , }	root packet charz
{
    string msg_type , @calculatedFrom( """") repeat//	t
string  tag `tab	here`
    ,repeat calculatedFrom ,
repeat Foo, uint64
Foo@lengthOf( packetx) ,
@rightPad  ( )	match	falsey as calculatedFrom { [ 0 , 10
    , ""a\""b"" ] : metadata ,
} , @calculatedFrom( ""\" ++ [233]%N ++ runes_of_ascii """ )
    i64  As ``,
    @lengthOf(
rootA) u32 Logon // c
@lengthOf(a1  ) , @calculatedFrom( """" ) @leftPad ( ' '
    )
    uint16
i8i8
@calculatedFrom( ""// no comment""
) ,  } root packet// trailing space 
uint8x {
    repeat f32
chars `tab	here` ,}
MetaData calculatedFrom
{
//
// `tick` ""quote"" 'q'
metadata crc , }

")).
Eval vm_compute in ("<<<M1594>>>" ++ check (runes_of_ascii "root packet u {
    char[007] x_y_z `two words`,
    int16 u8x @calculatedFrom(""packet""),
    float64 falsey @calculatedFrom(""\" ++ [233]%N ++ runes_of_ascii """) `u8 x,`,
    trueish @calculatedFrom(""" ++ [233]%N ++ runes_of_ascii "t" ++ [233]%N ++ runes_of_ascii """) `tab	here`,
    @tag(1)
    repeat char[4294967296] u,
    match i8i8 as o {
        [""a\\""] : matchKey,
        [
            0123456789, 0, 00, 007, ""x y"",
            ""a	b"", ""{,}"", ""{,}""
        ] : u8x,
        255 : u128,
        [0123456789, 65535, """ ++ [28040; 24687]%N ++ runes_of_ascii """, ""\n""] : _x,
        7 : falsey,
    },
    @leftPad()
    // " ++ [128512]%N ++ runes_of_ascii " emoji
    charz @lengthOf(A),// `tick` ""quote"" 'q'
}

root packet stringy {
    repeat MetaDataX {
        float32 T,
        string x_y_z `a\`,
        repeat _x zchar `u8 x,`,
    },
}

packet Foo {
    @lengthOf(roots)
    calculatedFrom a1,
    zchar[0123456789] _x,
    // @lengthOf(
    // trailing space 
    match roots as MetaDataX {
        /// triple
        42 : _x,
        3 : msg_type,
        7 : a1,
        """" : i8i8,
        //x
        [""" ++ [233]%N ++ runes_of_ascii "t" ++ [233]%N ++ runes_of_ascii """] : i8i8,
        00 : leftPad,
    },
    @calculatedFrom("""")
    char[00] Foo @lengthOf(uint8x),
    f32 chars,
}

packet metadata {
}

MetaData i64_ {
    lengthOf options1,
    a1 A,
    x Header,
}")).
Eval vm_compute in ("<<<M1852>>>" ++ check (runes_of_ascii "packet crc	{ 
@tag( 0
    )
@calculatedFrom( ""{,}""  )

    @rightPad
(

' ' ) 
repeat

uint8  lengthOf// a // b
  ,  char[
42 ]
float
	,	repeat a1  // packet A { u8 x, }
{ 
match
x_y_z

    as charz {
	[  00,	4294967296

    ,
    //x
  // a // b
  ""it's"",
	""" ++ [28040; 24687]%N ++ runes_of_ascii """ 
] 
: //x
	zchar ,

[  ""packet""
,	// c
    ""x y""
    ,  ""it's"",  ""abc""
,""it's""

    ]:  string_ , 0:
	Z9_  } 
// `tick` ""quote"" 'q'
, // `tick` ""quote"" 'q'

} 
, match
    u8x
as 	 //x
  pack {	[
	0123456789
	,
    ""x y"" ]:// c
    	trueish  /// triple
      ,} ,@calculatedFrom( ""a\""b""
    // c

) 
repeat

    string_	`a\`,
	packetx
@calculatedFrom( ""`tick`""

) ,
	int64	chars 
`say ""hi""`
	, @calculatedFrom(  ""a	b"" ) 
@leftPad

( 
'\x00'

    )
@lengthOf(

repeatCount ) u64
falsey@calculatedFrom(  ""\" ++ [233]%N ++ runes_of_ascii """ )
,
	repeat	Header 
{

repeat metadata
,char[]

    chars
`" ++ [28040; 24687; 31867; 22411]%N ++ runes_of_ascii "` , 
zchar[ 10 
]
x_y_z
    `a\`  , }
,

// trailing space 
// c
		} ")).
Eval vm_compute in ("<<<M379>>>" ++ check (runes_of_ascii "root
    packet i64_ { trueish ,
@calculatedFrom(""abc"") @tag( 7 )
    // c
    int16
    asx
, @calculatedFrom( ""a\\"" ) float32 crc
@lengthOf(
Foo ) ,	@tag( // `tick` ""quote"" 'q'
42 // c
) zchar[
// c
// packet A { u8 x, }
7 ] asx @lengthOf( calculatedFrom) `// not a comment` , //
repeat zchar[ 1]// a // b
As ,	chars `two words` , @calculatedFrom( ""1"" )
@tag(
    // `tick` ""quote"" 'q'
    0123456789 ) @leftPad ('0')
    repeat
    char[] BodyLength `tab	here`, } MetaData u128 // packet A { u8 x, }
{
u16 i64_
,
    float32 asx//
`two words` ,//
i64
leftPad, zchar[ 00 // `tick` ""quote"" 'q'
] _x
    , //
} MetaData chars
    //
    {Foo crc
`say ""hi""` , uint8 u`two words` , // " ++ [128512]%N ++ runes_of_ascii " emoji
f32
pack
`crlf
line`, string _x `" ++ [233]%N ++ runes_of_ascii "`  , } packet x_y_z{ } options { calculatedFrom = ""CRC32"" crc
    = uint16 ; u =
false
    Foo
=
    char  } // " ++ [128512]%N ++ runes_of_ascii " emoji")).
Eval vm_compute in ("<<<M330>>>" ++ check (runes_of_ascii "root packet
As {
} MetaData Pad { string
    metadata  `// not a comment` ,
    }
packet metadata
    { string	charz
`a\` , @leftPad ( ' ' )pack@lengthOf(x_y_z ), @calculatedFrom( ""packet"")
match crc
    as chars { [ ""packet"" ,7 ]
    :  repeatCount }
, Pad @lengthOf( matchKey
    ),
@calculatedFrom( ""\n""
    )int64
    Z9_ @lengthOf(
    // a // b
    _x ),
@lengthOf(repeatCount// trailing space 
) repeat float
{ u128 @lengthOf( zchar) , u8 crc
, } ,
    int64 pack, u128
    `it's` , repeat
// a // b
// `tick` ""quote"" 'q'
i32 T , //	t
@tag(00 ) rootA  @lengthOf(
float
    )
,
} MetaData Header // @lengthOf(
{u32 u,	string A `crlf
line` ,
u16
    roots `a\` ,int16 chars , }
packet repeatCount { repeat char[
// trailing space 
//x
65535]
    x `line1
line2`
, }")).
Eval vm_compute in ("<<<M1643>>>" ++ check (runes_of_ascii "options {
    StringPrefixLenType = u8;
    ArrayPrefixLenType = u32;
    FixedStringPadFromLeft = true;
    FixedStringPadChar = ' ';
}

packet Leg {
}

packet Heartbeat {
    zchar[6] msgKind,
    @rightPad('0')
    char[3] Qty,
    zchar[9] Side2,
    i8 Acct,
}

packet Logout {
    int8 x,
}

packet Order {
    char[] Acct,
    zchar[8] count,
    u32 OrderId,
    uint8 lastPx,
    u16 clOrdID,
    zchar[7] Note,
}

root packet Reject {
    @leftPad(' ')
    char[8] Side2,
    i8 clOrdID,
    repeat f32 x,
    u32 lastPx,
    match lastPx as Body {
        [30, 147] : Heartbeat,
        134 : Leg,
        183 : Logout,
        40 : Order,
    },
    u16 Ref @calculatedFrom(""CRC32""),
}")).
Eval vm_compute in ("<<<M342>>>" ++ check (runes_of_ascii "root packet Z9_	{  repeat i8i8 int`// not a comment`
,	uint8x
    // c
    , f64 i8i8  `tab	here` ,@tag(
3 ) @tag( 3 ) @tag( /// triple
10
// trailing space 
// trailing space 
) repeat int{ MetaDataX // " ++ [27880; 37322]%N ++ runes_of_ascii "
,} , @tag( 10
    ) int8
    pack@lengthOf(x
    ), Logon ,	@tag( 00
) repeat
rootA
uint8x ,  @calculatedFrom( ""\n"" // a // b
) // `tick` ""quote"" 'q'
@lengthOf( len )
// @lengthOf(
// `tick` ""quote"" 'q'
BodyLength  { matchKey f32a
//x
// `tick` ""quote"" 'q'
`say ""hi""` ,} ,  char[] leftPad `{ , }` ,
@lengthOf( float )match repeatCount as	o { 255 : matchKey ,
    // " ++ [128512]%N ++ runes_of_ascii " emoji
    00:	A 007 :
    options1 } , }
")).
Eval vm_compute in ("<<<M1547>>>" ++ check (runes_of_ascii "options
	{
	rootA	=4294967296 ;	falsey=

""a\""b""
; As=
// @lengthOf(
  /// triple
	""""
    ; 
packetx

= ""packet"" i8i8=

    true 
;} 	 // `tick` ""quote"" 'q'
  packet

    x
{  repeat

    zchar rootA ,
	char[]
pack`// not a comment`

,

    @tag(
00

)

@tag(
0123456789 
)
u
@calculatedFrom( ""packet""
)
`u8 x,`	,Header
    {
zchar[

00 
]

    body

    ,
a1
@calculatedFrom(// " ++ [128512]%N ++ runes_of_ascii " emoji
""it's""
) 
`" ++ [233]%N ++ runes_of_ascii "`

, }
,	}// " ++ [27880; 37322]%N ++ runes_of_ascii "
  MetaData A // a // b

{zchar /// triple
matchKey 
``	,
	int64
metadata	,
char[]  _x 	 //	t
    	,} ")).
Eval vm_compute in ("<<<M210>>>" ++ check (runes_of_ascii "MetaData tag {
//
//
char[// a // b
3 ] // a // b
msg_type
    // c
    , char[7 ] options1
,
    // trailing space 
    float crc
,calculatedFrom pack ,int64 u  `a\`,}
packet leftPad{char[
    1
]
    /// triple
    zchar
,
    //
    } packet crc { // c
@lengthOf( packetx	) @lengthOf( asx)
@lengthOf( packetx ) calculatedFrom {	f32 packetx	``
// packet A { u8 x, }
//x
, },
} options { Z9_
= ""\" ++ [233]%N ++ runes_of_ascii """
    // a // b
    float = ' ' ; packetx = ""x y""
    calculatedFrom  = int16
    ;
}")).
Eval vm_compute in ("<<<M1366>>>" ++ check (runes_of_ascii "options {
    LittleEndian = true;
    StringPrefixLenType = u64;
    ArrayPrefixLenType = u16;
    FixedStringPadFromLeft = false;
    FixedStringPadChar = ' ';
}
packet Logon {
    zchar[5] Side2,
}
root packet Logout {
    repeat i64 Tail,
    Logon,
    repeat i16 OrderId,
    char[] venue,
    uint64 x,
    repeat i16 count,
    u8 Flags,
    match Flags as Body {
        25 : Logon,
    },
    u16 Qty @calculatedFrom(""CR\
C32""),
}
")).
Eval vm_compute in ("<<<M1449>>>" ++ check (runes_of_ascii "packet rootA {
    @tag(0123456789)
    options1 {
        int32 uint8x `u8 x,`,
        u8x {
            match Header as metadata {
                [10] : pack,
            },
        },
        f64 chars,
    },
    @lengthOf(body)
    u64 Z9_,
}

MetaData repeatCount {
    zchar[10] string_,
    f64 A,
    u32 BodyLength,
    zchar[00] uint8x,
    trueish leftPad,
    char[65535] rootA,
}")).
Eval vm_compute in ("<<<M235>>>" ++ check (runes_of_ascii "packet crc
// a // b
//x
{	u128
    packetx , // " ++ [128512]%N ++ runes_of_ascii " emoji
match roots	as
    //
    falsey
{ 0123456789 // a // b
: Header ""packet""// a // b
: // a // b
Z9_	3 : A ,
// trailing space 
// a // b
""a	b""  : roots 10
:  _x
, } , @tag( 255// a // b
) match
calculatedFrom  as	o {
    255 : string_ """ ++ [28040; 24687]%N ++ runes_of_ascii """ : i64_
,	} , }MetaData
T
{ float64 u	,} packet Pad { /// triple
}
")).
Eval vm_compute in ("<<<M285>>>" ++ check (runes_of_ascii "packet zchar { @calculatedFrom(
    ""packet"" )
    @lengthOf( body ) @lengthOf(A )
    repeat /// triple
u128
    { f32a
chars `` , repeat x_y_z `tab	here`	, // c
} , // " ++ [27880; 37322]%N ++ runes_of_ascii "
repeat
Logon {// " ++ [27880; 37322]%N ++ runes_of_ascii "
u@calculatedFrom( // `tick` ""quote"" 'q'
""// no comment"") //
`two words` , char
    u8x , uint32  uint8x  , } , int8
    asx ``,}
")).
Eval vm_compute in ("<<<M1780>>>" ++ check (runes_of_ascii "// top
  packet	// c0
		Inner	// c1
	{  // c2
    u8 // c3a
  // c3b

a// c4
    	,  
  // c5

}	// c6
    root  // c7
packet  // c8a
  // c8b
	P  // c9
{  // c10a
// c10b
	repeat	// c11a
// c11b
Inner

items 	 // c13
  ,	// c14
	  u8 
      // c15
      x, 	 // c17a
  // c17b
	} // c18
")).
Eval vm_compute in ("<<<M1520>>>" ++ check (runes_of_ascii "packet repeatCount {
    @calculatedFrom(""abc"")
    zchar[0] MetaDataX `
    `,
    string_ @calculatedFrom(""1""),
    match string_ as msg_type {
        [65535, 7, 255, ""a	b""] : matchKey,
        10 : options1,
        3 : Logon,
    },
    // " ++ [27880; 37322]%N ++ runes_of_ascii "
    packetx `a\`,
}")).
Eval vm_compute in ("<<<M1426>>>" ++ check (runes_of_ascii "// top
packet A {
    u8 a,// c5a
}// c6

packet B {
    // c9a
    // c9b
    u16 b,// c12
}

// c13
root packet P {
    // c17
    u8 K,// c20
    match K as M {
        // c25
        [1, 2] : A,
        3 : B,
        7 : A,
    },
}")).
Eval vm_compute in ("<<<M249>>>" ++ check (runes_of_ascii "
packet
rootA {
} // trailing space 
packet f32a //	t
{ match
zchar as zchar
    {	65535 : f32a , 7 : charz// trailing space 
,
""{,}""
//	t
//x
: Header , 42
    :a1 // packet A { u8 x, }
, }
, }
")).
Eval vm_compute in ("<<<M1403>>>" ++ check (runes_of_ascii "packet A {
    match k as n {
        [
            007, 66, 9, 12, ""a"",
            ""bb"", ""d"", ""e"", ""g"", ""h"",
            ""j"", ""k""
        ] : B,
        2 : C,
    },
}")).
Eval vm_compute in ("<<<M453>>>" ++ check (runes_of_ascii "packet uint8x
{ match pack
    as msg_type	{
    0123456789 :	float
}
@lengthOf(
} packet //	t
a1
    { } options {packetx
    = '\x00'	; u128= ""a	b""  ; }
")).
Eval vm_compute in ("<<<M478>>>" ++ check (runes_of_ascii "packet uint8x
{ match pack
    as msg_type	{
    0123456789 :	float
}
,
} packet //	t
a1
    { char[ options {packetx
    = '\x00'	; u128= ""a	b""  ; }
")).
Eval vm_compute in ("<<<M506>>>" ++ check (runes_of_ascii "packet uint8x
{ match pack
    as msg_type	{
    0123456789 :	float
}
,
} packet //	t
a1
    { } options {packetx
    = '\x00'	; ; u128= ""a	b""  ; }
")).
Eval vm_compute in ("<<<M412>>>" ++ check (runes_of_ascii "packet uint8x
{ match as
    pack msg_type	{
    0123456789 :	float
}
,
} packet //	t
a1
    { } options {packetx
    = '\x00'	; u128= ""a	b""  ; }
")).
Eval vm_compute in ("<<<M425>>>" ++ check (runes_of_ascii "packet uint8x
{ match pack
    as msg_type	
    0123456789 :	float
}
,
} packet //	t
a1
    { } options {packetx
    = '\x00'	; u128= ""a	b""  ; }
")).
Eval vm_compute in ("<<<M652>>>" ++ check (runes_of_ascii "// @lengthOf(
packet i8i8 { u128 o , }
options { MetaDataX = true;
    BodyLength =""packet"" x_y_z= 007
crc crc //x
= ""abc"" ;
    msg_type =
i16 }")).
Eval vm_compute in ("<<<M1782>>>" ++ check (runes_of_ascii "
MetaData leftPad {
    chars MetaDataX
	, } packet
	repeatCount{ char[
255
	]uint8x
    `" ++ [233]%N ++ runes_of_ascii "`
,

} MetaData

    pack// c
    	{
As	Foo
	,  }

")).
Eval vm_compute in ("<<<M1288>>>" ++ check (runes_of_ascii "// top
root
    // c0
packet P
    // c2
{ // c3a
  // c3b
repeat // c4
string // c5
ss , // c7
repeat u16 ns ,
    // c11
} // c12a
  // c12b
")).
Eval vm_compute in ("<<<M1698>>>" ++ check (runes_of_ascii "packet A {
    match k as n {
        [
            ""a"", ""bb"", ""c c"", ""d"", ""e"",
            ""f"", ""g""
        ] : B,
        2 : C,
    },
}")).
Eval vm_compute in ("<<<M1266>>>" ++ check (runes_of_ascii "  packet B
    {
u8 a
	,
    } 
root  packet

P {
u8
    K  ,
	match
    K as Body

{
1

:  B,
}  ,
	u16	L@lengthOf(	Body

) ,
	}
")).
Eval vm_compute in ("<<<M1855>>>" ++ check (runes_of_ascii "packet A {
    match k as n {
        [
            1, 22, 007, 4, 5,
            66
        ] : B,
        2 : C,
    },
}")).
Eval vm_compute in ("<<<M1150>>>" ++ check (runes_of_ascii "MetaData leftPad { chars
// c
MetaDataX , } packet repeatCount { char[ 255 ] uint8x `" ++ [233]%N ++ runes_of_ascii "` , } MetaData pack { As Foo , }")).
Eval vm_compute in ("<<<M1182>>>" ++ check (runes_of_ascii "MetaData leftPad { chars MetaDataX , } packet repeatCount { char[ 255 ] uint8x `" ++ [233]%N ++ runes_of_ascii "` , } MetaData pack {
// c
As Foo , }")).
Eval vm_compute in ("<<<M914>>>" ++ check (runes_of_ascii "packet A {
  match k as n {
    [""a"", ""bb"", 007, ""d"", ""e"", 66, ""g"", ""h"", 9, ""j"", ""k"", 12] : B,
    2 : C
  },
}")).
Eval vm_compute in ("<<<M1278>>>" ++ check (runes_of_ascii "  options{ 
LittleEndian =	true
	; } root	packet
	P {	u16  a ,u32 
Sum
@calculatedFrom(
""CRC32""  )	, }

")).
Eval vm_compute in ("<<<M1897>>>" ++ check (runes_of_ascii "
packet
	Inner
{ 
u8
	a
, 
}

    root

packet

P
    {
repeat
	Inner  items  ,

    u8
x ,
	}")).
Eval vm_compute in ("<<<M1267>>>" ++ check (runes_of_ascii "packet B {
    u8 a,
    string s,
}
root packet P {
    u16 L @lengthOf(B),
    B,
    u8 t,
}
")).
Eval vm_compute in ("<<<M642>>>" ++ check (runes_of_ascii "
packet
    asx {match u128 as lengthOf
{'1'
//	t
// `tick` ""quote"" 'q'
255 : x ,
    } ,	}")).
Eval vm_compute in ("<<<M636>>>" ++ check (runes_of_ascii "
packet
    asx {match u128 as lengthOf
{
//	t
// `ti/ck` ""quote"" 'q'
255 : x ,
    } ,	}")).
Eval vm_compute in ("<<<M597>>>" ++ check (runes_of_ascii "
packet
    asx {match u128 as lengthOf
{
//	t
// `tick` ""quote"" 'q'
255  x ,
    } ,	}")).
Eval vm_compute in ("<<<M570>>>" ++ check (runes_of_ascii "
packet
    asx {{ u128 as lengthOf
{
//	t
// `tick` ""quote"" 'q'
255 : x ,
    } ,	}")).
Eval vm_compute in ("<<<M847>>>" ++ check (runes_of_ascii "packet A {
  match k as n {
    [1, 22, ""c c"", 4, 5, ""f"", 7] : B,
    2 : C
  },
}")).
Eval vm_compute in ("<<<M840>>>" ++ check (runes_of_ascii "packet A {
  match k as n {
    [1, 22, 007, 4, 5, 66, 7] : B
    2 : C
  },
}")).
Eval vm_compute in ("<<<M1724>>>" ++ check (runes_of_ascii "

  // top
	MetaData 
	// c0
u
	// c1
	{ 	 // c2a

// c2b
    } // c3
")).
Eval vm_compute in ("<<<M809>>>" ++ check (runes_of_ascii "packet A {
  match k as n {
    [1, 22, ""c c"", 4] : B
    2 : C
  },
}")).
Eval vm_compute in ("<<<M1098>>>" ++ check (runes_of_ascii "packet A {
    match k as n {
        1 : B,
        // c
    },
}")).
Eval vm_compute in ("<<<M1388>>>" ++ check (runes_of_ascii "
// c
	packet

body
{ i32
	f32a 
`{ , }` ,  } options 
{
	}
")).
Eval vm_compute in ("<<<M1754>>>" ++ check (runes_of_ascii "packet body {
    // c
    i32 f32a `{ , }`,
}

options {
}")).
Eval vm_compute in ("<<<M1219>>>" ++ check (runes_of_ascii "packet body { i32 f32a `{ , }` , } options { } // c
")).
Eval vm_compute in ("<<<M1085>>>" ++ check (runes_of_ascii "packet A { B { // a
 u8 x, // b
 } // c
 , // d
 }")).
Eval vm_compute in ("<<<M233>>>" ++ check (runes_of_ascii "MetaData _x { i64 u128	, Packet Header, } 	 ")).
Eval vm_compute in ("<<<M1887>>>" ++ check (runes_of_ascii "

  root
packet

A

{
u8	x 
`a

b` , }
")).
Eval vm_compute in ("<<<M1090>>>" ++ check (runes_of_ascii "packet A { @tag( // a
 1 ) u8 x, }")).
Eval vm_compute in ("<<<M276>>>" ++ check (runes_of_ascii "MetaData repeatCount { }
//	t
")).
Eval vm_compute in ("<<<M270>>>" ++ check (runes_of_ascii "  root packet msg_type
{
}
")).
Eval vm_compute in ("<<<M1878>>>" ++ check (runes_of_ascii "
options	{  // a // b
}")).
Eval vm_compute in ("<<<M1108>>>" ++ check (runes_of_ascii "MetaData tag
// c
{ }")).
Eval vm_compute in ("<<<M103>>>" ++ check (runes_of_ascii "packet packetx	{ }")).
Eval vm_compute in ("<<<M1047>>>" ++ check (runes_of_ascii "// c" ++ [8203]%N ++ runes_of_ascii "
packet A {
}")).
Eval vm_compute in ("<<<M1049>>>" ++ check (runes_of_ascii "packet A {
}// c" ++ [65279]%N)).
Eval vm_compute in ("<<<M319>>>" ++ check (runes_of_ascii "packet o
{
}
")).
Eval vm_compute in ("<<<M1020>>>" ++ check (runes_of_ascii "// c" ++ [8239]%N)).
