From FP Require Import Lexer Parser ShowPT Digest Formatter.
From Coq Require Import String List NArith.
Import ListNotations.
Open Scope string_scope.
Set Printing Width 100000000.
Set Printing Depth 100000000.
Definition show_fres (r : fres) : string :=
  match r with
  | FOk s => "OK:" ++ sh_escaped s ""
  | FErr s => "ERR:" ++ sh_escaped s ""
  | FPanic p => "PANIC:" ++ p
  end.
Definition check (rs : list rune) : string := digest (show_fres (format_res rs)).
Definition full (rs : list rune) : string := show_fres (format_res rs).
Eval vm_compute in ("<<<M1698>>>" ++ check (runes_of_ascii "packet rootA {
    char[0] len @calculatedFrom(""abc""),
    u8 uint8x @lengthOf(roots) `a\`,
    int @calculatedFrom(""a\""b""),
    match msg_type as i8i8 {
        ""\" ++ [233]%N ++ runes_of_ascii """ : Header,
        1 : zchar,
        [""\n""] : string_,
        ""\n"" : i8i8,
        0123456789 : Logon,
        [
            00, 007, ""1"", ""it's"", ""// no comment"",
            0, ""a\\"", 007
        ] : BodyLength,
    },
    match rootA as chars {
        7 : Header,
    },
    A Foo `tab	here`,
    float64 charz @calculatedFrom(""\" ++ [233]%N ++ runes_of_ascii """),
    f32 tag,
    @lengthOf(x)
    // `tick` ""quote"" 'q'
    @leftPad(	'\x00' )
    crc {
        repeat i16 options1 `tab	here`,
        match options1 as charz {
            ""CRC32"" : u,
            0 : charz,
            ""x y"" : roots,
            [""CRC32"", """ ++ [233]%N ++ runes_of_ascii "t" ++ [233]%N ++ runes_of_ascii """] : i8i8,
        },
        repeat falsey {
            match chars as asx {
                ""abc"" : stringy,
            },
            match lengthOf as charz {
                0123456789 : o,
                ""// no comment"" : chars,
                ["""", 7, 255, 00, 42] : float,
            },
            match a1 as lengthOf {
                [65535, 1] : int,
                ""{,}"" : calculatedFrom,
                ""`tick`"" : float,
                // @lengthOf(
                ""// no comment"" : Packet,
                [""\" ++ [233]%N ++ runes_of_ascii """, ""// no comment"", 3, """ ++ [128512]%N ++ runes_of_ascii """, 255] : int,
                //	t
                // trailing space 
            },
        },
    },
}

options {
    msg_type = true
    lengthOf = zchar[1];
}

root packet packetx {
    i8 tag `line1
    line2`,
    // @lengthOf(
}")).
Eval vm_compute in ("<<<M1806>>>" ++ check (runes_of_ascii "  packet
	x  {
    }	options

    /// triple
	// c

  {  Packet=  string 
Packet=
// a // b
	' '  zchar =  false ;	matchKey

=

    false }packet f32a 
    // packet A { u8 x, }
    	// " ++ [128512]%N ++ runes_of_ascii " emoji
    {
	int64 options1 @calculatedFrom(

""packet""
)
`// not a comment`
	,Z9_
{
	charz{
	match
BodyLength  as trueish

{
	""\" ++ [233]%N ++ runes_of_ascii """ 
:
	charz ,	65535
	:  roots  ,[

4294967296  //x
, 
""a\""b""
    // @lengthOf(
	  ,  ""abc""]

:f32a	,
""\" ++ [233]%N ++ runes_of_ascii """  :
//x
  // " ++ [128512]%N ++ runes_of_ascii " emoji
	int
// packet A { u8 x, }
		""x y"" 	 //
:
	u8x
    },
	repeat

    int8 u, repeat _x
	{ 
msg_type`100% of %d` 
,  metadata
	`crlf
line`	,	f32
roots
,
char[] f32a
	@lengthOf( Pad),  // c
  }
,	}
,

},match
	T as calculatedFrom
	{ 
[
    0 ,

    """ ++ [128512]%N ++ runes_of_ascii """ ] : 	 // @lengthOf(

Pad // packet A { u8 x, }

	[
""""

    , 
""x y"", """ ++ [233]%N ++ runes_of_ascii "t" ++ [233]%N ++ runes_of_ascii """	,

""a\""b""
    ,
    4294967296

    ,

""" ++ [28040; 24687]%N ++ runes_of_ascii """ ]
    :
o [ 42  ]  //
    :float

    , }

,
    match

    zchar
    as  _x { ""`tick`""
	    // " ++ [27880; 37322]%N ++ runes_of_ascii "
:
packetx
    ,	}
    , 
	// 50% %s
    repeat 
    // c
  // `tick` ""quote"" 'q'
	As
// " ++ [27880; 37322]%N ++ runes_of_ascii "

{
	int	@lengthOf(	msg_type	)
,i64
    roots `line1
line2` 
// `tick` ""quote"" 'q'
    ,	// c
  repeat  u16  Packet `" ++ [233]%N ++ runes_of_ascii "`, f64 
charz ,	}
	, int32
i8i8
`say ""hi""` ,

    }

")).
Eval vm_compute in ("<<<M1458>>>" ++ check (runes_of_ascii "root packet packetx {
    /// triple
    @tag(007)
    int16 int ``,
    @calculatedFrom(""x y"")
    repeat string a1 `it's`,
    @lengthOf(Header)
    repeat char[1] string_ ``,
    uint64 falsey @lengthOf(i8i8),
    @lengthOf(u)
    match roots as u128 {
        [
            ""`tick`"", 4294967296, """", 65535, """ ++ [28040; 24687]%N ++ runes_of_ascii """,
            ""CRC32"", ""a	b"", ""a	b""
        ] : options1,
        [007, ""abc"", 65535] : A,
        7 : f32a,
        ""abc"" : i8i8,
        ""it's"" : o,
        [
            ""{,}"", 42, 65535, """", ""a\""b"",
            4294967296, 0
        ] : T,
        /// triple
        //x
    },
    @tag(7)
    char o @calculatedFrom(""// no comment""),
    repeat f32 float `line1
    line2`,
    @lengthOf(f32a)
    match rootA as matchKey {
        007 : x,
        """ ++ [233]%N ++ runes_of_ascii "t" ++ [233]%N ++ runes_of_ascii """ : charz,
        [""x y"", 4294967296, 255, 00] : len,
    },
    @tag(0123456789)
    repeat trueish i64_,
}

packet lengthOf {
}// a // b

packet len {
    @calculatedFrom(""a	b"")
    _x roots `a\`,
}
//	t")).
Eval vm_compute in ("<<<M1662>>>" ++ check (runes_of_ascii "
options
    { LittleEndian	=  false
;	FixedStringPadChar	= ' '
;	}
    packet
Fill 
{ InFlags6

    {
repeat u64 
count, 
} ,

    char[8]price
, 
repeat 
char[

    2

] lastPx

,char[] count ,} packet
Quote
{

char[] Qty
	, 
int32 
sym
    ,
zchar[9 ]
Flags ,  int8  tag7
    ,

char[
    7
]
count
, }
    packet

    Cancel

{  string	Acct, 
@rightPad ( '\x00')
	char[2

    ]Note

,	zchar[	5]
Side2
	, } packet
	Trade

{	repeat
Quote ,Fill
	,

repeat
i64 Side2	,
    uint16

    Tail
	,zchar[ 7  ]OrderId,	}root packet
Party 
{
repeat
InLastpx79
    { 
char[
12] Px ,int8 Tail,}  , f32  count  ,repeat
    u8

    Note

,
Trade

,
f64 venue
,@rightPad(
'\x00'

    )char[
11] 
tag7,
u16

Px  ,  u32  Side2 @lengthOf(Body
), 
match
	Px
    as Body {[ 48 , 
188 ]

:Fill

, 190	: Trade
	, 160: Quote ,
    85

    : 
Cancel,
    },
	}")).
Eval vm_compute in ("<<<M194>>>" ++ check (runes_of_ascii "
root
    packet u8x{
@calculatedFrom(	""it's""  )
    zchar[
    007 ]  Logon, @rightPad( ' ' ) @calculatedFrom(""\n"" ) @lengthOf( Header) repeat
zchar[0 ] options1	,
// " ++ [27880; 37322]%N ++ runes_of_ascii "
// `tick` ""quote"" 'q'
@lengthOf(i8i8
    ) @lengthOf(
repeatCount
) zchar[
65535  ] packetx
`doc`	,
    uint32 Foo	@calculatedFrom(
""1"" ) , matchKey ,  int16  Header	,  } options {
    x= 7 } MetaData
// " ++ [27880; 37322]%N ++ runes_of_ascii "
// `tick` ""quote"" 'q'
string_
    { trueish trueish  `it's`
, char[4294967296 ]
    x //x
,
    // a // b
    string u
    `100% of %d`, f32
stringy
    `// not a comment` ,
    // `tick` ""quote"" 'q'
    string
    BodyLength	,// a // b
}  options
    { // @lengthOf(
Logon = 10 roots = uint8 ;
float=
    ""a\\""  ; Header	=""CRC32"" ;
    }")).
Eval vm_compute in ("<<<M1827>>>" ++ check (runes_of_ascii "options
	{

    u128  = ""// no comment"" }

root
packet
    Z9_
    {

repeat char[]i8i8	,
float64 
MetaDataX,
repeat

rootA	{msg_type @calculatedFrom(

""\" ++ [233]%N ++ runes_of_ascii """
) ,

    match

float
	as  _x// " ++ [128512]%N ++ runes_of_ascii " emoji
    	{
""a\""b""

: u
    ,[
""a	b""  // " ++ [27880; 37322]%N ++ runes_of_ascii "
    , ""CRC32"" 	 // a // b
, 
10/// triple
, 007
	, 
255 ,

    ""x y""
, 42 	 //	t

,3

]	:

    msg_type
, [
	""1""  //	t
	,
	""\n""	,
    4294967296

    , ""abc"" ,  ""// no comment"" ,	//x
""\n"", 1]//	t

  :
int ,
[ 
10 ]:
As
	,
	[

    0
]

:zchar
,

7	// " ++ [27880; 37322]%N ++ runes_of_ascii "
  	:
	A
    , } ,}
	,char[]
	zchar@lengthOf( tag )

,}
options

    {
body

= ""1"" 
trueish
    =
	' '  //x
    ; }
")).
Eval vm_compute in ("<<<M59>>>" ++ check (runes_of_ascii "packet int{/// triple
lengthOf , // " ++ [27880; 37322]%N ++ runes_of_ascii "
match x_y_z
as
    trueish{  [
""it's""
, 0123456789 ] : i64_ , } , @tag( 255)
@leftPad // " ++ [27880; 37322]%N ++ runes_of_ascii "
(// packet A { u8 x, }
'0' )
options1@calculatedFrom(
""1""
    )
`
` , // @lengthOf(
@leftPad ( '\x00') // packet A { u8 x, }
len @lengthOf( rootA
    ) , i64_ packetx ,
    @tag( 42
)	int32/// triple
trueish ,
i8 options1 `two words`,  @leftPad( '0'
) char[
1
] calculatedFrom `tab	here`
,	@lengthOf(o )
    @tag(
007 // 50% %s
) u8
_x	@calculatedFrom(
    ""`tick`"") , repeatCount @lengthOf( MetaDataX)
    , /// triple
}
")).
Eval vm_compute in ("<<<M128>>>" ++ check (runes_of_ascii "packet asx {u32
asx,char[ 0123456789	] crc
@calculatedFrom( ""1""
    ) `{ , }`  ,  @tag(
    42
)
@tag( 7 )
    msg_type{asx @calculatedFrom( ""a	b""
    )`it's` , },
@calculatedFrom(	""\n"" ) // " ++ [128512]%N ++ runes_of_ascii " emoji
char[ 3
] float
    ,zchar[	4294967296
]
zchar	,@lengthOf( roots)
i16
int @lengthOf(
i64_ )
, i16 pack
    @lengthOf(
    u128 )
    , @lengthOf(
    // 50% %s
    msg_type ) char[] A , repeat	char[]tag`a\` ,
}
//	t
// @lengthOf(
packet
pack
    { u	@lengthOf(
    a1
    )	`say ""hi""`, }
//	t
")).
Eval vm_compute in ("<<<M1844>>>" ++ check (runes_of_ascii "packet 	 // a // b
	u8x{// trailing space 
    repeat roots
{ zchar[42
	] 
	    // 50% %s
	// a // b
  u 
@lengthOf( i64_)	`line1
line2`

, f64
    Packet ``
	, zchar[

4294967296
    ]
	msg_type ,}

, }root
	packet
rootA  {
	@calculatedFrom(
""// no comment""
    )
@calculatedFrom(	// " ++ [128512]%N ++ runes_of_ascii " emoji
    """ ++ [233]%N ++ runes_of_ascii "t" ++ [233]%N ++ runes_of_ascii """ )match
	body

    as  Foo
	    /// triple

{	10  :
    a1
}
,
@tag(
42 )  @calculatedFrom(
""1""

) repeat 
int64 float `u8 x,`	,
}

")).
Eval vm_compute in ("<<<M1384>>>" ++ check (runes_of_ascii "options {
    LittleEndian = false;
    StringPrefixLenType = u16;
    FixedStringPadFromLeft = true;
    FixedStringPadChar = '0';
}
packet Fill {
}
root packet Order {
    repeat Fill,
    char[] clOrdID,
    @rightPad('\x00') char[4] lastPx,
    char[] OrderId,
    int8 tag7,
    u8 f1,
    u16 count @lengthOf(Body),
    match f1 as Body {
        [159, 49] : Fill,
    },
    u16 Tail @calculatedFrom(""CRC32""),
}
")).
Eval vm_compute in ("<<<M1362>>>" ++ check (runes_of_ascii "options

    {
	LittleEndian
= true
	;StringPrefixLenType 
=u16  ;
	ArrayPrefixLenType=

u16

    ; 
FixedStringPadFromLeft
= true
;
FixedStringPadChar

    =  '0' ;

    }	packet	Leg { u16 Flags
, 
u8
price , 
} packet

    Quote
{

    uint16

count
	,
    InNote89

{	repeat  Leg, }

,} root
packet
Ack {  char[
	3

    ] price , u64 sym, 
zchar[
1 
]

Tail, }
")).
Eval vm_compute in ("<<<M267>>>" ++ check (runes_of_ascii "// " ++ [128512]%N ++ runes_of_ascii " emoji
packet  Header {metadata
, T @calculatedFrom( ""// no comment""
)
    `100% of %d` , // " ++ [128512]%N ++ runes_of_ascii " emoji
options1
i64_ , } options
{
    /// triple
    len =	' ' int = /// triple
i64 tag
=0123456789 calculatedFrom
= // packet A { u8 x, }
""\" ++ [233]%N ++ runes_of_ascii """
} options
{As  = false matchKey =""\n"" ; }options {
pack
= ""a\\"" ; float = """ ++ [28040; 24687]%N ++ runes_of_ascii """ A =
7 i8i8 =	42; }
")).
Eval vm_compute in ("<<<M1373>>>" ++ check (runes_of_ascii "options {
    StringPrefixLenType = u16;
    ArrayPrefixLenType = u64;
}
packet Order {
    float64 Ref,
    repeat i32 lastPx,
}
packet Fill {
    zchar[9] Ref,
    zchar[4] Px,
    Order,
    int8 count,
}
packet Cancel {
    i16 Side2,
    Order,
}
root packet Party {
    float64 Px,
    zchar[1] clOrdID,
}
")).
Eval vm_compute in ("<<<M1795>>>" ++ check (runes_of_ascii "options 
    // 50% %s

{ //
	u128
    =

    zchar[ 10
]; body  = '0'Z9_
	=	float64 ;

    i8i8
	=  ""a\\""
;  } packet  T
{
char[

42]
asx 
@calculatedFrom( /// triple
	  ""CRC32""
)
	,

}
// trailing space 

// " ++ [128512]%N ++ runes_of_ascii " emoji
  root packet

x

{Pad	u128 `100% of %d`
, }
")).
Eval vm_compute in ("<<<M1676>>>" ++ check (runes_of_ascii "packet
options1

{ @calculatedFrom(	""""
) @rightPad ('\x00')

    char[
007 ]
	msg_type
,

    i64 Header

`" ++ [233]%N ++ runes_of_ascii "`
,
//	t
@calculatedFrom(""packet""
	) @calculatedFrom( ""`tick`""
)	@calculatedFrom(
	""a	b""

    ) i32

options1
	@lengthOf(
	Pad
    ),

}
")).
Eval vm_compute in ("<<<M53>>>" ++ check (runes_of_ascii "  root packet _x{ uint32 //	t
trueish @calculatedFrom(""1"" ) `tab	here`
    , } packet Header
    {repeat
    u64 stringy `u8 x,` ,float32
    msg_type
, repeat
x_y_z crc `two words`
, zchar[ // c
007 ] Packet ,
    string asx `say ""hi""`
,}
")).
Eval vm_compute in ("<<<M414>>>" ++ check (runes_of_ascii "packet
    asx { @calculatedFrom(
""""  i8 @tag( 255 )repeat
// packet A { u8 x, }
// trailing space 
int16 u8x
,
@tag(
    //
    007 )
    @tag( 0
    /// triple
    ) @tag( 1) u
    @lengthOf( T ),
// `tick` ""quote"" 'q'
//x
} // " ++ [128512]%N ++ runes_of_ascii " emoji")).
Eval vm_compute in ("<<<M458>>>" ++ check (runes_of_ascii "packet
    asx { @calculatedFrom(
""""  ) @tag( 255 )repeat
// packet A { u8 x, }
// trailing space 
int16 u8x
,
@tag(
    //
    ) 007
    @tag( 0
    /// triple
    ) @tag( 1) u
    @lengthOf( T ),
// `tick` ""quote"" 'q'
//x
} // " ++ [128512]%N ++ runes_of_ascii " emoji")).
Eval vm_compute in ("<<<M511>>>" ++ check (runes_of_ascii "packet
    asx { @calculatedFrom(
""""  ) @tag( 255 )repeat
// packet A { u8 x, }
// trailing space 
int16 u8x
,
@tag(
    //
    007 )
    @tag( 0
    /// triple
    ) @tag( 1) u
    @lengthOf( T ,
// `tick` ""quote"" 'q'
//x
} // " ++ [128512]%N ++ runes_of_ascii " emoji")).
Eval vm_compute in ("<<<M529>>>" ++ check (runes_of_ascii "packet
    asx { @calculatedFrom(
""""  ) @tag( 255 )repeat
// packet A { u8 x, }
// trailing space 
int16 u8x
,
@tag(
    //
    007 )
    @tag( 0
    /// triple
    ) @tag( 1) u
    @lengthOf( T ),
// `tick` ""quote"" 'q'
//x
}")).
Eval vm_compute in ("<<<M1946>>>" ++ check (runes_of_ascii "// top
packet B {
    u8 a,
    // c5
}// c6

root packet P {
    u8 K,// c13a
    // c13b
    match K as Body {
        // c18
        1 : B,
        // c22
    },
    u16 L @lengthOf(Body),// c30a
    // c30b
}")).
Eval vm_compute in ("<<<M202>>>" ++ check (runes_of_ascii "packet
leftPad
//
// " ++ [27880; 37322]%N ++ runes_of_ascii "
{ string_
u , match
u as crc { [ ""a\\""
    ]: f32a
// 50% %s
//
,  [ 7 ]: chars,0 : //	t
packetx// @lengthOf(
,  } ,
    @calculatedFrom(""// no comment"" )u64 tag
, }")).
Eval vm_compute in ("<<<M490>>>" ++ check (runes_of_ascii "packet
    asx { @calculatedFrom(
""""  ) @tag( 255 )repeat
// packet A { u8 x, }
// trailing space 
int16 u8x
,
@tag(
    //
    007 )
    @tag( 0
    /// triple
    ) @tag(")).
Eval vm_compute in ("<<<M1345>>>" ++ check (runes_of_ascii "  packet u128
{
	u8 a

,}
    root packet
Msg	{
    u8 k  ,
    u24
	{

u8 Hi
	, 
u16

    Lo
	,  }
    ,repeat i24{u32 q , } , u128  ,u16
	float32x
	, string
	s,	}
")).
Eval vm_compute in ("<<<M700>>>" ++ check (runes_of_ascii "MetaData u
    { } MetaData o
{ float uint8x
`100% of %d` ,# repeatCount u8x, string_ leftPad
, i32
    Foo , int64 x `two words` , calculatedFrom
stringy `a\` ,
}
")).
Eval vm_compute in ("<<<M614>>>" ++ check (runes_of_ascii "MetaData u
    { } MetaData o
{ float uint8x
`100% of %d` ,repeatCount u8x[ string_ leftPad
, i32
    Foo , int64 x `two words` , calculatedFrom
stringy `a\` ,
}
")).
Eval vm_compute in ("<<<M679>>>" ++ check (runes_of_ascii "MetaData u
    { } MetaData o
{ float uint8x
`100% of %d` ,repeatCount u8x, string_ leftPad
, i32
    Foo , int64 x `two words` , calculatedFrom
stringy i32 ,
}
")).
Eval vm_compute in ("<<<M1714>>>" ++ check (runes_of_ascii "MetaData crc {
    packetx repeatCount,
    f32a As `line1
        line2`,
    crc len `line1
        line2`,
    zchar[0123456789] uint8x,
    zchar[0] As,
}")).
Eval vm_compute in ("<<<M669>>>" ++ check (runes_of_ascii "MetaData u
    { } MetaData o
{ float uint8x
`100% of %d` ,repeatCount u8x, string_ leftPad
, i32
    Foo , int64 x `two words` , :
stringy `a\` ,
}
")).
Eval vm_compute in ("<<<M113>>>" ++ check (runes_of_ascii "
root packet trueish { } options
{ Foo= 0123456789;
    } root packet
    A// @lengthOf(
{ repeat
i8i8 body// @lengthOf(
`it's` ,} // 50% %s")).
Eval vm_compute in ("<<<M42>>>" ++ check (runes_of_ascii "
root packet  x  {
@rightPad
( '\x00' ) repeat
    uint32 crc , } options{
Packet
    // @lengthOf(
    =char[] }	MetaData o
    {}
")).
Eval vm_compute in ("<<<M935>>>" ++ check (runes_of_ascii "packet A {
    u16 len @lengthOf(body) `a
    b
  c`,
    u32 crc @calculatedFrom(""CRC32"") `a
    b
  c`,
    string body,
}")).
Eval vm_compute in ("<<<M1553>>>" ++ check (runes_of_ascii "packet
    A  {  match k

    as

n {
[

    1

    ,
	22 
,

007 ,	4

    , 5
	,
66 ]

:
    B 2 
:C} ,}

")).
Eval vm_compute in ("<<<M1217>>>" ++ check (runes_of_ascii "options { } options { MetaDataX = char // c
; } MetaData Pad { i8 metadata , string stringy , int8 As `{ , }` , }")).
Eval vm_compute in ("<<<M1901>>>" ++ check (runes_of_ascii "
packet
A
	{  match
k as  n

{[ 
1  , 
22
	,
""c c"",4
	,
5,""f"" ,
	7,  8
    ,
""i""
, 10
,
11  ] :  B	2:
C}	,
}")).
Eval vm_compute in ("<<<M1435>>>" ++ check (runes_of_ascii "
packet 
f32a

    {@tag(
007 )
// " ++ [27880; 37322]%N ++ runes_of_ascii "
  i8i8  Logon,

    } 
options 
{}
    packet stringy

{} //
")).
Eval vm_compute in ("<<<M887>>>" ++ check (runes_of_ascii "packet A {
  match k as n {
    [""a"", ""bb"", 007, ""d"", ""e"", 66, ""g"", ""h"", 9, ""j""] : B
    2 : C
  },
}")).
Eval vm_compute in ("<<<M873>>>" ++ check (runes_of_ascii "packet A {
  match k as n {
    [""a"", ""bb"", 007, ""d"", ""e"", 66, ""g"", ""h"", 9] : B,
    2 : C
  },
}")).
Eval vm_compute in ("<<<M526>>>" ++ check (runes_of_ascii "packet
    asx { @calculatedFrom(
""""  ) @tag( 255 )repeat
// packet A { u8 x, }
// trailing ")).
Eval vm_compute in ("<<<M876>>>" ++ check (runes_of_ascii "packet A {
  match k as n {
    [1, 22, 007, 4, 5, 66, 7, 8, 9, 10] : B,
    2 : C
  },
}")).
Eval vm_compute in ("<<<M26>>>" ++ check (runes_of_ascii "root// trailing space 
packet uint8x
{  string stringy
    @lengthOf(matchKey
)	, }")).
Eval vm_compute in ("<<<M814>>>" ++ check (runes_of_ascii "packet A {
  match k as n {
    [""a"", ""bb"", ""c c"", ""d"", ""e""] : B
    2 : C
  },
}")).
Eval vm_compute in ("<<<M815>>>" ++ check (runes_of_ascii "packet A {
  match k as n {
    [1, ""bb"", 007, ""d"", 5] : B,
    2 : C
  },
}")).
Eval vm_compute in ("<<<M1570>>>" ++ check (runes_of_ascii "MetaData u128 {
    matchKey i64_,
    BodyLength T,
    msg_type body,
}")).
Eval vm_compute in ("<<<M976>>>" ++ check (runes_of_ascii "packet A {
    B b `%%d%!`,
    B `%%d%!`,
    repeat B bs `%%d%!`,
}")).
Eval vm_compute in ("<<<M1922>>>" ++ check (runes_of_ascii "packet u {
    Foo @lengthOf(crc) `{ , }`,
    @tag(007)
    o,
}")).
Eval vm_compute in ("<<<M1507>>>" ++ check (runes_of_ascii "
MetaData
    M  { u8

    x

`a
b` 
, T  t  `a
b`  , }
")).
Eval vm_compute in ("<<<M1461>>>" ++ check (runes_of_ascii "packet int {
    Logon @calculatedFrom(""1""),
}// 50% %s")).
Eval vm_compute in ("<<<M1906>>>" ++ check (runes_of_ascii "  packet A { u8
x
    ,// c

	u8

y
    ,
    }

")).
Eval vm_compute in ("<<<M949>>>" ++ check (runes_of_ascii "MetaData M {
    u8 x `x
`,
    T t `x
`,
}")).
Eval vm_compute in ("<<<M1889>>>" ++ check (runes_of_ascii "options {
    a = 1// c
    b = 2;// d
}")).
Eval vm_compute in ("<<<M1186>>>" ++ check (runes_of_ascii "options {
// c
A = ""// no comment"" }")).
Eval vm_compute in ("<<<M752>>>" ++ check (runes_of_ascii "K""kF<NCf7hLi{m{6<\cF\H9]3_e'\jS3a")).
Eval vm_compute in ("<<<M1022>>>" ++ check (runes_of_ascii "packet A {
 u8 x `d" ++ [8192]%N ++ runes_of_ascii "`, // c" ++ [8192]%N ++ runes_of_ascii "
}")).
Eval vm_compute in ("<<<M945>>>" ++ check (runes_of_ascii "packet A {
    u8 x `x
`,
}")).
Eval vm_compute in ("<<<M289>>>" ++ check (runes_of_ascii "// `tick` ""quote"" 'q'

")).
Eval vm_compute in ("<<<M1128>>>" ++ check (runes_of_ascii "MetaData tag { // c
}")).
Eval vm_compute in ("<<<M1026>>>" ++ check (runes_of_ascii "// c" ++ [8202]%N ++ runes_of_ascii "
packet A {
}")).
Eval vm_compute in ("<<<M1008>>>" ++ check (runes_of_ascii "packet A {
}// c" ++ [133]%N)).
Eval vm_compute in ("<<<M763>>>" ++ check (runes_of_ascii "qGUQn" ++ [65533; 65533]%N ++ runes_of_ascii "_O" ++ [65533; 65533]%N ++ runes_of_ascii "}3" ++ [65533]%N ++ runes_of_ascii "I")).
Eval vm_compute in ("<<<M994>>>" ++ check (runes_of_ascii "// c ")).
Eval vm_compute in ("<<<M733>>>" ++ check ([0]%N)).
