From FP Require Import Lexer Parser ShowPT Digest Formatter.
From Coq Require Import String List NArith.
Import ListNotations.
Open Scope string_scope.
Set Printing Width 100000000.
Set Printing Depth 100000000.
Definition show_fres (r : fres) : string :=
  match r with
  | FOk s => "OK:" ++ sh_escaped s ""
  | FErr s => "ERR:" ++ sh_escaped s ""
  | FPanic p => "PANIC:" ++ p
  end.
Definition check (rs : list rune) : string := digest (show_fres (format_res rs)).
Definition full (rs : list rune) : string := show_fres (format_res rs).
Eval vm_compute in ("<<<M146>>>" ++ check (runes_of_ascii "MetaData
chars {	int8 Z9_,	float rootA	`tab	here`// @lengthOf(
,
//x
// @lengthOf(
T o `it's` ,
roots int , // c
repeatCount MetaDataX, float32
    falsey `say ""hi""`,} packet
    msg_type
{ repeat f32
o // `tick` ""quote"" 'q'
, @tag( 0
)char[]  A	,  repeat char[] tag `say ""hi""` ,repeat char[ 0 ] Z9_ ,
zchar[ 1 ] lengthOf ,
i64 T , match float as
leftPad {
    007 : len /// triple
, ""it's"" : len
    , ""it's"" : // @lengthOf(
float
    [ 255 ,
00
, ""abc"", ""abc""
,
1
, """ ++ [28040; 24687]%N ++ runes_of_ascii """ // `tick` ""quote"" 'q'
, ""x y"" , """" // a // b
] :	_x ,
    """" : len ,""\" ++ [233]%N ++ runes_of_ascii """  : // a // b
i64_
, //	t
}, roots{ char[ 1
]// @lengthOf(
Header
@lengthOf( x_y_z )
    , body u128 , // `tick` ""quote"" 'q'
char[]
float ,chars@lengthOf( x  )
    `doc` ,}
,
    crc `it's`
    // `tick` ""quote"" 'q'
    , @calculatedFrom(""" ++ [128512]%N ++ runes_of_ascii """
    )
    BodyLength `" ++ [28040; 24687; 31867; 22411]%N ++ runes_of_ascii "` , }
    packet
    u128{  lengthOf ,pack
@lengthOf( u8x// c
)`// not a comment`// " ++ [27880; 37322]%N ++ runes_of_ascii "
,@leftPad
    (
' ' ) float{match
    asx as
    charz
{ [ 4294967296,""""
, 255 ,42
    ,""1""  ] : u8x ""{,}""	: Foo 42  :
leftPad[ // trailing space 
255 ,
    // " ++ [128512]%N ++ runes_of_ascii " emoji
    ""a\""b"" , ""it's""  , 4294967296 ] : stringy , 3
:Header ,
} ,match o // `tick` ""quote"" 'q'
as
    Pad
    // trailing space 
    { 3 :
    i64_//x
, } ,repeat
    string msg_type ,
    match
packetx // " ++ [27880; 37322]%N ++ runes_of_ascii "
as
lengthOf
    { [ ""x y"","""" ]
:x_y_z
// " ++ [27880; 37322]%N ++ runes_of_ascii "
// c
}, } ,i64 float,repeat
    zchar[ 3  ] rootA
    `crlf
line`, match msg_type as len{
""CRC32"":
MetaDataX
,
} ,
    f32
A , char[
0123456789 ] chars// " ++ [27880; 37322]%N ++ runes_of_ascii "
`{ , }` , /// triple
@calculatedFrom( ""a\""b""
) string
string_
    `" ++ [233]%N ++ runes_of_ascii "` ,}
")).
Eval vm_compute in ("<<<M1710>>>" ++ check (runes_of_ascii "// top
		options 
        // c0

  {
	LittleEndian 
	    // c2
=	false
        // c4
    ; 
    // c5
	StringPrefixLenType
// c6
	=  
  // c7
  u8 
// c8
  ;  // c9
ArrayPrefixLenType// c10
  	= 	 // c11a
	// c11b
	u64 
    // c12
    	; 	 // c13a
  // c13b
		FixedStringPadFromLeft
	    // c14
    	=	false;
	// c17
  FixedStringPadChar  // c18a

	// c18b
  = 
  // c19

	' '  // c20a

// c20b
  ; 
} 

// c22
  packet
    // c23

Reject // c24a
// c24b
{ 	 // c25a

	// c25b
    repeat char[ 
4  ] 	 // c29a

	// c29b
    seqNo // c30
  	, 	 // c31
		string // c32

Px

// c33
    	,

// c34
  }
root
packet

Trade 	 // c38a
    // c38b
	{ 	 // c39a

// c39b

@rightPad 
( // c41
    '0'  // c42

) 
        // c43
	char[
        // c44
	2 	 // c45
    ]
	msgKind// c47

	,	// c48
    repeat
	// c49
f64
        // c50

	price 	 // c51a
	// c51b
, InAcct79 
    // c53
  { 
    // c54

  repeat	// c55a

  // c55b

	Reject 
        // c56
	, 
// c57
zchar[	// c58a

// c58b
  	7  // c59

] 	 // c60a
  	// c60b

OrderId

    // c61

,
// c62
		}	// c63
    ,// c64
  Reject  // c65a

// c65b
	,// c66

}

")).
Eval vm_compute in ("<<<M1835>>>" ++ check (runes_of_ascii "  options 
    //x
    // @lengthOf(
  { Foo	= ""// no comment"" 
/// triple
//	t
;	}
packet
    float{ }packet

    len  {
@lengthOf(  _x
) stringy
{

metadata
    @calculatedFrom( ""a\\"" ) ,

}
, 
//x
//

  }packet
    asx
	{@tag(
    0  )
	repeat float64 A `say ""hi""` ,
    //
      // trailing space 
    i16
    int 
`say ""hi""`
	,
@calculatedFrom(

    """ ++ [128512]%N ++ runes_of_ascii """
)	lengthOf Header
`two words`
	,

    f32a  zchar	,

@rightPad (

'0' )
	repeat	string_ 
    // packet A { u8 x, }
  chars
	``

, 
@tag(
4294967296
) @calculatedFrom(
    ""a	b""

)  repeat msg_type

,@leftPad(

)

repeat	f64
_x

    ,

    repeat As
    {  Logon @lengthOf(
calculatedFrom	) `two words`  ,

repeat
u64	o
`u8 x,`
	,  } ,
@calculatedFrom( ""packet"" 
)

    repeat // @lengthOf(
		uint8
u,
}

    packet uint8x {  @leftPad
	( 
'0' ) 
  //	t
	//x
  zchar[ 

    // packet A { u8 x, }
// " ++ [27880; 37322]%N ++ runes_of_ascii "
  255
]
	metadata `a\`

,	//
    }// `tick` ""quote"" 'q'
")).
Eval vm_compute in ("<<<M1380>>>" ++ check (runes_of_ascii "

  options 
{
	FixedStringPadFromLeft	= true  ;
FixedStringPadChar 
='0' ; 
} 
packet
Leg

    {repeat	InSym93
    {zchar[  3
] Acct

    ,
string
	Side2,i32 Flags
    ,
f32  Note,
	i32
msgKind	,
	} ,	f64 
Note,  uint16 Px  , }
packet Quote{
	zchar[ 2 ]OrderId
    ,
}packet Ack
	{ repeat	string	lastPx
,zchar[ 4  ] 
price
	,

uint32
OrderId
    ,

    Quote

, int8 Acct
,
    }	packet Fill	{

    repeat
Leg	, @rightPad

    ('0' )char[11	] Note,f64
    Px

, @rightPad	( '\x00'
    )
char[

    5
	] Flags ,
zchar[

    9

    ] x ,
string msgKind,} 
root	packet

Order
	{
	Leg
, repeat
Ack
,@rightPad	('\x00'

) 
char[
	3 ]

Side2 ,
    repeat 
char[	1	]	seqNo ,	u16

    clOrdID, match
clOrdID as Body  {
198  :Leg

    , 
23	:
    Quote, 13

    :Ack ,159 :
    Fill ,

    } 
, u32  venue
@calculatedFrom(
	""CRC32""

    ) ,}
")).
Eval vm_compute in ("<<<M1408>>>" ++ check (runes_of_ascii "packet leftPad {
    //
    i8 stringy @calculatedFrom(""" ++ [128512]%N ++ runes_of_ascii """),
    int @calculatedFrom(""a	b"") `it's`,
    @leftPad()
    @tag(0123456789)
    int32 u8x,
    @lengthOf(A)
    float64 u128 @calculatedFrom(""a\\""),//x
}

options {
    //x
    Pad = 0
    u = ' '
}

MetaData a1 {
    char[] metadata `// not a comment`,
}

packet Foo {
    @tag(42)
    repeat BodyLength,
    int8 metadata `{ , }`,
    @leftPad()
    @calculatedFrom(""`tick`"")
    @calculatedFrom(""a	b"")
    u32 stringy,
    @lengthOf(roots)
    zchar[0] msg_type @lengthOf(i64_) `tab	here`,
    i8 Header `{ , }`,
    char[7] trueish @lengthOf(packetx),
    u64 charz `
        `,
    zchar[65535] repeatCount `it's`,
    match calculatedFrom as calculatedFrom {
        ""a	b"" : roots,
        42 : MetaDataX,
    },
}")).
Eval vm_compute in ("<<<M1665>>>" ++ check (runes_of_ascii "options {
    StringPrefixLenType = u8;
    ArrayPrefixLenType = u32;
    FixedStringPadFromLeft = true;
    FixedStringPadChar = ' ';
}

packet Leg {
}

packet Heartbeat {
    zchar[6] msgKind,
    @rightPad('0')
    char[3] Qty,
    zchar[9] Side2,
    i8 Acct,
}

packet Logout {
    int8 x,
}

packet Order {
    char[] Acct,
    zchar[8] count,
    u32 OrderId,
    uint8 lastPx,
    u16 clOrdID,
    zchar[7] Note,
}

root packet Reject {
    @leftPad(' ')
    char[8] Side2,
    i8 clOrdID,
    repeat f32 x,
    u32 lastPx,
    match lastPx as Body {
        [30, 147] : Heartbeat,
        134 : Leg,
        183 : Logout,
        40 : Order,
    },
    u16 Ref @calculatedFrom(""CR\
        C32""),
}")).
Eval vm_compute in ("<<<M184>>>" ++ check (runes_of_ascii "packet options1{@leftPad	( '0' )	@rightPad ( // a // b
'\x00'
) @tag(
255
) /// triple
repeat string As `
`,
@calculatedFrom(
"""" )@calculatedFrom(//x
""x y"" )
a1
{ Foo {trueish { tag
@lengthOf(  i8i8 ) `doc`
, }
, zchar[
00 ] f32a @lengthOf( calculatedFrom) , repeat
zchar[ 1
    ] stringy`{ , }`
    , },uint64  repeatCount	@lengthOf(// `tick` ""quote"" 'q'
asx
    ) , char[ 42
] lengthOf @calculatedFrom(// c
""packet""), char[ 10 ] calculatedFrom @lengthOf( BodyLength ), } ,
asx`// not a comment`,  } options { matchKey =""" ++ [128512]%N ++ runes_of_ascii """ falsey = ""a\""b"" ; A // a // b
= ""CRC32"" msg_type
    =
    //x
    """ ++ [233]%N ++ runes_of_ascii "t" ++ [233]%N ++ runes_of_ascii """	; } MetaData o//	t
{
} packet
Pad{  }")).
Eval vm_compute in ("<<<M1312>>>" ++ check (runes_of_ascii "// top
options // c0a
  // c0b
{ // c1a
  // c1b
FixedStringPadChar = // c3
'0' ; } packet
    // c7
Q // c8
{ // c9a
  // c9b
zchar[ // c10a
  // c10b
4 // c11
] // c12
z , // c14
@rightPad ( // c16
'\x00' ) // c18a
  // c18b
char[ 3 // c20a
  // c20b
]
    // c21
n ,
    // c23
char[
    // c24
5
    // c25
] // c26
d // c27
, } // c29a
  // c29b
root
    // c30
packet R
    // c32
{ // c33
Q , // c35a
  // c35b
zchar[ 8 // c37
] // c38
top , // c40a
  // c40b
repeat
    // c41
zchar[
    // c42
2
    // c43
] // c44a
  // c44b
zs
    // c45
, // c46a
  // c46b
} // c47
")).
Eval vm_compute in ("<<<M1355>>>" ++ check (runes_of_ascii "options {
    StringPrefixLenType = u8;
    ArrayPrefixLenType = u8;
    FixedStringPadFromLeft = false;
    FixedStringPadChar = ' ';
}
packet Ack {
    char[] tag7,
}
packet Reject {
    InSym61 {
        repeat Ack,
        zchar[4] f1,
    },
}
packet Logout {
    char[4] clOrdID,
}
root packet Cancel {
    @leftPad(' ') char[10] price,
    u8 x,
    u32 venue @lengthOf(Body),
    match x as Body {
        [92, 175] : Logout,
        26 : Reject,
        144 : Ack,
    },
    u16 count @calculatedFrom(""CRC32""),
}
")).
Eval vm_compute in ("<<<M301>>>" ++ check (runes_of_ascii "root packet A { repeat uint64 matchKey
    , char[]
    Packet , char[
    007 ] calculatedFrom , }
options{ Header =
007 ;
float =
    true} packet chars { repeat
chars ,@rightPad
    ( '0' ) chars f32a
    `line1
line2`
, int16
u8x , @tag( 4294967296 ) @rightPad
( )
u64 packetx@calculatedFrom(""it's"" )
,
@calculatedFrom( ""\n"" ) o@calculatedFrom(""a\""b"" ), Logon	@lengthOf( BodyLength
    /// triple
    )
// a // b
// packet A { u8 x, }
,}options {
    }
")).
Eval vm_compute in ("<<<M349>>>" ++ check (runes_of_ascii "root
packet body {
    @lengthOf(
int
// @lengthOf(
//x
)string tag
    ,	Pad BodyLength , Z9_ {
    /// triple
    u `` , zchar[ 7] u ,
},uint64 calculatedFrom, }packet
msg_type {match f32a// " ++ [128512]%N ++ runes_of_ascii " emoji
as pack
    { ""// no comment"" : trueish
, }
    // trailing space 
    , @calculatedFrom( // @lengthOf(
""abc""
)
    @leftPad (
' ') @calculatedFrom( """" //x
) // c
matchKey T ,// `tick` ""quote"" 'q'
}
")).
Eval vm_compute in ("<<<M1378>>>" ++ check (runes_of_ascii "

  options {
LittleEndian	=

    true
;

} 
packet
    Logon {
u8	x	, 
}
	packet
    Logout {
    u16
reason

,  }	root
    packet
    Frame { i8 
Kind ,i8

    Kind2
,
match
	Kind
    as	Body { 1 
: Logon , [
2

    ,	3

    ,

    4  ]
:
	Logout,  100
    :  Logon ,
}

    ,

match

    Kind2  as

    Trailer
	{

    0 :	Logout
	, }, 
}
")).
Eval vm_compute in ("<<<M1643>>>" ++ check (runes_of_ascii "// top
root packet _x {
    match Foo as Z9_ {
        // c8
        ""a	b"" : Pad,
    },// c14
    repeat x `line1
        line2`,// c18
    @rightPad(' ')
    @calculatedFrom(""a\\"")
    // c25a
    // c25b
    metadata MetaDataX,
    @tag(0)
    // c31
    Logon int ``,
}// c36

options {
    // c38
    T = '\x00'
}// c42a")).
Eval vm_compute in ("<<<M1310>>>" ++ check (runes_of_ascii "
packet
A
	{

u8 a
	, } packet
    B 
{ u16 b
,
	} packet
    C 
{	u32 
c,

}
	root
    packet

    M
	{u16

    Kc ,
u16 Kb
	, u16
    Ka

,
match  Kc

    as
X
	{9
:A

    ,
10
:B  , } ,match	Kb  as
Y{	2
: C
,  1 :A

,

} ,  match	Ka
    as
Z {
1 :
B	, 
}, A 
,B
, C
,

    }")).
Eval vm_compute in ("<<<M1314>>>" ++ check (runes_of_ascii "packet MDSnapshotZZ {
    u8 a,
}
packet OrderACK {
    u16 b,
}
packet HTTPServerInfo {
    string s,
}
root packet FIXMsg {
    u8 KType,
    MDSnapshotZZ,
    repeat OrderACK,
    match KType as Body {
        1 : HTTPServerInfo,
        2 : OrderACK,
    },
}
")).
Eval vm_compute in ("<<<M214>>>" ++ check (runes_of_ascii "MetaData tag {body Packet	, int16 // @lengthOf(
body // `tick` ""quote"" 'q'
, f32a uint8x , } packet falsey {
x { char[ 7 ] lengthOf , char[] o
    `say ""hi""`
    // `tick` ""quote"" 'q'
    ,
//
/// triple
}
,}
// `tick` ""quote"" 'q'
")).
Eval vm_compute in ("<<<M1855>>>" ++ check (runes_of_ascii "packet A {
    Inner {
        u8 x `a
                    b
                  c`,
        Deep {
            u8 y `a
                            b
                          c`,
        },
    },
}")).
Eval vm_compute in ("<<<M62>>>" ++ check (runes_of_ascii "packet
crc { @leftPad //	t
( ) repeat
charz float
    ,} root packet
options1 {
@tag( 65535/// triple
)packetx
{ u128 , f32 /// triple
a1 ,
    } , }
// trailing space 
")).
Eval vm_compute in ("<<<M355>>>" ++ check (runes_of_ascii "options  { As = true
    MetaDataX =true	}	packet A { repeat calculatedFrom `say ""hi""`
    ,} MetaData crc { u crc ,
    uint32 body , i16 stringy
`u8 x,`
, }
")).
Eval vm_compute in ("<<<M478>>>" ++ check (runes_of_ascii "packet uint8x
{ match pack
    as msg_type	{
    0123456789 :	float
}
,
} packet //	t
a1
    { char[ options {packetx
    = '\x00'	; u128= ""a	b""  ; }
")).
Eval vm_compute in ("<<<M531>>>" ++ check (runes_of_ascii "packet uint8x
{ match pack
    as msg_type	{
    0123456789 :	float
}
,
} packet //	t
a1
    { } options {packetx
    = '\x00'	; u128= ""a	b""  ; } }
")).
Eval vm_compute in ("<<<M428>>>" ++ check (runes_of_ascii "packet uint8x
{ match pack
    as msg_type	}
    0123456789 :	float
}
,
} packet //	t
a1
    { } options {packetx
    = '\x00'	; u128= ""a	b""  ; }
")).
Eval vm_compute in ("<<<M450>>>" ++ check (runes_of_ascii "packet uint8x
{ match pack
    as msg_type	{
    0123456789 :	float
}

} packet //	t
a1
    { } options {packetx
    = '\x00'	; u128= ""a	b""  ; }
")).
Eval vm_compute in ("<<<M493>>>" ++ check (runes_of_ascii "packet uint8x
{ match pack
    as msg_type	{
    0123456789 :	float
}
,
} packet //	t
a1
    { } options {f64
    = '\x00'	; u128= ""a	b""  ; }
")).
Eval vm_compute in ("<<<M677>>>" ++ check (runes_of_ascii "// @lengthOf(
packet i8i8 { u128 o , }
options { MetaDataX = true;
    BodyLength =""packet"" x_y_z 007 =
crc //x
= ""abc"" ;
    msg_type =
i16 }")).
Eval vm_compute in ("<<<M689>>>" ++ check (runes_of_ascii "// @lengthOf(
packet i8i8 { u128 o , }
options { MetaDataX  true;
    BodyLength =""packet"" x_y_z= 007
crc //x
= ""abc"" ;
    msg_type =
i16 }")).
Eval vm_compute in ("<<<M716>>>" ++ check (runes_of_ascii "// @lengthOf(
packet i8i8 { u128 o , }
 { MetaDataX = true;
    BodyLength =""packet"" x_y_z= 007
crc //x
= ""abc"" ;
    msg_type =
i16 }")).
Eval vm_compute in ("<<<M1772>>>" ++ check (runes_of_ascii "packet A 
{	match k
    as
n
	{

[
1 ,""bb""
,007
,""d""
    ,

    5  ,
""f""
,
7
,""h""	,

9  , ""j"" ,11 ,	""l""  ]

: B

, 2 :C	}	,
	}")).
Eval vm_compute in ("<<<M171>>>" ++ check (runes_of_ascii "options { Pad=	'\x00' ; u
= false  repeatCount
    = false ;// trailing space 
T
=// a // b
""CRC32"" ;
    a1 = ""it's""}
")).
Eval vm_compute in ("<<<M1166>>>" ++ check (runes_of_ascii "MetaData leftPad { chars MetaDataX , } packet repeatCount { char[ 255
// c
] uint8x `" ++ [233]%N ++ runes_of_ascii "` , } MetaData pack { As Foo , }")).
Eval vm_compute in ("<<<M1460>>>" ++ check (runes_of_ascii "

  packet  A{

match k

    as
	n
    {

[	1	, ""bb"" ,
	007

, ""d""
    ,5, ""f""
    ] :
	B
    ,
    2:  C
}  , } ")).
Eval vm_compute in ("<<<M494>>>" ++ check (runes_of_ascii "packet uint8x
{ match pack
    as msg_type	{
    0123456789 :	float
}
,
} packet //	t
a1
    { } options {")).
Eval vm_compute in ("<<<M1276>>>" ++ check (runes_of_ascii "options {
    LittleEndian = true;
}
root packet P {
    u16 a,
    u32 Sum @calculatedFrom(""CRC32""),
}
")).
Eval vm_compute in ("<<<M950>>>" ++ check (runes_of_ascii "packet A {
    Inner {
        u8 x `x
`,
        Deep {
            u8 y `x
`,
        },
    },
}")).
Eval vm_compute in ("<<<M199>>>" ++ check (runes_of_ascii "packet falsey { string a1 @lengthOf( packetx ) , }
packet	int { Header	@lengthOf( stringy)
, }")).
Eval vm_compute in ("<<<M869>>>" ++ check (runes_of_ascii "packet A {
  match k as n {
    [1, ""bb"", 007, ""d"", 5, ""f"", 7, ""h"", 9] : B,
    2 : C
  },
}")).
Eval vm_compute in ("<<<M858>>>" ++ check (runes_of_ascii "packet A {
  match k as n {
    [""a"", 22, ""c c"", 4, ""e"", 66, ""g"", 8] : B,
    2 : C
  },
}")).
Eval vm_compute in ("<<<M612>>>" ++ check (runes_of_ascii "
packet
    asx {match u128 as lengthOf
{
//	t
// `tick` ""quote"" 'q'
255 : x ,
     ,	}")).
Eval vm_compute in ("<<<M969>>>" ++ check (runes_of_ascii "packet A {
    u32 crc @calculatedFrom(""x\
y""),
    @calculatedFrom(""x\
y"") u8 y,
}")).
Eval vm_compute in ("<<<M1532>>>" ++ check (runes_of_ascii "  packet  A{ 
Inner  {
    u8 x `a
b` ,Deep {  u8
    y`a
b`	, } ,

    } , } ")).
Eval vm_compute in ("<<<M1427>>>" ++ check (runes_of_ascii "packet A {
    B b `a
    b`,
    B `a
    b`,
    repeat B bs `a
    b`,
}")).
Eval vm_compute in ("<<<M1648>>>" ++ check (runes_of_ascii "packet A {
    @leftPad()
    char[4] x,
    @rightPad()
    zchar[2] y,
}")).
Eval vm_compute in ("<<<M454>>>" ++ check (runes_of_ascii "packet uint8x
{ match pack
    as msg_type	{
    0123456789 :	float
}")).
Eval vm_compute in ("<<<M1508>>>" ++ check (runes_of_ascii "

  // c
	packet
body
	{

i32 f32a `{ , }`	, }
    options
{	}

")).
Eval vm_compute in ("<<<M88>>>" ++ check (runes_of_ascii "options// @lengthOf(
{a1 = 65535
// `tick` ""quote"" 'q'
// c
}")).
Eval vm_compute in ("<<<M1088>>>" ++ check (runes_of_ascii "packet A { @tag(1) // a
 @leftPad('0') // b
 char[4] x, }")).
Eval vm_compute in ("<<<M1200>>>" ++ check (runes_of_ascii "packet
// c
body { i32 f32a `{ , }` , } options { }")).
Eval vm_compute in ("<<<M1073>>>" ++ check (runes_of_ascii "packet A {} packet B {} MetaData M {} options {}")).
Eval vm_compute in ("<<<M363>>>" ++ check (runes_of_ascii "MetaData
    // @lengthOf(
    tag {
    }")).
Eval vm_compute in ("<<<M971>>>" ++ check (runes_of_ascii "options {
    a = ""\
"";
    b = ""\
""
}")).
Eval vm_compute in ("<<<M922>>>" ++ check (runes_of_ascii "root packet A {
    u8 x `a
b`,
}")).
Eval vm_compute in ("<<<M993>>>" ++ check (runes_of_ascii "packet A {
 u8 x `d" ++ [133]%N ++ runes_of_ascii "`, // c" ++ [133]%N ++ runes_of_ascii "
}")).
Eval vm_compute in ("<<<M947>>>" ++ check (runes_of_ascii "packet A {
    u8 x `x
`,
}")).
Eval vm_compute in ("<<<M414>>>" ++ check (runes_of_ascii "packet uint8x
{ match")).
Eval vm_compute in ("<<<M59>>>" ++ check (runes_of_ascii "packet
int {
}
//	t
")).
Eval vm_compute in ("<<<M982>>>" ++ check (runes_of_ascii "// c" ++ [12288]%N ++ runes_of_ascii "
packet A {
}")).
Eval vm_compute in ("<<<M1083>>>" ++ check (runes_of_ascii "packet A { // a
 }")).
Eval vm_compute in ("<<<M1229>>>" ++ check (runes_of_ascii "packet x
// c
{ }")).
Eval vm_compute in ("<<<M3>>>" ++ check (runes_of_ascii "options {}

")).
Eval vm_compute in ("<<<M1020>>>" ++ check (runes_of_ascii "// c" ++ [8239]%N)).
Eval vm_compute in ("<<<M72>>>" ++ check (@nil rune)).
