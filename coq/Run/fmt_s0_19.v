From FP Require Import Lexer Parser ShowPT Digest Formatter.
From Coq Require Import String List NArith.
Import ListNotations.
Open Scope string_scope.
Set Printing Width 100000000.
Set Printing Depth 100000000.
Definition show_fres (r : fres) : string :=
  match r with
  | FOk s => "OK:" ++ sh_escaped s ""
  | FErr s => "ERR:" ++ sh_escaped s ""
  | FPanic p => "PANIC:" ++ p
  end.
Definition check (rs : list rune) : string := digest (show_fres (format_res rs)).
Definition full (rs : list rune) : string := show_fres (format_res rs).
Eval vm_compute in ("<<<M5>>>" ++ check (runes_of_ascii "MetaData  asx {char[] MetaDataX ,
lengthOf Z9_	, crc
    Foo ,char[ 4294967296]
BodyLength , Foo leftPad `doc`, tag // a // b
u128 , } root packet
    stringy { // trailing space 
match Header as
    repeatCount	{ [ ""{,}""] :
Header
/// triple
//
,255 :repeatCount , 00 :pack, 1 : trueish
    , 7
    : A }
    ,
T
    {Z9_
`
` ,
} ,
    int16 o
@calculatedFrom(
""it's""
) `line1
line2`	, match zchar
as As{ ""CRC32"" :	a1, 42: Header [ 10
    //
    ] : zchar // trailing space 
,
    }// " ++ [128512]%N ++ runes_of_ascii " emoji
, @tag( 42 )repeat i64_{
    // c
    char[00 ] _x `{ , }` ,
}
,repeat //x
char[] uint8x
`crlf
line` ,@leftPad
(	'\x00'
    ) @tag( 7 )
    int32
// a // b
// @lengthOf(
repeatCount
    @calculatedFrom(
""x y"" )
`// not a comment` , u32 zchar
    `
` , repeat stringy { i8i8 lengthOf
, } , // packet A { u8 x, }
@calculatedFrom(  ""abc"" ) @lengthOf( tag ) @lengthOf( /// triple
rootA )  char[3	] // c
rootA`" ++ [233]%N ++ runes_of_ascii "` ,// c
}MetaData crc
{
float32
asx `" ++ [233]%N ++ runes_of_ascii "` ,	string i64_// " ++ [128512]%N ++ runes_of_ascii " emoji
,
    }
root packet Packet
    //
    {charz @lengthOf( zchar) ,	f32
    f32a `{ , }` // a // b
, i64 matchKey @lengthOf( leftPad )
    , string trueish, @leftPad (  '0')
    // trailing space 
    tag@lengthOf( // a // b
string_ ) `doc` , match stringy
// @lengthOf(
// @lengthOf(
as calculatedFrom
    { [
0123456789 ]: repeatCount
//	t
//
,} ,// trailing space 
char[
3]
Header ,
int64 MetaDataX
,	@leftPad( ) len { packetx @lengthOf(chars ) `` ,
    }, @rightPad ( '0'
    )  x_y_z
,
} options{ rootA
// packet A { u8 x, }
//x
= '0'
; Foo =char
    ;A
    = zchar[ 0123456789 ]
// " ++ [27880; 37322]%N ++ runes_of_ascii "
//x
;packetx = """ ++ [233]%N ++ runes_of_ascii "t" ++ [233]%N ++ runes_of_ascii """
float = true } //x")).
Eval vm_compute in ("<<<M257>>>" ++ check (runes_of_ascii "options
{
BodyLength
=3 ;// " ++ [128512]%N ++ runes_of_ascii " emoji
T = ""packet""
// @lengthOf(
// trailing space 
;
// c
// trailing space 
crc = true ;
falsey= '\x00'/// triple
;
} root packet A
    {@leftPad (
'0' )	char[
65535 ] Header  `" ++ [233]%N ++ runes_of_ascii "` ,
@rightPad( '0' ) //
a1 @lengthOf( msg_type ) , @lengthOf( rootA )
    match
_x as //x
stringy {""CRC32"" : chars, 3// `tick` ""quote"" 'q'
:float , 255	:	asx // `tick` ""quote"" 'q'
, 10  : tag ,//
} ,
    @calculatedFrom(
    """ ++ [128512]%N ++ runes_of_ascii """	) u32 u8x`crlf
line` , repeat char[]	asx `a\` , @rightPad ( '0'	)match f32a  as Packet
    { [ 255 , ""CRC32"" , 007
, ""1"",""packet"" , 00 ,
    4294967296 ]	: calculatedFrom , ""packet"" :
    falsey, ""a\""b"": body , 7// a // b
: Packet // " ++ [128512]%N ++ runes_of_ascii " emoji
0123456789 :	i64_ ,
    // a // b
    [4294967296 , 0123456789 ]  : // `tick` ""quote"" 'q'
options1	} ,crc /// triple
@lengthOf(	Foo
    )
    ,
@calculatedFrom( ""{,}"")@lengthOf(metadata ) @lengthOf( i8i8
)int64 options1 @calculatedFrom(""CRC32"" )
    `line1
line2` , // @lengthOf(
} packet a1 // `tick` ""quote"" 'q'
{ match lengthOf//
as x_y_z
{ ""it's"" :matchKey
//
// @lengthOf(
, 10 :
Packet , [ //x
""abc""
    ]// a // b
: A 10 //x
: metadata
    ,
    } ,
}MetaData
    body { char string_, char[]
x, len Pad , string
    leftPad , } // trailing space ")).
Eval vm_compute in ("<<<M128>>>" ++ check (runes_of_ascii "root
packet // " ++ [27880; 37322]%N ++ runes_of_ascii "
crc
    {	@lengthOf(	As
)@calculatedFrom(""\" ++ [233]%N ++ runes_of_ascii """
    ) zchar[ 4294967296 ]MetaDataX `doc` ,/// triple
rootA @calculatedFrom( ""it's"" )	,@tag( 65535
    ) @tag( // c
7 )@tag( 00
//
// c
) len @lengthOf( A ) `two words` ,
// trailing space 
// " ++ [128512]%N ++ runes_of_ascii " emoji
string	rootA@lengthOf( pack
// trailing space 
//	t
) ,
// " ++ [128512]%N ++ runes_of_ascii " emoji
// trailing space 
repeat zchar ,
@calculatedFrom( ""abc"" )@leftPad ('\x00' ) @rightPad
( )match x_y_z
    as Z9_{
""it's""
    :
Logon//x
, ""x y"" : Packet,""abc""
: trueish 4294967296 // @lengthOf(
:
    repeatCount """ ++ [128512]%N ++ runes_of_ascii """:  x_y_z
} , char[ 10 // @lengthOf(
]
    stringy	`it's`
, @leftPad (
'\x00' )
rootA @lengthOf(  i64_  )
    , } MetaData falsey {
Packet repeatCount `tab	here` ,
}MetaData string_ {
    float64 roots `line1
line2` , char
As //
`
` , zchar[ 65535 ]falsey`a\` ,A
    T , _x metadata, } packet
_x // packet A { u8 x, }
{zchar[255 ] string_@lengthOf(
//	t
// @lengthOf(
u128 ) `{ , }`	,
}root packet Packet
    {repeat // " ++ [128512]%N ++ runes_of_ascii " emoji
lengthOf , }")).
Eval vm_compute in ("<<<M107>>>" ++ check (runes_of_ascii "packet falsey { i64_ ,	charz  {
match Packet  as Pad { ""\n"" :Packet
    , ""// no comment"" // " ++ [128512]%N ++ runes_of_ascii " emoji
:
f32a// `tick` ""quote"" 'q'
, [
    /// triple
    3  ,4294967296,
    10 ,//
7 , 10	]
: u
, // trailing space 
""`tick`"": u8x
,
[ 7 , ""it's"" ]:Packet, 0 : len
    //
    , }
    , }, /// triple
@lengthOf(	f32a) char[ 3 ]options1
    @lengthOf(
Pad)
, zchar[ 0123456789 ]// trailing space 
T ``
,
} packet
Pad
{
    // c
    o roots `{ , }` // " ++ [128512]%N ++ runes_of_ascii " emoji
, }packet f32a {
_x//
@calculatedFrom(	""x y"") //x
,@tag( 65535
) //	t
char pack @lengthOf( zchar  ) ,repeat //
int64 falsey  ,repeat len {match A
    as rootA {[ 42,  ""\n"" ]:
Z9_ , }
,repeat i16
A , repeat zchar[ 65535 ] tag `
` ,
f64 float
    @lengthOf( f32a ) ``  ,
// `tick` ""quote"" 'q'
// packet A { u8 x, }
} , x
    u8x
, @tag(  42	) repeat As Packet	, @lengthOf( Pad
    )repeat
    f64 rootA ,// @lengthOf(
}")).
Eval vm_compute in ("<<<M228>>>" ++ check (runes_of_ascii "packet
//
// " ++ [27880; 37322]%N ++ runes_of_ascii "
BodyLength  {
repeat
    // @lengthOf(
    zchar[	255]tag `crlf
line` , } MetaData BodyLength	{
char[ 65535] //	t
packetx `" ++ [28040; 24687; 31867; 22411]%N ++ runes_of_ascii "` , } options
    {
    metadata =3; // trailing space 
} packet Packet
{ o { uint16	Logon
    , } , @leftPad (  )char[ 0123456789 ]
a1 `" ++ [28040; 24687; 31867; 22411]%N ++ runes_of_ascii "` // a // b
,
    repeat string
lengthOf
    `{ , }`	,stringy crc
,@rightPad (
' ' ) u32	MetaDataX
    ,
@rightPad('0' ) tag	{repeat f64 tag `u8 x,`
, }
    //	t
    , char[
    00 ] uint8x `` , match leftPad  as Header {""" ++ [233]%N ++ runes_of_ascii "t" ++ [233]%N ++ runes_of_ascii """  : Foo
, [	""\" ++ [233]%N ++ runes_of_ascii """
, 007
,00 , 10, ""\" ++ [233]%N ++ runes_of_ascii """ ]: crc
, [ 1 ,007 , ""a\\""
    ,
""packet""
    ]: //	t
len // packet A { u8 x, }
, 10 : MetaDataX
//x
// " ++ [128512]%N ++ runes_of_ascii " emoji
,  }
//	t
/// triple
, } packet
    i64_{
@rightPad	('\x00'
)
@leftPad(
) i8 body@calculatedFrom(""" ++ [233]%N ++ runes_of_ascii "t" ++ [233]%N ++ runes_of_ascii """) `it's` , }
// @lengthOf(
")).
Eval vm_compute in ("<<<M1692>>>" ++ check (runes_of_ascii "// a // b
packet u128 {
    repeat chars {
        i64 u8x `
        `,// c
        _x @lengthOf(falsey),
        Logon `" ++ [28040; 24687; 31867; 22411]%N ++ runes_of_ascii "`,
        repeat char[] trueish `tab	here`,
    },
}

root packet T {
    match Packet as trueish {
        ""packet"" : charz,
        [4294967296, ""1""] : A,
        7 : x,
        [7, ""a	b""] : u128,
        255 : As,
        3 : Packet,
    },
    //	t
    // trailing space 
    pack `a\`,
    @calculatedFrom(""" ++ [233]%N ++ runes_of_ascii "t" ++ [233]%N ++ runes_of_ascii """)
    rootA matchKey,
    char[65535] leftPad @lengthOf(roots),
    repeat MetaDataX {
        u64 a1 @calculatedFrom(""x y"") `doc`,//	t
        uint8 falsey,
        match BodyLength as A {
            [""\" ++ [233]%N ++ runes_of_ascii """, 255, """", ""it's""] : Foo,
            3 : u128,
        },
    },
}")).
Eval vm_compute in ("<<<M1122>>>" ++ check (runes_of_ascii "// top
options // c0
{ // c1
uint8x // c2
= // c3
007 // c4
; // c5
lengthOf // c6
= // c7
i8 // c8
; // c9
} // c10
packet // c11
i64_ // c12
{ // c13
@calculatedFrom( // c14
""1"" // c15
) // c16
@tag( // c17
3 // c18
) // c19
@lengthOf( // c20
rootA // c21
) // c22
repeat // c23
int8 // c24
Packet // c25
`u8 x,` // c26
, // c27
} // c28
root // c29
packet // c30
stringy // c31
{ // c32
@rightPad // c33
( // c34
' ' // c35
) // c36
repeat // c37
char[ // c38
10 // c39
] // c40
repeatCount // c41
, // c42
@tag( // c43
255 // c44
) // c45
float64 // c46
msg_type // c47
@calculatedFrom( // c48
""packet"" // c49
) // c50
, // c51
} // c52
")).
Eval vm_compute in ("<<<M1294>>>" ++ check (runes_of_ascii "// top
packet // c0a
  // c0b
A // c1
{
    // c2
u8
    // c3
a // c4a
  // c4b
, } // c6a
  // c6b
packet // c7a
  // c7b
B // c8a
  // c8b
{ u16 // c10
b // c11a
  // c11b
,
    // c12
}
    // c13
root // c14
packet P // c16
{ // c17a
  // c17b
u8 K1 // c19
, // c20
u8 // c21a
  // c21b
K2 // c22a
  // c22b
, // c23a
  // c23b
match // c24a
  // c24b
K1 as
    // c26
M1 // c27a
  // c27b
{ // c28a
  // c28b
1
    // c29
:
    // c30
A // c31
, // c32a
  // c32b
} , match K2
    // c36
as
    // c37
M2 // c38
{ 1 : // c41a
  // c41b
B
    // c42
, } ,
    // c45
} // c46
")).
Eval vm_compute in ("<<<M1442>>>" ++ check (runes_of_ascii "
options
    {
    ArrayPrefixLenType=u64 ; FixedStringPadFromLeft=	true
;
FixedStringPadChar =

'0'
;
    }

    packet

    Quote{

} packet

Ack 
{
    repeat
InNote66
{
u8 pad0 
,

    } , 
}

    packet 
Reject
{

}

root packet

Order
	{Quote ,

repeat
	Reject
	,  string 
venue
, string	seqNo

    , uint32 Ref ,  u16
    lastPx

,
	u32
clOrdID
    @lengthOf(
    Body  ) ,

match
lastPx as  Body
{

    190
	: Reject,  186:  Quote , 22 :	Ack ,
} , u16 Flags
	@calculatedFrom(  ""CRC32""

)  , }

")).
Eval vm_compute in ("<<<M1898>>>" ++ check (runes_of_ascii "// top
packet Logon {
    // c2a
    // c2b
    string user,// c5a
    // c5b
}// c6a

// c6b
root packet Frame {
    // c10
    u8 K,
    // c13
    match K as Body {
        // c18
        1 : Logon,
        // c22a
        // c22b
        2 : Logout,
        // c26
    },// c28a
    // c28b
    Tail,// c30a
    // c30b
}// c31a

// c31b
packet Logout {
    // c34a
    // c34b
    u16 reason,
}

// c38
packet Tail {
    // c41
    u32 crc,// c44
}// c45a
// c45b")).
Eval vm_compute in ("<<<M1192>>>" ++ check (runes_of_ascii "// top
MetaData
    // c0
uint8x
    // c1
{
    // c2
char[]
    // c3
f32a
    // c4
`// not a comment`
    // c5
,
    // c6
float32
    // c7
roots
    // c8
,
    // c9
char[
    // c10
7
    // c11
]
    // c12
u8x
    // c13
,
    // c14
zchar[
    // c15
10
    // c16
]
    // c17
f32a
    // c18
,
    // c19
u64
    // c20
pack
    // c21
,
    // c22
u16
    // c23
pack
    // c24
,
    // c25
}
    // c26
")).
Eval vm_compute in ("<<<M292>>>" ++ check (runes_of_ascii "packet/// triple
matchKey { float32 float,@calculatedFrom(""a\\""// " ++ [27880; 37322]%N ++ runes_of_ascii "
) @rightPad
( '\x00' )i16 tag  @calculatedFrom(""abc"" ) ,
repeat zchar[255
] pack
    , @lengthOf( Z9_ ) tag , } // trailing space 
root
packet rootA { repeat metadata { Logon , }, @tag( 10)
@lengthOf( A )
@tag( 007)
u32
    options1, match float as u {0123456789 : u8x ,} ,	}// " ++ [27880; 37322]%N ++ runes_of_ascii "
root packet lengthOf { }
")).
Eval vm_compute in ("<<<M110>>>" ++ check (runes_of_ascii "root // trailing space 
packet
leftPad { T
@lengthOf(A
) `" ++ [233]%N ++ runes_of_ascii "`,
    Header
    @lengthOf( As ) // " ++ [27880; 37322]%N ++ runes_of_ascii "
,
string	calculatedFrom `{ , }`
, @tag( 1) // trailing space 
u16  x_y_z ,
@tag( 4294967296
) x_y_z metadata// " ++ [128512]%N ++ runes_of_ascii " emoji
,asx { asx `it's`
    ,} , char[ 65535 ]
As@lengthOf(
    Logon ) `a\`
,@lengthOf(
Z9_
    ) string
BodyLength ,
}")).
Eval vm_compute in ("<<<M1268>>>" ++ check (runes_of_ascii "// top
packet
    // c0
B
    // c1
{ // c2
u8
    // c3
a // c4
, string // c6
s
    // c7
, } root // c10
packet
    // c11
P // c12a
  // c12b
{
    // c13
u16
    // c14
L // c15a
  // c15b
@lengthOf( B
    // c17
)
    // c18
,
    // c19
B
    // c20
, u8 // c22a
  // c22b
t
    // c23
, // c24
} ")).
Eval vm_compute in ("<<<M1673>>>" ++ check (runes_of_ascii "options {
    LittleEndian = false;
    StringPrefixLenType = u16;
}

packet Heartbeat {
    @rightPad('0')
    char[7] seqNo,
    uint64 Tail,
    i16 Flags,
    u16 msgKind,
}

root packet Reject {
    zchar[3] tag7,
    repeat Heartbeat,
    repeat string clOrdID,
}")).
Eval vm_compute in ("<<<M97>>>" ++ check (runes_of_ascii "packet
i8i8 { repeat char[	00 ] Pad
    `a\` ,
@leftPad
    (
'\x00') string	a1@lengthOf(tag )``, float64
    u128 @calculatedFrom( ""1""
)  ,	@lengthOf( x
    )
    u128 @lengthOf( tag )
`" ++ [28040; 24687; 31867; 22411]%N ++ runes_of_ascii "` , int64 u ,
A//x
T
    `say ""hi""`
, }
")).
Eval vm_compute in ("<<<M367>>>" ++ check (runes_of_ascii "
packet roots  { @calculatedFrom( ""a\\"" ) @lengthOf( packetx  ) match repeatCount
as body { 007:
    lengthOf ,
    00
    :// `tick` ""quote"" 'q'
zchar,} ,
char[] chars
`say ""hi""`,}
MetaData packetx
    {}
")).
Eval vm_compute in ("<<<M1716>>>" ++ check (runes_of_ascii "packet A {
    match k as n {
        [
            ""a"", ""bb"", ""c c"", ""d"", ""e"",
            ""f"", ""g"", ""h"", ""i"", ""j"",
            ""k"", ""l""
        ] : B,
        2 : C,
    },
}")).
Eval vm_compute in ("<<<M283>>>" ++ check (runes_of_ascii "
root packet /// triple
u8x {}options { o =	zchar[ 1 ]
    Packet
    // trailing space 
    =u32 ; uint8x =""a\\"";
    /// triple
    u8x
=0
;
    crc =""\n"" ; }")).
Eval vm_compute in ("<<<M1537>>>" ++ check (runes_of_ascii "packet A {
    match k as n {
        [
            1, 22, 007, 4, 5,
            66, 7, 8, 9, 10,
            11, 12
        ] : B,
        2 : C,
    },
}")).
Eval vm_compute in ("<<<M446>>>" ++ check (runes_of_ascii "packet uint8x
{ match pack
    as msg_type	{
    0123456789 :	float
} }
,
} packet //	t
a1
    { } options {packetx
    = '\x00'	; u128= ""a	b""  ; }
")).
Eval vm_compute in ("<<<M1906>>>" ++ check (runes_of_ascii "

  MetaData	leftPad
{ chars  MetaDataX// c
  , }	packet
repeatCount
    {
char[ 
255]
uint8x  `" ++ [233]%N ++ runes_of_ascii "`
    ,

    }

    MetaData pack
{As Foo	,
}

")).
Eval vm_compute in ("<<<M527>>>" ++ check (runes_of_ascii "packet uint8x
{ match pack
    as msg_type	{
    0123456789 :	float
}
,
} packet //	t
a1
    { } options {packetx
    = '\x00'	; u128= ""a	b""  } ;
")).
Eval vm_compute in ("<<<M1742>>>" ++ check (runes_of_ascii "packet roots {
    // " ++ [27880; 37322]%N ++ runes_of_ascii "
    @tag(0)
    repeat zchar[0] x,
}

options {
    As = ""\" ++ [233]%N ++ runes_of_ascii """;
    pack = ' ';
    int = '\x00';
    options1 = ""`tick`"";
}")).
Eval vm_compute in ("<<<M705>>>" ++ check (runes_of_ascii "// @lengthOf(
packet i8i8 { u128 o , }
options { MetaDataX = true;
    BodyLength =""packet"" x_y_z= 007
crc //x
= = ""abc"" ;
    msg_type =
i16 }")).
Eval vm_compute in ("<<<M722>>>" ++ check (runes_of_ascii "// @lengthOf(
packet i8i8 { u128 o , }
options { MetaDataX = true;
    BodyLength =x_y_z ""packet""= 007
crc //x
= ""abc"" ;
    msg_type =
i16 }")).
Eval vm_compute in ("<<<M61>>>" ++ check (runes_of_ascii "packet
    i64_ { }
MetaData uint8x {Packet tag , u8	repeatCount
, x_y_z
_x `" ++ [233]%N ++ runes_of_ascii "`
    , zchar[
    42
    ]
    crc
`a\` ,
} options	{ }")).
Eval vm_compute in ("<<<M1687>>>" ++ check (runes_of_ascii "// top
root packet P {
    // c3
    u8 s_u8,// c6
    repeat u8 r_u8,
    // c10
    u16 b_len,// c13a
    // c13b
}// c14a
// c14b")).
Eval vm_compute in ("<<<M1529>>>" ++ check (runes_of_ascii "

  packet
u

{ repeat 
// " ++ [128512]%N ++ runes_of_ascii " emoji
  A
	,
	@lengthOf( lengthOf)
repeat
	i64 
i64_
,//

	zchar[
3// a // b
    ]
body 
, }")).
Eval vm_compute in ("<<<M1148>>>" ++ check (runes_of_ascii "MetaData leftPad {
// c
chars MetaDataX , } packet repeatCount { char[ 255 ] uint8x `" ++ [233]%N ++ runes_of_ascii "` , } MetaData pack { As Foo , }")).
Eval vm_compute in ("<<<M1180>>>" ++ check (runes_of_ascii "MetaData leftPad { chars MetaDataX , } packet repeatCount { char[ 255 ] uint8x `" ++ [233]%N ++ runes_of_ascii "` , } MetaData pack
// c
{ As Foo , }")).
Eval vm_compute in ("<<<M300>>>" ++ check (runes_of_ascii "packet
Logon  { repeat u {zchar { zchar[ 007
] a1
`` ,  x_y_z@calculatedFrom(
//
// " ++ [128512]%N ++ runes_of_ascii " emoji
""{,}""
    ), }, } ,}
")).
Eval vm_compute in ("<<<M962>>>" ++ check (runes_of_ascii "packet A {
    Inner {
        u8 x `tab
	x`,
        Deep {
            u8 y `tab
	x`,
        },
    },
}")).
Eval vm_compute in ("<<<M913>>>" ++ check (runes_of_ascii "packet A {
  match k as n {
    [1, 22, ""c c"", 4, 5, ""f"", 7, 8, ""i"", 10, 11, ""l""] : B
    2 : C
  },
}")).
Eval vm_compute in ("<<<M854>>>" ++ check (runes_of_ascii "packet A {
  match k as n {
    [""a"", ""bb"", ""c c"", ""d"", ""e"", ""f"", ""g"", ""h""] : B,
    2 : C
  },
}")).
Eval vm_compute in ("<<<M558>>>" ++ check (runes_of_ascii "
packet
    asx asx {match u128 as lengthOf
{
//	t
// `tick` ""quote"" 'q'
255 : x ,
    } ,	}")).
Eval vm_compute in ("<<<M645>>>" ++ check (runes_of_ascii "
packet
    asx {match u128 as lengthOf
{
//	t
// `tick` ""quote"" 'q'
255 : a" ++ [769]%N ++ runes_of_ascii "b ,
    } ,	}")).
Eval vm_compute in ("<<<M609>>>" ++ check (runes_of_ascii "
packet
    asx {match u128 as lengthOf
{
//	t
// `tick` ""quote"" 'q'
255 : x }
    , ,	}")).
Eval vm_compute in ("<<<M1695>>>" ++ check (runes_of_ascii "options {
    Z9_ = '\x00'
}

packet trueish {
    // " ++ [128512]%N ++ runes_of_ascii " emoji
    u16 calculatedFrom,
}")).
Eval vm_compute in ("<<<M553>>>" ++ check (runes_of_ascii "

    asx {match u128 as lengthOf
{
//	t
// `tick` ""quote"" 'q'
255 : x ,
    } ,	}")).
Eval vm_compute in ("<<<M972>>>" ++ check (runes_of_ascii "packet A {
    u32 crc @calculatedFrom(""\
""),
    @calculatedFrom(""\
"") u8 y,
}")).
Eval vm_compute in ("<<<M827>>>" ++ check (runes_of_ascii "packet A {
  match k as n {
    [1, 22, 007, 4, 5, 66] : B
    2 : C
  },
}")).
Eval vm_compute in ("<<<M42>>>" ++ check (runes_of_ascii "
packet roots
    { len leftPad `// not a comment`	,} packet packetx{}")).
Eval vm_compute in ("<<<M851>>>" ++ check (runes_of_ascii "packet A { Inner { match k as n { [1,22,007,4,5,66,7] : B, }, }, }")).
Eval vm_compute in ("<<<M189>>>" ++ check (runes_of_ascii "
packet
i64_ { @tag( 0123456789 ) repeat u16 stringy
,
    }")).
Eval vm_compute in ("<<<M1751>>>" ++ check (runes_of_ascii "

  root

    packet
    chars	{
i16
    leftPad	,  }
")).
Eval vm_compute in ("<<<M1814>>>" ++ check (runes_of_ascii "packet A {
    u8 x `a
            b
          c`,
}")).
Eval vm_compute in ("<<<M1704>>>" ++ check (runes_of_ascii "
packet

    A { u8
    x `d" ++ [8239]%N ++ runes_of_ascii "`
, 	 // c" ++ [8239]%N ++ runes_of_ascii "
    }

")).
Eval vm_compute in ("<<<M233>>>" ++ check (runes_of_ascii "MetaData _x { i64 u128	, Packet Header, } 	 ")).
Eval vm_compute in ("<<<M1240>>>" ++ check (runes_of_ascii "root packet P {
    char c,
    u8 x,
}
")).
Eval vm_compute in ("<<<M54>>>" ++ check (runes_of_ascii "options
{ T= '0' ;A= u8 ;
    } 	 ")).
Eval vm_compute in ("<<<M738>>>" ++ check (runes_of_ascii "\B1ss""~3@|Nr!9$[0mx>ti>t+Fp_cN&")).
Eval vm_compute in ("<<<M1657>>>" ++ check (runes_of_ascii "// c" ++ [65279]%N ++ runes_of_ascii "
		packet A
    {
    }
")).
Eval vm_compute in ("<<<M338>>>" ++ check (runes_of_ascii "root packet
msg_type { }
")).
Eval vm_compute in ("<<<M1064>>>" ++ check (runes_of_ascii "packet A {
}// a// b")).
Eval vm_compute in ("<<<M1041>>>" ++ check (runes_of_ascii "packet A {
}
// c 	")).
Eval vm_compute in ("<<<M1007>>>" ++ check (runes_of_ascii "// c" ++ [8202]%N ++ runes_of_ascii "
packet A {
}")).
Eval vm_compute in ("<<<M979>>>" ++ check (runes_of_ascii "packet A {
}// c" ++ [12288]%N)).
Eval vm_compute in ("<<<M1749>>>" ++ check (runes_of_ascii "MetaData tag {
}")).
Eval vm_compute in ("<<<M1891>>>" ++ check (runes_of_ascii "
// c x")).
Eval vm_compute in ("<<<M765>>>" ++ check (runes_of_ascii "/" ++ [65533; 65533; 65533]%N)).
