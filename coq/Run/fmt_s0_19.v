From FP Require Import Lexer Parser ShowPT Digest Formatter.
From Coq Require Import String List NArith.
Import ListNotations.
Open Scope string_scope.
Set Printing Width 100000000.
Set Printing Depth 100000000.
Definition show_fres (r : fres) : string :=
  match r with
  | FOk s => "OK:" ++ sh_escaped s ""
  | FErr s => "ERR:" ++ sh_escaped s ""
  | FPanic p => "PANIC:" ++ p
  end.
Definition check (rs : list rune) : string := digest (show_fres (format_res rs)).
Definition full (rs : list rune) : string := show_fres (format_res rs).
Eval vm_compute in ("<<<M5>>>" ++ check (runes_of_ascii "MetaData  asx {char[] MetaDataX ,
lengthOf Z9_	, crc
    Foo ,char[ 4294967296]
BodyLength , Foo leftPad `doc`, tag // a // b
u128 , } root packet
    stringy { // trailing space 
match Header as
    repeatCount	{ [ ""{,}""] :
Header
/// triple
//
,255 :repeatCount , 00 :pack, 1 : trueish
    , 7
    : A }
    ,
T
    {Z9_
`
` ,
} ,
    int16 o
@calculatedFrom(
""it's""
) `line1
line2`	, match zchar
as As{ ""CRC32"" :	a1, 42: Header [ 10
    //
    ] : zchar // trailing space 
,
    }// " ++ [128512]%N ++ runes_of_ascii " emoji
, @tag( 42 )repeat i64_{
    // c
    char[00 ] _x `{ , }` ,
}
,repeat //x
char[] uint8x
`crlf
line` ,@leftPad
(	'\x00'
    ) @tag( 7 )
    int32
// a // b
// @lengthOf(
repeatCount
    @calculatedFrom(
""x y"" )
`// not a comment` , u32 zchar
    `
` , repeat stringy { i8i8 lengthOf
, } , // packet A { u8 x, }
@calculatedFrom(  ""abc"" ) @lengthOf( tag ) @lengthOf( /// triple
rootA )  char[3	] // c
rootA`" ++ [233]%N ++ runes_of_ascii "` ,// c
}MetaData crc
{
float32
asx `" ++ [233]%N ++ runes_of_ascii "` ,	string i64_// " ++ [128512]%N ++ runes_of_ascii " emoji
,
    }
root packet Packet
    //
    {charz @lengthOf( zchar) ,	f32
    f32a `{ , }` // a // b
, i64 matchKey @lengthOf( leftPad )
    , string trueish, @leftPad (  '0')
    // trailing space 
    tag@lengthOf( // a // b
string_ ) `doc` , match stringy
// @lengthOf(
// @lengthOf(
as calculatedFrom
    { [
0123456789 ]: repeatCount
//	t
//
,} ,// trailing space 
char[
3]
Header ,
int64 MetaDataX
,	@leftPad( ) len { packetx @lengthOf(chars ) `` ,
    }, @rightPad ( '0'
    )  x_y_z
,
} options{ rootA
// packet A { u8 x, }
//x
= '0'
; Foo =char
    ;A
    = zchar[ 0123456789 ]
// " ++ [27880; 37322]%N ++ runes_of_ascii "
//x
;packetx = """ ++ [233]%N ++ runes_of_ascii "t" ++ [233]%N ++ runes_of_ascii """
float = true } //x")).
Eval vm_compute in ("<<<M225>>>" ++ check (runes_of_ascii "packet T
    // " ++ [128512]%N ++ runes_of_ascii " emoji
    { match repeatCount as
Packet {
    ""packet"" : msg_type , 00 :
    Foo
    ,""" ++ [128512]%N ++ runes_of_ascii """ : trueish, """": repeatCount
    [ // packet A { u8 x, }
4294967296 , 65535 ] :	u ,	}, @calculatedFrom( ""a\\"" )
    float32 len @lengthOf(// " ++ [128512]%N ++ runes_of_ascii " emoji
string_
    ), stringy Pad, roots{ repeat x_y_z
    `// not a comment`
, T
`" ++ [233]%N ++ runes_of_ascii "` , }, @tag(
007 )  _x
{// " ++ [128512]%N ++ runes_of_ascii " emoji
char[] body
@calculatedFrom( """ ++ [233]%N ++ runes_of_ascii "t" ++ [233]%N ++ runes_of_ascii """
    //	t
    ) ,repeat Pad// packet A { u8 x, }
``
// c
/// triple
, }
    //x
    , match	u as packetx{// `tick` ""quote"" 'q'
[ ""// no comment"" ,
007]	: T
, [  ""\" ++ [233]%N ++ runes_of_ascii """// " ++ [27880; 37322]%N ++ runes_of_ascii "
] :// trailing space 
u8x } , @rightPad( ) int8 _x , @lengthOf(
A	)match/// triple
crc
as metadata { [ 00,
    //	t
    ""a\""b"" ,3
    , 1
    ,
10 ] : Packet , //	t
[
4294967296	, ""abc"" , """"] // @lengthOf(
:
// `tick` ""quote"" 'q'
// " ++ [27880; 37322]%N ++ runes_of_ascii "
a1 , """ ++ [28040; 24687]%N ++ runes_of_ascii """ // `tick` ""quote"" 'q'
:
    repeatCount  , } , }options { }MetaData Header
{  trueish Pad ,
    } MetaData Z9_ { char[]
metadata ,
// " ++ [128512]%N ++ runes_of_ascii " emoji
// packet A { u8 x, }
Header A
`doc`
// a // b
// a // b
, //x
uint32 // " ++ [27880; 37322]%N ++ runes_of_ascii "
packetx ,
int16 uint8x
    //
    , Header// @lengthOf(
leftPad
    , // packet A { u8 x, }
}
// trailing space 
")).
Eval vm_compute in ("<<<M1725>>>" ++ check (runes_of_ascii "// top
options {
    // c1
    LittleEndian = false;// c5
    ArrayPrefixLenType = u8;// c9
    FixedStringPadFromLeft = true;
    FixedStringPadChar = '0';// c17a
    // c17b
}// c18

packet Heartbeat {
    // c21
    string lastPx,// c24
    uint8 Qty,// c27
    i64 Acct,
    // c30
    char[4] Ref,
}// c36

packet Fill {
    // c39a
    // c39b
    uint8 Ref,// c42a
    // c42b
    Heartbeat,
    // c44
    f32 OrderId,// c47
    repeat f32 x,
}// c52

root packet Order {
    // c56a
    // c56b
    zchar[2] OrderId,
    // c61
    zchar[2] Acct,
    // c66
    zchar[1] Note,// c71a
    // c71b
    zchar[9] Qty,
    // c76
    string price,
    // c79
    string tag7,
    u32 x,
    // c85
    match x as Body {
        // c90
        123 : Fill,
        // c94
        112 : Heartbeat,
        // c98a
        // c98b
    },// c100a
    // c100b
    u32 seqNo @calculatedFrom(""CRC32""),
    // c106
}
// c107")).
Eval vm_compute in ("<<<M1681>>>" ++ check (runes_of_ascii "options {
    // " ++ [27880; 37322]%N ++ runes_of_ascii "
    //x
    float = char[];
    Header = false
    //
    /// triple
}

// `tick` ""quote"" 'q'
options {
    x = char[];
}

MetaData i64_ {
    f64 As `
    `,
    repeatCount MetaDataX,
    repeatCount u128,
    metadata msg_type `tab	here`,
}

packet options1 {
    repeat char[0123456789] T,
    @tag(65535)
    //x
    @calculatedFrom(""CRC32"")
    @calculatedFrom(""" ++ [28040; 24687]%N ++ runes_of_ascii """)
    repeat string Logon,
    @lengthOf(u128)
    stringy {
        string_ x,
    },
    @tag(10)
    u64 tag @lengthOf(roots),
    Foo @lengthOf(Foo) `// not a comment`,
    string pack `a\`,
    match A as charz {
        [3] : x,
    },
    @tag(42)
    f64 msg_type @lengthOf(trueish),
    match pack as options1 {
        """ ++ [28040; 24687]%N ++ runes_of_ascii """ : string_,
        [65535, 7, ""a\""b"", 7] : f32a,
        4294967296 : o,
    },
    char[] falsey,
}// " ++ [128512]%N ++ runes_of_ascii " emoji")).
Eval vm_compute in ("<<<M1359>>>" ++ check (runes_of_ascii "options {
    StringPrefixLenType = u16;
    ArrayPrefixLenType = u32;
    FixedStringPadFromLeft = true;
    FixedStringPadChar = '0';
}
packet Cancel {
}
packet Party {
}
packet Logon {
}
packet Ack {
}
packet Logout {
    repeat InSym87 {
        InClordid94 {
            string clOrdID,
        },
        string Px,
        i16 Qty,
        repeat InCount71 {
            repeat Cancel,
            uint16 Tail,
            char[2] x,
            repeat string Ref,
        },
        Cancel,
    },
}
root packet Order {
    repeat string tag7,
    @leftPad(' ') char[3] Px,
    u8 Qty,
    match Qty as Body {
        [28, 62] : Logon,
        148 : Ack,
        88 : Party,
        184 : Cancel,
    },
    u16 Note @calculatedFrom(""CR\
C32""),
}
")).
Eval vm_compute in ("<<<M1860>>>" ++ check (runes_of_ascii "options {
}

packet i8i8 {
    @tag(3)
    x @calculatedFrom(""it's""),
    @lengthOf(f32a)
    match rootA as uint8x {
        0 : string_,
        42 : Packet,
    },
    @leftPad('\x00')
    i64_ packetx `u8 x,`,
    @calculatedFrom(""x y"")
    matchKey {
        len,
    },
    @lengthOf(matchKey)
    @calculatedFrom(""abc"")
    @lengthOf(x_y_z)
    /// triple
    repeat metadata `line1
        line2`,
    lengthOf repeatCount,/// triple
    int32 roots @calculatedFrom(""`tick`"") `" ++ [233]%N ++ runes_of_ascii "`,
    zchar[1] Packet @calculatedFrom(""// no comment""),
}

packet options1 {
    @lengthOf(uint8x)
    A @calculatedFrom(""it's"") `doc`,
}

root packet crc {
    char[65535] chars,
}")).
Eval vm_compute in ("<<<M1551>>>" ++ check (runes_of_ascii "

  packet stringy

//	t

	//
{ 
repeat

T// trailing space 
    {
    u64  lengthOf  `tab	here`	,
repeat
_x
{
    match
calculatedFrom	as  Header {	[ """ ++ [233]%N ++ runes_of_ascii "t" ++ [233]%N ++ runes_of_ascii """

]: _x
    ,	// @lengthOf(
[
""packet"" ]

    : MetaDataX

    ,255
: u128
    , 42
	:
A

""// no comment""
    : body, } ,
repeat

    crc
    Foo ,	charz , }
    ,
    zchar[  1] i8i8@calculatedFrom(	""x y"" )
    ,	uint8x 
    // " ++ [27880; 37322]%N ++ runes_of_ascii "
	Pad

`line1
line2` , }

    , @lengthOf( u)  char[ 	 //x
	  4294967296 
]	crc ,	@tag(

    007 	 //x

)
repeatCount, 
repeat
//x
  char[]
	Header

    ,
	@rightPad ( )
char[]string_

    `a\` ,  }

")).
Eval vm_compute in ("<<<M1509>>>" ++ check (runes_of_ascii "  options
{	StringPrefixLenType
=
u8 ;ArrayPrefixLenType
=
	u8 ;
	FixedStringPadFromLeft= false	; FixedStringPadChar =
    ' ' ; }packet Ack
{
    char[]
	tag7 ,	}packet
Reject  { InSym61 {

    repeat Ack 
,	zchar[

4 ]
	f1 
, },}packet Logout
	{

    char[ 4 ] clOrdID,	}

root packet Cancel
{
	@leftPad
    (

    ' '  )

char[
10]price

,
u8
    x ,

u32
    venue 
@lengthOf( Body )

,

match

x

    as
    Body
{	[  92
,
175
]	:
	Logout , 26
	: Reject ,
	144 :

    Ack
    , 
},
u16
count  @calculatedFrom(""CRC32""
    ),
	}

")).
Eval vm_compute in ("<<<M1237>>>" ++ check (runes_of_ascii "// top
options // c0
{ // c1
zchar // c2
= // c3
true // c4
; // c5
Pad // c6
= // c7
char[ // c8
00 // c9
] // c10
a1 // c11
= // c12
uint32 // c13
BodyLength // c14
= // c15
true // c16
; // c17
} // c18
root // c19
packet // c20
T // c21
{ // c22
@lengthOf( // c23
repeatCount // c24
) // c25
@tag( // c26
1 // c27
) // c28
@calculatedFrom( // c29
""a	b"" // c30
) // c31
string // c32
stringy // c33
@calculatedFrom( // c34
""\n"" // c35
) // c36
`u8 x,` // c37
, // c38
} // c39
")).
Eval vm_compute in ("<<<M161>>>" ++ check (runes_of_ascii "packet rootA{ options1 _x , u64
    Header , } packet lengthOf {
    @rightPad ( ' '	)
@lengthOf( u128 // trailing space 
)	@calculatedFrom(	""a\""b"" )  A {string i64_	`it's`,
//	t
// trailing space 
uint8
body
, match pack as u {
// @lengthOf(
// trailing space 
00 : charz , 00: int ,3
: falsey 255 :body
    ,
[0123456789 ] :x_y_z ,
// a // b
//
}
,
} ,
} MetaData chars{ u128
    zchar , char[ 42  ]
// a // b
// a // b
metadata
    , }
")).
Eval vm_compute in ("<<<M306>>>" ++ check (runes_of_ascii "packet rootA { @tag(0123456789 ) options1 {int32 uint8x
    `u8 x,`
    , u8x
//x
// packet A { u8 x, }
{
    match Header as
    metadata {[	10 ]
: pack } ,
    } , f64 // `tick` ""quote"" 'q'
chars , }
, @lengthOf( body ) u64
// @lengthOf(
//
Z9_ , }
MetaData repeatCount
    {zchar[10 ] string_ , f64 A
, u32 BodyLength , zchar[ 00 ] uint8x ,
    trueish
leftPad,char[ 65535  ] rootA	, }
//	t
")).
Eval vm_compute in ("<<<M1886>>>" ++ check (runes_of_ascii "packet a1 {
    @calculatedFrom(""`tick`"")
    uint32 charz `crlf
    line`,
    // c
    //x
    a1 `tab	here`,
}

options {
    // " ++ [27880; 37322]%N ++ runes_of_ascii "
    // " ++ [128512]%N ++ runes_of_ascii " emoji
    stringy = 255;
    metadata = 4294967296
    pack = string;
    crc = string;
}

root packet crc {
    @tag(42)
    @calculatedFrom(""abc"")
    @rightPad('0')
    u128 u8x,
    @lengthOf(len)
    uint16 int,
}")).
Eval vm_compute in ("<<<M323>>>" ++ check (runes_of_ascii "options{ }
MetaData  string_ // `tick` ""quote"" 'q'
{ u32
matchKey `u8 x,`,
    string  MetaDataX , uint8
Logon, uint64 options1
, char[ 00 ] len
// `tick` ""quote"" 'q'
// trailing space 
`tab	here` , u8
options1
, }// a // b
packet a1 { chars ,
char[]
i64_ @lengthOf(
    // " ++ [27880; 37322]%N ++ runes_of_ascii "
    stringy
) ,char T,repeat i8 charz
`a\`
,
}
")).
Eval vm_compute in ("<<<M205>>>" ++ check (runes_of_ascii "  root packet
    chars{ string T `say ""hi""`
, @tag(
    1  ) body { repeat o { f64 Packet @calculatedFrom( ""a\\"") ,  } , }	,
} packet pack
// @lengthOf(
// a // b
{
@tag( 4294967296 // `tick` ""quote"" 'q'
) repeat char[]
    Logon
    // trailing space 
    , repeat
BodyLength len ,
    // c
    }")).
Eval vm_compute in ("<<<M1360>>>" ++ check (runes_of_ascii "options {
    LittleEndian = false;
    StringPrefixLenType = u16;
}
packet Heartbeat {
    @rightPad('0') char[7] seqNo,
    uint64 Tail,
    i16 Flags,
    u16 msgKind,
}
root packet Reject {
    zchar[3] tag7,
    repeat Heartbeat,
    repeat string clOrdID,
}
")).
Eval vm_compute in ("<<<M190>>>" ++ check (runes_of_ascii "packet // @lengthOf(
f32a
    {	@rightPad (
    '0' ) @lengthOf( BodyLength ) uint8 Foo ``,
    //x
    char[]
    options1 @calculatedFrom(
    ""it's"" ) ,@tag(255/// triple
) uint64
    Header @calculatedFrom( ""abc""
) `
`
,}

")).
Eval vm_compute in ("<<<M207>>>" ++ check (runes_of_ascii "
MetaData chars { } options
{ As
= true ;As // `tick` ""quote"" 'q'
= false; stringy
= true} packet repeatCount  {string
    float@lengthOf(
    matchKey )
// packet A { u8 x, }
//x
`say ""hi""` ,
}
")).
Eval vm_compute in ("<<<M1739>>>" ++ check (runes_of_ascii "packet A {
    match k as n {
        [
            ""a"", ""bb"", ""c c"", ""d"", ""e"",
            ""f"", ""g"", ""h"", ""i"", ""j"",
            ""k"", ""l""
        ] : B,
        2 : C,
    },
}")).
Eval vm_compute in ("<<<M431>>>" ++ check (runes_of_ascii "packet uint8x
{ match pack
    as msg_type	{
    0123456789 0123456789 :	float
}
,
} packet //	t
a1
    { } options {packetx
    = '\x00'	; u128= ""a	b""  ; }
")).
Eval vm_compute in ("<<<M458>>>" ++ check (runes_of_ascii "packet uint8x
{ match pack
    as msg_type	{
    0123456789 :	float
}
,
char[] packet //	t
a1
    { } options {packetx
    = '\x00'	; u128= ""a	b""  ; }
")).
Eval vm_compute in ("<<<M496>>>" ++ check (runes_of_ascii "packet uint8x
{ match pack
    as msg_type	{
    0123456789 :	float
}
,
} packet //	t
a1
    { } options {packetx
    = = '\x00'	; u128= ""a	b""  ; }
")).
Eval vm_compute in ("<<<M417>>>" ++ check (runes_of_ascii "packet uint8x
{ match pack
    msg_type as	{
    0123456789 :	float
}
,
} packet //	t
a1
    { } options {packetx
    = '\x00'	; u128= ""a	b""  ; }
")).
Eval vm_compute in ("<<<M445>>>" ++ check (runes_of_ascii "packet uint8x
{ match pack
    as msg_type	{
    0123456789 :	float

,
} packet //	t
a1
    { } options {packetx
    = '\x00'	; u128= ""a	b""  ; }
")).
Eval vm_compute in ("<<<M1667>>>" ++ check (runes_of_ascii "packet A {
    Inner {
        u8 x `tab
                	x`,
        Deep {
            u8 y `tab
                        	x`,
        },
    },
}")).
Eval vm_compute in ("<<<M657>>>" ++ check (runes_of_ascii "// @lengthOf(
packet i8i8 { u128 o , }
options { MetaDataX = true;
    BodyLength =""packet"" x_y_z= 007
?crc //x
= ""abc"" ;
    msg_type =
i16 }")).
Eval vm_compute in ("<<<M663>>>" ++ check (runes_of_ascii "// @lengthOf(
packet i8i8 { u128 o , }
options { MetaDataX = true;
    BodyLength =""packet"" x_y_z= 007
crc //x
= ""abc"" ;
    msg_type =
i16 ")).
Eval vm_compute in ("<<<M1443>>>" ++ check (runes_of_ascii "packet A {
    match k as n {
        [
            1, 22, ""c c"", 4, 5,
            ""f"", 7, 8, ""i""
        ] : B,
        2 : C,
    },
}")).
Eval vm_compute in ("<<<M1464>>>" ++ check (runes_of_ascii "MetaData leftPad {
    chars MetaDataX,
}

packet repeatCount {
    // c
    char[255] uint8x `" ++ [233]%N ++ runes_of_ascii "`,
}

MetaData pack {
    As Foo,
}")).
Eval vm_compute in ("<<<M504>>>" ++ check (runes_of_ascii "packet uint8x
{ match pack
    as msg_type	{
    0123456789 :	float
}
,
} packet //	t
a1
    { } options {packetx
    =")).
Eval vm_compute in ("<<<M1149>>>" ++ check (runes_of_ascii "MetaData leftPad { chars // c
MetaDataX , } packet repeatCount { char[ 255 ] uint8x `" ++ [233]%N ++ runes_of_ascii "` , } MetaData pack { As Foo , }")).
Eval vm_compute in ("<<<M1181>>>" ++ check (runes_of_ascii "MetaData leftPad { chars MetaDataX , } packet repeatCount { char[ 255 ] uint8x `" ++ [233]%N ++ runes_of_ascii "` , } MetaData pack { // c
As Foo , }")).
Eval vm_compute in ("<<<M136>>>" ++ check (runes_of_ascii "// a // b
options { // " ++ [128512]%N ++ runes_of_ascii " emoji
calculatedFrom=
'\x00'	; BodyLength = true ;asx // packet A { u8 x, }
= true }")).
Eval vm_compute in ("<<<M1279>>>" ++ check (runes_of_ascii "options {
    LittleEndian = true;
}
root packet P {
    u16 a,
    u32 Sum @calculatedFrom(""CR\
C32""),
}
")).
Eval vm_compute in ("<<<M920>>>" ++ check (runes_of_ascii "packet A {
    Inner {
        u8 x `a
b`,
        Deep {
            u8 y `a
b`,
        },
    },
}")).
Eval vm_compute in ("<<<M258>>>" ++ check (runes_of_ascii "packet
    metadata{ u32 // `tick` ""quote"" 'q'
Packet `say ""hi""`
,
    // trailing space 
    }")).
Eval vm_compute in ("<<<M863>>>" ++ check (runes_of_ascii "packet A {
  match k as n {
    [""a"", ""bb"", 007, ""d"", ""e"", 66, ""g"", ""h""] : B
    2 : C
  },
}")).
Eval vm_compute in ("<<<M842>>>" ++ check (runes_of_ascii "packet A {
  match k as n {
    [""a"", ""bb"", ""c c"", ""d"", ""e"", ""f"", ""g""] : B
    2 : C
  },
}")).
Eval vm_compute in ("<<<M609>>>" ++ check (runes_of_ascii "
packet
    asx {match u128 as lengthOf
{
//	t
// `tick` ""quote"" 'q'
255 : x }
    , ,	}")).
Eval vm_compute in ("<<<M1086>>>" ++ check (runes_of_ascii "packet A { match k as n // a
 { // b
 1 // c
 : // d
 B // e
 , // f
 } // g
 , // h
 }")).
Eval vm_compute in ("<<<M1717>>>" ++ check (runes_of_ascii "packet order_item {
    u8 a,
}

root packet new_order {
    order_item,
    u8 x,
}")).
Eval vm_compute in ("<<<M1632>>>" ++ check (runes_of_ascii "packet

    body { 
    // c
    i32 f32a
    `{ , }`

,
    } options

{ 
}
")).
Eval vm_compute in ("<<<M826>>>" ++ check (runes_of_ascii "packet A {
  match k as n {
    [1, 22, 007, 4, 5, 66] : B,
    2 : C
  },
}")).
Eval vm_compute in ("<<<M960>>>" ++ check (runes_of_ascii "packet A {
    B b `tab
	x`,
    B `tab
	x`,
    repeat B bs `tab
	x`,
}")).
Eval vm_compute in ("<<<M1280>>>" ++ check (runes_of_ascii "root packet P {
    u16 a,
    u32 Sum @calculatedFrom(""CRC32""),
}
")).
Eval vm_compute in ("<<<M783>>>" ++ check (runes_of_ascii "packet A {
  match k as n {
    [1, ""bb""] : B
    2 : C
  },
}")).
Eval vm_compute in ("<<<M1617>>>" ++ check (runes_of_ascii "root packet string_ {
    char[] matchKey,
}

packet x {
}")).
Eval vm_compute in ("<<<M1078>>>" ++ check (runes_of_ascii "// a
MetaData M {} // b
// c
MetaData N {} // d
// e")).
Eval vm_compute in ("<<<M181>>>" ++ check (runes_of_ascii "options{ packetx=// " ++ [27880; 37322]%N ++ runes_of_ascii "
string Logon // " ++ [27880; 37322]%N ++ runes_of_ascii "
=  int8}")).
Eval vm_compute in ("<<<M1221>>>" ++ check (runes_of_ascii "// top
packet // c0
x // c1
{ // c2
} // c3
")).
Eval vm_compute in ("<<<M1742>>>" ++ check (runes_of_ascii "
options {a
	= 
""x\
y""; b
    =""x\
y""
}
")).
Eval vm_compute in ("<<<M1092>>>" ++ check (runes_of_ascii "root // a
 packet // b
 A // c
 { }")).
Eval vm_compute in ("<<<M1609>>>" ++ check (runes_of_ascii "packet A {
    u8 x `d" ++ [6158]%N ++ runes_of_ascii "`,// c" ++ [6158]%N ++ runes_of_ascii "
}")).
Eval vm_compute in ("<<<M1038>>>" ++ check (runes_of_ascii "packet A {
 u8 x `d" ++ [12]%N ++ runes_of_ascii "`, // c" ++ [12]%N ++ runes_of_ascii "
}")).
Eval vm_compute in ("<<<M1901>>>" ++ check (runes_of_ascii "
packet	x { // c
      }

")).
Eval vm_compute in ("<<<M1112>>>" ++ check (runes_of_ascii "MetaData tag { }
// c
")).
Eval vm_compute in ("<<<M1836>>>" ++ check (runes_of_ascii "packet leftPad  {}
")).
Eval vm_compute in ("<<<M996>>>" ++ check (runes_of_ascii "packet A {
}
// c" ++ [5760]%N)).
Eval vm_compute in ("<<<M1611>>>" ++ check (runes_of_ascii "// trailing space ")).
Eval vm_compute in ("<<<M11>>>" ++ check (runes_of_ascii "packet zchar { }")).
Eval vm_compute in ("<<<M749>>>" ++ check ([1; 65533]%N ++ runes_of_ascii ">&EQX" ++ [65533]%N ++ runes_of_ascii "P" ++ [65533; 65533]%N)).
Eval vm_compute in ("<<<M1764>>>" ++ check (runes_of_ascii "// " ++ [27880; 37322]%N)).
