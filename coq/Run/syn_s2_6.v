From FP Require Import Lexer Parser ShowPT Digest.
From Coq Require Import String List NArith.
Import ListNotations.
Open Scope string_scope.
Set Printing Width 100000000.
Set Printing Depth 100000000.
Definition nl : string := String (Ascii.ascii_of_nat 10) EmptyString.
Definition model_lex (rs : list rune) : string := show_toks (lex rs).
Definition model_parse (rs : list rune) : string :=
  show_pt (match lex rs with Some ts => parse ts | None => None end).
(* coqc is slow at printing long strings: digests first (Digest.v), full texts on demand *)
Definition check (rs : list rune) : string :=
  digest (model_lex rs) ++ " " ++ digest (model_parse rs).
Definition full (rs : list rune) : string := model_lex rs ++ nl ++ model_parse rs.
Definition terms (ts : list tok) (t : pt) : string :=
  digest (show_toks (Some ts)) ++ " " ++ digest (show_pt (Some t)) ++ " " ++ digest (show_pt (parse ts)).
Definition terms_full (ts : list tok) (t : pt) : string :=
  show_toks (Some ts) ++ nl ++ show_pt (Some t) ++ nl ++ show_pt (parse ts).
Eval vm_compute in ("<<<M6>>>" ++ check (runes_of_ascii "MetaData metadata{
leftPad i64_ ,
    // " ++ [128512]%N ++ runes_of_ascii " emoji
    u8
    stringy `
` , char[] trueish , }
")).
Eval vm_compute in ("<<<T6>>>" ++ terms [mkTok 37 "MetaData" 1 0 false; mkTok 42 "metadata" 1 9 false; mkTok 2 "{" 1 17 false; mkTok 42 "leftPad" 2 0 false; mkTok 42 "i64_" 2 8 false; mkTok 40 "," 2 13 false; mkTok 44 (string_of_bytes [47; 47; 32; 240; 159; 152; 128; 32; 101; 109; 111; 106; 105]%N) 3 4 true; mkTok 20 "u8" 4 4 false; mkTok 42 "stringy" 5 4 false; mkTok 43 (string_of_bytes [96; 10; 96]%N) 5 12 false; mkTok 40 "," 6 2 false; mkTok 16 "char[]" 6 4 false; mkTok 42 "trueish" 6 11 false; mkTok 40 "," 6 19 false; mkTok 3 "}" 6 21 false; mkTok 0 "<EOF>" 7 0 false] (mkPacket (mkPtok 37 "MetaData" 1 0 0) (Some (mkPtok 3 "}" 6 21 14)) [(DMeta (mkMetaDef (mkSpan (mkPtok 37 "MetaData" 1 0 0) (mkPtok 3 "}" 6 21 14)) (mkPtok 37 "MetaData" 1 0 0) (mkPtok 42 "metadata" 1 9 1) (mkPtok 2 "{" 1 17 2) [(MIRef (mkRefMetaDecl (mkSpan (mkPtok 42 "leftPad" 2 0 3) (mkPtok 40 "," 2 13 5)) (mkPtok 42 "leftPad" 2 0 3) (mkPtok 42 "i64_" 2 8 4) None (mkPtok 40 "," 2 13 5))); (MIDecl (mkMetaDecl (mkSpan (mkPtok 20 "u8" 4 4 7) (mkPtok 40 "," 6 2 10)) (TyBasic (mkSpan (mkPtok 20 "u8" 4 4 7) (mkPtok 20 "u8" 4 4 7)) (mkBasicType (mkSpan (mkPtok 20 "u8" 4 4 7) (mkPtok 20 "u8" 4 4 7)) (mkPtok 20 "u8" 4 4 7))) (mkPtok 42 "stringy" 5 4 8) (Some (mkPtok 43 (string_of_bytes [96; 10; 96]%N) 5 12 9)) (mkPtok 40 "," 6 2 10))); (MIDecl (mkMetaDecl (mkSpan (mkPtok 16 "char[]" 6 4 11) (mkPtok 40 "," 6 19 13)) (TyDynamic (mkSpan (mkPtok 16 "char[]" 6 4 11) (mkPtok 16 "char[]" 6 4 11)) (mkDynamicString (mkSpan (mkPtok 16 "char[]" 6 4 11) (mkPtok 16 "char[]" 6 4 11)) (mkPtok 16 "char[]" 6 4 11))) (mkPtok 42 "trueish" 6 11 12) None (mkPtok 40 "," 6 19 13)))] (mkPtok 3 "}" 6 21 14)))])).
Eval vm_compute in ("<<<M16>>>" ++ check (runes_of_ascii "MetaData
    stringy
{ char[ 0] chars// @lengthOf(
`{ , }` , }")).
Eval vm_compute in ("<<<M26>>>" ++ check (runes_of_ascii "  packet lengthOf// " ++ [27880; 37322]%N ++ runes_of_ascii "
{ @leftPad(
)
    // a // b
    @tag( 7
//x
/// triple
)
u8 BodyLength ,
    char[ 1
] chars
`
`,
@tag( 00 )char[ 0]
    // packet A { u8 x, }
    Z9_ @lengthOf(
float) `u8 x,` ,
}")).
Eval vm_compute in ("<<<M36>>>" ++ check (runes_of_ascii "root packet
leftPad { match roots as packetx{
42 : chars, 255 : f32a , }
    , @rightPad
(	' ' ) // @lengthOf(
charz
    @lengthOf( packetx ) , i32 u8x  , uint8x
, } root packet x_y_z { u64 packetx
@lengthOf( stringy )
    ,
    @leftPad// " ++ [27880; 37322]%N ++ runes_of_ascii "
( ' '
    ) // packet A { u8 x, }
@rightPad ( '\x00'
    ) // trailing space 
@calculatedFrom(	""\" ++ [233]%N ++ runes_of_ascii """ ) uint8
MetaDataX@lengthOf(
    As
    ) ,@lengthOf(
rootA ) // c
float64 uint8x`say ""hi""` ,@leftPad ( ' ' ) repeat float64 Pad ,
    // packet A { u8 x, }
    }
")).
Eval vm_compute in ("<<<M46>>>" ++ check (@nil rune)).
Eval vm_compute in ("<<<M56>>>" ++ check (runes_of_ascii "  options{ u= ""a	b"" ; charz = true ;
    matchKey =//x
0123456789 u8x =
char[]
    // trailing space 
    Packet
=
false ; }
")).
Eval vm_compute in ("<<<M66>>>" ++ check (@nil rune)).
Eval vm_compute in ("<<<M76>>>" ++ check (runes_of_ascii "options{ BodyLength=
    '\x00' }options
{ } options {  Pad
    = ""\" ++ [233]%N ++ runes_of_ascii """  msg_type
= uint32 ; a1 = '0'  Foo =
    ' ' ; }")).
Eval vm_compute in ("<<<T76>>>" ++ terms [mkTok 1 "options" 1 0 false; mkTok 2 "{" 1 7 false; mkTok 42 "BodyLength" 1 9 false; mkTok 4 "=" 1 19 false; mkTok 33 "'\x00'" 2 4 false; mkTok 3 "}" 2 11 false; mkTok 1 "options" 2 12 false; mkTok 2 "{" 3 0 false; mkTok 3 "}" 3 2 false; mkTok 1 "options" 3 4 false; mkTok 2 "{" 3 12 false; mkTok 42 "Pad" 3 15 false; mkTok 4 "=" 4 4 false; mkTok 31 (string_of_bytes [34; 92; 195; 169; 34]%N) 4 6 false; mkTok 42 "msg_type" 4 12 false; mkTok 4 "=" 5 0 false; mkTok 22 "uint32" 5 2 false; mkTok 41 ";" 5 9 false; mkTok 42 "a1" 5 11 false; mkTok 4 "=" 5 14 false; mkTok 33 "'0'" 5 16 false; mkTok 42 "Foo" 5 21 false; mkTok 4 "=" 5 25 false; mkTok 33 "' '" 6 4 false; mkTok 41 ";" 6 8 false; mkTok 3 "}" 6 10 false; mkTok 0 "<EOF>" 6 11 false] (mkPacket (mkPtok 1 "options" 1 0 0) (Some (mkPtok 3 "}" 6 10 25)) [(DOption (mkOptionDef (mkSpan (mkPtok 1 "options" 1 0 0) (mkPtok 3 "}" 2 11 5)) (mkPtok 1 "options" 1 0 0) (mkPtok 2 "{" 1 7 1) [(mkOptionDecl (mkSpan (mkPtok 42 "BodyLength" 1 9 2) (mkPtok 33 "'\x00'" 2 4 4)) (mkPtok 42 "BodyLength" 1 9 2) (mkPtok 4 "=" 1 19 3) (VPaddingChar (mkSpan (mkPtok 33 "'\x00'" 2 4 4) (mkPtok 33 "'\x00'" 2 4 4)) (mkPtok 33 "'\x00'" 2 4 4)) None)] (mkPtok 3 "}" 2 11 5))); (DOption (mkOptionDef (mkSpan (mkPtok 1 "options" 2 12 6) (mkPtok 3 "}" 3 2 8)) (mkPtok 1 "options" 2 12 6) (mkPtok 2 "{" 3 0 7) [] (mkPtok 3 "}" 3 2 8))); (DOption (mkOptionDef (mkSpan (mkPtok 1 "options" 3 4 9) (mkPtok 3 "}" 6 10 25)) (mkPtok 1 "options" 3 4 9) (mkPtok 2 "{" 3 12 10) [(mkOptionDecl (mkSpan (mkPtok 42 "Pad" 3 15 11) (mkPtok 31 (string_of_bytes [34; 92; 195; 169; 34]%N) 4 6 13)) (mkPtok 42 "Pad" 3 15 11) (mkPtok 4 "=" 4 4 12) (VString (mkSpan (mkPtok 31 (string_of_bytes [34; 92; 195; 169; 34]%N) 4 6 13) (mkPtok 31 (string_of_bytes [34; 92; 195; 169; 34]%N) 4 6 13)) (mkPtok 31 (string_of_bytes [34; 92; 195; 169; 34]%N) 4 6 13)) None); (mkOptionDecl (mkSpan (mkPtok 42 "msg_type" 4 12 14) (mkPtok 41 ";" 5 9 17)) (mkPtok 42 "msg_type" 4 12 14) (mkPtok 4 "=" 5 0 15) (VType (mkSpan (mkPtok 22 "uint32" 5 2 16) (mkPtok 22 "uint32" 5 2 16)) (TyBasic (mkSpan (mkPtok 22 "uint32" 5 2 16) (mkPtok 22 "uint32" 5 2 16)) (mkBasicType (mkSpan (mkPtok 22 "uint32" 5 2 16) (mkPtok 22 "uint32" 5 2 16)) (mkPtok 22 "uint32" 5 2 16)))) (Some (mkPtok 41 ";" 5 9 17))); (mkOptionDecl (mkSpan (mkPtok 42 "a1" 5 11 18) (mkPtok 33 "'0'" 5 16 20)) (mkPtok 42 "a1" 5 11 18) (mkPtok 4 "=" 5 14 19) (VPaddingChar (mkSpan (mkPtok 33 "'0'" 5 16 20) (mkPtok 33 "'0'" 5 16 20)) (mkPtok 33 "'0'" 5 16 20)) None); (mkOptionDecl (mkSpan (mkPtok 42 "Foo" 5 21 21) (mkPtok 41 ";" 6 8 24)) (mkPtok 42 "Foo" 5 21 21) (mkPtok 4 "=" 5 25 22) (VPaddingChar (mkSpan (mkPtok 33 "' '" 6 4 23) (mkPtok 33 "' '" 6 4 23)) (mkPtok 33 "' '" 6 4 23)) (Some (mkPtok 41 ";" 6 8 24)))] (mkPtok 3 "}" 6 10 25)))])).
Eval vm_compute in ("<<<M86>>>" ++ check (runes_of_ascii "// `tick` ""quote"" 'q'
packet	rootA{ }
root
packet x_y_z {
// `tick` ""quote"" 'q'
// packet A { u8 x, }
@calculatedFrom( """ ++ [28040; 24687]%N ++ runes_of_ascii """  )// a // b
@tag( 4294967296) @leftPad	(	'\x00')  match Z9_ as len // c
{0: x_y_z /// triple
, [ 255 , 007 ] : string_["""" ,
""`tick`"" , """" ,
10 ,""it's"" ,
    """ ++ [233]%N ++ runes_of_ascii "t" ++ [233]%N ++ runes_of_ascii """ ]	: BodyLength	, 4294967296 : u,4294967296
    // " ++ [27880; 37322]%N ++ runes_of_ascii "
    :	Header ,
""packet"": trueish , }
,
match int as asx { 007 : leftPad , ""abc"":
_x
65535 :stringy ""CRC32"" : int , 255 : A }, match asx as a1  {	[ 0123456789 ]: crc,""packet"" : leftPad ,
    ""\n"" : //x
crc
, 10
    //x
    :
// a // b
// a // b
chars ,},
    i16
rootA @calculatedFrom(
""abc"" ) , @lengthOf(Pad)  rootA As`" ++ [233]%N ++ runes_of_ascii "`,match i64_
    //	t
    as packetx{	[ """ ++ [28040; 24687]%N ++ runes_of_ascii """ ] :repeatCount
, 65535 : i8i8 ,
    } , // a // b
stringy len , }packet o{
} packet
Header {	_x
string_ ,
@lengthOf(
    u8x )
lengthOf `it's`
, } options
    { A // trailing space 
= ""it's"";
zchar
= ""packet"" ; // " ++ [128512]%N ++ runes_of_ascii " emoji
len
= 4294967296 ; T= ""abc""int
    =
3 ; }
")).
Eval vm_compute in ("<<<M96>>>" ++ check (runes_of_ascii "options{ calculatedFrom
= '0'; }
root
    // " ++ [128512]%N ++ runes_of_ascii " emoji
    packet metadata{i64 float@calculatedFrom( ""1"" )	,	@rightPad ( // trailing space 
) Logon u `crlf
line` , // trailing space 
falsey Packet `line1
line2` , u32	a1  `tab	here`, } // " ++ [128512]%N ++ runes_of_ascii " emoji
options { lengthOf
    // packet A { u8 x, }
    = '\x00'
msg_type =
uint8;repeatCount
    // `tick` ""quote"" 'q'
    =
0123456789 ; } //x")).
Eval vm_compute in ("<<<M106>>>" ++ check (runes_of_ascii "packet roots {
    } packet metadata {
    @lengthOf( u) @tag(00 )
@lengthOf( Pad )  T @lengthOf( pack ),@rightPad
( '0' )lengthOf , @lengthOf(  u) char[]
    //
    A ,
match  Packet as // `tick` ""quote"" 'q'
a1{007
: leftPad 65535
    :// trailing space 
msg_type , ""a\\"" :
// " ++ [128512]%N ++ runes_of_ascii " emoji
// @lengthOf(
Z9_ """ ++ [233]%N ++ runes_of_ascii "t" ++ [233]%N ++ runes_of_ascii """
: A , ""// no comment""	:x_y_z,
4294967296 : a1
    ,/// triple
} ,f32	T
    , f64 roots	@lengthOf( int ), }")).
Eval vm_compute in ("<<<M116>>>" ++ check (runes_of_ascii "//	t
packet// `tick` ""quote"" 'q'
crc {@tag( /// triple
10
) uint16/// triple
matchKey @calculatedFrom( ""\" ++ [233]%N ++ runes_of_ascii """ ) , @calculatedFrom(
""x y"" )
u16
    // a // b
    Packet  @calculatedFrom(""" ++ [233]%N ++ runes_of_ascii "t" ++ [233]%N ++ runes_of_ascii """) ,string Pad
    // @lengthOf(
    @lengthOf(  roots) ,//x
@tag( 42 ) repeat float{
    match
    // @lengthOf(
    roots
//	t
//
as Z9_
    { 42: packetx // c
, } // a // b
, Pad { pack , uint32 u, repeat Z9_ {
    packetx
float ,
    } , uint64 msg_type
    `it's` ,
} ,Header`" ++ [233]%N ++ runes_of_ascii "`
    , //	t
char[]stringy ,}	, match // packet A { u8 x, }
u as a1 //	t
{ [ 7
]// " ++ [27880; 37322]%N ++ runes_of_ascii "
:	zchar
    ,[255,""a\""b"",  0123456789 , 4294967296
    ,
1
,
    42, 0 ]
:Foo
    [  ""{,}"" ] : a1 , ""// no comment""
    :
A ,0
    : u8x, 255 : Packet
}	, repeat i64 chars ,
repeat char[ 0123456789 ]repeatCount
,
body  Foo, @calculatedFrom(
""\n""
    )char[]
int
    @lengthOf(	len
    )  , @tag( 3) char[]
A
`doc`
    ,
}
packet a1  { @rightPad( '0'  )
    // `tick` ""quote"" 'q'
    float // a // b
@lengthOf(
stringy
    ) `doc`
,} options
    {	As	= 7 crc = ""{,}""
    u =""it's"" zchar= '\x00'
}
")).
Eval vm_compute in ("<<<M126>>>" ++ check (runes_of_ascii "MetaData  trueish {
    chars	u8x // trailing space 
,
A chars ,i8i8 asx `tab	here`
    ,char[ 3 ]
body	`" ++ [233]%N ++ runes_of_ascii "`,
    zchar[	00	]
u128 ,
}
/// triple
")).
Eval vm_compute in ("<<<M136>>>" ++ check (runes_of_ascii "packet i8i8
{}
")).
Eval vm_compute in ("<<<M146>>>" ++ check (runes_of_ascii "root packet x_y_z{
    }packet calculatedFrom {char[] Foo @lengthOf( Pad
    ) ,} root packet // @lengthOf(
u128 // @lengthOf(
{} packet u8x { @lengthOf(asx ) match charz
    as msg_type { // @lengthOf(
[ 0123456789
    ] : i64_	,
    [ 0]
: a1  }
,f32 Pad , //x
match /// triple
falsey as BodyLength
    { """ ++ [233]%N ++ runes_of_ascii "t" ++ [233]%N ++ runes_of_ascii """
:// trailing space 
charz 10 :
    roots ,
10
: x_y_z// " ++ [27880; 37322]%N ++ runes_of_ascii "
,
    ""`tick`"" :_x ,""// no comment""
: chars [
    10,
    1
]:	Foo ,	}	, repeat u64	u8x
    `doc`
,
    @lengthOf(
body) uint64 options1  `` ,
@calculatedFrom(
""a\""b"")
    // trailing space 
    match  Packet as x_y_z{[ 007 ]
    // a // b
    :
tag  ,[ ""a\""b"" ] : rootA , //	t
"""" : x_y_z // " ++ [27880; 37322]%N ++ runes_of_ascii "
65535 :
asx  ,	""" ++ [233]%N ++ runes_of_ascii "t" ++ [233]%N ++ runes_of_ascii """ : o  , } , }
")).
Eval vm_compute in ("<<<T146>>>" ++ terms [mkTok 34 "root" 1 0 false; mkTok 35 "packet" 1 5 false; mkTok 42 "x_y_z" 1 12 false; mkTok 2 "{" 1 17 false; mkTok 3 "}" 2 4 false; mkTok 35 "packet" 2 5 false; mkTok 42 "calculatedFrom" 2 12 false; mkTok 2 "{" 2 27 false; mkTok 16 "char[]" 2 28 false; mkTok 42 "Foo" 2 35 false; mkTok 7 "@lengthOf(" 2 39 false; mkTok 42 "Pad" 2 50 false; mkTok 6 ")" 3 4 false; mkTok 40 "," 3 6 false; mkTok 3 "}" 3 7 false; mkTok 34 "root" 3 9 false; mkTok 35 "packet" 3 14 false; mkTok 44 "// @lengthOf(" 3 21 true; mkTok 42 "u128" 4 0 false; mkTok 44 "// @lengthOf(" 4 5 true; mkTok 2 "{" 5 0 false; mkTok 3 "}" 5 1 false; mkTok 35 "packet" 5 3 false; mkTok 42 "u8x" 5 10 false; mkTok 2 "{" 5 14 false; mkTok 7 "@lengthOf(" 5 16 false; mkTok 42 "asx" 5 26 false; mkTok 6 ")" 5 30 false; mkTok 38 "match" 5 32 false; mkTok 42 "charz" 5 38 false; mkTok 17 "as" 6 4 false; mkTok 42 "msg_type" 6 7 false; mkTok 2 "{" 6 16 false; mkTok 44 "// @lengthOf(" 6 18 true; mkTok 18 "[" 7 0 false; mkTok 30 "0123456789" 7 2 false; mkTok 13 "]" 8 4 false; mkTok 39 ":" 8 6 false; mkTok 42 "i64_" 8 8 false; mkTok 40 "," 8 13 false; mkTok 18 "[" 9 4 false; mkTok 30 "0" 9 6 false; mkTok 13 "]" 9 7 false; mkTok 39 ":" 10 0 false; mkTok 42 "a1" 10 2 false; mkTok 3 "}" 10 6 false; mkTok 40 "," 11 0 false; mkTok 28 "f32" 11 1 false; mkTok 42 "Pad" 11 5 false; mkTok 40 "," 11 9 false; mkTok 44 "//x" 11 11 true; mkTok 38 "match" 12 0 false; mkTok 44 "/// triple" 12 6 true; mkTok 42 "falsey" 13 0 false; mkTok 17 "as" 13 7 false; mkTok 42 "BodyLength" 13 10 false; mkTok 2 "{" 14 4 false; mkTok 31 (string_of_bytes [34; 195; 169; 116; 195; 169; 34]%N) 14 6 false; mkTok 39 ":" 15 0 false; mkTok 44 "// trailing space " 15 1 true; mkTok 42 "charz" 16 0 false; mkTok 30 "10" 16 6 false; mkTok 39 ":" 16 9 false; mkTok 42 "roots" 17 4 false; mkTok 40 "," 17 10 false; mkTok 30 "10" 18 0 false; mkTok 39 ":" 19 0 false; mkTok 42 "x_y_z" 19 2 false; mkTok 44 (string_of_bytes [47; 47; 32; 230; 179; 168; 233; 135; 138]%N) 19 7 true; mkTok 40 "," 20 0 false; mkTok 31 """`tick`""" 21 4 false; mkTok 39 ":" 21 13 false; mkTok 42 "_x" 21 14 false; mkTok 40 "," 21 17 false; mkTok 31 """// no comment""" 21 18 false; mkTok 39 ":" 22 0 false; mkTok 42 "chars" 22 2 false; mkTok 18 "[" 22 8 false; mkTok 30 "10" 23 4 false; mkTok 40 "," 23 6 false; mkTok 30 "1" 24 4 false; mkTok 13 "]" 25 0 false; mkTok 39 ":" 25 1 false; mkTok 42 "Foo" 25 3 false; mkTok 40 "," 25 7 false; mkTok 3 "}" 25 9 false; mkTok 40 "," 25 11 false; mkTok 36 "repeat" 25 13 false; mkTok 23 "u64" 25 20 false; mkTok 42 "u8x" 25 24 false; mkTok 43 "`doc`" 26 4 false; mkTok 40 "," 27 0 false; mkTok 7 "@lengthOf(" 28 4 false; mkTok 42 "body" 29 0 false; mkTok 6 ")" 29 4 false; mkTok 23 "uint64" 29 6 false; mkTok 42 "options1" 29 13 false; mkTok 43 "``" 29 23 false; mkTok 40 "," 29 26 false; mkTok 5 "@calculatedFrom(" 30 0 false; mkTok 31 """a\""b""" 31 0 false; mkTok 6 ")" 31 6 false; mkTok 44 "// trailing space " 32 4 true; mkTok 38 "match" 33 4 false; mkTok 42 "Packet" 33 11 false; mkTok 17 "as" 33 18 false; mkTok 42 "x_y_z" 33 21 false; mkTok 2 "{" 33 26 false; mkTok 18 "[" 33 27 false; mkTok 30 "007" 33 29 false; mkTok 13 "]" 33 33 false; mkTok 44 "// a // b" 34 4 true; mkTok 39 ":" 35 4 false; mkTok 42 "tag" 36 0 false; mkTok 40 "," 36 5 false; mkTok 18 "[" 36 6 false; mkTok 31 """a\""b""" 36 8 false; mkTok 13 "]" 36 15 false; mkTok 39 ":" 36 17 false; mkTok 42 "rootA" 36 19 false; mkTok 40 "," 36 25 false; mkTok 44 (string_of_bytes [47; 47; 9; 116]%N) 36 27 true; mkTok 31 """""" 37 0 false; mkTok 39 ":" 37 3 false; mkTok 42 "x_y_z" 37 5 false; mkTok 44 (string_of_bytes [47; 47; 32; 230; 179; 168; 233; 135; 138]%N) 37 11 true; mkTok 30 "65535" 38 0 false; mkTok 39 ":" 38 6 false; mkTok 42 "asx" 39 0 false; mkTok 40 "," 39 5 false; mkTok 31 (string_of_bytes [34; 195; 169; 116; 195; 169; 34]%N) 39 7 false; mkTok 39 ":" 39 13 false; mkTok 42 "o" 39 15 false; mkTok 40 "," 39 18 false; mkTok 3 "}" 39 20 false; mkTok 40 "," 39 22 false; mkTok 3 "}" 39 24 false; mkTok 0 "<EOF>" 40 0 false] (mkPacket (mkPtok 34 "root" 1 0 0) (Some (mkPtok 3 "}" 39 24 136)) [(DPacket (mkPacketDef (mkSpan (mkPtok 34 "root" 1 0 0) (mkPtok 3 "}" 2 4 4)) (Some (mkPtok 34 "root" 1 0 0)) (mkPtok 35 "packet" 1 5 1) (mkPtok 42 "x_y_z" 1 12 2) (mkPtok 2 "{" 1 17 3) [] (mkPtok 3 "}" 2 4 4))); (DPacket (mkPacketDef (mkSpan (mkPtok 35 "packet" 2 5 5) (mkPtok 3 "}" 3 7 14)) None (mkPtok 35 "packet" 2 5 5) (mkPtok 42 "calculatedFrom" 2 12 6) (mkPtok 2 "{" 2 27 7) [(mkFieldWithAttr (mkSpan (mkPtok 16 "char[]" 2 28 8) (mkPtok 40 "," 3 6 13)) [] (LengthField (mkSpan (mkPtok 16 "char[]" 2 28 8) (mkPtok 40 "," 3 6 13)) (mkLengthFieldDecl (mkSpan (mkPtok 16 "char[]" 2 28 8) (mkPtok 40 "," 3 6 13)) (Some (TyDynamic (mkSpan (mkPtok 16 "char[]" 2 28 8) (mkPtok 16 "char[]" 2 28 8)) (mkDynamicString (mkSpan (mkPtok 16 "char[]" 2 28 8) (mkPtok 16 "char[]" 2 28 8)) (mkPtok 16 "char[]" 2 28 8)))) (mkPtok 42 "Foo" 2 35 9) (mkLengthOf (mkSpan (mkPtok 7 "@lengthOf(" 2 39 10) (mkPtok 6 ")" 3 4 12)) (mkPtok 7 "@lengthOf(" 2 39 10) (mkPtok 42 "Pad" 2 50 11) (mkPtok 6 ")" 3 4 12)) None (mkPtok 40 "," 3 6 13))))] (mkPtok 3 "}" 3 7 14))); (DPacket (mkPacketDef (mkSpan (mkPtok 34 "root" 3 9 15) (mkPtok 3 "}" 5 1 21)) (Some (mkPtok 34 "root" 3 9 15)) (mkPtok 35 "packet" 3 14 16) (mkPtok 42 "u128" 4 0 18) (mkPtok 2 "{" 5 0 20) [] (mkPtok 3 "}" 5 1 21))); (DPacket (mkPacketDef (mkSpan (mkPtok 35 "packet" 5 3 22) (mkPtok 3 "}" 39 24 136)) None (mkPtok 35 "packet" 5 3 22) (mkPtok 42 "u8x" 5 10 23) (mkPtok 2 "{" 5 14 24) [(mkFieldWithAttr (mkSpan (mkPtok 7 "@lengthOf(" 5 16 25) (mkPtok 40 "," 11 0 46)) [(FALengthOf (mkSpan (mkPtok 7 "@lengthOf(" 5 16 25) (mkPtok 6 ")" 5 30 27)) (mkLengthOf (mkSpan (mkPtok 7 "@lengthOf(" 5 16 25) (mkPtok 6 ")" 5 30 27)) (mkPtok 7 "@lengthOf(" 5 16 25) (mkPtok 42 "asx" 5 26 26) (mkPtok 6 ")" 5 30 27)))] (MatchField (mkSpan (mkPtok 38 "match" 5 32 28) (mkPtok 40 "," 11 0 46)) (mkMatchFieldDecl (mkSpan (mkPtok 38 "match" 5 32 28) (mkPtok 3 "}" 10 6 45)) (mkPtok 38 "match" 5 32 28) (mkPtok 42 "charz" 5 38 29) (mkPtok 17 "as" 6 4 30) (mkPtok 42 "msg_type" 6 7 31) (mkPtok 2 "{" 6 16 32) [(mkMatchPair (mkSpan (mkPtok 18 "[" 7 0 34) (mkPtok 40 "," 8 13 39)) (MKList (mkKeyList (mkSpan (mkPtok 18 "[" 7 0 34) (mkPtok 13 "]" 8 4 36)) (mkPtok 18 "[" 7 0 34) (mkPtok 30 "0123456789" 7 2 35) [] (mkPtok 13 "]" 8 4 36))) (mkPtok 39 ":" 8 6 37) (mkPtok 42 "i64_" 8 8 38) (Some (mkPtok 40 "," 8 13 39))); (mkMatchPair (mkSpan (mkPtok 18 "[" 9 4 40) (mkPtok 42 "a1" 10 2 44)) (MKList (mkKeyList (mkSpan (mkPtok 18 "[" 9 4 40) (mkPtok 13 "]" 9 7 42)) (mkPtok 18 "[" 9 4 40) (mkPtok 30 "0" 9 6 41) [] (mkPtok 13 "]" 9 7 42))) (mkPtok 39 ":" 10 0 43) (mkPtok 42 "a1" 10 2 44) None)] (mkPtok 3 "}" 10 6 45)) (mkPtok 40 "," 11 0 46))); (mkFieldWithAttr (mkSpan (mkPtok 28 "f32" 11 1 47) (mkPtok 40 "," 11 9 49)) [] (MetaField (mkSpan (mkPtok 28 "f32" 11 1 47) (mkPtok 40 "," 11 9 49)) None (mkMetaDecl (mkSpan (mkPtok 28 "f32" 11 1 47) (mkPtok 40 "," 11 9 49)) (TyBasic (mkSpan (mkPtok 28 "f32" 11 1 47) (mkPtok 28 "f32" 11 1 47)) (mkBasicType (mkSpan (mkPtok 28 "f32" 11 1 47) (mkPtok 28 "f32" 11 1 47)) (mkPtok 28 "f32" 11 1 47))) (mkPtok 42 "Pad" 11 5 48) None (mkPtok 40 "," 11 9 49)))); (mkFieldWithAttr (mkSpan (mkPtok 38 "match" 12 0 51) (mkPtok 40 "," 25 11 86)) [] (MatchField (mkSpan (mkPtok 38 "match" 12 0 51) (mkPtok 40 "," 25 11 86)) (mkMatchFieldDecl (mkSpan (mkPtok 38 "match" 12 0 51) (mkPtok 3 "}" 25 9 85)) (mkPtok 38 "match" 12 0 51) (mkPtok 42 "falsey" 13 0 53) (mkPtok 17 "as" 13 7 54) (mkPtok 42 "BodyLength" 13 10 55) (mkPtok 2 "{" 14 4 56) [(mkMatchPair (mkSpan (mkPtok 31 (string_of_bytes [34; 195; 169; 116; 195; 169; 34]%N) 14 6 57) (mkPtok 42 "charz" 16 0 60)) (MKString (mkPtok 31 (string_of_bytes [34; 195; 169; 116; 195; 169; 34]%N) 14 6 57)) (mkPtok 39 ":" 15 0 58) (mkPtok 42 "charz" 16 0 60) None); (mkMatchPair (mkSpan (mkPtok 30 "10" 16 6 61) (mkPtok 40 "," 17 10 64)) (MKDigits (mkPtok 30 "10" 16 6 61)) (mkPtok 39 ":" 16 9 62) (mkPtok 42 "roots" 17 4 63) (Some (mkPtok 40 "," 17 10 64))); (mkMatchPair (mkSpan (mkPtok 30 "10" 18 0 65) (mkPtok 40 "," 20 0 69)) (MKDigits (mkPtok 30 "10" 18 0 65)) (mkPtok 39 ":" 19 0 66) (mkPtok 42 "x_y_z" 19 2 67) (Some (mkPtok 40 "," 20 0 69))); (mkMatchPair (mkSpan (mkPtok 31 """`tick`""" 21 4 70) (mkPtok 40 "," 21 17 73)) (MKString (mkPtok 31 """`tick`""" 21 4 70)) (mkPtok 39 ":" 21 13 71) (mkPtok 42 "_x" 21 14 72) (Some (mkPtok 40 "," 21 17 73))); (mkMatchPair (mkSpan (mkPtok 31 """// no comment""" 21 18 74) (mkPtok 42 "chars" 22 2 76)) (MKString (mkPtok 31 """// no comment""" 21 18 74)) (mkPtok 39 ":" 22 0 75) (mkPtok 42 "chars" 22 2 76) None); (mkMatchPair (mkSpan (mkPtok 18 "[" 22 8 77) (mkPtok 40 "," 25 7 84)) (MKList (mkKeyList (mkSpan (mkPtok 18 "[" 22 8 77) (mkPtok 13 "]" 25 0 81)) (mkPtok 18 "[" 22 8 77) (mkPtok 30 "10" 23 4 78) [((mkPtok 40 "," 23 6 79), (mkPtok 30 "1" 24 4 80))] (mkPtok 13 "]" 25 0 81))) (mkPtok 39 ":" 25 1 82) (mkPtok 42 "Foo" 25 3 83) (Some (mkPtok 40 "," 25 7 84)))] (mkPtok 3 "}" 25 9 85)) (mkPtok 40 "," 25 11 86))); (mkFieldWithAttr (mkSpan (mkPtok 36 "repeat" 25 13 87) (mkPtok 40 "," 27 0 91)) [] (MetaField (mkSpan (mkPtok 36 "repeat" 25 13 87) (mkPtok 40 "," 27 0 91)) (Some (mkPtok 36 "repeat" 25 13 87)) (mkMetaDecl (mkSpan (mkPtok 23 "u64" 25 20 88) (mkPtok 40 "," 27 0 91)) (TyBasic (mkSpan (mkPtok 23 "u64" 25 20 88) (mkPtok 23 "u64" 25 20 88)) (mkBasicType (mkSpan (mkPtok 23 "u64" 25 20 88) (mkPtok 23 "u64" 25 20 88)) (mkPtok 23 "u64" 25 20 88))) (mkPtok 42 "u8x" 25 24 89) (Some (mkPtok 43 "`doc`" 26 4 90)) (mkPtok 40 "," 27 0 91)))); (mkFieldWithAttr (mkSpan (mkPtok 7 "@lengthOf(" 28 4 92) (mkPtok 40 "," 29 26 98)) [(FALengthOf (mkSpan (mkPtok 7 "@lengthOf(" 28 4 92) (mkPtok 6 ")" 29 4 94)) (mkLengthOf (mkSpan (mkPtok 7 "@lengthOf(" 28 4 92) (mkPtok 6 ")" 29 4 94)) (mkPtok 7 "@lengthOf(" 28 4 92) (mkPtok 42 "body" 29 0 93) (mkPtok 6 ")" 29 4 94)))] (MetaField (mkSpan (mkPtok 23 "uint64" 29 6 95) (mkPtok 40 "," 29 26 98)) None (mkMetaDecl (mkSpan (mkPtok 23 "uint64" 29 6 95) (mkPtok 40 "," 29 26 98)) (TyBasic (mkSpan (mkPtok 23 "uint64" 29 6 95) (mkPtok 23 "uint64" 29 6 95)) (mkBasicType (mkSpan (mkPtok 23 "uint64" 29 6 95) (mkPtok 23 "uint64" 29 6 95)) (mkPtok 23 "uint64" 29 6 95))) (mkPtok 42 "options1" 29 13 96) (Some (mkPtok 43 "``" 29 23 97)) (mkPtok 40 "," 29 26 98)))); (mkFieldWithAttr (mkSpan (mkPtok 5 "@calculatedFrom(" 30 0 99) (mkPtok 40 "," 39 22 135)) [(FACalculatedFrom (mkSpan (mkPtok 5 "@calculatedFrom(" 30 0 99) (mkPtok 6 ")" 31 6 101)) (mkCalculatedFrom (mkSpan (mkPtok 5 "@calculatedFrom(" 30 0 99) (mkPtok 6 ")" 31 6 101)) (mkPtok 5 "@calculatedFrom(" 30 0 99) (mkPtok 31 """a\""b""" 31 0 100) (mkPtok 6 ")" 31 6 101)))] (MatchField (mkSpan (mkPtok 38 "match" 33 4 103) (mkPtok 40 "," 39 22 135)) (mkMatchFieldDecl (mkSpan (mkPtok 38 "match" 33 4 103) (mkPtok 3 "}" 39 20 134)) (mkPtok 38 "match" 33 4 103) (mkPtok 42 "Packet" 33 11 104) (mkPtok 17 "as" 33 18 105) (mkPtok 42 "x_y_z" 33 21 106) (mkPtok 2 "{" 33 26 107) [(mkMatchPair (mkSpan (mkPtok 18 "[" 33 27 108) (mkPtok 40 "," 36 5 114)) (MKList (mkKeyList (mkSpan (mkPtok 18 "[" 33 27 108) (mkPtok 13 "]" 33 33 110)) (mkPtok 18 "[" 33 27 108) (mkPtok 30 "007" 33 29 109) [] (mkPtok 13 "]" 33 33 110))) (mkPtok 39 ":" 35 4 112) (mkPtok 42 "tag" 36 0 113) (Some (mkPtok 40 "," 36 5 114))); (mkMatchPair (mkSpan (mkPtok 18 "[" 36 6 115) (mkPtok 40 "," 36 25 120)) (MKList (mkKeyList (mkSpan (mkPtok 18 "[" 36 6 115) (mkPtok 13 "]" 36 15 117)) (mkPtok 18 "[" 36 6 115) (mkPtok 31 """a\""b""" 36 8 116) [] (mkPtok 13 "]" 36 15 117))) (mkPtok 39 ":" 36 17 118) (mkPtok 42 "rootA" 36 19 119) (Some (mkPtok 40 "," 36 25 120))); (mkMatchPair (mkSpan (mkPtok 31 """""" 37 0 122) (mkPtok 42 "x_y_z" 37 5 124)) (MKString (mkPtok 31 """""" 37 0 122)) (mkPtok 39 ":" 37 3 123) (mkPtok 42 "x_y_z" 37 5 124) None); (mkMatchPair (mkSpan (mkPtok 30 "65535" 38 0 126) (mkPtok 40 "," 39 5 129)) (MKDigits (mkPtok 30 "65535" 38 0 126)) (mkPtok 39 ":" 38 6 127) (mkPtok 42 "asx" 39 0 128) (Some (mkPtok 40 "," 39 5 129))); (mkMatchPair (mkSpan (mkPtok 31 (string_of_bytes [34; 195; 169; 116; 195; 169; 34]%N) 39 7 130) (mkPtok 40 "," 39 18 133)) (MKString (mkPtok 31 (string_of_bytes [34; 195; 169; 116; 195; 169; 34]%N) 39 7 130)) (mkPtok 39 ":" 39 13 131) (mkPtok 42 "o" 39 15 132) (Some (mkPtok 40 "," 39 18 133)))] (mkPtok 3 "}" 39 20 134)) (mkPtok 40 "," 39 22 135)))] (mkPtok 3 "}" 39 24 136)))])).
Eval vm_compute in ("<<<M156>>>" ++ check (runes_of_ascii "root packet stringy { @tag( 7 ) @tag( 1
    ) @rightPad (
'\x00'
    )Foo // `tick` ""quote"" 'q'
x`crlf
line` ,@calculatedFrom(  ""a	b"" ) roots //x
`it's`// @lengthOf(
,
    }")).
Eval vm_compute in ("<<<M166>>>" ++ check (runes_of_ascii "packet  zchar
    { char[]  string_ ,
    // @lengthOf(
    msg_type , match
    roots // " ++ [27880; 37322]%N ++ runes_of_ascii "
as metadata { 3: Logon
, [""a\\"",""1"" , 3 ,
00
    , ""a\\"" ,7, 65535 , 3 ]
    :x_y_z
    , 0123456789 : o , ""\" ++ [233]%N ++ runes_of_ascii """ : x ""CRC32"" :
Foo,
    }, char Header`u8 x,` ,
    } //	t
options	{
    } packet
    //	t
    As{zchar[
    // @lengthOf(
    10	] roots ,
    char[7 ]
calculatedFrom //
@lengthOf( body ), char stringy	@lengthOf(metadata /// triple
) ,
Pad // trailing space 
u128 , @calculatedFrom( ""it's"") Z9_ ,  match
falsey	as /// triple
MetaDataX
    { 4294967296 : float,//x
3 :
    Pad 1
:T,} /// triple
,
    @tag(
3 ) char[]
A @calculatedFrom( ""it's""
) ,  o tag ,
@lengthOf( x // packet A { u8 x, }
) zchar[ 4294967296
    ]
    rootA // @lengthOf(
`
` , } root packet Logon {	repeat _x {leftPad  `crlf
line` ,
}
    , repeat i8 Packet  , MetaDataX`// not a comment`// " ++ [27880; 37322]%N ++ runes_of_ascii "
, asx`two words` ,
repeat lengthOf tag , @calculatedFrom( // `tick` ""quote"" 'q'
""CRC32"" ) // @lengthOf(
match repeatCount// packet A { u8 x, }
as
BodyLength { """ ++ [128512]%N ++ runes_of_ascii """ : len
[
    255
, ""a\\"", 0123456789 , ""CRC32"", // " ++ [128512]%N ++ runes_of_ascii " emoji
7, 42
    // a // b
    ]
: repeatCount
,
},
i64_ msg_type `crlf
line` , }
packet repeatCount{
    @calculatedFrom(
""a\""b"" )
    match
a1 as
    matchKey// packet A { u8 x, }
{00 : options1,
    4294967296
    : x_y_z , [3 ,
""a	b"" ,0123456789
] : i64_ ,
0 : leftPad ,""`tick`"" :int [""" ++ [28040; 24687]%N ++ runes_of_ascii """ // @lengthOf(
]
// trailing space 
/// triple
: Z9_, }
    , }
")).
Eval vm_compute in ("<<<M176>>>" ++ check (runes_of_ascii "packet uint8x { @lengthOf( Pad )
    Foo ,} root packet Foo  {
char[] i64_
    @calculatedFrom( ""a	b"" ) `u8 x,`
    // @lengthOf(
    , zchar[
    // trailing space 
    3]
    tag
@lengthOf( tag ), @lengthOf(	falsey) options1
//x
/// triple
@lengthOf(  repeatCount ) ,
string
matchKey `crlf
line` ,} packet metadata { //	t
uint32
    i8i8 , }
root packet
Header {
@lengthOf( _x ) @lengthOf(
A )metadata
    tag
    // trailing space 
    `
` ,x_y_z `tab	here`
    ,
    Pad // " ++ [128512]%N ++ runes_of_ascii " emoji
, @calculatedFrom(
    """ ++ [128512]%N ++ runes_of_ascii """ )
    //x
    repeat string f32a`crlf
line`, string packetx	@calculatedFrom( ""a\\""
)
    , }  packet
    // packet A { u8 x, }
    u8x { pack, @calculatedFrom( ""// no comment"" // `tick` ""quote"" 'q'
)packetx, match options1// trailing space 
as chars { ""1"" :
Logon
// a // b
// a // b
, 7 :
trueish } ,
match asx  as
    /// triple
    Logon {	[ 3 ]: _x , [
    ""// no comment"" , 7 , """ ++ [233]%N ++ runes_of_ascii "t" ++ [233]%N ++ runes_of_ascii """  ,""it's""
,1 ]
    : i8i8 // " ++ [27880; 37322]%N ++ runes_of_ascii "
[
/// triple
// " ++ [27880; 37322]%N ++ runes_of_ascii "
""1"" ] : T , } , } // a // b")).
Eval vm_compute in ("<<<M186>>>" ++ check (runes_of_ascii "packet
    A {
//	t
/// triple
repeat
char[] _x ,  }
")).
Eval vm_compute in ("<<<M196>>>" ++ check (runes_of_ascii "packet As
{
}
")).
Eval vm_compute in ("<<<M206>>>" ++ check (runes_of_ascii "options {
// c
//x
u128 = true ; Header // trailing space 
= ""packet""
    stringy =""CRC32"" A =
    '0' ;} packet calculatedFrom  { repeat
u128
    Logon ,
// packet A { u8 x, }
// " ++ [128512]%N ++ runes_of_ascii " emoji
}
packet body { @calculatedFrom( ""\" ++ [233]%N ++ runes_of_ascii """
)
    metadata
`a\`  ,
// c
// c
stringy{
    //	t
    uint8 A `tab	here` , repeat
    u
    // `tick` ""quote"" 'q'
    As
, /// triple
zchar[
65535]x_y_z@lengthOf(
crc ) //
, }  , @calculatedFrom(
    ""{,}"" )len /// triple
@lengthOf(	roots ) ,char[  7 ]BodyLength`{ , }` ,
    // c
    int64
    _x , @calculatedFrom(""it's""// " ++ [27880; 37322]%N ++ runes_of_ascii "
) match
pack as As { ""CRC32"": o
    ,
    } , zchar[ 4294967296]i64_@calculatedFrom( ""// no comment"" ) ,
}
")).
Eval vm_compute in ("<<<M216>>>" ++ check (runes_of_ascii "/// triple
packet Logon
{ char[
1
    ] T // packet A { u8 x, }
,repeat f32a{ repeat
    options1 , //x
zchar[ 007
    ]Z9_
    ,  u64 packetx, // @lengthOf(
charz  ,
} ,crc  Packet ,
@lengthOf( charz //x
) @leftPad (
    ' ' ) float64 i8i8`{ , }`
//	t
//x
, }
MetaData // a // b
a1  {
    u8 len  `say ""hi""` ,
len Logon //x
`` ,char[] pack
,
    char
    body, }
")).
Eval vm_compute in ("<<<T216>>>" ++ terms [mkTok 44 "/// triple" 1 0 true; mkTok 35 "packet" 2 0 false; mkTok 42 "Logon" 2 7 false; mkTok 2 "{" 3 0 false; mkTok 12 "char[" 3 2 false; mkTok 30 "1" 4 0 false; mkTok 13 "]" 5 4 false; mkTok 42 "T" 5 6 false; mkTok 44 "// packet A { u8 x, }" 5 8 true; mkTok 40 "," 6 0 false; mkTok 36 "repeat" 6 1 false; mkTok 42 "f32a" 6 8 false; mkTok 2 "{" 6 12 false; mkTok 36 "repeat" 6 14 false; mkTok 42 "options1" 7 4 false; mkTok 40 "," 7 13 false; mkTok 44 "//x" 7 15 true; mkTok 14 "zchar[" 8 0 false; mkTok 30 "007" 8 7 false; mkTok 13 "]" 9 4 false; mkTok 42 "Z9_" 9 5 false; mkTok 40 "," 10 4 false; mkTok 23 "u64" 10 7 false; mkTok 42 "packetx" 10 11 false; mkTok 40 "," 10 18 false; mkTok 44 "// @lengthOf(" 10 20 true; mkTok 42 "charz" 11 0 false; mkTok 40 "," 11 7 false; mkTok 3 "}" 12 0 false; mkTok 40 "," 12 2 false; mkTok 42 "crc" 12 3 false; mkTok 42 "Packet" 12 8 false; mkTok 40 "," 12 15 false; mkTok 7 "@lengthOf(" 13 0 false; mkTok 42 "charz" 13 11 false; mkTok 44 "//x" 13 17 true; mkTok 6 ")" 14 0 false; mkTok 32 "@leftPad" 14 2 false; mkTok 8 "(" 14 11 false; mkTok 33 "' '" 15 4 false; mkTok 6 ")" 15 8 false; mkTok 29 "float64" 15 10 false; mkTok 42 "i8i8" 15 18 false; mkTok 43 "`{ , }`" 15 22 false; mkTok 44 (string_of_bytes [47; 47; 9; 116]%N) 16 0 true; mkTok 44 "//x" 17 0 true; mkTok 40 "," 18 0 false; mkTok 3 "}" 18 2 false; mkTok 37 "MetaData" 19 0 false; mkTok 44 "// a // b" 19 9 true; mkTok 42 "a1" 20 0 false; mkTok 2 "{" 20 4 false; mkTok 20 "u8" 21 4 false; mkTok 42 "len" 21 7 false; mkTok 43 "`say ""hi""`" 21 12 false; mkTok 40 "," 21 23 false; mkTok 42 "len" 22 0 false; mkTok 42 "Logon" 22 4 false; mkTok 44 "//x" 22 10 true; mkTok 43 "``" 23 0 false; mkTok 40 "," 23 3 false; mkTok 16 "char[]" 23 4 false; mkTok 42 "pack" 23 11 false; mkTok 40 "," 24 0 false; mkTok 19 "char" 25 4 false; mkTok 42 "body" 26 4 false; mkTok 40 "," 26 8 false; mkTok 3 "}" 26 10 false; mkTok 0 "<EOF>" 27 0 false] (mkPacket (mkPtok 35 "packet" 2 0 1) (Some (mkPtok 3 "}" 26 10 67)) [(DPacket (mkPacketDef (mkSpan (mkPtok 35 "packet" 2 0 1) (mkPtok 3 "}" 18 2 47)) None (mkPtok 35 "packet" 2 0 1) (mkPtok 42 "Logon" 2 7 2) (mkPtok 2 "{" 3 0 3) [(mkFieldWithAttr (mkSpan (mkPtok 12 "char[" 3 2 4) (mkPtok 40 "," 6 0 9)) [] (MetaField (mkSpan (mkPtok 12 "char[" 3 2 4) (mkPtok 40 "," 6 0 9)) None (mkMetaDecl (mkSpan (mkPtok 12 "char[" 3 2 4) (mkPtok 40 "," 6 0 9)) (TyFixed (mkSpan (mkPtok 12 "char[" 3 2 4) (mkPtok 13 "]" 5 4 6)) (mkFixedString (mkSpan (mkPtok 12 "char[" 3 2 4) (mkPtok 13 "]" 5 4 6)) (mkPtok 12 "char[" 3 2 4) (mkPtok 30 "1" 4 0 5) (mkPtok 13 "]" 5 4 6))) (mkPtok 42 "T" 5 6 7) None (mkPtok 40 "," 6 0 9)))); (mkFieldWithAttr (mkSpan (mkPtok 36 "repeat" 6 1 10) (mkPtok 40 "," 12 2 29)) [] (InerObjectField (mkSpan (mkPtok 36 "repeat" 6 1 10) (mkPtok 40 "," 12 2 29)) (Some (mkPtok 36 "repeat" 6 1 10)) (InerObjectDecl (mkSpan (mkPtok 42 "f32a" 6 8 11) (mkPtok 3 "}" 12 0 28)) (mkPtok 42 "f32a" 6 8 11) (mkPtok 2 "{" 6 12 12) [(ObjectField (mkSpan (mkPtok 36 "repeat" 6 14 13) (mkPtok 40 "," 7 13 15)) (Some (mkPtok 36 "repeat" 6 14 13)) (mkPtok 42 "options1" 7 4 14) None None (mkPtok 40 "," 7 13 15)); (MetaField (mkSpan (mkPtok 14 "zchar[" 8 0 17) (mkPtok 40 "," 10 4 21)) None (mkMetaDecl (mkSpan (mkPtok 14 "zchar[" 8 0 17) (mkPtok 40 "," 10 4 21)) (TyFixed (mkSpan (mkPtok 14 "zchar[" 8 0 17) (mkPtok 13 "]" 9 4 19)) (mkFixedString (mkSpan (mkPtok 14 "zchar[" 8 0 17) (mkPtok 13 "]" 9 4 19)) (mkPtok 14 "zchar[" 8 0 17) (mkPtok 30 "007" 8 7 18) (mkPtok 13 "]" 9 4 19))) (mkPtok 42 "Z9_" 9 5 20) None (mkPtok 40 "," 10 4 21))); (MetaField (mkSpan (mkPtok 23 "u64" 10 7 22) (mkPtok 40 "," 10 18 24)) None (mkMetaDecl (mkSpan (mkPtok 23 "u64" 10 7 22) (mkPtok 40 "," 10 18 24)) (TyBasic (mkSpan (mkPtok 23 "u64" 10 7 22) (mkPtok 23 "u64" 10 7 22)) (mkBasicType (mkSpan (mkPtok 23 "u64" 10 7 22) (mkPtok 23 "u64" 10 7 22)) (mkPtok 23 "u64" 10 7 22))) (mkPtok 42 "packetx" 10 11 23) None (mkPtok 40 "," 10 18 24))); (ObjectField (mkSpan (mkPtok 42 "charz" 11 0 26) (mkPtok 40 "," 11 7 27)) None (mkPtok 42 "charz" 11 0 26) None None (mkPtok 40 "," 11 7 27))] (mkPtok 3 "}" 12 0 28)) (mkPtok 40 "," 12 2 29))); (mkFieldWithAttr (mkSpan (mkPtok 42 "crc" 12 3 30) (mkPtok 40 "," 12 15 32)) [] (ObjectField (mkSpan (mkPtok 42 "crc" 12 3 30) (mkPtok 40 "," 12 15 32)) None (mkPtok 42 "crc" 12 3 30) (Some (mkPtok 42 "Packet" 12 8 31)) None (mkPtok 40 "," 12 15 32))); (mkFieldWithAttr (mkSpan (mkPtok 7 "@lengthOf(" 13 0 33) (mkPtok 40 "," 18 0 46)) [(FALengthOf (mkSpan (mkPtok 7 "@lengthOf(" 13 0 33) (mkPtok 6 ")" 14 0 36)) (mkLengthOf (mkSpan (mkPtok 7 "@lengthOf(" 13 0 33) (mkPtok 6 ")" 14 0 36)) (mkPtok 7 "@lengthOf(" 13 0 33) (mkPtok 42 "charz" 13 11 34) (mkPtok 6 ")" 14 0 36))); (FAPadding (mkSpan (mkPtok 32 "@leftPad" 14 2 37) (mkPtok 6 ")" 15 8 40)) (mkPaddingAttr (mkSpan (mkPtok 32 "@leftPad" 14 2 37) (mkPtok 6 ")" 15 8 40)) (mkPtok 32 "@leftPad" 14 2 37) (mkPtok 8 "(" 14 11 38) (Some (mkPtok 33 "' '" 15 4 39)) (mkPtok 6 ")" 15 8 40)))] (MetaField (mkSpan (mkPtok 29 "float64" 15 10 41) (mkPtok 40 "," 18 0 46)) None (mkMetaDecl (mkSpan (mkPtok 29 "float64" 15 10 41) (mkPtok 40 "," 18 0 46)) (TyBasic (mkSpan (mkPtok 29 "float64" 15 10 41) (mkPtok 29 "float64" 15 10 41)) (mkBasicType (mkSpan (mkPtok 29 "float64" 15 10 41) (mkPtok 29 "float64" 15 10 41)) (mkPtok 29 "float64" 15 10 41))) (mkPtok 42 "i8i8" 15 18 42) (Some (mkPtok 43 "`{ , }`" 15 22 43)) (mkPtok 40 "," 18 0 46))))] (mkPtok 3 "}" 18 2 47))); (DMeta (mkMetaDef (mkSpan (mkPtok 37 "MetaData" 19 0 48) (mkPtok 3 "}" 26 10 67)) (mkPtok 37 "MetaData" 19 0 48) (mkPtok 42 "a1" 20 0 50) (mkPtok 2 "{" 20 4 51) [(MIDecl (mkMetaDecl (mkSpan (mkPtok 20 "u8" 21 4 52) (mkPtok 40 "," 21 23 55)) (TyBasic (mkSpan (mkPtok 20 "u8" 21 4 52) (mkPtok 20 "u8" 21 4 52)) (mkBasicType (mkSpan (mkPtok 20 "u8" 21 4 52) (mkPtok 20 "u8" 21 4 52)) (mkPtok 20 "u8" 21 4 52))) (mkPtok 42 "len" 21 7 53) (Some (mkPtok 43 "`say ""hi""`" 21 12 54)) (mkPtok 40 "," 21 23 55))); (MIRef (mkRefMetaDecl (mkSpan (mkPtok 42 "len" 22 0 56) (mkPtok 40 "," 23 3 60)) (mkPtok 42 "len" 22 0 56) (mkPtok 42 "Logon" 22 4 57) (Some (mkPtok 43 "``" 23 0 59)) (mkPtok 40 "," 23 3 60))); (MIDecl (mkMetaDecl (mkSpan (mkPtok 16 "char[]" 23 4 61) (mkPtok 40 "," 24 0 63)) (TyDynamic (mkSpan (mkPtok 16 "char[]" 23 4 61) (mkPtok 16 "char[]" 23 4 61)) (mkDynamicString (mkSpan (mkPtok 16 "char[]" 23 4 61) (mkPtok 16 "char[]" 23 4 61)) (mkPtok 16 "char[]" 23 4 61))) (mkPtok 42 "pack" 23 11 62) None (mkPtok 40 "," 24 0 63))); (MIDecl (mkMetaDecl (mkSpan (mkPtok 19 "char" 25 4 64) (mkPtok 40 "," 26 8 66)) (TyBasic (mkSpan (mkPtok 19 "char" 25 4 64) (mkPtok 19 "char" 25 4 64)) (mkBasicType (mkSpan (mkPtok 19 "char" 25 4 64) (mkPtok 19 "char" 25 4 64)) (mkPtok 19 "char" 25 4 64))) (mkPtok 42 "body" 26 4 65) None (mkPtok 40 "," 26 8 66)))] (mkPtok 3 "}" 26 10 67)))])).
Eval vm_compute in ("<<<M226>>>" ++ check (runes_of_ascii "packet a1
{
@lengthOf(	f32a	) repeat u64	string_
    ,
    @calculatedFrom( """"
    ) repeat	i16 tag `u8 x,` , @tag( 42 ) @calculatedFrom(	""a\\"")  @calculatedFrom( ""\" ++ [233]%N ++ runes_of_ascii """
) zchar[ 10
] Foo , char[42
    //	t
    ]
    body `// not a comment` , }MetaData roots{ uint64
Z9_ `{ , }`,
char[]charz `doc` , uint16 u128 `u8 x,` , zchar[ 4294967296 // trailing space 
]
    len
,
float32
stringy
,
} packet
Z9_	{ @leftPad ('\x00')
    @tag(42 ) @tag( 7)
    roots x
    , @lengthOf( int ) crc zchar
//	t
//
, } packet string_ { u8 Pad
// c
// " ++ [128512]%N ++ runes_of_ascii " emoji
, u64 chars
,
    @lengthOf(	Logon
)
    pack
,
@leftPad (
    ) @rightPad//
(
    ' '	)@calculatedFrom(""a	b"")
    i8 x `crlf
line`
    , char[ 0123456789 // @lengthOf(
]options1 @calculatedFrom( ""{,}"" )
`two words` ,uint64 charz `doc` , char[] u128
// packet A { u8 x, }
//	t
,
    @calculatedFrom( ""1"" ) repeat matchKey
    {
repeat int o// c
, } ,
@lengthOf(calculatedFrom
    )@rightPad ( '\x00')
@tag( 00 )
MetaDataX { uint32 BodyLength, } ,
// trailing space 
//
} packet lengthOf {  @calculatedFrom(	""" ++ [28040; 24687]%N ++ runes_of_ascii """
    )
// trailing space 
// " ++ [27880; 37322]%N ++ runes_of_ascii "
repeat	repeatCount { repeat char[ 7]	pack `// not a comment`, }
, }
")).
Eval vm_compute in ("<<<M236>>>" ++ check (runes_of_ascii "options{ len = // " ++ [27880; 37322]%N ++ runes_of_ascii "
true
    ;
MetaDataX = zchar[ 00//
] lengthOf =  '0'; Pad	=""packet""  ; x_y_z
    // a // b
    = ""a\""b""; } packet calculatedFrom{
repeat
matchKey // packet A { u8 x, }
Foo
,
    }
")).
Eval vm_compute in ("<<<M246>>>" ++ check (runes_of_ascii "MetaData Z9_
    { a1
//
/// triple
Z9_
    , zchar[ 10	] x
    , } options { }
")).
Eval vm_compute in ("<<<M256>>>" ++ check (runes_of_ascii "packet Pad {}packet
    options1{// trailing space 
}
    // @lengthOf(
    root
packet
crc
{
    repeat crc len , }")).
Eval vm_compute in ("<<<M266>>>" ++ check (runes_of_ascii "MetaData rootA	{
roots Header ,} root packet chars{ @tag(  1  )
repeat char[] stringy `doc` ,}
    root packet int{ uint8x MetaDataX	, }MetaData Logon {
x_y_z
i64_// @lengthOf(
,Z9_
_x , body crc `say ""hi""`,
}
")).
Eval vm_compute in ("<<<M276>>>" ++ check (runes_of_ascii "// " ++ [27880; 37322]%N ++ runes_of_ascii "
packet tag { repeat i64_
/// triple
// @lengthOf(
{
zchar[007 ]  Logon@calculatedFrom( ""packet""
    ) , repeat char[]leftPad `a\`
    ,
    zchar[ 3
] float , }, }packet pack //
{
    repeat i8
    len `
` ,
    }
root packet uint8x
    { // packet A { u8 x, }
@leftPad
() @calculatedFrom( ""a\\""
    ) @rightPad ( '\x00') repeat char[	0
]
T,
    } //	t")).
Eval vm_compute in ("<<<M286>>>" ++ check (runes_of_ascii "packet Pad { @calculatedFrom( ""CRC32"" ) @tag( 7 ) float32 u128 @calculatedFrom(""\n"")
    , }")).
Eval vm_compute in ("<<<T286>>>" ++ terms [mkTok 35 "packet" 1 0 false; mkTok 42 "Pad" 1 7 false; mkTok 2 "{" 1 11 false; mkTok 5 "@calculatedFrom(" 1 13 false; mkTok 31 """CRC32""" 1 30 false; mkTok 6 ")" 1 38 false; mkTok 9 "@tag(" 1 40 false; mkTok 30 "7" 1 46 false; mkTok 6 ")" 1 48 false; mkTok 28 "float32" 1 50 false; mkTok 42 "u128" 1 58 false; mkTok 5 "@calculatedFrom(" 1 63 false; mkTok 31 """\n""" 1 79 false; mkTok 6 ")" 1 83 false; mkTok 40 "," 2 4 false; mkTok 3 "}" 2 6 false; mkTok 0 "<EOF>" 2 7 false] (mkPacket (mkPtok 35 "packet" 1 0 0) (Some (mkPtok 3 "}" 2 6 15)) [(DPacket (mkPacketDef (mkSpan (mkPtok 35 "packet" 1 0 0) (mkPtok 3 "}" 2 6 15)) None (mkPtok 35 "packet" 1 0 0) (mkPtok 42 "Pad" 1 7 1) (mkPtok 2 "{" 1 11 2) [(mkFieldWithAttr (mkSpan (mkPtok 5 "@calculatedFrom(" 1 13 3) (mkPtok 40 "," 2 4 14)) [(FACalculatedFrom (mkSpan (mkPtok 5 "@calculatedFrom(" 1 13 3) (mkPtok 6 ")" 1 38 5)) (mkCalculatedFrom (mkSpan (mkPtok 5 "@calculatedFrom(" 1 13 3) (mkPtok 6 ")" 1 38 5)) (mkPtok 5 "@calculatedFrom(" 1 13 3) (mkPtok 31 """CRC32""" 1 30 4) (mkPtok 6 ")" 1 38 5))); (FATag (mkSpan (mkPtok 9 "@tag(" 1 40 6) (mkPtok 6 ")" 1 48 8)) (mkTagAttr (mkSpan (mkPtok 9 "@tag(" 1 40 6) (mkPtok 6 ")" 1 48 8)) (mkPtok 9 "@tag(" 1 40 6) (mkPtok 30 "7" 1 46 7) (mkPtok 6 ")" 1 48 8)))] (CheckSumField (mkSpan (mkPtok 28 "float32" 1 50 9) (mkPtok 40 "," 2 4 14)) (mkChecksumFieldDecl (mkSpan (mkPtok 28 "float32" 1 50 9) (mkPtok 40 "," 2 4 14)) (Some (TyBasic (mkSpan (mkPtok 28 "float32" 1 50 9) (mkPtok 28 "float32" 1 50 9)) (mkBasicType (mkSpan (mkPtok 28 "float32" 1 50 9) (mkPtok 28 "float32" 1 50 9)) (mkPtok 28 "float32" 1 50 9)))) (mkPtok 42 "u128" 1 58 10) (mkCalculatedFrom (mkSpan (mkPtok 5 "@calculatedFrom(" 1 63 11) (mkPtok 6 ")" 1 83 13)) (mkPtok 5 "@calculatedFrom(" 1 63 11) (mkPtok 31 """\n""" 1 79 12) (mkPtok 6 ")" 1 83 13)) None (mkPtok 40 "," 2 4 14))))] (mkPtok 3 "}" 2 6 15)))])).
Eval vm_compute in ("<<<M296>>>" ++ check (runes_of_ascii "//x
root packet
// `tick` ""quote"" 'q'
// `tick` ""quote"" 'q'
i8i8 { u128{ repeat lengthOf Foo //
`u8 x,`
,MetaDataX	falsey
`two words` ,Pad{	u8 a1 @lengthOf( leftPad )
, }
    , int @calculatedFrom( // " ++ [128512]%N ++ runes_of_ascii " emoji
""a\\""
    ) `
`
    ,	}
    , Header
Logon , match rootA// c
as
    BodyLength
    // " ++ [27880; 37322]%N ++ runes_of_ascii "
    { """ ++ [28040; 24687]%N ++ runes_of_ascii """ :	Pad [ """ ++ [233]%N ++ runes_of_ascii "t" ++ [233]%N ++ runes_of_ascii """
    ,
1
] : _x , }, options1 `crlf
line` , repeat u	{ match	i8i8 as falsey
{// `tick` ""quote"" 'q'
[ 42 , 4294967296 ]: x_y_z ,42
:
    float ,
// `tick` ""quote"" 'q'
// c
3
    : packetx
, } , }
, charz ,
    }
    // a // b
    root packet float
// @lengthOf(
// c
{ repeat _x body `say ""hi""` , charz`// not a comment`,repeat lengthOf{
repeatCount { repeat
tag { zchar[ 42  ]
// a // b
// " ++ [27880; 37322]%N ++ runes_of_ascii "
leftPad
,repeat
    zchar[0123456789  ]T `crlf
line`,  char[]
trueish , zchar[ 007 // " ++ [128512]%N ++ runes_of_ascii " emoji
]	lengthOf @lengthOf(string_
)`" ++ [233]%N ++ runes_of_ascii "` ,
} ,repeat int32 As
,int8 chars	, i32 calculatedFrom`it's`, } /// triple
, zchar[ 00 ] chars ``
, }	,char[255
] charz @calculatedFrom(""1"" ) `doc` , // packet A { u8 x, }
match body
as rootA { ""CRC32"" :	A , [ 007
    , ""{,}""
    ,
    0 // `tick` ""quote"" 'q'
,""1""
    ,0123456789 ,""// no comment""// " ++ [27880; 37322]%N ++ runes_of_ascii "
, ""it's"", 1] :
    BodyLength 65535 : x_y_z [""`tick`""]  : a1 }, repeat	asx{ char[ 0123456789 ]
    i64_ `" ++ [28040; 24687; 31867; 22411]%N ++ runes_of_ascii "` ,
    } , @lengthOf(  x_y_z )
pack
@calculatedFrom(""" ++ [233]%N ++ runes_of_ascii "t" ++ [233]%N ++ runes_of_ascii """) ,@tag( 3
// trailing space 
//
) repeat uint64 o
    ,// @lengthOf(
}")).
Eval vm_compute in ("<<<M306>>>" ++ check (runes_of_ascii "root packet SimpleMessage {
    uint16 MsgType `" ++ [28040; 24687; 31867; 22411]%N ++ runes_of_ascii "`,
    string JsonBody `Json" ++ [23383; 31526; 20018; 28040; 24687; 20307]%N ++ runes_of_ascii "`,
}")).
Eval vm_compute in ("<<<M316>>>" ++ check (runes_of_ascii "root asx packet { @tag(007 ) // @lengthOf(
repeat
    u64  leftPad , } packet
i64_{ // packet A { u8 x, }
@calculatedFrom(
""a\""b"" )
    zchar[
    10]
    chars,
    }
    MetaData A { charz
uint8x
    // trailing space 
    , len uint8x , u8
    charz,	string_ msg_type ,}
")).
Eval vm_compute in ("<<<M326>>>" ++ check (runes_of_ascii "root packet asx @tag( {007 ) // @lengthOf(
repeat
    u64  leftPad , } packet
i64_{ // packet A { u8 x, }
@calculatedFrom(
""a\""b"" )
    zchar[
    10]
    chars,
    }
    MetaData A { charz
uint8x
    // trailing space 
    , len uint8x , u8
    charz,	string_ msg_type ,}
")).
Eval vm_compute in ("<<<M336>>>" ++ check (runes_of_ascii "root packet asx { @tag() 007 // @lengthOf(
repeat
    u64  leftPad , } packet
i64_{ // packet A { u8 x, }
@calculatedFrom(
""a\""b"" )
    zchar[
    10]
    chars,
    }
    MetaData A { charz
uint8x
    // trailing space 
    , len uint8x , u8
    charz,	string_ msg_type ,}
")).
Eval vm_compute in ("<<<M346>>>" ++ check (runes_of_ascii "root packet asx { @tag(007 ) // @lengthOf(
u64
    repeat  leftPad , } packet
i64_{ // packet A { u8 x, }
@calculatedFrom(
""a\""b"" )
    zchar[
    10]
    chars,
    }
    MetaData A { charz
uint8x
    // trailing space 
    , len uint8x , u8
    charz,	string_ msg_type ,}
")).
Eval vm_compute in ("<<<M356>>>" ++ check (runes_of_ascii "root packet asx { @tag(007 ) // @lengthOf(
repeat
    u64  , leftPad } packet
i64_{ // packet A { u8 x, }
@calculatedFrom(
""a\""b"" )
    zchar[
    10]
    chars,
    }
    MetaData A { charz
uint8x
    // trailing space 
    , len uint8x , u8
    charz,	string_ msg_type ,}
")).
Eval vm_compute in ("<<<M366>>>" ++ check (runes_of_ascii "root packet asx { @tag(007 ) // @lengthOf(
repeat
    u64  leftPad , packet }
i64_{ // packet A { u8 x, }
@calculatedFrom(
""a\""b"" )
    zchar[
    10]
    chars,
    }
    MetaData A { charz
uint8x
    // trailing space 
    , len uint8x , u8
    charz,	string_ msg_type ,}
")).
Eval vm_compute in ("<<<M376>>>" ++ check (runes_of_ascii "root packet asx { @tag(007 ) // @lengthOf(
repeat
    u64  leftPad , } packet
{i64_ // packet A { u8 x, }
@calculatedFrom(
""a\""b"" )
    zchar[
    10]
    chars,
    }
    MetaData A { charz
uint8x
    // trailing space 
    , len uint8x , u8
    charz,	string_ msg_type ,}
")).
Eval vm_compute in ("<<<M386>>>" ++ check (runes_of_ascii "root packet asx { @tag(007 ) // @lengthOf(
repeat
    u64  leftPad , } packet
i64_{ // packet A { u8 x, }
""a\""b""
@calculatedFrom( )
    zchar[
    10]
    chars,
    }
    MetaData A { charz
uint8x
    // trailing space 
    , len uint8x , u8
    charz,	string_ msg_type ,}
")).
Eval vm_compute in ("<<<M396>>>" ++ check (runes_of_ascii "root packet asx { @tag(007 ) // @lengthOf(
repeat
    u64  leftPad , } packet
i64_{ // packet A { u8 x, }
@calculatedFrom(
""a\""b"" zchar[
    )
    10]
    chars,
    }
    MetaData A { charz
uint8x
    // trailing space 
    , len uint8x , u8
    charz,	string_ msg_type ,}
")).
Eval vm_compute in ("<<<M406>>>" ++ check (runes_of_ascii "root packet asx { @tag(007 ) // @lengthOf(
repeat
    u64  leftPad , } packet
i64_{ // packet A { u8 x, }
@calculatedFrom(
""a\""b"" )
    zchar[
    ]10
    chars,
    }
    MetaData A { charz
uint8x
    // trailing space 
    , len uint8x , u8
    charz,	string_ msg_type ,}
")).
Eval vm_compute in ("<<<M416>>>" ++ check (runes_of_ascii "root packet asx { @tag(007 ) // @lengthOf(
repeat
    u64  leftPad , } packet
i64_{ // packet A { u8 x, }
@calculatedFrom(
""a\""b"" )
    zchar[
    10]
    ,chars
    }
    MetaData A { charz
uint8x
    // trailing space 
    , len uint8x , u8
    charz,	string_ msg_type ,}
")).
Eval vm_compute in ("<<<M426>>>" ++ check (runes_of_ascii "root packet asx { @tag(007 ) // @lengthOf(
repeat
    u64  leftPad , } packet
i64_{ // packet A { u8 x, }
@calculatedFrom(
""a\""b"" )
    zchar[
    10]
    chars,
    MetaData
    } A { charz
uint8x
    // trailing space 
    , len uint8x , u8
    charz,	string_ msg_type ,}
")).
Eval vm_compute in ("<<<M436>>>" ++ check (runes_of_ascii "root packet asx { @tag(007 ) // @lengthOf(
repeat
    u64  leftPad , } packet
i64_{ // packet A { u8 x, }
@calculatedFrom(
""a\""b"" )
    zchar[
    10]
    chars,
    }
    MetaData { A charz
uint8x
    // trailing space 
    , len uint8x , u8
    charz,	string_ msg_type ,}
")).
Eval vm_compute in ("<<<M446>>>" ++ check (runes_of_ascii "root packet asx { @tag(007 ) // @lengthOf(
repeat
    u64  leftPad , } packet
i64_{ // packet A { u8 x, }
@calculatedFrom(
""a\""b"" )
    zchar[
    10]
    chars,
    }
    MetaData A { uint8x
charz
    // trailing space 
    , len uint8x , u8
    charz,	string_ msg_type ,}
")).
Eval vm_compute in ("<<<M456>>>" ++ check (runes_of_ascii "root packet asx { @tag(007 ) // @lengthOf(
repeat
    u64  leftPad , } packet
i64_{ // packet A { u8 x, }
@calculatedFrom(
""a\""b"" )
    zchar[
    10]
    chars,
    }
    MetaData A { charz
uint8x
    // trailing space 
    len , uint8x , u8
    charz,	string_ msg_type ,}
")).
Eval vm_compute in ("<<<M466>>>" ++ check (runes_of_ascii "root packet asx { @tag(007 ) // @lengthOf(
repeat
    u64  leftPad , } packet
i64_{ // packet A { u8 x, }
@calculatedFrom(
""a\""b"" )
    zchar[
    10]
    chars,
    }
    MetaData A { charz
uint8x
    // trailing space 
    , len , uint8x u8
    charz,	string_ msg_type ,}
")).
Eval vm_compute in ("<<<M476>>>" ++ check (runes_of_ascii "root packet asx { @tag(007 ) // @lengthOf(
repeat
    u64  leftPad , } packet
i64_{ // packet A { u8 x, }
@calculatedFrom(
""a\""b"" )
    zchar[
    10]
    chars,
    }
    MetaData A { charz
uint8x
    // trailing space 
    , len uint8x , charz
    u8,	string_ msg_type ,}
")).
Eval vm_compute in ("<<<M486>>>" ++ check (runes_of_ascii "root packet asx { @tag(007 ) // @lengthOf(
repeat
    u64  leftPad , } packet
i64_{ // packet A { u8 x, }
@calculatedFrom(
""a\""b"" )
    zchar[
    10]
    chars,
    }
    MetaData A { charz
uint8x
    // trailing space 
    , len uint8x , u8
    charz string_	, msg_type ,}
")).
Eval vm_compute in ("<<<M496>>>" ++ check (runes_of_ascii "root packet asx { @tag(007 ) // @lengthOf(
repeat
    u64  leftPad , } packet
i64_{ // packet A { u8 x, }
@calculatedFrom(
""a\""b"" )
    zchar[
    10]
    chars,
    }
    MetaData A { charz
uint8x
    // trailing space 
    , len uint8x , u8
    charz,	string_ , msg_type}
")).
Eval vm_compute in ("<<<M506>>>" ++ check (runes_of_ascii "root packet asx { @tag(007 ) // @lengthOf(
repeat
    u64  leftPad , } packet
i64_{ // packet A { u8 x, }
@calculatedFrom(
""a\""b"" )
    zchar[
    10]
    chars,
    }
    MetaData A { charz
uint8x
    // trailing space 
    , len uint8x , u8
    charz,	string_ msg_type ,MetaData
")).
Eval vm_compute in ("<<<M516>>>" ++ check (runes_of_ascii "root packet asx { @tag(007 ) // @lengthOf(
repeat
    u64  leftPad , } packet
i64_{ // packet A { u8 x, }
@calculatedFrom(
""a\""b"" )
    zchar[
    10]
    chars,
    }
    MetaData A { charz
uint8x
    // trailing space 
    , len uint8x , ""u8
    charz,	string_ msg_type ,}
")).
Eval vm_compute in ("<<<M526>>>" ++ check (runes_of_ascii "root packet asx { @tag(007 ) // @lengthOf(
repeat
    u64  leftPad , } packet
i64_{ // packet A { u8 x, }
@calculatedFrom(
""a\""b"" )
    zchar[
    10]
    chars,
    }
    MetaData A { charz
uint8x
    // traili@ng space 
    , len uint8x , u8
    charz,	string_ msg_type ,}
")).
Eval vm_compute in ("<<<M536>>>" ++ check (runes_of_ascii "MetaData asx
zchar[ { 7
] roots
,leftPad
Foo
    `" ++ [233]%N ++ runes_of_ascii "`
, Header Header , int16
falsey , // `tick` ""quote"" 'q'
u16 Packet , int64 packetx// " ++ [128512]%N ++ runes_of_ascii " emoji
,}")).
Eval vm_compute in ("<<<M546>>>" ++ check (runes_of_ascii "MetaData asx
{ zchar[ 7
] roots
,leftPad
Foo
    `" ++ [233]%N ++ runes_of_ascii "`
, Header Header , int16
falsey ,")).
Eval vm_compute in ("<<<M556>>>" ++ check (runes_of_ascii "MetaData asx
{ zchar[ 7
] roots
,leftPad
Foo
    `" ++ [233]%N ++ runes_of_ascii "`
, Header Header , int16
falsey , // `tick` ""quote"" 'q'
u16 u16 Packet , int64 packetx// " ++ [128512]%N ++ runes_of_ascii " emoji
,}")).
Eval vm_compute in ("<<<M566>>>" ++ check (runes_of_ascii "
	 ")).
Eval vm_compute in ("<<<M576>>>" ++ check (runes_of_ascii " " ++ [12]%N ++ runes_of_ascii " ")).
Eval vm_compute in ("<<<M586>>>" ++ check (runes_of_ascii "W9}1")).
Eval vm_compute in ("<<<M596>>>" ++ check (runes_of_ascii "{ { float @tag( repeat false @leftPad u8 @tag(")).
