From FP Require Import Lexer Parser ShowPT Digest Formatter.
From Coq Require Import String List NArith.
Import ListNotations.
Open Scope string_scope.
Set Printing Width 100000000.
Set Printing Depth 100000000.
Definition show_fres (r : fres) : string :=
  match r with
  | FOk s => "OK:" ++ sh_escaped s ""
  | FErr s => "ERR:" ++ sh_escaped s ""
  | FPanic p => "PANIC:" ++ p
  end.
Definition check (rs : list rune) : string := digest (show_fres (format_res rs)).
Definition full (rs : list rune) : string := show_fres (format_res rs).
Eval vm_compute in ("<<<M209>>>" ++ check (runes_of_ascii "MetaData packetx { float32
    Logon , }
packet u{ repeat options1
Z9_ ,
    zchar[
    007
    ] x_y_z/// triple
, crc ``,
    @leftPad ( '\x00' )
    @tag( 7 )@tag(	3 ) repeat x_y_z { match As
    as tag { ""1"" : Header, } , repeat
    char[65535] msg_type , float
{ charz @lengthOf( // c
float
    )`100% of %d` , match Z9_ as
//	t
/// triple
tag // a // b
{""it's"": u128/// triple
,	[
    // `tick` ""quote"" 'q'
    7 ] : charz
, // 50% %s
""packet"" :
f32a ,[// @lengthOf(
""\n""] :	a1, [ ""1"" , 65535
// " ++ [27880; 37322]%N ++ runes_of_ascii "
// `tick` ""quote"" 'q'
] :
    metadata [ 65535 , ""`tick`"" ,	0123456789
, ""\n"", 00 , ""x y"" , ""CRC32""
,0
] :
u8x
,}	,
} , match metadata as int
{ 00
:
i64_, [ 3
]: u8x ,7 : roots,// a // b
10 // a // b
:
    //x
    metadata , [ 65535 , ""abc""
,  ""packet""
]: /// triple
calculatedFrom
    //	t
    ,/// triple
},
    //	t
    } ,
}packet
    x{match rootA as
//	t
//x
rootA	{0123456789
:
options1
    , //
[
    65535
    , ""\n"" ,
    """" , //x
4294967296, ""`tick`""
,""`tick`"" ]
    :  msg_type
,
3 // @lengthOf(
: // c
rootA [
    4294967296 ,255
    ]:// " ++ [128512]%N ++ runes_of_ascii " emoji
u128
    // `tick` ""quote"" 'q'
    , 007:	options1, ""abc"": // @lengthOf(
i8i8, },
    u64 MetaDataX
@lengthOf( chars )
    `crlf
line`,@calculatedFrom( """ ++ [28040; 24687]%N ++ runes_of_ascii """ ) @leftPad (
' ' ) @tag( 007 )repeat	A // `tick` ""quote"" 'q'
{
    repeat repeatCount	stringy
    `a\` /// triple
,
match roots // c
as roots {
""\" ++ [233]%N ++ runes_of_ascii """ :
    float , } , asx// a // b
T ,
char[ 10
] i64_
@calculatedFrom( ""a\\"") `" ++ [28040; 24687; 31867; 22411]%N ++ runes_of_ascii "`
,
    //
    } , @rightPad // " ++ [128512]%N ++ runes_of_ascii " emoji
( '\x00' // 50% %s
)@rightPad
// 50% %s
// " ++ [128512]%N ++ runes_of_ascii " emoji
( ' ' // `tick` ""quote"" 'q'
)
    // packet A { u8 x, }
    @calculatedFrom(	""" ++ [28040; 24687]%N ++ runes_of_ascii """ )
char[] //
tag ,
    @calculatedFrom( """ ++ [233]%N ++ runes_of_ascii "t" ++ [233]%N ++ runes_of_ascii """  ) repeat packetx u8x
,
zchar[ 00]
    u128
    `a\`, @lengthOf( lengthOf )repeatCount@lengthOf(calculatedFrom	) , @calculatedFrom(  ""\" ++ [233]%N ++ runes_of_ascii """ )
@leftPad ( '0')
    char[  65535]	T `
`,	zchar[ 3
] len,// @lengthOf(
}  packet tag{ repeat len  string_ `" ++ [28040; 24687; 31867; 22411]%N ++ runes_of_ascii "`
    , i32 uint8x @lengthOf( len) ,repeat
T trueish `crlf
line` , match Foo as
options1
{0 :
string_""`tick`"" :
metadata // c
[	""" ++ [128512]%N ++ runes_of_ascii """,  ""x y""
    ] : body
    , } ,@calculatedFrom(""abc"") repeat f32  lengthOf, @lengthOf( charz
) f64 chars@lengthOf(	_x //	t
) `" ++ [28040; 24687; 31867; 22411]%N ++ runes_of_ascii "` ,@calculatedFrom(
""\" ++ [233]%N ++ runes_of_ascii """ ) repeat//x
body , u128 ,}
packet matchKey {
int8 //	t
roots`" ++ [28040; 24687; 31867; 22411]%N ++ runes_of_ascii "`,
    match
roots as rootA{ 7
:x } ,charz@lengthOf( o// " ++ [27880; 37322]%N ++ runes_of_ascii "
)
    , // 50% %s
match /// triple
i64_ as Header	{""it's""
    : crc	, ""a\\"":
    Header	, ""a\""b""
    :
charz ,10
: // @lengthOf(
int, 1
: repeatCount , }
    , // c
i32  lengthOf `{ , }` , zchar[00// `tick` ""quote"" 'q'
]
x `" ++ [233]%N ++ runes_of_ascii "`
, u32 Packet  @lengthOf(
    crc
    //	t
    ) `// not a comment`
,char[
    //	t
    1
    ] lengthOf,  lengthOf
    `it's` , }
")).
Eval vm_compute in ("<<<M3543>>>" ++ check (runes_of_ascii "// top
options // c0
{ // c1a
  // c1b
StringPrefixLenType =
    // c3
u16 ; // c5
ArrayPrefixLenType
    // c6
= u32 // c8a
  // c8b
;
    // c9
FixedStringPadChar =
    // c11
'0'
    // c12
; } // c14a
  // c14b
packet // c15
Ack // c16a
  // c16b
{ // c17a
  // c17b
zchar[
    // c18
9 ]
    // c20
Ref ,
    // c22
repeat // c23a
  // c23b
u64
    // c24
Flags // c25a
  // c25b
, // c26
char[ 9 // c28a
  // c28b
]
    // c29
lastPx , char[] Tail , } // c35a
  // c35b
packet
    // c36
Logon {
    // c38
Ack // c39
, repeat
    // c41
InSide298 { // c43
repeat
    // c44
Ack // c45
, u8 // c47
clOrdID , // c49
repeat // c50a
  // c50b
InNote61 // c51
{ // c52
zchar[ // c53
4 // c54
] // c55
tag7 ,
    // c57
float32 clOrdID // c59a
  // c59b
, int16 // c61a
  // c61b
Note // c62
, // c63a
  // c63b
char[] // c64a
  // c64b
Acct // c65a
  // c65b
, uint16
    // c67
Side2 , // c69
string // c70
OrderId // c71
, // c72
} , } // c75a
  // c75b
,
    // c76
u16 price
    // c78
,
    // c79
uint8 // c80a
  // c80b
Acct // c81a
  // c81b
, // c82a
  // c82b
i32
    // c83
tag7 // c84a
  // c84b
, // c85
@rightPad ( // c87
'0'
    // c88
) // c89
char[ // c90
5 // c91a
  // c91b
] // c92a
  // c92b
lastPx ,
    // c94
} // c95a
  // c95b
packet // c96
Cancel
    // c97
{ u16 // c99
seqNo // c100a
  // c100b
,
    // c101
} // c102a
  // c102b
packet
    // c103
Leg // c104
{ // c105a
  // c105b
repeat // c106a
  // c106b
Ack
    // c107
, repeat InNote13 // c110
{ int32 // c112
seqNo
    // c113
, // c114
Ack // c115a
  // c115b
, // c116
} // c117
,
    // c118
} packet // c120a
  // c120b
Quote // c121a
  // c121b
{ string
    // c123
OrderId // c124
, // c125a
  // c125b
} // c126a
  // c126b
root packet Trade
    // c129
{ // c130
repeat // c131a
  // c131b
InAcct24 // c132
{ // c133
float64 msgKind , // c136a
  // c136b
} // c137a
  // c137b
, // c138
} ")).
Eval vm_compute in ("<<<M993>>>" ++ check (runes_of_ascii "  options {MetaDataX // @lengthOf(
= 1 ; matchKey = ""it's""
    ;
f32a= f64	; //	t
options1= true }	packet
As{ char[
7 ]lengthOf @lengthOf(
Foo
)
`say ""hi""`
    , string msg_type @lengthOf( float  )
,
    @calculatedFrom( ""packet"" )	@tag(00 )
    o
falsey`say ""hi""` ,@lengthOf(
    As
    )zchar[00
] repeatCount `it's` // " ++ [128512]%N ++ runes_of_ascii " emoji
, int
    // 50% %s
    ,
string chars, // @lengthOf(
string  string_ , }  options // `tick` ""quote"" 'q'
{} packet lengthOf {@tag(
    007
    ) match zchar as lengthOf { 4294967296 : x_y_z
    ,
[""// no comment""] : Z9_ 1 :
packetx
, """ ++ [233]%N ++ runes_of_ascii "t" ++ [233]%N ++ runes_of_ascii """  :
    x_y_z ,  }
,
// " ++ [27880; 37322]%N ++ runes_of_ascii "
// " ++ [27880; 37322]%N ++ runes_of_ascii "
char[]falsey `// not a comment` , @tag( 4294967296)repeat len
{ string body @lengthOf(
//x
//
As), match	options1 as x_y_z {[ """ ++ [233]%N ++ runes_of_ascii "t" ++ [233]%N ++ runes_of_ascii """
] ://	t
body	,255 : o,
""\n"" :
    // " ++ [27880; 37322]%N ++ runes_of_ascii "
    u8x
10 :
    i8i8
    , ""1"" : rootA
, } , } ,
string leftPad// `tick` ""quote"" 'q'
@calculatedFrom( // trailing space 
""""
    ) ,	char Header
``, @tag(// c
42 ) @lengthOf( body ) @tag( 65535 )
matchKey
    // c
    ,
//
// 50% %s
repeat
    msg_type
    { falsey {
repeat len { match float
as
stringy {[ 007 , ""packet"" , 007
, ""\n"",// packet A { u8 x, }
""abc""
, 1
// @lengthOf(
// c
,	4294967296	]:matchKey
//
// " ++ [128512]%N ++ runes_of_ascii " emoji
,
    42 : f32a// trailing space 
, // `tick` ""quote"" 'q'
[ 10 , // 50% %s
""a\\"" ]
    : a1 , //x
65535 :  tag , } ,	}//
,
} ,
    u64 _x `" ++ [28040; 24687; 31867; 22411]%N ++ runes_of_ascii "`// c
,
pack , }
, repeat As
{ repeat /// triple
string pack
    ,  uint8 leftPad
    @lengthOf( As) ,string
    // @lengthOf(
    options1 @calculatedFrom(//
""// no comment"" )
    `{ , }` , u8
leftPad //
@lengthOf(options1 )
    , } ,	}
")).
Eval vm_compute in ("<<<M447>>>" ++ check (runes_of_ascii "options {Foo = '0'
float =	42 ;
    x_y_z
= f32 ; Packet =
    ""{,}"" A =
    // @lengthOf(
    zchar[ 42]; } packet i8i8{
match x_y_z as u
    {
    // `tick` ""quote"" 'q'
    [0 , 4294967296
]: u8x ,	[ """ ++ [28040; 24687]%N ++ runes_of_ascii """
    ,"""" , ""{,}"" ]: x , } , @tag(0123456789 )repeat	i8 uint8x
`a\`
,
    uint8 u128 @calculatedFrom( ""packet"") , uint16 u128 `it's` ,
    u8x len
//	t
// packet A { u8 x, }
`
`,
} root packet
    //	t
    lengthOf { match leftPad
as // packet A { u8 x, }
charz
    {
007 : pack , // " ++ [128512]%N ++ runes_of_ascii " emoji
[ 00 ] // @lengthOf(
: leftPad
    }
    ,repeat // a // b
char[] lengthOf
`line1
line2` , tag {char[] roots @calculatedFrom(""\" ++ [233]%N ++ runes_of_ascii """
), zchar[ 7
] trueish @lengthOf(
Header
    ) ,
}  ,@leftPad // packet A { u8 x, }
('\x00' ) float32 Packet	`100% of %d` ,
    roots ,
repeat
char[
7 ] pack
,
chars
    packetx  `tab	here`,@calculatedFrom( ""`tick`""
    )u16	Z9_
    `u8 x,`, char[]
trueish	, }MetaData lengthOf { char[1	] Z9_ `{ , }`	, } packet metadata { // " ++ [128512]%N ++ runes_of_ascii " emoji
@tag(7	)
    @tag( 10)
@lengthOf( f32a) u128 { match body as
    i8i8	{ [ 007 ,
""x y""	]
    : pack
""a	b"" : As
, 4294967296
:
    Packet ,""" ++ [28040; 24687]%N ++ runes_of_ascii """
    : i64_ ,
}	,
    /// triple
    } , char[] Foo	@lengthOf( u8x )`it's`,
string rootA@calculatedFrom( ""packet"" ) ,@calculatedFrom( """ ++ [233]%N ++ runes_of_ascii "t" ++ [233]%N ++ runes_of_ascii """ ) zchar[	00
    ] int
@calculatedFrom(""""
    )`doc` ,	msg_type{ match crc as Pad { 0 // c
:body, //x
""`tick`""
/// triple
//x
:a1
} , }
, }
")).
Eval vm_compute in ("<<<M29>>>" ++ check (runes_of_ascii "// trailing space 
root
packet x
{// @lengthOf(
repeat zchar[  7
] i64_ , }packet As { @calculatedFrom(""" ++ [28040; 24687]%N ++ runes_of_ascii """)
    o `" ++ [28040; 24687; 31867; 22411]%N ++ runes_of_ascii "`
    ,	string
a1
`u8 x,`
,
@lengthOf( rootA ) // " ++ [128512]%N ++ runes_of_ascii " emoji
repeat
uint32 lengthOf
`// not a comment` ,
@rightPad
    ( ' ' )u128 T , }
    options { A =
    ""\" ++ [233]%N ++ runes_of_ascii """ float
= char[ 65535 ];calculatedFrom =
""packet"";// @lengthOf(
lengthOf =
    false
; }	root packet lengthOf
{ // `tick` ""quote"" 'q'
uint16 x_y_z
    `a\`
    ,	f32 T ,len @lengthOf(repeatCount
) , i8 chars@lengthOf(Z9_ )
`say ""hi""`,@leftPad( ' '
) float32 _x `doc`	, @calculatedFrom(
    ""{,}"" ) zchar @lengthOf(i8i8
)
, repeat char[  1/// triple
]  repeatCount
`two words` , @calculatedFrom( ""{,}"" ) @calculatedFrom( ""abc""
    )@lengthOf( stringy )
    MetaDataX//
,string len `100% of %d`, @leftPad (
' '
)match calculatedFrom as Logon
{
[
""// no comment"" /// triple
] : // @lengthOf(
MetaDataX
, ""a\""b""  :
// a // b
// trailing space 
f32a
[ 3 , 4294967296 ,0123456789 ,
""{,}"",""x y"", 3 ]:
i8i8 ,} , // 50% %s
} packet crc//
{
repeat packetx , @leftPad (
    '0'
)
    pack
`tab	here`	,	Pad
,
@calculatedFrom( ""abc""
    )u64
// a // b
//
i64_`tab	here`, @tag( 0123456789 ) // trailing space 
zchar[
    255
] u, match
tag as x{255:
    u128 , } /// triple
, }")).
Eval vm_compute in ("<<<M3885>>>" ++ check (runes_of_ascii "packet metadata {
    // a // b
    @tag(0123456789)
    repeat options1,
    rootA {
        u32 x_y_z `two words`,
        u8 options1 `" ++ [28040; 24687; 31867; 22411]%N ++ runes_of_ascii "`,
    },
    @lengthOf(Header)
    string Pad @calculatedFrom(""a\\"") `" ++ [233]%N ++ runes_of_ascii "`,
    match u as pack {
        [255, """ ++ [233]%N ++ runes_of_ascii "t" ++ [233]%N ++ runes_of_ascii """, 1] : packetx,
        [3] : stringy,
        7 : chars,
        [""a	b""] : leftPad,
        3 : matchKey,
        ""a\""b"" : i64_,
    },
    @tag(00)
    a1 options1 `crlf
    line`,
    @tag(42)
    string Logon @calculatedFrom(""\" ++ [233]%N ++ runes_of_ascii """),
    @lengthOf(Foo)
    @calculatedFrom(""// no comment"")
    @calculatedFrom(""packet"")
    int16 Header `u8 x,`,
    stringy,
}// @lengthOf(

packet o {
    repeat i16 T `two words`,
    @tag(7)
    a1 @lengthOf(asx) `tab	here`,
    @tag(7)
    @calculatedFrom(""a	b"")
    char[65535] asx @calculatedFrom(""a\\""),
}

packet metadata {
}

packet falsey {
    char[] calculatedFrom @lengthOf(falsey) `a\`,
    @calculatedFrom(""\n"")
    repeat char[] o `// not a comment`,
    char[] a1,
    o @calculatedFrom(""packet""),
    lengthOf,
    @lengthOf(x_y_z)
    repeat i8 calculatedFrom `line1
    line2`,
    i64 pack,
    @tag(007)
    @rightPad(' ')
    f32a @lengthOf(len),
}")).
Eval vm_compute in ("<<<M4329>>>" ++ check (runes_of_ascii "MetaData chars {
    // @lengthOf(
    falsey As,
    char[42] o,// " ++ [128512]%N ++ runes_of_ascii " emoji
    string_ Header,
}

MetaData falsey {
    zchar[0] falsey `{ , }`,
    int32 MetaDataX,
    char[255] Foo,
    int64 u128,
    char[] u128,// packet A { u8 x, }
}

packet metadata {
    // packet A { u8 x, }
    //	t
    metadata @calculatedFrom(""`tick`""),
    repeat pack roots `line1
    line2`,
    string_ @calculatedFrom(""\n""),
    repeat trueish {
        trueish T,
        //x
        // `tick` ""quote"" 'q'
        u16 asx,
        body {
            repeat _x {
                _x @lengthOf(i8i8) `say ""hi""`,
                // a // b
                //
            },
        },
    },
    @calculatedFrom(""a\\"")
    repeat chars {
        f32a {
            // c
            zchar[255] msg_type,
            repeat float64 stringy `
            `,
        },
        repeat uint8x `tab	here`,
        Logon {
            repeat f64 MetaDataX,
            u64 T @lengthOf(body),
        },
    },
    @lengthOf(trueish)
    // " ++ [27880; 37322]%N ++ runes_of_ascii "
    // @lengthOf(
    float64 _x @calculatedFrom(""" ++ [128512]%N ++ runes_of_ascii """),
}

MetaData chars {
}")).
Eval vm_compute in ("<<<M129>>>" ++ check (runes_of_ascii "packet int{// packet A { u8 x, }
@tag(
// c
// a // b
00 ) repeat zchar[
65535
    ]  crc , repeat
    u32 body
`it's`
,
    @calculatedFrom( ""x y""	) match
    zchar as T {
    [ ""// no comment"",
    7 ]// packet A { u8 x, }
:
uint8x , 007: Header ""{,}""
    :BodyLength , ""packet"" : int // c
, [  ""abc"" ,1, ""a\\""
,""packet"" ] :u128 , [
    // " ++ [128512]%N ++ runes_of_ascii " emoji
    ""abc"" ] //
:string_ , // c
}, msg_type
    a1	`" ++ [233]%N ++ runes_of_ascii "`
    , @lengthOf(
calculatedFrom  ) repeat
    i32 asx
, @calculatedFrom(
""{,}"" ) //x
@lengthOf(
x)@rightPad( '0' )repeat
    i32 a1
, float32 int@lengthOf(
lengthOf)
    `a\` ,
    @tag( 255 )
i32
Z9_ , } // packet A { u8 x, }
packet Z9_ { rootA a1`doc` ,Header
    MetaDataX `u8 x,`
    // 50% %s
    ,
    }// " ++ [128512]%N ++ runes_of_ascii " emoji
root packet	uint8x
{ @lengthOf( falsey ) // 50% %s
@tag( 1)@lengthOf(
pack ) i16
    calculatedFrom @calculatedFrom( ""1"" )
    ,}MetaData i64_
{
    uint8
int ,
    string
falsey ,
f64
u128
, } packet x_y_z
    { @calculatedFrom(""" ++ [233]%N ++ runes_of_ascii "t" ++ [233]%N ++ runes_of_ascii """ ) repeat _x { lengthOf @calculatedFrom( ""x y""
) ,} , }")).
Eval vm_compute in ("<<<M1281>>>" ++ check (runes_of_ascii "options
    { charz =  '0' ;
stringy
=	true //x
;	trueish
=""""
; rootA
= true  ;
}packet Header { match u128
as
metadata {
""a	b"" //x
:
    u	65535: x
    , }
, //x
@calculatedFrom(""" ++ [28040; 24687]%N ++ runes_of_ascii """) string matchKey ,zchar[ 255
] a1`` ,
    }  packet charz /// triple
{ @lengthOf( a1 )
    A	`doc`
// 50% %s
// packet A { u8 x, }
,	@calculatedFrom( ""it's""
)
    zchar[ 3] x `tab	here` ,
    repeat _x zchar	, @lengthOf( crc)zchar[ 255]
Foo`// not a comment` ,@lengthOf(o )uint64 falsey , @calculatedFrom(""packet""  ) @lengthOf(
// `tick` ""quote"" 'q'
// @lengthOf(
body ) @rightPad ( // packet A { u8 x, }
'\x00' ) repeat u8x , @leftPad // trailing space 
( '\x00'
    )repeat string_
`say ""hi""`, }	packet
    lengthOf
{} packet  leftPad // " ++ [27880; 37322]%N ++ runes_of_ascii "
{ string charz`// not a comment`,
    @leftPad (
'0'
)	repeat // `tick` ""quote"" 'q'
BodyLength a1 ,@calculatedFrom( ""x y"" )
float32 zchar,  repeat //
char[
//x
// `tick` ""quote"" 'q'
007
    ]
uint8x
// 50% %s
// " ++ [27880; 37322]%N ++ runes_of_ascii "
, a1
, }")).
Eval vm_compute in ("<<<M753>>>" ++ check (runes_of_ascii "packet int { repeat
calculatedFrom { zchar[ 255] stringy@calculatedFrom( ""1"")
    , } ,	pack @lengthOf(i8i8 )
`// not a comment`	, @calculatedFrom( ""abc""  ) // c
@rightPad	( ' ' )
    @lengthOf( MetaDataX ) BodyLength `// not a comment` , f32 pack ,	repeat
int64 Z9_	, }options
// @lengthOf(
/// triple
{ }
root packet A { o int
, repeat repeatCount len `{ , }` ,
    @lengthOf( len
    ) repeat char[ 1 ]f32a `two words` ,  i16 crc	,	}root
    //	t
    packet
_x { /// triple
match metadata
    as crc// packet A { u8 x, }
{
    ""it's"" : BodyLength
,// 50% %s
} ,
@lengthOf( string_ )repeat x leftPad `` , repeat
    zchar[0] leftPad `two words`
    ,
Logon `// not a comment` , float roots
    //x
    `100% of %d` ,} MetaData calculatedFrom// " ++ [128512]%N ++ runes_of_ascii " emoji
{
char rootA ,
// packet A { u8 x, }
// packet A { u8 x, }
char[] //
packetx  `line1
line2`
,
int8 metadata// @lengthOf(
, // packet A { u8 x, }
}")).
Eval vm_compute in ("<<<M4530>>>" ++ check (runes_of_ascii "root packet o {
    char[] _x `
    `,
    repeat f32 tag,
    string leftPad `" ++ [233]%N ++ runes_of_ascii "`,
    @calculatedFrom(""" ++ [233]%N ++ runes_of_ascii "t" ++ [233]%N ++ runes_of_ascii """)
    match int as x_y_z {
        1 : A,
        7 : body,
        [""a\\"", 65535] : zchar,
        ""`tick`"" : pack,
    },
    stringy @lengthOf(msg_type),
    falsey BodyLength,
    char[] x_y_z @lengthOf(options1) `tab	here`,
    repeat i8i8 {
        repeat Header {
            repeatCount @calculatedFrom(""1"") `" ++ [233]%N ++ runes_of_ascii "`,
        },
    },
    char[007] f32a `tab	here`,
}

MetaData calculatedFrom {
    tag falsey `line1
    line2`,
}

// " ++ [27880; 37322]%N ++ runes_of_ascii "
root packet matchKey {
    @tag(42)
    metadata,
    @lengthOf(int)
    @lengthOf(string_)
    char[10] options1 ``,
    packetx {
        zchar[10] i64_,// 50% %s
    },
    @tag(007)
    @leftPad('0')
    float64 BodyLength,
}

options {
    f32a = ""abc"";
}

root packet roots {
    int32 x_y_z `crlf
    line`,
}")).
Eval vm_compute in ("<<<M284>>>" ++ check (runes_of_ascii "root packet Pad {	} packet a1 {
    repeat int64
    o
    `it's` // `tick` ""quote"" 'q'
,match
    MetaDataX as asx{// " ++ [27880; 37322]%N ++ runes_of_ascii "
""1"" :i64_ 00: MetaDataX
    , 007 : calculatedFrom ,[255  ] : calculatedFrom} ,	@leftPad( ) u8 trueish
    , T @lengthOf(
    MetaDataX ) ,  char[ 10
]
f32a@lengthOf(matchKey ), i64_
// trailing space 
//
, } MetaData int
    {// @lengthOf(
MetaDataX float `// not a comment`, metadata
//x
// " ++ [128512]%N ++ runes_of_ascii " emoji
matchKey `crlf
line`
, stringy
Packet, string	BodyLength	`" ++ [28040; 24687; 31867; 22411]%N ++ runes_of_ascii "`  , } packet pack {
string
//	t
// `tick` ""quote"" 'q'
Logon @calculatedFrom("""" ) ,  @lengthOf( roots //	t
)
f64 u8x , match
asx as rootA {
    """"	: msg_type
}  , BodyLength@lengthOf( float)
`it's`
// c
// " ++ [27880; 37322]%N ++ runes_of_ascii "
, @lengthOf(falsey // 50% %s
)repeat i64 f32a ,  @tag(	0) A@lengthOf(
i8i8 )`doc`
,pack @lengthOf( msg_type ) `tab	here`  , }
")).
Eval vm_compute in ("<<<M768>>>" ++ check (runes_of_ascii "  packet
tag {@leftPad
    ( ) i16 stringy ,
char[]
packetx @calculatedFrom(""// no comment""
),  @lengthOf(  float) repeat int64
As `" ++ [28040; 24687; 31867; 22411]%N ++ runes_of_ascii "` , @calculatedFrom( """ ++ [28040; 24687]%N ++ runes_of_ascii """ )
zchar[ 42] trueish, charz
    //
    T ,crc uint8x
, f32a
`two words`, } packet MetaDataX
{char[ 0123456789 ]u128@calculatedFrom( ""x y"" ) ,}root
packet i8i8 {
packetx
uint8x
    , asx  { zchar[ 255 ]leftPad @calculatedFrom(	""\n"" ) ,  float64
    i8i8@calculatedFrom(
""packet"" ) , repeat i8// @lengthOf(
zchar, } ,@calculatedFrom( ""`tick`"" ) zchar[00 ]
chars @calculatedFrom( """ ++ [28040; 24687]%N ++ runes_of_ascii """ ) `u8 x,`
    , f32 BodyLength
    @lengthOf(calculatedFrom) `" ++ [28040; 24687; 31867; 22411]%N ++ runes_of_ascii "` ,
    uint32  MetaDataX
, } packet Foo { @rightPad (	)
@rightPad (
) uint64// 50% %s
u8x, }options
    {	u8x =
true	falsey
=
    char[ // " ++ [27880; 37322]%N ++ runes_of_ascii "
255
] //	t
} // trailing space ")).
Eval vm_compute in ("<<<M1295>>>" ++ check (runes_of_ascii "packet packetx
    {
@calculatedFrom(
    ""a\\"" ) T @calculatedFrom(
    ""a\\""
    )`" ++ [28040; 24687; 31867; 22411]%N ++ runes_of_ascii "`
,  }
packet charz { @rightPad
(	) @lengthOf(msg_type )
    @tag(  10) u64 Header @lengthOf(charz ) ,
}
    packet u{ repeat
lengthOf {
matchKey @lengthOf( o
    ) `tab	here`
    , } ,repeat
u32	As`" ++ [28040; 24687; 31867; 22411]%N ++ runes_of_ascii "`,@tag( 4294967296)
    @rightPad (' ')zchar[ 255] // `tick` ""quote"" 'q'
packetx @lengthOf(// trailing space 
i64_ ) `100% of %d`
, a1
    x `
` ,u32 string_ @lengthOf( u),  @tag(
    3 ) packetx
    // a // b
    @lengthOf( Packet)`u8 x,` // @lengthOf(
,
    f32a @lengthOf(  falsey),
    trueish
{ char[ // " ++ [27880; 37322]%N ++ runes_of_ascii "
00 ] u128 ``,	repeat charz , char[
    7 ] len
`it's` , MetaDataX options1 , } , i64 /// triple
Z9_ ,int32
Pad //	t
@lengthOf( Foo)`u8 x,` ,
}
")).
Eval vm_compute in ("<<<M24>>>" ++ check (runes_of_ascii "options {
o
    = i16 ;
roots
    = //	t
255
    ; rootA =
char[] ; options1 =u32 ;zchar
    = ""`tick`"" ;} root
// packet A { u8 x, }
// packet A { u8 x, }
packet /// triple
options1 {repeat int64  BodyLength
, match
len
    as uint8x {
    ""a	b"": lengthOf	,  ""\" ++ [233]%N ++ runes_of_ascii """: // " ++ [27880; 37322]%N ++ runes_of_ascii "
pack
    [ ""x y"" ,
""packet"" ,""" ++ [128512]%N ++ runes_of_ascii """  ,""\" ++ [233]%N ++ runes_of_ascii """ ,
    255 ,  ""{,}"" ]  : lengthOf  , [""abc"" ,
    00/// triple
,""a\\"" ,
    ""// no comment"" , 00 ,
    007 ,  0	, ""packet"" // " ++ [128512]%N ++ runes_of_ascii " emoji
]: Packet } ,@leftPad// @lengthOf(
( )
u i64_ , repeat Z9_ { match f32a as
    Packet{ """ ++ [28040; 24687]%N ++ runes_of_ascii """ : chars// @lengthOf(
,
    } , // trailing space 
} ,
    } packet // a // b
a1// trailing space 
{ int16
    msg_type `it's` , repeat uint16 stringy // a // b
,
    }
")).
Eval vm_compute in ("<<<M356>>>" ++ check (runes_of_ascii "root packet f32a
{ repeat Packet string_ ,char[]// trailing space 
packetx,
    @calculatedFrom(""abc"" )
A// a // b
A  ,@lengthOf(
// " ++ [27880; 37322]%N ++ runes_of_ascii "
// `tick` ""quote"" 'q'
crc	) repeat T , }
    /// triple
    options{
    calculatedFrom =	0 ; i64_ /// triple
=/// triple
"""" ;
string_ = ' ' ;
rootA
    = """ ++ [233]%N ++ runes_of_ascii "t" ++ [233]%N ++ runes_of_ascii """ ;// `tick` ""quote"" 'q'
} // c
root
packet a1	{ string
o `" ++ [28040; 24687; 31867; 22411]%N ++ runes_of_ascii "` , // @lengthOf(
u16 matchKey
    // packet A { u8 x, }
    `crlf
line`
    // trailing space 
    , @leftPad (	'0' )
    string_`
` , } packet //
len { // " ++ [27880; 37322]%N ++ runes_of_ascii "
} packet
    // @lengthOf(
    As
    { @lengthOf(
f32a) @calculatedFrom( // 50% %s
""it's""
) char[]
// c
// @lengthOf(
Pad
    // " ++ [128512]%N ++ runes_of_ascii " emoji
    `" ++ [233]%N ++ runes_of_ascii "`	,
}
")).
Eval vm_compute in ("<<<M196>>>" ++ check (runes_of_ascii "root packet
options1 { float	@calculatedFrom( ""it's"")`// not a comment`
, u64 Packet // `tick` ""quote"" 'q'
`// not a comment`,repeat //	t
repeatCount
// @lengthOf(
// packet A { u8 x, }
A `
` ,
@lengthOf( f32a ) repeat
stringy asx
, //x
int64//x
crc@calculatedFrom(
"""" )`u8 x,`
, match rootA as u { [ ""1""
    // 50% %s
    , ""a\""b""]
: string_, }
,	zchar[
// a // b
// a // b
65535 ] roots @calculatedFrom( ""CRC32"" /// triple
)`{ , }` , i32 rootA , } MetaData tag { body metadata , char[	00 ]body `" ++ [233]%N ++ runes_of_ascii "` ,
uint8 charz,
    // " ++ [128512]%N ++ runes_of_ascii " emoji
    zchar[10	] x_y_z ,i8 zchar  ,float32 uint8x `tab	here` ,  } MetaData
    x_y_z
    {
chars a1, string Foo
    `a\`, }")).
Eval vm_compute in ("<<<M604>>>" ++ check (runes_of_ascii "packet T {
    u8 Packet, @leftPad
    (' ' ) match  o as BodyLength{
    [ //	t
""it's""]
/// triple
//
: charz 0 :  T, ""`tick`"" : stringy } //	t
, Logon
    A	,
} root packet Logon
    {@lengthOf( u8x /// triple
) repeat metadata Logon  `tab	here`
,@lengthOf(x ) @tag(// packet A { u8 x, }
42 )
@leftPad
// c
// a // b
(
'\x00' ) _x
    @calculatedFrom(""" ++ [128512]%N ++ runes_of_ascii """ ) // @lengthOf(
, zchar[ 0
] asx
    , repeat  char  o , body
Logon,  @tag(0123456789 )repeat lengthOf // " ++ [128512]%N ++ runes_of_ascii " emoji
{
    repeat asx
tag , // @lengthOf(
lengthOf // a // b
`line1
line2`
    // `tick` ""quote"" 'q'
    ,
} , _x ,f64 roots @calculatedFrom( ""a\""b""	)  ,}
")).
Eval vm_compute in ("<<<M141>>>" ++ check (runes_of_ascii "root packet chars
{@calculatedFrom("""" // c
) char[] Foo@lengthOf(  Pad
) ,
//x
// trailing space 
match
x as
pack { ""CRC32"" : u8x,
    },asx `" ++ [28040; 24687; 31867; 22411]%N ++ runes_of_ascii "`, @rightPad ( )
    @calculatedFrom( ""\n"") uint8 zchar // @lengthOf(
`line1
line2` // @lengthOf(
,@lengthOf( x ) f32 Pad, match falsey as
    BodyLength { """ ++ [233]%N ++ runes_of_ascii "t" ++ [233]%N ++ runes_of_ascii """ // @lengthOf(
: charz
    10 : roots	,
    10 :x_y_z
, ""`tick`""  :
_x,""// no comment"" : // 50% %s
chars[10 , 1
    ] : Foo
, } ,	repeat u64 u8x ``
, } options
    // @lengthOf(
    { Logon =
    // trailing space 
    zchar[
    //x
    10
] zchar =
    char[10
    ]
;Packet	= 42	;	}
")).
Eval vm_compute in ("<<<M614>>>" ++ check (runes_of_ascii "packet
_x{ @tag( 10 // " ++ [128512]%N ++ runes_of_ascii " emoji
)
    repeat asx //
{repeat u8 As	,/// triple
zchar[1
]	falsey ``  ,repeat string
len
,//	t
repeat calculatedFrom
    options1 ,
},	zchar
@calculatedFrom(
    ""{,}"" ) , @rightPad( ) Pad ,int64
charz
    // `tick` ""quote"" 'q'
    , @lengthOf(o ) //x
match options1 // a // b
as As {255:
u8x , """"	:
    uint8x ,
    [ 007, ""`tick`"", 0123456789
] :T , ""\" ++ [233]%N ++ runes_of_ascii """ :
As 7 : Z9_ , }
// trailing space 
/// triple
, @leftPad ( '0' )char[ 7 ]asx`{ , }` , float32 metadata @calculatedFrom(
""\n""	), @tag( 1
    )repeat
    // 50% %s
    len
,
}
")).
Eval vm_compute in ("<<<M399>>>" ++ check (runes_of_ascii "// " ++ [27880; 37322]%N ++ runes_of_ascii "
root
packet calculatedFrom
    {
metadata ,@calculatedFrom(/// triple
""\n"" ) string i8i8 `say ""hi""` ,  float64 /// triple
roots	`two words`
,match a1
as float { [
42 ]
:options1
"""" : msg_type , [ ""x y"" , 4294967296,	00 , ""abc"", """ ++ [233]%N ++ runes_of_ascii "t" ++ [233]%N ++ runes_of_ascii """	] :  Logon,}
    ,
}packet leftPad  {@leftPad
( ) match
    A as u {
    ""packet"" : a1
    , // packet A { u8 x, }
} ,stringy { match o  as int
{ [ // " ++ [128512]%N ++ runes_of_ascii " emoji
00, 4294967296 , ""it's""
, 1 // trailing space 
, 3 ,"""" ] : A
    007 :// c
uint8x,} , a1 f32a,	} ,asx
    // packet A { u8 x, }
    As, } 	 ")).
Eval vm_compute in ("<<<M80>>>" ++ check (runes_of_ascii "// " ++ [27880; 37322]%N ++ runes_of_ascii "
MetaData x_y_z {zchar[  65535 ]
len
//x
// " ++ [27880; 37322]%N ++ runes_of_ascii "
`// not a comment`
// " ++ [27880; 37322]%N ++ runes_of_ascii "
//x
,u16 zchar `
`
,}
packet matchKey { }
packet
    // 50% %s
    int  {
@leftPad(
'0' )f32a//
,
@calculatedFrom( ""abc"" ) match len as BodyLength{7 : Logon,10
:
    x
    //	t
    } ,
@calculatedFrom(
    ""{,}"" /// triple
) match chars	as Packet {
//
// c
0123456789 : Pad 0123456789 : falsey [ 4294967296
,	3 , 4294967296
    ,
0 // a // b
, ""1"" ] : roots ,
""a\\"" :
_x 3 :
    packetx} ,
string  u128 @lengthOf( roots )
, }
// packet A { u8 x, }
")).
Eval vm_compute in ("<<<M449>>>" ++ check (runes_of_ascii "root
    packet	u128 {  @calculatedFrom(
//	t
//
""\" ++ [233]%N ++ runes_of_ascii """
)
    // " ++ [128512]%N ++ runes_of_ascii " emoji
    u8x	i8i8	, @lengthOf( float
    // @lengthOf(
    ) i8i8	, @rightPad
( '0' ) // " ++ [27880; 37322]%N ++ runes_of_ascii "
u64 Logon @calculatedFrom( ""CRC32"") , zchar ,
    }	packet A
    {
@calculatedFrom(
""\" ++ [233]%N ++ runes_of_ascii """ )
match
// a // b
// `tick` ""quote"" 'q'
matchKey as Header {0: zchar	0123456789 : stringy }
, @calculatedFrom( ""a\""b"" ) match
pack	as lengthOf	{ 0
:// 50% %s
int
    , 0123456789 :leftPad """" : trueish, 4294967296: u /// triple
, } , Packet `tab	here` , }
")).
Eval vm_compute in ("<<<M966>>>" ++ check (runes_of_ascii "//x
packet // `tick` ""quote"" 'q'
Packet {
    // c
    @tag( 3
    )repeatCount {
    u64 o
    @calculatedFrom(""" ++ [28040; 24687]%N ++ runes_of_ascii """ )
    // a // b
    `
` ,
len
    // a // b
    `
` ,} ,  } MetaData stringy{ }MetaData tag  { float32 chars `doc`, // c
}root packet  Packet {
    @leftPad ('\x00'
) repeat rootA T `100% of %d` , // packet A { u8 x, }
@leftPad
(
)
i64 leftPad @calculatedFrom( ""packet"" )
,repeat Packet crc ,
}  MetaData Header { i32 //x
leftPad
    , // packet A { u8 x, }
}")).
Eval vm_compute in ("<<<M508>>>" ++ check (runes_of_ascii "packet MetaDataX { T
u128 `it's` ,
uint32
    options1 @calculatedFrom(""abc""
    ) `" ++ [233]%N ++ runes_of_ascii "`, rootA
    @calculatedFrom(
""" ++ [233]%N ++ runes_of_ascii "t" ++ [233]%N ++ runes_of_ascii """
)
,  repeat
Logon
{ match a1  as _x {	[ """"
    , ""abc"" , ""1""
,10 , 1 //	t
]
    : i64_ , [ // " ++ [128512]%N ++ runes_of_ascii " emoji
""a\\"" ,
""" ++ [233]%N ++ runes_of_ascii "t" ++ [233]%N ++ runes_of_ascii """ ,""CRC32"" , 10, // `tick` ""quote"" 'q'
""""
    ,	65535 , 255 , // @lengthOf(
007
    ] : pack , }
    ,int32 packetx @calculatedFrom(""a\""b"" ) `" ++ [28040; 24687; 31867; 22411]%N ++ runes_of_ascii "` ,char[
7]falsey , msg_type f32a  `" ++ [28040; 24687; 31867; 22411]%N ++ runes_of_ascii "` , } , repeat body
`
` , } 	 ")).
Eval vm_compute in ("<<<M3946>>>" ++ check (runes_of_ascii "//	t
packet uint8x

    { match
// c
  lengthOf  as	// 50% %s
    int  {

[

""x y""
    , 
00 ]
:	metadata

    00

    :
	lengthOf	// 50% %s
""a\""b""
:
trueish, 	 // `tick` ""quote"" 'q'
	[
    ""abc"" ] 
:
_x ""`tick`"":
    Packet
,

    42

    :  int ,	//x
  }
,

@calculatedFrom(  """ ++ [28040; 24687]%N ++ runes_of_ascii """
	)

f64

metadata 	 // a // b
@lengthOf(
	calculatedFrom )
,}options

    {  }
    packet	zchar {

Foo`crlf
line`// @lengthOf(

  ,  }
")).
Eval vm_compute in ("<<<M1037>>>" ++ check (runes_of_ascii "
root
packet body {	uint32 BodyLength , @calculatedFrom( ""abc"")
float64
metadata @calculatedFrom( """ ++ [28040; 24687]%N ++ runes_of_ascii """
)//	t
,char[
// @lengthOf(
/// triple
7 // 50% %s
] //	t
falsey ,
zchar[
    // trailing space 
    65535 ] leftPad  @calculatedFrom( ""`tick`""
) ,
repeat
string  T
`it's` ,@lengthOf( packetx
    )
Logon @calculatedFrom(""\" ++ [233]%N ++ runes_of_ascii """ ) `" ++ [233]%N ++ runes_of_ascii "`//x
, } options {
int=	false Logon = 10 f32a =true ;
    uint8x= ' ' /// triple
; } //")).
Eval vm_compute in ("<<<M295>>>" ++ check (runes_of_ascii "packet
BodyLength
{ zchar[ 7] leftPad
,@tag( 0123456789  ) @calculatedFrom(  ""`tick`""
    ) Foo T
    , zchar[ 00 ] charz @lengthOf( // trailing space 
tag ) , @lengthOf(
zchar
    // " ++ [128512]%N ++ runes_of_ascii " emoji
    ) char[65535]
u128 @lengthOf(	rootA )  ,
//x
// 50% %s
int64
    Header// c
,
    // packet A { u8 x, }
    @calculatedFrom(
    ""\n""
// @lengthOf(
// " ++ [27880; 37322]%N ++ runes_of_ascii "
) match
leftPad  as
    pack {4294967296  : options1 } ,  }")).
Eval vm_compute in ("<<<M1364>>>" ++ check (runes_of_ascii "MetaData x
    {
msg_type Z9_ ,
leftPad int `{ , }`// " ++ [27880; 37322]%N ++ runes_of_ascii "
,
char[ 007 ] asx `tab	here`
    ,	crc rootA `doc`, trueish _x `two words` ,} root packet body { @lengthOf(
rootA )
repeat char[ 7]metadata
,match
    charz as stringy
{ 42 :rootA 0123456789// trailing space 
:
tag
    0 /// triple
: i64_ ,[ ""1""  ] : matchKey // 50% %s
,
    ""// no comment"":
    body }
//x
// packet A { u8 x, }
,}
")).
Eval vm_compute in ("<<<M111>>>" ++ check (runes_of_ascii "packet  f32a { // packet A { u8 x, }
repeat
int ,repeat repeatCount { u32 charz @calculatedFrom(""abc"" ) ,
    } ,
}MetaData
    // packet A { u8 x, }
    chars // 50% %s
{
    // 50% %s
    int64  float	`line1
line2`, len T
    `doc`,char[] Packet`tab	here` ,	zchar[10]
// c
// " ++ [27880; 37322]%N ++ runes_of_ascii "
a1 , repeatCount A , u16 uint8x
// `tick` ""quote"" 'q'
// packet A { u8 x, }
`line1
line2` , }
")).
Eval vm_compute in ("<<<M4486>>>" ++ check (runes_of_ascii "MetaData body {
    pack MetaDataX,
}

packet x_y_z {
    @rightPad()
    @calculatedFrom(""packet"")
    @lengthOf(chars)
    uint32 As,
    @calculatedFrom(""{,}"")
    trueish,
    @tag(007)
    match Pad as zchar {
        255 : string_,
        [""`tick`"", """ ++ [233]%N ++ runes_of_ascii "t" ++ [233]%N ++ runes_of_ascii """, 0123456789, 00] : crc,
        // @lengthOf(
        [255, 10, 0123456789, ""abc""] : Packet,
    },
}")).
Eval vm_compute in ("<<<M1043>>>" ++ check (runes_of_ascii "// " ++ [27880; 37322]%N ++ runes_of_ascii "
root packet Pad {
@lengthOf(calculatedFrom ) string crc , repeat
uint32 string_
    , repeat char[
0123456789 ] As `" ++ [28040; 24687; 31867; 22411]%N ++ runes_of_ascii "` , // @lengthOf(
@calculatedFrom( ""\" ++ [233]%N ++ runes_of_ascii """
) Logon
, @lengthOf(
    chars ) u16 int  @calculatedFrom( """ ++ [233]%N ++ runes_of_ascii "t" ++ [233]%N ++ runes_of_ascii """ ) , zchar[ 4294967296] body ,
repeat int64
    int `doc`,uint8 Packet ,@tag( 1 )
    float32 matchKey //	t
`" ++ [233]%N ++ runes_of_ascii "`
,}")).
Eval vm_compute in ("<<<M832>>>" ++ check (runes_of_ascii "
options{Header= ' ';
u128 = 42
;
    // " ++ [128512]%N ++ runes_of_ascii " emoji
    } options
{ T
= ""\" ++ [233]%N ++ runes_of_ascii """ BodyLength = 0123456789 Z9_
=
    /// triple
    string
;
leftPad =
// " ++ [128512]%N ++ runes_of_ascii " emoji
//
255 ; x=  ' '
/// triple
// `tick` ""quote"" 'q'
; // " ++ [27880; 37322]%N ++ runes_of_ascii "
} packet Header
    {
}	root packet	T{ @lengthOf( calculatedFrom )float64 Z9_ @calculatedFrom(
    """ ++ [28040; 24687]%N ++ runes_of_ascii """
    )
    , }")).
Eval vm_compute in ("<<<M3310>>>" ++ check (runes_of_ascii "// top
options // c0
{ // c1
u // c2
= // c3
00 // c4
stringy // c5
= // c6
'0' // c7
} // c8
packet // c9
stringy // c10
{ // c11
} // c12
MetaData // c13
repeatCount // c14
{ // c15
MetaDataX // c16
leftPad // c17
, // c18
string // c19
body // c20
`
` // c21
, // c22
metadata // c23
options1 // c24
, // c25
} // c26
")).
Eval vm_compute in ("<<<M1063>>>" ++ check (runes_of_ascii "//
root
    packet
Z9_ { @tag(	10)u32 A  @lengthOf( body )
, @leftPad ()zchar[3
]	matchKey,  repeat lengthOf { u8
    asx // a // b
`two words` , } ,@tag(0123456789  ) repeat
    //
    char[ 42  ]rootA `say ""hi""` , stringy
    `line1
line2`
, @leftPad // @lengthOf(
( ' '  )
    repeat
    i32 trueish , }")).
Eval vm_compute in ("<<<M157>>>" ++ check (runes_of_ascii "root packet u
{
    // c
    @lengthOf( falsey ) @leftPad
(
    '\x00' )	@tag(65535
    )	char[ 007] A @calculatedFrom(""a\\"" ),} packet
x_y_z {repeat i64 tag , } root	packet
    crc { @rightPad
( )
calculatedFrom @calculatedFrom( """ ++ [128512]%N ++ runes_of_ascii """ ) ,
uint32 rootA @lengthOf(msg_type	) `// not a comment`	, }")).
Eval vm_compute in ("<<<M1962>>>" ++ check (runes_of_ascii "packet	packetx { // trailing space 
x_y_z
{
string
charz ,
string x// @lengthOf(
`two words`
    ,  u8x { // `tick` ""quote"" 'q'
charz `100% of %d` // packet A { u8 x, }
,}// " ++ [27880; 37322]%N ++ runes_of_ascii "
,} , }
    // a // b
    packet metadata metadata {  @leftPad ( '0') repeat i32 options1 ,u64 uint8x , }
")).
Eval vm_compute in ("<<<M1284>>>" ++ check (runes_of_ascii "options
{msg_type
    /// triple
    = char[  42]
; Logon =
    //	t
    false ; // c
lengthOf =	""" ++ [233]%N ++ runes_of_ascii "t" ++ [233]%N ++ runes_of_ascii """
;	u128=  int8	}
packet Logon  { pack options1 `tab	here` , } options {  } packet
body
{ Pad  @calculatedFrom(
""// no comment""
//x
/// triple
) , Packet ,
} // packet A { u8 x, }")).
Eval vm_compute in ("<<<M1942>>>" ++ check (runes_of_ascii "packet	packetx { // trailing space 
x_y_z
{
string
charz ,
string x// @lengthOf(
`two words`
    ,  u8x { // `tick` ""quote"" 'q'
charz `100% of %d` // packet A { u8 x, }
,}// " ++ [27880; 37322]%N ++ runes_of_ascii "
,} } , }
    // a // b
    packet metadata {  @leftPad ( '0') repeat i32 options1 ,u64 uint8x , }
")).
Eval vm_compute in ("<<<M1883>>>" ++ check (runes_of_ascii "packet	packetx { // trailing space 
x_y_z
{
string
charz string
, x// @lengthOf(
`two words`
    ,  u8x { // `tick` ""quote"" 'q'
charz `100% of %d` // packet A { u8 x, }
,}// " ++ [27880; 37322]%N ++ runes_of_ascii "
,} , }
    // a // b
    packet metadata {  @leftPad ( '0') repeat i32 options1 ,u64 uint8x , }
")).
Eval vm_compute in ("<<<M2050>>>" ++ check (runes_of_ascii "packet	packetx { // trailing space 
x_y_z
{
string
charz ,
string x// @lengthOf(
`two words`
    ,  u8x { // `tick` ""quote"" 'q'
charz `100% of %d` // packet A { u8 x, }
,}// " ++ [27880; 37322]%N ++ runes_of_ascii "
,} , }
    // a // b
    packet metadata {  @leftPad ( '0') repeat i32 options1 ,u64 caf" ++ [233]%N ++ runes_of_ascii "_1 , }
")).
Eval vm_compute in ("<<<M1874>>>" ++ check (runes_of_ascii "packet	packetx { // trailing space 
x_y_z
{
i32
charz ,
string x// @lengthOf(
`two words`
    ,  u8x { // `tick` ""quote"" 'q'
charz `100% of %d` // packet A { u8 x, }
,}// " ++ [27880; 37322]%N ++ runes_of_ascii "
,} , }
    // a // b
    packet metadata {  @leftPad ( '0') repeat i32 options1 ,u64 uint8x , }
")).
Eval vm_compute in ("<<<M1956>>>" ++ check (runes_of_ascii "packet	packetx { // trailing space 
x_y_z
{
string
charz ,
string x// @lengthOf(
`two words`
    ,  u8x { // `tick` ""quote"" 'q'
charz `100% of %d` // packet A { u8 x, }
,}// " ++ [27880; 37322]%N ++ runes_of_ascii "
,} , }
    // a // b
     metadata {  @leftPad ( '0') repeat i32 options1 ,u64 uint8x , }
")).
Eval vm_compute in ("<<<M1152>>>" ++ check (runes_of_ascii "options { repeatCount	= ""// no comment"" ; _x =u32 ;zchar = char } //x
root packet chars
{u16
    Pad@lengthOf(rootA
    // a // b
    )
    `u8 x,`
    , int16 u8x @calculatedFrom( ""it's""	) , } MetaData
    // " ++ [27880; 37322]%N ++ runes_of_ascii "
    As
    { char[] x ,string A `line1
line2`
,
    }")).
Eval vm_compute in ("<<<M2167>>>" ++ check (runes_of_ascii "packet// packet A { u8 x, }
repeatCount	{// packet A { u8 x, }
@leftPad ( '\x00'
) repeat u8x MetaDataX `crlf
line`,
    repeat
    char[] MetaDataX
    ,
u64	uint8x@calculatedFrom(""a\""b""
// c
// packet A { u8 x, }
) `tab	here`
,//
char[MetaData pack
    {
    }
")).
Eval vm_compute in ("<<<M2205>>>" ++ check (runes_of_ascii "packet// packet A { u8 x, }
repeatCount	{// packet A { u8 x, }
@leftPad ( '\x00'
) repeat u8x MetaDataX `crlf
line`,
    repeat
    char[] MetaDataX
    ,
u64	uint8x$ @calculatedFrom(""a\""b""
// c
// packet A { u8 x, }
) `tab	here`
,//
}MetaData pack
    {
    }
")).
Eval vm_compute in ("<<<M2091>>>" ++ check (runes_of_ascii "packet// packet A { u8 x, }
repeatCount	{// packet A { u8 x, }
@leftPad ( '\x00'
) repeat MetaDataX u8x `crlf
line`,
    repeat
    char[] MetaDataX
    ,
u64	uint8x@calculatedFrom(""a\""b""
// c
// packet A { u8 x, }
) `tab	here`
,//
}MetaData pack
    {
    }
")).
Eval vm_compute in ("<<<M2164>>>" ++ check (runes_of_ascii "packet// packet A { u8 x, }
repeatCount	{// packet A { u8 x, }
@leftPad ( '\x00'
) repeat u8x MetaDataX `crlf
line`,
    repeat
    char[] MetaDataX
    ,
u64	uint8x@calculatedFrom(""a\""b""
// c
// packet A { u8 x, }
) `tab	here`
,//
MetaData pack
    {
    }
")).
Eval vm_compute in ("<<<M1544>>>" ++ check (runes_of_ascii "packet calculatedFrom
{ @calculatedFrom( ""a\\"" ) zchar[ 4294967296 ]
calculatedFrom@lengthOf( pack )	`100% of %d` ,char[]body@calculatedFrom( ""// no comment"" )  ,
@tag( 007) //x
int8
leftPad`it's` `it's` , repeat pack
    { repeat char[ 3] body
,},
}")).
Eval vm_compute in ("<<<M2005>>>" ++ check (runes_of_ascii "packet	packetx { // trailing space 
x_y_z
{
string
charz ,
string x// @lengthOf(
`two words`
    ,  u8x { // `tick` ""quote"" 'q'
charz `100% of %d` // packet A { u8 x, }
,}// " ++ [27880; 37322]%N ++ runes_of_ascii "
,} , }
    // a // b
    packet metadata {  @leftPad ( '0') repeat i32")).
Eval vm_compute in ("<<<M1529>>>" ++ check (runes_of_ascii "packet calculatedFrom
{ @calculatedFrom( ""a\\"" ) zchar[ 4294967296 ]
calculatedFrom@lengthOf( pack )	`100% of %d` ,char[]body@calculatedFrom( ""// no comment"" )  ,
@tag( 007) ) //x
int8
leftPad`it's` , repeat pack
    { repeat char[ 3] body
,},
}")).
Eval vm_compute in ("<<<M1626>>>" ++ check (runes_of_ascii "packet calculatedFrom
{ @calculatedFrom( ""a\\"" ) zchar[ 4294967296 ]
calculatedFrom@lengthOf( pack )	`100% of %d` ,char[]body@calculatedFrom( ""// no comment"" )  ,
@tag( 007) //x
int8
leftPad`it's` , repeat pack
    { repeat char[ 3""] body
,},
}")).
Eval vm_compute in ("<<<M1510>>>" ++ check (runes_of_ascii "packet calculatedFrom
{ @calculatedFrom( ""a\\"" ) zchar[ 4294967296 ]
calculatedFrom@lengthOf( pack )	`100% of %d` ,char[]body@calculatedFrom( ""// no comment"" ,  )
@tag( 007) //x
int8
leftPad`it's` , repeat pack
    { repeat char[ 3] body
,},
}")).
Eval vm_compute in ("<<<M1548>>>" ++ check (runes_of_ascii "packet calculatedFrom
{ @calculatedFrom( ""a\\"" ) zchar[ 4294967296 ]
calculatedFrom@lengthOf( pack )	`100% of %d` ,char[]body@calculatedFrom( ""// no comment"" )  ,
@tag( 007) //x
int8
leftPad`it's`  repeat pack
    { repeat char[ 3] body
,},
}")).
Eval vm_compute in ("<<<M782>>>" ++ check (runes_of_ascii "packet falsey { _x, @calculatedFrom(// trailing space 
""" ++ [128512]%N ++ runes_of_ascii """ ) // " ++ [27880; 37322]%N ++ runes_of_ascii "
int32 T
    , // c
i64 trueish
, uint64 Logon
    `doc` , } packet len	{  }
MetaData// c
x{
stringy
// 50% %s
// c
msg_type
,
// packet A { u8 x, }
// packet A { u8 x, }
}
")).
Eval vm_compute in ("<<<M1448>>>" ++ check (runes_of_ascii "packet calculatedFrom
{ @calculatedFrom( ""a\\"" ) zchar[  ]
calculatedFrom@lengthOf( pack )	`100% of %d` ,char[]body@calculatedFrom( ""// no comment"" )  ,
@tag( 007) //x
int8
leftPad`it's` , repeat pack
    { repeat char[ 3] body
,},
}")).
Eval vm_compute in ("<<<M2163>>>" ++ check (runes_of_ascii "packet// packet A { u8 x, }
repeatCount	{// packet A { u8 x, }
@leftPad ( '\x00'
) repeat u8x MetaDataX `crlf
line`,
    repeat
    char[] MetaDataX
    ,
u64	uint8x@calculatedFrom(""a\""b""
// c
// packet A { u8 x, }
) `tab	here`")).
Eval vm_compute in ("<<<M4154>>>" ++ check (runes_of_ascii "packet repeatCount {
    // packet A { u8 x, }
    @leftPad('\x00')
    repeat f32 MetaDataX `crlf
        line`,
    repeat char[] MetaDataX,
    u64 uint8x @calculatedFrom(""a\""b"") `tab	here`,//
}

MetaData pack {
}")).
Eval vm_compute in ("<<<M578>>>" ++ check (runes_of_ascii "
root
packet lengthOf
    // @lengthOf(
    {} options  { zchar =
    '\x00' crc
= ""it's""
u
= zchar[
1]
; //	t
metadata // c
= false trueish
    = // 50% %s
char[]
; } options { // `tick` ""quote"" 'q'
}
")).
Eval vm_compute in ("<<<M482>>>" ++ check (runes_of_ascii "
packet As {} MetaData
leftPad {}
MetaData asx {
    u64 MetaDataX `{ , }`
    ,char
Packet, u8x i64_ ,
    char[] options1 `
`
, asx trueish
    `// not a comment` // a // b
, string f32a`" ++ [233]%N ++ runes_of_ascii "` ,}
")).
Eval vm_compute in ("<<<M618>>>" ++ check (runes_of_ascii "
packet
repeatCount {
} MetaData
T //x
{
float64 rootA `doc`//x
, // " ++ [128512]%N ++ runes_of_ascii " emoji
body MetaDataX
    //
    ,u32 /// triple
float , uint32
T,char[]_x
    /// triple
    ,
    uint32 trueish`" ++ [233]%N ++ runes_of_ascii "` ,}")).
Eval vm_compute in ("<<<M280>>>" ++ check (runes_of_ascii "
root
// packet A { u8 x, }
// packet A { u8 x, }
packet len { char[
42  ]float
    `// not a comment` ,	} packet lengthOf
{ } options  {charz = true trueish=
1
; stringy=
' '
;
}

")).
Eval vm_compute in ("<<<M1064>>>" ++ check (runes_of_ascii "
packet
    T  {
    //x
    char[]Pad `tab	here`
,
// 50% %s
// " ++ [27880; 37322]%N ++ runes_of_ascii "
@lengthOf(
//
// c
msg_type
// " ++ [27880; 37322]%N ++ runes_of_ascii "
//x
)  @tag( 007 )
uint8x
{// " ++ [27880; 37322]%N ++ runes_of_ascii "
uint8 _x
,}
,
    }options// " ++ [27880; 37322]%N ++ runes_of_ascii "
{ }

")).
Eval vm_compute in ("<<<M4386>>>" ++ check (runes_of_ascii "// top
MetaData float {
    // c2
    uint8 BodyLength,// c5
}// c6

MetaData charz {
    // c9
    float32 trueish `a\`,// c13
    i16 metadata `say ""hi""`,// c17
}// c18")).
Eval vm_compute in ("<<<M2386>>>" ++ check (runes_of_ascii "
packet packet MetaDataX
{
    @leftPad
( // a // b
'0'
) i8 u @lengthOf(
MetaDataX
    ) `say ""hi""` ,	} MetaData BodyLength {
    asx
x_y_z `" ++ [233]%N ++ runes_of_ascii "`
, uint64 u128 , }
")).
Eval vm_compute in ("<<<M4540>>>" ++ check (runes_of_ascii "options {o 
=

1;rootA
=	4294967296
    pack
= 007  charz  // @lengthOf(

=
""" ++ [128512]%N ++ runes_of_ascii """
	}
options{ 
repeatCount
=""it's""	;
charz

    =1
; leftPad =

'\x00' }	// " ++ [27880; 37322]%N ++ runes_of_ascii "
")).
Eval vm_compute in ("<<<M2381>>>" ++ check (runes_of_ascii "
packet MetaDataX
{
    @leftPad
( // a // b
'0'
) i8 u @lengthOf(
MetaDataX
    ) `say ""hi""` ,	} MetaData BodyLength {
    asx
x_y_z `" ++ [233]%N ++ runes_of_ascii "`
, , uint64 u128 , }
")).
Eval vm_compute in ("<<<M4504>>>" ++ check (runes_of_ascii "packet body

    {uint32 metadata	`
`,
    } MetaData body

{
uint16 int
,  }
MetaData
	charz {
	asx  matchKey,i8i8

    int
    ,
string_ msg_type, }")).
Eval vm_compute in ("<<<M1644>>>" ++ check (runes_of_ascii "options { } } packet Packet{char[] i64_ ,
@tag(
    255) match
crc as i8i8{""{,}"" : trueish """" : Pad , ""a\\"" :
Foo ,
    1 :packetx
, """ ++ [128512]%N ++ runes_of_ascii """ : trueish , } , }")).
Eval vm_compute in ("<<<M2431>>>" ++ check (runes_of_ascii "
packet MetaDataX
{
    @leftPad
( // a // b
'0'
) i8 u @lengthOf(
MetaDataX
     `say ""hi""` ,	} MetaData BodyLength {
    asx
x_y_z `" ++ [233]%N ++ runes_of_ascii "`
, uint64 u128 , }
")).
Eval vm_compute in ("<<<M1640>>>" ++ check (runes_of_ascii "options } { packet Packet{char[] i64_ ,
@tag(
    255) match
crc as i8i8{""{,}"" : trueish """" : Pad , ""a\\"" :
Foo ,
    1 :packetx
, """ ++ [128512]%N ++ runes_of_ascii """ : trueish , } , }")).
Eval vm_compute in ("<<<M1789>>>" ++ check (runes_of_ascii "options { } packet Packet{char[] i64_ ,
@tag(
    255) match
crc as i8i8{""{,}"" : trueish """" : Pad , ""a\\"" :
Foo ,
    1 :packetx
""" ++ [128512]%N ++ runes_of_ascii """ , : trueish , } , }")).
Eval vm_compute in ("<<<M1797>>>" ++ check (runes_of_ascii "options { } packet Packet{char[] i64_ ,
@tag(
    255) match
crc as i8i8{""{,}"" : trueish """" : Pad , ""a\\"" :
Foo ,
    1 :packetx
, """ ++ [128512]%N ++ runes_of_ascii """  trueish , } , }")).
Eval vm_compute in ("<<<M4419>>>" ++ check (runes_of_ascii "MetaData	metadata	{ } MetaData

    rootA
{ i8

    i64_, roots options1
	    // c
	`a\`

    ,lengthOf
	Header
,Z9_ 
Foo,	int16 BodyLength 
,	}")).
Eval vm_compute in ("<<<M1717>>>" ++ check (runes_of_ascii "options { } packet Packet{char[] i64_ ,
@tag(
    255) match
crc as i8i8{ : trueish """" : Pad , ""a\\"" :
Foo ,
    1 :packetx
, """ ++ [128512]%N ++ runes_of_ascii """ : trueish , } , }")).
Eval vm_compute in ("<<<M1811>>>" ++ check (runes_of_ascii "options { } packet Packet{char[] i64_ ,
@tag(
    255) match
crc as i8i8{""{,}"" : trueish """" : Pad , ""a\\"" :
Foo ,
    1 :packetx
, """ ++ [128512]%N ++ runes_of_ascii """ : trueish")).
Eval vm_compute in ("<<<M348>>>" ++ check (runes_of_ascii "packet
    options1	{	char[
4294967296] lengthOf `// not a comment` , } options { f32a = true;rootA =
""{,}"" // " ++ [27880; 37322]%N ++ runes_of_ascii "
;
string_ =""1"" ; } // c")).
Eval vm_compute in ("<<<M39>>>" ++ check (runes_of_ascii "options {	o =
//
//	t
zchar[ 255 ] ;BodyLength = f32
// packet A { u8 x, }
// " ++ [27880; 37322]%N ++ runes_of_ascii "
metadata
= ""// no comment"" ; A =""" ++ [233]%N ++ runes_of_ascii "t" ++ [233]%N ++ runes_of_ascii """
; } // @lengthOf(")).
Eval vm_compute in ("<<<M3229>>>" ++ check (runes_of_ascii "// top
MetaData
    // c0
zchar
    // c1
{
    // c2
zchar[
    // c3
3
    // c4
]
    // c5
Pad
    // c6
,
    // c7
}
    // c8
")).
Eval vm_compute in ("<<<M3472>>>" ++ check (runes_of_ascii "
options

{LittleEndian

=true 
;
}
    root

    packet
    P
{	u16
a ,
u32

Sum
	@calculatedFrom(  ""CRC32"" 
)

    ,
	}
")).
Eval vm_compute in ("<<<M3269>>>" ++ check (runes_of_ascii "MetaData metadata { }
// c
MetaData rootA { i8 i64_ , roots options1 `a\` , lengthOf Header , Z9_ Foo , int16 BodyLength , }")).
Eval vm_compute in ("<<<M3301>>>" ++ check (runes_of_ascii "MetaData metadata { } MetaData rootA { i8 i64_ , roots options1 `a\` , lengthOf Header , Z9_ Foo ,
// c
int16 BodyLength , }")).
Eval vm_compute in ("<<<M819>>>" ++ check (runes_of_ascii "options
    {lengthOf// 50% %s
= true
    int //
= // c
""1"" ; string_ =
    //x
    false ; //
msg_type = ""CRC32"" } 	 ")).
Eval vm_compute in ("<<<M3593>>>" ++ check (runes_of_ascii "packet f32a {
    int16 int,
}

MetaData f32a {
    char i8i8,/// triple
    string Pad,
    zchar f32a,
    x T,
}")).
Eval vm_compute in ("<<<M3856>>>" ++ check (runes_of_ascii "  packet 
A
{u16 len
@lengthOf(body )`x
`	,
u32 crc@calculatedFrom( ""CRC32""  ) `x
`

,string	body

    , 
}
")).
Eval vm_compute in ("<<<M3340>>>" ++ check (runes_of_ascii "MetaData float { uint8 BodyLength , } MetaData charz { float32 trueish // c
`a\` , i16 metadata `say ""hi""` , }")).
Eval vm_compute in ("<<<M3026>>>" ++ check (runes_of_ascii "packet A {
    u16 len @lengthOf(body) `a
b`,
    u32 crc @calculatedFrom(""CRC32"") `a
b`,
    string body,
}")).
Eval vm_compute in ("<<<M2775>>>" ++ check (runes_of_ascii "char int64 char[ false uint32 @calculatedFrom( @calculatedFrom( match ' ' u64 @lengthOf( uint64 @leftPad")).
Eval vm_compute in ("<<<M222>>>" ++ check (runes_of_ascii "packet len { } root
    packet
    Foo
{ } packet matchKey
    {char[ 10	]string_ `{ , }`  ,// " ++ [27880; 37322]%N ++ runes_of_ascii "
}
")).
Eval vm_compute in ("<<<M1344>>>" ++ check (runes_of_ascii "packet _x // trailing space 
{// packet A { u8 x, }
} root packet
f32a {
}
// packet A { u8 x, }
")).
Eval vm_compute in ("<<<M3012>>>" ++ check (runes_of_ascii "packet A {
  match k as n {
    [1, 22, 007, 4, 5, 66, 7, 8, 9, 10, 11, 12] : B
    2 : C
  },
}")).
Eval vm_compute in ("<<<M4516>>>" ++ check (runes_of_ascii "  packet
A

{	match 
k  as

n 
{
[
1
,
22	, 
""c c""

    ,4	] 
: B , 2

    : C

},
}
")).
Eval vm_compute in ("<<<M299>>>" ++ check (runes_of_ascii "//
MetaData
//	t
// trailing space 
Z9_ { zchar lengthOf , char[
// " ++ [27880; 37322]%N ++ runes_of_ascii "
// c
255 ]  T ,
}

")).
Eval vm_compute in ("<<<M2216>>>" ++ check (runes_of_ascii "MetaData { _x string x `// not a comment` , string
i64_ // trailing space 
`a\` ,
    }
")).
Eval vm_compute in ("<<<M2247>>>" ++ check (runes_of_ascii "MetaData _x {string x `// not a comment` , char[]
i64_ // trailing space 
`a\` ,
    }
")).
Eval vm_compute in ("<<<M2953>>>" ++ check (runes_of_ascii "packet A {
  match k as n {
    [""a"", 22, ""c c"", 4, ""e"", 66, ""g""] : B
    2 : C
  },
}")).
Eval vm_compute in ("<<<M2973>>>" ++ check (runes_of_ascii "packet A {
  match k as n {
    [1, 22, 007, 4, 5, 66, 7, 8, 9] : B
    2 : C
  },
}")).
Eval vm_compute in ("<<<M1057>>>" ++ check (runes_of_ascii "packet Logon {@leftPad (
    )	int8 calculatedFrom @lengthOf( charz
) //x
, } 	 ")).
Eval vm_compute in ("<<<M4543>>>" ++ check (runes_of_ascii "

  packet
	A	{
B b	`x
`

    ,
B`x
` ,
repeat

B bs

    `x
`

    , } ")).
Eval vm_compute in ("<<<M313>>>" ++ check (runes_of_ascii "// " ++ [27880; 37322]%N ++ runes_of_ascii "
MetaData uint8x { uint64 msg_type , } MetaData x_y_z {Logon metadata, }")).
Eval vm_compute in ("<<<M3373>>>" ++ check (runes_of_ascii "MetaData _x { f64 charz
// c
`tab	here` , } options { BodyLength = """ ++ [233]%N ++ runes_of_ascii "t" ++ [233]%N ++ runes_of_ascii """ ; }")).
Eval vm_compute in ("<<<M4389>>>" ++ check (runes_of_ascii "packet
	o { @tag( // c
    4294967296	) 
options1

@lengthOf(u8x  )`" ++ [233]%N ++ runes_of_ascii "` , }
")).
Eval vm_compute in ("<<<M176>>>" ++ check (runes_of_ascii "MetaData Header { }MetaData//	t
falsey { char[] // " ++ [128512]%N ++ runes_of_ascii " emoji
charz
, }
")).
Eval vm_compute in ("<<<M3401>>>" ++ check (runes_of_ascii "
// c
packet o { @tag( 4294967296 ) options1 @lengthOf( u8x ) `" ++ [233]%N ++ runes_of_ascii "` , }")).
Eval vm_compute in ("<<<M3419>>>" ++ check (runes_of_ascii "packet o { @tag( 4294967296 ) options1 @lengthOf( u8x
// c
) `" ++ [233]%N ++ runes_of_ascii "` , }")).
Eval vm_compute in ("<<<M2190>>>" ++ check (runes_of_ascii "packet// packet A { u8 x, }
repeatCount	{// packet A { u8 x, }
@le")).
Eval vm_compute in ("<<<M3779>>>" ++ check (runes_of_ascii "root packet calculatedFrom {
    len @calculatedFrom(""CRC32""),
}")).
Eval vm_compute in ("<<<M1890>>>" ++ check (runes_of_ascii "packet	packetx { // trailing space 
x_y_z
{
string
charz ,")).
Eval vm_compute in ("<<<M4216>>>" ++ check (runes_of_ascii "options {msg_type // trailing space 
	=

    '\x00'
;
}
")).
Eval vm_compute in ("<<<M1452>>>" ++ check (runes_of_ascii "packet calculatedFrom
{ @calculatedFrom( ""a\\"" ) zchar[")).
Eval vm_compute in ("<<<M3622>>>" ++ check (runes_of_ascii "packet i64_ {
    @tag(0123456789)
    repeat zchar,
}")).
Eval vm_compute in ("<<<M1263>>>" ++ check (runes_of_ascii "MetaData f32a {	body// trailing space 
uint8x ,  }
")).
Eval vm_compute in ("<<<M1447>>>" ++ check (runes_of_ascii "packet calculatedFrom
{ @calculatedFrom( ""a\\"" )")).
Eval vm_compute in ("<<<M2771>>>" ++ check (runes_of_ascii "i16 repeat `a\` uint32 i32 int64 int64 : '0' = :")).
Eval vm_compute in ("<<<M375>>>" ++ check (runes_of_ascii "
MetaData BodyLength// `tick` ""quote"" 'q'
{ }")).
Eval vm_compute in ("<<<M708>>>" ++ check (runes_of_ascii "//x
packet options1 { // trailing space 
}
")).
Eval vm_compute in ("<<<M2645>>>" ++ check (runes_of_ascii "packet A { @leftPad('0' '0') char[2] x, }")).
Eval vm_compute in ("<<<M3241>>>" ++ check (runes_of_ascii "MetaData zchar { zchar[ 3 // c
] Pad , }")).
Eval vm_compute in ("<<<M4138>>>" ++ check (runes_of_ascii "  packet
A	{ u8	x `d" ++ [12]%N ++ runes_of_ascii "`
	,  // c" ++ [12]%N ++ runes_of_ascii "
  }
")).
Eval vm_compute in ("<<<M2776>>>" ++ check ([65533]%N ++ runes_of_ascii "-," ++ [65533]%N ++ runes_of_ascii "?" ++ [65533; 65533]%N ++ runes_of_ascii "l" ++ [65533; 65533; 65533]%N ++ runes_of_ascii "6" ++ [65533; 65533]%N ++ runes_of_ascii "[" ++ [65533; 14; 15]%N ++ runes_of_ascii "_" ++ [16; 65533; 65533]%N ++ runes_of_ascii "s" ++ [693]%N ++ runes_of_ascii "L" ++ [26]%N ++ runes_of_ascii "n" ++ [65533; 65533; 65533; 65533; 65533; 18; 65533; 1407]%N ++ runes_of_ascii "G")).
Eval vm_compute in ("<<<M4112>>>" ++ check (runes_of_ascii "options {
    float = zchar[007];
}")).
Eval vm_compute in ("<<<M2833>>>" ++ check (runes_of_ascii "JS$sL9C>*\Nhs=,C;8pj8kfn{q^!)UW!'")).
Eval vm_compute in ("<<<M2720>>>" ++ check ([65533]%N ++ runes_of_ascii ":" ++ [65533]%N ++ runes_of_ascii "o" ++ [65533; 28; 65533]%N ++ runes_of_ascii "o" ++ [14; 65533]%N ++ runes_of_ascii "9" ++ [65533; 24; 1654; 65533]%N ++ runes_of_ascii "|2" ++ [65533; 65533]%N ++ runes_of_ascii "1\" ++ [65533]%N ++ runes_of_ascii "iI" ++ [65533; 65533]%N ++ runes_of_ascii """" ++ [65533; 65533]%N ++ runes_of_ascii "0" ++ [65533]%N)).
Eval vm_compute in ("<<<M327>>>" ++ check (runes_of_ascii "packet calculatedFrom
    {}
")).
Eval vm_compute in ("<<<M1201>>>" ++ check (runes_of_ascii "root
packet repeatCount { }")).
Eval vm_compute in ("<<<M2768>>>" ++ check ([65533; 65533; 65533; 65533]%N ++ runes_of_ascii "V" ++ [65533; 27; 65533; 65533]%N ++ runes_of_ascii "F" ++ [65533; 65533; 65533]%N ++ runes_of_ascii "#" ++ [65533; 8; 65533]%N ++ runes_of_ascii ",X" ++ [65533; 65533; 65533]%N ++ runes_of_ascii "@" ++ [65533]%N ++ runes_of_ascii ">" ++ [12]%N)).
Eval vm_compute in ("<<<M302>>>" ++ check (runes_of_ascii "packet  lengthOf  { } 	 ")).
Eval vm_compute in ("<<<M828>>>" ++ check (runes_of_ascii "// a // b
packet o	{ }")).
Eval vm_compute in ("<<<M2664>>>" ++ check (runes_of_ascii "MetaData M { u8 x, }")).
Eval vm_compute in ("<<<M3170>>>" ++ check (runes_of_ascii "// c 	
packet A {
}")).
Eval vm_compute in ("<<<M3145>>>" ++ check (runes_of_ascii "// c" ++ [8233]%N ++ runes_of_ascii "
packet A {
}")).
Eval vm_compute in ("<<<M2591>>>" ++ check (runes_of_ascii "packet A { x y, }")).
Eval vm_compute in ("<<<M994>>>" ++ check (runes_of_ascii "packet x
{
    }")).
Eval vm_compute in ("<<<M804>>>" ++ check (runes_of_ascii "options  { }

")).
Eval vm_compute in ("<<<M1368>>>" ++ check (runes_of_ascii "options {
}")).
Eval vm_compute in ("<<<M2786>>>" ++ check (runes_of_ascii "i64_ false")).
Eval vm_compute in ("<<<M1642>>>" ++ check (runes_of_ascii "options")).
Eval vm_compute in ("<<<M2482>>>" ++ check (runes_of_ascii "repeat")).
Eval vm_compute in ("<<<M2729>>>" ++ check (runes_of_ascii "7-IxI")).
Eval vm_compute in ("<<<M2535>>>" ++ check (runes_of_ascii """\\""")).
Eval vm_compute in ("<<<M2543>>>" ++ check (runes_of_ascii "`\`")).
Eval vm_compute in ("<<<M2550>>>" ++ check (runes_of_ascii "-1")).
Eval vm_compute in ("<<<M2712>>>" ++ check (runes_of_ascii "{")).
