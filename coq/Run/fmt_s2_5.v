From FP Require Import Lexer Parser ShowPT Digest Formatter.
From Coq Require Import String List NArith.
Import ListNotations.
Open Scope string_scope.
Set Printing Width 100000000.
Set Printing Depth 100000000.
Definition show_fres (r : fres) : string :=
  match r with
  | FOk s => "OK:" ++ sh_escaped s ""
  | FErr s => "ERR:" ++ sh_escaped s ""
  | FPanic p => "PANIC:" ++ p
  end.
Definition check (rs : list rune) : string := digest (show_fres (format_res rs)).
Definition full (rs : list rune) : string := show_fres (format_res rs).
Eval vm_compute in ("<<<M1990>>>" ++ check (runes_of_ascii "// top
    options 
	// c0
	{ 	 // c1
	StringPrefixLenType  // c2a
    // c2b
	= // c3
u16 ; 
// c5
ArrayPrefixLenType	// c6a

// c6b
  	=	// c7a
    	// c7b

	u32	// c8
		; 
FixedStringPadFromLeft 	 // c10a

  // c10b
    = 	 // c11

false 
// c12
;	// c13a
// c13b
	FixedStringPadChar  // c14a
// c14b
=  // c15
'0'

// c16
; // c17
    	} 
	// c18
	packet  Logout 
// c20
  	{ 	 // c21

	f64 
f1// c23a
	// c23b
, // c24
i16
// c25
  	Note// c26
  , 	 // c27
    @rightPad	(// c29
  '\x00'	// c30
		) char[	// c32
  11 	 // c33
	]// c34a
    	// c34b
    	Flags  // c35a
// c35b

, 
    // c36
} 	 // c37
    packet 	 // c38
      Cancel 	 // c39a
	// c39b
  	{ 	 // c40
  float64
    // c41
	  msgKind , 
      // c43
    } // c44
	packet 
// c45
      Reject	// c46a

  // c46b
      { 	 // c47

InQty43 	 // c48a
    // c48b
		{// c49

  float32 // c50a

  // c50b
		sym	// c51
	, // c52

  char[	// c53a
	// c53b

	10
	// c54
    ] 
    // c55
Tail // c56
    , // c57a
    // c57b
    	uint8  // c58
venue// c59a

// c59b
    ,  // c60
	uint16
	    // c61
		f1 , 
    // c63

char[

    9

    ]
	Acct
	// c67
	, // c68
    }  , // c70
		}	// c71a
// c71b
    packet Trade 
// c73
{ // c74
char[]  // c75a
  // c75b
	  x
    ,// c77a
    	// c77b
	zchar[	// c78
  6]  // c80

  Note

,// c82a
// c82b
repeat 	 // c83a
	// c83b
Reject	// c84a
	// c84b
	,
	}  root

    // c87
	packet 

// c88
    Order // c89a
	// c89b
    {	// c90a
  // c90b

	Cancel ,
	Logout 	 // c93

,	// c94a

// c94b
      u64 // c95
  Acct  // c96
	,
u32// c98a
	// c98b
	OrderId
// c99

, match	// c101

OrderId// c102a
		// c102b

  as 	 // c103
  Body  // c104a
// c104b
    {
	[ 	 // c106
  127 // c107
	, 	 // c108a
    	// c108b

70
    // c109
	]
: 	 // c111a
// c111b
	Reject
    // c112

,177  // c114a
// c114b
		:	// c115
  Trade
,

    // c117
      58 
      // c118
      :  // c119a
// c119b
  Logout
,	75 // c122
:
	    // c123
  	Cancel  // c124a
    	// c124b
    , 
// c125

} 
  // c126
	  ,u32// c128a
  // c128b
	Tail
// c129
  @calculatedFrom(
	    // c130
  ""CRC32"" 	 // c131

	) 	 // c132a
	// c132b
, 	 // c133
    }	// c134")).
Eval vm_compute in ("<<<M25>>>" ++ check (runes_of_ascii "root
    packet u128{pack @lengthOf(MetaDataX)	`say ""hi""` ,repeat lengthOf {
    int8 o
    `crlf
line` ,
    } // " ++ [27880; 37322]%N ++ runes_of_ascii "
, @lengthOf( tag
    ) char[
    007
    ] chars @lengthOf(MetaDataX ) , u
    @calculatedFrom( ""\n"" )// `tick` ""quote"" 'q'
, @lengthOf(  Z9_
    ) u32 A
@lengthOf( charz ) ,u16 float@lengthOf(
    As ) ,A u128
// packet A { u8 x, }
// packet A { u8 x, }
`a\` /// triple
, x_y_z@lengthOf(stringy  )
`a\` ,
}
    root packet x_y_z
    {@lengthOf( crc	)  i64 pack // " ++ [27880; 37322]%N ++ runes_of_ascii "
@lengthOf(
    float ) `say ""hi""`
, }MetaData  uint8x{ }
    root packet  trueish {  zchar[ 4294967296  ] float@lengthOf( matchKey
    )/// triple
,@lengthOf( o
    ) repeat float rootA
    , @tag(  7	) int64 // " ++ [128512]%N ++ runes_of_ascii " emoji
falsey@lengthOf( options1 ) ,Logon// @lengthOf(
{ tag
@lengthOf(a1 ) , asx `// not a comment` , float32 zchar
    ,Pad @calculatedFrom( ""`tick`"" )// @lengthOf(
,
    } , // trailing space 
@lengthOf( int
    ) repeat // a // b
rootA// trailing space 
u128 ,
    repeat char[] leftPad , int8 _x // a // b
,
    Packet `` ,
    // " ++ [27880; 37322]%N ++ runes_of_ascii "
    match
len	as uint8x { ""a	b""
:
lengthOf
,""\" ++ [233]%N ++ runes_of_ascii """ :pack
[ // a // b
""x y""  ,""packet""
, """ ++ [128512]%N ++ runes_of_ascii """
    // " ++ [27880; 37322]%N ++ runes_of_ascii "
    ,	""\" ++ [233]%N ++ runes_of_ascii """ , 255 , ""{,}""
    ]:
lengthOf
    , [ ""abc"", 00  ,
    ""a\\"" , ""// no comment""
, 00 , 007, 0 , ""packet""]: Packet  }
    // " ++ [27880; 37322]%N ++ runes_of_ascii "
    , @leftPad()
    u i64_ ,
}
packet trueish { }
")).
Eval vm_compute in ("<<<M383>>>" ++ check (runes_of_ascii "options {
	StringPrefixLenType = u16;
	ArrayPrefixLenType = u16;
}

packet SampleBinary {
	uint16 MsgType `" ++ [28040; 24687; 31867; 22411]%N ++ runes_of_ascii "`,
	u16 BodyLenght @lengthOf(Body) `" ++ [28040; 24687; 20307; 38271; 24230]%N ++ runes_of_ascii "`,
	match MsgType as Body {
		1 : Logon,
		2 : Logout,
		3 : Heartbeat,
		4 : RiskControlRequest,
		5 : RiskControlResponse,
	},
	@calculatedFrom(""CRC32"")
	u32 Ckecksum `" ++ [26657; 39564; 21644]%N ++ runes_of_ascii "`,
}

packet Logon {
	@leftPad('0')
	char[10] UserName `" ++ [29992; 25143; 21517]%N ++ runes_of_ascii "`,
	string Password `" ++ [23494; 30721]%N ++ runes_of_ascii "`,
	uint64 ClientId `" ++ [23458; 25143; 31471]%N ++ runes_of_ascii "ID`,
	u16 HeartbeatInterval `" ++ [24515; 36339; 38388; 38548]%N ++ runes_of_ascii "`,
}

packet Logout {
	@rightPad('0')
	char[10] UserName `" ++ [29992; 25143; 21517]%N ++ runes_of_ascii "`,
	uint64 ClientId `" ++ [23458; 25143; 31471]%N ++ runes_of_ascii "ID`,
}

packet Heartbeat {
}

packet RiskControlRequest {
	string UniqueOrderId `" ++ [21807; 19968; 35746; 21333; 21495]%N ++ runes_of_ascii "`,
	char[16] ClOrdID `" ++ [23458; 25143; 35746; 21333; 21495]%N ++ runes_of_ascii "`,
	char[3] MarketID `" ++ [24066; 22330]%N ++ runes_of_ascii "id`,
	char[12] SecurityID `" ++ [35777; 21048; 20195; 30721]%N ++ runes_of_ascii "`,
	char Side `" ++ [20080; 21334; 26041; 21521]%N ++ runes_of_ascii "`,
	char OrderType `" ++ [35746; 21333; 31867; 22411]%N ++ runes_of_ascii "`,
	u64 Price `" ++ [20215; 26684]%N ++ runes_of_ascii "`,
	u32 Qty `" ++ [25968; 37327]%N ++ runes_of_ascii "`,
	repeat string ExtraInfo `" ++ [38468; 21152; 20449; 24687]%N ++ runes_of_ascii "`,
	repeat SubOrder {
		char[16] ClOrdID `" ++ [23376; 35746; 21333; 21495]%N ++ runes_of_ascii "`,
		u64 Price `" ++ [23376; 35746; 21333; 20215; 26684]%N ++ runes_of_ascii "`,
		u32 Qty `" ++ [23376; 35746; 21333; 25968; 37327]%N ++ runes_of_ascii "`,
	},
}

packet RiskControlResponse {
	string UniqueOrderId `" ++ [21807; 19968; 35746; 21333; 21495]%N ++ runes_of_ascii "`,
	i32 Status `" ++ [29366; 24577]%N ++ runes_of_ascii "`,
	string Msg `" ++ [32467; 26524; 20449; 24687]%N ++ runes_of_ascii "`,
	repeat Detail,
}

packet Detail {
	string RuleName `" ++ [35268; 21017; 21517; 31216]%N ++ runes_of_ascii "`,
	u16 Code `" ++ [21407; 22240; 20195; 30721]%N ++ runes_of_ascii "`,
}")).
Eval vm_compute in ("<<<M2007>>>" ++ check (runes_of_ascii "packet As {
    @lengthOf(u8x)
    repeat u32 T,
    string Foo @calculatedFrom(""it's"") `doc`,
    @tag(00)
    //
    @tag(42)
    repeatCount {
        packetx {
            repeat f64 x_y_z `doc`,
            repeat char[65535] crc,
        },
        u16 A,
        o @lengthOf(MetaDataX) `// not a comment`,
        repeat string BodyLength `
                `,
    },
    repeatCount @lengthOf(chars),
    match uint8x as As {
        007 : Packet,
        """" : Header,
        3 : zchar,
        7 : u128,
        [4294967296, ""x y""] : crc,
        [""1"", 00] : int,
    },
    @lengthOf(Foo)
    repeat u {
        string float,
        string matchKey @calculatedFrom(""it's"") `it's`,
        repeat Packet repeatCount,
    },
    @lengthOf(T)
    A @lengthOf(rootA) ``,
    repeatCount @calculatedFrom(""packet""),
    char[] x @calculatedFrom(""abc"") `crlf
        line`,
}

packet i8i8 {
}

options {
    MetaDataX = true;//x
    charz = true;
}")).
Eval vm_compute in ("<<<M1917>>>" ++ check (runes_of_ascii "packet

Packet {
zchar[ 	 /// triple
    00
    ]  u @lengthOf(tag ) , repeat 	 // " ++ [128512]%N ++ runes_of_ascii " emoji

string
	u8x`u8 x,` ,
    packetx  { 
repeat uint8
	leftPad

`doc`, 
}
, // " ++ [27880; 37322]%N ++ runes_of_ascii "
	@tag( 0123456789)
	char[]

    chars  @lengthOf(	rootA

    // trailing space 

	// c
    ) 
`{ , }`, uint8 Packet  ,
	repeat	a1
    `two words`
    //
  //
  ,	@calculatedFrom( 
    //	t

  ""it's""
	) string_  {u16	A 
// packet A { u8 x, }
  	// a // b

`crlf
line`,
repeat

string 	 // " ++ [27880; 37322]%N ++ runes_of_ascii "
	uint8x, string
    u128
,	} 
,
    }
	packet MetaDataX { 

//x
    	@tag(
0123456789	)  char[ // packet A { u8 x, }
  3
    ]	Packet ,

}
MetaData
repeatCount  {

    } root
packet
    u8x 
	    // `tick` ""quote"" 'q'
  {
    x_y_z // " ++ [27880; 37322]%N ++ runes_of_ascii "

@lengthOf( 
    // a // b
o

    ) `two words` ,  // " ++ [27880; 37322]%N ++ runes_of_ascii "

  repeat	zchar[0123456789
    ]

    len`" ++ [233]%N ++ runes_of_ascii "`

, } 
	//
 
")).
Eval vm_compute in ("<<<M1448>>>" ++ check (runes_of_ascii "options  {LittleEndian	=
	false
	;StringPrefixLenType
	= u16	;  ArrayPrefixLenType  =
    u64

    ;
FixedStringPadFromLeft
	=
	true	;
FixedStringPadChar = ' '  ;
}

packet
    Logon	{

u16	Tail,

repeat

string x  ,
	i16

    count

,@leftPad( '0')
	char[  3 ]
Note
	,
	}	packet
	Fill
	{ } packet

    Heartbeat{}packet Reject
{string 
msgKind
,	repeat  Logon 
,

InFlags25 
{
    repeat

InPrice29 {
    u8

price
    ,
	Logon
,

repeat char[1 ]
Note ,

},char[]x ,
Fill , 
}	, repeat
Heartbeat
, }
root

    packet Order {
InNote88  {
repeat
    i32
    Acct
	,
	repeat
i16 clOrdID  ,

    repeat  Logon,} , u16 tag7
,

match

tag7 
as  Body { 
[
    14

,
    22 ]

: Logon,
    55

: Heartbeat, 93
	:

Reject
    , 13

    :Fill , }
    ,

}
")).
Eval vm_compute in ("<<<M2>>>" ++ check (runes_of_ascii "
packet int{ len	T , }MetaData trueish { // packet A { u8 x, }
}
    packet BodyLength { @calculatedFrom( ""packet"" )
@calculatedFrom(
    ""CRC32"" )
    // c
    @tag(
00 ) char[ 4294967296 ] stringy, @lengthOf(
leftPad
)// c
char zchar ,@lengthOf( MetaDataX	)@tag(10) // " ++ [128512]%N ++ runes_of_ascii " emoji
@rightPad ( '0') options1 matchKey//
`{ , }`
    // packet A { u8 x, }
    , @tag( 42
    ) @tag( 1 ) @tag( 10
) char[] // c
stringy
`doc` , msg_type `" ++ [233]%N ++ runes_of_ascii "` ,
@lengthOf(trueish )body {	repeat o stringy `crlf
line` , repeat u32 i8i8 ,
    char[65535] stringy
`a\` ,
    //x
    }
    ,
@calculatedFrom(""packet""	) matchKey/// triple
, @tag( 4294967296 ) uint32 rootA @lengthOf( trueish ) ,string body `u8 x,` , }")).
Eval vm_compute in ("<<<M1634>>>" ++ check (runes_of_ascii "
// " ++ [128512]%N ++ runes_of_ascii " emoji
		packet	// @lengthOf(
    int
{
match zchar
    as	_x

{	[ 4294967296]:x_y_z
,
	[
    ""a\""b""// @lengthOf(
	] :
    chars,	[	""it's"" ,
    ""\" ++ [233]%N ++ runes_of_ascii """

, 
""packet"" 
,
	""{,}""  ] 
:f32a

}
, x{ repeat

    asx

    {

zchar[
	0123456789  ]
crc 
`crlf
line`	, msg_type i8i8
`crlf
line`, 
uint16
	rootA@calculatedFrom( ""a\\""	) 
  // @lengthOf(

	,  Logon x_y_z

    `" ++ [233]%N ++ runes_of_ascii "` ,

    }

,
	}

,}	packet
    u { match

    pack as  trueish //x
  {
    ""1""
	:

len """ ++ [128512]%N ++ runes_of_ascii """ 
:

    leftPad , 4294967296 	 // @lengthOf(
	:metadata,}

,
int T	`line1
line2`
    ,f32 
Logon

,} options {
} ")).
Eval vm_compute in ("<<<M1713>>>" ++ check (runes_of_ascii "
packet

    pack 
{
	@rightPad (
	' ')
A // c
    @calculatedFrom( 
""a\\"")
    // " ++ [128512]%N ++ runes_of_ascii " emoji
  // " ++ [128512]%N ++ runes_of_ascii " emoji
  `
`,  u8	f32a , 
zchar[

    007
	]rootA	`u8 x,` ,	repeat
    /// triple
// a // b

string u128//
  	`u8 x,`
, @leftPad
    ( ' '
) char[ 1
	]
repeatCount
	@calculatedFrom(  //x
      ""\n"" )
`doc`
,

o ,
falsey leftPad

    , 
@calculatedFrom( ""a\""b""  )
	@leftPad
(

'0'
    )
//
// " ++ [27880; 37322]%N ++ runes_of_ascii "
  roots 
{
	u8
    zchar @lengthOf(
	Logon
)	// trailing space 
  ,

// c
  //	t

	}
	,	}

")).
Eval vm_compute in ("<<<M30>>>" ++ check (runes_of_ascii "packet  chars { zchar[ 10
    ]x
@lengthOf( repeatCount )
    ,
repeat
    metadata{
string int ,repeat
matchKey //x
, match leftPad as o { 0 : matchKey
    // " ++ [27880; 37322]%N ++ runes_of_ascii "
    ,
[ 0 ]
: float 0 : packetx// " ++ [128512]%N ++ runes_of_ascii " emoji
255 :i64_
    ,//	t
[0 , 007 , ""a\\"" ,
    //	t
    """ ++ [128512]%N ++ runes_of_ascii """
    ,
65535  , 255 ]
:
charz ,	255 : u,	} , },  @rightPad( ' ' )
// packet A { u8 x, }
// " ++ [128512]%N ++ runes_of_ascii " emoji
@tag( 255
) // c
@rightPad
(	' ' ) u16 falsey,}options
    { f32a
= """ ++ [128512]%N ++ runes_of_ascii """ ;	}
")).
Eval vm_compute in ("<<<M367>>>" ++ check (runes_of_ascii "packet	T  {
/// triple
// @lengthOf(
@tag( 007 )
T
    @calculatedFrom( ""CRC32"")
//	t
//
, @tag( // " ++ [27880; 37322]%N ++ runes_of_ascii "
65535	) repeat
    tag { a1 @calculatedFrom( ""a\""b"" )	, }
,
As
    {
    char[ //	t
007 ] lengthOf , char[]x @lengthOf(crc )`` ,  repeat
i8
    matchKey , tag Z9_ , } ,repeat
// c
/// triple
uint64
zchar
    // packet A { u8 x, }
    `doc` ,	@tag(255
)repeat zchar[ 7 ]lengthOf
, }")).
Eval vm_compute in ("<<<M1755>>>" ++ check (runes_of_ascii "// " ++ [27880; 37322]%N ++ runes_of_ascii "
packet tag {
    repeat i64_ {
        zchar[007] Logon @calculatedFrom(""packet""),
        repeat char[] leftPad `a\`,
        zchar[3] float,
    },
}

packet pack {
    repeat i8 len `
        `,
}

root packet uint8x {
    // packet A { u8 x, }
    @leftPad()
    @calculatedFrom(""a\\"")
    @rightPad('\x00')
    repeat char[0] T,
}//	t")).
Eval vm_compute in ("<<<M283>>>" ++ check (runes_of_ascii "root packet
    i64_ {@tag(4294967296) match lengthOf as // " ++ [27880; 37322]%N ++ runes_of_ascii "
charz	{ 1 :
T , } ,repeat char[ 00]
MetaDataX //x
,
match // @lengthOf(
Foo as
    chars{ // `tick` ""quote"" 'q'
""" ++ [28040; 24687]%N ++ runes_of_ascii """:charz
, } ,} root packet MetaDataX {
@lengthOf( chars// " ++ [128512]%N ++ runes_of_ascii " emoji
)
uint16 Foo , Foo ,
    } packet zchar { // trailing space 
}")).
Eval vm_compute in ("<<<M236>>>" ++ check (runes_of_ascii "root packet
    x_y_z{ match lengthOf
as // `tick` ""quote"" 'q'
rootA { 42 :
    asx } ,	@rightPad(
' ' ) repeat u16 int`// not a comment`, @tag(42	)rootA string_, int32 lengthOf // trailing space 
,match
    As as falsey { [ ""// no comment"" ] :
    calculatedFrom,
    } , }
")).
Eval vm_compute in ("<<<M1615>>>" ++ check (runes_of_ascii "packet

Inner { 
u8 a  
  // c4
,

// c5

	} 
	// c6
		root // c7a
	  // c7b
      packet // c8a
	// c8b
  P 	 // c9a
	// c9b
    {
    // c10

repeat	Inner
    items

    , 

    // c14
	u8	// c15
  	x
        // c16
	, 	 // c17
	} ")).
Eval vm_compute in ("<<<M577>>>" ++ check (runes_of_ascii "options
{
matchKey = 42/// triple
x='0' ;
// packet A { u8 x, }
//
charz
=
// packet A { u8 x, }
// traili@leftpadng space 
true  ; } MetaData BodyLength
{
uint8
pack,zchar[ 1]float ,  float32 x_y_z `` ,u32
_x,i16 body  , }
")).
Eval vm_compute in ("<<<M414>>>" ++ check (runes_of_ascii "options
{
matchKey = 42/// triple
root='0' ;
// packet A { u8 x, }
//
charz
=
// packet A { u8 x, }
// trailing space 
true  ; } MetaData BodyLength
{
uint8
pack,zchar[ 1]float ,  float32 x_y_z `` ,u32
_x,i16 body  , }
")).
Eval vm_compute in ("<<<M581>>>" ++ check (runes_of_ascii "options''
{
matchKey = 42/// triple
x='0' ;
// packet A { u8 x, }
//
charz
=
// packet A { u8 x, }
// trailing space 
true  ; } MetaData BodyLength
{
uint8
pack,zchar[ 1]float ,  float32 x_y_z `` ,u32
_x,i16 body  , }
")).
Eval vm_compute in ("<<<M443>>>" ++ check (runes_of_ascii "options
{
matchKey = 42/// triple
x='0' ;
// packet A { u8 x, }
//
charz
=
// packet A { u8 x, }
// trailing space 
;  true } MetaData BodyLength
{
uint8
pack,zchar[ 1]float ,  float32 x_y_z `` ,u32
_x,i16 body  , }
")).
Eval vm_compute in ("<<<M451>>>" ++ check (runes_of_ascii "options
{
matchKey = 42/// triple
x='0' ;
// packet A { u8 x, }
//
charz
=
// packet A { u8 x, }
// trailing space 
true  ;  MetaData BodyLength
{
uint8
pack,zchar[ 1]float ,  float32 x_y_z `` ,u32
_x,i16 body  , }
")).
Eval vm_compute in ("<<<M516>>>" ++ check (runes_of_ascii "options
{
matchKey = 42/// triple
x='0' ;
// packet A { u8 x, }
//
charz
=
// packet A { u8 x, }
// trailing space 
true  ; } MetaData BodyLength
{
uint8
pack,zchar[ 1]float ,  float32  `` ,u32
_x,i16 body  , }
")).
Eval vm_compute in ("<<<M1736>>>" ++ check (runes_of_ascii "// c
packet i64_ {
    calculatedFrom,
}

packet trueish {
    @calculatedFrom(""a\\"")
    o {
        i32 falsey @lengthOf(uint8x),
    },
}// `tick` ""quote"" 'q'

options {
    // c
    Z9_ = ' '//
}")).
Eval vm_compute in ("<<<M667>>>" ++ check (runes_of_ascii "// c
packet i64_ {	char[] calculatedFrom , } packet
trueish  {@calculatedFrom(
""a\\"" ) o zchar[ i32 falsey@lengthOf( uint8x ),
} , } // `tick` ""quote"" 'q'
options {// c
Z9_ = ' '//
}
")).
Eval vm_compute in ("<<<M669>>>" ++ check (runes_of_ascii "// c
packet i64_ {	char[] calculatedFrom , packet }
trueish  {@calculatedFrom(
""a\\"" ) o { i32 falsey@lengthOf( uint8x ),
} , } // `tick` ""quote"" 'q'
options {// c
Z9_ = ' '//
}
")).
Eval vm_compute in ("<<<M510>>>" ++ check (runes_of_ascii "options
{
matchKey = 42/// triple
x='0' ;
// packet A { u8 x, }
//
charz
=
// packet A { u8 x, }
// trailing space 
true  ; } MetaData BodyLength
{
uint8
pack,zchar[ 1]float")).
Eval vm_compute in ("<<<M1387>>>" ++ check (runes_of_ascii "
packet
    A

{u8
a

    ,}

packet
B

{u16 
b
,
    }

    root
    packet
P	{
u8 K
,match
	K  as 
M

    {
	1 :  A  ,	1

    :
    B ,
	}

    ,

}")).
Eval vm_compute in ("<<<M55>>>" ++ check (runes_of_ascii "
packet Foo
    {
    repeat
int
    //x
    { string u @calculatedFrom( ""packet"")	`` // @lengthOf(
,}
,zchar[ 007 ]  A
    `doc`, }
options { }")).
Eval vm_compute in ("<<<M1493>>>" ++ check (runes_of_ascii "packet A {
    Inner {
        u8 x `
                `,
        Deep {
            u8 y `
                        `,
        },
    },
}")).
Eval vm_compute in ("<<<M1699>>>" ++ check (runes_of_ascii "
packet

    Logon
{  @tag(	42

    ) @rightPad (
' '	)
	@leftPad 
    // c
  	() 
repeat	trueish { string
T 
,

    }	, }
")).
Eval vm_compute in ("<<<M685>>>" ++ check (runes_of_ascii "// c
packet i64_ {	char[] calculatedFrom , } packet
trueish  {@calculatedFrom(
""a\\"" ) o { i32 falsey@lengthOf( uint8x ),
}")).
Eval vm_compute in ("<<<M2033>>>" ++ check (runes_of_ascii "
packet
	A 
{
match

k as n{[
	""a"",

22

,""c c""
	, 4
	,	""e"" ,66

,
""g"" ,
    8
    ,
	""i"" ]: B ,2	:
    C
	}

    , }")).
Eval vm_compute in ("<<<M1920>>>" ++ check (runes_of_ascii "
packet Logon 
// c
  { 
@tag( 42) @rightPad
(
	' ' )
@leftPad  (	) repeat
	trueish
{

    string
    T ,}
,  } ")).
Eval vm_compute in ("<<<M358>>>" ++ check (runes_of_ascii "MetaData Packet { u128  u128 `say ""hi""` ,
    // @lengthOf(
    zchar
    len ,
Pad T `say ""hi""` // " ++ [128512]%N ++ runes_of_ascii " emoji
,
}
")).
Eval vm_compute in ("<<<M674>>>" ++ check (runes_of_ascii "// c
packet i64_ {	char[] calculatedFrom , } packet
trueish  {@calculatedFrom(
""a\\"" ) o { i32 falsey@lengthOf(")).
Eval vm_compute in ("<<<M961>>>" ++ check (runes_of_ascii "packet A {
    Inner {
        u8 x `tab
	x`,
        Deep {
            u8 y `tab
	x`,
        },
    },
}")).
Eval vm_compute in ("<<<M1253>>>" ++ check (runes_of_ascii "packet // c
calculatedFrom { @tag( 4294967296 ) u msg_type , char[ 3 ] crc @lengthOf( len ) `u8 x,` , }")).
Eval vm_compute in ("<<<M1285>>>" ++ check (runes_of_ascii "packet calculatedFrom { @tag( 4294967296 ) u msg_type , char[ 3 ] crc @lengthOf( len ) `u8 x,` // c
, }")).
Eval vm_compute in ("<<<M884>>>" ++ check (runes_of_ascii "packet A {
  match k as n {
    [""a"", 22, ""c c"", 4, ""e"", 66, ""g"", 8, ""i"", 10] : B
    2 : C
  },
}")).
Eval vm_compute in ("<<<M1131>>>" ++ check (runes_of_ascii "packet
// c
Logon { @tag( 42 ) @rightPad ( ' ' ) @leftPad ( ) repeat trueish { string T , } , }")).
Eval vm_compute in ("<<<M1163>>>" ++ check (runes_of_ascii "packet Logon { @tag( 42 ) @rightPad ( ' ' ) @leftPad ( ) repeat trueish { string
// c
T , } , }")).
Eval vm_compute in ("<<<M1918>>>" ++ check (runes_of_ascii "
MetaData Z9_{
a1 

    //
	/// triple
	Z9_,zchar[

10
	]

    x
    ,  } options {

}
")).
Eval vm_compute in ("<<<M1740>>>" ++ check (runes_of_ascii "  packet
A
	{
@leftPad
	(

    )char[
	4
]	x
,
@rightPad
( )
zchar[ 2 ]y
,
    }

")).
Eval vm_compute in ("<<<M1391>>>" ++ check (runes_of_ascii "packet order_item {
    u8 a,
}
root packet new_order {
    order_item,
    u8 x,
}
")).
Eval vm_compute in ("<<<M1214>>>" ++ check (runes_of_ascii "packet o { @tag( // c
42 ) repeat x { char[ 0123456789 ] i64_ , } , } options { }")).
Eval vm_compute in ("<<<M1394>>>" ++ check (runes_of_ascii "packet orderItem {
    u8 a,
}
root packet newOrder {
    orderItem,
    u8 x,
}
")).
Eval vm_compute in ("<<<M834>>>" ++ check (runes_of_ascii "packet A {
  match k as n {
    [1, 22, ""c c"", 4, 5, ""f""] : B
    2 : C
  },
}")).
Eval vm_compute in ("<<<M810>>>" ++ check (runes_of_ascii "packet A {
  match k as n {
    [""a"", ""bb"", 007, ""d""] : B
    2 : C
  },
}")).
Eval vm_compute in ("<<<M1308>>>" ++ check (runes_of_ascii "
// c
MetaData _x { zchar[ 4294967296 ] lengthOf `// not a comment` , }")).
Eval vm_compute in ("<<<M1864>>>" ++ check (runes_of_ascii "MetaData u8x {
    uint32 i8i8 `it's`,
}

options {
    Logon = '0';
}")).
Eval vm_compute in ("<<<M787>>>" ++ check (runes_of_ascii "packet A {
  match k as n {
    [1, 22, 007] : B
    2 : C
  },
}")).
Eval vm_compute in ("<<<M1334>>>" ++ check (runes_of_ascii "root  packet

    P

    {
repeat
char cs  ,
u8
x  ,
} ")).
Eval vm_compute in ("<<<M739>>>" ++ check (runes_of_ascii "as trueish match @calculatedFrom( @rightPad false [ i64")).
Eval vm_compute in ("<<<M920>>>" ++ check (runes_of_ascii "MetaData M {
    u8 x `a
b`,
    T t `a
b`,
}")).
Eval vm_compute in ("<<<M1106>>>" ++ check (runes_of_ascii "MetaData zchar // c
{ zchar[ 3 ] Pad , }")).
Eval vm_compute in ("<<<M1095>>>" ++ check (runes_of_ascii "packet A { u8 x,// a


// b

 u8 y, }")).
Eval vm_compute in ("<<<M951>>>" ++ check (runes_of_ascii "root packet A {
    u8 x `x
`,
}")).
Eval vm_compute in ("<<<M997>>>" ++ check (runes_of_ascii "packet A {
 u8 x `d" ++ [5760]%N ++ runes_of_ascii "`, // c" ++ [5760]%N ++ runes_of_ascii "
}")).
Eval vm_compute in ("<<<M1064>>>" ++ check (runes_of_ascii "packet A {
}// a// b// c
")).
Eval vm_compute in ("<<<M1194>>>" ++ check (runes_of_ascii "options { u8x = 3
// c
}")).
Eval vm_compute in ("<<<M1577>>>" ++ check (runes_of_ascii "packet A {
}// a// b")).
Eval vm_compute in ("<<<M1015>>>" ++ check (runes_of_ascii "packet A {
}
// c" ++ [8233]%N)).
Eval vm_compute in ("<<<M1003>>>" ++ check (runes_of_ascii "packet A {
}// c" ++ [8202]%N)).
Eval vm_compute in ("<<<M740>>>" ++ check (runes_of_ascii "6" ++ [65533; 65533; 65533]%N ++ runes_of_ascii "Z%" ++ [65533; 65533; 65533]%N ++ runes_of_ascii "" ++ [65533]%N)).
Eval vm_compute in ("<<<M1034>>>" ++ check (runes_of_ascii "// c" ++ [12]%N)).
