From FP Require Import Lexer Parser ShowPT Digest Formatter.
From Coq Require Import String List NArith.
Import ListNotations.
Open Scope string_scope.
Set Printing Width 100000000.
Set Printing Depth 100000000.
Definition show_fres (r : fres) : string :=
  match r with
  | FOk s => "OK:" ++ sh_escaped s ""
  | FErr s => "ERR:" ++ sh_escaped s ""
  | FPanic p => "PANIC:" ++ p
  end.
Definition check (rs : list rune) : string := digest (show_fres (format_res rs)).
Definition full (rs : list rune) : string := show_fres (format_res rs).
Eval vm_compute in ("<<<M3510>>>" ++ check (runes_of_ascii "options { StringPrefixLenType // c2
= // c3a
  // c3b
u8 // c4
; ArrayPrefixLenType // c6a
  // c6b
= // c7a
  // c7b
u8
    // c8
; // c9a
  // c9b
FixedStringPadFromLeft // c10
= // c11
true // c12
;
    // c13
FixedStringPadChar
    // c14
= // c15a
  // c15b
' ' // c16
;
    // c17
}
    // c18
packet Logout // c20
{ repeat // c22a
  // c22b
string
    // c23
Px , // c25a
  // c25b
repeat
    // c26
string
    // c27
seqNo
    // c28
, // c29a
  // c29b
InMsgkind64 { // c31a
  // c31b
uint16 OrderId , // c34
char[]
    // c35
count , // c37a
  // c37b
repeat // c38
i32 // c39a
  // c39b
venue , } // c42
, // c43a
  // c43b
} packet Heartbeat { // c47
float32 // c48
tag7
    // c49
, // c50
repeat // c51
InPrice50 { repeat // c54
char[ // c55a
  // c55b
5 ] // c57a
  // c57b
lastPx // c58
, // c59
InRef42
    // c60
{ // c61
u8 pad0 // c63a
  // c63b
, // c64a
  // c64b
} // c65a
  // c65b
, uint32 // c67a
  // c67b
Acct // c68a
  // c68b
, // c69a
  // c69b
repeat // c70
Logout
    // c71
, repeat // c73
char[
    // c74
5 ]
    // c76
Qty // c77a
  // c77b
, // c78
}
    // c79
, repeat // c81
InSeqno30
    // c82
{ // c83a
  // c83b
repeat
    // c84
Logout // c85
,
    // c86
} , // c88
@leftPad // c89a
  // c89b
( '0'
    // c91
) char[ // c93a
  // c93b
12 ]
    // c95
Acct // c96a
  // c96b
,
    // c97
char[] // c98a
  // c98b
Side2 , // c100a
  // c100b
repeat // c101a
  // c101b
string // c102a
  // c102b
msgKind // c103
, // c104
} // c105
packet // c106
Ack // c107a
  // c107b
{ // c108
Heartbeat // c109a
  // c109b
,
    // c110
char[
    // c111
8
    // c112
]
    // c113
seqNo , float64 clOrdID
    // c117
, } // c119a
  // c119b
packet Trade { char[] // c123a
  // c123b
OrderId
    // c124
, // c125
f64 // c126a
  // c126b
Side2 // c127
,
    // c128
zchar[
    // c129
8 ]
    // c131
f1 // c132a
  // c132b
, string Qty // c135a
  // c135b
, // c136
float64 // c137a
  // c137b
seqNo , // c139
repeat // c140a
  // c140b
Logout
    // c141
, // c142
} // c143
packet
    // c144
Order // c145
{
    // c146
f32
    // c147
OrderId // c148a
  // c148b
, repeat // c150
u8 x , // c153
Ack // c154a
  // c154b
, // c155
zchar[
    // c156
7 ] // c158a
  // c158b
Note , // c160
}
    // c161
root packet // c163
Logon {
    // c165
@rightPad ( '\x00' ) // c169a
  // c169b
char[ // c170a
  // c170b
9
    // c171
]
    // c172
f1 ,
    // c174
} // c175
")).
Eval vm_compute in ("<<<M3839>>>" ++ check (runes_of_ascii "root packet a1 {
    repeat zchar int,
    string u,
    string u8x @lengthOf(msg_type),
    rootA `it's`,
    @tag(255)
    //x
    uint16 packetx @lengthOf(Z9_) `it's`,
    @leftPad('\x00')
    uint8 zchar,
    @tag(007)
    @tag(4294967296)
    trueish @lengthOf(i64_),
    uint8 repeatCount `crlf
        line`,
    string metadata,
    match len as metadata {
        0 : Packet,
    },
}

packet As {
    repeat i8 T,
    pack,
    @lengthOf(stringy)
    char[0] Pad,
    repeat char[0] tag,
    @lengthOf(roots)
    uint16 string_ @lengthOf(zchar) `{ , }`,
    @lengthOf(a1)
    repeat x_y_z {
        int8 f32a,
        packetx {
            match Header as Packet {
                [""it's""] : uint8x,
                1 : u128,
                ""\" ++ [233]%N ++ runes_of_ascii """ : MetaDataX,
                [1, ""a\\"", ""x y""] : f32a,
                65535 : BodyLength,
            },
            msg_type @calculatedFrom(""abc"") `// not a comment`,
            match chars as Header {
                7 : x_y_z,
                10 : matchKey,
                ""x y"" : x_y_z,
                007 : float,
            },// a // b
            uint8x u,
        },
        repeat Foo {
            //	t
            repeat float64 chars,//x
            match len as Pad {
                [1, ""\" ++ [233]%N ++ runes_of_ascii """] : u8x,
                10 : i64_,
                [""CRC32""] : Logon,
                [255, ""CRC32""] : u8x,
            },
        },
    },
    @lengthOf(Packet)
    @leftPad('0')
    @rightPad()
    zchar[3] uint8x,
    match int as pack {
        // " ++ [128512]%N ++ runes_of_ascii " emoji
        [3] : string_,
        ""a\""b"" : repeatCount,
        007 : zchar,
    },
    repeat uint8 lengthOf `// not a comment`,
}

options {
    Logon = ""packet""
    // @lengthOf(
    // `tick` ""quote"" 'q'
    rootA = true
    packetx = false
    f32a = ""a\\""
}

root packet u {
    repeat char[] body,//
    @calculatedFrom(""a\""b"")
    @lengthOf(Foo)
    A @calculatedFrom(""{,}""),
}

options {
    trueish = 0
    charz = ""abc""
}")).
Eval vm_compute in ("<<<M871>>>" ++ check (runes_of_ascii "// `tick` ""quote"" 'q'
MetaData
tag{ u8 lengthOf `it's`
,
zchar[  3] msg_type , Pad a1`doc`
    , } packet int { @tag( 42
    )char[] trueish`line1
line2`
    // a // b
    , int64 A @calculatedFrom( ""// no comment"" )
`
`,	@lengthOf( u8x )
    @leftPad (' '
    ) @rightPad
(
)
    repeat int64 float ,
    // a // b
    char[ 00
    ] Pad `// not a comment` ,@rightPad (// packet A { u8 x, }
)
    float {zchar[
0	] i8i8,	pack
    {_x falsey
, repeat
    string Packet `two words`
    ,match
rootA as matchKey
    { [ ""it's""	,// `tick` ""quote"" 'q'
255 ]:Packet  , // packet A { u8 x, }
""a\\"" : i8i8 , [ ""a	b""//
,
    ""CRC32""
] :
    crc,
42 // trailing space 
:Packet
007
: MetaDataX 0: float , } ,	} , i16 Z9_
@calculatedFrom(
    ""{,}"")// c
, string float @lengthOf( roots // c
) `doc` , }
    //x
    , @rightPad //
( '0' ) u16 f32a
//	t
// packet A { u8 x, }
, } root
    packet  Header {
}options	{
trueish// packet A { u8 x, }
=char[
    007 //x
]
; asx = '\x00'
stringy=
'\x00';  roots	= ' '
    }packet BodyLength { @leftPad ( // @lengthOf(
'0' ) f32a @calculatedFrom(
    // " ++ [27880; 37322]%N ++ runes_of_ascii "
    ""a\\"" ) `doc` ,repeat a1	{
msg_type , }
    , @leftPad
( '0' ) @calculatedFrom( // `tick` ""quote"" 'q'
""" ++ [128512]%N ++ runes_of_ascii """ )	@rightPad
    ()// " ++ [128512]%N ++ runes_of_ascii " emoji
int32
    tag@lengthOf( string_ ) `doc`
    ,	match
matchKey as
f32a{ """ ++ [128512]%N ++ runes_of_ascii """:	body,	}	, repeat // " ++ [128512]%N ++ runes_of_ascii " emoji
u lengthOf ,char[] Foo `` , @lengthOf(	zchar ) Z9_	{ i32 calculatedFrom ,} , @leftPad ( '0' ) @calculatedFrom( ""\n"" )  @lengthOf( body
) i32 As
@calculatedFrom(	""CRC32"" ) `u8 x,` , repeat
float // a // b
A , a1@lengthOf(
trueish )
    //
    `{ , }` ,
} 	 ")).
Eval vm_compute in ("<<<M3915>>>" ++ check (runes_of_ascii "options {

    StringPrefixLenType=

    u16  ; 
ArrayPrefixLenType =	u16;
}	packet
    SampleBinary {
    uint16
MsgType`" ++ [28040; 24687; 31867; 22411]%N ++ runes_of_ascii "`	,u16
	BodyLenght@lengthOf( Body

)

`" ++ [28040; 24687; 20307; 38271; 24230]%N ++ runes_of_ascii "`	,match MsgType
as
Body
    {

    1 : Logon , 
2
	: 
Logout ,3	:

    Heartbeat
	,
    4  :RiskControlRequest
	,
    5 
: RiskControlResponse 
,
    } 
,
	@calculatedFrom( ""CRC32""
    )
u32  Ckecksum

`" ++ [26657; 39564; 21644]%N ++ runes_of_ascii "`
    ,} 
packet
	Logon	{
    @leftPad (
	'0' )  char[ 10  ]  UserName

    `" ++ [29992; 25143; 21517]%N ++ runes_of_ascii "`
	,
string Password
`" ++ [23494; 30721]%N ++ runes_of_ascii "`,
uint64	ClientId `" ++ [23458; 25143; 31471]%N ++ runes_of_ascii "ID`
,

u16
HeartbeatInterval	`" ++ [24515; 36339; 38388; 38548]%N ++ runes_of_ascii "`

,

    }
packet

    Logout

    {  @rightPad  (
'0' ) char[ 
10
    ]  UserName `" ++ [29992; 25143; 21517]%N ++ runes_of_ascii "`,

    uint64	ClientId 
`" ++ [23458; 25143; 31471]%N ++ runes_of_ascii "ID` , }
    packet	Heartbeat
{
}
packet RiskControlRequest

    {	string UniqueOrderId`" ++ [21807; 19968; 35746; 21333; 21495]%N ++ runes_of_ascii "`  , 
char[

    16]ClOrdID `" ++ [23458; 25143; 35746; 21333; 21495]%N ++ runes_of_ascii "`	,char[
	3
] 
MarketID  `" ++ [24066; 22330]%N ++ runes_of_ascii "id` ,
char[

    12
]
SecurityID `" ++ [35777; 21048; 20195; 30721]%N ++ runes_of_ascii "`,	char  Side
	`" ++ [20080; 21334; 26041; 21521]%N ++ runes_of_ascii "`
	,
    char
    OrderType

`" ++ [35746; 21333; 31867; 22411]%N ++ runes_of_ascii "` 
,  u64 Price `" ++ [20215; 26684]%N ++ runes_of_ascii "`

,u32	Qty

`" ++ [25968; 37327]%N ++ runes_of_ascii "`, 
repeat
string
ExtraInfo
	`" ++ [38468; 21152; 20449; 24687]%N ++ runes_of_ascii "`,repeat

    SubOrder

    { char[
    16 ]

    ClOrdID `" ++ [23376; 35746; 21333; 21495]%N ++ runes_of_ascii "`,u64

Price`" ++ [23376; 35746; 21333; 20215; 26684]%N ++ runes_of_ascii "` 
,  u32 Qty `" ++ [23376; 35746; 21333; 25968; 37327]%N ++ runes_of_ascii "`

    ,
}, }
packet	RiskControlResponse 
{
string
    UniqueOrderId

`" ++ [21807; 19968; 35746; 21333; 21495]%N ++ runes_of_ascii "`

,

i32	Status

    `" ++ [29366; 24577]%N ++ runes_of_ascii "`
,
    string Msg
    `" ++ [32467; 26524; 20449; 24687]%N ++ runes_of_ascii "`

,repeat
Detail

,

    }packet

    Detail{
	string
RuleName`" ++ [35268; 21017; 21517; 31216]%N ++ runes_of_ascii "` ,
u16  Code

`" ++ [21407; 22240; 20195; 30721]%N ++ runes_of_ascii "`
    ,  }
")).
Eval vm_compute in ("<<<M3824>>>" ++ check (runes_of_ascii "root packet u128 {
    pack @lengthOf(MetaDataX) `say ""hi""`,
    repeat lengthOf {
        int8 o `crlf
        line`,
    },
    @lengthOf(tag)
    char[007] chars @lengthOf(MetaDataX),
    u @calculatedFrom(""\n""),
    @lengthOf(Z9_)
    u32 A @lengthOf(charz),
    u16 float @lengthOf(As),
    A u128 `a\`,
    x_y_z @lengthOf(stringy) `a\`,
}

root packet x_y_z {
    @lengthOf(crc)
    i64 pack @lengthOf(float) `say ""hi""`,
}

MetaData uint8x {
}

root packet trueish {
    zchar[4294967296] float @lengthOf(matchKey),
    @lengthOf(o)
    repeat float rootA,
    @tag(7)
    int64 falsey @lengthOf(options1),
    Logon {
        tag @lengthOf(a1),
        asx `// not a comment`,
        float32 zchar,
        Pad @calculatedFrom(""`tick`""),
    },// trailing space 
    @lengthOf(int)
    repeat rootA u128,
    repeat char[] leftPad,
    int8 _x,
    Packet ``,
    // " ++ [27880; 37322]%N ++ runes_of_ascii "
    match len as uint8x {
        ""a	b"" : lengthOf,
        ""\" ++ [233]%N ++ runes_of_ascii """ : pack,
        [
            255, ""x y"", ""packet"", """ ++ [128512]%N ++ runes_of_ascii """, ""\" ++ [233]%N ++ runes_of_ascii """,
            ""{,}""
        ] : lengthOf,
        [
            00, 00, 007, 0, ""abc"",
            ""a\\"", ""// no comment"", ""packet""
        ] : Packet,
    },
    @leftPad()
    u i64_,
}

packet trueish {
}")).
Eval vm_compute in ("<<<M3603>>>" ++ check (runes_of_ascii "packet chars {
    i8 Z9_,
    match zchar as Logon {
        00 : i8i8,
        [
            42, 10, 4294967296, ""// no comment"", ""it's"",
            ""`tick`"", ""x y"", ""a\""b""
        ] : leftPad,
        [""\" ++ [233]%N ++ runes_of_ascii """] : A,
        [""abc"", ""1""] : zchar,
        3 : x,
        3 : x_y_z,
    },
    uint8x @calculatedFrom(""{,}""),
}// `tick` ""quote"" 'q'

packet calculatedFrom {
    int32 T,
    @lengthOf(float)
    f32a len,
    @calculatedFrom(""" ++ [233]%N ++ runes_of_ascii "t" ++ [233]%N ++ runes_of_ascii """)
    int32 f32a @lengthOf(matchKey) `" ++ [233]%N ++ runes_of_ascii "`,
    charz @calculatedFrom(""x y""),
}

root packet stringy {
    @lengthOf(Logon)
    int64 len @calculatedFrom(""CRC32""),
    T @calculatedFrom(""1"") `line1
        line2`,
    @tag(255)
    @tag(7)
    @tag(007)
    repeat packetx len,
    @tag(1)
    repeat zchar[0] float,//
    @lengthOf(lengthOf)
    repeat x_y_z {
        char[10] u `
                `,
        MetaDataX a1 `u8 x,`,
    },
    @tag(1)
    string repeatCount `" ++ [28040; 24687; 31867; 22411]%N ++ runes_of_ascii "`,
    int8 int @calculatedFrom(""// no comment""),
}

packet asx {
    @leftPad('\x00')
    char[00] u8x @calculatedFrom(""" ++ [233]%N ++ runes_of_ascii "t" ++ [233]%N ++ runes_of_ascii """),
    zchar[007] asx @calculatedFrom(""" ++ [128512]%N ++ runes_of_ascii """),
    repeat MetaDataX metadata `
        `,
}")).
Eval vm_compute in ("<<<M1257>>>" ++ check (runes_of_ascii "//	t
MetaData i8i8 {
char packetx`
`
// a // b
// `tick` ""quote"" 'q'
, // c
char[]
Header`" ++ [233]%N ++ runes_of_ascii "` , u32 options1 , Header i8i8
`two words`
    , }
root packet Header {
    match falsey
as pack // packet A { u8 x, }
{// c
""CRC32"" :crc  ,
    }
    ,o rootA //	t
,
match  rootA as u { [255
,
    ""\n"" ]
:metadata , 42 : uint8x
,
[ """ ++ [128512]%N ++ runes_of_ascii """]
    :float , // " ++ [128512]%N ++ runes_of_ascii " emoji
""\n""	: u ,
3: MetaDataX} ,
    @leftPad ('\x00' )float64
    Packet
@calculatedFrom( ""abc""
)	`say ""hi""` , repeat u8x	, @lengthOf(
msg_type )  uint8x
    // c
    {
packetx
    // " ++ [128512]%N ++ runes_of_ascii " emoji
    repeatCount
, asx
@calculatedFrom(
""x y"" ) , zchar[007 /// triple
]
u `say ""hi""` // c
, } , repeat i16
calculatedFrom
    `
`// c
, int16 //	t
T// " ++ [27880; 37322]%N ++ runes_of_ascii "
@calculatedFrom( ""a	b"" ) ,
@rightPad ( )char[00 ]Foo
    @lengthOf(pack )
    `tab	here` ,
    uint8x `" ++ [28040; 24687; 31867; 22411]%N ++ runes_of_ascii "` , } options  {x_y_z = 255; metadata
= ""CRC32"" ; leftPad =  ""{,}"";
    u128 = true tag
= string;
// " ++ [128512]%N ++ runes_of_ascii " emoji
// a // b
} root
packet x_y_z { @lengthOf(  body
    ) int32
    // `tick` ""quote"" 'q'
    Z9_ @calculatedFrom(
    ""{,}""
)`" ++ [28040; 24687; 31867; 22411]%N ++ runes_of_ascii "` // " ++ [128512]%N ++ runes_of_ascii " emoji
,
}
")).
Eval vm_compute in ("<<<M3484>>>" ++ check (runes_of_ascii "// top
packet // c0
A // c1
{ // c2a
  // c2b
u8 a // c4
, // c5
}
    // c6
packet // c7
B
    // c8
{ u16
    // c10
b // c11
, }
    // c13
packet // c14a
  // c14b
C { // c16
u32 // c17a
  // c17b
c // c18
, // c19
} // c20a
  // c20b
root packet
    // c22
M // c23a
  // c23b
{
    // c24
u16 Kc // c26a
  // c26b
, // c27a
  // c27b
u16
    // c28
Kb // c29
,
    // c30
u16 // c31a
  // c31b
Ka // c32a
  // c32b
, // c33a
  // c33b
match Kc // c35a
  // c35b
as
    // c36
X // c37
{ 9 // c39
: // c40
A // c41
, // c42
10 // c43
: // c44
B // c45
, // c46a
  // c46b
} // c47a
  // c47b
, match // c49
Kb
    // c50
as Y // c52a
  // c52b
{ // c53
2 // c54a
  // c54b
: // c55a
  // c55b
C ,
    // c57
1
    // c58
: // c59a
  // c59b
A
    // c60
,
    // c61
}
    // c62
,
    // c63
match // c64a
  // c64b
Ka // c65
as // c66a
  // c66b
Z { 1 // c69
: // c70
B , // c72
} // c73
, // c74a
  // c74b
A // c75a
  // c75b
, // c76
B // c77a
  // c77b
, // c78
C
    // c79
, }
    // c81
")).
Eval vm_compute in ("<<<M4023>>>" ++ check (runes_of_ascii "options {
    // @lengthOf(
    roots = false
    a1 = '0';
    leftPad = true;
    // a // b
    // " ++ [27880; 37322]%N ++ runes_of_ascii "
    Logon = ""a	b""
}

root packet metadata {
    tag @lengthOf(string_) `it's`,
    @leftPad(' ')
    @lengthOf(trueish)
    @lengthOf(A)
    int64 Packet @calculatedFrom("""") `
        `,
    u f32a ``,
    @calculatedFrom(""abc"")
    @tag(255)
    char[] Logon @calculatedFrom(""\" ++ [233]%N ++ runes_of_ascii """),// trailing space 
    repeat char[7] a1,
    char[] pack `u8 x,`,
    repeat calculatedFrom `tab	here`,
    @tag(1)
    u32 options1,
}

options {
    i8i8 = 4294967296
}

packet roots {
    repeat charz x_y_z,
}

packet msg_type {
    @lengthOf(tag)
    i32 Pad `" ++ [28040; 24687; 31867; 22411]%N ++ runes_of_ascii "`,
    i64 a1,
    metadata {
        repeat int8 float,// `tick` ""quote"" 'q'
        Pad _x,
        f32 pack,
    },
    i8 repeatCount,
    char matchKey,
    repeat trueish `u8 x,`,
    o leftPad,
    char[] pack `it's`,// c
    As {
        uint32 rootA @calculatedFrom(""it's"") `
                `,
    },
}")).
Eval vm_compute in ("<<<M4059>>>" ++ check (runes_of_ascii "packet _x {
    repeat o int,
    match int as Logon {
        ""packet"" : string_,
    },
    @leftPad('0')
    zchar[1] asx,
}// @lengthOf(

packet leftPad {
}

root packet i8i8 {
    @calculatedFrom(""it's"")
    _x len `crlf
    line`,
}

root packet rootA {
    char[] rootA @lengthOf(leftPad) `u8 x,`,
    match falsey as calculatedFrom {
        42 : Foo,
    },
    repeat Z9_ {
        uint16 _x `doc`,
        zchar[42] u8x,
        repeat zchar[42] Z9_ `// not a comment`,
    },
    string T,
    u8x i8i8,
    @calculatedFrom(""CRC32"")
    u64 zchar,
}

packet Packet {
    repeat Z9_ int,
    int16 asx `// not a comment`,
    @lengthOf(options1)
    repeat int8 As `" ++ [233]%N ++ runes_of_ascii "`,
    @leftPad('\x00')
    o {
        repeat rootA `crlf
        line`,
        Packet,
    },
    @calculatedFrom(""`tick`"")
    @lengthOf(T)
    //	t
    repeatCount _x,
    _x {
        i16 x_y_z @lengthOf(a1) `
        `,
    },
}")).
Eval vm_compute in ("<<<M149>>>" ++ check (runes_of_ascii "MetaData As{
    u//
matchKey	, char[] T	, char[] Foo// @lengthOf(
`{ , }`,
    }root
packet
    T { @lengthOf(
tag ) @tag( 0123456789 ) match repeatCount as
    BodyLength { """ ++ [233]%N ++ runes_of_ascii "t" ++ [233]%N ++ runes_of_ascii """  :o ,
65535 : float,
    ""a	b""	: _x , [ ""x y"" , 65535
// packet A { u8 x, }
//x
] : string_ ,}
,}
    root packet
_x { match msg_type
    // trailing space 
    as
    f32a {""\" ++ [233]%N ++ runes_of_ascii """ : Header 3	:
repeatCount [7, ""a	b"" ] :
_x
, ""it's"":
stringy 10
:
//	t
/// triple
As ,""it's"" :lengthOf }
, @calculatedFrom(""packet"" ) int64// `tick` ""quote"" 'q'
falsey ,	@leftPad// packet A { u8 x, }
( )
//	t
//
char[ 1 ]len// @lengthOf(
@lengthOf( Foo ) ,	chars
T ,
    zchar[
007	]	options1
,
match f32a as
asx
{[ ""1"" ] :matchKey, """ ++ [28040; 24687]%N ++ runes_of_ascii """: As ,
    // c
    4294967296 : options1 ,
}
    , }	MetaData o
    {	zchar[ 42] repeatCount ,packetx falsey,Packet options1
`{ , }` ,} options { falsey = ""a\\""	} // " ++ [128512]%N ++ runes_of_ascii " emoji")).
Eval vm_compute in ("<<<M438>>>" ++ check (runes_of_ascii "root packet len { tag	repeatCount , crc
{
    As { T zchar , _x `line1
line2` , f64 x_y_z ,
    match packetx  as
    calculatedFrom
{ [
""// no comment"" ,  ""packet"" ]:
    charz , }// a // b
, }
    ,
} // " ++ [27880; 37322]%N ++ runes_of_ascii "
,
zchar[7
] i64_ `
`  ,
// " ++ [128512]%N ++ runes_of_ascii " emoji
// c
@calculatedFrom(
""{,}"" )stringy
@calculatedFrom( """ ++ [233]%N ++ runes_of_ascii "t" ++ [233]%N ++ runes_of_ascii """ ),match metadata as Z9_
{ ""a\\"" :
Logon 7 : Pad ,
    3
    :
    // a // b
    Foo , [
    10
] :
msg_type ,
//	t
// `tick` ""quote"" 'q'
""\n"" : x
}, match trueish as pack{ [
    // trailing space 
    ""a	b""
    , 4294967296
    ,
""" ++ [233]%N ++ runes_of_ascii "t" ++ [233]%N ++ runes_of_ascii """ , 42, ""{,}""
// " ++ [27880; 37322]%N ++ runes_of_ascii "
// c
, 7	,	255 ] : Logon , // `tick` ""quote"" 'q'
[
    ""{,}""
    ,
42	,
00 ] :
    /// triple
    crc, 42 : A
    ,
""" ++ [28040; 24687]%N ++ runes_of_ascii """ : asx	,[ """ ++ [128512]%N ++ runes_of_ascii """ ,65535	,
    ""`tick`"" ,
7 , ""x y"" , ""CRC32""
    // " ++ [27880; 37322]%N ++ runes_of_ascii "
    ,
""" ++ [28040; 24687]%N ++ runes_of_ascii """ //
]
// `tick` ""quote"" 'q'
// @lengthOf(
: BodyLength ,
} , }")).
Eval vm_compute in ("<<<M468>>>" ++ check (runes_of_ascii "root packet //
len{
    char[ 1]As , i64 T	@lengthOf( u8x
)	`u8 x,` , repeat int16
/// triple
// " ++ [128512]%N ++ runes_of_ascii " emoji
i8i8`" ++ [233]%N ++ runes_of_ascii "` , @tag( 42 ) match chars as calculatedFrom
    {[ ""a\\"", 0
] : // " ++ [27880; 37322]%N ++ runes_of_ascii "
trueish
3
    : BodyLength
    ""{,}"" : len } , // a // b
repeat zchar[
4294967296 ]
A
    ``, repeat char uint8x  `it's`
,}packet// " ++ [27880; 37322]%N ++ runes_of_ascii "
x_y_z {	@lengthOf(matchKey ) @tag(
    3
    )@calculatedFrom( ""\" ++ [233]%N ++ runes_of_ascii """  )
    string
    lengthOf@calculatedFrom(
""" ++ [233]%N ++ runes_of_ascii "t" ++ [233]%N ++ runes_of_ascii """ ) , } root
packet //
int
// trailing space 
// packet A { u8 x, }
{ repeat BodyLength { match Pad as chars {[ ""`tick`""]
:
    // a // b
    zchar,[ """ ++ [28040; 24687]%N ++ runes_of_ascii """ , ""CRC32"" ,""// no comment""] : repeatCount
,  1 :metadata
, 3 : As , 3 : lengthOf } ,
u32 A // " ++ [27880; 37322]%N ++ runes_of_ascii "
`// not a comment` ,
//x
//x
f64 stringy @lengthOf( As )`" ++ [233]%N ++ runes_of_ascii "`
    , o
,
}
, }
    packet
zchar {}
// c
")).
Eval vm_compute in ("<<<M171>>>" ++ check (runes_of_ascii "root  packet body { /// triple
crc
x_y_z `say ""hi""` , float// `tick` ""quote"" 'q'
_x , T// " ++ [128512]%N ++ runes_of_ascii " emoji
`a\`
    // " ++ [27880; 37322]%N ++ runes_of_ascii "
    , uint64 MetaDataX , repeat zchar[ 7 ]
    calculatedFrom `` , uint32 len
// c
// @lengthOf(
`a\` , } /// triple
options{
} packet	a1{ @tag( 1 )Logon @lengthOf(	options1) `{ , }` , @calculatedFrom( ""abc"")
    /// triple
    f32a // " ++ [27880; 37322]%N ++ runes_of_ascii "
{leftPad { // trailing space 
o matchKey
``  , }
, int32 int
// c
// @lengthOf(
``
, char[ 007 ]
    zchar
@lengthOf( Z9_ ) `tab	here`
    , char[ 1 ] falsey ,  } ,
    repeat int16 Z9_ , match	zchar as zchar{ ""packet"" :	x_y_z	,
[3
    // " ++ [128512]%N ++ runes_of_ascii " emoji
    , ""CRC32"", 0,""CRC32""//
, 0123456789 ]
: len
, [0 ,	4294967296
] :
Packet
, [65535
] : options1 [ 10]//	t
: u128 , } , // packet A { u8 x, }
}
")).
Eval vm_compute in ("<<<M97>>>" ++ check (runes_of_ascii "options
// trailing space 
// " ++ [27880; 37322]%N ++ runes_of_ascii "
{Foo=
""it's"" lengthOf = int8 falsey /// triple
= 7 ;a1
= false
; } MetaData repeatCount
//x
//x
{ T
    repeatCount,
    u8x msg_type `// not a comment`
    ,
    repeatCount T	, } packet repeatCount{  @tag( 007 ) i64_ As	,
}
root packet	packetx{
    string
//	t
// " ++ [128512]%N ++ runes_of_ascii " emoji
T @calculatedFrom(""{,}""//
)
    , repeat zchar[
    4294967296
    ] x  , @tag(
42 ) @lengthOf( lengthOf
)/// triple
@calculatedFrom( ""`tick`""	)repeat u16 u128 `say ""hi""` // trailing space 
, // trailing space 
@rightPad ( ) @tag( 255 )
repeat uint8x Logon
    // packet A { u8 x, }
    ,
    repeat zchar[ 007 ]Logon`a\`
    ,@rightPad(
    // `tick` ""quote"" 'q'
    '0' ) // @lengthOf(
string
falsey ,
}
")).
Eval vm_compute in ("<<<M4403>>>" ++ check (runes_of_ascii "packet f32a {
    @leftPad()
    i32 repeatCount @calculatedFrom(""`tick`"") `two words`,
    repeat i32 int,
    char[00] Header,
    repeat zchar[10] a1,
    string_ @calculatedFrom(""// no comment""),
    @leftPad()
    @tag(00)
    @lengthOf(string_)
    repeat zchar[3] x_y_z,
    repeat uint16 rootA `line1
    line2`,
    u8 roots @lengthOf(tag),
    T @lengthOf(A) `// not a comment`,// a // b
}

MetaData rootA {
    pack calculatedFrom,
    trueish packetx ``,
    Packet msg_type `it's`,
    u64 repeatCount,
    uint8 Z9_ `" ++ [28040; 24687; 31867; 22411]%N ++ runes_of_ascii "`,
}

options {
    chars = u8
    falsey = '\x00'
    MetaDataX = char[];
    repeatCount = char[]
}

MetaData string_ {
    string chars,
}")).
Eval vm_compute in ("<<<M523>>>" ++ check (runes_of_ascii "packet zchar{
    i32 zchar @calculatedFrom( ""abc"") `a\` // c
,Pad Logon `tab	here`
// c
// a // b
,
// a // b
/// triple
@tag(
    /// triple
    0 ) Packet{
x_y_z
matchKey,
float64 Logon
@lengthOf( uint8x ) , } // c
,
packetx i64_ `" ++ [28040; 24687; 31867; 22411]%N ++ runes_of_ascii "` ,
    repeat char[] As	`two words`, } MetaData packetx{ options1 Z9_
`crlf
line` , char[] pack
//
// `tick` ""quote"" 'q'
,	string
charz
    `// not a comment`,
    /// triple
    char[]
string_
, // a // b
asx int //	t
`u8 x,` ,	} options
{
rootA =""a\\""
leftPad = ' ' ;
    leftPad= '\x00' ; }MetaData i8i8 { charz // trailing space 
zchar , string
    chars // c
, int8 repeatCount`it's` , }
")).
Eval vm_compute in ("<<<M1154>>>" ++ check (runes_of_ascii "// " ++ [27880; 37322]%N ++ runes_of_ascii "
packet
leftPad { // a // b
string As `{ , }`, char[
42 ] msg_type , @lengthOf( i8i8 ) match
Foo as matchKey //	t
{
1  :chars ,
65535 : o 7 :
    calculatedFrom , [65535,  7 , ""a	b""
    ] :int
, [
00 ,
0 , ""x y"" ,
    65535//	t
, """ ++ [128512]%N ++ runes_of_ascii """  ,007,
""it's"",
    """" ]
    :
Packet
, """" :	float ,}	,
u64 Logon
@calculatedFrom( """ ++ [128512]%N ++ runes_of_ascii """), @calculatedFrom(
""a	b"" ) pack {float32 charz
    `line1
line2` // `tick` ""quote"" 'q'
, } ,
} MetaData u128
    {	repeatCount
    len
`" ++ [233]%N ++ runes_of_ascii "`
, BodyLength//x
charz
, u8x trueish  `a\` ,Header msg_type
`line1
line2` ,
    string  stringy , // " ++ [128512]%N ++ runes_of_ascii " emoji
char[] u128
    `" ++ [233]%N ++ runes_of_ascii "`, }options { }")).
Eval vm_compute in ("<<<M1026>>>" ++ check (runes_of_ascii "options // c
{
msg_type =//	t
1 ;
    // a // b
    _x
=
    // packet A { u8 x, }
    char[]
; // a // b
pack = ' ' ; } MetaData
    i8i8{i8i8 // " ++ [27880; 37322]%N ++ runes_of_ascii "
roots ,  options1
    // " ++ [27880; 37322]%N ++ runes_of_ascii "
    lengthOf, _x
    Z9_ `// not a comment` ,
    x i8i8 `{ , }`  , leftPad BodyLength
    /// triple
    , } root
packet tag { zchar[	4294967296]
// packet A { u8 x, }
/// triple
Z9_@calculatedFrom(
    ""abc"" ) `" ++ [28040; 24687; 31867; 22411]%N ++ runes_of_ascii "`, char
    BodyLength @calculatedFrom( ""\n"" ) `// not a comment` ,
    @leftPad // c
(' ' // c
) @rightPad (	)
repeat
    MetaDataX
    u
`" ++ [233]%N ++ runes_of_ascii "`	, } MetaData tag {u64 x_y_z
`
` , }
")).
Eval vm_compute in ("<<<M1266>>>" ++ check (runes_of_ascii "packet matchKey { @rightPad ( ' ' )
    @tag( 65535 ) _x @lengthOf( options1 )
`" ++ [28040; 24687; 31867; 22411]%N ++ runes_of_ascii "`,
@lengthOf( o ) tag /// triple
Logon ,
}
packet
pack // @lengthOf(
{ @tag(
7 ) zchar[ 0
] u @calculatedFrom( ""\n"" )
    `a\` ,repeat stringy ,repeat i8i8 a1 ,char[ 0 ] pack @calculatedFrom(
""\n"" )`line1
line2` , }packet u128{
@lengthOf(
metadata)
int8 Foo
`
` , @leftPad( '\x00') zchar , len // c
Header ,  repeat
    chars
``,
f64 trueish@calculatedFrom( ""`tick`"")
    // " ++ [27880; 37322]%N ++ runes_of_ascii "
    , @lengthOf(
matchKey// @lengthOf(
) uint32 i8i8
, asx int `a\`, }
")).
Eval vm_compute in ("<<<M1147>>>" ++ check (runes_of_ascii "root
    // trailing space 
    packet
    a1 { int16
u8x , match
    pack as i8i8{ ""packet""
    :
i64_ [ 1,
    //
    7 // @lengthOf(
,007	, 0123456789 , """ ++ [233]%N ++ runes_of_ascii "t" ++ [233]%N ++ runes_of_ascii """
    , 0 ] :
chars
    , [
    7 ,
""a\\"" , ""a\""b"", 007  , 0	,""// no comment"" ] : A	,}  ,
int64 metadata , @lengthOf(roots )len ,repeat
    //
    As// trailing space 
`it's`  , //	t
repeat calculatedFrom
    {repeat
//x
// " ++ [27880; 37322]%N ++ runes_of_ascii "
options1 stringy , calculatedFrom matchKey
    `" ++ [28040; 24687; 31867; 22411]%N ++ runes_of_ascii "` , float32
options1 @lengthOf( // trailing space 
float
)
    , } , } 	 ")).
Eval vm_compute in ("<<<M740>>>" ++ check (runes_of_ascii "packet chars {
// `tick` ""quote"" 'q'
// `tick` ""quote"" 'q'
@lengthOf(trueish ) char[10 ] metadata
//	t
// packet A { u8 x, }
@calculatedFrom(""x y"" )
    , MetaDataX @lengthOf(
BodyLength)
`u8 x,` ,match
    x
    // trailing space 
    as trueish { 7 /// triple
: matchKey , }
    , }root packet	len { // packet A { u8 x, }
x@lengthOf(Pad // `tick` ""quote"" 'q'
),
    asx { pack
_x , } ,} MetaData // `tick` ""quote"" 'q'
pack
    {
int8 //x
zchar
    // @lengthOf(
    `tab	here`
,}
")).
Eval vm_compute in ("<<<M188>>>" ++ check (runes_of_ascii "packet asx{
@lengthOf(	falsey
    //	t
    ) repeat uint64 charz , repeat // " ++ [128512]%N ++ runes_of_ascii " emoji
char[] As `it's`
, }packet
u8x { @tag(
    4294967296
    )
@calculatedFrom(
""`tick`""
) @calculatedFrom(""abc"" ) repeat // @lengthOf(
i64 options1 `it's`, match Logon as o {  3 :Z9_ 3:T , 3// c
:// @lengthOf(
u128,4294967296: Z9_ , [""""
,
10
    ] : body ,
    // c
    """ ++ [233]%N ++ runes_of_ascii "t" ++ [233]%N ++ runes_of_ascii """ : string_
//
/// triple
, } , @tag( 7 )
uint8x
    @lengthOf(
    //
    Foo ), repeat T _x//
`" ++ [233]%N ++ runes_of_ascii "`
, }")).
Eval vm_compute in ("<<<M3873>>>" ++ check (runes_of_ascii "

  options
{ LittleEndian  =

false
    ;
StringPrefixLenType =
	u32 ; ArrayPrefixLenType

    =
u16;

    }
	packet

    Party
	{
    @leftPad
    (
'0'
)
char[  12
]

    Ref ,	repeat
    char[ 
6
	] x
    , 
}
packet
Logon
	{
uint32  clOrdID

,Party
    , }
root
packet Ack
{
zchar[  2 ] 
f1 ,

    u32
	seqNo
,u32

    Side2
@lengthOf(

Body

) 
,
	match seqNo

as

    Body {
    43 : Logon , 93:	Party

    , 
}
, } ")).
Eval vm_compute in ("<<<M1221>>>" ++ check (runes_of_ascii "root packet pack {
    charz calculatedFrom `{ , }` , match i8i8
as o
    { [
65535
    // `tick` ""quote"" 'q'
    ] :
    len ""CRC32"" :Foo
,	[ ""a\""b"" ] :Foo """ ++ [128512]%N ++ runes_of_ascii """: options1,}
    , repeat//
u64  roots, u8x
`two words`, zchar // trailing space 
, trueish , u64 u128 @lengthOf( packetx ) `a\` ,
@tag(
    1 )// " ++ [27880; 37322]%N ++ runes_of_ascii "
uint32 pack @calculatedFrom( ""\n"" )// @lengthOf(
, @tag( 1 )	float32 // @lengthOf(
len
, @tag( 7) float32
falsey
    , }
")).
Eval vm_compute in ("<<<M1035>>>" ++ check (runes_of_ascii "  packet//	t
leftPad
// @lengthOf(
//x
{  falsey `it's` , Packet u128 , // `tick` ""quote"" 'q'
float calculatedFrom, zchar[1] options1 @calculatedFrom(
    ""a\\"" ) , zchar[ 42]As ,
    @rightPad (
    )
    T `say ""hi""`, body
//x
//
Header ,
    f32 T , @calculatedFrom( """ ++ [233]%N ++ runes_of_ascii "t" ++ [233]%N ++ runes_of_ascii """ ) MetaDataX  Pad `// not a comment`
    , }	packet u {
/// triple
// c
int16
Header	`say ""hi""` ,
    } MetaData options1 {} // trailing space ")).
Eval vm_compute in ("<<<M1324>>>" ++ check (runes_of_ascii "
root	packet A
// c
// c
{/// triple
repeat string Packet`say ""hi""` ,} MetaData o { char[] u128 `line1
line2`, lengthOf x_y_z , char[1 ]	i8i8 `a\` , int16 leftPad
    // a // b
    `two words`
    , i16 asx
,
} // packet A { u8 x, }
MetaData
    charz
    { Header	a1 , Header // a // b
trueish
`u8 x,` // `tick` ""quote"" 'q'
, u128
stringy, uint8
matchKey , uint32 options1, matchKey
    i8i8 , }")).
Eval vm_compute in ("<<<M1260>>>" ++ check (runes_of_ascii "root packet
roots { i8i8
@calculatedFrom( ""abc"" ) , repeat uint32 matchKey `doc` , char[255 ]
A @lengthOf( calculatedFrom
) `{ , }` // c
,
crc//x
{ A Header `
` , char[] o ,repeat zchar[ 1
]//x
body
`" ++ [233]%N ++ runes_of_ascii "` ,//	t
}, int8 u ,
    match packetx as	u
{ [ /// triple
0
    // a // b
    , ""`tick`"" ]:
Packet//
,""\" ++ [233]%N ++ runes_of_ascii """
    /// triple
    : Packet, [
4294967296 ]
: matchKey,}
    ,}
")).
Eval vm_compute in ("<<<M4053>>>" ++ check (runes_of_ascii "
options

    {	trueish=

    uint64	lengthOf
=u32  ;	matchKey  =  """" 
    // trailing space 
  	//	t
    ;

}
options{  Packet
	=

string 
charz =	uint16
	MetaDataX

    =
""abc""

}
root
packet tag{ 
options1 	 // " ++ [27880; 37322]%N ++ runes_of_ascii "
	  i8i8//
,

@calculatedFrom( """ ++ [28040; 24687]%N ++ runes_of_ascii """	)	match falsey
    as 
BodyLength
{ 10
	:

    u8x

    ,}
,Z9_ len, msg_type 
`// not a comment`,

} ")).
Eval vm_compute in ("<<<M806>>>" ++ check (runes_of_ascii "  MetaData  As/// triple
{
    zchar[ 255 ] repeatCount ,u32 lengthOf`u8 x,`
// " ++ [27880; 37322]%N ++ runes_of_ascii "
// c
, o crc
    , a1	u ,BodyLength matchKey ,
char[ 00
//	t
// " ++ [128512]%N ++ runes_of_ascii " emoji
]options1
    `
` // `tick` ""quote"" 'q'
, }packet u8x {
char[0 ] As @calculatedFrom( ""packet""	) , @calculatedFrom( ""\" ++ [233]%N ++ runes_of_ascii """ )@lengthOf(
int )	repeat
    //x
    trueish
T
,float32 o
`u8 x,` ,}
//	t
")).
Eval vm_compute in ("<<<M4085>>>" ++ check (runes_of_ascii "MetaData
    int {  //x
    u8x
float
,zchar[

3
    ]
	body `" ++ [28040; 24687; 31867; 22411]%N ++ runes_of_ascii "`
    ,Z9_  leftPad // c
	,f32a  msg_type

    ,i64_	// " ++ [27880; 37322]%N ++ runes_of_ascii "
    chars,
    u8x o ,  
      // packet A { u8 x, }
  }
options 
{ Z9_ 
  // packet A { u8 x, }
	=	false
    ; 
MetaDataX

    = 	 // packet A { u8 x, }
  '\x00'; f32a
    =	""" ++ [28040; 24687]%N ++ runes_of_ascii """ ;x_y_z

= ' '

    ; } ")).
Eval vm_compute in ("<<<M1138>>>" ++ check (runes_of_ascii "MetaData
metadata{
    char[3// " ++ [128512]%N ++ runes_of_ascii " emoji
] roots , As zchar,
u
msg_type	`say ""hi""` , float32 options1 ``	, char[]
packetx
    ,
}root
packet f32a {
    char[]
MetaDataX `{ , }` , }
/// triple
// c
packet _x{
@lengthOf( A
) i64 x
    ,
    int @lengthOf( // " ++ [128512]%N ++ runes_of_ascii " emoji
MetaDataX), repeat BodyLength{ f32 lengthOf , } , }
")).
Eval vm_compute in ("<<<M1280>>>" ++ check (runes_of_ascii "
root packet  uint8x
{x_y_z zchar`{ , }` ,// `tick` ""quote"" 'q'
}
    root packet zchar { //x
@tag(42 ) @leftPad (
    //
    '\x00' ) len options1 `two words`
    , repeat char[ 255]_x ,} options {
options1 // " ++ [27880; 37322]%N ++ runes_of_ascii "
='\x00'msg_type= 0123456789 leftPad =// a // b
' ' ; T	= /// triple
true roots	= ""abc""//
;}")).
Eval vm_compute in ("<<<M1432>>>" ++ check (runes_of_ascii "root packet Foo // " ++ [128512]%N ++ runes_of_ascii " emoji
{ @lengthOf( options {
    // a // b
    tag // `tick` ""quote"" 'q'
= //	t
""""
    ; u8x = zchar[0  ] }
MetaData
    int {zchar[ 10]
lengthOf	`` , i64 u8x`// not a comment` ,MetaDataX pack// `tick` ""quote"" 'q'
`crlf
line`
, Logon charz `crlf
line`
    ,
    // a // b
    }
")).
Eval vm_compute in ("<<<M1611>>>" ++ check (runes_of_ascii "root packet Foo // " ++ [128512]%N ++ runes_of_ascii " emoji
{ } options {
    // a // b
    tag // `tick` ""quote"" 'q'
= //	t
""""
    ; u8x = zchar[0  ] }
MetaData
    int {zchar[ 10]
lengthO@tagf	`` , i64 u8x`// not a comment` ,MetaDataX pack// `tick` ""quote"" 'q'
`crlf
line`
, Logon charz `crlf
line`
    ,
    // a // b
    }
")).
Eval vm_compute in ("<<<M1535>>>" ++ check (runes_of_ascii "root packet Foo // " ++ [128512]%N ++ runes_of_ascii " emoji
{ } options {
    // a // b
    tag // `tick` ""quote"" 'q'
= //	t
""""
    ; u8x = zchar[0  ] }
MetaData
    int {zchar[ 10]
lengthOf	`` , , i64 u8x`// not a comment` ,MetaDataX pack// `tick` ""quote"" 'q'
`crlf
line`
, Logon charz `crlf
line`
    ,
    // a // b
    }
")).
Eval vm_compute in ("<<<M1431>>>" ++ check (runes_of_ascii "root packet Foo // " ++ [128512]%N ++ runes_of_ascii " emoji
{ options } {
    // a // b
    tag // `tick` ""quote"" 'q'
= //	t
""""
    ; u8x = zchar[0  ] }
MetaData
    int {zchar[ 10]
lengthOf	`` , i64 u8x`// not a comment` ,MetaDataX pack// `tick` ""quote"" 'q'
`crlf
line`
, Logon charz `crlf
line`
    ,
    // a // b
    }
")).
Eval vm_compute in ("<<<M1591>>>" ++ check (runes_of_ascii "root packet Foo // " ++ [128512]%N ++ runes_of_ascii " emoji
{ } options {
    // a // b
    tag // `tick` ""quote"" 'q'
= //	t
""""
    ; u8x = zchar[0  ] }
MetaData
    int {zchar[ 10]
lengthOf	`` , i64 u8x`// not a comment` ,MetaDataX pack// `tick` ""quote"" 'q'
`crlf
line`
, Logon charz ,
    `crlf
line`
    // a // b
    }
")).
Eval vm_compute in ("<<<M338>>>" ++ check (runes_of_ascii "
MetaData u8x
{
stringy x_y_z , }
root packet MetaDataX
{
len
    @calculatedFrom(""`tick`"")// trailing space 
`tab	here`
    ,repeat
falsey{
T@calculatedFrom( ""\" ++ [233]%N ++ runes_of_ascii """
) ,/// triple
float32 options1 `tab	here` , // a // b
},	@lengthOf( T
)repeat
float64// trailing space 
a1
`{ , }` ,}
")).
Eval vm_compute in ("<<<M879>>>" ++ check (runes_of_ascii "packet
calculatedFrom {
repeat charz , Logon @calculatedFrom( ""packet"")
    , @tag(
1 )
    repeat zchar[	255
] rootA
    , string
calculatedFrom `two words`, @rightPad ( ' ' )
@calculatedFrom(""\n"" )@tag(4294967296 )
chars @calculatedFrom( """ ++ [233]%N ++ runes_of_ascii "t" ++ [233]%N ++ runes_of_ascii """ ) `
` // c
,  repeat u128//x
int
,
}")).
Eval vm_compute in ("<<<M1549>>>" ++ check (runes_of_ascii "root packet Foo // " ++ [128512]%N ++ runes_of_ascii " emoji
{ } options {
    // a // b
    tag // `tick` ""quote"" 'q'
= //	t
""""
    ; u8x = zchar[0  ] }
MetaData
    int {zchar[ 10]
lengthOf	`` , i64 u8x ,MetaDataX pack// `tick` ""quote"" 'q'
`crlf
line`
, Logon charz `crlf
line`
    ,
    // a // b
    }
")).
Eval vm_compute in ("<<<M3782>>>" ++ check (runes_of_ascii "packet chars {
    rootA i64_,
    @calculatedFrom(""1"")
    len @lengthOf(A) `two words`,
    repeat float32 leftPad,
    match Z9_ as Pad {
        [00, 10, """ ++ [28040; 24687]%N ++ runes_of_ascii """, ""\" ++ [233]%N ++ runes_of_ascii """] : As,
    },
}

MetaData matchKey {
    leftPad uint8x `a\`,
    body x_y_z,
}

packet tag {
}")).
Eval vm_compute in ("<<<M1295>>>" ++ check (runes_of_ascii "packet
    len {
@calculatedFrom( ""1""	) zchar[ 0 ] tag`u8 x,`
    , @tag( 7 )repeat uint64 stringy `// not a comment` , @calculatedFrom( ""\n""
)
    @lengthOf(
    trueish ) repeat _x zchar , @lengthOf( crc ) zchar[
255  ]
Foo`" ++ [233]%N ++ runes_of_ascii "`
,} // trailing space ")).
Eval vm_compute in ("<<<M108>>>" ++ check (runes_of_ascii "packet T {	match Packet as
// c
// " ++ [27880; 37322]%N ++ runes_of_ascii "
Header { 42 : BodyLength , ""// no comment""
// `tick` ""quote"" 'q'
// packet A { u8 x, }
: matchKey ""`tick`"" :
crc ,	[ 1  ]	:o, } ,	}// " ++ [128512]%N ++ runes_of_ascii " emoji
packet As {
} options  { u128
= //x
' '
body=
    char[] }
")).
Eval vm_compute in ("<<<M3790>>>" ++ check (runes_of_ascii "packet msg_type {
    charz ``,
    Logon @lengthOf(As),
    zchar[10] Packet,
    @rightPad(' ')
    repeat As {
        char[007] int @lengthOf(roots),
        int64 u8x `" ++ [233]%N ++ runes_of_ascii "`,
        zchar @calculatedFrom(""" ++ [233]%N ++ runes_of_ascii "t" ++ [233]%N ++ runes_of_ascii """),
    },/// triple
}")).
Eval vm_compute in ("<<<M2213>>>" ++ check (runes_of_ascii "MetaData MetaData Packet { }packet	asx  { @lengthOf( asx) falsey`crlf
line`
,
    }
    packet x	{uint32// @lengthOf(
rootA	,u32 options1 `say ""hi""` , @tag( 7
    )// packet A { u8 x, }
msg_type @lengthOf(
stringy	)	, }

")).
Eval vm_compute in ("<<<M4145>>>" ++ check (runes_of_ascii "  // c
      packet 	 // `tick` ""quote"" 'q'

	f32a  { }	MetaData
rootA {zchar[ 007// trailing space 
    ] As
,
    A

    u,

    a1
A,} 
root
packet	Logon  // @lengthOf(
{
	@tag(1	)
x_y_z
{  repeat u
	_x ,
} ,  } ")).
Eval vm_compute in ("<<<M2303>>>" ++ check (runes_of_ascii "MetaData Packet { }packet	asx  { @lengthOf( asx) falsey`crlf
line`
,
    }
    packet x	{uint32// @lengthOf(
options	,u32 options1 `say ""hi""` , @tag( 7
    )// packet A { u8 x, }
msg_type @lengthOf(
stringy	)	, }

")).
Eval vm_compute in ("<<<M2218>>>" ++ check (runes_of_ascii "MetaData { Packet }packet	asx  { @lengthOf( asx) falsey`crlf
line`
,
    }
    packet x	{uint32// @lengthOf(
rootA	,u32 options1 `say ""hi""` , @tag( 7
    )// packet A { u8 x, }
msg_type @lengthOf(
stringy	)	, }

")).
Eval vm_compute in ("<<<M3687>>>" ++ check (runes_of_ascii "
packet 
T	{

@leftPad  (
	' '
)
    // " ++ [27880; 37322]%N ++ runes_of_ascii "

  int32 
        // " ++ [27880; 37322]%N ++ runes_of_ascii "
  // @lengthOf(
	packetx

`" ++ [233]%N ++ runes_of_ascii "` , uint16

    MetaDataX@lengthOf(	asx 

    // packet A { u8 x, }
	// a // b
    )// `tick` ""quote"" 'q'
	,

}

")).
Eval vm_compute in ("<<<M760>>>" ++ check (runes_of_ascii "packet charz// @lengthOf(
{ @calculatedFrom( ""{,}"" // @lengthOf(
)
char[// " ++ [128512]%N ++ runes_of_ascii " emoji
255 ] crc @calculatedFrom( """ ++ [233]%N ++ runes_of_ascii "t" ++ [233]%N ++ runes_of_ascii """  ) , @tag(
    // a // b
    7 ) uint16
    pack @calculatedFrom(
    """ ++ [233]%N ++ runes_of_ascii "t" ++ [233]%N ++ runes_of_ascii """ ) `two words`
,
}")).
Eval vm_compute in ("<<<M4095>>>" ++ check (runes_of_ascii "
root packet	i64_
    {

rootA	{ zchar[
1] 
packetx @calculatedFrom(  ""1""  ) ,
	// @lengthOf(
      /// triple

	} ,  }options// " ++ [128512]%N ++ runes_of_ascii " emoji
{ chars =	// trailing space 
  char[]
;
	falsey
= u32
; } 	 //x
")).
Eval vm_compute in ("<<<M33>>>" ++ check (runes_of_ascii "packet BodyLength{//	t
x
f32a
    `line1
line2`
,
@calculatedFrom( ""a\\""
)@lengthOf(
repeatCount
) i8 Header
    `{ , }` ,float64	leftPad@calculatedFrom(	""\" ++ [233]%N ++ runes_of_ascii """)
,@calculatedFrom(  ""1"") uint64 o, } 	 ")).
Eval vm_compute in ("<<<M1309>>>" ++ check (runes_of_ascii "MetaData  asx { /// triple
uint16 //
leftPad , char[ 4294967296 ] matchKey	`
` ,
// @lengthOf(
/// triple
u32 options1 , zchar[ // @lengthOf(
0 ] falsey
`it's`
, char leftPad
    `u8 x,` , }
")).
Eval vm_compute in ("<<<M86>>>" ++ check (runes_of_ascii "
packet calculatedFrom { } MetaData charz
{
Z9_
    // @lengthOf(
    Pad // a // b
, uint64
// packet A { u8 x, }
// a // b
u `" ++ [233]%N ++ runes_of_ascii "` , char[
00]
Z9_,	}// `tick` ""quote"" 'q'
options {} 	 ")).
Eval vm_compute in ("<<<M4117>>>" ++ check (runes_of_ascii "MetaData roots {
}

MetaData stringy {
    Logon leftPad `crlf
    line`,
    char[] metadata `{ , }`,
    falsey pack `" ++ [233]%N ++ runes_of_ascii "`,
    i8 repeatCount,
}

options {
    matchKey = ' '
}")).
Eval vm_compute in ("<<<M535>>>" ++ check (runes_of_ascii "options
{ tag
= string ; // `tick` ""quote"" 'q'
chars = ""CRC32"" ;// packet A { u8 x, }
body  = ""// no comment"" /// triple
;}
    packet string_{ // " ++ [128512]%N ++ runes_of_ascii " emoji
matchKey A, }")).
Eval vm_compute in ("<<<M3473>>>" ++ check (runes_of_ascii "
packet
    A

{u8
a

    ,}

packet
B

{u16 
b
,
    }

    root
    packet
P	{
u8 K
,match
	K  as 
M

    {
	1 :  A  ,	1

    :
    B ,
	}

    ,

}")).
Eval vm_compute in ("<<<M1361>>>" ++ check (runes_of_ascii "options { T
= u64 // trailing space 
uint8x = """ ++ [128512]%N ++ runes_of_ascii """ ; chars
    = char[	0123456789 ]	;Z9_//	t
= ""// no comment""} MetaData
    x_y_z {
} // `tick` ""quote"" 'q'")).
Eval vm_compute in ("<<<M353>>>" ++ check (runes_of_ascii "packet x  {match u128
as stringy// " ++ [128512]%N ++ runes_of_ascii " emoji
{ // a // b
[ """ ++ [28040; 24687]%N ++ runes_of_ascii """
    //	t
    ,	42 , ""// no comment"" // a // b
,""1""] :MetaDataX
, ""it's"" :o	,} ,
    }
")).
Eval vm_compute in ("<<<M996>>>" ++ check (runes_of_ascii "root// " ++ [27880; 37322]%N ++ runes_of_ascii "
packet  MetaDataX { //	t
@calculatedFrom(""it's""
    // packet A { u8 x, }
    )string // " ++ [27880; 37322]%N ++ runes_of_ascii "
msg_type @calculatedFrom("""" )
`{ , }` ,}")).
Eval vm_compute in ("<<<M425>>>" ++ check (runes_of_ascii "MetaData metadata {options1 lengthOf , int x_y_z
    `{ , }`  ,u16	tag `it's` ,i8i8 uint8x ,
u16
BodyLength`crlf
line` , u8x len ``
,}
")).
Eval vm_compute in ("<<<M4157>>>" ++ check (runes_of_ascii "packet Logon {
    @tag(42)
    @rightPad(' ')
    @leftPad()
    // c12
    repeat trueish {
        // c15
        string T,
    },
}")).
Eval vm_compute in ("<<<M398>>>" ++ check (runes_of_ascii "// `tick` ""quote"" 'q'
options { calculatedFrom // " ++ [27880; 37322]%N ++ runes_of_ascii "
=""{,}"" Pad
= int32 ;uint8x/// triple
= ""`tick`""
// @lengthOf(
// @lengthOf(
}")).
Eval vm_compute in ("<<<M1724>>>" ++ check (runes_of_ascii "root packet /// trip" ++ [65279]%N ++ runes_of_ascii "le
rootA {	i32
MetaDataX@calculatedFrom( ""CRC32"" ) `line1
line2` , } MetaData BodyLength {
u8
rootA, } // c")).
Eval vm_compute in ("<<<M4052>>>" ++ check (runes_of_ascii "  packet

    calculatedFrom{
@tag(
4294967296
	)u
msg_type
, char[

3
] 
crc
	@lengthOf( 
len
	)

    `u8 x,`// c
	,
	}
")).
Eval vm_compute in ("<<<M1628>>>" ++ check (runes_of_ascii "} packet /// triple
rootA {	i32
MetaDataX@calculatedFrom( ""CRC32"" ) `line1
line2` , } MetaData BodyLength {
u8
rootA, } // c")).
Eval vm_compute in ("<<<M1702>>>" ++ check (runes_of_ascii "root packet /// triple
rootA {	i32
MetaDataX@calculatedFrom( ""CRC32"" ) `line1
line2` , } MetaData BodyLength {
u8
, } // c")).
Eval vm_compute in ("<<<M148>>>" ++ check (runes_of_ascii "packet i8i8 //x
{int16 // trailing space 
stringy // " ++ [128512]%N ++ runes_of_ascii " emoji
@calculatedFrom(
""// no comment"" ),
} packet
_x {
    }
")).
Eval vm_compute in ("<<<M1893>>>" ++ check (runes_of_ascii "packet
    Pad // a // b
{ caf" ++ [233]%N ++ runes_of_ascii "_1 @calculatedFrom( ""a	b"") `u8 x,` ,
} options{ float// " ++ [128512]%N ++ runes_of_ascii " emoji
= f64 i64_
=//	t
00 }
")).
Eval vm_compute in ("<<<M1797>>>" ++ check (runes_of_ascii "packet
    Pad // a // b
{ @calculatedFrom( i8i8 ""a	b"") `u8 x,` ,
} options{ float// " ++ [128512]%N ++ runes_of_ascii " emoji
= f64 i64_
=//	t
00 }
")).
Eval vm_compute in ("<<<M1860>>>" ++ check (runes_of_ascii "packet
    Pad // a // b
{ i8i8 @calculatedFrom( ""a	b"") `u8 x,` ,
} options{ float// " ++ [128512]%N ++ runes_of_ascii " emoji
= f64 i64_
//	t
00 }
")).
Eval vm_compute in ("<<<M1873>>>" ++ check (runes_of_ascii "packet
    Pad // a // b
{ i8i8 @calculatedFrom( ""a	b"") `u8 x,` ,
} options{ float// " ++ [128512]%N ++ runes_of_ascii " emoji
= f64 i64_
=//	t
00")).
Eval vm_compute in ("<<<M1781>>>" ++ check (runes_of_ascii "
    Pad // a // b
{ i8i8 @calculatedFrom( ""a	b"") `u8 x,` ,
} options{ float// " ++ [128512]%N ++ runes_of_ascii " emoji
= f64 i64_
=//	t
00 }
")).
Eval vm_compute in ("<<<M222>>>" ++ check (runes_of_ascii "MetaData float { }  options {
msg_type=""a	b""
    i8i8	= true stringy = ""CRC32""
    } options { len
= ""\" ++ [233]%N ++ runes_of_ascii """ }")).
Eval vm_compute in ("<<<M3444>>>" ++ check (runes_of_ascii "
packet	B  { u8
    a	,	string s	, }
root packet

    P {	u16

L
	@lengthOf( B)	,
B,
u8
t
	,

    } ")).
Eval vm_compute in ("<<<M3347>>>" ++ check (runes_of_ascii "packet calculatedFrom { @tag( 4294967296 // c
) u msg_type , char[ 3 ] crc @lengthOf( len ) `u8 x,` , }")).
Eval vm_compute in ("<<<M4397>>>" ++ check (runes_of_ascii "  packet

A 
{ match

k
	as
n	{
    [
1
    , 22 
, 
007 
,	4 
, 5] :

    B,

2 
:

    C } ,}
")).
Eval vm_compute in ("<<<M178>>>" ++ check (runes_of_ascii "packet As {
int16
A , }packet u	{ @lengthOf( Pad
)
    f64
    metadata	@lengthOf( a1
)
    ,
}
")).
Eval vm_compute in ("<<<M2990>>>" ++ check (runes_of_ascii "packet A {
  match k as n {
    [1, 22, 007, 4, 5, 66, 7, 8, 9, 10, 11, 12] : B
    2 : C
  },
}")).
Eval vm_compute in ("<<<M3229>>>" ++ check (runes_of_ascii "packet Logon { @tag( 42 ) @rightPad
// c
( ' ' ) @leftPad ( ) repeat trueish { string T , } , }")).
Eval vm_compute in ("<<<M109>>>" ++ check (runes_of_ascii "root
    packet lengthOf { @tag(4294967296 ) @calculatedFrom(
""" ++ [128512]%N ++ runes_of_ascii """)
    i32
msg_type `a\`
, }
")).
Eval vm_compute in ("<<<M4321>>>" ++ check (runes_of_ascii "options {
    Packet = 007;
    u128 = false;
    Header = 42
    Z9_ = char[10];
}// a // b")).
Eval vm_compute in ("<<<M2934>>>" ++ check (runes_of_ascii "packet A {
  match k as n {
    [""a"", ""bb"", 007, ""d"", ""e"", 66, ""g""] : B,
    2 : C
  },
}")).
Eval vm_compute in ("<<<M2930>>>" ++ check (runes_of_ascii "packet A {
  match k as n {
    [""a"", 22, ""c c"", 4, ""e"", 66, ""g""] : B,
    2 : C
  },
}")).
Eval vm_compute in ("<<<M1979>>>" ++ check (runes_of_ascii "root
packet crc
    { root @calculatedFrom( """ ++ [233]%N ++ runes_of_ascii "t" ++ [233]%N ++ runes_of_ascii """ )
    `say ""hi""`, lengthOf `` ,  }")).
Eval vm_compute in ("<<<M3918>>>" ++ check (runes_of_ascii "packet
	A
{ 
u32
    crc@calculatedFrom( ""\
"" )  ,@calculatedFrom( ""\
"" ) u8 y	, }

")).
Eval vm_compute in ("<<<M2901>>>" ++ check (runes_of_ascii "packet A {
  match k as n {
    [""a"", ""bb"", ""c c"", ""d"", ""e""] : B
    2 : C
  },
}")).
Eval vm_compute in ("<<<M3320>>>" ++ check (runes_of_ascii "packet o { @tag( 42 ) repeat x { char[ 0123456789 ] i64_ , // c
} , } options { }")).
Eval vm_compute in ("<<<M411>>>" ++ check (runes_of_ascii "
packet
msg_type{ char[// trailing space 
00 ] x_y_z@lengthOf(
msg_type	) , }
")).
Eval vm_compute in ("<<<M2905>>>" ++ check (runes_of_ascii "packet A {
  match k as n {
    [""a"", 22, ""c c"", 4, ""e""] : B
    2 : C
  },
}")).
Eval vm_compute in ("<<<M682>>>" ++ check (runes_of_ascii "packet trueish
    //x
    { @calculatedFrom( ""abc""
) body `tab	here`	, }
")).
Eval vm_compute in ("<<<M2898>>>" ++ check (runes_of_ascii "packet A {
  match k as n {
    [1, 22, 007, 4, 5] : B,
    2 : C
  },
}")).
Eval vm_compute in ("<<<M2894>>>" ++ check (runes_of_ascii "packet A {
  match k as n {
    [1, 22, ""c c"", 4] : B
    2 : C
  },
}")).
Eval vm_compute in ("<<<M2883>>>" ++ check (runes_of_ascii "packet A {
  match k as n {
    [""a"", ""bb"", 007] : B
    2 : C
  },
}")).
Eval vm_compute in ("<<<M3659>>>" ++ check (runes_of_ascii "

  options{ 
string_
=	7
	tag

    =string
	;
	roots= true ;
} ")).
Eval vm_compute in ("<<<M2210>>>" ++ check (runes_of_ascii "root
    // `tick` ""quote"" 'q'
    packet " ++ [21517; 23383]%N ++ runes_of_ascii " { trueish Packet , }
")).
Eval vm_compute in ("<<<M2161>>>" ++ check (runes_of_ascii "root
    // `tick` ""quote"" 'q'
    packet  { trueish Packet , }
")).
Eval vm_compute in ("<<<M2868>>>" ++ check (runes_of_ascii "packet A {
  match k as n {
    [1, ""bb""] : B
    2 : C
  },
}")).
Eval vm_compute in ("<<<M3420>>>" ++ check (runes_of_ascii "root  packet

    P

    {
repeat
char cs  ,
u8
x  ,
} ")).
Eval vm_compute in ("<<<M3721>>>" ++ check (runes_of_ascii "root packet P {
    repeat string ss,
    repeat u16 ns,
}")).
Eval vm_compute in ("<<<M1819>>>" ++ check (runes_of_ascii "packet
    Pad // a // b
{ i8i8 @calculatedFrom( ""a	b"")")).
Eval vm_compute in ("<<<M4183>>>" ++ check (runes_of_ascii "
options
    {  int =	//x
  ""\" ++ [233]%N ++ runes_of_ascii """ 	 // " ++ [128512]%N ++ runes_of_ascii " emoji
}  //
 
")).
Eval vm_compute in ("<<<M4216>>>" ++ check (runes_of_ascii "
root packet	BodyLength{ }
    packet uint8x

{ 
}
")).
Eval vm_compute in ("<<<M3164>>>" ++ check (runes_of_ascii "packet A { u8 x, } // a
// b
packet B {} // c
// d")).
Eval vm_compute in ("<<<M2264>>>" ++ check (runes_of_ascii "MetaData Packet { }packet	asx  { @lengthOf( asx)")).
Eval vm_compute in ("<<<M2844>>>" ++ check (runes_of_ascii "char[] options 007 , repeat int64 00 { } zchar[")).
Eval vm_compute in ("<<<M1744>>>" ++ check (runes_of_ascii "options } {options {  } // `tick` ""quote"" 'q'")).
Eval vm_compute in ("<<<M754>>>" ++ check (runes_of_ascii "MetaData
    /// triple
    BodyLength
{}
")).
Eval vm_compute in ("<<<M3050>>>" ++ check (runes_of_ascii "options {
    a = ""x\
y"";
    b = ""x\
y""
}")).
Eval vm_compute in ("<<<M838>>>" ++ check (runes_of_ascii "MetaData
zchar {_x
T
    , } options {}")).
Eval vm_compute in ("<<<M3198>>>" ++ check (runes_of_ascii "MetaData zchar { zchar[ 3 // c
] Pad , }")).
Eval vm_compute in ("<<<M4294>>>" ++ check (runes_of_ascii "root packet Pad {
    zchar[7] float,
}")).
Eval vm_compute in ("<<<M348>>>" ++ check (runes_of_ascii "packet
    A
{} options {
T	=
'0' }
")).
Eval vm_compute in ("<<<M2765>>>" ++ check (runes_of_ascii "@tag( options options [ : char[] i64")).
Eval vm_compute in ("<<<M2582>>>" ++ check (runes_of_ascii "packet A { string x @lengthOf(y) }")).
Eval vm_compute in ("<<<M1604>>>" ++ check (runes_of_ascii "root packet Foo // " ++ [128512]%N ++ runes_of_ascii " emoji
{ } o")).
Eval vm_compute in ("<<<M2622>>>" ++ check (runes_of_ascii "packet A { @leftPad('0' u8 x, }")).
Eval vm_compute in ("<<<M3108>>>" ++ check (runes_of_ascii "packet A {
 u8 x `d" ++ [8239]%N ++ runes_of_ascii "`, // c" ++ [8239]%N ++ runes_of_ascii "
}")).
Eval vm_compute in ("<<<M1092>>>" ++ check (runes_of_ascii "MetaData BodyLength //	t
{ }")).
Eval vm_compute in ("<<<M2722>>>" ++ check (runes_of_ascii "@tag( { } : match : { false")).
Eval vm_compute in ("<<<M2715>>>" ++ check (runes_of_ascii " " ++ [65533]%N ++ runes_of_ascii "=" ++ [65533; 972; 65533; 65533; 7; 65533; 65533; 1876; 65533; 65533]%N ++ runes_of_ascii "4G" ++ [27; 65533; 18; 65533]%N ++ runes_of_ascii "U" ++ [65533; 65533]%N ++ runes_of_ascii "+" ++ [65533; 23]%N ++ runes_of_ascii "{")).
Eval vm_compute in ("<<<M3381>>>" ++ check (runes_of_ascii "
// c
packet lengthOf { }")).
Eval vm_compute in ("<<<M3275>>>" ++ check (runes_of_ascii "options { u8x // c
= 3 }")).
Eval vm_compute in ("<<<M3642>>>" ++ check (runes_of_ascii "packet lengthOf {
}// c")).
Eval vm_compute in ("<<<M69>>>" ++ check (runes_of_ascii "options	{ i64_ =00 }
")).
Eval vm_compute in ("<<<M731>>>" ++ check (runes_of_ascii "MetaData crc{//	t
}
")).
Eval vm_compute in ("<<<M2770>>>" ++ check ([65533]%N ++ runes_of_ascii "9" ++ [20; 65533; 11; 23; 5; 2; 65533; 65533; 65533]%N ++ runes_of_ascii "
" ++ [65533; 65533; 65533; 27]%N ++ runes_of_ascii "b" ++ [65533; 17]%N)).
Eval vm_compute in ("<<<M3066>>>" ++ check (runes_of_ascii "packet A {
}
// c" ++ [12288]%N)).
Eval vm_compute in ("<<<M3159>>>" ++ check (runes_of_ascii "MetaData M {
}// c")).
Eval vm_compute in ("<<<M3099>>>" ++ check (runes_of_ascii "packet A {
}// c" ++ [8233]%N)).
Eval vm_compute in ("<<<M1016>>>" ++ check (runes_of_ascii "
MetaData As{
}")).
Eval vm_compute in ("<<<M290>>>" ++ check (runes_of_ascii "options{  }
")).
Eval vm_compute in ("<<<M2826>>>" ++ check (runes_of_ascii "W" ++ [14; 65533]%N ++ runes_of_ascii "3" ++ [65533; 1970; 65533; 65533]%N ++ runes_of_ascii "HU>")).
Eval vm_compute in ("<<<M2455>>>" ++ check (runes_of_ascii "optionss")).
Eval vm_compute in ("<<<M984>>>" ++ check (runes_of_ascii "
 // c")).
Eval vm_compute in ("<<<M2434>>>" ++ check (runes_of_ascii "zchar")).
Eval vm_compute in ("<<<M3130>>>" ++ check (runes_of_ascii "// c" ++ [8203]%N)).
Eval vm_compute in ("<<<M454>>>" ++ check (runes_of_ascii "  
")).
Eval vm_compute in ("<<<M2686>>>" ++ check (runes_of_ascii " " ++ [12]%N ++ runes_of_ascii " ")).
Eval vm_compute in ("<<<M2492>>>" ++ check (runes_of_ascii "@")).
