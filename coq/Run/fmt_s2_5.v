From FP Require Import Lexer Parser ShowPT Digest Formatter.
From Coq Require Import String List NArith.
Import ListNotations.
Open Scope string_scope.
Set Printing Width 100000000.
Set Printing Depth 100000000.
Definition show_fres (r : fres) : string :=
  match r with
  | FOk s => "OK:" ++ sh_escaped s ""
  | FErr s => "ERR:" ++ sh_escaped s ""
  | FPanic p => "PANIC:" ++ p
  end.
Definition check (rs : list rune) : string := digest (show_fres (format_res rs)).
Definition full (rs : list rune) : string := show_fres (format_res rs).
Eval vm_compute in ("<<<M3519>>>" ++ check (runes_of_ascii "// top
options
    // c0
{ // c1
StringPrefixLenType // c2
=
    // c3
u8 // c4a
  // c4b
; // c5a
  // c5b
ArrayPrefixLenType // c6
= u8 ; // c9
FixedStringPadFromLeft
    // c10
= // c11a
  // c11b
true // c12a
  // c12b
;
    // c13
FixedStringPadChar // c14
= // c15
' ' // c16
; } // c18
packet
    // c19
Logout { // c21a
  // c21b
repeat
    // c22
string
    // c23
Px , repeat // c26a
  // c26b
string seqNo , // c29a
  // c29b
InMsgkind64 // c30a
  // c30b
{ uint16 // c32a
  // c32b
OrderId , // c34
char[]
    // c35
count // c36a
  // c36b
, repeat // c38
i32 // c39
venue // c40a
  // c40b
, } ,
    // c43
} // c44a
  // c44b
packet // c45a
  // c45b
Heartbeat
    // c46
{ float32 // c48
tag7 ,
    // c50
repeat
    // c51
InPrice50 // c52a
  // c52b
{
    // c53
repeat // c54
char[ // c55
5 // c56a
  // c56b
] // c57
lastPx // c58a
  // c58b
, // c59
InRef42
    // c60
{
    // c61
u8 // c62
pad0
    // c63
, // c64a
  // c64b
} ,
    // c66
uint32 // c67a
  // c67b
Acct , repeat // c70
Logout
    // c71
, repeat char[
    // c74
5
    // c75
] // c76a
  // c76b
Qty // c77
,
    // c78
}
    // c79
, // c80a
  // c80b
repeat // c81a
  // c81b
InSeqno30 {
    // c83
repeat // c84a
  // c84b
Logout
    // c85
,
    // c86
} // c87a
  // c87b
, // c88a
  // c88b
@leftPad
    // c89
( '0' ) char[ 12
    // c94
] Acct // c96
, // c97a
  // c97b
char[]
    // c98
Side2
    // c99
, repeat // c101
string msgKind
    // c103
, } // c105
packet Ack { // c108a
  // c108b
Heartbeat
    // c109
,
    // c110
char[ // c111a
  // c111b
8
    // c112
] seqNo // c114a
  // c114b
, // c115
float64
    // c116
clOrdID // c117
, // c118a
  // c118b
} // c119a
  // c119b
packet Trade { // c122
char[] OrderId // c124
, f64
    // c126
Side2 // c127a
  // c127b
, zchar[ // c129a
  // c129b
8 ] // c131a
  // c131b
f1 // c132
, string // c134
Qty // c135
, float64
    // c137
seqNo
    // c138
, // c139
repeat // c140a
  // c140b
Logout // c141a
  // c141b
, // c142
} // c143a
  // c143b
packet // c144a
  // c144b
Order
    // c145
{ // c146a
  // c146b
f32
    // c147
OrderId
    // c148
, repeat // c150
u8 // c151
x // c152
, Ack , zchar[ // c156a
  // c156b
7 ]
    // c158
Note // c159
, } root
    // c162
packet
    // c163
Logon // c164a
  // c164b
{
    // c165
@rightPad // c166a
  // c166b
( '\x00' ) // c169
char[ 9
    // c171
] f1 , // c174a
  // c174b
} // c175
")).
Eval vm_compute in ("<<<M1268>>>" ++ check (runes_of_ascii "options { Logon = ""abc""
    ;options1
=  0
;
len ='0' ; tag = float64;
}packet options1 { @lengthOf( Header) int16 BodyLength , //
@tag(
7 ) @calculatedFrom( """ ++ [233]%N ++ runes_of_ascii "t" ++ [233]%N ++ runes_of_ascii """ ) @lengthOf(
    //	t
    i8i8 ) char[3 ]
// " ++ [27880; 37322]%N ++ runes_of_ascii "
//x
tag `// not a comment`  , match
    // trailing space 
    body  as f32a { 3
    :As } ,
@lengthOf( a1
    )	zchar[
00 ] pack @calculatedFrom( ""x y""
    ) , @lengthOf(
// packet A { u8 x, }
/// triple
msg_type ) @calculatedFrom(
    ""a	b"") @calculatedFrom( """ ++ [128512]%N ++ runes_of_ascii """  )
    repeatCount
{
    char[]//	t
string_
,
    match
x as repeatCount { 10 // " ++ [128512]%N ++ runes_of_ascii " emoji
:a1 ,
    65535
    // packet A { u8 x, }
    : // c
u8x , 10: T  ,""// no comment"" : i8i8
, 3:lengthOf , 0: chars	, } , match x
as pack	{ 7:Foo	1 :msg_type ,
0123456789 :
    o,	007	:	MetaDataX ""1"" :falsey ,
    }
,	repeat
    int8
    Header`say ""hi""` ,  } ,
    BodyLength @calculatedFrom( """ ++ [28040; 24687]%N ++ runes_of_ascii """
    ) /// triple
, //x
lengthOf`crlf
line` , @lengthOf( matchKey ) @calculatedFrom( ""a	b""
)@tag(0  )
    repeat
    MetaDataX // packet A { u8 x, }
{ //
stringy string_ ,
    Packet @lengthOf( // " ++ [128512]%N ++ runes_of_ascii " emoji
rootA ) ,} , @lengthOf( a1	) repeat chars {
metadata
// " ++ [128512]%N ++ runes_of_ascii " emoji
//	t
@lengthOf(	calculatedFrom
// c
// trailing space 
)
    `say ""hi""` ,
    options1@lengthOf( charz  )  `line1
line2` ,
repeat
MetaDataX{ repeat uint8
falsey ,  zchar[
0123456789 ]
rootA @calculatedFrom( """ ++ [128512]%N ++ runes_of_ascii """
    )
    `say ""hi""`
, }
    ,} //	t
, } MetaData charz /// triple
{ uint32
_x , matchKey float
,  stringy a1 ,
}packet
Header { } packet	T
    {
    @tag(
    7 )
//x
// trailing space 
zchar[ 00	]
    falsey
`it's`, char[] MetaDataX ,
BodyLength
    { packetx// " ++ [27880; 37322]%N ++ runes_of_ascii "
int ,} ,@lengthOf(  Header
    ) A , charz@lengthOf(	x_y_z ), int64
charz, // " ++ [128512]%N ++ runes_of_ascii " emoji
repeat
    //
    int64
leftPad,@tag( 7)@calculatedFrom( ""{,}"" )
pack
    // trailing space 
    ,
}")).
Eval vm_compute in ("<<<M4052>>>" ++ check (runes_of_ascii "

  packet  //x
	Logon{ @tag(
    255) match

    roots 
as	u128
{ ""`tick`""  //x
		:

    matchKey
    ,1

:  Foo}
,

@tag(
65535 )

@lengthOf( charz)

    @calculatedFrom(""// no comment"") 
i8	trueish

, float32
    o 
@lengthOf( i8i8 ) , 
@rightPad (
' ' 
)

    u8x
    `two words`,
repeat	u64
i8i8	,

    match
	zchar

    as x_y_z

    {  """ ++ [128512]%N ++ runes_of_ascii """ 
: charz	, } 	 // @lengthOf(
    	,

@lengthOf( repeatCount )  // " ++ [128512]%N ++ runes_of_ascii " emoji

u32 
falsey
`// not a comment`

    ,	}

    options  // @lengthOf(
{	// " ++ [128512]%N ++ runes_of_ascii " emoji
  falsey
	=	""" ++ [128512]%N ++ runes_of_ascii """
;
packetx

    =

""" ++ [233]%N ++ runes_of_ascii "t" ++ [233]%N ++ runes_of_ascii """
    // @lengthOf(
      // @lengthOf(
	u128// " ++ [128512]%N ++ runes_of_ascii " emoji
    =  """";options1 =	true

    ; // packet A { u8 x, }
  }options
{float	=
""a	b""
	; packetx  =	// `tick` ""quote"" 'q'
    	true	calculatedFrom
    =
	u64; Packet=
'\x00' ;
BodyLength =
false  //	t
	; }MetaData falsey{ 	 // " ++ [27880; 37322]%N ++ runes_of_ascii "
	BodyLength Logon `line1
line2` ,

zchar	chars
    `a\`
, repeatCount  
  // " ++ [27880; 37322]%N ++ runes_of_ascii "

// `tick` ""quote"" 'q'
    	BodyLength
	,
zchar
    i8i8 
,
}packet	packetx
{

    repeat	int8
Logon , @calculatedFrom(

""abc"" ) 
match

    Logon

    as
BodyLength {65535  /// triple
:pack  ,// a // b
  [ ""CRC32""
    ,	""it's"" ,  4294967296,""CRC32"",
""a\\"" , ""`tick`"" , 255 ,	007
]
	// packet A { u8 x, }

  :
    matchKey
    ,
    [
255

]

    :	falsey ,	}

    ,
	repeat Packet	// c
    `tab	here`
, 
@lengthOf(

    charz)
	zchar[

    42  ] tag

@calculatedFrom(	""// no comment""
) `
`,

    uint64//	t
      u8x
`" ++ [28040; 24687; 31867; 22411]%N ++ runes_of_ascii "` 
, }
")).
Eval vm_compute in ("<<<M4297>>>" ++ check (runes_of_ascii "

  options {
    StringPrefixLenType	= 
u16
	;
ArrayPrefixLenType  = 
u16;}packet
SampleBinary {
	uint16 
MsgType

    `" ++ [28040; 24687; 31867; 22411]%N ++ runes_of_ascii "`
,

u16
BodyLenght 
@lengthOf( 
Body) `" ++ [28040; 24687; 20307; 38271; 24230]%N ++ runes_of_ascii "`	, 
match
MsgType
as 
Body 
{
    1

    : 
Logon

    ,	2 :  Logout
    ,3:Heartbeat,
4 :
RiskControlRequest,  5

:

RiskControlResponse ,
	}
, @calculatedFrom(
""CRC32"")  u32 Ckecksum
	`" ++ [26657; 39564; 21644]%N ++ runes_of_ascii "`
    ,
}

    packet

Logon

{ @leftPad
(	'0') char[ 10 ]
	UserName `" ++ [29992; 25143; 21517]%N ++ runes_of_ascii "`	, string Password`" ++ [23494; 30721]%N ++ runes_of_ascii "` ,
    uint64
	ClientId

`" ++ [23458; 25143; 31471]%N ++ runes_of_ascii "ID` 
,
    u16	HeartbeatInterval 
`" ++ [24515; 36339; 38388; 38548]%N ++ runes_of_ascii "` ,

    }  packet
Logout  { 
@rightPad

    (
	'0')
    char[
10

]

UserName  `" ++ [29992; 25143; 21517]%N ++ runes_of_ascii "`

,uint64
	ClientId
`" ++ [23458; 25143; 31471]%N ++ runes_of_ascii "ID` , 
}packet
    Heartbeat
    {  }
	packet

RiskControlRequest

    {	string
    UniqueOrderId `" ++ [21807; 19968; 35746; 21333; 21495]%N ++ runes_of_ascii "`

,
char[
16  ]  ClOrdID	`" ++ [23458; 25143; 35746; 21333; 21495]%N ++ runes_of_ascii "`
	,
char[
3 ] MarketID

`" ++ [24066; 22330]%N ++ runes_of_ascii "id`

,
	char[ 12 ] SecurityID

`" ++ [35777; 21048; 20195; 30721]%N ++ runes_of_ascii "`
	, char
	Side

    `" ++ [20080; 21334; 26041; 21521]%N ++ runes_of_ascii "`

    ,

    char
	OrderType `" ++ [35746; 21333; 31867; 22411]%N ++ runes_of_ascii "` ,  u64  Price 
`" ++ [20215; 26684]%N ++ runes_of_ascii "`,
u32 Qty 
`" ++ [25968; 37327]%N ++ runes_of_ascii "` ,repeat
    string
    ExtraInfo	`" ++ [38468; 21152; 20449; 24687]%N ++ runes_of_ascii "`
    ,repeat SubOrder
{  char[16 ]
ClOrdID
    `" ++ [23376; 35746; 21333; 21495]%N ++ runes_of_ascii "` ,

    u64

Price 
`" ++ [23376; 35746; 21333; 20215; 26684]%N ++ runes_of_ascii "` 
,

u32 Qty`" ++ [23376; 35746; 21333; 25968; 37327]%N ++ runes_of_ascii "` ,
}  , }packet
RiskControlResponse

{ 
string UniqueOrderId  `" ++ [21807; 19968; 35746; 21333; 21495]%N ++ runes_of_ascii "`
    ,i32

Status	`" ++ [29366; 24577]%N ++ runes_of_ascii "` ,string 
Msg
`" ++ [32467; 26524; 20449; 24687]%N ++ runes_of_ascii "`
,repeat  Detail,

}
packet
Detail

    {
	string RuleName `" ++ [35268; 21017; 21517; 31216]%N ++ runes_of_ascii "`  ,u16
	Code  `" ++ [21407; 22240; 20195; 30721]%N ++ runes_of_ascii "`  ,  }
")).
Eval vm_compute in ("<<<M281>>>" ++ check (runes_of_ascii "// @lengthOf(
root packet  leftPad{ match Logon as	msg_type { ""it's"" :
    int , """ ++ [128512]%N ++ runes_of_ascii """
    :charz ""a\\""
: options1 , } , @rightPad(
    ' ') asx `doc`
, @leftPad( '0' ) uint32 charz, @tag(
255 ) zchar[ 10 ]Pad ``
, string  asx	`it's` , }
packet
// packet A { u8 x, }
// trailing space 
Pad {@lengthOf(lengthOf )
@lengthOf( crc  )u8x
    `a\` ,
float64 f32a  @calculatedFrom(
""a\""b""
    ) `it's`  ,@lengthOf(	options1 ) @tag( 42 )@calculatedFrom(
// a // b
//x
""1""	) zchar[ 7 ] repeatCount	`say ""hi""` , @calculatedFrom( ""// no comment"" )
    //x
    zchar[ 3] i8i8 @calculatedFrom(
""// no comment"" ) `" ++ [233]%N ++ runes_of_ascii "`,@tag( //
65535 )
    match o
    as float
    { [ // @lengthOf(
10 ]
    :len } ,@tag(3//x
)
match repeatCount as Pad {
    [ ""// no comment"",
42 , ""\n""
,
    007 , 3
    , ""// no comment""
    // c
    ]
:
    calculatedFrom}
    , u8x
{ repeat
    string x `it's` ,	x @calculatedFrom( """ ++ [128512]%N ++ runes_of_ascii """
)//
, falsey
    { match	f32a as// c
u128 { [ ""it's""
    //x
    ,
    0123456789
    , 0, """ ++ [233]%N ++ runes_of_ascii "t" ++ [233]%N ++ runes_of_ascii """ ,42 , 65535 // c
,
1 , 255 ] :
    uint8x ,
0 :asx ,} , repeat packetx u `{ , }` , string Foo	, x @calculatedFrom(
""a	b"")//	t
,
} , o
    pack
    , }  , // a // b
} packet i64_ { repeat
char[ 3 ]
a1
,} options
    // a // b
    {	}")).
Eval vm_compute in ("<<<M450>>>" ++ check (runes_of_ascii "
packet BodyLength
{ match As as
x
    {	[	""a	b""
, ""it's"" , 0	] // trailing space 
: float , 42
:u128 , ""a\\"":
    BodyLength	0 :  Packet
//	t
//
""\" ++ [233]%N ++ runes_of_ascii """
:
    // " ++ [128512]%N ++ runes_of_ascii " emoji
    roots	""\n""	: string_ }
    // @lengthOf(
    , msg_type	{ char[
4294967296 ] options1 // " ++ [27880; 37322]%N ++ runes_of_ascii "
, } , i8i8{ i64_ { match
    A	as zchar
    {
[
65535 ,
""" ++ [128512]%N ++ runes_of_ascii """
// a // b
// `tick` ""quote"" 'q'
, ""`tick`"" , ""x y"",""a\""b"" ,	0 , """ ++ [128512]%N ++ runes_of_ascii """ ,
42 ] : float ""a	b""
:	Pad 007	: repeatCount
,// " ++ [128512]%N ++ runes_of_ascii " emoji
}	,
    //
    uint64 Z9_ `" ++ [233]%N ++ runes_of_ascii "` ,crc ,} , /// triple
repeat char[ 255 ] uint8x , uint32 pack @calculatedFrom( ""{,}""	)
    , }
,
@calculatedFrom( ""a	b"" // `tick` ""quote"" 'q'
)
    tag
@lengthOf( Packet )	`" ++ [233]%N ++ runes_of_ascii "`
//
// packet A { u8 x, }
, }
root
packet// c
lengthOf
    // @lengthOf(
    { i32 x ,
match i64_ as Logon
    // trailing space 
    {3 : rootA,[//x
4294967296]:Packet, [ ""a	b"" ,
    ""{,}""] :
calculatedFrom ,[  """ ++ [28040; 24687]%N ++ runes_of_ascii """ , 0123456789 ,
""a	b"" , 42 , 255 ,
""\" ++ [233]%N ++ runes_of_ascii """ ]	:msg_type
    ,  } // `tick` ""quote"" 'q'
, @lengthOf(Header)	repeat  float {
    string asx
    , }  ,match	string_ // " ++ [128512]%N ++ runes_of_ascii " emoji
as u {""" ++ [233]%N ++ runes_of_ascii "t" ++ [233]%N ++ runes_of_ascii """:  uint8x	} ,
    } packet _x // trailing space 
{
char[] _x`` , }
")).
Eval vm_compute in ("<<<M1141>>>" ++ check (runes_of_ascii "// @lengthOf(
packet
// @lengthOf(
//
chars { repeat leftPad {
i64_, /// triple
}  , BodyLength{ //	t
char[ 1] _x
    `line1
line2`
    , }
    ,@calculatedFrom( """ ++ [233]%N ++ runes_of_ascii "t" ++ [233]%N ++ runes_of_ascii """
) repeat
    zchar body , char[ 65535	] Foo ,repeat
    zchar[ 7	] repeatCount , @lengthOf( Logon
)@calculatedFrom(	""{,}""
/// triple
// `tick` ""quote"" 'q'
)//
string//x
float,
u8x,
    uint8x
@calculatedFrom( ""packet"") , } //x
MetaData T { u16 zchar // " ++ [128512]%N ++ runes_of_ascii " emoji
`tab	here`
,float64 x
,// packet A { u8 x, }
i32 Packet `` , // `tick` ""quote"" 'q'
zchar[
255
//
/// triple
] crc
    // a // b
    , calculatedFrom
u128 ,
zchar[ 1
/// triple
// a // b
]
metadata `
`
,
} packet uint8x	{
Header{uint16  metadata @lengthOf(
MetaDataX
    ) `line1
line2` , } //x
,
// " ++ [27880; 37322]%N ++ runes_of_ascii "
// @lengthOf(
metadata  repeatCount , repeat x_y_z , chars
A
, packetx@calculatedFrom(
    // a // b
    ""a\\""	) `` ,
    char[ 007] a1 @lengthOf( A  ) `" ++ [28040; 24687; 31867; 22411]%N ++ runes_of_ascii "`, /// triple
} options {
    matchKey = float32 ;	}
packet
    f32a
{ @lengthOf( repeatCount )// @lengthOf(
@tag( 42 )// `tick` ""quote"" 'q'
float32 u128 ,  }
")).
Eval vm_compute in ("<<<M248>>>" ++ check (runes_of_ascii "packet
Packet
    {
} packet repeatCount{@tag(	4294967296
    ) @lengthOf(A  ) @lengthOf( float ) rootA ,
@tag(0123456789  )
Header
    `// not a comment`,  matchKey
    f32a
    , Pad, repeat float32	uint8x
    `" ++ [233]%N ++ runes_of_ascii "` ,@leftPad
    ('\x00' )	repeat
    char[3]
tag `
`, repeat
pack {
repeat x { repeat f64 len ,
    i64_ len, }
    ,
repeatCount
    // `tick` ""quote"" 'q'
    @lengthOf(uint8x
    ) , match	zchar  as a1 {
// a // b
// packet A { u8 x, }
3: u ,
},// packet A { u8 x, }
repeat rootA
{ options1 {
repeat body u8x `crlf
line`	, match Z9_ as
    f32a{007
:repeatCount ,
    ""packet""
: calculatedFrom
    ,
    // " ++ [128512]%N ++ runes_of_ascii " emoji
    10 // `tick` ""quote"" 'q'
: /// triple
calculatedFrom
    ,
""CRC32""  :	_x , [	""x y""	] : i64_ , ""packet""
// `tick` ""quote"" 'q'
// a // b
:// `tick` ""quote"" 'q'
MetaDataX
    ,  }
// a // b
// " ++ [27880; 37322]%N ++ runes_of_ascii "
, } ,
    //x
    } , } ,  } MetaData// @lengthOf(
asx {	u trueish ,chars // c
f32a `// not a comment`	, float64 u128 , string_ string_ `
` , }packet crc
{ }")).
Eval vm_compute in ("<<<M3896>>>" ++ check (runes_of_ascii "packet As {
    @lengthOf(u8x)
    repeat u32 T,
    string Foo @calculatedFrom(""it's"") `doc`,
    @tag(00)
    //
    @tag(42)
    repeatCount {
        packetx {
            repeat f64 x_y_z `doc`,
            repeat char[65535] crc,
        },
        u16 A,
        o @lengthOf(MetaDataX) `// not a comment`,
        repeat string BodyLength `
                `,
    },
    repeatCount @lengthOf(chars),
    match uint8x as As {
        007 : Packet,
        """" : Header,
        3 : zchar,
        7 : u128,
        [4294967296, ""x y""] : crc,
        [""1"", 00] : int,
    },
    @lengthOf(Foo)
    repeat u {
        string float,
        string matchKey @calculatedFrom(""it's"") `it's`,
        repeat Packet repeatCount,
    },
    @lengthOf(T)
    A @lengthOf(rootA) ``,
    repeatCount @calculatedFrom(""packet""),
    char[] x @calculatedFrom(""abc"") `crlf
        line`,
}

packet i8i8 {
}

options {
    MetaDataX = true;//x
    charz = true;
}")).
Eval vm_compute in ("<<<M3933>>>" ++ check (runes_of_ascii "
root	packet

As
{@tag(
    4294967296
)packetx // packet A { u8 x, }
  	,
@calculatedFrom(
""" ++ [128512]%N ++ runes_of_ascii """
    )i32

crc // " ++ [128512]%N ++ runes_of_ascii " emoji

  ,
	@lengthOf(x_y_z )
	@lengthOf( 
  // a // b
	body 
      // a // b
  // c
  	)BodyLength {	match

    repeatCount	as 
int	{ 
""\" ++ [233]%N ++ runes_of_ascii """ :body
	,// packet A { u8 x, }
    ""// no comment""

: 
falsey ,""abc"" 
: 
tag
""a	b""	:  zchar
    , 
	    // trailing space 
  007 :
Packet
,
}  ,	// " ++ [128512]%N ++ runes_of_ascii " emoji
    },

    repeat falsey trueish ,  @leftPad
(  ' '	)@lengthOf( 	 // packet A { u8 x, }
    Logon )
	@leftPad
    (  )

int  @lengthOf( u8x
	), zchar[

// " ++ [27880; 37322]%N ++ runes_of_ascii "
  // packet A { u8 x, }
007 ]

falsey
	,
@rightPad
(
) 
float
@lengthOf(
	Logon

) , @rightPad	(
'\x00' )
	@calculatedFrom( /// triple

	""a	b"")

    Z9_ u8x ,
@tag( 3 )string_ u128 , 
}options 
{	u128  = ""it's"" ;
metadata

    =
""abc""string_
	= true

    ;
    f32a 
=// c
  true

    }packet
i8i8 {

}")).
Eval vm_compute in ("<<<M1107>>>" ++ check (runes_of_ascii "packet falsey
{
    // trailing space 
    @lengthOf(
_x
    // @lengthOf(
    ) @calculatedFrom(
// packet A { u8 x, }
//
""`tick`"" )
    repeat body
    //
    ,
    i64 packetx , repeat u64 chars
    // " ++ [128512]%N ++ runes_of_ascii " emoji
    ,@leftPad
(// packet A { u8 x, }
) @calculatedFrom( ""a\""b"")	BodyLength {
rootA
    pack
//
/// triple
,//x
char[1 ]
uint8x`u8 x,`
, match Packet
as
roots {  ""a	b"" : crc
    ,}	,  } , int32 MetaDataX , @calculatedFrom(
    ""// no comment""
)
    x
Z9_ `
` , }packet
falsey  {}
    options
{ options1 = '\x00'
;Foo
//
// `tick` ""quote"" 'q'
=false
; lengthOf
= """ ++ [28040; 24687]%N ++ runes_of_ascii """A  =
//	t
// " ++ [128512]%N ++ runes_of_ascii " emoji
255
    ; repeatCount  =
    """ ++ [233]%N ++ runes_of_ascii "t" ++ [233]%N ++ runes_of_ascii """
} packet body {
// `tick` ""quote"" 'q'
// " ++ [27880; 37322]%N ++ runes_of_ascii "
@rightPad ( ) repeat u `it's` , char[ 255 //	t
] charz @lengthOf(
    x )
,
    //
    zchar[ 3
]
chars , zchar@calculatedFrom(
""`tick`""// `tick` ""quote"" 'q'
) , }
")).
Eval vm_compute in ("<<<M453>>>" ++ check (runes_of_ascii "packet chars{ }	options
// a // b
// packet A { u8 x, }
{	calculatedFrom
=i8;}
packet x { @tag( 255
    ) // `tick` ""quote"" 'q'
match u8x as leftPad { [
1 ,
    ""\n"",""a\""b""]
    : stringy } ,
float @calculatedFrom(
    ""\n"" )
`
`
    ,
@calculatedFrom( // @lengthOf(
""{,}""
) repeat char[ 0123456789
] Header
    , body {
f32a
    `" ++ [28040; 24687; 31867; 22411]%N ++ runes_of_ascii "`
, char[
10 ] Pad
@lengthOf( packetx )`line1
line2`
    , match Header as crc {[ 7] : roots
,4294967296 : Header , 255:
    // " ++ [27880; 37322]%N ++ runes_of_ascii "
    crc,	00
:
    Z9_ ,255 :Z9_ ,
[
    42 ,
    255
    ] : repeatCount
,	} , leftPad { repeat
asx  `" ++ [28040; 24687; 31867; 22411]%N ++ runes_of_ascii "` // " ++ [27880; 37322]%N ++ runes_of_ascii "
, float
, }, }
    , @leftPad // a // b
(
) @lengthOf(Foo  )@calculatedFrom(  ""abc"" ) uint64 BodyLength , @tag( // " ++ [128512]%N ++ runes_of_ascii " emoji
65535 ) i64 u8x`it's`
,	@tag( 0 )/// triple
crc { zchar[65535 ]u `tab	here` ,	} ,// a // b
}
")).
Eval vm_compute in ("<<<M5>>>" ++ check (runes_of_ascii "root packet // a // b
chars{
    u32
u8x `it's`
    , A o
,
Packet {u/// triple
`doc` , repeat
// @lengthOf(
// " ++ [128512]%N ++ runes_of_ascii " emoji
Header
    u8x  ,
i8i8
As , } , @calculatedFrom(
// `tick` ""quote"" 'q'
// trailing space 
""a\\"" ) charz
    { //x
char[]a1 , //
string Pad , x repeatCount
, metadata {
chars{ body`a\`  , match
    trueish as lengthOf
    { 0:u8x
    , } , match packetx as	string_  {0123456789
:BodyLength , } , } ,
repeat calculatedFrom
    roots
    ,
repeat
Packet
    ,int32 Logon, }
    ,// c
}, repeatCount,
    @lengthOf( float) match trueish as Header { [ ""{,}"" , ""1""
]
    : // " ++ [27880; 37322]%N ++ runes_of_ascii "
f32a ,} ,	i16 chars
    , match As  as Pad { 3: f32a , [ 4294967296
    ] : body,[	""{,}""
]
: u8x // `tick` ""quote"" 'q'
, ""a	b"" :
    Z9_,
    // packet A { u8 x, }
    } ,// " ++ [27880; 37322]%N ++ runes_of_ascii "
} //x")).
Eval vm_compute in ("<<<M573>>>" ++ check (runes_of_ascii "packet pack
    // `tick` ""quote"" 'q'
    {@lengthOf(
charz ) repeat
int64 x_y_z  , @calculatedFrom(  ""abc"" )Z9_ //	t
{ options1@lengthOf( i64_ ) , string stringy `tab	here` , } , @rightPad ( ) chars	uint8x
`" ++ [233]%N ++ runes_of_ascii "` ,@tag(1)match
asx as string_{	00	:
    Header, [
// c
// c
42, 1 ,
    ""\" ++ [233]%N ++ runes_of_ascii """ , """ ++ [233]%N ++ runes_of_ascii "t" ++ [233]%N ++ runes_of_ascii """ , 255,
    """ ++ [128512]%N ++ runes_of_ascii """
    // " ++ [27880; 37322]%N ++ runes_of_ascii "
    ] : chars , // trailing space 
""" ++ [28040; 24687]%N ++ runes_of_ascii """
:rootA	[ 0123456789 , 4294967296 ,
""x y""
,
7 ,""\" ++ [233]%N ++ runes_of_ascii """ , 10
    ,""{,}""
    ,
1
    //
    ] :lengthOf ,	} ,
@calculatedFrom(
    ""packet"" )zchar[
65535	]Foo
`two words`,repeat// " ++ [128512]%N ++ runes_of_ascii " emoji
zchar[// " ++ [128512]%N ++ runes_of_ascii " emoji
255
    ] msg_type
    ,
@lengthOf(
rootA) char x // a // b
@lengthOf( x_y_z )
, @tag(	255
) @calculatedFrom( ""{,}""
) int64 Packet
// @lengthOf(
// trailing space 
`
` ,
Foo  , }")).
Eval vm_compute in ("<<<M962>>>" ++ check (runes_of_ascii "  MetaData
stringy{ Packet
    falsey `" ++ [28040; 24687; 31867; 22411]%N ++ runes_of_ascii "`
, }
packet Foo
{@lengthOf(i8i8 ) zchar[ 10 ]
    chars // a // b
`{ , }`,	@calculatedFrom( ""1"") char[ 007 // " ++ [27880; 37322]%N ++ runes_of_ascii "
] x ,@lengthOf(  int
    )  zchar[10] string_ `two words` , repeat repeatCount { u32
len // c
, T
rootA , char[ 7 ] falsey @lengthOf( crc ),
// " ++ [128512]%N ++ runes_of_ascii " emoji
// packet A { u8 x, }
int16// `tick` ""quote"" 'q'
BodyLength
    // a // b
    , } ,packetx @lengthOf(	u
// c
// @lengthOf(
) ,zchar[
3 ] chars // c
, float32
x_y_z `{ , }` ,@calculatedFrom( ""1"")
    uint16 trueish@calculatedFrom(""" ++ [128512]%N ++ runes_of_ascii """)
    `line1
line2`,
Z9_ chars	, }root packet crc {	char[]	T ,	}
MetaData len  { uint16
uint8x , f64 string_`" ++ [28040; 24687; 31867; 22411]%N ++ runes_of_ascii "` ,
char[]
i8i8`// not a comment`
    ,}")).
Eval vm_compute in ("<<<M4192>>>" ++ check (runes_of_ascii "packet u {
    uint64 u8x,
    @leftPad('0')
    u16 uint8x @lengthOf(T),
    @lengthOf(lengthOf)
    @lengthOf(msg_type)
    u16 tag @calculatedFrom(""a\""b"") `crlf
    line`,
}

packet As {
    @calculatedFrom(""a\\"")
    u128 {
        int16 string_ @lengthOf(Header),
        repeat i64_ `{ , }`,
    },/// triple
}

root packet roots {
    @calculatedFrom(""`tick`"")
    i32 Header `" ++ [233]%N ++ runes_of_ascii "`,
    int8 T,
    @rightPad(' ')
    u32 charz `doc`,
    char[65535] f32a,
    metadata,
}

MetaData T {
    u8x roots `it's`,
    options1 MetaDataX,
    int32 f32a,
}

options {
    // trailing space 
    f32a = '0'
    Pad = 0123456789;
    repeatCount = char[]
    x_y_z = '\x00'
}")).
Eval vm_compute in ("<<<M3828>>>" ++ check (runes_of_ascii "root packet falsey {
    @tag(0123456789)
    @tag(3)
    Pad {
        rootA,
        //x
        // a // b
        x {
            repeat int {
                // " ++ [128512]%N ++ runes_of_ascii " emoji
                // @lengthOf(
                match f32a as crc {
                    [""" ++ [128512]%N ++ runes_of_ascii """, ""packet""] : metadata,
                    //	t
                    [42, ""abc"", 00, ""a\\""] : metadata,
                    [""a\""b""] : Header,
                    ""\n"" : asx,
                },
            },
            x_y_z @calculatedFrom(""1""),
            zchar[42] string_ ``,
            matchKey pack,
        },
    },
    @lengthOf(Logon)
    @leftPad('\x00')
    As u8x,
}")).
Eval vm_compute in ("<<<M789>>>" ++ check (runes_of_ascii "packet roots { //	t
@calculatedFrom( ""packet"" )
f32 roots
    @lengthOf( // " ++ [27880; 37322]%N ++ runes_of_ascii "
options1 ) `tab	here`,	@lengthOf( Foo )
    match BodyLength
    as u128
//
// `tick` ""quote"" 'q'
{""" ++ [233]%N ++ runes_of_ascii "t" ++ [233]%N ++ runes_of_ascii """
:x_y_z
, 1
:leftPad /// triple
,
[ ""packet"" ] :	crc 007 : uint8x [ ""\n"" , 00
,
// @lengthOf(
// " ++ [128512]%N ++ runes_of_ascii " emoji
10
    // `tick` ""quote"" 'q'
    , // @lengthOf(
65535 ,
    42 ,""a\\"" ,00 ]	:
leftPad ,
    }	,
} options { f32a = 4294967296
;
// " ++ [27880; 37322]%N ++ runes_of_ascii "
//	t
Header	= '0'	} // @lengthOf(
options { Logon= zchar[ 255] ; // `tick` ""quote"" 'q'
metadata =
""it's""; leftPad
// trailing space 
// a // b
=
""CRC32""// `tick` ""quote"" 'q'
;
Pad =
""""
; }")).
Eval vm_compute in ("<<<M1026>>>" ++ check (runes_of_ascii "options // c
{
msg_type =//	t
1 ;
    // a // b
    _x
=
    // packet A { u8 x, }
    char[]
; // a // b
pack = ' ' ; } MetaData
    i8i8{i8i8 // " ++ [27880; 37322]%N ++ runes_of_ascii "
roots ,  options1
    // " ++ [27880; 37322]%N ++ runes_of_ascii "
    lengthOf, _x
    Z9_ `// not a comment` ,
    x i8i8 `{ , }`  , leftPad BodyLength
    /// triple
    , } root
packet tag { zchar[	4294967296]
// packet A { u8 x, }
/// triple
Z9_@calculatedFrom(
    ""abc"" ) `" ++ [28040; 24687; 31867; 22411]%N ++ runes_of_ascii "`, char
    BodyLength @calculatedFrom( ""\n"" ) `// not a comment` ,
    @leftPad // c
(' ' // c
) @rightPad (	)
repeat
    MetaDataX
    u
`" ++ [233]%N ++ runes_of_ascii "`	, } MetaData tag {u64 x_y_z
`
` , }
")).
Eval vm_compute in ("<<<M1143>>>" ++ check (runes_of_ascii "// " ++ [128512]%N ++ runes_of_ascii " emoji
packet _x	{
    }  packet Logon{  repeat
int64 uint8x ,
    roots
{zchar[65535 ]
float // @lengthOf(
,i64 MetaDataX
    , int32 charz , uint32 _x `" ++ [28040; 24687; 31867; 22411]%N ++ runes_of_ascii "` , } ,//x
string tag
    @calculatedFrom( ""\" ++ [233]%N ++ runes_of_ascii """ )  ,	repeat char BodyLength , }	packet	zchar
{
@calculatedFrom( ""x y"" ) @tag(1	)
zchar[
    1	] u ,pack {zchar[ 3 ] packetx @lengthOf(Foo )  ,} , match
roots as A  {
    42
:f32a ,}
,
    @lengthOf(leftPad // packet A { u8 x, }
)
@leftPad ( // @lengthOf(
'0' )@calculatedFrom( """"
    // packet A { u8 x, }
    ) metadata , }")).
Eval vm_compute in ("<<<M159>>>" ++ check (runes_of_ascii "packet BodyLength
    { repeat string As `{ , }`
,	@tag(4294967296 ) match Pad as
lengthOf { //	t
007	: // `tick` ""quote"" 'q'
i8i8 /// triple
,""a\""b"": //x
msg_type,	}, repeat
    uint32 Z9_ , @tag( 00 )// `tick` ""quote"" 'q'
charz
    , string
    // trailing space 
    i8i8 // packet A { u8 x, }
@lengthOf( BodyLength ) ,@calculatedFrom(
    ""{,}""  )
    // a // b
    @leftPad// " ++ [27880; 37322]%N ++ runes_of_ascii "
( )
leftPad metadata  ,
//
// " ++ [128512]%N ++ runes_of_ascii " emoji
string i8i8 ``
    , uint64 trueish@calculatedFrom(
""1""
/// triple
// " ++ [27880; 37322]%N ++ runes_of_ascii "
) `
`, }")).
Eval vm_compute in ("<<<M813>>>" ++ check (runes_of_ascii "root packet
asx
    { match float	as float { 10
    :
    Z9_,
    [ 3,
0 ] //	t
: leftPad
, 7 :
    msg_type ,
}, BodyLength roots
, u32
    len  `tab	here`, @tag(42
) float64
charz @lengthOf( float)
    , u ,char[] T @calculatedFrom(
    ""a	b"") `// not a comment` , BodyLength ,
repeat MetaDataX
    ,
    @calculatedFrom(
""CRC32"" )@calculatedFrom(
// c
//	t
""packet"") @leftPad (// a // b
'\x00' ) msg_type	@lengthOf(
    /// triple
    _x
) ,} options{// c
crc =
    ""`tick`"" ; }")).
Eval vm_compute in ("<<<M4172>>>" ++ check (runes_of_ascii "

  packet	T

{  
      /// triple
	// @lengthOf(

@tag( 007 
) 
T

    @calculatedFrom( ""CRC32""  )

    //	t
		//
  	,  @tag( 	 // " ++ [27880; 37322]%N ++ runes_of_ascii "
  65535 )

    repeat
tag
{	a1
    @calculatedFrom(

""a\""b""

    )	,

},
    As	{char[//	t
007
	]lengthOf  , char[]
x@lengthOf( crc )	``

    ,  repeat

    i8  matchKey
,tag  Z9_,}	,	repeat
    // c
	/// triple
  uint64
    zchar 
    // packet A { u8 x, }
`doc`
	, 
@tag(255  )
	repeat zchar[
    7]
lengthOf	,	}
")).
Eval vm_compute in ("<<<M3932>>>" ++ check (runes_of_ascii "root packet pack {
    repeat u8x `a\`,
    char[3] MetaDataX `two words`,
    @leftPad(' ')
    zchar[4294967296] crc @calculatedFrom(""" ++ [128512]%N ++ runes_of_ascii """),
    @lengthOf(options1)
    // " ++ [128512]%N ++ runes_of_ascii " emoji
    // " ++ [27880; 37322]%N ++ runes_of_ascii "
    @calculatedFrom(""x y"")
    repeat u {
        repeat x_y_z options1 `two words`,
        zchar[3] charz,
        Logon {
            u8 pack,
            repeat zchar,
            i8i8 {
                repeat u8 matchKey,
            },
        },
    },
}")).
Eval vm_compute in ("<<<M1163>>>" ++ check (runes_of_ascii "MetaData
    uint8x {
_x  stringy ,	i8i8
_x, char[
    1 ] a1
    `it's` ,
crc metadata
,
} packet Logon {/// triple
repeat Logon stringy
    , match falsey  as
T/// triple
{ [ 1  ]
    :packetx 65535 : pack	, [ """ ++ [28040; 24687]%N ++ runes_of_ascii """
, ""abc""] : metadata ,}// @lengthOf(
,
@calculatedFrom(	""x y""
//	t
//
)repeat	len {lengthOf @calculatedFrom(
""`tick`""), u8x msg_type,
},
    @calculatedFrom( ""\n"" ) repeat
    // @lengthOf(
    i64 BodyLength , }
")).
Eval vm_compute in ("<<<M923>>>" ++ check (runes_of_ascii "packet As // " ++ [27880; 37322]%N ++ runes_of_ascii "
{ zchar[// trailing space 
3 ] BodyLength ,  @lengthOf( leftPad // a // b
) @tag( 65535 )
    roots // trailing space 
MetaDataX , u32 T
    `tab	here`,	}
    packet
string_{@lengthOf( options1
) A
T  `say ""hi""` ,match BodyLength
    as  As {
[ // c
""abc"" , ""abc"" ]: Header ,
""// no comment"" // trailing space 
:  packetx  ,  }
,  } packet
msg_type { char[]
Z9_ `" ++ [28040; 24687; 31867; 22411]%N ++ runes_of_ascii "`, repeat msg_type trueish , }")).
Eval vm_compute in ("<<<M945>>>" ++ check (runes_of_ascii "root packet// trailing space 
i64_ {@leftPad
    ( '\x00'
// a // b
// `tick` ""quote"" 'q'
)
match roots  as A { [ ""\n""
/// triple
//
,
10 , 00
    ] :asx ,} ,	zchar[
1] body
@calculatedFrom( ""abc"" ) `line1
line2`// c
, int8	Z9_ ,	u { falsey zchar ,
    repeat uint16 a1
,},repeat uint16 i64_ `crlf
line`
, pack  `crlf
line`
    , roots ,
match u128 as o	{00: /// triple
Header ,},repeat u A , }
")).
Eval vm_compute in ("<<<M3995>>>" ++ check (runes_of_ascii "

  root packet
    i64_
    { @tag(

    4294967296

    ) match  lengthOf
as	// " ++ [27880; 37322]%N ++ runes_of_ascii "
charz
{	1:

    T , } 
, 
repeat
char[
00
	] MetaDataX//x
  , match // @lengthOf(
    Foo as chars{ 	 // `tick` ""quote"" 'q'
    """ ++ [28040; 24687]%N ++ runes_of_ascii """ :

charz
	,	}

,
}
root packet MetaDataX  {  @lengthOf( chars// " ++ [128512]%N ++ runes_of_ascii " emoji
		)
    uint16 Foo , Foo

,
	}
    packet

    zchar  { // trailing space 
  }
")).
Eval vm_compute in ("<<<M1328>>>" ++ check (runes_of_ascii "packet
zchar { }  root packet f32a {}options { } root //
packet  options1 {
@calculatedFrom(
""`tick`""	)char[] BodyLength , match	x_y_z as string_  {  1
    : len ,
    ""\" ++ [233]%N ++ runes_of_ascii """	: lengthOf ,//x
[""""
] :
leftPad
    , 3
    : leftPad[""a	b""]
    :
BodyLength
,
} //	t
,
// `tick` ""quote"" 'q'
// trailing space 
} MetaData matchKey {
char[ 0123456789 ] u8x	`" ++ [28040; 24687; 31867; 22411]%N ++ runes_of_ascii "`
,
    }
")).
Eval vm_compute in ("<<<M426>>>" ++ check (runes_of_ascii "
options
{A =' '_x
='\x00' /// triple
string_  =
""it's""
;
// trailing space 
// @lengthOf(
}
    options
{ u8x //
= ""it's""
    ;
lengthOf
= true ; }packet matchKey	{
    // trailing space 
    char[ 65535 ]
charz,
// " ++ [128512]%N ++ runes_of_ascii " emoji
//x
uint8x , @leftPad
    // a // b
    ('\x00') repeat tag Pad
    , i32 i8i8
@lengthOf(
    MetaDataX)/// triple
, }
")).
Eval vm_compute in ("<<<M209>>>" ++ check (runes_of_ascii "
packet //
u8x
    {
    @lengthOf( Logon )
    u128 { //x
Logon@lengthOf( msg_type
), }
    ,  repeat
uint8x
, // @lengthOf(
int64 // c
o `tab	here`
    , }MetaData
    int{// " ++ [128512]%N ++ runes_of_ascii " emoji
char[]
    // `tick` ""quote"" 'q'
    chars `it's`,	int crc `{ , }`, // @lengthOf(
}root packet chars
    { char[]
x_y_z , }
// trailing space 
")).
Eval vm_compute in ("<<<M978>>>" ++ check (runes_of_ascii "packet
    calculatedFrom
{ @tag(
// packet A { u8 x, }
// trailing space 
007
//	t
// " ++ [27880; 37322]%N ++ runes_of_ascii "
)
/// triple
// `tick` ""quote"" 'q'
match
charz as
    Pad
    {[	""a	b""  ,
255 ]// c
: a1, 0  :
lengthOf
    , 4294967296 : charz
, [7 , ""a\\"" ,
    """"
,	007
, """ ++ [233]%N ++ runes_of_ascii "t" ++ [233]%N ++ runes_of_ascii """ , """ ++ [28040; 24687]%N ++ runes_of_ascii """, 7 ]:// a // b
trueish
, ""\" ++ [233]%N ++ runes_of_ascii """
    :
    BodyLength
}, }
")).
Eval vm_compute in ("<<<M3291>>>" ++ check (runes_of_ascii "// top
packet // c0a
  // c0b
o // c1
{ // c2a
  // c2b
@tag( // c3a
  // c3b
42 // c4a
  // c4b
)
    // c5
repeat
    // c6
x { char[ // c9a
  // c9b
0123456789 // c10
] // c11a
  // c11b
i64_ // c12a
  // c12b
,
    // c13
} ,
    // c15
} options // c17a
  // c17b
{ // c18a
  // c18b
} // c19a
  // c19b
")).
Eval vm_compute in ("<<<M1475>>>" ++ check (runes_of_ascii "root packet Foo // " ++ [128512]%N ++ runes_of_ascii " emoji
{ } options {
    // a // b
    tag // `tick` ""quote"" 'q'
= //	t
""""
    ; u8x = zchar[ zchar[0  ] }
MetaData
    int {zchar[ 10]
lengthOf	`` , i64 u8x`// not a comment` ,MetaDataX pack// `tick` ""quote"" 'q'
`crlf
line`
, Logon charz `crlf
line`
    ,
    // a // b
    }
")).
Eval vm_compute in ("<<<M1522>>>" ++ check (runes_of_ascii "root packet Foo // " ++ [128512]%N ++ runes_of_ascii " emoji
{ } options {
    // a // b
    tag // `tick` ""quote"" 'q'
= //	t
""""
    ; u8x = zchar[0  ] }
MetaData
    int {zchar[ 10 i16
lengthOf	`` , i64 u8x`// not a comment` ,MetaDataX pack// `tick` ""quote"" 'q'
`crlf
line`
, Logon charz `crlf
line`
    ,
    // a // b
    }
")).
Eval vm_compute in ("<<<M3842>>>" ++ check (runes_of_ascii "MetaData

    _x{  BodyLength	string_`crlf
line` ,  
      //x

//x

i64 
    //
	zchar ,

calculatedFrom MetaDataX
    ,

    float32 Pad
`it's`
	, } 
packet

    As
{  repeat //	t
metadata
BodyLength  `a\`	,

string 
Packet `two words`
	    /// triple
// `tick` ""quote"" 'q'
  	,
} ")).
Eval vm_compute in ("<<<M1491>>>" ++ check (runes_of_ascii "root packet Foo // " ++ [128512]%N ++ runes_of_ascii " emoji
{ } options {
    // a // b
    tag // `tick` ""quote"" 'q'
= //	t
""""
    ; u8x = zchar[0  ] MetaData
}
    int {zchar[ 10]
lengthOf	`` , i64 u8x`// not a comment` ,MetaDataX pack// `tick` ""quote"" 'q'
`crlf
line`
, Logon charz `crlf
line`
    ,
    // a // b
    }
")).
Eval vm_compute in ("<<<M1459>>>" ++ check (runes_of_ascii "root packet Foo // " ++ [128512]%N ++ runes_of_ascii " emoji
{ } options {
    // a // b
    tag // `tick` ""quote"" 'q'
= //	t
""""
     u8x = zchar[0  ] }
MetaData
    int {zchar[ 10]
lengthOf	`` , i64 u8x`// not a comment` ,MetaDataX pack// `tick` ""quote"" 'q'
`crlf
line`
, Logon charz `crlf
line`
    ,
    // a // b
    }
")).
Eval vm_compute in ("<<<M1499>>>" ++ check (runes_of_ascii "root packet Foo // " ++ [128512]%N ++ runes_of_ascii " emoji
{ } options {
    // a // b
    tag // `tick` ""quote"" 'q'
= //	t
""""
    ; u8x = zchar[0  ] }
MetaData
     {zchar[ 10]
lengthOf	`` , i64 u8x`// not a comment` ,MetaDataX pack// `tick` ""quote"" 'q'
`crlf
line`
, Logon charz `crlf
line`
    ,
    // a // b
    }
")).
Eval vm_compute in ("<<<M4343>>>" ++ check (runes_of_ascii "
packet	len
{ @calculatedFrom(""1"")zchar[

    0

    ]tag `u8 x,`

    , @tag(
	7 )	repeat  uint64

    stringy`// not a comment`  , @calculatedFrom(
""\n""
) @lengthOf(
    trueish) repeat
	_x	zchar ,	@lengthOf( crc )zchar[
    255  ] 
Foo
    `" ++ [233]%N ++ runes_of_ascii "`
	,	}	// trailing space 
 
")).
Eval vm_compute in ("<<<M4235>>>" ++ check (runes_of_ascii "
packet

As 
{
}

    MetaData 
Logon { i16 falsey`a\`	// `tick` ""quote"" 'q'
      ,
} MetaData

    T { f64 uint8x`u8 x,`
, 	 // " ++ [128512]%N ++ runes_of_ascii " emoji

	char[
00  // @lengthOf(
	]	T , char[

    0 
]	Pad
// c

// c
	  `crlf
line`
	,  char[]
f32a

,

char[]	asx ,  }  //	t
")).
Eval vm_compute in ("<<<M711>>>" ++ check (runes_of_ascii "packet
tag {u32 crc
    @lengthOf(
    a1 ) ,	string falsey `say ""hi""`, @tag( 1 )
    asx
, }	options { f32a	=true ; zchar
= '\x00'
; }packet BodyLength
//
// " ++ [128512]%N ++ runes_of_ascii " emoji
{@tag( 007
    ) @calculatedFrom( """ ++ [128512]%N ++ runes_of_ascii """ )repeat zchar[
007 ]
    packetx ,
    }
/// triple
")).
Eval vm_compute in ("<<<M1317>>>" ++ check (runes_of_ascii "options
{
uint8x =""{,}""
// `tick` ""quote"" 'q'
// " ++ [128512]%N ++ runes_of_ascii " emoji
; } packet asx { match f32a
    as
    msg_type {
    ""{,}"":  int [ """ ++ [233]%N ++ runes_of_ascii "t" ++ [233]%N ++ runes_of_ascii """
,	""a\\"" ,3 ,
    """ ++ [128512]%N ++ runes_of_ascii """ , 1  , ""a\""b"" , """ ++ [128512]%N ++ runes_of_ascii """ ] : repeatCount ,}
, string Z9_
`{ , }`,
u128 {
char[] Packet
    , } ,//	t
}")).
Eval vm_compute in ("<<<M1583>>>" ++ check (runes_of_ascii "root packet Foo // " ++ [128512]%N ++ runes_of_ascii " emoji
{ } options {
    // a // b
    tag // `tick` ""quote"" 'q'
= //	t
""""
    ; u8x = zchar[0  ] }
MetaData
    int {zchar[ 10]
lengthOf	`` , i64 u8x`// not a comment` ,MetaDataX pack// `tick` ""quote"" 'q'
`crlf
line`
,")).
Eval vm_compute in ("<<<M581>>>" ++ check (runes_of_ascii "/// triple
MetaData zchar {As
As ,
    // a // b
    int32 crc , trueish string_ `two words` , } // `tick` ""quote"" 'q'
options { rootA =	'0' // " ++ [128512]%N ++ runes_of_ascii " emoji
string_
    =10	; }
options //	t
{ // a // b
tag = 0
;  i64_
=	0
;}
// " ++ [27880; 37322]%N ++ runes_of_ascii "
")).
Eval vm_compute in ("<<<M695>>>" ++ check (runes_of_ascii "  packet
    int // trailing space 
{ } // a // b
root packet uint8x {
repeat
zchar[42
    ]asx`it's` , @calculatedFrom(""CRC32"" ) float64  options1
    `{ , }`, } options { string_// trailing space 
=
    char[] ; } // c")).
Eval vm_compute in ("<<<M2311>>>" ++ check (runes_of_ascii "MetaData Packet { }packet	asx  { @lengthOf( asx) falsey`crlf
line`
,
    }
    packet x	{uint32// @lengthOf(
rootA	,u32 u32 options1 `say ""hi""` , @tag( 7
    )// packet A { u8 x, }
msg_type @lengthOf(
stringy	)	, }

")).
Eval vm_compute in ("<<<M2257>>>" ++ check (runes_of_ascii "MetaData Packet { }packet	asx  { @lengthOf( asx falsey )`crlf
line`
,
    }
    packet x	{uint32// @lengthOf(
rootA	,u32 options1 `say ""hi""` , @tag( 7
    )// packet A { u8 x, }
msg_type @lengthOf(
stringy	)	, }

")).
Eval vm_compute in ("<<<M2283>>>" ++ check (runes_of_ascii "MetaData Packet { }packet	asx  { @lengthOf( asx) falsey`crlf
line`
,
    }
    uint64 x	{uint32// @lengthOf(
rootA	,u32 options1 `say ""hi""` , @tag( 7
    )// packet A { u8 x, }
msg_type @lengthOf(
stringy	)	, }

")).
Eval vm_compute in ("<<<M2333>>>" ++ check (runes_of_ascii "MetaData Packet { }packet	asx  { @lengthOf( asx) falsey`crlf
line`
,
    }
    packet x	{uint32// @lengthOf(
rootA	,u32 options1 `say ""hi""` , root 7
    )// packet A { u8 x, }
msg_type @lengthOf(
stringy	)	, }

")).
Eval vm_compute in ("<<<M1274>>>" ++ check (runes_of_ascii "options //x
{ }
    MetaData	i8i8
    // @lengthOf(
    {
Z9_ //x
MetaDataX
    , } options { A=	""a	b"" ; crc =
'0'; charz = false ; zchar
    = string _x =
""a\\"" }// packet A { u8 x, }
root
packet
int { } 	 ")).
Eval vm_compute in ("<<<M2245>>>" ++ check (runes_of_ascii "MetaData Packet { }packet	asx  {  asx) falsey`crlf
line`
,
    }
    packet x	{uint32// @lengthOf(
rootA	,u32 options1 `say ""hi""` , @tag( 7
    )// packet A { u8 x, }
msg_type @lengthOf(
stringy	)	, }

")).
Eval vm_compute in ("<<<M1234>>>" ++ check (runes_of_ascii "packet zchar
    // @lengthOf(
    {
@tag( 255 ) match  u128 as roots { 0123456789 : //x
u} ,
zchar[ 4294967296
]charz// " ++ [128512]%N ++ runes_of_ascii " emoji
`tab	here`
, // " ++ [27880; 37322]%N ++ runes_of_ascii "
match
uint8x as leftPad { 10
: _x //x
, }, }
")).
Eval vm_compute in ("<<<M1212>>>" ++ check (runes_of_ascii "packet
As {@tag(
7) repeat char[ 4294967296 ]	stringy,int16 falsey
,@tag(
00 )
    repeat u16 rootA
    `crlf
line`// @lengthOf(
,
calculatedFrom charz ,} MetaData a1 {}MetaData asx
{ }
")).
Eval vm_compute in ("<<<M34>>>" ++ check (runes_of_ascii "options{// `tick` ""quote"" 'q'
len // `tick` ""quote"" 'q'
= """ ++ [28040; 24687]%N ++ runes_of_ascii """;
options1 = // " ++ [27880; 37322]%N ++ runes_of_ascii "
int32 zchar	=
    ""1"" ;float
= true tag =""" ++ [28040; 24687]%N ++ runes_of_ascii """ ; } MetaData u128 { msg_type i8i8 `doc` ,	o body
, }
")).
Eval vm_compute in ("<<<M1007>>>" ++ check (runes_of_ascii "MetaData options1 //	t
{ u32 uint8x
, int16 options1 ,
    } options { trueish = 65535	; Header = i64 ;	x_y_z = false Logon =
    char[]
// `tick` ""quote"" 'q'
// a // b
; }")).
Eval vm_compute in ("<<<M594>>>" ++ check (runes_of_ascii "MetaData
// packet A { u8 x, }
// @lengthOf(
string_ { char[]
Pad `// not a comment`
, i32// a // b
lengthOf `{ , }` ,	u16
    As , len x_y_z , char[] rootA
    , }

")).
Eval vm_compute in ("<<<M1249>>>" ++ check (runes_of_ascii "  options {  falsey =	u8
;	metadata = ' ' leftPad = int64 ; lengthOf
=
    255 string_= // packet A { u8 x, }
""a\""b"" ; } MetaData //
uint8x	{ u32
zchar , //x
}")).
Eval vm_compute in ("<<<M952>>>" ++ check (runes_of_ascii "packet msg_type
{ char[]
    body@calculatedFrom(
    ""1"" )`doc` , @tag( 00 ) lengthOf
@lengthOf( // c
trueish)
    `crlf
line` , } // trailing space ")).
Eval vm_compute in ("<<<M4234>>>" ++ check (runes_of_ascii "MetaData options1 {
    u32 uint8x,
    int16 options1,
}

options {
    trueish = 65535;
    Header = i64;
    x_y_z = false
    Logon = char[];
}")).
Eval vm_compute in ("<<<M1668>>>" ++ check (runes_of_ascii "root packet /// triple
rootA {	i32
MetaDataX@calculatedFrom( ""CRC32"" ) `line1
line2` `line1
line2` , } MetaData BodyLength {
u8
rootA, } // c")).
Eval vm_compute in ("<<<M200>>>" ++ check (runes_of_ascii "
root packet	f32a {char[]x_y_z `doc` ,@calculatedFrom(	""CRC32""
) A tag `u8 x,`
,
int , } options { Packet =""1""
    ; } options {  } 	 ")).
Eval vm_compute in ("<<<M1695>>>" ++ check (runes_of_ascii "root packet /// triple
rootA {	i32
MetaDataX@calculatedFrom( ""CRC32"" ) `line1
line2` , } MetaData BodyLength packet
u8
rootA, } // c")).
Eval vm_compute in ("<<<M1665>>>" ++ check (runes_of_ascii "root packet /// triple
rootA {	i32
MetaDataX@calculatedFrom( ""CRC32"" i64 `line1
line2` , } MetaData BodyLength {
u8
rootA, } // c")).
Eval vm_compute in ("<<<M1659>>>" ++ check (runes_of_ascii "root packet /// triple
rootA {	i32
MetaDataX@calculatedFrom( ) ""CRC32"" `line1
line2` , } MetaData BodyLength {
u8
rootA, } // c")).
Eval vm_compute in ("<<<M1882>>>" ++ check (runes_of_ascii "packet
    Pad // a // b
{@lengthOf i8i8 @calculatedFrom( ""a	b"") `u8 x,` ,
} options{ float// " ++ [128512]%N ++ runes_of_ascii " emoji
= f64 i64_
=//	t
00 }
")).
Eval vm_compute in ("<<<M1690>>>" ++ check (runes_of_ascii "root packet /// triple
rootA {	i32
MetaDataX@calculatedFrom( ""CRC32"" ) `line1
line2` , } MetaData uint16 {
u8
rootA, } // c")).
Eval vm_compute in ("<<<M4298>>>" ++ check (runes_of_ascii "packet A {
    u16 len @lengthOf(body) `
        x`,
    u32 crc @calculatedFrom(""CRC32"") `
        x`,
    string body,
}")).
Eval vm_compute in ("<<<M596>>>" ++ check (runes_of_ascii "options {
}  MetaData
    // c
    x_y_z
{u32	u8x	`line1
line2` , float64 u // a // b
`line1
line2`  , } // @lengthOf(")).
Eval vm_compute in ("<<<M1884>>>" ++ check (runes_of_ascii "packet
    Pad // a // b
{ i8i8 @calculatedFrom( ""a	b"") `u8 x,` ,
} options{ float// " ++ [128512]%N ++ runes_of_ascii " emoji
= f64 i64_'
=//	t
00 }
")).
Eval vm_compute in ("<<<M1847>>>" ++ check (runes_of_ascii "packet
    Pad // a // b
{ i8i8 @calculatedFrom( ""a	b"") `u8 x,` ,
} options{ float// " ++ [128512]%N ++ runes_of_ascii " emoji
f64 = i64_
=//	t
00 }
")).
Eval vm_compute in ("<<<M4168>>>" ++ check (runes_of_ascii "packet Z9_ {
    match leftPad as options1 {
        65535 : matchKey,
        // packet A { u8 x, }
    },
    T,
}")).
Eval vm_compute in ("<<<M3835>>>" ++ check (runes_of_ascii "MetaData Logon {
    zchar[10] float `" ++ [233]%N ++ runes_of_ascii "`,
    BodyLength Z9_,
    float32 o `a\`,
    uint64 roots `two words`,
}")).
Eval vm_compute in ("<<<M1815>>>" ++ check (runes_of_ascii "packet
    Pad // a // b
{ i8i8 @calculatedFrom( ""a	b"")  ,
} options{ float// " ++ [128512]%N ++ runes_of_ascii " emoji
= f64 i64_
=//	t
00 }
")).
Eval vm_compute in ("<<<M2996>>>" ++ check (runes_of_ascii "packet A {
  match k as n {
    [""a"", 22, ""c c"", 4, ""e"", 66, ""g"", 8, ""i"", 10, ""k"", 12] : B
    2 : C
  },
}")).
Eval vm_compute in ("<<<M3016>>>" ++ check (runes_of_ascii "packet A {
    u16 len @lengthOf(body) `
`,
    u32 crc @calculatedFrom(""CRC32"") `
`,
    string body,
}")).
Eval vm_compute in ("<<<M3354>>>" ++ check (runes_of_ascii "packet calculatedFrom { @tag( 4294967296 ) u msg_type
// c
, char[ 3 ] crc @lengthOf( len ) `u8 x,` , }")).
Eval vm_compute in ("<<<M3634>>>" ++ check (runes_of_ascii "// c
root packet u128 {
    asx,
}

packet body {
    @lengthOf(i8i8)
    crc @lengthOf(Header),
}// c")).
Eval vm_compute in ("<<<M697>>>" ++ check (runes_of_ascii "options
{ tag = 42 }root packet
pack { zchar[ 007
// `tick` ""quote"" 'q'
// @lengthOf(
]	Packet , }")).
Eval vm_compute in ("<<<M3442>>>" ++ check (runes_of_ascii "packet B {
    u8 a,
    string s,
}
root packet P {
    u16 L @lengthOf(B),
    B,
    u8 t,
}
")).
Eval vm_compute in ("<<<M3230>>>" ++ check (runes_of_ascii "packet Logon { @tag( 42 ) @rightPad ( // c
' ' ) @leftPad ( ) repeat trueish { string T , } , }")).
Eval vm_compute in ("<<<M548>>>" ++ check (runes_of_ascii "packet leftPad { char[] MetaDataX `crlf
line` , f32 pack @calculatedFrom(	""a\\"" ) `" ++ [28040; 24687; 31867; 22411]%N ++ runes_of_ascii "` , }
")).
Eval vm_compute in ("<<<M4150>>>" ++ check (runes_of_ascii "
packet
A { 
match
	k 
as
n

    {
	[ ""a""
	,
	""bb"" , 007 
]	:
    B
	2:
    C 
}
,

} ")).
Eval vm_compute in ("<<<M1686>>>" ++ check (runes_of_ascii "root packet /// triple
rootA {	i32
MetaDataX@calculatedFrom( ""CRC32"" ) `line1
line2` , }")).
Eval vm_compute in ("<<<M2002>>>" ++ check (runes_of_ascii "root
packet crc
    { f32a @calculatedFrom( """ ++ [233]%N ++ runes_of_ascii "t" ++ [233]%N ++ runes_of_ascii """ )
    `say ""hi""`, , lengthOf `` ,  }")).
Eval vm_compute in ("<<<M2042>>>" ++ check (runes_of_ascii "`root
packet crc
    { f32a @calculatedFrom( """ ++ [233]%N ++ runes_of_ascii "t" ++ [233]%N ++ runes_of_ascii """ )
    `say ""hi""`, lengthOf `` ,  }")).
Eval vm_compute in ("<<<M3421>>>" ++ check (runes_of_ascii "options {
    LittleEndian = true;
}
root packet P {
    repeat char cs,
    u8 x,
}
")).
Eval vm_compute in ("<<<M3905>>>" ++ check (runes_of_ascii "packet A {
    match k as n {
        [""a"", 22, ""c c""] : B,
        2 : C,
    },
}")).
Eval vm_compute in ("<<<M3297>>>" ++ check (runes_of_ascii "packet o
// c
{ @tag( 42 ) repeat x { char[ 0123456789 ] i64_ , } , } options { }")).
Eval vm_compute in ("<<<M3329>>>" ++ check (runes_of_ascii "packet o { @tag( 42 ) repeat x { char[ 0123456789 ] i64_ , } , } options
// c
{ }")).
Eval vm_compute in ("<<<M2909>>>" ++ check (runes_of_ascii "packet A {
  match k as n {
    [""a"", ""bb"", 007, ""d"", ""e""] : B
    2 : C
  },
}")).
Eval vm_compute in ("<<<M3612>>>" ++ check (runes_of_ascii "MetaData Pad {
    roots options1 `tab	here`,//	t
    char[0123456789] Foo,
}")).
Eval vm_compute in ("<<<M291>>>" ++ check (runes_of_ascii "options
    { }
    packet
    string_ {@rightPad ( '0'// c
)
u16 body , }")).
Eval vm_compute in ("<<<M2198>>>" ++ check (runes_of_ascii "root
    // `'\x01'tick` ""quote"" 'q'
    packet As { trueish Packet , }
")).
Eval vm_compute in ("<<<M2279>>>" ++ check (runes_of_ascii "MetaData Packet { }packet	asx  { @lengthOf( asx) falsey`crlf
line`
,")).
Eval vm_compute in ("<<<M1903>>>" ++ check (runes_of_ascii "
packet	@calculatedFrom( { @calculatedFrom(//x
""{,}""	)lengthOf , } 	 ")).
Eval vm_compute in ("<<<M2880>>>" ++ check (runes_of_ascii "packet A {
  match k as n {
    [1, 22, ""c c""] : B,
    2 : C
  },
}")).
Eval vm_compute in ("<<<M2173>>>" ++ check (runes_of_ascii "root
    // `tick` ""quote"" 'q'
    packet As { Packet trueish , }
")).
Eval vm_compute in ("<<<M1174>>>" ++ check (runes_of_ascii "options { asx = '\x00'// packet A { u8 x, }
;
    float = '0';
}")).
Eval vm_compute in ("<<<M2191>>>" ++ check (runes_of_ascii "root
    // `tick` ""quote"" 'q'
    packet As { trueish Packet ")).
Eval vm_compute in ("<<<M3039>>>" ++ check (runes_of_ascii "packet A {
    B b `
x`,
    B `
x`,
    repeat B bs `
x`,
}")).
Eval vm_compute in ("<<<M3710>>>" ++ check (runes_of_ascii "root packet f32a {
    packetx @calculatedFrom(""CRC32""),
}")).
Eval vm_compute in ("<<<M783>>>" ++ check (runes_of_ascii "MetaData options1 { char[] rootA ,
    a1 body
`" ++ [233]%N ++ runes_of_ascii "` , }
")).
Eval vm_compute in ("<<<M277>>>" ++ check (runes_of_ascii "  MetaData/// triple
pack{
i64 Header
, u64
As
,
}
")).
Eval vm_compute in ("<<<M356>>>" ++ check (runes_of_ascii "packet
    x_y_z {
i8 As@calculatedFrom(""a	b""	)  ,}")).
Eval vm_compute in ("<<<M4083>>>" ++ check (runes_of_ascii "
root
packet A  { u8	x

`a
    b
  c`

,

    } ")).
Eval vm_compute in ("<<<M2400>>>" ++ check (runes_of_ascii "MetaData [
{
i64
chars	, } // `tick` ""quote"" 'q'")).
Eval vm_compute in ("<<<M3030>>>" ++ check (runes_of_ascii "MetaData M {
    u8 x `a

b`,
    T t `a

b`,
}")).
Eval vm_compute in ("<<<M1656>>>" ++ check (runes_of_ascii "root packet /// triple
rootA {	i32
MetaDataX")).
Eval vm_compute in ("<<<M4129>>>" ++ check (runes_of_ascii "options {
    Foo = int8;
    As = 007
}//	t")).
Eval vm_compute in ("<<<M2115>>>" ++ check (runes_of_ascii "MetaData x
{// " ++ [128512]%N ++ runes_of_ascii " emoji
i16 i16 stringy , }")).
Eval vm_compute in ("<<<M786>>>" ++ check (runes_of_ascii "options{MetaDataX = char[] }
/// triple
")).
Eval vm_compute in ("<<<M3197>>>" ++ check (runes_of_ascii "MetaData zchar { zchar[
// c
3 ] Pad , }")).
Eval vm_compute in ("<<<M2845>>>" ++ check (runes_of_ascii "k" ++ [65533]%N ++ runes_of_ascii "4" ++ [65533]%N ++ runes_of_ascii "uQ" ++ [65533]%N ++ runes_of_ascii "az" ++ [65533]%N ++ runes_of_ascii "e" ++ [65533; 65533]%N ++ runes_of_ascii ":" ++ [65533]%N ++ runes_of_ascii "o" ++ [65533; 28; 65533]%N ++ runes_of_ascii "o" ++ [14; 65533]%N ++ runes_of_ascii "9" ++ [65533; 24; 1654; 65533]%N ++ runes_of_ascii "|2" ++ [65533; 65533]%N ++ runes_of_ascii "1\" ++ [65533]%N ++ runes_of_ascii "iI" ++ [65533; 65533]%N ++ runes_of_ascii """")).
Eval vm_compute in ("<<<M4358>>>" ++ check (runes_of_ascii "MetaData M {
}// c

MetaData N {
}// d")).
Eval vm_compute in ("<<<M2710>>>" ++ check (runes_of_ascii "} f64 @rightPad packet i8 } MetaData")).
Eval vm_compute in ("<<<M2739>>>" ++ check ([65533; 65533]%N ++ runes_of_ascii "]" ++ [37017; 21]%N ++ runes_of_ascii "&`+" ++ [65533; 65533; 65533]%N ++ runes_of_ascii "lT4" ++ [65533]%N ++ runes_of_ascii "L" ++ [5; 14; 18; 65533; 65533; 17]%N ++ runes_of_ascii """5" ++ [65533]%N ++ runes_of_ascii ":Y" ++ [65533; 65533]%N ++ runes_of_ascii "xTV" ++ [65533; 65533]%N)).
Eval vm_compute in ("<<<M2584>>>" ++ check (runes_of_ascii "packet A { x @lengthOf(y) `d`, }")).
Eval vm_compute in ("<<<M268>>>" ++ check (runes_of_ascii "options { // " ++ [27880; 37322]%N ++ runes_of_ascii "
T
=int64  }
")).
Eval vm_compute in ("<<<M3143>>>" ++ check (runes_of_ascii "packet A {
 u8 x `d" ++ [6158]%N ++ runes_of_ascii "`, // c" ++ [6158]%N ++ runes_of_ascii "
}")).
Eval vm_compute in ("<<<M2587>>>" ++ check (runes_of_ascii "packet A { x @lengthOf(3), }")).
Eval vm_compute in ("<<<M3032>>>" ++ check (runes_of_ascii "packet A {
    u8 x `x
`,
}")).
Eval vm_compute in ("<<<M3014>>>" ++ check (runes_of_ascii "packet A {
    u8 x `
`,
}")).
Eval vm_compute in ("<<<M3987>>>" ++ check (runes_of_ascii "packet string_ {
    u,
}")).
Eval vm_compute in ("<<<M3278>>>" ++ check (runes_of_ascii "options { u8x =
// c
3 }")).
Eval vm_compute in ("<<<M3866>>>" ++ check (runes_of_ascii "options {
    a1 = 1;
}")).
Eval vm_compute in ("<<<M925>>>" ++ check (runes_of_ascii "packet msg_type
{ }
")).
Eval vm_compute in ("<<<M1764>>>" ++ check (runes_of_ascii "options { }options {")).
Eval vm_compute in ("<<<M2796>>>" ++ check (runes_of_ascii ", root as char[ o :")).
Eval vm_compute in ("<<<M2846>>>" ++ check (runes_of_ascii "Q,OfTqw6\RO}Mcbo,K")).
Eval vm_compute in ("<<<M3137>>>" ++ check (runes_of_ascii "// c" ++ [65279]%N ++ runes_of_ascii "
packet A {
}")).
Eval vm_compute in ("<<<M3084>>>" ++ check (runes_of_ascii "packet A {
}// c" ++ [8192]%N)).
Eval vm_compute in ("<<<M931>>>" ++ check (runes_of_ascii "options
    { }")).
Eval vm_compute in ("<<<M569>>>" ++ check (runes_of_ascii "

/// triple
")).
Eval vm_compute in ("<<<M4439>>>" ++ check (runes_of_ascii "// a // b
")).
Eval vm_compute in ("<<<M2481>>>" ++ check (runes_of_ascii "@leftpad")).
Eval vm_compute in ("<<<M2450>>>" ++ check (runes_of_ascii "falsey")).
Eval vm_compute in ("<<<M2487>>>" ++ check (runes_of_ascii "@tag(")).
Eval vm_compute in ("<<<M665>>>" ++ check (runes_of_ascii "
//
")).
Eval vm_compute in ("<<<M2468>>>" ++ check (runes_of_ascii "'0'")).
Eval vm_compute in ("<<<M2451>>>" ++ check (runes_of_ascii "as")).
Eval vm_compute in ("<<<M2673>>>" ++ check (runes_of_ascii "x")).
