From FP Require Import Lexer Parser ShowPT Digest Formatter.
From Coq Require Import String List NArith.
Import ListNotations.
Open Scope string_scope.
Set Printing Width 100000000.
Set Printing Depth 100000000.
Definition show_fres (r : fres) : string :=
  match r with
  | FOk s => "OK:" ++ sh_escaped s ""
  | FErr s => "ERR:" ++ sh_escaped s ""
  | FPanic p => "PANIC:" ++ p
  end.
Definition check (rs : list rune) : string := digest (show_fres (format_res rs)).
Definition full (rs : list rune) : string := show_fres (format_res rs).
Eval vm_compute in ("<<<M273>>>" ++ check (runes_of_ascii "packet len
{  @calculatedFrom( ""`tick`"" )	repeat zchar[ 00
    ]chars //	t
`a\`
    ,
u8x
// trailing space 
// a // b
MetaDataX `line1
line2`
    // c
    ,@calculatedFrom( ""a\""b"" ) match
    matchKey as asx {
    [ ""CRC32"" , ""a\""b""
]// " ++ [27880; 37322]%N ++ runes_of_ascii "
:
msg_type
    ,
    }
, i8 string_ @calculatedFrom( ""{,}"" )
    ,@lengthOf(
lengthOf
    //
    ) zchar[42 ]
    _x
// packet A { u8 x, }
/// triple
`line1
line2` ,
    @lengthOf( asx) repeat// `tick` ""quote"" 'q'
int8 Header , repeat crc {
int8 i64_//x
@calculatedFrom( ""{,}"" ) , } ,repeat _x i8i8 `line1
line2` , float64// trailing space 
stringy , MetaDataX { charz
    { int16 matchKey, repeat
    i64_,
    char[ 00] Z9_ `
` ,
    match As
    //x
    as Packet { 3 : crc , [
//	t
// @lengthOf(
1 ,
00
]: Header // " ++ [27880; 37322]%N ++ runes_of_ascii "
,	255 :_x , 42 : body
,	[0	] : chars
    [ 4294967296
, 65535 ] :chars , }
/// triple
// @lengthOf(
,  }
// trailing space 
// @lengthOf(
, } , } MetaData falsey {
char[
255
] u128 , u8 Header`tab	here`
,
string float ,} root packet int { Logon i64_  ,
    @calculatedFrom(
""1""
) zchar { u {
    zchar[
255 ] Pad , } , stringy {
    Pad metadata `u8 x,` ,
}	, repeat	string i8i8, char[]
    As@calculatedFrom(
""\n"" ) ,}
    // " ++ [27880; 37322]%N ++ runes_of_ascii "
    , @lengthOf( packetx // a // b
) @lengthOf(
    i64_ ) body `line1
line2`,@lengthOf(roots)match
// `tick` ""quote"" 'q'
// trailing space 
MetaDataX as uint8x { // `tick` ""quote"" 'q'
[	007
/// triple
// " ++ [27880; 37322]%N ++ runes_of_ascii "
, //x
255
    ,
00]
    :	body// c
, [ 65535 , ""1"",// `tick` ""quote"" 'q'
1  ,
""\n""//	t
, 1	,
    ""CRC32""
    ,
    //	t
    0
    ] :trueish
,
} , uint64 Foo
, zchar {metadata
@lengthOf(Pad)//	t
`crlf
line` ,
    match u as charz { 65535 :
    //x
    int
[ ""1""]
:
// c
//
a1 , [4294967296 , 00,""" ++ [233]%N ++ runes_of_ascii "t" ++ [233]%N ++ runes_of_ascii """ , """ ++ [28040; 24687]%N ++ runes_of_ascii """ ,
    00 ]: matchKey , [ ""a\\"" ] : Logon ,
    },
repeat rootA { int16
Foo @lengthOf( rootA // " ++ [27880; 37322]%N ++ runes_of_ascii "
),options1 `u8 x,` // trailing space 
, }	,  },  match chars as u
// " ++ [128512]%N ++ runes_of_ascii " emoji
// " ++ [128512]%N ++ runes_of_ascii " emoji
{ [//
""it's"" , 007	, """ ++ [233]%N ++ runes_of_ascii "t" ++ [233]%N ++ runes_of_ascii """, ""abc"" ,""\n"" ,
// " ++ [128512]%N ++ runes_of_ascii " emoji
// " ++ [27880; 37322]%N ++ runes_of_ascii "
"""" // c
] :	repeatCount,
65535
    // " ++ [128512]%N ++ runes_of_ascii " emoji
    :Z9_
, [ 007  , ""abc"",""// no comment""
, """ ++ [28040; 24687]%N ++ runes_of_ascii """ ] :  falsey ,
00
:
    string_}
,  char repeatCount , } packet Foo {char[]
a1 @calculatedFrom( """")`line1
line2`
, uint16 // a // b
MetaDataX
    // packet A { u8 x, }
    `say ""hi""`,char[] A ,
// trailing space 
// " ++ [128512]%N ++ runes_of_ascii " emoji
f64 int @lengthOf(Pad  ) , u32
    BodyLength
, float64
trueish @lengthOf(lengthOf )
// `tick` ""quote"" 'q'
// trailing space 
`crlf
line` , @tag(255 ) match Z9_ as tag { [ ""a\""b"",4294967296  ,  ""{,}"" ,""{,}""/// triple
] :	Pad	, 1 : lengthOf ,	0123456789 : msg_type  , ""// no comment"":
    BodyLength, [ ""1"" ] : string_ [3 , 0,1 , 1
, ""\" ++ [233]%N ++ runes_of_ascii """ // " ++ [27880; 37322]%N ++ runes_of_ascii "
,
    """"
    , 00
    // c
    ] // c
: asx} , body `say ""hi""`// `tick` ""quote"" 'q'
,	}options { x	='0'
; u8x // " ++ [128512]%N ++ runes_of_ascii " emoji
= u64;
// c
//	t
string_ = ""a\""b"" }
")).
Eval vm_compute in ("<<<M4066>>>" ++ check (runes_of_ascii "  options
{ 
}

    packet 
        // packet A { u8 x, }
packetx 
{	crc

    charz
`` ,  leftPad

    ,@tag( 3

    )
repeat uint64

u128 
`doc` 
,
    @tag( 
007) 
	    // c
    // `tick` ""quote"" 'q'

	Pad

    roots /// triple
, 
@calculatedFrom( 	 // `tick` ""quote"" 'q'
""CRC32""

    )
u8x	metadata ,
    @tag(
1
)zchar[ 
0123456789
] i8i8 
`a\`	, match	a1

    as
    As

    {  ""a	b""
: 
roots ,[ ""\" ++ [233]%N ++ runes_of_ascii """ , ""abc"" 	 //
	] : string_,
}
,

    repeat 
Header

    {match 
      // " ++ [128512]%N ++ runes_of_ascii " emoji

	// c
  f32a	as

    _x { 
4294967296
:
    // @lengthOf(
	repeatCount  , 7 
    //	t
// @lengthOf(

	:

//x
u8x ,

    7 :
    As  ,
    } 	 // " ++ [128512]%N ++ runes_of_ascii " emoji
,
	i64 repeatCount
@lengthOf(	a1
    )

,
}
    , 
    // " ++ [128512]%N ++ runes_of_ascii " emoji
	// " ++ [27880; 37322]%N ++ runes_of_ascii "
	  }  packet pack  {

    zchar[	// a // b
  0

    ]
	stringy ,} /// triple
  	root packet
As

{  
  // @lengthOf(

match 	 // `tick` ""quote"" 'q'
	u8x as packetx //	t
      {
7

: uint8x
    65535
    :
int
1 :T , ""{,}"" 
:Foo

,
0123456789
    // " ++ [128512]%N ++ runes_of_ascii " emoji
  	// @lengthOf(
	: Logon	,
[ 65535 

// " ++ [27880; 37322]%N ++ runes_of_ascii "
	// `tick` ""quote"" 'q'
      ]
:len,

}

    ,
repeat lengthOf 
metadata , @calculatedFrom(	""" ++ [233]%N ++ runes_of_ascii "t" ++ [233]%N ++ runes_of_ascii """
)

    repeat

    zchar[ 65535]
As 
`doc`

    ,char[ 	 // trailing space 
    7 ]

    float	// @lengthOf(
    @calculatedFrom(
    //

"""")
	,
float32

a1`it's` 
, @tag(
3)  char[]
BodyLength// @lengthOf(
`line1
line2`,
    match int
as

asx
	{
	[""" ++ [28040; 24687]%N ++ runes_of_ascii """ ,0  ] : x_y_z
,

    1 :

    Packet, ""{,}""	: falsey ,	255:charz,
	[

    ""{,}"",
0123456789]
:

    uint8x

,}	, crc
@calculatedFrom( 
""\" ++ [233]%N ++ runes_of_ascii """ 
	// " ++ [128512]%N ++ runes_of_ascii " emoji
		)`crlf
line` , 
match
	packetx
as
Pad 
{""packet"" 
: //
	  BodyLength

    ,  } ,	@lengthOf(  BodyLength) @tag( 
    // packet A { u8 x, }
  	//x
    00

) @lengthOf( As)

    match

charz
	as 
len

    {

[//x
""x y""  ]: _x  //x
""it's""
:

i64_  ,0123456789 :	metadata 
// packet A { u8 x, }
  	//x
  """ ++ [128512]%N ++ runes_of_ascii """
	:
trueish

, 1  : Logon	,
	}
,

    }	//	t
 
")).
Eval vm_compute in ("<<<M1280>>>" ++ check (runes_of_ascii "options
    {metadata
    /// triple
    =string ; }packet
Header{@leftPad ( ' '
)string//	t
i8i8 `it's`
// `tick` ""quote"" 'q'
// `tick` ""quote"" 'q'
,
@lengthOf(// " ++ [27880; 37322]%N ++ runes_of_ascii "
roots )	u
@calculatedFrom( """ ++ [128512]%N ++ runes_of_ascii """ )
, @tag(65535 // packet A { u8 x, }
) match
Pad as
stringy// `tick` ""quote"" 'q'
{3
: f32a
    ,""a\\""
: i8i8
,
    [
    """ ++ [128512]%N ++ runes_of_ascii """ ,
7] :
rootA , // " ++ [128512]%N ++ runes_of_ascii " emoji
""a\""b"" : x_y_z
,
[ 0123456789 ,""a	b""  ]: Logon
,
} ,metadata {  char[] // `tick` ""quote"" 'q'
chars @calculatedFrom(
    """ ++ [128512]%N ++ runes_of_ascii """
)`two words` , repeat asx	{ msg_type { int64 _x `
`
    ,repeat Z9_
/// triple
// `tick` ""quote"" 'q'
,
uint16 leftPad `line1
line2`,
    trueish x_y_z ``, } , // trailing space 
zchar[ 4294967296// " ++ [27880; 37322]%N ++ runes_of_ascii "
]
chars `crlf
line`, Logon `a\` ,
} ,  char[]body ,
    } ,  repeat u { int {
repeat
    zchar{
f64
lengthOf @calculatedFrom(	""abc""  ) `" ++ [233]%N ++ runes_of_ascii "` ,/// triple
}
, As @calculatedFrom(
    ""{,}"" )
    // packet A { u8 x, }
    , repeat  char[] // `tick` ""quote"" 'q'
metadata
, string// a // b
calculatedFrom `two words` , }	, },
    @rightPad
( '0'
)// " ++ [27880; 37322]%N ++ runes_of_ascii "
@rightPad(
    '0'  )
@lengthOf( x )repeat leftPad `// not a comment`
    ,
@rightPad ( ' '
)o  Z9_
, }
packet
    Pad
    {metadata trueish
// c
// " ++ [128512]%N ++ runes_of_ascii " emoji
`u8 x,` ,
    } options{ len
// a // b
// @lengthOf(
=i64 f32a =  ""x y""; matchKey = ""packet"" ;  } packet lengthOf
{char[ 7]
// trailing space 
/// triple
MetaDataX
@lengthOf(BodyLength
)
,int8 As @lengthOf( calculatedFrom  ) ``,repeat char[]
// a // b
// @lengthOf(
As ,
    body @calculatedFrom( /// triple
""abc"" ) ,
    repeat float64 MetaDataX `" ++ [28040; 24687; 31867; 22411]%N ++ runes_of_ascii "` // " ++ [27880; 37322]%N ++ runes_of_ascii "
,
@tag(
    4294967296 )	match u8x as crc
{[
""\n"" ,
65535 ] : // packet A { u8 x, }
_x , 255 : roots,} ,  } //	t")).
Eval vm_compute in ("<<<M903>>>" ++ check (runes_of_ascii "// a // b
packet //x
leftPad{
repeat// " ++ [27880; 37322]%N ++ runes_of_ascii "
crc , repeat f32a{ roots i8i8 ,// trailing space 
string_ msg_type ,
    u128 {  match
u as  o {
""1"" : u8x ,  7: string_
,""" ++ [233]%N ++ runes_of_ascii "t" ++ [233]%N ++ runes_of_ascii """ :trueish ,
}, u16
trueish
    @lengthOf(_x)`a\` , }, u128{ x_y_z ,
    Packet @lengthOf( /// triple
rootA ) `{ , }` , } , }
/// triple
/// triple
, @calculatedFrom( // `tick` ""quote"" 'q'
""CRC32"" ) rootA@calculatedFrom(""\" ++ [233]%N ++ runes_of_ascii """ )
    //
    `tab	here`
,
// " ++ [128512]%N ++ runes_of_ascii " emoji
// " ++ [27880; 37322]%N ++ runes_of_ascii "
match A as
    a1 { 7:
u128 ,[
""// no comment"" // " ++ [27880; 37322]%N ++ runes_of_ascii "
]
    :  stringy """" :
    i8i8 , 65535 : msg_type
[7 ,""a\""b""
,
    65535  ,255 ,4294967296] : packetx// " ++ [27880; 37322]%N ++ runes_of_ascii "
,
    }, }	packet
//x
//
a1
    { uint16 tag,
// " ++ [27880; 37322]%N ++ runes_of_ascii "
// trailing space 
Packet `a\` , }packet tag { } packet  msg_type
{ options1
    int `u8 x,` ,i64 calculatedFrom  , match rootA as
pack	{ 0 : i64_ //	t
,[""abc""
    , 42, 42
, 7 ] :
zchar
7
:u8x , ""{,}"" //	t
: len ,
    } ,match packetx as i8i8 { 65535
    : Foo """ ++ [28040; 24687]%N ++ runes_of_ascii """:
repeatCount
, }
    , // a // b
@rightPad // `tick` ""quote"" 'q'
(
' '
) string Packet
@lengthOf( _x
) ,
matchKey { // " ++ [27880; 37322]%N ++ runes_of_ascii "
zchar
    { f64
    // `tick` ""quote"" 'q'
    falsey
//
// " ++ [27880; 37322]%N ++ runes_of_ascii "
`a\` , uint64 x_y_z `a\` , }
    , } ,//x
@rightPad
// c
// trailing space 
(
'0' )repeat
    leftPad { uint32 stringy
    // a // b
    @calculatedFrom(
"""")
// a // b
/// triple
,
zchar[
    0123456789
    ] MetaDataX`tab	here` //	t
, char len`line1
line2` , } , }root// @lengthOf(
packet Header
    // @lengthOf(
    {}
")).
Eval vm_compute in ("<<<M1390>>>" ++ check (runes_of_ascii "options {
	StringPrefixLenType = u16;
	ArrayPrefixLenType = u16;
}

packet SampleBinary {
    uint16 MsgType `" ++ [28040; 24687; 31867; 22411]%N ++ runes_of_ascii "`,
    u16 BodyLenght @lengthOf(Body) `" ++ [28040; 24687; 20307; 38271; 24230]%N ++ runes_of_ascii "`,
    match MsgType as Body {
        1 : Logon,
        2 : Logout,
        3 : Heartbeat,
        4 : RiskControlRequest,
        5 : RiskControlResponse,
    },
        @calculatedFrom(""CRC32"")
    u32 Ckecksum `" ++ [26657; 39564; 21644]%N ++ runes_of_ascii "`,
}

packet Logon {
     @leftPad('0')
    char[10] UserName `" ++ [29992; 25143; 21517]%N ++ runes_of_ascii "`,
    string Password `" ++ [23494; 30721]%N ++ runes_of_ascii "`,
    uint64 ClientId `" ++ [23458; 25143; 31471]%N ++ runes_of_ascii "ID`,
    u16 HeartbeatInterval `" ++ [24515; 36339; 38388; 38548]%N ++ runes_of_ascii "`,
}

packet Logout {
      @rightPad('0')
    char[10] UserName `" ++ [29992; 25143; 21517]%N ++ runes_of_ascii "`,
    uint64 ClientId `" ++ [23458; 25143; 31471]%N ++ runes_of_ascii "ID`,
}

packet Heartbeat {
}

packet RiskControlRequest {
    string UniqueOrderId `" ++ [21807; 19968; 35746; 21333; 21495]%N ++ runes_of_ascii "`,
    char[16] ClOrdID `" ++ [23458; 25143; 35746; 21333; 21495]%N ++ runes_of_ascii "`,
    char[3] MarketID `" ++ [24066; 22330]%N ++ runes_of_ascii "id`,
    char[12] SecurityID `" ++ [35777; 21048; 20195; 30721]%N ++ runes_of_ascii "`,
    char Side `" ++ [20080; 21334; 26041; 21521]%N ++ runes_of_ascii "`,
    char OrderType `" ++ [35746; 21333; 31867; 22411]%N ++ runes_of_ascii "`,
    u64 Price `" ++ [20215; 26684]%N ++ runes_of_ascii "`,
    u32 Qty `" ++ [25968; 37327]%N ++ runes_of_ascii "`,
    repeat string ExtraInfo `" ++ [38468; 21152; 20449; 24687]%N ++ runes_of_ascii "`,
    repeat SubOrder {
    		char[16] ClOrdID `" ++ [23376; 35746; 21333; 21495]%N ++ runes_of_ascii "`,
    		u64 Price `" ++ [23376; 35746; 21333; 20215; 26684]%N ++ runes_of_ascii "`,
    		u32 Qty `" ++ [23376; 35746; 21333; 25968; 37327]%N ++ runes_of_ascii "`,
    	},
}

packet RiskControlResponse {
    string UniqueOrderId `" ++ [21807; 19968; 35746; 21333; 21495]%N ++ runes_of_ascii "`,
    i32 Status `" ++ [29366; 24577]%N ++ runes_of_ascii "`,
    string Msg `" ++ [32467; 26524; 20449; 24687]%N ++ runes_of_ascii "`,
    repeat Detail,
}

packet Detail {
    string RuleName `" ++ [35268; 21017; 21517; 31216]%N ++ runes_of_ascii "`,
    u16 Code `" ++ [21407; 22240; 20195; 30721]%N ++ runes_of_ascii "`,
}")).
Eval vm_compute in ("<<<M4219>>>" ++ check (runes_of_ascii "
packet  x {

    @tag( 

//x

  // a // b
    3 )  @calculatedFrom(// `tick` ""quote"" 'q'
    	""1""	) 
@calculatedFrom( 	 // packet A { u8 x, }

""{,}""
    )o uint8x ,

    repeat zchar[ 
4294967296
// " ++ [128512]%N ++ runes_of_ascii " emoji

]Packet
    ,
repeat
    trueish
	{
uint16	a1, 
char[]
matchKey	,
float {uint64	A
@calculatedFrom(

    ""`tick`""
// c
  //x
  ) , }
,
int32

    tag

,
}
	, @leftPad (
    )	Foo

{  leftPad	@calculatedFrom(
	""{,}""
	) ,//x
		},
@lengthOf(
Z9_ )
    uint64 pack 
,
}
options
	{ roots
=
	65535 ;
	falsey =
	10
    ;	//x
	x_y_z=
' ' ;

    MetaDataX = // `tick` ""quote"" 'q'
false

; }options

    {
	crc  = 
true ; string_=

false;
	leftPad
	= ' '
;i8i8 = 
    // c
    '0' ; } root
	packet
    string_

{

    u16

// trailing space 
    rootA

    @lengthOf( lengthOf	) `" ++ [233]%N ++ runes_of_ascii "` ,

@lengthOf(

chars 
)@lengthOf( stringy

) @lengthOf(
falsey ) string
Header  @calculatedFrom(""1"")
    ,
@calculatedFrom( ""a\""b""	)
	@calculatedFrom(

    ""`tick`"" ) @tag( 65535 ) uint8
    //

// " ++ [27880; 37322]%N ++ runes_of_ascii "
f32a
,

@leftPad

    () zchar[
    42 // trailing space 
	] a1@calculatedFrom(
	""""	// " ++ [128512]%N ++ runes_of_ascii " emoji
  ) ,
        // a // b
	// a // b
  }

    options
	{len=
	7
	;
} ")).
Eval vm_compute in ("<<<M1170>>>" ++ check (runes_of_ascii "
MetaData T
{ leftPad msg_type, float Foo `doc`
,
uint64 charz `two words` ,
    crc Pad `" ++ [28040; 24687; 31867; 22411]%N ++ runes_of_ascii "` ,  } root packet zchar
{
    @tag(  0123456789
)
    zchar[
    42  ]
lengthOf `" ++ [233]%N ++ runes_of_ascii "`
    ,
@tag(  0123456789)
i64_
i8i8	`say ""hi""`
, Header
    , @lengthOf(i64_
)uint16 T
// " ++ [128512]%N ++ runes_of_ascii " emoji
// c
@calculatedFrom(
    ""x y"" ) , @lengthOf(/// triple
u)
    // a // b
    As {int64 // `tick` ""quote"" 'q'
options1
@lengthOf( leftPad
) `u8 x,` ,char[1	]
falsey @lengthOf( Pad ) `u8 x,`
    ,  char[]
charz
@lengthOf( Packet // c
), repeat
//x
// " ++ [128512]%N ++ runes_of_ascii " emoji
zchar { zchar[00
    ]chars ,
    msg_type @lengthOf(u128  )
, } // " ++ [27880; 37322]%N ++ runes_of_ascii "
,} , @leftPad ( '\x00' ) Foo @lengthOf(
    Logon)
, @lengthOf(Packet
) repeat int {
// @lengthOf(
// trailing space 
repeat char zchar , repeat
string	stringy , string
matchKey @calculatedFrom(""a	b"" ) `u8 x,`, }, match Logon as calculatedFrom { [ 42 ]
:
    x
,""`tick`""
:
    x, 65535
: Packet , },
    char[ 7 ]trueish ``,
match roots
as
    float { 007	: u8x// packet A { u8 x, }
""\" ++ [233]%N ++ runes_of_ascii """ :MetaDataX // " ++ [27880; 37322]%N ++ runes_of_ascii "
, //x
[ 255 , ""{,}"",
    """" , 255 ]// c
:
x_y_z , ""// no comment"" : Header // " ++ [27880; 37322]%N ++ runes_of_ascii "
,} // " ++ [128512]%N ++ runes_of_ascii " emoji
, }")).
Eval vm_compute in ("<<<M125>>>" ++ check (runes_of_ascii "options {
// a // b
// trailing space 
Pad
    =
// " ++ [128512]%N ++ runes_of_ascii " emoji
// " ++ [128512]%N ++ runes_of_ascii " emoji
false Logon = uint32 ; // " ++ [128512]%N ++ runes_of_ascii " emoji
x_y_z =
    1 }
    MetaData
// `tick` ""quote"" 'q'
//	t
_x
    {
    uint32
stringy ,
zchar[ 42
    ] A,
} packet A {
    match As as string_/// triple
{ 0 :
/// triple
// `tick` ""quote"" 'q'
Z9_ ,}
,  @lengthOf(
    Z9_ )@lengthOf( x_y_z )As
    @lengthOf( As )
`doc` ,
u64 calculatedFrom	@calculatedFrom(
""abc"")
`// not a comment` , // c
Packet //	t
string_ ,
    // trailing space 
    @lengthOf(  Z9_
    ) Z9_ @lengthOf( body)// trailing space 
,
calculatedFrom
BodyLength , @lengthOf( msg_type
)repeat
char tag `it's` ,
}
    packet zchar { @leftPad (
//x
//
)
    repeat zchar[ 3 ]Z9_
, } // `tick` ""quote"" 'q'
packet chars { @lengthOf( Z9_ ) repeat string crc , string MetaDataX ,@calculatedFrom( """"
    )
x
    ,
u8x//
, @tag(10 ) match
    falsey as	tag {""CRC32""	: x
    , /// triple
} //	t
,
x_y_z`tab	here`
,
@rightPad(
'0'
)int16
Logon
    ,trueish
, @rightPad
( )
_x @calculatedFrom(
""packet""// c
), } // @lengthOf(")).
Eval vm_compute in ("<<<M4512>>>" ++ check (runes_of_ascii "options {
    chars = ' '
}

root packet string_ {
    i8i8 @lengthOf(Z9_),
    match int as chars {
        007 : body,
        [42] : int,
        ""`tick`"" : options1,
    },
    @leftPad(' ')
    uint16 crc `it's`,// a // b
    float64 packetx @lengthOf(crc),
    @tag(4294967296)
    match int as chars {
        4294967296 : Foo,
        1 : asx,
        10 : Pad,
        0123456789 : string_,
        3 : T,
        ""it's"" : As,
    },
    repeat float falsey `say ""hi""`,
    match uint8x as zchar {
        ""// no comment"" : body,
        0123456789 : crc,
        ""{,}"" : o,
    },
    repeat o chars,
    uint32 As `doc`,
    repeat trueish {
        char[7] i64_ `{ , }`,
    },
}

packet Packet {
    zchar[0123456789] matchKey @lengthOf(chars),
    x {
        u64 o,
    },
    zchar[1] MetaDataX @calculatedFrom(""""),
    char[] lengthOf @calculatedFrom(""a\""b"") `
        `,
    @rightPad(' ')
    //	t
    uint16 len `a\`,
    @lengthOf(tag)
    char[65535] pack ``,
}")).
Eval vm_compute in ("<<<M573>>>" ++ check (runes_of_ascii "packet metadata{zchar[ 255] rootA@lengthOf( //	t
stringy ) `` , Z9_
@calculatedFrom(""\n"" ) ,i64_ , @calculatedFrom( ""abc"" )body `crlf
line`
    , // packet A { u8 x, }
match metadata as
leftPad { ""\n""
    : stringy , ""it's"":
rootA , [
""packet"", 10 ]: lengthOf , 1  : zchar ,
} , @tag( 3 )//x
char[] x_y_z `u8 x,` , f64
    o @lengthOf(o ) ,
@calculatedFrom( // c
""" ++ [28040; 24687]%N ++ runes_of_ascii """	)zchar[  007]
options1 @lengthOf(  msg_type )
,
} MetaData T  { int16 u8x,char[
    1 ]
    repeatCount ,  uint16 i64_
`u8 x,` ,
    Header
    x	`` // " ++ [128512]%N ++ runes_of_ascii " emoji
, stringy
msg_type
`" ++ [28040; 24687; 31867; 22411]%N ++ runes_of_ascii "` ,	} packet
i8i8
{
} packet
Header {
repeat Z9_ roots ,
    }  packet calculatedFrom { T	@lengthOf( Foo )`u8 x,`
    // " ++ [128512]%N ++ runes_of_ascii " emoji
    , match tag as
//	t
// a // b
charz { ""\" ++ [233]%N ++ runes_of_ascii """: string_ , [
1,""" ++ [28040; 24687]%N ++ runes_of_ascii """
,/// triple
""CRC32""]: falsey , [ 007] :float	, 3 : MetaDataX ,
[ ""`tick`""] :
u , 1
// trailing space 
// packet A { u8 x, }
: metadata ,}// `tick` ""quote"" 'q'
,
}
")).
Eval vm_compute in ("<<<M4423>>>" ++ check (runes_of_ascii "MetaData Packet {
    // `tick` ""quote"" 'q'
    Header uint8x `{ , }`,
    x_y_z u8x `it's`,
}// trailing space 

root packet packetx {
    repeat char[] packetx,
    string zchar @lengthOf(a1) `tab	here`,
    match string_ as float {
        ""a\""b"" : Logon,
        00 : Foo,
        42 : stringy,
        [255, 0, ""a\\""] : f32a,
        // @lengthOf(
        [7, ""`tick`""] : float,
        0 : len,
    },
    @lengthOf(Header)
    //
    len `doc`,
    repeat Pad {
        // " ++ [27880; 37322]%N ++ runes_of_ascii "
        repeat Pad `it's`,// @lengthOf(
        char[65535] i64_ @calculatedFrom(""1"") `a\`,
        crc `two words`,
        match len as BodyLength {
            ""abc"" : a1,
            [""packet"", 7] : crc,
            // c
            3 : asx,
        },
    },
    int8 rootA @lengthOf(crc),
    @lengthOf(chars)
    // trailing space 
    @tag(7)
    @tag(7)
    repeat char[10] packetx,
}")).
Eval vm_compute in ("<<<M975>>>" ++ check (runes_of_ascii "
root packet _x{@lengthOf(
    //
    options1 ) charz @lengthOf( Foo
)	,// packet A { u8 x, }
} packet metadata
    { }
    packet
crc  { stringy@calculatedFrom(  ""packet"" )
`// not a comment` , @tag(42 )repeat
leftPad	{body@calculatedFrom( ""a\""b"" ) `two words`, } ,@tag( 1	) repeat uint16 packetx `a\` // trailing space 
,repeat zchar[ 00]matchKey
/// triple
//x
``
,@calculatedFrom(	""`tick`"" )//
@calculatedFrom( ""1""
) char[ 00]
u128 @lengthOf(
    a1 ) , @lengthOf( lengthOf)@rightPad
    (
    '0'
) @lengthOf(u128) rootA, } options
    { } packet u128 { @tag(
    // `tick` ""quote"" 'q'
    3 )
    @tag(
    // packet A { u8 x, }
    255 /// triple
) @lengthOf(
_x )	char crc
    `// not a comment`
// " ++ [128512]%N ++ runes_of_ascii " emoji
//	t
,repeat matchKey
    repeatCount , repeat
    T
    `a\`
,	@tag( 00 ) repeat rootA`tab	here`, } //	t")).
Eval vm_compute in ("<<<M599>>>" ++ check (runes_of_ascii "root
    packet options1{
@lengthOf(  zchar ) charz `
` , //	t
Header {//
char[ 00]
msg_type, repeat zchar[
007
] Z9_ , } ,@tag(  10 )uint32 Foo , u32 u128
@lengthOf(float ) `two words`  , repeat
    char[ 7 ] stringy
    ``
    ,
Packet @lengthOf( /// triple
f32a ) , i64_
pack
, @calculatedFrom( ""packet"") repeat lengthOf { body @lengthOf(
//
// packet A { u8 x, }
a1) `{ , }` //
, x_y_z, },}
    packet string_
{ @calculatedFrom(
    ""a	b""	) zchar[// `tick` ""quote"" 'q'
0123456789 ] i64_	,@lengthOf(
    calculatedFrom
) u8x calculatedFrom , @tag( 1 )	repeat float32 BodyLength
, chars crc
, }root packet
    f32a { i32 _x  , }packet falsey { repeat char[ 007
    ] MetaDataX ,
@leftPad ( '0' ) // `tick` ""quote"" 'q'
packetx
    , x@calculatedFrom( ""\" ++ [233]%N ++ runes_of_ascii """ ) , }
")).
Eval vm_compute in ("<<<M1256>>>" ++ check (runes_of_ascii "MetaData stringy {string
zchar, zchar
uint8x  , string BodyLength `{ , }`
// @lengthOf(
// " ++ [128512]%N ++ runes_of_ascii " emoji
,
    zchar[  1 ]
crc `doc` ,	zchar[ 7
] T//	t
`two words`, char[] A `a\`,
} packet
    string_{
repeat len `a\` ,
zchar
    `" ++ [233]%N ++ runes_of_ascii "` ,	}
    MetaData
x_y_z { stringy
    metadata
    , char[]Z9_
`it's` ,}
packet // a // b
falsey {
    @calculatedFrom(
// " ++ [27880; 37322]%N ++ runes_of_ascii "
// @lengthOf(
""" ++ [233]%N ++ runes_of_ascii "t" ++ [233]%N ++ runes_of_ascii """
)match Pad as u
{0123456789
    //	t
    :	trueish,	} , // " ++ [128512]%N ++ runes_of_ascii " emoji
repeat
    char[] calculatedFrom `u8 x,`, f64
    A ,
    body @calculatedFrom( ""`tick`"" // `tick` ""quote"" 'q'
) , }root
packet roots  { zchar[ 10 ]roots
`crlf
line`	,
Z9_
{ zchar[ 7 ] leftPad`" ++ [233]%N ++ runes_of_ascii "` ,} ,
int64 calculatedFrom `a\` , crc
    u128 ,
char[
1	] A@calculatedFrom( ""{,}"") `doc`  , }
")).
Eval vm_compute in ("<<<M36>>>" ++ check (runes_of_ascii "packet  int {@tag( 00
) float	,
@leftPad( '0'
)@calculatedFrom(""" ++ [28040; 24687]%N ++ runes_of_ascii """ ) match crc
as body
    {""`tick`"" : msg_type} // @lengthOf(
,
Logon
,repeat u8x, // " ++ [27880; 37322]%N ++ runes_of_ascii "
} packet MetaDataX { }packet string_ {
repeat //
Header Header
, // trailing space 
} packet
A{ @rightPad // " ++ [27880; 37322]%N ++ runes_of_ascii "
( '\x00' // trailing space 
) @leftPad (
    ' ' ) repeat uint64
    matchKey // trailing space 
, f32 len // @lengthOf(
, // trailing space 
repeat
tag
{i64
// @lengthOf(
// " ++ [27880; 37322]%N ++ runes_of_ascii "
roots
    // " ++ [27880; 37322]%N ++ runes_of_ascii "
    @lengthOf( metadata ), }
, @tag(
65535
    ) char[ //
00 ]
// a // b
/// triple
a1
    ,repeat i16 i8i8 ,char[
3 ]int @calculatedFrom(
""a\\"" ) , // a // b
@calculatedFrom( """ ++ [28040; 24687]%N ++ runes_of_ascii """) Pad// " ++ [128512]%N ++ runes_of_ascii " emoji
@lengthOf(
stringy ) ,/// triple
}
")).
Eval vm_compute in ("<<<M655>>>" ++ check (runes_of_ascii "  packet i8i8 { } options { options1//	t
=true ; // " ++ [27880; 37322]%N ++ runes_of_ascii "
}	packet pack{
    //	t
    lengthOf{ char[	10
]	len@calculatedFrom(
""\" ++ [233]%N ++ runes_of_ascii """
)
// " ++ [27880; 37322]%N ++ runes_of_ascii "
// " ++ [27880; 37322]%N ++ runes_of_ascii "
`a\` , }
,
    } root packet repeatCount{u128 len `line1
line2` ,
@calculatedFrom( ""// no comment"" // `tick` ""quote"" 'q'
) repeat char[]zchar`// not a comment` ,	a1 , repeat zchar[  1
]	u `crlf
line` , } packet
lengthOf{@calculatedFrom(
    //
    ""packet"" ) // a // b
float64
trueish
@lengthOf( Z9_
) , @leftPad
    ( )
    match options1 as A
    //x
    {""it's"":len
    ,
    ["""" ] :T // " ++ [128512]%N ++ runes_of_ascii " emoji
,	[
    //
    00
// c
// `tick` ""quote"" 'q'
] : calculatedFrom, 1:MetaDataX	, 4294967296 :
    u , } // a // b
,}
//
")).
Eval vm_compute in ("<<<M1278>>>" ++ check (runes_of_ascii "//x
packet	_x { repeat
    charz { repeat asx,//x
string metadata ,//x
uint64	a1 @calculatedFrom(	""it's"") `a\`
    , }
,
    @rightPad//
() msg_type len
``,MetaDataX asx // " ++ [128512]%N ++ runes_of_ascii " emoji
,@rightPad
(
    '\x00' )zchar[ 3] int,
}packet Packet
    { @leftPad(
    )
string_{ repeat
    calculatedFrom// a // b
`it's` , }
    // " ++ [128512]%N ++ runes_of_ascii " emoji
    , @calculatedFrom(""a	b""
    ) @tag( 00 )@rightPad(
' ')
u64 stringy // " ++ [128512]%N ++ runes_of_ascii " emoji
@calculatedFrom( ""a	b"" // @lengthOf(
)
, @leftPad
    (
'\x00' ) options1 `" ++ [233]%N ++ runes_of_ascii "`
    , @rightPad ( ) repeat char[ 007
]Foo `line1
line2`
,
} options
{len
    = '\x00' ;
    roots  =
""{,}""packetx =i64 ;
    }
")).
Eval vm_compute in ("<<<M709>>>" ++ check (runes_of_ascii "options
{ }  root packet a1 { @tag( 00
)Logon , @calculatedFrom( ""{,}""
)repeatCount
// a // b
// packet A { u8 x, }
{ repeat float i64_ ,
    match u8x // trailing space 
as
leftPad
    // `tick` ""quote"" 'q'
    {3 :u128 ,1	: i8i8
//	t
// " ++ [128512]%N ++ runes_of_ascii " emoji
, 42 :
    u128
, """ ++ [233]%N ++ runes_of_ascii "t" ++ [233]%N ++ runes_of_ascii """
: msg_type , [ 1,
42 ] : A , } ,
    repeat
    i64 metadata ,
} ,
    match	len
as	Z9_ { 255 :o,
    0123456789 :Pad ,//
[ 7
, ""{,}""
    , // trailing space 
""abc"" , 007 ] :chars
, 3
: // packet A { u8 x, }
packetx 00 ://
o, /// triple
} ,  zchar[ 0123456789
    ]
i64_
@lengthOf(	chars ) , float32 trueish `" ++ [28040; 24687; 31867; 22411]%N ++ runes_of_ascii "` ,}
")).
Eval vm_compute in ("<<<M3648>>>" ++ check (runes_of_ascii "options {	LittleEndian	= false  ;ArrayPrefixLenType = u64
    ;	FixedStringPadChar
	=	'0'
	; 
}
	packet
	Quote

{

    repeat 
InFlags37
{

    char[] lastPx,

    }	,
i16 tag7

    ,  char[]

    f1 ,

    zchar[

    6
]

    Note, } packet

    Order {

u8 
Ref ,repeat Quote
	,
	repeat
	string  Acct
	, }root

packet
Heartbeat

    {
repeat
	Quote

    ,@leftPad
(
'0')char[

    11	]
	OrderId	,zchar[  8

    ]Ref

,

u32
Flags	,u32 Tail
    @lengthOf(

Body

    ),
	match

    Flags

as 
Body 
{
156
	:Order 
,7 :
    Quote, } 
,
}

")).
Eval vm_compute in ("<<<M4363>>>" ++ check (runes_of_ascii "options {
u8x	=
0123456789
;
	} packet
rootA {

    i8i8 
repeatCount
, 
}

    // " ++ [27880; 37322]%N ++ runes_of_ascii "
    // a // b
	  root
packet
MetaDataX

{ 	 // @lengthOf(

	Logon  // " ++ [27880; 37322]%N ++ runes_of_ascii "
	{

int64 i8i8 @lengthOf(Header)  , 
  //x
  },  }  root
	packet// @lengthOf(
  	Pad  { roots

{ i16
	Logon 
@calculatedFrom(

""" ++ [233]%N ++ runes_of_ascii "t" ++ [233]%N ++ runes_of_ascii """

    ),match
	As
as

float {[""packet"" 	 //
		,

""// no comment""
    ] : a1

,
65535 : f32a,	[

""a\""b""

    ,
	""// no comment"" ,""a	b"" ,
    //
  ""a	b""
,
""a\\"" ] :
    x 
, ""{,}""  :
    rootA ,
    10
	:

msg_type
,
} 
,  }
	,

}	options{ }")).
Eval vm_compute in ("<<<M4216>>>" ++ check (runes_of_ascii "options
	{  }
packet 
BodyLength	{	i8i8

@lengthOf( trueish 
) ,	repeat
body

    ,	// " ++ [27880; 37322]%N ++ runes_of_ascii "
      @calculatedFrom(""1""

)
	repeat
int64
i64_, @tag( 0 ) 
MetaDataX
msg_type	`" ++ [28040; 24687; 31867; 22411]%N ++ runes_of_ascii "` ,	Pad {
    Header@calculatedFrom(

""""
), }	,
	@tag( 42
	)u8
    asx  `u8 x,`	,@tag(3 ) repeat string_
    {

    metadata{ 	 // @lengthOf(
char[0123456789

    ]
	crc
,
    Packet `" ++ [28040; 24687; 31867; 22411]%N ++ runes_of_ascii "`
,  //x

	options1 
	// " ++ [128512]%N ++ runes_of_ascii " emoji

	`tab	here` // packet A { u8 x, }
    ,
	}
,repeat

Packet	,
}
    , }
    //x
	options
{ x
	= char[  10 ]; 
}")).
Eval vm_compute in ("<<<M4450>>>" ++ check (runes_of_ascii "packet matchKey {
}

packet string_ {
    matchKey @lengthOf(asx),
    @rightPad(' ')
    metadata,
    // a // b
    // @lengthOf(
    o chars,
    uint16 tag `u8 x,`,
    repeat float32 Logon `two words`,/// triple
    matchKey @calculatedFrom(""a	b"") `doc`,
    repeat packetx a1,
}

MetaData Packet {
    char[] pack,
    string zchar,
    zchar[1] x_y_z,
    int64 charz `say ""hi""`,
    u32 lengthOf `doc`,
}

options {
    a1 = int16;
    crc = ' ';
    tag = char[42]
    leftPad = true;
}")).
Eval vm_compute in ("<<<M600>>>" ++ check (runes_of_ascii "packet x_y_z{ @calculatedFrom( """ ++ [128512]%N ++ runes_of_ascii """ )match a1	as MetaDataX { // a // b
""" ++ [128512]%N ++ runes_of_ascii """ :
    u8x , [	""" ++ [28040; 24687]%N ++ runes_of_ascii """ ] :asx 255 : falsey , [ 007
]
:
stringy
    10: chars /// triple
, } , string_
{ char[ 4294967296 ] packetx, }, } // trailing space 
root packet
    u128 { calculatedFrom MetaDataX`crlf
line`	, repeat leftPad x_y_z
    //
    ,} packet BodyLength {
char Pad @lengthOf( uint8x ) `" ++ [233]%N ++ runes_of_ascii "` ,@tag(
    42  )  @calculatedFrom( """ ++ [28040; 24687]%N ++ runes_of_ascii """)
    repeat charz ,chars @calculatedFrom(	""" ++ [233]%N ++ runes_of_ascii "t" ++ [233]%N ++ runes_of_ascii """
    ) , }")).
Eval vm_compute in ("<<<M628>>>" ++ check (runes_of_ascii "  root packet tag {
@lengthOf( uint8x )@calculatedFrom(""1"" ) options1	,
    } MetaData
    Z9_ {string options1 `crlf
line` //	t
,charz string_ ,	} root packet float {@calculatedFrom( ""packet"" )chars{ //x
repeat chars{
i8 matchKey `a\` ,
} ,	}//	t
, i32 len
    @lengthOf( u8x )
// trailing space 
// " ++ [128512]%N ++ runes_of_ascii " emoji
, @lengthOf(repeatCount )
@tag(
// @lengthOf(
//	t
0123456789 )@tag( 007
) uint64
    //	t
    o @calculatedFrom( """ ++ [28040; 24687]%N ++ runes_of_ascii """// a // b
) ,
    }
")).
Eval vm_compute in ("<<<M148>>>" ++ check (runes_of_ascii "packet Foo  { Logon A`a\`, a1 A
, @lengthOf(
//	t
// trailing space 
tag ) // trailing space 
x_y_z
@lengthOf( leftPad
    ) `it's`, @tag( 255 ) match crc// @lengthOf(
as  roots {
""" ++ [233]%N ++ runes_of_ascii "t" ++ [233]%N ++ runes_of_ascii """	:Foo ,[ 10 , 007 //
, // a // b
""" ++ [233]%N ++ runes_of_ascii "t" ++ [233]%N ++ runes_of_ascii """ ,
// c
// @lengthOf(
""a	b""]
    :x_y_z}
    , // @lengthOf(
}  root packet As { }	MetaData calculatedFrom // trailing space 
{ Z9_ _x ``	,
} MetaData tag { // " ++ [27880; 37322]%N ++ runes_of_ascii "
string body , string options1 ,i8i8 pack, }
")).
Eval vm_compute in ("<<<M284>>>" ++ check (runes_of_ascii "MetaData
Header { int64
zchar
`u8 x,` , Header u8x ,  zchar[ 65535]u ,	A options1
`it's` , zchar[  007 ] MetaDataX , zchar[// `tick` ""quote"" 'q'
0] As , }
    MetaData Logon	{char[] rootA,
} packet int
{
f32 falsey, } MetaData float { len
leftPad ,
    A
    Foo
`tab	here`
    , char[ 65535
] T
`line1
line2` ,	} options // " ++ [128512]%N ++ runes_of_ascii " emoji
{
// " ++ [128512]%N ++ runes_of_ascii " emoji
// " ++ [27880; 37322]%N ++ runes_of_ascii "
float
    ='0'
//x
// a // b
;float
= true
    ;	Foo = ""\n""}")).
Eval vm_compute in ("<<<M3615>>>" ++ check (runes_of_ascii "packet  Frame
{
u8

    HK

    ,u8 BK
,  u8 
TK ,match HK as

Hdr
    {	1
    :
	HdrA

    ,
2

:
HdrB
    ,},match

    BK  as
Body	{  1 : BodyA ,
2
	: BodyB,
},match
TK
	as Trl
{ 
1: TrlA ,}

,	}
packet

HdrA 
{
u8 a
,

    }

packet
HdrB 
{ u16
    b
,	}	packet BodyA  {	u32 c
,}packet  BodyB{  u64 d

, }
packet
    TrlA	{ u8
e,
}root

packet
	Msg
	{  Frame
    ,
	u8
x, }")).
Eval vm_compute in ("<<<M4519>>>" ++ check (runes_of_ascii "packet rootA 
{
@rightPad( ' ')	repeat Z9_	roots
	``  , zchar tag `two words`	,@rightPad (
    ' '
    )len

{ 
      // trailing space 
	//x
u128 `doc`

,
    u8x, char[
0123456789	// a // b
  ] calculatedFrom`" ++ [28040; 24687; 31867; 22411]%N ++ runes_of_ascii "`
    ,msg_type  @lengthOf(

    falsey ) `u8 x,`
, 
}

    ,
@calculatedFrom(  """" )

f64 charz  @lengthOf(
msg_type
)
    `it's` // trailing space 
  ,	}

")).
Eval vm_compute in ("<<<M4428>>>" ++ check (runes_of_ascii "// trailing space 
	packet// " ++ [27880; 37322]%N ++ runes_of_ascii "

pack{
@lengthOf(

Pad  )

    char[]

msg_type,}

    options { 

    // " ++ [128512]%N ++ runes_of_ascii " emoji
// " ++ [128512]%N ++ runes_of_ascii " emoji
    chars

    = 
int32
	; //

chars=""CRC32""
}packet
f32a{
@calculatedFrom(

    ""a\""b"") zchar
	@lengthOf(

    o

    )
	,

int32

o

    , repeat	int64	// packet A { u8 x, }
    zchar
// " ++ [128512]%N ++ runes_of_ascii " emoji
  `" ++ [28040; 24687; 31867; 22411]%N ++ runes_of_ascii "` ,

}/// triple")).
Eval vm_compute in ("<<<M1322>>>" ++ check (runes_of_ascii "packet
    options1 { repeat
zchar[ 7
]
i8i8 ,_x { zchar[ 65535 ]i8i8 @lengthOf( uint8x ) ,match x_y_z as lengthOf
    { //x
[ 00// " ++ [27880; 37322]%N ++ runes_of_ascii "
, 1// " ++ [27880; 37322]%N ++ runes_of_ascii "
, 10 ,  ""\" ++ [233]%N ++ runes_of_ascii """ , 42 , 00
] : Pad, [4294967296 ] : asx
    0123456789:
x_y_z ,
}// trailing space 
, zchar[
0]float
    ,}
    , int16
    T @lengthOf( charz ) `` , }MetaData pack {int64 //	t
chars
,  }")).
Eval vm_compute in ("<<<M3674>>>" ++ check (runes_of_ascii "root
packet
BodyLength

    {
	u16
tag  @calculatedFrom( ""packet""
    )	// packet A { u8 x, }
	, u8  i8i8 
,  repeat float64 string_ `u8 x,`
,}MetaData stringy
    {
repeatCount a1 , 
// " ++ [27880; 37322]%N ++ runes_of_ascii "
		char[  0123456789 ]

    u128	`doc`//	t
    , u16
	_x

,i64
	pack 
, 
i64 BodyLength
`say ""hi""`, zchar[ 255

    ]
Z9_

    ,	} ")).
Eval vm_compute in ("<<<M516>>>" ++ check (runes_of_ascii "root packet
u128	{} MetaData
u128 { int32
    chars , i8 pack // " ++ [27880; 37322]%N ++ runes_of_ascii "
, i8i8
options1
, /// triple
char[] matchKey,	string
    msg_type `doc` //
,  string charz ,
    }
    // `tick` ""quote"" 'q'
    packet
// " ++ [128512]%N ++ runes_of_ascii " emoji
// @lengthOf(
BodyLength	{@lengthOf(
    As ) repeat
    _x{ i64_
,
    } , repeat char[ 3 ] roots ,}")).
Eval vm_compute in ("<<<M1903>>>" ++ check (runes_of_ascii "MetaData
    u { }  options {
// c
// @lengthOf(
float = int8 len rootA =false ; As =	int16 // `tick` ""quote"" 'q'
repeatCount
    // trailing space 
    =
    int16
; u8x =
    //	t
    '\x00' ; } options	{
    repeatCount
= 0
u128
    //
    = false ; i64_
// trailing space 
// `tick` ""quote"" 'q'
= '0' ; //	t
}
")).
Eval vm_compute in ("<<<M2061>>>" ++ check (runes_of_ascii "MetaData
    u { }  options {
// c
// @lengthOf(
float = int8 ;rootA =false ; As =	int16 // `tick` ""quote"" 'q'
repeatCount
    // trailing space 
    =
    int16
; u8x =
    //	t
    '\x00' ; ' } options	{
    repeatCount
= 0
u128
    //
    = false ; i64_
// trailing space 
// `tick` ""quote"" 'q'
= '0' ; //	t
}
")).
Eval vm_compute in ("<<<M1887>>>" ++ check (runes_of_ascii "MetaData
    u { }  options {
// c
// @lengthOf(
= float int8 ;rootA =false ; As =	int16 // `tick` ""quote"" 'q'
repeatCount
    // trailing space 
    =
    int16
; u8x =
    //	t
    '\x00' ; } options	{
    repeatCount
= 0
u128
    //
    = false ; i64_
// trailing space 
// `tick` ""quote"" 'q'
= '0' ; //	t
}
")).
Eval vm_compute in ("<<<M2037>>>" ++ check (runes_of_ascii "MetaData
    u { }  options {
// c
// @lengthOf(
float = int8 ;rootA =false ; As =	int16 // `tick` ""quote"" 'q'
repeatCount
    // trailing space 
    =
    int16
; u8x =
    //	t
    '\x00' ; } options	{
    repeatCount
= 0
u128
    //
    = false ; i64_
// trailing space 
// `tick` ""quote"" 'q'
'0' = ; //	t
}
")).
Eval vm_compute in ("<<<M2050>>>" ++ check (runes_of_ascii "MetaData
    u { }  options {
// c
// @lengthOf(
float = int8 ;rootA =false ; As =	int16 // `tick` ""quote"" 'q'
repeatCount
    // trailing space 
    =
    int16
; u8x =
    //	t
    '\x00' ; } options	{
    repeatCount
= 0
u128
    //
    = false ; i64_
// trailing space 
// `tick` ""quote"" 'q'
= '0' ; //	t

")).
Eval vm_compute in ("<<<M1875>>>" ++ check (runes_of_ascii "MetaData
    u { }   {
// c
// @lengthOf(
float = int8 ;rootA =false ; As =	int16 // `tick` ""quote"" 'q'
repeatCount
    // trailing space 
    =
    int16
; u8x =
    //	t
    '\x00' ; } options	{
    repeatCount
= 0
u128
    //
    = false ; i64_
// trailing space 
// `tick` ""quote"" 'q'
= '0' ; //	t
}
")).
Eval vm_compute in ("<<<M3864>>>" ++ check (runes_of_ascii "  MetaData

o 
{ char[]	BodyLength, 
} options
{ Foo
	=	uint32
i8i8
=
	char[

    10 
] ;
Logon=	true 
i64_  =

    string  ; }	root
    //
      // @lengthOf(
	packet 
a1{ i8i8`tab	here`  ,

    @calculatedFrom( 
""a	b""
	)	string

calculatedFrom@calculatedFrom(
    ""abc"" )
``

,

    }

")).
Eval vm_compute in ("<<<M4185>>>" ++ check (runes_of_ascii "/// triple
root
packet
Logon{ @calculatedFrom( 
""CRC32""

)

    uint8x { roots	pack
`line1
line2` 
,}

    ,
string u ,	}
	packet
    body {  uint64  Logon
	,
    }	root	packet	lengthOf
	{
    }
    packet A{	u32	pack // `tick` ""quote"" 'q'
    @calculatedFrom(  // c
""" ++ [128512]%N ++ runes_of_ascii """
	)
	,
    }")).
Eval vm_compute in ("<<<M4357>>>" ++ check (runes_of_ascii "root
packet
    a1	{ repeat  
  /// triple
    zchar[

42

    ] x_y_z , @tag(
65535
)
    @tag( 
    // c
    7)// " ++ [128512]%N ++ runes_of_ascii " emoji

@lengthOf( // c
	A  )  string 
        //
	// " ++ [27880; 37322]%N ++ runes_of_ascii "
	calculatedFrom
    , string uint8x,

}
    MetaData 

// trailing space 
    	MetaDataX{

}
")).
Eval vm_compute in ("<<<M25>>>" ++ check (runes_of_ascii "
root packet  calculatedFrom { repeat Header
, } MetaData Header{ zchar[// packet A { u8 x, }
10
]	As
    ,// trailing space 
string
chars, crc Logon `u8 x,`  , Z9_ Logon ,	}packet trueish
    {}
    MetaData
A { }  options { options1
=
' '
    //
    ; //	t
}
")).
Eval vm_compute in ("<<<M55>>>" ++ check (runes_of_ascii "// " ++ [27880; 37322]%N ++ runes_of_ascii "
options { u8x
=false}	packet crc
{ @leftPad
    ( // `tick` ""quote"" 'q'
'\x00'
)@calculatedFrom( ""a\""b"" ) char[] u@lengthOf(
    x ), stringy
charz	`" ++ [233]%N ++ runes_of_ascii "`
// c
// c
,
} packet
// c
//x
tag {
    string T,zchar[ 7
    ] leftPad ,// `tick` ""quote"" 'q'
}
")).
Eval vm_compute in ("<<<M1513>>>" ++ check (runes_of_ascii "packet
//	t
// trailing space 
_x {
// packet A { u8 x, }
// c
char[
3
    ] ] u8x @lengthOf(
u8x ) , @calculatedFrom(""" ++ [128512]%N ++ runes_of_ascii """ // @lengthOf(
)
i16	Foo
@lengthOf(	string_
    )`doc`	, repeat	i64 metadata , @lengthOf( string_
) i8 // c
u  `line1
line2`	,
}
")).
Eval vm_compute in ("<<<M1666>>>" ++ check (runes_of_ascii "packet
//	t
// trailing spa'ce 
_x {
// packet A { u8 x, }
// c
char[
3
    ] u8x @lengthOf(
u8x ) , @calculatedFrom(""" ++ [128512]%N ++ runes_of_ascii """ // @lengthOf(
)
i16	Foo
@lengthOf(	string_
    )`doc`	, repeat	i64 metadata , @lengthOf( string_
) i8 // c
u  `line1
line2`	,
}
")).
Eval vm_compute in ("<<<M1599>>>" ++ check (runes_of_ascii "packet
//	t
// trailing space 
_x {
// packet A { u8 x, }
// c
char[
3
    ] u8x @lengthOf(
u8x ) , @calculatedFrom(""" ++ [128512]%N ++ runes_of_ascii """ // @lengthOf(
)
i16	Foo
@lengthOf(	string_
    )`doc`	, repeat	metadata i64 , @lengthOf( string_
) i8 // c
u  `line1
line2`	,
}
")).
Eval vm_compute in ("<<<M1284>>>" ++ check (runes_of_ascii "/// triple
packet BodyLength { @calculatedFrom( ""packet"" ) //x
char[]
    options1 @calculatedFrom( ""\" ++ [233]%N ++ runes_of_ascii """ )
,zchar[ 255 // " ++ [128512]%N ++ runes_of_ascii " emoji
] metadata , }options	{ int =	'\x00'; stringy =
false
    T
    // " ++ [128512]%N ++ runes_of_ascii " emoji
    =
    0 trueish
    =
    //	t
    10
}
")).
Eval vm_compute in ("<<<M1572>>>" ++ check (runes_of_ascii "packet
//	t
// trailing space 
_x {
// packet A { u8 x, }
// c
char[
3
    ] u8x @lengthOf(
u8x ) , @calculatedFrom(""" ++ [128512]%N ++ runes_of_ascii """ // @lengthOf(
)
i16	Foo
@lengthOf(	
    )`doc`	, repeat	i64 metadata , @lengthOf( string_
) i8 // c
u  `line1
line2`	,
}
")).
Eval vm_compute in ("<<<M720>>>" ++ check (runes_of_ascii "options {metadata
    =
char[
    10]	tag= 007 ; stringy =0 ;x_y_z
= true // a // b
; }  root	packet o // " ++ [27880; 37322]%N ++ runes_of_ascii "
{ @tag( // a // b
3 ) @leftPad
(
'0' )
@tag(
// packet A { u8 x, }
// a // b
00 ) i64_  @lengthOf(
    //
    falsey	)	, }
")).
Eval vm_compute in ("<<<M3667>>>" ++ check (runes_of_ascii "packet
Sub	{
u8 a
,	@calculatedFrom(""CRC16"" 
) u16  SubSum ,
} root	packet Frame 
{u16  MsgType ,
	u16

BodyLen
    @lengthOf(

Body)
	, 
Sub 
Body ,
string note, @calculatedFrom( ""CRC16""	)
	u16
    Checksum,u8
    tail
	,}
")).
Eval vm_compute in ("<<<M4042>>>" ++ check (runes_of_ascii "MetaData 	 // packet A { u8 x, }
matchKey {  u64
leftPad

    //x
, u32
	T
	`it's`,
	uint8
	x ,
// packet A { u8 x, }
  char[]
	f32a

`say ""hi""`,	f64 	 // trailing space 

	stringy	``

,lengthOf
	Packet`say ""hi""`

,

}")).
Eval vm_compute in ("<<<M1196>>>" ++ check (runes_of_ascii "packet  lengthOf{
@tag( 65535 )	match crc as
    i8i8 {[65535 , 42 , ""it's"", ""x y"",
    7,
    // trailing space 
    ""a	b""
] : float , 00
: MetaDataX , 00 : options1 // " ++ [128512]%N ++ runes_of_ascii " emoji
,	1 :a1, 0 : packetx
    ,}
    , }")).
Eval vm_compute in ("<<<M1621>>>" ++ check (runes_of_ascii "packet
//	t
// trailing space 
_x {
// packet A { u8 x, }
// c
char[
3
    ] u8x @lengthOf(
u8x ) , @calculatedFrom(""" ++ [128512]%N ++ runes_of_ascii """ // @lengthOf(
)
i16	Foo
@lengthOf(	string_
    )`doc`	, repeat	i64 metadata , @lengthOf(")).
Eval vm_compute in ("<<<M1717>>>" ++ check (runes_of_ascii "options { trueish = ""`tick`"" ; string_= """ ++ [233]%N ++ runes_of_ascii "t" ++ [233]%N ++ runes_of_ascii """
    // c
    } } root
    packet body { stringy @calculatedFrom(
""a	b"" ) `line1
line2` , }
packet Logon {
    @leftPad(
    ' ' ) //	t
u16 string_ `u8 x,` ,
}
")).
Eval vm_compute in ("<<<M3912>>>" ++ check (runes_of_ascii "

  packet 
	// " ++ [27880; 37322]%N ++ runes_of_ascii "
  Foo{	//x
uint8x

// " ++ [27880; 37322]%N ++ runes_of_ascii "
  // " ++ [128512]%N ++ runes_of_ascii " emoji
    ,

    match  len
    as

options1 
    // a // b
    // trailing space 
    { 3  /// triple
    :

    i64_

    ,
    } 
,

    } ")).
Eval vm_compute in ("<<<M1798>>>" ++ check (runes_of_ascii "options { trueish = ""`tick`"" ; string_= """ ++ [233]%N ++ runes_of_ascii "t" ++ [233]%N ++ runes_of_ascii """
    // c
    } root
    packet body { stringy @calculatedFrom(
""a	b"" ) `line1
line2` , }
packet Logon {
    @leftPad' '
    ( ) //	t
u16 string_ `u8 x,` ,
}
")).
Eval vm_compute in ("<<<M1853>>>" ++ check (runes_of_ascii "options { trueish = ""`tick`"" ; string_= """ ++ [233]%N ++ runes_of_ascii "t" ++ [233]%N ++ runes_of_ascii """
    // c
    } root
    packet body { na" ++ [239]%N ++ runes_of_ascii "ve @calculatedFrom(
""a	b"" ) `line1
line2` , }
packet Logon {
    @leftPad(
    ' ' ) //	t
u16 string_ `u8 x,` ,
}
")).
Eval vm_compute in ("<<<M901>>>" ++ check (runes_of_ascii "packet trueish { @calculatedFrom( """ ++ [28040; 24687]%N ++ runes_of_ascii """ )	repeat
    Foo
    {
repeat float32
    Logon `" ++ [28040; 24687; 31867; 22411]%N ++ runes_of_ascii "` ,
    repeat roots zchar , repeat
char[]	Logon , u8 Logon @lengthOf(
    f32a) `a\`
    ,	} ,
    } //")).
Eval vm_compute in ("<<<M4592>>>" ++ check (runes_of_ascii "//	t
options {
    packetx = '\x00'
    len = false// packet A { u8 x, }
    As = ""a\""b"";
}

packet BodyLength {
    string options1 `crlf
    line`,// c
    repeatCount @lengthOf(matchKey),
}")).
Eval vm_compute in ("<<<M1169>>>" ++ check (runes_of_ascii "packet i64_ {match
tag as x
{ """ ++ [128512]%N ++ runes_of_ascii """ : string_ ,
    ""a\\"" : rootA ,
""abc""
    :
    pack , },
@tag( 3 ) // @lengthOf(
string metadata , string stringy
`u8 x,`
// @lengthOf(
// a // b
, }
")).
Eval vm_compute in ("<<<M785>>>" ++ check (runes_of_ascii "MetaData lengthOf
    { asx x,
i8 MetaDataX,	string
/// triple
// trailing space 
_x ,
repeatCount
    Pad,zchar[
// trailing space 
//
00 ]crc// @lengthOf(
`two words`
, } //x")).
Eval vm_compute in ("<<<M216>>>" ++ check (runes_of_ascii "MetaData msg_type { }root
    packet T{@rightPad (
    )
    repeat char[ 3 ]	x_y_z ,
    @lengthOf(
roots  ) string	i64_ @lengthOf(
u8x // a // b
) `// not a comment`	,}")).
Eval vm_compute in ("<<<M146>>>" ++ check (runes_of_ascii "root packet	BodyLength
    {
    // " ++ [27880; 37322]%N ++ runes_of_ascii "
    @lengthOf( asx) repeat char[ 007
] matchKey ,char[]
MetaDataX @lengthOf(
Foo) `tab	here` ,
repeat uint64 //	t
f32a
, }")).
Eval vm_compute in ("<<<M318>>>" ++ check (runes_of_ascii "
MetaData roots {
As  asx , char[1 ] roots
,
    // c
    char[
    007]
    matchKey ,/// triple
zchar[ 1	] len ,x_y_z
// trailing space 
/// triple
u128 , }")).
Eval vm_compute in ("<<<M2137>>>" ++ check (runes_of_ascii "options{
_x
= true
} options
{ o	= /// triple
false
    ; `two words`
= ""\n"" } root packet	Pad
/// triple
// packet A { u8 x, }
{	chars
    // a // b
    ,}")).
Eval vm_compute in ("<<<M2325>>>" ++ check (runes_of_ascii "// c
packet x { @lengthOf( metadata ) ) repeat lengthOf
,a1{
trueish	,// c
repeat//	t
MetaDataX , } , zchar[
    42	] rootA // `tick` ""quote"" 'q'
,
    }
")).
Eval vm_compute in ("<<<M1242>>>" ++ check (runes_of_ascii "packet Z9_{
// trailing space 
// " ++ [128512]%N ++ runes_of_ascii " emoji
@calculatedFrom( ""1"" )// packet A { u8 x, }
matchKey @calculatedFrom(
""" ++ [128512]%N ++ runes_of_ascii """ ) `tab	here` ,}
// packet A { u8 x, }
")).
Eval vm_compute in ("<<<M2407>>>" ++ check (runes_of_ascii "// c
packet x { @lengthOf( metadata repeat ) lengthOf
,a1{
trueish	,// c
repeat//	t
MetaDataX , } , zchar[
    42	] rootA // `tick` ""quote"" 'q'
,
    }
")).
Eval vm_compute in ("<<<M2086>>>" ++ check (runes_of_ascii "options{
=
_x true
} options
{ o	= /// triple
false
    ; chars
= ""\n"" } root packet	Pad
/// triple
// packet A { u8 x, }
{	chars
    // a // b
    ,}")).
Eval vm_compute in ("<<<M673>>>" ++ check (runes_of_ascii "packet
A //
{
@tag(255
) @lengthOf(
// packet A { u8 x, }
//
x
    )  u `crlf
line`,
repeat
body { zchar[ 00
    //	t
    ]  crc`a\`
    , }// c
, }")).
Eval vm_compute in ("<<<M2164>>>" ++ check (runes_of_ascii "options{
_x
= true
} options
{ o	= /// triple
false
    ; chars
= ""\n"" } root packet	
/// triple
// packet A { u8 x, }
{	chars
    // a // b
    ,}")).
Eval vm_compute in ("<<<M2124>>>" ++ check (runes_of_ascii "options{
_x
= true
} options
{ o	= /// triple

    ; chars
= ""\n"" } root packet	Pad
/// triple
// packet A { u8 x, }
{	chars
    // a // b
    ,}")).
Eval vm_compute in ("<<<M3882>>>" ++ check (runes_of_ascii "  root
    packet 

    // c
    matchKey  {
zchar[  3
	]pack @calculatedFrom( ""a	b"" )
    `doc` , }
options {} MetaData
	A{ int8 msg_type	, }

")).
Eval vm_compute in ("<<<M1005>>>" ++ check (runes_of_ascii "root  packet
    leftPad { int64 BodyLength `// not a comment` ,	@tag(0 ) @leftPad( ) @tag( 255
    )
repeat Header // @lengthOf(
, } // c")).
Eval vm_compute in ("<<<M588>>>" ++ check (runes_of_ascii "MetaData
packetx  { string
//	t
//
matchKey, /// triple
u8
    trueish
    ,
// packet A { u8 x, }
// `tick` ""quote"" 'q'
} // a // b")).
Eval vm_compute in ("<<<M4259>>>" ++ check (runes_of_ascii "packet A {
    match k as n {
        [
            1, 22, ""c c"", 4, 5,
            ""f"", 7
        ] : B,
        2 : C,
    },
}")).
Eval vm_compute in ("<<<M1064>>>" ++ check (runes_of_ascii "MetaData u
    // packet A { u8 x, }
    { packetx A
    , /// triple
zchar[ 10 ] Packet
    `" ++ [28040; 24687; 31867; 22411]%N ++ runes_of_ascii "`,
char[ 10 ]x
    ,
}
")).
Eval vm_compute in ("<<<M4478>>>" ++ check (runes_of_ascii "packet

    A {	match	k as n
	{

[
	""a"" ,""bb"" ,""c c""
,
""d""

    ,
""e""
,

""f""  ,""g""
	, ""h"" 
, ""i""
]
	: B  2
	: C},
}
")).
Eval vm_compute in ("<<<M3337>>>" ++ check (runes_of_ascii "root packet matchKey { zchar[ 3 ] pack @calculatedFrom( ""a	b"" ) `doc` ,
// c
} options { } MetaData A { int8 msg_type , }")).
Eval vm_compute in ("<<<M1433>>>" ++ check (runes_of_ascii "
packet
    falsey { Header@calculatedFrom(""packet""  ) , , char[
    0123456789 ] packetx
    , } // `tick` ""quote"" 'q'")).
Eval vm_compute in ("<<<M4534>>>" ++ check (runes_of_ascii "
options  /// triple

{  asx

    = '\x00'
; } 
        //	t
  options{
pack

=  ""CRC32""
; 
}root
packet  f32a {}
")).
Eval vm_compute in ("<<<M1457>>>" ++ check (runes_of_ascii "
packet
    falsey { Header@calculatedFrom(""packet""  ) , char[
    0123456789 ] packetx
     } // `tick` ""quote"" 'q'")).
Eval vm_compute in ("<<<M943>>>" ++ check (runes_of_ascii "
options { msg_type
=
    42;
    metadata  =
""""
;matchKey
=
// packet A { u8 x, }
// `tick` ""quote"" 'q'
u8 }
")).
Eval vm_compute in ("<<<M3009>>>" ++ check (runes_of_ascii "packet A {
    u16 len @lengthOf(body) `a
b`,
    u32 crc @calculatedFrom(""CRC32"") `a
b`,
    string body,
}")).
Eval vm_compute in ("<<<M4531>>>" ++ check (runes_of_ascii "packet	o{
repeat
Logon
uint8x, 

    // c
		}
    options{

    asx= zchar[ 3
]  stringy =
	'\x00'  } ")).
Eval vm_compute in ("<<<M3015>>>" ++ check (runes_of_ascii "packet A {
    u16 len @lengthOf(body) `
`,
    u32 crc @calculatedFrom(""CRC32"") `
`,
    string body,
}")).
Eval vm_compute in ("<<<M2952>>>" ++ check (runes_of_ascii "packet A {
  match k as n {
    [""a"", ""bb"", ""c c"", ""d"", ""e"", ""f"", ""g"", ""h"", ""i""] : B
    2 : C
  },
}")).
Eval vm_compute in ("<<<M2968>>>" ++ check (runes_of_ascii "packet A {
  match k as n {
    [""a"", 22, ""c c"", 4, ""e"", 66, ""g"", 8, ""i"", 10] : B,
    2 : C
  },
}")).
Eval vm_compute in ("<<<M102>>>" ++ check (runes_of_ascii "
options {
a1/// triple
=""1""
;
trueish	=  i64 ; stringy=""" ++ [128512]%N ++ runes_of_ascii """
; u8x
= 255 ;
u128
=
""`tick`""; }

")).
Eval vm_compute in ("<<<M128>>>" ++ check (runes_of_ascii "MetaData msg_type
    { char[]
    int
    ,  char[ 255 ]
o ,
    // `tick` ""quote"" 'q'
    }")).
Eval vm_compute in ("<<<M1531>>>" ++ check (runes_of_ascii "packet
//	t
// trailing space 
_x {
// packet A { u8 x, }
// c
char[
3
    ] u8x @lengthOf(")).
Eval vm_compute in ("<<<M3520>>>" ++ check (runes_of_ascii "packet chars { } packet MetaDataX { @tag( 42 ) i16 string_ , repeat x `say ""hi""` , }
// c
")).
Eval vm_compute in ("<<<M3285>>>" ++ check (runes_of_ascii "MetaData float { float64 charz `
` , } root // c
packet chars { @rightPad ( '0' ) Foo , }")).
Eval vm_compute in ("<<<M3496>>>" ++ check (runes_of_ascii "packet chars { } packet MetaDataX
// c
{ @tag( 42 ) i16 string_ , repeat x `say ""hi""` , }")).
Eval vm_compute in ("<<<M2227>>>" ++ check (runes_of_ascii "options
{ } options { { BodyLength= u16 Header= f64 ; u128 =
    true
    ; } // a // b")).
Eval vm_compute in ("<<<M2305>>>" ++ check (runes_of_ascii "options
{ } options { BodyLength= u16~ Header= f64 ; u128 =
    true
    ; } // a // b")).
Eval vm_compute in ("<<<M2258>>>" ++ check (runes_of_ascii "options
{ } options { BodyLength= u16 Header= ; f64 u128 =
    true
    ; } // a // b")).
Eval vm_compute in ("<<<M3236>>>" ++ check (runes_of_ascii "packet metadata { Logon { A `" ++ [28040; 24687; 31867; 22411]%N ++ runes_of_ascii "` , tag o , }
// c
, zchar len `// not a comment` , }")).
Eval vm_compute in ("<<<M3053>>>" ++ check (runes_of_ascii "packet A {
    u32 crc @calculatedFrom(""x\
y""),
    @calculatedFrom(""x\
y"") u8 y,
}")).
Eval vm_compute in ("<<<M3459>>>" ++ check (runes_of_ascii "packet o { repeat Logon uint8x , } options { asx = zchar[ 3 ] stringy // c
= '\x00' }")).
Eval vm_compute in ("<<<M2241>>>" ++ check (runes_of_ascii "options
{ } options { BodyLength=  Header= f64 ; u128 =
    true
    ; } // a // b")).
Eval vm_compute in ("<<<M3402>>>" ++ check (runes_of_ascii "MetaData body { i64 pack // c
`it's` , } packet stringy { int16 calculatedFrom , }")).
Eval vm_compute in ("<<<M2914>>>" ++ check (runes_of_ascii "packet A {
  match k as n {
    [1, ""bb"", 007, ""d"", 5, ""f""] : B,
    2 : C
  },
}")).
Eval vm_compute in ("<<<M2923>>>" ++ check (runes_of_ascii "packet A {
  match k as n {
    [1, 22, 007, 4, 5, 66, 7] : B,
    2 : C
  },
}")).
Eval vm_compute in ("<<<M2987>>>" ++ check (runes_of_ascii "packet A { Inner { match k as n { [1,22,007,4,5,66,7,8,9,10,11] : B, }, }, }")).
Eval vm_compute in ("<<<M4099>>>" ++ check (runes_of_ascii "
packet
    A
	{ B  b
`a

b`

,B

    `a

b`,repeat	B
	bs `a

b`
,}

")).
Eval vm_compute in ("<<<M4229>>>" ++ check (runes_of_ascii "packet  A
	{

    repeat
	B {  C{	u8
x  ,
} ,
    D d ,	} ,
    }
")).
Eval vm_compute in ("<<<M2948>>>" ++ check (runes_of_ascii "packet A { Inner { match k as n { [1,22,007,4,5,66,7,8] : B, }, }, }")).
Eval vm_compute in ("<<<M2850>>>" ++ check (runes_of_ascii "@leftPad u8 int32 [ @lengthOf( @leftPad [ { ( int64 char[ ; match")).
Eval vm_compute in ("<<<M3573>>>" ++ check (runes_of_ascii "

  root
packet

P { repeat
string
ss

,	repeat u16 ns
,

}

")).
Eval vm_compute in ("<<<M2863>>>" ++ check (runes_of_ascii "packet A {
  match k as n {
    [1, 22] : B
    2 : C
  },
}")).
Eval vm_compute in ("<<<M2860>>>" ++ check (runes_of_ascii "packet A {
  match k as n {
    [""a""] : B
    2 : C
  },
}")).
Eval vm_compute in ("<<<M2804>>>" ++ check (runes_of_ascii "{ { int32 int32 match `a\` 255 packet '0' ) repeat '\x00'")).
Eval vm_compute in ("<<<M3154>>>" ++ check (runes_of_ascii "packet A { match k as n { 1 : B // a // b 2 : C }, }")).
Eval vm_compute in ("<<<M2265>>>" ++ check (runes_of_ascii "options
{ } options { BodyLength= u16 Header= f64")).
Eval vm_compute in ("<<<M2754>>>" ++ check (runes_of_ascii "f64 false float32 match int16 int16 '\x00' char")).
Eval vm_compute in ("<<<M2188>>>" ++ check (runes_of_ascii "options{
_x
= true
} options
{ o	= /// triple")).
Eval vm_compute in ("<<<M3041>>>" ++ check (runes_of_ascii "MetaData M {
    u8 x `
x`,
    T t `
x`,
}")).
Eval vm_compute in ("<<<M2588>>>" ++ check (runes_of_ascii "packet A { x @calculatedFrom(""c"") `d`, }")).
Eval vm_compute in ("<<<M1715>>>" ++ check (runes_of_ascii "options { trueish = ""`tick`"" ; string_=")).
Eval vm_compute in ("<<<M3180>>>" ++ check (runes_of_ascii "packet A { u8 x,// a


// b

 u8 y, }")).
Eval vm_compute in ("<<<M2362>>>" ++ check (runes_of_ascii "// c
packet x { @lengthOf( metadata")).
Eval vm_compute in ("<<<M4253>>>" ++ check (runes_of_ascii "packet A {
    u8 x `d x`,// c x
}")).
Eval vm_compute in ("<<<M3036>>>" ++ check (runes_of_ascii "root packet A {
    u8 x `x
`,
}")).
Eval vm_compute in ("<<<M2603>>>" ++ check (runes_of_ascii "packet A { match k as n { }, }")).
Eval vm_compute in ("<<<M1326>>>" ++ check (runes_of_ascii "options { matchKey	='\x00';	}")).
Eval vm_compute in ("<<<M2599>>>" ++ check (runes_of_ascii "packet A { B { u8 x, } C, }")).
Eval vm_compute in ("<<<M3013>>>" ++ check (runes_of_ascii "packet A {
    u8 x `
`,
}")).
Eval vm_compute in ("<<<M4560>>>" ++ check (runes_of_ascii "

  packet  packetx {
}
")).
Eval vm_compute in ("<<<M4414>>>" ++ check (runes_of_ascii "packet u8x {
    //	t
}")).
Eval vm_compute in ("<<<M4029>>>" ++ check (runes_of_ascii "packet A {
    // a
}")).
Eval vm_compute in ("<<<M1198>>>" ++ check (runes_of_ascii "  packet i64_ { }

")).
Eval vm_compute in ("<<<M1411>>>" ++ check (runes_of_ascii "
packet
    falsey")).
Eval vm_compute in ("<<<M3121>>>" ++ check (runes_of_ascii "// c" ++ [12]%N ++ runes_of_ascii "
packet A {
}")).
Eval vm_compute in ("<<<M3078>>>" ++ check (runes_of_ascii "packet A {
}// c" ++ [5760]%N)).
Eval vm_compute in ("<<<M4141>>>" ++ check (runes_of_ascii "packet rootA {
}")).
Eval vm_compute in ("<<<M2690>>>" ++ check (runes_of_ascii "[" ++ [29783; 1899]%N ++ runes_of_ascii "]" ++ [65533; 65533]%N ++ runes_of_ascii "[" ++ [65533]%N ++ runes_of_ascii "'" ++ [65533; 65533; 65533; 65533]%N)).
Eval vm_compute in ("<<<M2220>>>" ++ check (runes_of_ascii "options
{")).
Eval vm_compute in ("<<<M2809>>>" ++ check ([27]%N ++ runes_of_ascii "" ++ [65533; 65533; 8; 65533]%N ++ runes_of_ascii " l")).
Eval vm_compute in ("<<<M2473>>>" ++ check (runes_of_ascii "'\x00'")).
Eval vm_compute in ("<<<M2675>>>" ++ check (runes_of_ascii "u8 x,")).
Eval vm_compute in ("<<<M2501>>>" ++ check (runes_of_ascii "// x")).
Eval vm_compute in ("<<<M2524>>>" ++ check (runes_of_ascii "`\`")).
Eval vm_compute in ("<<<M2507>>>" ++ check (runes_of_ascii """""")).
Eval vm_compute in ("<<<M2688>>>" ++ check ([0]%N)).
