From FP Require Import Lexer Parser ShowPT Digest Formatter.
From Coq Require Import String List NArith.
Import ListNotations.
Open Scope string_scope.
Set Printing Width 100000000.
Set Printing Depth 100000000.
Definition show_fres (r : fres) : string :=
  match r with
  | FOk s => "OK:" ++ sh_escaped s ""
  | FErr s => "ERR:" ++ sh_escaped s ""
  | FPanic p => "PANIC:" ++ p
  end.
Definition check (rs : list rune) : string := digest (show_fres (format_res rs)).
Definition full (rs : list rune) : string := show_fres (format_res rs).
Eval vm_compute in ("<<<M3539>>>" ++ check (runes_of_ascii "//	t
packet charz {
    @leftPad(' ')
    repeat As `line1
    line2`,
    match tag as Logon {
        007 : roots,
        """ ++ [128512]%N ++ runes_of_ascii """ : calculatedFrom,
        [65535, ""x y"", 0, """", """"] : body,
        ""\n"" : BodyLength,
    },
    @leftPad('\x00')
    char[255] msg_type @lengthOf(matchKey) `line1
    line2`,
    u16 options1 @calculatedFrom(""{,}"") `two words`,
    Foo {
        repeat rootA,
        crc f32a `crlf
        line`,
    },
    @lengthOf(packetx)
    repeat char[4294967296] i64_,
    @rightPad('0')
    roots stringy,
    string a1,
    @rightPad('\x00')
    @rightPad('0')
    match Header as charz {
        3 : repeatCount,
        ""{,}"" : len,
    },
    @tag(4294967296)
    repeat i8i8 matchKey `it's`,
}

packet metadata {
    o {
        char[] Pad,
        // `tick` ""quote"" 'q'
        match repeatCount as Z9_ {
            0123456789 : msg_type,
            4294967296 : trueish,
            [""packet"", ""x y""] : falsey,
        },
        repeat int string_,// `tick` ""quote"" 'q'
    },
    @tag(007)
    match Pad as leftPad {
        [
            ""a\""b"", ""it's"", ""x y"", ""it's"", 007,
            ""`tick`"", 65535
        ] : Header,
        [42] : charz,
        007 : rootA,
    },
    zchar[0123456789] falsey @lengthOf(metadata),
    A {
        match x as f32a {
            0123456789 : repeatCount,
            [""" ++ [28040; 24687]%N ++ runes_of_ascii """] : tag,
            00 : i64_,
        },
        match lengthOf as Packet {
            65535 : string_,
            // 50% %s
            ""a\""b"" : roots,
            4294967296 : chars,
            //x
        },
        char[0] x `" ++ [28040; 24687; 31867; 22411]%N ++ runes_of_ascii "`,
    },
    match msg_type as Logon {
        65535 : Pad,
    },
    @leftPad('0')
    repeat metadata {
        repeat u32 Foo `// not a comment`,
        match _x as Foo {
            // 50% %s
            [""`tick`""] : Foo,
            65535 : repeatCount,
            """ ++ [28040; 24687]%N ++ runes_of_ascii """ : crc,
            ""CRC32"" : calculatedFrom,
            ""// no comment"" : lengthOf,
        },
        repeat int64 repeatCount,
    },
    match Pad as Packet {
        ""abc"" : packetx,
        """" : rootA,
        ""a\""b"" : packetx,
        ""\" ++ [233]%N ++ runes_of_ascii """ : f32a,
        10 : x_y_z,
    },
    u128 `// not a comment`,
    @lengthOf(calculatedFrom)
    match string_ as u {
        """ ++ [28040; 24687]%N ++ runes_of_ascii """ : x_y_z,
        //
        255 : As,
        007 : len,
        """ ++ [233]%N ++ runes_of_ascii "t" ++ [233]%N ++ runes_of_ascii """ : a1,
        0 : Pad,
    },
}")).
Eval vm_compute in ("<<<M809>>>" ++ check (runes_of_ascii "MetaData
    charz	{ float BodyLength
    `a\` // packet A { u8 x, }
, chars
body
    ,  _x  crc `it's`
    ,
    u64
    Z9_
// packet A { u8 x, }
/// triple
,}
    options// @lengthOf(
{  As = '0' ;
    options1// trailing space 
=char[
    //x
    10
// a // b
// packet A { u8 x, }
]} packet	o { @leftPad
(
    /// triple
    ) match
asx as matchKey// 50% %s
{ 7
    //	t
    :
    leftPad , ""it's"" :crc[  0, 10
, 0123456789 , ""1"" ] : As  , [ 65535
,
"""", // `tick` ""quote"" 'q'
""it's""
, """ ++ [233]%N ++ runes_of_ascii "t" ++ [233]%N ++ runes_of_ascii """	, """ ++ [28040; 24687]%N ++ runes_of_ascii """, 007
// c
// `tick` ""quote"" 'q'
, 7 , """ ++ [128512]%N ++ runes_of_ascii """] : u8x,},
i32 pack @calculatedFrom(""" ++ [28040; 24687]%N ++ runes_of_ascii """ )	`
` ,
u{ Foo
    , uint16
float	@lengthOf(a1 ) ,
//
//x
repeat u8 len`it's` , char
MetaDataX
    //	t
    @calculatedFrom(// " ++ [27880; 37322]%N ++ runes_of_ascii "
""packet"" )
`two words` ,	} , char[4294967296
    ] zchar @calculatedFrom( ""a	b"" )
    ,	match	calculatedFrom as
    asx {
    ""1"" :matchKey  , ""\n"" : asx // c
,""`tick`""	:
Foo
    , ""{,}""
    :
pack ,
""a	b"" : //x
lengthOf
""\n"": MetaDataX, // c
}
,  } packet roots {
    o{float64 Logon@lengthOf( rootA )
`u8 x,` // c
, } ,
    char[] uint8x
`say ""hi""`
//
// " ++ [128512]%N ++ runes_of_ascii " emoji
,u ,repeat
i8i8 { match
leftPad as	Foo { ""\n"" // a // b
:
/// triple
// a // b
BodyLength	, [ // 50% %s
007
    ]
: T }
,
    match u as stringy
{ ""// no comment"":x_y_z ,}	,
u8 rootA //x
,  int64
pack , } ,
    string string_	@calculatedFrom(
// @lengthOf(
// " ++ [128512]%N ++ runes_of_ascii " emoji
""abc"" )
    // trailing space 
    `a\`, calculatedFrom// trailing space 
{	match
    i64_
    as
    // trailing space 
    rootA {
    [ ""packet""
] : // " ++ [27880; 37322]%N ++ runes_of_ascii "
charz,[""a\""b"" , ""abc"" , // c
0123456789
, ""a\\"" // " ++ [128512]%N ++ runes_of_ascii " emoji
,
    ""x y""
    ,
    ""// no comment"" ] :rootA  ""packet"" :lengthOf , ""// no comment"" : trueish
    , 0123456789: packetx[
0 ,
""\" ++ [233]%N ++ runes_of_ascii """
    , 0123456789
,""`tick`"" ] // packet A { u8 x, }
: msg_type	,}
, char[] msg_type
@lengthOf( pack),
repeat/// triple
char[] falsey ,
    //	t
    string_ _x
,
//	t
// 50% %s
}
    , }
")).
Eval vm_compute in ("<<<M1266>>>" ++ check (runes_of_ascii "options {} root packet falsey {
    // @lengthOf(
    repeat	char[]	leftPad, repeat f64  _x `a\` , uint64 float @calculatedFrom(""{,}"" )  , }
    // `tick` ""quote"" 'q'
    root packet  u128 { @lengthOf( repeatCount
    /// triple
    ) @tag(
255
    ) int64
    u  `two words` ,
a1 @calculatedFrom(
    ""packet"" )
    `a\`, @leftPad // " ++ [128512]%N ++ runes_of_ascii " emoji
(
'\x00'	)  repeat x_y_z {
repeat rootA`100% of %d` ,
    }
    , @rightPad ( ) lengthOf  @lengthOf( Pad
) , }packet
    i8i8 {
    // 50% %s
    packetx @lengthOf(u8x)`crlf
line` ,//
metadata{
    repeat // `tick` ""quote"" 'q'
trueish { uint8x `// not a comment` ,zchar[7
]
msg_type , i64_
    ,i64 u  @calculatedFrom(
""a\""b"" )
    `it's`
,
    } ,}	,
char[ 3 ]
x_y_z `a\`	,@lengthOf(Header  )  i8 repeatCount`it's`
    ,
    chars @calculatedFrom(
""it's"" ) `{ , }` , char[]
i8i8// " ++ [27880; 37322]%N ++ runes_of_ascii "
@calculatedFrom( ""it's"" )
//
// packet A { u8 x, }
,repeat i32 uint8x
,
    roots
    @lengthOf( stringy
)	`// not a comment` ,
    @leftPad //x
(
    '\x00' )int64 float @lengthOf(
    u )
,
repeat i64// 50% %s
repeatCount , }
packet	As {@leftPad(
'0' // 50% %s
) char[	65535 ]  falsey `a\` , x_y_z// @lengthOf(
int ,
    @lengthOf( MetaDataX	) match
    Logon as
leftPad{ ""abc"" :zchar,
    255 : A // " ++ [128512]%N ++ runes_of_ascii " emoji
,
} ,
// trailing space 
// packet A { u8 x, }
@lengthOf(Pad	)	repeat BodyLength{ repeat zchar[
1 ] tag
    `a\` , uint32 Packet @lengthOf(msg_type ) ,
    // `tick` ""quote"" 'q'
    }
    //	t
    ,
uint64 MetaDataX `two words` , @calculatedFrom(""x y"") @calculatedFrom( ""// no comment"" )@leftPad
( '0' ) uint64	MetaDataX	`it's` , @tag(007  ) u128 float , }
")).
Eval vm_compute in ("<<<M3586>>>" ++ check (runes_of_ascii "options 
{	StringPrefixLenType	= u16 ; ArrayPrefixLenType
= 
u16;
} packet
    SampleBinary
    {  uint16	MsgType`" ++ [28040; 24687; 31867; 22411]%N ++ runes_of_ascii "` ,u16 
BodyLenght
@lengthOf(Body

    )`" ++ [28040; 24687; 20307; 38271; 24230]%N ++ runes_of_ascii "`
,  match

    MsgType as	Body
{ 
1 
:
	Logon

,  2:  Logout,

    3 :Heartbeat
    ,

4
	: RiskControlRequest ,
5
:RiskControlResponse

    , 
} , 
@calculatedFrom(
""CRC32"" )u32  Ckecksum`" ++ [26657; 39564; 21644]%N ++ runes_of_ascii "`,
    } packet	Logon	{ 
@leftPad
(
'0'

)
char[ 10] 
UserName	`" ++ [29992; 25143; 21517]%N ++ runes_of_ascii "`	,
    string
    Password `" ++ [23494; 30721]%N ++ runes_of_ascii "` , uint64
    ClientId
`" ++ [23458; 25143; 31471]%N ++ runes_of_ascii "ID`
	,
u16

    HeartbeatInterval	`" ++ [24515; 36339; 38388; 38548]%N ++ runes_of_ascii "`
, }

    packet
    Logout
    {

@rightPad

(  '0'
    )

char[

    10 ]
    UserName `" ++ [29992; 25143; 21517]%N ++ runes_of_ascii "`

    ,

    uint64
	ClientId `" ++ [23458; 25143; 31471]%N ++ runes_of_ascii "ID`
,
	}  packet
Heartbeat  {
    }
	packet
RiskControlRequest
{ string  UniqueOrderId

`" ++ [21807; 19968; 35746; 21333; 21495]%N ++ runes_of_ascii "`	, 
char[ 16 ]ClOrdID `" ++ [23458; 25143; 35746; 21333; 21495]%N ++ runes_of_ascii "` 
, char[ 3
]	MarketID
	`" ++ [24066; 22330]%N ++ runes_of_ascii "id`, char[	12	]
    SecurityID  `" ++ [35777; 21048; 20195; 30721]%N ++ runes_of_ascii "`,
char

Side

    `" ++ [20080; 21334; 26041; 21521]%N ++ runes_of_ascii "`
	,
    char OrderType  `" ++ [35746; 21333; 31867; 22411]%N ++ runes_of_ascii "`, u64

    Price
`" ++ [20215; 26684]%N ++ runes_of_ascii "`
,
	u32
    Qty  `" ++ [25968; 37327]%N ++ runes_of_ascii "`	,
    repeat
	string ExtraInfo `" ++ [38468; 21152; 20449; 24687]%N ++ runes_of_ascii "`,	repeat  SubOrder  { char[
	16 
]
    ClOrdID
    `" ++ [23376; 35746; 21333; 21495]%N ++ runes_of_ascii "`

    ,  u64

Price
`" ++ [23376; 35746; 21333; 20215; 26684]%N ++ runes_of_ascii "`
    ,
	u32

Qty

`" ++ [23376; 35746; 21333; 25968; 37327]%N ++ runes_of_ascii "`	, } , }
    packet 
RiskControlResponse 
{
string UniqueOrderId  `" ++ [21807; 19968; 35746; 21333; 21495]%N ++ runes_of_ascii "` ,i32 Status `" ++ [29366; 24577]%N ++ runes_of_ascii "`, 
string Msg  `" ++ [32467; 26524; 20449; 24687]%N ++ runes_of_ascii "`	,
    repeat  Detail
    ,

}
packet

    Detail {
    string

RuleName

    `" ++ [35268; 21017; 21517; 31216]%N ++ runes_of_ascii "` ,
u16

    Code`" ++ [21407; 22240; 20195; 30721]%N ++ runes_of_ascii "`,
	}
")).
Eval vm_compute in ("<<<M1113>>>" ++ check (runes_of_ascii "  packet u8x {o,
@leftPad ( '0'	) f32a
    ,
// `tick` ""quote"" 'q'
// `tick` ""quote"" 'q'
repeat T ,// c
}// trailing space 
packet  packetx { @calculatedFrom( ""packet"" ) // " ++ [27880; 37322]%N ++ runes_of_ascii "
match
packetx	as options1{
""a\""b"" : x
    255
:rootA , } , @leftPad( )stringy// trailing space 
repeatCount `it's` ,
    @lengthOf( i64_ ) repeat calculatedFrom {
A @calculatedFrom(
    ""{,}"" //	t
) ,tag@calculatedFrom(	""" ++ [128512]%N ++ runes_of_ascii """ ) , }, @rightPad //x
( '\x00' ) @tag(
    1
    ) Logon `u8 x,` ,@calculatedFrom( ""abc"" ) @lengthOf( roots
) x_y_z ,
    @rightPad
() //	t
match falsey// `tick` ""quote"" 'q'
as
u8x { ""\" ++ [233]%N ++ runes_of_ascii """: A ,
} , // c
@lengthOf(
Packet ) MetaDataX `100% of %d` ,char[ // " ++ [27880; 37322]%N ++ runes_of_ascii "
00] trueish
,} packet	BodyLength {
}
root//
packet
    stringy	{
    f32 metadata@lengthOf(// " ++ [128512]%N ++ runes_of_ascii " emoji
A ) `line1
line2`
, }
packet charz//	t
{ chars	@calculatedFrom(
""a	b"" )
`100% of %d` , i8
falsey , @rightPad ( )match Packet as lengthOf
/// triple
// c
{
    0123456789 // a // b
: len ,
""CRC32"" :string_ ,
    ""a	b"": string_ [
42 ,
// " ++ [128512]%N ++ runes_of_ascii " emoji
// `tick` ""quote"" 'q'
0123456789 ]:
_x , } , calculatedFrom @calculatedFrom( ""a	b""
    ) , @tag( 65535 ) match packetx as
_x{ //x
10 :
len , ""a	b"":
stringy 1: pack
, //x
""// no comment"" :falsey
    // trailing space 
    ,},
    } 	 ")).
Eval vm_compute in ("<<<M755>>>" ++ check (runes_of_ascii "
root packet Z9_ { char[]falsey
`a\`, repeat char[] x_y_z `" ++ [233]%N ++ runes_of_ascii "`
    , rootA@calculatedFrom(""a\""b"" ) ,
    f32a , char[] packetx // packet A { u8 x, }
@lengthOf( msg_type) ,	} packet MetaDataX
    // " ++ [27880; 37322]%N ++ runes_of_ascii "
    { i16
//
// " ++ [27880; 37322]%N ++ runes_of_ascii "
pack@lengthOf(// @lengthOf(
Z9_) ,
@calculatedFrom(""\n"" )@lengthOf( a1
)f32a
//x
//
@calculatedFrom( ""1"" )
    ,
// c
/// triple
@leftPad ( '0' ) Pad
@calculatedFrom( """ ++ [233]%N ++ runes_of_ascii "t" ++ [233]%N ++ runes_of_ascii """ ) `100% of %d` ,	uint64 u `crlf
line` , @calculatedFrom(
""a	b"" )
@leftPad (
    ) @tag(00 ) repeat Packet
Packet
,
float64 a1 `" ++ [28040; 24687; 31867; 22411]%N ++ runes_of_ascii "`	,	} packet
string_ {T	{ char[] u `crlf
line`
,} , @tag(
// packet A { u8 x, }
//
42
)
    repeat char[ 255	]Foo ,@lengthOf( _x ) @calculatedFrom( ""abc"" )	_x // " ++ [128512]%N ++ runes_of_ascii " emoji
`" ++ [28040; 24687; 31867; 22411]%N ++ runes_of_ascii "` ,char[ // @lengthOf(
00] // @lengthOf(
Packet `line1
line2` , @lengthOf( calculatedFrom) repeat// @lengthOf(
Pad matchKey
,  @calculatedFrom( """ ++ [28040; 24687]%N ++ runes_of_ascii """ )uint16//
rootA
, f64 msg_type
// `tick` ""quote"" 'q'
// @lengthOf(
, } packet int {
    @lengthOf( A ) repeat Foo // c
{ uint32	crc// 50% %s
@calculatedFrom( ""\n"" ), }
,	}  options {Z9_ =
'\x00'
; Pad  = '\x00'
    ; options1  ='\x00'
    //x
    ;matchKey =
3
asx
    = ""// no comment""	}
")).
Eval vm_compute in ("<<<M4064>>>" ++ check (runes_of_ascii "root packet asx {
    @tag(3)
    int8 metadata `" ++ [233]%N ++ runes_of_ascii "`,
    //x
    repeat char[] Z9_,
    @rightPad('\x00')
    @lengthOf(Header)
    @lengthOf(crc)
    MetaDataX {
        u64 u128,
    },//
    int16 leftPad,
    @tag(10)
    @tag(4294967296)
    @leftPad(' ')
    repeat u16 repeatCount `100% of %d`,
    @rightPad()
    @tag(0)
    match crc as chars {
        0123456789 : BodyLength,
        """ ++ [128512]%N ++ runes_of_ascii """ : Logon,
        [10, 255] : MetaDataX,
        0123456789 : Packet,
        ""// no comment"" : T,
        65535 : charz,
    },
    match falsey as u128 {
        [""" ++ [28040; 24687]%N ++ runes_of_ascii """, ""// no comment""] : leftPad,
        [65535] : asx,
        10 : u,
        ""{,}"" : _x,
    },
    // @lengthOf(
    // trailing space 
    match As as MetaDataX {
        0123456789 : a1,
        [65535, ""abc""] : tag,
        // `tick` ""quote"" 'q'
        [
            """ ++ [233]%N ++ runes_of_ascii "t" ++ [233]%N ++ runes_of_ascii """, ""`tick`"", ""\" ++ [233]%N ++ runes_of_ascii """, ""abc"", ""\" ++ [233]%N ++ runes_of_ascii """,
            ""packet"", ""packet""
        ] : o,
        00 : crc,
    },
}

packet chars {
    @calculatedFrom(""x y"")
    char[255] crc `100% of %d`,
    @tag(65535)
    f64 BodyLength @calculatedFrom(""CRC32""),
}")).
Eval vm_compute in ("<<<M1274>>>" ++ check (runes_of_ascii "options
{ A = f64
; Z9_='\x00'
// packet A { u8 x, }
//
Packet	=""{,}""; Header = ' ' ;
rootA= i32
    } packet Logon { }root packet x {
    @lengthOf( Packet
) @rightPad // c
( '\x00'
)@leftPad ( ' ' )// trailing space 
repeat zchar[ 7 ]Pad `a\`
,
f32a  charz,
    //	t
    zchar[  65535
    ] x @calculatedFrom( ""\n"") , // trailing space 
zchar@lengthOf(
x_y_z )
    //
    `` ,
}packet x_y_z
{
int64	len ``//	t
, @calculatedFrom( ""`tick`""	) string
lengthOf `crlf
line`// 50% %s
, @rightPad(
    ) match
msg_type as
BodyLength { [
""// no comment""// @lengthOf(
]: tag// " ++ [27880; 37322]%N ++ runes_of_ascii "
,
} ,
//	t
//
@tag( // " ++ [27880; 37322]%N ++ runes_of_ascii "
10 ) zchar[
42 ] Z9_ ,zchar[
65535 ]matchKey @calculatedFrom(
""\" ++ [233]%N ++ runes_of_ascii """ ) `a\` , @lengthOf(tag
//x
// " ++ [128512]%N ++ runes_of_ascii " emoji
)
    // " ++ [128512]%N ++ runes_of_ascii " emoji
    float `// not a comment`	,
@leftPad
    // packet A { u8 x, }
    ( ' ' ) @tag(00) @tag(
007
) repeat char[]
    asx
`line1
line2`
    // 50% %s
    , @lengthOf(
rootA ) repeat repeatCount As ,
    }
    packet zchar{ @lengthOf(
    As ) repeat
i16 calculatedFrom ,@tag(1  )  uint16 len ,	}
")).
Eval vm_compute in ("<<<M4002>>>" ++ check (runes_of_ascii "options {
    u = int32
    packetx = ""`tick`"";
    matchKey = '0'
    As = 3;
    Packet = true;
}

root packet tag {
    // @lengthOf(
    u64 stringy,
    repeat options1 {
        zchar[4294967296] f32a ``,
        match tag as options1 {
            10 : A,
            007 : Pad,
            0123456789 : calculatedFrom,
            7 : stringy,
            [""a\""b"", 0123456789] : options1,
            3 : u8x,
            // packet A { u8 x, }
        },
    },
}

packet len {
    @calculatedFrom(""" ++ [233]%N ++ runes_of_ascii "t" ++ [233]%N ++ runes_of_ascii """)
    i8 repeatCount @lengthOf(roots),
    int32 i64_ @calculatedFrom(""`tick`""),
    @rightPad(' ')
    repeat char[] u8x,
    @rightPad('\x00')
    leftPad {
        match lengthOf as charz {
            ""1"" : tag,
            ""// no comment"" : x,
            [""" ++ [233]%N ++ runes_of_ascii "t" ++ [233]%N ++ runes_of_ascii """, ""CRC32""] : pack,
            3 : charz,
        },
    },
}

options {
}

MetaData matchKey {
    uint64 repeatCount,
    roots x_y_z `say ""hi""`,
    roots As,
    A crc,
    uint64 f32a,
}")).
Eval vm_compute in ("<<<M1371>>>" ++ check (runes_of_ascii "packet crc {int8  msg_type  @lengthOf( BodyLength ) `" ++ [28040; 24687; 31867; 22411]%N ++ runes_of_ascii "` ,
// " ++ [128512]%N ++ runes_of_ascii " emoji
//x
} options { T
=i8 matchKey=
""" ++ [128512]%N ++ runes_of_ascii """ roots=
    ' ' ;
} packet
Header { @calculatedFrom( ""x y"" // trailing space 
)@tag(
    0123456789 //	t
)// 50% %s
float32 matchKey`crlf
line`	,  string
    body , repeat o
crc , match matchKey as x { [ 42
    ]:charz, [""a	b"", """ ++ [233]%N ++ runes_of_ascii "t" ++ [233]%N ++ runes_of_ascii """ ,0 , 7 , 00 ,65535, ""packet"" ]: x_y_z  ,
    4294967296 :
// @lengthOf(
// 50% %s
_x ,7  : msg_type//x
, 007 :
Pad , }
, } packet x { repeat
string Logon`
`
, @tag( 007) f64 repeatCount@lengthOf(
uint8x ), Z9_{ repeat leftPad A,} , @leftPad( )
_x Pad ,
@tag( 00// @lengthOf(
)
    match asx
    as len { ""a\""b"" : lengthOf //	t
, } , uint8x `crlf
line`
,
    zchar[ 7
    ] Pad // `tick` ""quote"" 'q'
, @rightPad
('0' ) string packetx
// " ++ [128512]%N ++ runes_of_ascii " emoji
// " ++ [128512]%N ++ runes_of_ascii " emoji
@calculatedFrom(
    ""it's"" )
`tab	here`, repeat stringy { zchar[
1	]	crc
    `" ++ [28040; 24687; 31867; 22411]%N ++ runes_of_ascii "` ,
o _x
    `line1
line2`, } ,}")).
Eval vm_compute in ("<<<M4227>>>" ++ check (runes_of_ascii "packet  int	{ @tag(
    4294967296

    )
string// trailing space 
    	int	,

match
string_  
      //
    // 50% %s
  as
	matchKey  {
""it's""
	: 
uint8x 10
	:

    u128 , 
  // 50% %s
	007  :

lengthOf 
,
} ,  
  // packet A { u8 x, }
  @calculatedFrom( ""{,}""
)	int64 stringy
@calculatedFrom(""CRC32"" )	,
	f64 
f32a, 
u

    @lengthOf(
lengthOf	)

`u8 x,`,// " ++ [128512]%N ++ runes_of_ascii " emoji
	match Packet
    as rootA 

// @lengthOf(
      // " ++ [128512]%N ++ runes_of_ascii " emoji
    { 42 :	stringy 
  // c
  ,

} 
, trueish 
,
	@calculatedFrom(
""x y"" ) @tag(
42
)char[  255
] 
x	@lengthOf( int ) , } packet

    T
{
match
float

as
o 
{""a\""b""

: T
    , 
	    // trailing space 
// trailing space 
	65535
    :	roots ,
    } , 
} 
packet  pack	{// trailing space 
	  @leftPad (
	'\x00'
    ) 	 // 50% %s
  	@calculatedFrom( 	 //

""" ++ [233]%N ++ runes_of_ascii "t" ++ [233]%N ++ runes_of_ascii """

)
string As// a // b
	@calculatedFrom(

    ""CRC32"" 
)
	,} ")).
Eval vm_compute in ("<<<M3794>>>" ++ check (runes_of_ascii "

  // top
  options 
        // c0
  {
	    // c1
    } 
	    // c2
	root
// c3
  packet
    // c4
u

// c5
    { 
	    // c6
	@rightPad
    // c7
( 

// c8
    )

    // c9
	@tag( 
        // c10
  42 
        // c11
	)
        // c12

@calculatedFrom(

    // c13
"""" 
    // c14
    ) 
	// c15
  repeat  
      // c16
u8
    // c17
	msg_type 

    // c18
, 
// c19
      @lengthOf( 
        // c20
stringy  
      // c21
	)  
  // c22
  @leftPad 
	    // c23
	  ( 
    // c24
	'\x00'

// c25
)
        // c26
	  @tag( 
    // c27
    4294967296
        // c28
    ) 

    // c29

A 
	// c30
    `crlf
line`

    // c31

  , 
    // c32
  	zchar[ 
    // c33
  1

    // c34
	] 
        // c35
      asx
    // c36
	`" ++ [233]%N ++ runes_of_ascii "` 

    // c37
  	,
	// c38
  	charz
// c39
	,
	// c40
		}  
      // c41
")).
Eval vm_compute in ("<<<M3751>>>" ++ check (runes_of_ascii "
packet
body 
{char[
    3 ]
	u ,
zchar[007 ]

lengthOf
@lengthOf( 	 // a // b
  rootA)
, 
@leftPad
(
	'0' )

    x { match	packetx

as

packetx

    {
[ 10]  :repeatCount
	,

    // a // b
// packet A { u8 x, }
[	// c
		""1""
    ,  ""a\\""
    ]

    :
	rootA
    ,
	}

,	}
    ,
    Logon

    {
trueish {  repeatCount i64_ 
`tab	here` 
, i64_{repeat
        //x
    // 50% %s
  Logon
    asx

, 
}

    , //	t
    u64
    chars `say ""hi""`
,	// trailing space 
int64  trueish 
,}
,

_x Foo
,
repeat uint64 int

`doc`
	, int64 chars ,
},repeat	char[	0 	 // packet A { u8 x, }

] Foo ,
match 
trueish

    as
_x {007

    : // @lengthOf(
  falsey  , // `tick` ""quote"" 'q'

  255// " ++ [27880; 37322]%N ++ runes_of_ascii "

  : u
	,

1 :

msg_type
	, 10

    :  Packet	,

},  repeat

Z9_ `100% of %d`	, }
")).
Eval vm_compute in ("<<<M44>>>" ++ check (runes_of_ascii "//x
options{
x= ""1"" x= ""x y""
    //
    ; calculatedFrom= ""a	b"" calculatedFrom = zchar[
// c
// c
00 ] ;// `tick` ""quote"" 'q'
_x =false ;
    } packet Logon // 50% %s
{
    } packet
x_y_z { match
    f32a as repeatCount { 10// 50% %s
: zchar , } ,char[] options1`u8 x,`
    ,} packet options1
{@calculatedFrom( ""it's""  )@calculatedFrom(""packet"") // " ++ [128512]%N ++ runes_of_ascii " emoji
repeat string repeatCount ``
,char[] msg_type ,
i16 Z9_ @calculatedFrom( ""\n"" // 50% %s
)	, @leftPad (' ') repeat
BodyLength calculatedFrom
,
char[
    4294967296
    ] u128 , u128 repeatCount`
`, @lengthOf(rootA )int64 Pad
    @calculatedFrom( ""x y""
// " ++ [128512]%N ++ runes_of_ascii " emoji
// 50% %s
), @lengthOf(
int)repeat As ,stringy
`u8 x,` ,
    @leftPad( '0' )uint32 // @lengthOf(
A
,
}root packet string_ // " ++ [27880; 37322]%N ++ runes_of_ascii "
{ }")).
Eval vm_compute in ("<<<M1367>>>" ++ check (runes_of_ascii "root
packet tag { T{
//	t
//
zchar[
4294967296
]calculatedFrom , repeat// trailing space 
charz{ repeat  i64_ stringy
    ,falsey , } ,
}
, @tag( 65535)@lengthOf(options1 ) repeat
string packetx
`say ""hi""` , match
Header // c
as
    charz {	65535:
pack
, } , i32 trueish @calculatedFrom( ""it's""	)
    `u8 x,` ,
    // c
    @calculatedFrom(
    ""x y"")	string len @lengthOf(
    metadata ) ,zchar[ 255
]  i64_
// " ++ [27880; 37322]%N ++ runes_of_ascii "
//	t
@lengthOf(	A ) , @lengthOf(float ) pack @calculatedFrom("""") ,
    rootA{repeat
    i64 As // a // b
, u8	Foo, char[
// 50% %s
// trailing space 
00 ]trueish `` , match	string_ as
calculatedFrom
{ 255 : //	t
T // " ++ [27880; 37322]%N ++ runes_of_ascii "
,}	,
}
,  repeat // `tick` ""quote"" 'q'
len
`doc`, char[ /// triple
3 ] pack`a\`//	t
, }")).
Eval vm_compute in ("<<<M493>>>" ++ check (runes_of_ascii "options {
roots= true
;/// triple
MetaDataX =3 ;
    trueish	= 10
    //	t
    } packet o  { @calculatedFrom(
""" ++ [233]%N ++ runes_of_ascii "t" ++ [233]%N ++ runes_of_ascii """ ) match calculatedFrom as Foo { 1
: leftPad
,7 :
    Foo[	""" ++ [233]%N ++ runes_of_ascii "t" ++ [233]%N ++ runes_of_ascii """ ] :roots //	t
,
}
    , @calculatedFrom( ""\n""	) @tag( 7	)	@tag( 0123456789) match Header as asx { 10 //	t
:
    pack//
,42 :
// trailing space 
// c
asx, [ 0 ]
    :
leftPad , ""CRC32"" :	stringy
, }	, @tag( 0 )
u128@lengthOf(
    calculatedFrom) `" ++ [28040; 24687; 31867; 22411]%N ++ runes_of_ascii "`,zchar[ // `tick` ""quote"" 'q'
42 ] i64_ // a // b
@lengthOf(	u128 )
    `line1
line2`
    ,} root packet x_y_z
    {
repeat
    zchar[255
    ]
leftPad ,BodyLength
, @calculatedFrom( ""x y"") int8 /// triple
o @calculatedFrom( // @lengthOf(
""\" ++ [233]%N ++ runes_of_ascii """ )
,} // " ++ [27880; 37322]%N)).
Eval vm_compute in ("<<<M3427>>>" ++ check (runes_of_ascii "packet MDSnapshotZZ // c1a
  // c1b
{ // c2
u8 // c3
a // c4a
  // c4b
, // c5a
  // c5b
} // c6
packet
    // c7
OrderACK
    // c8
{
    // c9
u16 b // c11a
  // c11b
, // c12
} packet // c14
HTTPServerInfo { string // c17a
  // c17b
s // c18
, // c19
} // c20a
  // c20b
root packet // c22
FIXMsg // c23
{ // c24a
  // c24b
u8 // c25
KType // c26a
  // c26b
, // c27
MDSnapshotZZ , repeat // c30a
  // c30b
OrderACK // c31a
  // c31b
, // c32a
  // c32b
match
    // c33
KType // c34a
  // c34b
as
    // c35
Body // c36a
  // c36b
{ 1
    // c38
: // c39
HTTPServerInfo // c40
, // c41
2
    // c42
: // c43
OrderACK // c44
,
    // c45
} , } // c48a
  // c48b
")).
Eval vm_compute in ("<<<M341>>>" ++ check (runes_of_ascii "packet  repeatCount{
repeat uint16 msg_type ,match// c
u128 as // `tick` ""quote"" 'q'
MetaDataX {// c
[ 007
,	""// no comment""
    ] :
//x
// " ++ [27880; 37322]%N ++ runes_of_ascii "
string_,0
:
    // packet A { u8 x, }
    int , [42 ,
    ""`tick`"" ,
0123456789 , ""\" ++ [233]%N ++ runes_of_ascii """
,	""1""	,
""packet"" ,
// 50% %s
// c
255 ,
""{,}"" ] : crc // " ++ [27880; 37322]%N ++ runes_of_ascii "
,
0123456789 : rootA
    // packet A { u8 x, }
    [ ""\n""
    ] :  charz ,
    [ ""packet"" ,10 ]
:T
, }
    , } // trailing space 
packet options1 { @calculatedFrom(""\" ++ [233]%N ++ runes_of_ascii """
) char[]o
`doc`
, }
    packet repeatCount { char[
    255 ] metadata @calculatedFrom( ""`tick`"")	,
f32a {	u128 packetx , MetaDataX msg_type	,char[ 65535 ] falsey`
` ,
    }
    ,
}")).
Eval vm_compute in ("<<<M503>>>" ++ check (runes_of_ascii "MetaData	x_y_z
{
    // " ++ [128512]%N ++ runes_of_ascii " emoji
    char[
1 ]Pad , } packet
_x{ o,//
repeat int8 // c
MetaDataX , zchar[ 42 ] Z9_
    ,	@leftPad ( '\x00')uint64 string_ `tab	here` ,
    int16 T , @lengthOf( matchKey )char crc // trailing space 
@lengthOf(  asx ) , @rightPad ( // 50% %s
'0') x_y_z`line1
line2` ,
    } options{ roots= char[	4294967296
]; } packet// a // b
string_ { packetx@lengthOf(
_x
) ,
repeatCount
@calculatedFrom( ""a	b""
) ,
// 50% %s
// @lengthOf(
match Header as pack
    {""it's"" : zchar// @lengthOf(
, }	, @lengthOf(
trueish
) @rightPad	( ) @lengthOf(Z9_ )
u8 trueish
//x
// c
, }MetaData T { }
// " ++ [27880; 37322]%N ++ runes_of_ascii "
")).
Eval vm_compute in ("<<<M1303>>>" ++ check (runes_of_ascii "root
    //x
    packet matchKey {
    @tag(	00
    )
    // a // b
    int
    @calculatedFrom(""" ++ [128512]%N ++ runes_of_ascii """ ),  rootA // @lengthOf(
A , @lengthOf( MetaDataX	) match chars // trailing space 
as // packet A { u8 x, }
Pad /// triple
{
// @lengthOf(
// @lengthOf(
0 :msg_type , """": u}, } root
    //x
    packet u8x  {
int64 calculatedFrom
// @lengthOf(
/// triple
@lengthOf( Packet
) ,	@calculatedFrom( ""\n""// c
)	a1
// `tick` ""quote"" 'q'
//x
lengthOf, } options { roots
// trailing space 
//
=""CRC32"" //	t
;  Packet=char[ 0123456789 ]; float = u32
    ; Packet = '0' // " ++ [128512]%N ++ runes_of_ascii " emoji
; metadata = true;
    }
")).
Eval vm_compute in ("<<<M292>>>" ++ check (runes_of_ascii "packet // " ++ [128512]%N ++ runes_of_ascii " emoji
a1 {
@rightPad (
    //	t
    '\x00' )repeat string
x `" ++ [28040; 24687; 31867; 22411]%N ++ runes_of_ascii "` // a // b
,
    }packet i8i8 {zchar[  42 ] matchKey @calculatedFrom(""CRC32"")`it's` ,_x
    @calculatedFrom( ""x y""	),float32 Logon @lengthOf( matchKey
    ) , }
MetaData Foo { //x
Foo
T, }root packet pack	{ //
@calculatedFrom( ""1"" )Foo `" ++ [28040; 24687; 31867; 22411]%N ++ runes_of_ascii "`,
    @tag( //
00)u64 trueish ,repeat leftPad float `say ""hi""`
, i64 u @calculatedFrom( """" ) , }	MetaData o {
char[]i64_ ,body
    BodyLength
    `" ++ [233]%N ++ runes_of_ascii "`	,
string
Pad
`100% of %d`
    , calculatedFrom BodyLength`say ""hi""` , zchar[10 ] x , i64 falsey, }
")).
Eval vm_compute in ("<<<M225>>>" ++ check (runes_of_ascii "
options
    // @lengthOf(
    { } options {  } packet asx {@calculatedFrom(""a\\"") repeat int32
len	, @calculatedFrom( ""{,}"" ) @lengthOf( zchar
    // @lengthOf(
    ) match repeatCount	as f32a {
    0123456789
: msg_type, // " ++ [27880; 37322]%N ++ runes_of_ascii "
4294967296 : pack  , }	, @tag(
    65535
    //x
    )falsey metadata ,match msg_type as pack
    {[0 ,
    7
    ] :
    f32a,
    // 50% %s
    },
match Foo as Foo
// 50% %s
// a // b
{
4294967296:options1 , } , }
packet uint8x	{@rightPad( '0' )
string A @lengthOf( leftPad)/// triple
`
` , } packet
    rootA {  }
")).
Eval vm_compute in ("<<<M333>>>" ++ check (runes_of_ascii "  root packet leftPad
    // a // b
    { uint8x
    @lengthOf(
MetaDataX	) ,repeat // packet A { u8 x, }
A ,  @tag(
    00	)	match Pad
    // a // b
    as roots { 10  : x_y_z ,  00 :
    /// triple
    len [ ""// no comment"" ] :T }, a1 Header `say ""hi""` , @rightPad(
    '\x00'
) char[]
int @calculatedFrom(  """") ,
// c
// c
calculatedFrom {BodyLength{roots@lengthOf( packetx // @lengthOf(
),
repeat string tag // " ++ [27880; 37322]%N ++ runes_of_ascii "
,} ,options1 @lengthOf( Packet ) // `tick` ""quote"" 'q'
, MetaDataX
@calculatedFrom( ""a	b"") ,} ,
} //")).
Eval vm_compute in ("<<<M287>>>" ++ check (runes_of_ascii "// " ++ [128512]%N ++ runes_of_ascii " emoji
MetaData
len// " ++ [27880; 37322]%N ++ runes_of_ascii "
{ chars len  ,u128 trueish`
`
// trailing space 
//	t
,
    // packet A { u8 x, }
    int8 pack //x
, zchar[ 00 ]
    // c
    repeatCount
    `it's`
, zchar[ 42
]calculatedFrom /// triple
,lengthOf Pad , }MetaData lengthOf {
//	t
// @lengthOf(
x_y_z
//	t
//	t
asx ,}packet x_y_z { repeat uint16 x_y_z
    , @tag( 1
// a // b
// @lengthOf(
) match u128 as // `tick` ""quote"" 'q'
rootA { 3
    : tag
    , ""\n"":
    // " ++ [128512]%N ++ runes_of_ascii " emoji
    pack , [ """ ++ [233]%N ++ runes_of_ascii "t" ++ [233]%N ++ runes_of_ascii """, //
7 ] :
    T , } , }")).
Eval vm_compute in ("<<<M3856>>>" ++ check (runes_of_ascii "packet tag {
    uint64 _x,
    @lengthOf(rootA)
    int32 calculatedFrom,
    /// triple
    /// triple
    uint32 Packet `say ""hi""`,
    @tag(255)
    len @lengthOf(Foo),
    BodyLength,
    zchar[42] packetx @lengthOf(a1),
    i16 packetx,
    @leftPad(' ')
    // @lengthOf(
    matchKey {
        zchar[007] pack,
        i32 chars,
        //
        Packet {
            repeat uint16 options1 `100% of %d`,
        },
        /// triple
        repeat msg_type,
    },
}")).
Eval vm_compute in ("<<<M369>>>" ++ check (runes_of_ascii "
root packet repeatCount
    {} options { //
zchar = // a // b
false	; // " ++ [128512]%N ++ runes_of_ascii " emoji
crc  =	""// no comment""; leftPad
= '\x00'; } packet pack
{	repeat BodyLength //x
{ T
@lengthOf( Foo
), } ,Z9_
    matchKey ,match
    x_y_z as Foo	{[""" ++ [128512]%N ++ runes_of_ascii """
    ] :// " ++ [27880; 37322]%N ++ runes_of_ascii "
u
    ,
    // packet A { u8 x, }
    """ ++ [233]%N ++ runes_of_ascii "t" ++ [233]%N ++ runes_of_ascii """:
tag , [ ""\n"" ] : body ,  } ,char[] metadata // trailing space 
`u8 x,` ,
match
    pack as trueish //x
{	"""" : Z9_ // 50% %s
, ""\" ++ [233]%N ++ runes_of_ascii """ :As
    // c
    }
    , }
")).
Eval vm_compute in ("<<<M4078>>>" ++ check (runes_of_ascii "packet u8x {
    pack @calculatedFrom(""a	b""),
}

packet u {
    calculatedFrom @calculatedFrom(""\" ++ [233]%N ++ runes_of_ascii """) `say ""hi""`,
    trueish @lengthOf(calculatedFrom),
    u8 trueish ``,
    zchar[0123456789] int @calculatedFrom(""packet""),
    @leftPad('0')
    // trailing space 
    /// triple
    @tag(007)
    match matchKey as _x {
        ""packet"" : Header,
    },
    char[] asx @lengthOf(f32a),
    options1 @lengthOf(matchKey) `a\`,
}// " ++ [128512]%N ++ runes_of_ascii " emoji")).
Eval vm_compute in ("<<<M926>>>" ++ check (runes_of_ascii "packet uint8x{ @tag(7 ) @lengthOf( asx
)
    @tag( 0) zchar[ 65535
    // trailing space 
    ]
    // trailing space 
    f32a `line1
line2`
, string_
    , @tag( 0
) @calculatedFrom( ""a	b""
    /// triple
    ) @tag( 007 )
match
crc as // @lengthOf(
stringy
    {""`tick`"" :
As ""CRC32"":	metadata ,[// `tick` ""quote"" 'q'
""`tick`""]
:	stringy,
[ ""\" ++ [233]%N ++ runes_of_ascii """ ] : x""" ++ [233]%N ++ runes_of_ascii "t" ++ [233]%N ++ runes_of_ascii """ :roots ,
},
char[] trueish@lengthOf(Header ) ``	,
}

")).
Eval vm_compute in ("<<<M1261>>>" ++ check (runes_of_ascii "packet string_
    { @lengthOf( metadata ) zchar[ 0123456789 ] A
// @lengthOf(
// `tick` ""quote"" 'q'
, rootA zchar// packet A { u8 x, }
, u32 A
    /// triple
    @calculatedFrom(	""abc"" )
,	@calculatedFrom(""" ++ [28040; 24687]%N ++ runes_of_ascii """ )
    match chars as body // a // b
{ ""// no comment""
:
float, 1 :
    stringy
, [ 1
, 42	]
    :roots
    , """ ++ [28040; 24687]%N ++ runes_of_ascii """ :
    a1, ""packet"" : repeatCount ,7
    :
    int , } // packet A { u8 x, }
,}
")).
Eval vm_compute in ("<<<M4409>>>" ++ check (runes_of_ascii "options {
    LittleEndian = true;
    StringPrefixLenType = u16;
    ArrayPrefixLenType = u64;
    FixedStringPadFromLeft = true;
    FixedStringPadChar = ' ';
}

packet Reject {
    zchar[3] OrderId,
    int16 Flags,
    @leftPad(' ')
    char[11] x,
    u16 tag7,
}

packet Quote {
    Reject,
    char[] Qty,
    repeat f32 f1,
    zchar[5] Flags,
}

root packet Leg {
    i32 Px,
}")).
Eval vm_compute in ("<<<M3789>>>" ++ check (runes_of_ascii "packet uint8x {
    @tag(7)
    @lengthOf(asx)
    @tag(0)
    zchar[65535] f32a `line1
    line2`,
    string_,
    @tag(0)
    @calculatedFrom(""a	b"")
    @tag(007)
    match crc as stringy {
        ""`tick`"" : As,
        ""CRC32"" : metadata,
        [""`tick`""] : stringy,
        [""\" ++ [233]%N ++ runes_of_ascii """] : x,
        """ ++ [233]%N ++ runes_of_ascii "t" ++ [233]%N ++ runes_of_ascii """ : roots,
    },
    char[] trueish @lengthOf(Header) ``,
}")).
Eval vm_compute in ("<<<M3521>>>" ++ check (runes_of_ascii "
root 
packet  u8x
    {pack  @calculatedFrom( 
""it's""  ),

}	options {}	packet	// a // b
	trueish {repeat
f32
charz  , 
        //x
  // " ++ [128512]%N ++ runes_of_ascii " emoji
@rightPad  // packet A { u8 x, }
( '\x00'
) A

    {uint8x
@lengthOf(
	lengthOf	)  , } ,
    int

    {

    uint8 falsey
	,}  , 
@lengthOf( Z9_ )
    repeat uint8

    u
    ,

} 
// 50% %s
")).
Eval vm_compute in ("<<<M3465>>>" ++ check (runes_of_ascii "  options {

    LittleEndian=  true	;
	FixedStringPadChar=
    '0' ;
	} packet Heartbeat { zchar[5] sym
, 
repeat char[	3
    ]

    OrderId, }

root
    packet

    Quote  {

u64

    lastPx
, repeat	u8

venue,	Heartbeat 
,InSym1	{

    char[	3

    ]

    Acct, char[]
	lastPx
,  Heartbeat	, 
repeat string
x	,} ,}
")).
Eval vm_compute in ("<<<M4134>>>" ++ check (runes_of_ascii "
packet

    Header
{  }
	root 
// " ++ [27880; 37322]%N ++ runes_of_ascii "
	/// triple
packet BodyLength
{As {a1
	{

    char[	65535]
crc	`two words` , msg_type ,

} 
,},

    repeat Z9_ /// triple

{
T

    ,  pack 
,
repeat tag  // " ++ [27880; 37322]%N ++ runes_of_ascii "
    A
    ,int64	// `tick` ""quote"" 'q'
  f32a `u8 x,` ,}
	,
}packet
    packetx	// a // b
    {
} 

/// triple")).
Eval vm_compute in ("<<<M1375>>>" ++ check (runes_of_ascii "MetaData // " ++ [128512]%N ++ runes_of_ascii " emoji
o { }
    packet string_ {
@lengthOf(
f32a ) @lengthOf( zchar )tag
{T roots `" ++ [28040; 24687; 31867; 22411]%N ++ runes_of_ascii "`
    // " ++ [128512]%N ++ runes_of_ascii " emoji
    ,
tag
    packetx  `{ , }` ,
    } , repeat string int ,@calculatedFrom( ""a\""b"" ) @leftPad(
    '0'
    )	u64 string_ `a\` , } packet  charz
    {
    uint32	options1
`100% of %d` , }
")).
Eval vm_compute in ("<<<M659>>>" ++ check (runes_of_ascii "packet
Z9_	{ char[] msg_type ,
int
    chars `{ , }` , @leftPad() match options1 as
A { // `tick` ""quote"" 'q'
""it's"" : len,[ """"	] : T ,  [
00	] : calculatedFrom , 1
:MetaDataX,
    //
    4294967296 : // a // b
u
,
} ,
repeat uint32 rootA
    , f32
    f32a `tab	here` , int
    //x
    ,}
")).
Eval vm_compute in ("<<<M3241>>>" ++ check (runes_of_ascii "// top
MetaData
    // c0
Foo
    // c1
{
    // c2
zchar[
    // c3
0
    // c4
]
    // c5
matchKey
    // c6
,
    // c7
}
    // c8
options
    // c9
{
    // c10
lengthOf
    // c11
=
    // c12
i32
    // c13
u
    // c14
=
    // c15
00
    // c16
;
    // c17
}
    // c18
")).
Eval vm_compute in ("<<<M828>>>" ++ check (runes_of_ascii "packet u
{
    @lengthOf( f32a
// @lengthOf(
//x
) match lengthOf as tag
{00 : As	, } //
,msg_type `" ++ [28040; 24687; 31867; 22411]%N ++ runes_of_ascii "`, @rightPad(  '0' )	uint8x `it's`
    , @lengthOf( stringy) options1	{	BodyLength@calculatedFrom("""" )
    , BodyLength
int`u8 x,`,
zchar[
    3]
    As `a\` , } , }")).
Eval vm_compute in ("<<<M1652>>>" ++ check (runes_of_ascii "// 50% %s
packet	a1
    { zchar[
// a // b
// 50% %s
007]
T `it's`
    ,@rightPad
    // a // b
    (
'\x00')
    o repeatCount , }  packet Logon {  }packet	Logon //x
{ repeat // " ++ [128512]%N ++ runes_of_ascii " emoji
uint16 u128
    //
    `a\` `a\`,
falsey
@calculatedFrom(""packet"" ) ,
    } 	 ")).
Eval vm_compute in ("<<<M1612>>>" ++ check (runes_of_ascii "// 50% %s
packet	a1
    { zchar[
// a // b
// 50% %s
007]
T `it's`
    ,@rightPad
    // a // b
    (
'\x00')
    o repeatCount , }  packet Logon { {  }packet	Logon //x
{ repeat // " ++ [128512]%N ++ runes_of_ascii " emoji
uint16 u128
    //
    `a\`,
falsey
@calculatedFrom(""packet"" ) ,
    } 	 ")).
Eval vm_compute in ("<<<M1548>>>" ++ check (runes_of_ascii "// 50% %s
packet	a1
    { zchar[
// a // b
// 50% %s
007]
`it's` T
    ,@rightPad
    // a // b
    (
'\x00')
    o repeatCount , }  packet Logon {  }packet	Logon //x
{ repeat // " ++ [128512]%N ++ runes_of_ascii " emoji
uint16 u128
    //
    `a\`,
falsey
@calculatedFrom(""packet"" ) ,
    } 	 ")).
Eval vm_compute in ("<<<M472>>>" ++ check (runes_of_ascii "packet x_y_z  {@lengthOf( leftPad)
float {	int32 Header , matchKey asx
,
    // " ++ [27880; 37322]%N ++ runes_of_ascii "
    match metadata as pack
    {""\" ++ [233]%N ++ runes_of_ascii """: packetx, ""CRC32"":	Packet  , 255
// " ++ [27880; 37322]%N ++ runes_of_ascii "
/// triple
:f32a""// no comment""
    :	len ""// no comment"" // " ++ [27880; 37322]%N ++ runes_of_ascii "
:	float, 007 :
Header , } ,} ,
    }
")).
Eval vm_compute in ("<<<M272>>>" ++ check (runes_of_ascii "  packet	i64_ {
_x
i64_ `// not a comment` , @rightPad	(
)
@calculatedFrom( ""`tick`"" // packet A { u8 x, }
)match _x as  Logon { [ ""a	b"" ]	: metadata , 1 :
o 00 :float	,},	@tag( 1
    ) @lengthOf(matchKey ) zchar[ 255 ]	options1`tab	here` , } // @lengthOf(")).
Eval vm_compute in ("<<<M3563>>>" ++ check (runes_of_ascii "root packet BodyLength {
    @tag(65535)
    zchar[7] msg_type,
    MetaDataX @calculatedFrom(""// no comment""),
    // packet A { u8 x, }
    // c
}

root packet stringy {
    @tag(00)
    repeat pack leftPad `tab	here`,
    repeat body,
}

MetaData a1 {
}")).
Eval vm_compute in ("<<<M4008>>>" ++ check (runes_of_ascii "root packet len {
    repeat zchar[4294967296] f32a,//
    x_y_z @lengthOf(trueish) `two words`,
    //
    @rightPad()
    @calculatedFrom(""\" ++ [233]%N ++ runes_of_ascii """)
    string chars `say ""hi""`,
    @rightPad(' ')
    uint8 options1 @calculatedFrom(""1"") `say ""hi""`,
}")).
Eval vm_compute in ("<<<M1399>>>" ++ check (runes_of_ascii "packet  _x { @lengthOf( len )
    @lengthOf( A
)@lengthOf( //x
Header	)
    // packet A { u8 x, }
    crc rootA
    `two words` , } MetaData
body
    { zchar Logon ,  pack As	,
string _x `" ++ [28040; 24687; 31867; 22411]%N ++ runes_of_ascii "` //x
, i64 u  , char[] charz `say ""hi""`	,}")).
Eval vm_compute in ("<<<M818>>>" ++ check (runes_of_ascii "
packet
    zchar { Logon a1 ,	u128
`
` , @lengthOf( charz ) i64 u8x
    @lengthOf(
    msg_type
    ) `// not a comment`  ,
repeat roots a1
, asx msg_type`crlf
line`
,@tag(42 )
    /// triple
    u64 metadata `{ , }`  , }")).
Eval vm_compute in ("<<<M4114>>>" ++ check (runes_of_ascii "MetaData Header {
    // trailing space 
    char[3] Logon,
    falsey options1,
    char[] f32a,
    // `tick` ""quote"" 'q'
    // " ++ [27880; 37322]%N ++ runes_of_ascii "
    chars Z9_,
    int16 zchar `
        `,
}

MetaData i64_ {
}

// " ++ [27880; 37322]%N ++ runes_of_ascii "
packet _x {
}")).
Eval vm_compute in ("<<<M972>>>" ++ check (runes_of_ascii "
packet f32a {
    @lengthOf( Header// trailing space 
)
packetx zchar `two words` // `tick` ""quote"" 'q'
, @lengthOf( string_
    ) char[]
//
// a // b
_x `{ , }`,
    repeatCount trueish
    `crlf
line` ,}")).
Eval vm_compute in ("<<<M4098>>>" ++ check (runes_of_ascii "options
{FixedStringPadChar  = 
'0';
	}

packet	Q
{  zchar[
	4 ]  z  ,
@rightPad (  '\x00'
)
	char[ 
3
]
	n  , char[5

    ]d, 
} root
packet
R {Q
    , zchar[8
] 
top,
repeat zchar[2] zs 
, }
")).
Eval vm_compute in ("<<<M4137>>>" ++ check (runes_of_ascii "
// a // b

  packet 
    // @lengthOf(
    matchKey {

    repeat  Z9_
    {
a1 	 //
@calculatedFrom( """ ++ [28040; 24687]%N ++ runes_of_ascii """
	/// triple

  /// triple

	)
    , 
} ,	}	root 
packet
    T{ 	 //
    	}

")).
Eval vm_compute in ("<<<M541>>>" ++ check (runes_of_ascii "MetaData
    a1
// @lengthOf(
// " ++ [27880; 37322]%N ++ runes_of_ascii "
{ int32 i64_ // " ++ [128512]%N ++ runes_of_ascii " emoji
,
char[] trueish `doc`
    , char[] lengthOf
`100% of %d` , // 50% %s
int8 Header , char[] chars, } // trailing space ")).
Eval vm_compute in ("<<<M3927>>>" ++ check (runes_of_ascii "packet x_y_z {
}

MetaData Logon {
    pack chars `" ++ [233]%N ++ runes_of_ascii "`,
}

options {
    len = 00
}

root packet len {
    char[7] asx,
}

MetaData MetaDataX {
    char Foo `100% of %d`,
}")).
Eval vm_compute in ("<<<M1369>>>" ++ check (runes_of_ascii "
root packet	u128 {repeat// 50% %s
metadata , } packet
trueish { zchar[ 0123456789 ] roots, }	packet leftPad {len  msg_type , MetaDataX
pack ,// trailing space 
}

")).
Eval vm_compute in ("<<<M2058>>>" ++ check (runes_of_ascii "MetaData BodyLength
@calculatedFrom( int8 Foo
, string
    MetaDataX , float zchar ,pack options1
,asx string_, }
packet u8x {Foo@lengthOf(charz )
`" ++ [28040; 24687; 31867; 22411]%N ++ runes_of_ascii "`,  }
")).
Eval vm_compute in ("<<<M2199>>>" ++ check (runes_of_ascii "MetaData BodyLength
{ int8 Foo
, string
    MetaDataX , float zchar ,pack options1
,asx string_, }
packet @leftpad u8x {Foo@lengthOf(charz )
`" ++ [28040; 24687; 31867; 22411]%N ++ runes_of_ascii "`,  }
")).
Eval vm_compute in ("<<<M1615>>>" ++ check (runes_of_ascii "// 50% %s
packet	a1
    { zchar[
// a // b
// 50% %s
007]
T `it's`
    ,@rightPad
    // a // b
    (
'\x00')
    o repeatCount , }  packet Logon")).
Eval vm_compute in ("<<<M2186>>>" ++ check (runes_of_ascii "MetaData BodyLength
{ int8 Foo
, string
    MetaDataX , float zchar ,pack options1
,asx string_, }
packet u8x {Foo@lengthOf(charz )
`" ++ [28040; 24687; 31867; 22411]%N ++ runes_of_ascii "`,  } }
")).
Eval vm_compute in ("<<<M604>>>" ++ check (runes_of_ascii "options { u8x=	true ; tag = // `tick` ""quote"" 'q'
int16
;
    stringy =""a	b""
    options1
    = u64 ; repeatCount =""abc""
    // 50% %s
    }
")).
Eval vm_compute in ("<<<M2182>>>" ++ check (runes_of_ascii "MetaData BodyLength
{ int8 Foo
, string
    MetaDataX , float zchar ,pack options1
,asx string_, }
packet u8x {Foo@lengthOf(charz )
`" ++ [28040; 24687; 31867; 22411]%N ++ runes_of_ascii "`}  ,
")).
Eval vm_compute in ("<<<M1102>>>" ++ check (runes_of_ascii "MetaData Header
{ // @lengthOf(
}packet i8i8 { // " ++ [27880; 37322]%N ++ runes_of_ascii "
@calculatedFrom(
""it's"" )@leftPad  ('0')
    @lengthOf(msg_type
)u8 Logon `{ , }` ,}
")).
Eval vm_compute in ("<<<M3356>>>" ++ check (runes_of_ascii "// top
root // c0a
  // c0b
packet // c1
P
    // c2
{ // c3a
  // c3b
repeat // c4
char // c5a
  // c5b
cs ,
    // c7
u8 x , }
    // c11
")).
Eval vm_compute in ("<<<M1969>>>" ++ check (runes_of_ascii "
packet leftPad {
@leftPad( '0')
u32
float32 `100% of %d` ,repeat// 50% %s
i8 chars
    ,
} MetaData
    f32a
{ // packet A { u8 x, }
}")).
Eval vm_compute in ("<<<M2175>>>" ++ check (runes_of_ascii "MetaData BodyLength
{ int8 Foo
, string
    MetaDataX , float zchar ,pack options1
,asx string_, }
packet u8x {Foo@lengthOf(charz )
,  }
")).
Eval vm_compute in ("<<<M2042>>>" ++ check (runes_of_ascii "
packet leftPad {
@leftPad( '0')
u32
i64_ `100% of %d` ,repeat// 50% %s
i8 chars
    ,
} ~MetaData
    f32a
{ // packet A { u8 x, }
}")).
Eval vm_compute in ("<<<M1983>>>" ++ check (runes_of_ascii "
packet leftPad {
@leftPad( '0')
u32
i64_ `100% of %d` ,i8// 50% %s
repeat chars
    ,
} MetaData
    f32a
{ // packet A { u8 x, }
}")).
Eval vm_compute in ("<<<M2305>>>" ++ check (runes_of_ascii "options
    {
x_y_z// " ++ [27880; 37322]%N ++ runes_of_ascii "
= 10 ; }
packet body {
    @calculatedFrom(
// trailing space 
// " ++ [27880; 37322]%N ++ runes_of_ascii "
""1""
)	match T as Foo
    {
255 T: , }
,}")).
Eval vm_compute in ("<<<M2268>>>" ++ check (runes_of_ascii "options
    {
x_y_z// " ++ [27880; 37322]%N ++ runes_of_ascii "
= 10 ; }
packet body {
    @calculatedFrom(
// trailing space 
// " ++ [27880; 37322]%N ++ runes_of_ascii "
""1""
	match T as Foo
    {
255 :T , }
,}")).
Eval vm_compute in ("<<<M2298>>>" ++ check (runes_of_ascii "options
    {
x_y_z// " ++ [27880; 37322]%N ++ runes_of_ascii "
= 10 ; }
packet body {
    @calculatedFrom(
// trailing space 
// " ++ [27880; 37322]%N ++ runes_of_ascii "
""1""
)	match T as Foo
    {
 :T , }
,}")).
Eval vm_compute in ("<<<M761>>>" ++ check (runes_of_ascii "MetaData crc {  i64_/// triple
Packet
`doc` , stringy Pad
    ,
Packet charz ,
body
_x, i8i8
    MetaDataX
    ,u32 stringy , }
")).
Eval vm_compute in ("<<<M2417>>>" ++ check (runes_of_ascii "MetaData
    calculatedFrom
{ zchar[  10 ]
    As`tab	here`,
    }// trailing space 
options  { roots ='\x00' ; } packet 
{ }
")).
Eval vm_compute in ("<<<M376>>>" ++ check (runes_of_ascii "
options { crc =
    // trailing space 
    ""// no comment""
;  _x =
    // " ++ [27880; 37322]%N ++ runes_of_ascii "
    i64 As =
    '\x00' ; }packet pack {
}
")).
Eval vm_compute in ("<<<M1858>>>" ++ check (runes_of_ascii "packet o {
    roots `it's`
// trailing space 
//x
, char[ char[ 42
    ]  A, // " ++ [27880; 37322]%N ++ runes_of_ascii "
f64
repeatCount
    `crlf
line`
,}")).
Eval vm_compute in ("<<<M3001>>>" ++ check (runes_of_ascii "packet A {
  match k as n {
    [""a"", ""bb"", ""c c"", ""d"", ""e"", ""f"", ""g"", ""h"", ""i"", ""j"", ""k"", ""l""] : B,
    2 : C
  },
}")).
Eval vm_compute in ("<<<M1879>>>" ++ check (runes_of_ascii "packet o {
    roots `it's`
// trailing space 
//x
, char[ 42
    ]  A f64 // " ++ [27880; 37322]%N ++ runes_of_ascii "
,
repeatCount
    `crlf
line`
,}")).
Eval vm_compute in ("<<<M1894>>>" ++ check (runes_of_ascii "packet o {
    roots `it's`
// trailing space 
//x
, char[ 42
    ]  A, // " ++ [27880; 37322]%N ++ runes_of_ascii "
f64
repeatCount
    ,
`crlf
line`}")).
Eval vm_compute in ("<<<M533>>>" ++ check (runes_of_ascii "MetaData uint8x
    {rootA Z9_`" ++ [233]%N ++ runes_of_ascii "`
    ,
    float64
    _x `it's`//	t
, zchar lengthOf // packet A { u8 x, }
,}
")).
Eval vm_compute in ("<<<M3020>>>" ++ check (runes_of_ascii "packet A {
    u16 len @lengthOf(body) `a
b`,
    u32 crc @calculatedFrom(""CRC32"") `a
b`,
    string body,
}")).
Eval vm_compute in ("<<<M4395>>>" ++ check (runes_of_ascii "packet o {
}

root packet falsey {
    // " ++ [128512]%N ++ runes_of_ascii " emoji
    // 50% %s
    char[3] Z9_ `two words`,
}

options {
}")).
Eval vm_compute in ("<<<M3733>>>" ++ check (runes_of_ascii "MetaData
Foo// c

{ zchar[  0  ] matchKey  ,} options { 
lengthOf
=
    i32 u

    =	00 
;

    }

")).
Eval vm_compute in ("<<<M2990>>>" ++ check (runes_of_ascii "packet A {
  match k as n {
    [1, ""bb"", 007, ""d"", 5, ""f"", 7, ""h"", 9, ""j"", 11] : B,
    2 : C
  },
}")).
Eval vm_compute in ("<<<M617>>>" ++ check (runes_of_ascii "options
// " ++ [27880; 37322]%N ++ runes_of_ascii "
// 50% %s
{  a1	=""\n""
Z9_ = char[ 4294967296 ] metadata=	char[] ; As = u32  ; } //")).
Eval vm_compute in ("<<<M968>>>" ++ check (runes_of_ascii "packet lengthOf {
    repeat	string
// " ++ [128512]%N ++ runes_of_ascii " emoji
// `tick` ""quote"" 'q'
calculatedFrom , // " ++ [27880; 37322]%N ++ runes_of_ascii "
}
")).
Eval vm_compute in ("<<<M1438>>>" ++ check (runes_of_ascii "packet
T
{ match repeatCount as as	calculatedFrom
{ [65535 ]	: As	,
} ,}
// trailing space 
")).
Eval vm_compute in ("<<<M1493>>>" ++ check (runes_of_ascii "packet
T
{ match repeatCount as	calculatedFrom
{ [65535 ]	: As	,
} ,} }
// trailing space 
")).
Eval vm_compute in ("<<<M2965>>>" ++ check (runes_of_ascii "packet A {
  match k as n {
    [1, ""bb"", 007, ""d"", 5, ""f"", 7, ""h"", 9] : B
    2 : C
  },
}")).
Eval vm_compute in ("<<<M1807>>>" ++ check (runes_of_ascii "options{  lengthOf =//x
i16;
    BodyLength = 0 ; pack
= false;
    A = char[ 3 ] float32")).
Eval vm_compute in ("<<<M240>>>" ++ check (runes_of_ascii "packet pack{ repeat charz , @leftPad ()  roots @lengthOf( Packet
)
    `it's`  , //	t
}
")).
Eval vm_compute in ("<<<M3926>>>" ++ check (runes_of_ascii "MetaData Foo {
    zchar[0] matchKey,
}

options {
    lengthOf = i32
    u = 00;
}// c")).
Eval vm_compute in ("<<<M1306>>>" ++ check (runes_of_ascii "packet repeatCount //	t
{@calculatedFrom( ""a\""b"" )
int16
A, }options{	u8x =
' '	;
}")).
Eval vm_compute in ("<<<M1752>>>" ++ check (runes_of_ascii "options{  lengthOf =//x
i16;
    BodyLength = ; 0 pack
= false;
    A = char[ 3 ] }")).
Eval vm_compute in ("<<<M1785>>>" ++ check (runes_of_ascii "options{  lengthOf =//x
i16;
    BodyLength = 0 ; pack
= false;
    A  char[ 3 ] }")).
Eval vm_compute in ("<<<M2911>>>" ++ check (runes_of_ascii "packet A {
  match k as n {
    [""a"", ""bb"", ""c c"", ""d"", ""e""] : B
    2 : C
  },
}")).
Eval vm_compute in ("<<<M1723>>>" ++ check (runes_of_ascii "options{  i16 =//x
i16;
    BodyLength = 0 ; pack
= false;
    A = char[ 3 ] }")).
Eval vm_compute in ("<<<M3267>>>" ++ check (runes_of_ascii "MetaData Foo { zchar[ 0 ] matchKey , } options { lengthOf // c
= i32 u = 00 ; }")).
Eval vm_compute in ("<<<M2897>>>" ++ check (runes_of_ascii "packet A {
  match k as n {
    [""a"", ""bb"", ""c c"", ""d""] : B,
    2 : C
  },
}")).
Eval vm_compute in ("<<<M1271>>>" ++ check (runes_of_ascii "MetaData trueish { T
    Pad //
,
    char[]
    _x , } // trailing space ")).
Eval vm_compute in ("<<<M3787>>>" ++ check (runes_of_ascii "root packet P {
    u16 a,
    u32 Sum @calculatedFrom(""CR\
    C32""),
}")).
Eval vm_compute in ("<<<M3640>>>" ++ check (runes_of_ascii "
packet A {
    B
b	`a

b`
, B
`a

b`,repeat

B bs `a

b`,

    } ")).
Eval vm_compute in ("<<<M1016>>>" ++ check (runes_of_ascii "/// triple
MetaData len
    {
    i32// " ++ [128512]%N ++ runes_of_ascii " emoji
o,
//x
/// triple
}")).
Eval vm_compute in ("<<<M418>>>" ++ check (runes_of_ascii "
root packet leftPad {
    repeat
    uint8x	options1 // " ++ [27880; 37322]%N ++ runes_of_ascii "
, }

")).
Eval vm_compute in ("<<<M2827>>>" ++ check (runes_of_ascii "@rightPad { zchar[ i64 repeat char[ repeat [ u32 ( packet Logon")).
Eval vm_compute in ("<<<M3291>>>" ++ check (runes_of_ascii "packet // c
u8x { } MetaData crc { char[ 4294967296 ] Foo , }")).
Eval vm_compute in ("<<<M1476>>>" ++ check (runes_of_ascii "packet
T
{ match repeatCount as	calculatedFrom
{ [65535 ]	:")).
Eval vm_compute in ("<<<M1356>>>" ++ check (runes_of_ascii "options { rootA = false
;  u=
0123456789 ; i64_
    = 0 }
")).
Eval vm_compute in ("<<<M4235>>>" ++ check (runes_of_ascii "
packet
	int{uint16
    msg_type	, } packet trueish	{ } ")).
Eval vm_compute in ("<<<M3209>>>" ++ check (runes_of_ascii "packet A { repeat // a
 B // b
 b // c
 `d` // e
 , }")).
Eval vm_compute in ("<<<M958>>>" ++ check (runes_of_ascii "packet
    x_y_z { msg_type  matchKey `doc` , }
")).
Eval vm_compute in ("<<<M2783>>>" ++ check (runes_of_ascii "@calculatedFrom( char uint32 leftPad options i8")).
Eval vm_compute in ("<<<M51>>>" ++ check (runes_of_ascii "MetaData
x_y_z
{zchar[ 3
    ] // c
body ,}
")).
Eval vm_compute in ("<<<M3862>>>" ++ check (runes_of_ascii "
packet 
x {	tag 	 // trailing space 
,	}

")).
Eval vm_compute in ("<<<M175>>>" ++ check (runes_of_ascii "
packet// 50% %s
rootA// 50% %s
{ //
}")).
Eval vm_compute in ("<<<M3221>>>" ++ check (runes_of_ascii "root // c
packet u128 { chars `doc` , }")).
Eval vm_compute in ("<<<M3084>>>" ++ check (runes_of_ascii "options {
    a = ""\
"";
    b = ""\
""
}")).
Eval vm_compute in ("<<<M1043>>>" ++ check (runes_of_ascii "options
    //
    { roots	=i8 ;  }
")).
Eval vm_compute in ("<<<M2354>>>" ++ check (runes_of_ascii "Foo
MetaData {Header //
pack ,	} 	 ")).
Eval vm_compute in ("<<<M2722>>>" ++ check (runes_of_ascii "&j" ++ [65533]%N ++ runes_of_ascii "p" ++ [65533]%N ++ runes_of_ascii "J" ++ [65533; 65533; 31; 65533; 65533; 65533]%N ++ runes_of_ascii "`s" ++ [65533]%N ++ runes_of_ascii "~" ++ [26; 65533; 65533; 65533; 24]%N ++ runes_of_ascii "q" ++ [65533; 8]%N ++ runes_of_ascii "H" ++ [65533; 65533; 65533; 65533; 65533; 65533]%N ++ runes_of_ascii "*" ++ [65533; 65533]%N)).
Eval vm_compute in ("<<<M2355>>>" ++ check (runes_of_ascii "match
Foo {Header //
pack ,	} 	 ")).
Eval vm_compute in ("<<<M2803>>>" ++ check (runes_of_ascii "( repeat zchar[ u16 as string ,")).
Eval vm_compute in ("<<<M3144>>>" ++ check (runes_of_ascii "packet A {
 u8 x `d" ++ [8287]%N ++ runes_of_ascii "`, // c" ++ [8287]%N ++ runes_of_ascii "
}")).
Eval vm_compute in ("<<<M1955>>>" ++ check (runes_of_ascii "
packet leftPad {
@leftPad(")).
Eval vm_compute in ("<<<M2598>>>" ++ check (runes_of_ascii "packet A { x @lengthOf(), }")).
Eval vm_compute in ("<<<M3806>>>" ++ check (runes_of_ascii "
// c" ++ [8233]%N ++ runes_of_ascii "
    packet
	A{
	}
")).
Eval vm_compute in ("<<<M2817>>>" ++ check (runes_of_ascii "HhE~T*;\=cDD$cFGmMe(e !/")).
Eval vm_compute in ("<<<M1045>>>" ++ check (runes_of_ascii "packet string_
    {	}")).
Eval vm_compute in ("<<<M3842>>>" ++ check (runes_of_ascii "options {
    a = 1
}")).
Eval vm_compute in ("<<<M2581>>>" ++ check (runes_of_ascii "packet A { x `d`, }")).
Eval vm_compute in ("<<<M3093>>>" ++ check (runes_of_ascii "// c 
packet A {
}")).
Eval vm_compute in ("<<<M3175>>>" ++ check (runes_of_ascii "packet A {
}// c x")).
Eval vm_compute in ("<<<M3135>>>" ++ check (runes_of_ascii "packet A {
}// c" ++ [8239]%N)).
Eval vm_compute in ("<<<M284>>>" ++ check (runes_of_ascii "//
options
{}
")).
Eval vm_compute in ("<<<M1905>>>" ++ check (runes_of_ascii "packet o {
  ")).
Eval vm_compute in ("<<<M2854>>>" ++ check (runes_of_ascii "i32 @tag( }")).
Eval vm_compute in ("<<<M3624>>>" ++ check (runes_of_ascii "// 50% %s")).
Eval vm_compute in ("<<<M4412>>>" ++ check (runes_of_ascii "// c" ++ [12]%N ++ runes_of_ascii "
")).
Eval vm_compute in ("<<<M2443>>>" ++ check (runes_of_ascii "zchar")).
Eval vm_compute in ("<<<M3151>>>" ++ check (runes_of_ascii "// c" ++ [12]%N)).
Eval vm_compute in ("<<<M176>>>" ++ check (runes_of_ascii "

")).
Eval vm_compute in ("<<<M2688>>>" ++ check (runes_of_ascii "`d`")).
Eval vm_compute in ("<<<M2504>>>" ++ check (runes_of_ascii "/")).
