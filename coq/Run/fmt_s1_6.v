From FP Require Import Lexer Parser ShowPT Digest Formatter.
From Coq Require Import String List NArith.
Import ListNotations.
Open Scope string_scope.
Set Printing Width 100000000.
Set Printing Depth 100000000.
Definition show_fres (r : fres) : string :=
  match r with
  | FOk s => "OK:" ++ sh_escaped s ""
  | FErr s => "ERR:" ++ sh_escaped s ""
  | FPanic p => "PANIC:" ++ p
  end.
Definition check (rs : list rune) : string := digest (show_fres (format_res rs)).
Definition full (rs : list rune) : string := show_fres (format_res rs).
Eval vm_compute in ("<<<M1531>>>" ++ check (runes_of_ascii "options { // c1a
  // c1b
LittleEndian // c2a
  // c2b
= true // c4a
  // c4b
; StringPrefixLenType
    // c6
= // c7a
  // c7b
u16 // c8a
  // c8b
; ArrayPrefixLenType
    // c10
= // c11a
  // c11b
u8 // c12a
  // c12b
; // c13
FixedStringPadChar // c14
= // c15a
  // c15b
'0' // c16a
  // c16b
;
    // c17
} // c18a
  // c18b
packet // c19a
  // c19b
Logout // c20
{ // c21
repeat // c22a
  // c22b
i16 // c23a
  // c23b
f1
    // c24
,
    // c25
string // c26a
  // c26b
Ref
    // c27
, // c28a
  // c28b
@rightPad // c29a
  // c29b
( // c30a
  // c30b
'\x00' ) char[ 9 // c34a
  // c34b
]
    // c35
Tail // c36
, repeat
    // c38
char[ // c39
6 // c40a
  // c40b
] Flags ,
    // c43
repeat
    // c44
char[ // c45a
  // c45b
3 ] // c47a
  // c47b
Acct // c48a
  // c48b
,
    // c49
}
    // c50
packet
    // c51
Party
    // c52
{ // c53a
  // c53b
char[ // c54
2 // c55
] // c56a
  // c56b
f1 // c57
, u8 // c59a
  // c59b
Side2 // c60a
  // c60b
, // c61
@leftPad // c62
( // c63
' ' // c64
) // c65
char[ 1 // c67a
  // c67b
] // c68
venue // c69
, // c70
} // c71a
  // c71b
packet Order // c73a
  // c73b
{ // c74
repeat i64 // c76
Ref , InPx62 // c79
{ // c80a
  // c80b
i32
    // c81
OrderId // c82
, // c83
} // c84a
  // c84b
, InNote53 // c86
{ // c87
InClordid80 // c88
{ char[] // c90a
  // c90b
Acct // c91
,
    // c92
u32 Px // c94a
  // c94b
, // c95
repeat // c96a
  // c96b
Party , // c98a
  // c98b
} , // c100
InPrice12 {
    // c102
u8 // c103a
  // c103b
pad0 , }
    // c106
, // c107a
  // c107b
repeat // c108a
  // c108b
Logout // c109
, InFlags23 { // c112a
  // c112b
repeat // c113
string // c114a
  // c114b
seqNo
    // c115
,
    // c116
string
    // c117
sym // c118
, // c119
int8 // c120
Flags // c121a
  // c121b
,
    // c122
zchar[ // c123a
  // c123b
5 // c124a
  // c124b
] lastPx // c126
, zchar[ // c128
6 // c129a
  // c129b
] Px // c131
, // c132a
  // c132b
} ,
    // c134
char[ // c135a
  // c135b
10 // c136a
  // c136b
]
    // c137
Acct // c138a
  // c138b
, InPx18 // c140a
  // c140b
{ // c141
zchar[
    // c142
2 ]
    // c144
count
    // c145
, // c146
Party // c147a
  // c147b
, // c148a
  // c148b
} , // c150a
  // c150b
}
    // c151
, // c152
char[ // c153
5 // c154
] // c155
Side2 , // c157a
  // c157b
char[ // c158
1
    // c159
]
    // c160
Acct , } // c163a
  // c163b
root packet // c165a
  // c165b
Ack {
    // c167
u32 // c168
Tail
    // c169
, repeat char[ // c172a
  // c172b
4 // c173a
  // c173b
] // c174
msgKind // c175a
  // c175b
, // c176a
  // c176b
repeat
    // c177
Logout
    // c178
,
    // c179
}
    // c180
")).
Eval vm_compute in ("<<<M1681>>>" ++ check (runes_of_ascii "root packet zchar {
    repeatCount @lengthOf(asx),
    match string_ as o {
        7 : packetx,
        7 : Pad,
    },// packet A { u8 x, }
    zchar[65535] T @calculatedFrom(""" ++ [128512]%N ++ runes_of_ascii """),
    tag @lengthOf(u) `crlf
        line`,
    @calculatedFrom("""")
    _x @calculatedFrom(""a	b"") `// not a comment`,
    match Z9_ as float {
        0123456789 : calculatedFrom,
        ""{,}"" : u,
        //	t
    },
    @leftPad()
    @tag(255)
    @lengthOf(i8i8)
    match tag as trueish {
        4294967296 : uint8x,
        [65535] : u8x,
        10 : i64_,
        """" : metadata,
    },
    int64 T,
}

root packet len {
    @tag(0)
    Logon,
    @tag(255)
    repeat u64 packetx `it's`,
    @tag(4294967296)
    zchar[007] repeatCount `a\`,
    char[4294967296] asx @calculatedFrom(""it's""),
}

root packet asx {
    uint16 options1 @lengthOf(matchKey) `it's`,
}

root packet Logon {
    @lengthOf(asx)
    @calculatedFrom(""packet"")
    Z9_ @calculatedFrom(""" ++ [28040; 24687]%N ++ runes_of_ascii """),
    @tag(007)
    zchar[0123456789] i64_,
    msg_type `line1
        line2`,
    repeat zchar[007] Pad `
        `,
    falsey {
        chars lengthOf ``,
        match Header as lengthOf {
            """ ++ [233]%N ++ runes_of_ascii "t" ++ [233]%N ++ runes_of_ascii """ : falsey,
            42 : uint8x,
            [
                007, ""abc"", ""abc"", ""a\\"", 65535,
                ""a\""b"", 42, ""{,}""
            ] : charz,
        },
        int64 Foo,
        Z9_ @lengthOf(int) `it's`,
    },
    @rightPad()
    // trailing space 
    string As @calculatedFrom(""" ++ [28040; 24687]%N ++ runes_of_ascii """),
    // c
    match matchKey as repeatCount {
        4294967296 : msg_type,
        """ ++ [28040; 24687]%N ++ runes_of_ascii """ : zchar,
        3 : u8x,
        """" : asx,
    },
}")).
Eval vm_compute in ("<<<M1867>>>" ++ check (runes_of_ascii "//	t
root packet packetx {
    @lengthOf(BodyLength)
    zchar[00] uint8x @lengthOf(i8i8) `tab	here`,
    @lengthOf(x_y_z)
    @leftPad('0')
    @lengthOf(Header)
    f32 pack @calculatedFrom(""a\\""),
    @calculatedFrom(""`tick`"")
    //x
    // " ++ [27880; 37322]%N ++ runes_of_ascii "
    lengthOf MetaDataX,
    @lengthOf(Packet)
    lengthOf @calculatedFrom(""\n"") `doc`,
    @rightPad()
    char[0123456789] float,
    @lengthOf(options1)
    //x
    //	t
    @tag(7)
    @tag(007)
    crc int,
    chars @calculatedFrom(""" ++ [233]%N ++ runes_of_ascii "t" ++ [233]%N ++ runes_of_ascii """),
    @calculatedFrom(""CRC32"")
    repeat char[] packetx `two words`,
}

packet T {
}

packet T {
    char[10] u128,
    @lengthOf(calculatedFrom)
    chars o,
    @calculatedFrom(""\n"")
    match pack as Logon {
        [""// no comment"", 255, 42, ""CRC32"", ""// no comment""] : asx,
        ""it's"" : msg_type,
        // `tick` ""quote"" 'q'
        0123456789 : msg_type,
        255 : len,
    },
    match chars as int {
        [00, 42, 42] : x,
        4294967296 : i64_,
        [""a	b"", 007, """ ++ [128512]%N ++ runes_of_ascii """, ""// no comment""] : f32a,
        42 : packetx,
    },/// triple
    crc {
        a1 `" ++ [233]%N ++ runes_of_ascii "`,
    },
    @tag(3)
    /// triple
    zchar[7] o `
    `,
}

packet roots {
    u64 i64_ ``,
}")).
Eval vm_compute in ("<<<M1858>>>" ++ check (runes_of_ascii "packet u128 {
    @lengthOf(x_y_z)
    @lengthOf(stringy)
    @lengthOf(_x)
    zchar[4294967296] asx @calculatedFrom(""\" ++ [233]%N ++ runes_of_ascii """) `
    `,
    char[0] matchKey,
    rootA u128,
    metadata metadata,
    zchar[3] string_ `" ++ [233]%N ++ runes_of_ascii "`,
    // `tick` ""quote"" 'q'
    // " ++ [27880; 37322]%N ++ runes_of_ascii "
    @calculatedFrom(""a	b"")
    char roots `" ++ [28040; 24687; 31867; 22411]%N ++ runes_of_ascii "`,
    repeat zchar[10] pack `
    `,
    @calculatedFrom(""{,}"")
    @lengthOf(Foo)
    packetx {
        // " ++ [128512]%N ++ runes_of_ascii " emoji
        match i8i8 as Header {
            255 : Z9_,
            """ ++ [233]%N ++ runes_of_ascii "t" ++ [233]%N ++ runes_of_ascii """ : tag,
            [
                7, 1, ""// no comment"", ""// no comment"", 3,
                """", 1
            ] : lengthOf,
            3 : asx,
            [42, 0, 1] : Z9_,
            10 : A,
        },
    },
}

root packet T {
    /// triple
    int32 roots `two words`,
    stringy,
    @rightPad('\x00')
    float64 len @lengthOf(o),
    match body as uint8x {
        10 : tag,
    },
    repeat u8 Pad `" ++ [28040; 24687; 31867; 22411]%N ++ runes_of_ascii "`,
    repeat char[] float,
    @calculatedFrom(""packet"")
    u16 x @lengthOf(u8x),
}//x")).
Eval vm_compute in ("<<<M256>>>" ++ check (runes_of_ascii "packet
Pad // " ++ [27880; 37322]%N ++ runes_of_ascii "
{ @tag(	65535 )repeat char[
    //	t
    4294967296 ] o
    `u8 x,`  ,
@calculatedFrom(""x y"" )
metadata // c
@lengthOf(repeatCount )`tab	here`	,} packet u128 {
// packet A { u8 x, }
// " ++ [128512]%N ++ runes_of_ascii " emoji
repeat // " ++ [128512]%N ++ runes_of_ascii " emoji
zchar[
10 ]_x// " ++ [27880; 37322]%N ++ runes_of_ascii "
, /// triple
}
options
{ /// triple
msg_type
= true ;}packet tag {// c
@tag(7 ) i32
f32a @lengthOf( u8x)
`two words`
,
string
Foo  @lengthOf( Foo ) ,
@rightPad(
'0' ) match As as
// @lengthOf(
// `tick` ""quote"" 'q'
crc // a // b
{"""": float , //	t
} , repeat i16 i8i8 , @rightPad/// triple
(
    '0' ) repeat u128
    { i64 tag
@calculatedFrom( """ ++ [28040; 24687]%N ++ runes_of_ascii """ ) ,i8i8
@calculatedFrom( // " ++ [27880; 37322]%N ++ runes_of_ascii "
""{,}""
)`it's` , repeat string
    rootA /// triple
, }, repeat string
chars,
    asx, match calculatedFrom as
calculatedFrom {
    ""a\""b"" :  Logon ""a	b"" : asx } , char zchar @calculatedFrom( ""1""
    )
    `say ""hi""`
    ,  }
")).
Eval vm_compute in ("<<<M201>>>" ++ check (runes_of_ascii "packet _x{
    u ,@lengthOf( len)
    match f32a as
    Pad{""packet"": metadata,
""CRC32"":x_y_z[ ""abc"" , ""{,}"" ] : Logon , }
    // c
    , zchar[ 7  ]	a1  ,
    @tag( 65535 ) @tag(
0123456789
    )
    //x
    @lengthOf(
asx ) repeat
i16 // @lengthOf(
tag `{ , }` // `tick` ""quote"" 'q'
,
    @leftPad	(
'\x00' ) match i64_ as x { 0 :crc , [
//	t
// trailing space 
""// no comment"" ] : uint8x ,
    42
// a // b
// trailing space 
:  string_	, 007 : trueish , [10 ]// " ++ [128512]%N ++ runes_of_ascii " emoji
: rootA
""" ++ [28040; 24687]%N ++ runes_of_ascii """
    : // trailing space 
len , } //
, @rightPad (
'\x00' // trailing space 
) @tag(
    //
    00 ) @calculatedFrom( """ ++ [233]%N ++ runes_of_ascii "t" ++ [233]%N ++ runes_of_ascii """ ) // c
char[]float
@calculatedFrom(	""\n"" ),repeat f32 trueish `crlf
line` ,} // @lengthOf(")).
Eval vm_compute in ("<<<M299>>>" ++ check (runes_of_ascii "packet
As {
char[ 42	]//
chars
@calculatedFrom(
""a\""b"" ) `it's` ,f32a falsey // trailing space 
`// not a comment` , // " ++ [128512]%N ++ runes_of_ascii " emoji
string
trueish
`" ++ [28040; 24687; 31867; 22411]%N ++ runes_of_ascii "` ,
@lengthOf(  metadata )@tag(65535 ) @calculatedFrom( ""`tick`"" ) repeat Logon { x_y_z@lengthOf(lengthOf ),uint32  u
, i64_ @calculatedFrom( ""CRC32""
    )
`a\` , asx @calculatedFrom( """" ) `u8 x,` ,	} ,
u16
    _x `` , repeat string_
//
// `tick` ""quote"" 'q'
, options1 f32a , @calculatedFrom(""\n""// a // b
) Packet @lengthOf( zchar
    ) , }// `tick` ""quote"" 'q'
options { // a // b
} packet a1 { @tag( 0123456789)u8
    uint8x	`{ , }` ,
    u32// " ++ [27880; 37322]%N ++ runes_of_ascii "
x_y_z `say ""hi""`
, }
")).
Eval vm_compute in ("<<<M316>>>" ++ check (runes_of_ascii "options { falsey
// " ++ [128512]%N ++ runes_of_ascii " emoji
// " ++ [27880; 37322]%N ++ runes_of_ascii "
= ""abc""; roots = // c
'0'	;MetaDataX
=
// " ++ [128512]%N ++ runes_of_ascii " emoji
// " ++ [128512]%N ++ runes_of_ascii " emoji
'0' ; //
crc= // " ++ [128512]%N ++ runes_of_ascii " emoji
42 // a // b
x	= '0'
; } packet A {  repeat uint64 u128 , @tag(
65535) int16
options1
    `line1
line2` , } options { // packet A { u8 x, }
int
=
""// no comment""msg_type  = zchar[ 0123456789
    /// triple
    ] ; calculatedFrom =// @lengthOf(
u8	;
    asx=
""" ++ [28040; 24687]%N ++ runes_of_ascii """ ; body = 10 } options { charz = true	metadata = char[]
; Packet// c
=  true}
packet Logon
{
@calculatedFrom( """ ++ [128512]%N ++ runes_of_ascii """ )
    repeat packetx rootA,}

")).
Eval vm_compute in ("<<<M1118>>>" ++ check (runes_of_ascii "// top
options
    // c0
{ charz // c2
= // c3a
  // c3b
f64 // c4a
  // c4b
; // c5a
  // c5b
metadata = // c7
7 // c8a
  // c8b
; // c9a
  // c9b
} // c10
options
    // c11
{
    // c12
u128 // c13
=
    // c14
10 // c15
options1 // c16
= // c17
true
    // c18
; zchar // c20
=
    // c21
uint16
    // c22
; lengthOf
    // c24
=
    // c25
true
    // c26
;
    // c27
} // c28a
  // c28b
options // c29
{
    // c30
len = // c32
1
    // c33
}
    // c34
")).
Eval vm_compute in ("<<<M1918>>>" ++ check (runes_of_ascii "packet repeatCount {
    @rightPad(' ')
    char[42] Header @calculatedFrom(""a\\""),
    // packet A { u8 x, }
    // packet A { u8 x, }
    @tag(10)
    i64 options1 @calculatedFrom(""x y""),
    Packet {
        i64 lengthOf @calculatedFrom(""abc""),
        repeat zchar[00] i64_ `u8 x,`,
    },
    string tag,
    string o `" ++ [233]%N ++ runes_of_ascii "`,
    repeat char[42] a1 `doc`,
    string leftPad @calculatedFrom(""a\\""),
}")).
Eval vm_compute in ("<<<M113>>>" ++ check (runes_of_ascii "packet body { Pad {a1`crlf
line`
    , zchar[ 007] a1 ,char[10 ] x_y_z  ,
repeat
zchar[ 1  ] metadata `u8 x,` , } , string  trueish
,repeat uint8x u ,	@tag( /// triple
007 ) calculatedFrom
{repeat BodyLength
`doc` ,
    }/// triple
, int64 lengthOf,/// triple
@lengthOf(
leftPad) @calculatedFrom( ""x y"" ) @calculatedFrom( // " ++ [27880; 37322]%N ++ runes_of_ascii "
""\" ++ [233]%N ++ runes_of_ascii """ )  falsey a1 , }")).
Eval vm_compute in ("<<<M2108>>>" ++ check (runes_of_ascii "packet f32a {
    repeat calculatedFrom u128,
    T @calculatedFrom(""a\\"") `crlf
    line`,
    string charz,
    @leftPad()
    repeat pack T,
}

MetaData charz {
}

packet i8i8 {
    A x,
    match A as leftPad {
        ""abc"" : msg_type,
        ""a	b"" : T,
    },
    f64 i8i8,
    char charz `" ++ [233]%N ++ runes_of_ascii "`,
}// " ++ [128512]%N ++ runes_of_ascii " emoji")).
Eval vm_compute in ("<<<M1218>>>" ++ check (runes_of_ascii "// top
root // c0
packet // c1
matchKey // c2
{ // c3
zchar[ // c4
3 // c5
] // c6
pack // c7
@calculatedFrom( // c8
""a	b"" // c9
) // c10
`doc` // c11
, // c12
} // c13
options // c14
{ // c15
} // c16
MetaData // c17
A // c18
{ // c19
int8 // c20
msg_type // c21
, // c22
} // c23
")).
Eval vm_compute in ("<<<M639>>>" ++ check (runes_of_ascii "root packet tag { }  packet MetaDataX{char[007	]
// c
/// triple
asx  @calculatedFrom( ""a\""b""
) `say ""hi""`// " ++ [27880; 37322]%N ++ runes_of_ascii "
,  @tag(4294967296 )
    char[1//x
] packetx @calculatedFrom(""a\""b""
    ) ,
// " ++ [128512]%N ++ runes_of_ascii " emoji
// a // b
@calculatedFrom(""" ++ [233]%N ++ runes_of_ascii "t" ++ [233]%N ++ runes_of_ascii """  ) repeat pack pack // " ++ [27880; 37322]%N ++ runes_of_ascii "
,
    } // c")).
Eval vm_compute in ("<<<M659>>>" ++ check (runes_of_ascii "root packet tag { }  packet MetaDataX{char[007	]
// c
/// triple
asx  @calculatedFrom( ""a\""b""
) `say ""hi""`// " ++ [27880; 37322]%N ++ runes_of_ascii "
,  @tag(4294967296 )
    char[1//x
] packetx @calculatedFrom(""a\""b""
    ) ,
// " ++ [128512]%N ++ runes_of_ascii " emoji
// a // b
@calculatedFrom(""" ++ [233]%N ++ runes_of_ascii "t" ++ [233]%N ++ runes_of_ascii """  ) repeat ~ pack // " ++ [27880; 37322]%N ++ runes_of_ascii "
,
    } // c")).
Eval vm_compute in ("<<<M495>>>" ++ check (runes_of_ascii "root packet tag } {  packet MetaDataX{char[007	]
// c
/// triple
asx  @calculatedFrom( ""a\""b""
) `say ""hi""`// " ++ [27880; 37322]%N ++ runes_of_ascii "
,  @tag(4294967296 )
    char[1//x
] packetx @calculatedFrom(""a\""b""
    ) ,
// " ++ [128512]%N ++ runes_of_ascii " emoji
// a // b
@calculatedFrom(""" ++ [233]%N ++ runes_of_ascii "t" ++ [233]%N ++ runes_of_ascii """  ) repeat pack // " ++ [27880; 37322]%N ++ runes_of_ascii "
,
    } // c")).
Eval vm_compute in ("<<<M498>>>" ++ check (runes_of_ascii "root packet tag {   packet MetaDataX{char[007	]
// c
/// triple
asx  @calculatedFrom( ""a\""b""
) `say ""hi""`// " ++ [27880; 37322]%N ++ runes_of_ascii "
,  @tag(4294967296 )
    char[1//x
] packetx @calculatedFrom(""a\""b""
    ) ,
// " ++ [128512]%N ++ runes_of_ascii " emoji
// a // b
@calculatedFrom(""" ++ [233]%N ++ runes_of_ascii "t" ++ [233]%N ++ runes_of_ascii """  ) repeat pack // " ++ [27880; 37322]%N ++ runes_of_ascii "
,
    } // c")).
Eval vm_compute in ("<<<M1582>>>" ++ check (runes_of_ascii "options {
    LittleEndian = true;
}
packet Sub {
    u8 a,
    @calculatedFrom(""CRC16"") u64 SubSum,
}
root packet Frame {
    u16 MsgType,
    u16 BodyLen @lengthOf(Body),
    Sub Body,
    string note,
    @calculatedFrom(""CRC16"") u64 Checksum,
    u8 tail,
}
")).
Eval vm_compute in ("<<<M598>>>" ++ check (runes_of_ascii "root packet tag { }  packet MetaDataX{char[007	]
// c
/// triple
asx  @calculatedFrom( ""a\""b""
) `say ""hi""`// " ++ [27880; 37322]%N ++ runes_of_ascii "
,  @tag(4294967296 )
    char[1//x
] packetx ""a\""b""
    ) ,
// " ++ [128512]%N ++ runes_of_ascii " emoji
// a // b
@calculatedFrom(""" ++ [233]%N ++ runes_of_ascii "t" ++ [233]%N ++ runes_of_ascii """  ) repeat pack // " ++ [27880; 37322]%N ++ runes_of_ascii "
,
    } // c")).
Eval vm_compute in ("<<<M1898>>>" ++ check (runes_of_ascii "  // " ++ [128512]%N ++ runes_of_ascii " emoji
  MetaData  trueish
	{ 
	    // @lengthOf(
	asx lengthOf
	    // a // b
  ,
int8 	 // c
  float

    `it's`
    ,  }
MetaData  int{	int8  charz

,

}

    packet
    asx	{
o
@calculatedFrom( ""\" ++ [233]%N ++ runes_of_ascii """)
,  }")).
Eval vm_compute in ("<<<M1770>>>" ++ check (runes_of_ascii "
root	packet 	 /// triple
		Foo

{	int32

tag
`doc`
,

    char[
    0
    ]  u8x
`u8 x,`,charz

charz

,
	@rightPad  (' '

    )
@tag(
    3)
@rightPad

    ( '0'

)repeat
int16

float,
}

")).
Eval vm_compute in ("<<<M1903>>>" ++ check (runes_of_ascii "packet i64_ {
    @tag(0123456789)
    x_y_z @calculatedFrom(""it's""),
    @rightPad(' ')
    @tag(007)
    leftPad {
        zchar[00] Pad,
    },
    int32 _x @lengthOf(BodyLength),
}")).
Eval vm_compute in ("<<<M432>>>" ++ check (runes_of_ascii "packet
    // `tick` ""quote"" 'q'
    crc
// packet A { u8 x, }
//	t
{
u32 a1 ,
    // trailing space 
    roots
charz //
`two words`@tag(	}
    MetaData int {
} /// triple")).
Eval vm_compute in ("<<<M689>>>" ++ check (runes_of_ascii "root packet len // trailing space 
{
// " ++ [27880; 37322]%N ++ runes_of_ascii "
//	t
char[10
] metadata	@lengthOf( o $ ) `crlf
line`,
    @rightPad
( ' '
) string
    Header @calculatedFrom( ""a\\""
    ), }
")).
Eval vm_compute in ("<<<M446>>>" ++ check (runes_of_ascii "packet
    // `tick` ""quote"" 'q'
    crc
// packet A { u8 x, }
//	t
{
u32 a1 ,
    // trailing space 
    roots
charz //
`two words`,	}
    MetaData { int
} /// triple")).
Eval vm_compute in ("<<<M422>>>" ++ check (runes_of_ascii "packet
    // `tick` ""quote"" 'q'
    crc
// packet A { u8 x, }
//	t
{
u32 a1 ,
    // trailing space 
    roots
u32 //
`two words`,	}
    MetaData int {
} /// triple")).
Eval vm_compute in ("<<<M427>>>" ++ check (runes_of_ascii "packet
    // `tick` ""quote"" 'q'
    crc
// packet A { u8 x, }
//	t
{
u32 a1 ,
    // trailing space 
    roots
charz //
true,	}
    MetaData int {
} /// triple")).
Eval vm_compute in ("<<<M1849>>>" ++ check (runes_of_ascii "packet A {
    match k as n {
        [
            1, 22, 007, 4, 5,
            66, 7, 8, 9, 10,
            11
        ] : B,
        2 : C,
    },
}")).
Eval vm_compute in ("<<<M1850>>>" ++ check (runes_of_ascii "root packet
    matchKey{ zchar[ 
3  ] 
pack  @calculatedFrom(  ""a	b""  )

    `doc` ,} options
	{
} MetaData  A {int8 msg_type	// c
  	,	}
")).
Eval vm_compute in ("<<<M582>>>" ++ check (runes_of_ascii "root packet tag { }  packet MetaDataX{char[007	]
// c
/// triple
asx  @calculatedFrom( ""a\""b""
) `say ""hi""`// " ++ [27880; 37322]%N ++ runes_of_ascii "
,  @tag(4294967296 )")).
Eval vm_compute in ("<<<M254>>>" ++ check (runes_of_ascii "packet rootA {	}
// `tick` ""quote"" 'q'
/// triple
options  {stringy
    =
0123456789
;
T =42 ;
string_ = ""a\""b""
    ; }
//
")).
Eval vm_compute in ("<<<M1240>>>" ++ check (runes_of_ascii "root packet matchKey { zchar[ 3 ] pack @calculatedFrom(
// c
""a	b"" ) `doc` , } options { } MetaData A { int8 msg_type , }")).
Eval vm_compute in ("<<<M1677>>>" ++ check (runes_of_ascii "root packet matchKey {
    zchar[3] pack @calculatedFrom(""a	b"") `doc`,
}

options {
}

MetaData A {
    int8 msg_type,
}")).
Eval vm_compute in ("<<<M1908>>>" ++ check (runes_of_ascii "packet a1 {
}

options {
    MetaDataX = ""`tick`""
    uint8x = false;
    f32a = zchar[00];
}// `tick` ""quote"" 'q'")).
Eval vm_compute in ("<<<M1824>>>" ++ check (runes_of_ascii "MetaData float {
    float64 charz `
        `,
}

root packet chars {
    @rightPad('0')
    Foo,
    // c
}")).
Eval vm_compute in ("<<<M2046>>>" ++ check (runes_of_ascii "
MetaData chars
	{
    uint32 chars `doc` 
, int64
    float  , 	 // trailing space 

	u8 pack `
`
	,
}
")).
Eval vm_compute in ("<<<M1759>>>" ++ check (runes_of_ascii "
packet 
// c
	metadata{  Logon { A
`" ++ [28040; 24687; 31867; 22411]%N ++ runes_of_ascii "`
    ,
	tag o  ,

}
	,
zchar  len
`// not a comment`, }")).
Eval vm_compute in ("<<<M136>>>" ++ check (runes_of_ascii "MetaData
options1
    {
    char[ 7 ] i8i8
, zchar[ 65535
] u128
    , char[]  repeatCount
,
}
")).
Eval vm_compute in ("<<<M128>>>" ++ check (runes_of_ascii "MetaData msg_type
    { char[]
    int
    ,  char[ 255 ]
o ,
    // `tick` ""quote"" 'q'
    }")).
Eval vm_compute in ("<<<M1431>>>" ++ check (runes_of_ascii "packet chars { } packet MetaDataX { @tag( 42 ) i16 string_ , repeat x `say ""hi""` , }
// c
")).
Eval vm_compute in ("<<<M1199>>>" ++ check (runes_of_ascii "MetaData float { float64 charz `
` , } root packet
// c
chars { @rightPad ( '0' ) Foo , }")).
Eval vm_compute in ("<<<M1410>>>" ++ check (runes_of_ascii "packet chars { } packet MetaDataX { @tag( // c
42 ) i16 string_ , repeat x `say ""hi""` , }")).
Eval vm_compute in ("<<<M823>>>" ++ check (runes_of_ascii "packet A {
  match k as n {
    [""a"", ""bb"", ""c c"", ""d"", ""e"", ""f""] : B,
    2 : C
  },
}")).
Eval vm_compute in ("<<<M1140>>>" ++ check (runes_of_ascii "packet metadata { Logon { A `" ++ [28040; 24687; 31867; 22411]%N ++ runes_of_ascii "` , tag // c
o , } , zchar len `// not a comment` , }")).
Eval vm_compute in ("<<<M1345>>>" ++ check (runes_of_ascii "packet o {
// c
repeat Logon uint8x , } options { asx = zchar[ 3 ] stringy = '\x00' }")).
Eval vm_compute in ("<<<M1763>>>" ++ check (runes_of_ascii "packet A {
    match k as n {
        [""a"", ""bb"", ""c c""] : B,
        2 : C,
    },
}")).
Eval vm_compute in ("<<<M1306>>>" ++ check (runes_of_ascii "MetaData
// c
body { i64 pack `it's` , } packet stringy { int16 calculatedFrom , }")).
Eval vm_compute in ("<<<M825>>>" ++ check (runes_of_ascii "packet A {
  match k as n {
    [1, ""bb"", 007, ""d"", 5, ""f""] : B,
    2 : C
  },
}")).
Eval vm_compute in ("<<<M1962>>>" ++ check (runes_of_ascii "packet A {
    match k as n {
        [""a"", ""bb""] : B,
        2 : C,
    },
}")).
Eval vm_compute in ("<<<M802>>>" ++ check (runes_of_ascii "packet A {
  match k as n {
    [""a"", 22, ""c c"", 4] : B
    2 : C
  },
}")).
Eval vm_compute in ("<<<M859>>>" ++ check (runes_of_ascii "packet A { Inner { match k as n { [1,22,007,4,5,66,7,8] : B, }, }, }")).
Eval vm_compute in ("<<<M1452>>>" ++ check (runes_of_ascii "

  root
    packet P  { hdr

    {
u8

a
	,
}  ,  u8	x, 
}")).
Eval vm_compute in ("<<<M1450>>>" ++ check (runes_of_ascii "root packet P {
    hdr {
        u8 a,
    },
    u8 x,
}
")).
Eval vm_compute in ("<<<M1614>>>" ++ check (runes_of_ascii "MetaData Header {
    // trailing space 
    u64 falsey,
}")).
Eval vm_compute in ("<<<M1905>>>" ++ check (runes_of_ascii "MetaData M {
    u8 x `x
    `,
    T t `x
    `,
}")).
Eval vm_compute in ("<<<M916>>>" ++ check (runes_of_ascii "MetaData M {
    u8 x `a
b`,
    T t `a
b`,
}")).
Eval vm_compute in ("<<<M1115>>>" ++ check (runes_of_ascii "root packet u128 { chars `it's` , }
// c
")).
Eval vm_compute in ("<<<M1062>>>" ++ check (runes_of_ascii "packet A {    u8 x, // c    u8 y,}")).
Eval vm_compute in ("<<<M1946>>>" ++ check (runes_of_ascii "packet A {
    u8 x `
        `,
}")).
Eval vm_compute in ("<<<M1003>>>" ++ check (runes_of_ascii "packet A {
 u8 x `d" ++ [8202]%N ++ runes_of_ascii "`, // c" ++ [8202]%N ++ runes_of_ascii "
}")).
Eval vm_compute in ("<<<M1060>>>" ++ check (runes_of_ascii "packet A {
}// a// b// c
")).
Eval vm_compute in ("<<<M59>>>" ++ check (runes_of_ascii "// packet A { u8 x, }
")).
Eval vm_compute in ("<<<M2101>>>" ++ check (runes_of_ascii "// c" ++ [11]%N ++ runes_of_ascii "
packet  A{ }
")).
Eval vm_compute in ("<<<M1042>>>" ++ check (runes_of_ascii "// c" ++ [8203]%N ++ runes_of_ascii "
packet A {
}")).
Eval vm_compute in ("<<<M348>>>" ++ check (runes_of_ascii "packet i64_ { }
")).
Eval vm_compute in ("<<<M86>>>" ++ check (runes_of_ascii "
// c
")).
Eval vm_compute in ("<<<M179>>>" ++ check (runes_of_ascii "  
")).
