From FP Require Import Lexer Parser ShowPT Digest Formatter.
From Coq Require Import String List NArith.
Import ListNotations.
Open Scope string_scope.
Set Printing Width 100000000.
Set Printing Depth 100000000.
Definition show_fres (r : fres) : string :=
  match r with
  | FOk s => "OK:" ++ sh_escaped s ""
  | FErr s => "ERR:" ++ sh_escaped s ""
  | FPanic p => "PANIC:" ++ p
  end.
Definition check (rs : list rune) : string := digest (show_fres (format_res rs)).
Definition full (rs : list rune) : string := show_fres (format_res rs).
Eval vm_compute in ("<<<M3888>>>" ++ check (runes_of_ascii "packet len {
    @calculatedFrom(""`tick`"")
    repeat zchar[00] chars `a\`,
    u8x MetaDataX `line1
        line2`,
    @calculatedFrom(""a\""b"")
    match matchKey as asx {
        [""CRC32"", ""a\""b""] : msg_type,
    },
    i8 string_ @calculatedFrom(""{,}""),
    @lengthOf(lengthOf)
    zchar[42] _x `line1
        line2`,
    @lengthOf(asx)
    repeat int8 Header,
    repeat crc {
        int8 i64_ @calculatedFrom(""{,}""),
    },
    repeat _x i8i8 `line1
        line2`,
    float64 stringy,
    MetaDataX {
        charz {
            int16 matchKey,
            repeat i64_,
            char[00] Z9_ `
                        `,
            match As as Packet {
                3 : crc,
                [1, 00] : Header,
                255 : _x,
                42 : body,
                [0] : chars,
                [4294967296, 65535] : chars,
            },
        },
    },
}

MetaData falsey {
    char[255] u128,
    u8 Header `tab	here`,
    string float,
}

root packet int {
    Logon i64_,
    @calculatedFrom(""1"")
    zchar {
        u {
            zchar[255] Pad,
        },
        stringy {
            Pad metadata `u8 x,`,
        },
        repeat string i8i8,
        char[] As @calculatedFrom(""\n""),
    },
    @lengthOf(packetx)
    @lengthOf(i64_)
    body `line1
        line2`,
    @lengthOf(roots)
    match MetaDataX as uint8x {
        // `tick` ""quote"" 'q'
        [007, 255, 00] : body,
        [
            65535, 1, 1, 0, ""1"",
            ""\n"", ""CRC32""
        ] : trueish,
    },
    uint64 Foo,
    zchar {
        metadata @lengthOf(Pad) `crlf
                line`,
        match u as charz {
            65535 : int,
            [""1""] : a1,
            [4294967296, 00, 00, """ ++ [233]%N ++ runes_of_ascii "t" ++ [233]%N ++ runes_of_ascii """, """ ++ [28040; 24687]%N ++ runes_of_ascii """] : matchKey,
            [""a\\""] : Logon,
        },
        repeat rootA {
            int16 Foo @lengthOf(rootA),
            options1 `u8 x,`,
        },
    },
    match chars as u {
        [
            007, ""it's"", """ ++ [233]%N ++ runes_of_ascii "t" ++ [233]%N ++ runes_of_ascii """, ""abc"", ""\n"",
            """"
        ] : repeatCount,
        65535 : Z9_,
        [007, ""abc"", ""// no comment"", """ ++ [28040; 24687]%N ++ runes_of_ascii """] : falsey,
        00 : string_,
    },
    char repeatCount,
}

packet Foo {
    char[] a1 @calculatedFrom("""") `line1
        line2`,
    uint16 MetaDataX `say ""hi""`,
    char[] A,
    // trailing space 
    // " ++ [128512]%N ++ runes_of_ascii " emoji
    f64 int @lengthOf(Pad),
    u32 BodyLength,
    float64 trueish @lengthOf(lengthOf) `crlf
        line`,
    @tag(255)
    match Z9_ as tag {
        [4294967296, ""a\""b"", ""{,}"", ""{,}""] : Pad,
        1 : lengthOf,
        0123456789 : msg_type,
        ""// no comment"" : BodyLength,
        [""1""] : string_,
        [
            3, 0, 1, 1, 00,
            ""\" ++ [233]%N ++ runes_of_ascii """, """"
        ] : asx,
    },
    body `say ""hi""`,
}

options {
    x = '0';
    u8x = u64;
    // c
    //	t
    string_ = ""a\""b""
}")).
Eval vm_compute in ("<<<M87>>>" ++ check (runes_of_ascii "packet Logon{
    repeat string
a1 `crlf
line` ,@lengthOf(
Pad
    ) match  Pad as
u8x
    { 4294967296
//
// " ++ [128512]%N ++ runes_of_ascii " emoji
: // `tick` ""quote"" 'q'
i8i8 , } ,
asx a1 ,
// a // b
// @lengthOf(
@lengthOf(body ) //x
msg_type int
,tag`line1
line2` , repeat
// packet A { u8 x, }
// packet A { u8 x, }
Z9_{ u16
    packetx	@calculatedFrom(
    ""it's"" ) , } , @lengthOf(
// " ++ [128512]%N ++ runes_of_ascii " emoji
//	t
Logon ) // " ++ [128512]%N ++ runes_of_ascii " emoji
@rightPad (
)	@calculatedFrom(""" ++ [233]%N ++ runes_of_ascii "t" ++ [233]%N ++ runes_of_ascii """ ) repeat roots	u128 // `tick` ""quote"" 'q'
,@calculatedFrom( ""{,}"") chars{ match // " ++ [128512]%N ++ runes_of_ascii " emoji
roots as Foo {
    10 :trueish
// trailing space 
// @lengthOf(
, },} , i8i8 ,@calculatedFrom( ""x y"" ) @calculatedFrom( ""a\""b"" ) repeat Z9_
{  f32a msg_type ,
repeat o{
// " ++ [128512]%N ++ runes_of_ascii " emoji
// @lengthOf(
zchar[ 0	]
charz @calculatedFrom(""CRC32"" ) ,
}
,}
    ,
} root
    packet	BodyLength
{ calculatedFrom
{
char[]x@calculatedFrom(
""\n""
)
    , // @lengthOf(
_x @calculatedFrom( ""`tick`""
    ),	repeat u128,float Packet
`" ++ [28040; 24687; 31867; 22411]%N ++ runes_of_ascii "`
    ,}
    , repeat Foo	{ uint64 a1
    // `tick` ""quote"" 'q'
    , } , /// triple
repeat char[ 42 ] matchKey `it's` ,	lengthOf{ // " ++ [27880; 37322]%N ++ runes_of_ascii "
u128 trueish  `// not a comment`, match
chars as MetaDataX {
00
    : x_y_z 1
: trueish, [ 0123456789 ]
    :	calculatedFrom , [
    ""CRC32"" ,	""\" ++ [233]%N ++ runes_of_ascii """
, ""// no comment""
    , ""it's"" ,	""packet""
    , 007 ] : Pad
,
} ,  } /// triple
, repeat char[] Logon // `tick` ""quote"" 'q'
, @leftPad
    ( '0' //x
) f32
    Pad
    @calculatedFrom(""CRC32"" ) , @lengthOf(
BodyLength )  options1 @calculatedFrom( ""`tick`"") , A {
// " ++ [27880; 37322]%N ++ runes_of_ascii "
//	t
uint8 charz`u8 x,`
, falsey x
`line1
line2`  , repeat
    int8 Packet
    ,zchar[ 1 ] float
    , }
, char[ 65535 ] matchKey
@calculatedFrom( //
""x y""
    ) // trailing space 
, @lengthOf( o//x
)match	chars
    as As {	1
    : f32a
,
} , }
packet
//	t
// packet A { u8 x, }
int
{ @calculatedFrom( // trailing space 
""// no comment"" ) @rightPad ( ) @calculatedFrom( """ ++ [233]%N ++ runes_of_ascii "t" ++ [233]%N ++ runes_of_ascii """ ) roots _x
/// triple
// trailing space 
`say ""hi""`	, // `tick` ""quote"" 'q'
} options { o= ""{,}"" Pad =
    255 ;  } // " ++ [27880; 37322]%N)).
Eval vm_compute in ("<<<M913>>>" ++ check (runes_of_ascii "MetaData trueish { f32
a1 `it's` , A // " ++ [128512]%N ++ runes_of_ascii " emoji
lengthOf`tab	here` , } MetaData	BodyLength
{
    // @lengthOf(
    char[
0123456789 ]stringy
//	t
// c
,
} packet string_ { @rightPad	('0' ) asx
    , @calculatedFrom(""abc""
    )repeat char[ 4294967296 // `tick` ""quote"" 'q'
] packetx ,
// a // b
// " ++ [27880; 37322]%N ++ runes_of_ascii "
repeat
o
    // " ++ [27880; 37322]%N ++ runes_of_ascii "
    { // `tick` ""quote"" 'q'
int64
u8x,repeat u32 leftPad
`a\`
, // packet A { u8 x, }
char[] charz `doc`
,zchar[
65535
] lengthOf@calculatedFrom(  ""a\\""
    )
, }  ,
    // " ++ [27880; 37322]%N ++ runes_of_ascii "
    leftPad
@calculatedFrom(	""// no comment"")`// not a comment` ,
    int32 int
,pack {zchar,
} // c
,repeat zchar[65535 ]
    // c
    x ,
@rightPad  (  '0' )
//x
// c
float32 Z9_
, @calculatedFrom(
// a // b
// " ++ [27880; 37322]%N ++ runes_of_ascii "
""`tick`""
    )
    match
uint8x
    as
Header // `tick` ""quote"" 'q'
{[42
    // " ++ [128512]%N ++ runes_of_ascii " emoji
    ]
    :f32a, 4294967296
    :
    matchKey , """ ++ [28040; 24687]%N ++ runes_of_ascii """
    /// triple
    : tag 1 :// a // b
body
, }
    ,
@tag(// a // b
007
    )@calculatedFrom( ""a\\"" ) @lengthOf(
metadata ) repeat chars ,}
packet roots { char[007
    ]
Foo@lengthOf(zchar ) `line1
line2` , @tag( 255 ) match crc as lengthOf {[ ""// no comment"" ]
:
    Header ,
    //x
    1 :// " ++ [128512]%N ++ runes_of_ascii " emoji
crc ,""\n"" :  options1 , [ 1, """ ++ [28040; 24687]%N ++ runes_of_ascii """
    ,
    00,	1, //	t
42 ,65535  ] : Z9_,}
//x
// a // b
,zchar[ 4294967296
] As `say ""hi""`
    ,	@lengthOf( stringy ) chars
{float32 u8x,} ,
    char[ 255 ] Pad
    @lengthOf(u8x ) ,
int64 metadata,
    // c
    uint8 x_y_z	@lengthOf(
    //
    Header )`two words`,	repeat zchar[ 42 ] calculatedFrom `it's`	, @rightPad
(
'\x00' )
    repeat
    crc
    // @lengthOf(
    {
    // trailing space 
    repeat As {
i64_`line1
line2` , } ,}
, }
")).
Eval vm_compute in ("<<<M497>>>" ++ check (runes_of_ascii "
root
packet  a1 { uint64
    charz
,
BodyLength	_x`
`
    ,	u64 roots `tab	here`	,
match calculatedFrom as calculatedFrom { 10:  leftPad } ,
i64_ @calculatedFrom( ""// no comment"" )
,
match
// a // b
/// triple
len as BodyLength { [ ""CRC32"" //x
, ""\" ++ [233]%N ++ runes_of_ascii """]
:  MetaDataX , } ,uint64 trueish `u8 x,`// trailing space 
, repeat
i32 options1
,// @lengthOf(
}
packet pack//	t
{float32 asx
    `a\` , int64 charz
    //	t
    @lengthOf(  repeatCount ) `" ++ [28040; 24687; 31867; 22411]%N ++ runes_of_ascii "`, @lengthOf(	u8x )
BodyLength @calculatedFrom(  ""a\\"")  , @lengthOf(
    Packet )repeat
    u32 Pad	,/// triple
}	packet options1{
    @rightPad  ('0'
    )i8i8  @lengthOf( stringy) ,
int64
    As ,	f64 crc
    @lengthOf( u128 ) , rootA @calculatedFrom( ""1"" ) `a\`	,
    }packet _x { repeat T x_y_z
// trailing space 
// @lengthOf(
`line1
line2`
, }root	packet //x
Foo
{ @lengthOf(
Logon
) @calculatedFrom( ""{,}""
    ) @calculatedFrom( ""`tick`"" )match roots// packet A { u8 x, }
as charz	{ 7 :
string_
//
// `tick` ""quote"" 'q'
},u64// trailing space 
u@calculatedFrom( ""\" ++ [233]%N ++ runes_of_ascii """ )
// trailing space 
// a // b
,
@tag(
007 )
    // packet A { u8 x, }
    @lengthOf( zchar ) match body as trueish
{ [ 10
, ""packet"" ,3 ,
    0 ,
    00 , """"	]
:repeatCount
    // a // b
    , // " ++ [128512]%N ++ runes_of_ascii " emoji
[ // `tick` ""quote"" 'q'
4294967296 ]  : Logon [ ""CRC32"" , ""it's""
] :  x_y_z ,} ,  T x
,Pad , u8x T
`{ , }`  ,@lengthOf( As
    ) match o as repeatCount// a // b
{[
    255  ] :uint8x// a // b
, } , u128 Foo ,} 	 ")).
Eval vm_compute in ("<<<M878>>>" ++ check (runes_of_ascii "root packet a1
{ uint64 body , @lengthOf(
rootA )
char[ 1
    ] zchar //
, BodyLength // @lengthOf(
,
string_
, char[] float
@lengthOf(lengthOf  ) , //
uint32 asx`" ++ [28040; 24687; 31867; 22411]%N ++ runes_of_ascii "` , char[]	uint8x @calculatedFrom( ""abc""
    )
, @tag( 255 )@calculatedFrom( ""a\\"" )zchar[
// a // b
// @lengthOf(
3 ]
    options1 ,
    } packet charz { @rightPad	( ' ' ) matchKey @lengthOf(u) `u8 x,` // @lengthOf(
,@lengthOf(len) @lengthOf(falsey)
    u @calculatedFrom( ""a\\"" ), match i8i8 as
    Packet {
    [""a	b"" ]
: roots // `tick` ""quote"" 'q'
,
    ""abc"":
    // trailing space 
    trueish	, [""a\\"",
    65535 ] // packet A { u8 x, }
:
    asx
0123456789:// " ++ [27880; 37322]%N ++ runes_of_ascii "
a1	, 1
// packet A { u8 x, }
//
:
    i64_ } ,  match len as Header {	[
    0
    , 0123456789 , 7 ,0 , ""\n""
    ,""a\\""
// a // b
//
]:
o
    , ""x y""
    // `tick` ""quote"" 'q'
    :
    crc [ 3 ,""\" ++ [233]%N ++ runes_of_ascii """  ]
    : lengthOf//
,  [10,""x y"" ] :
    u8x
1
:Packet /// triple
, 007 :
    Z9_ ,
} , @calculatedFrom(
""packet""
    ) @tag(65535) repeat Pad rootA , @tag(
4294967296  )@lengthOf(stringy ) crc //
@lengthOf( uint8x ) `" ++ [28040; 24687; 31867; 22411]%N ++ runes_of_ascii "` , }
    // @lengthOf(
    MetaData u8x { len
calculatedFrom	, // packet A { u8 x, }
u16 asx , } MetaData Logon
{ u16 chars  `` ,
A matchKey `a\`,char[007 ]Header , len uint8x,
    A Packet `line1
line2`
//	t
//x
,
string trueish
    `u8 x,` ,	}
")).
Eval vm_compute in ("<<<M3763>>>" ++ check (runes_of_ascii "packet matchKey {
    zchar[3] A,
    msg_type `a\`,
    MetaDataX As,
    @lengthOf(Z9_)
    repeat f32 _x,
    @lengthOf(Pad)
    uint32 Logon,// a // b
    @tag(4294967296)
    T `doc`,
    len,
    body {
        repeat o {
            match i8i8 as body {
                65535 : lengthOf,
                [""\n""] : i64_,
                3 : asx,
                [007, ""packet"", ""{,}"", ""// no comment""] : repeatCount,
                [7, 0123456789, ""// no comment"", ""\" ++ [233]%N ++ runes_of_ascii """, ""a\""b""] : roots,
            },
            match repeatCount as As {
                """" : o,
            },
        },
        zchar[0] BodyLength ``,
        lengthOf,
    },
    i16 Z9_,
}

packet tag {
    @tag(1)
    repeat float i8i8 `" ++ [28040; 24687; 31867; 22411]%N ++ runes_of_ascii "`,
    @rightPad()
    @lengthOf(_x)
    @rightPad('0')
    Packet,
    Foo @lengthOf(u128) `doc`,
    @tag(007)
    // packet A { u8 x, }
    string repeatCount,
    o {
        match leftPad as lengthOf {
            [0123456789, ""1""] : x_y_z,
            [""" ++ [128512]%N ++ runes_of_ascii """] : i8i8,
            [""a\""b"", ""a	b""] : Foo,
            [""\" ++ [233]%N ++ runes_of_ascii """] : Pad,
            [
                42, 3, 00, 7, ""a	b"",
                """ ++ [233]%N ++ runes_of_ascii "t" ++ [233]%N ++ runes_of_ascii """, """ ++ [28040; 24687]%N ++ runes_of_ascii """
            ] : packetx,
            42 : falsey,
        },
    },
}

packet body {
}")).
Eval vm_compute in ("<<<M534>>>" ++ check (runes_of_ascii "
packet
float
{ @leftPad ( // packet A { u8 x, }
'\x00' )
    i64_ {string Z9_
,} ,
    @tag( //x
0 )char[] u8x @calculatedFrom( ""a	b"" ) ,@lengthOf(	u128)int8
    u	`two words` ,
u64 Foo `a\` //x
, @leftPad// packet A { u8 x, }
(
    '0'
    )
repeat
//x
// " ++ [128512]%N ++ runes_of_ascii " emoji
repeatCount //x
{ repeat Pad {repeat  tag {
    char[
00 ] //	t
Logon `it's` , string_, }
    ,  match // " ++ [128512]%N ++ runes_of_ascii " emoji
As // c
as
    matchKey
    {
    7:lengthOf } ,
    match u128  as tag {
    [ 7 ]
    :// " ++ [128512]%N ++ runes_of_ascii " emoji
Packet
    //	t
    , """ ++ [28040; 24687]%N ++ runes_of_ascii """: Foo ,65535 // " ++ [128512]%N ++ runes_of_ascii " emoji
: calculatedFrom
//x
//x
}/// triple
, // a // b
} , // " ++ [128512]%N ++ runes_of_ascii " emoji
f32
options1 `doc`// c
, // trailing space 
} ,@leftPad ( '0'	) match  rootA // packet A { u8 x, }
as
i64_ {3
// " ++ [128512]%N ++ runes_of_ascii " emoji
//
: msg_type , ""abc"": rootA ,
    //	t
    [ ""CRC32"" ]
: float ,10 : pack ,""" ++ [128512]%N ++ runes_of_ascii """
:	tag } ,
@rightPad (
    // trailing space 
    '\x00')	char[ 65535] _x @calculatedFrom( """ ++ [128512]%N ++ runes_of_ascii """	), char[ 4294967296 ] lengthOf @calculatedFrom(""// no comment"" ) ,@leftPad (  ' ' )zchar[007 ] options1 ,/// triple
}	packet
    // " ++ [27880; 37322]%N ++ runes_of_ascii "
    rootA {
} packet charz
    { repeat
As`` ,} packet f32a {	}
    MetaData	roots { body matchKey `// not a comment`,
}
")).
Eval vm_compute in ("<<<M4011>>>" ++ check (runes_of_ascii "packet  u128

{

    @lengthOf(

    x_y_z

)
@lengthOf(
stringy
)
	@lengthOf( _x ) zchar[ 
    // c
    // c
	4294967296
    ] asx@calculatedFrom(""\" ++ [233]%N ++ runes_of_ascii """ 
)`
` ,

    char[  0
    ]
matchKey ,	rootA u128
    ,
	metadata
    metadata, zchar[3 ]string_
	`" ++ [233]%N ++ runes_of_ascii "` ,  
      // `tick` ""quote"" 'q'

	// " ++ [27880; 37322]%N ++ runes_of_ascii "
      @calculatedFrom(""a	b"" )
	char	roots  `" ++ [28040; 24687; 31867; 22411]%N ++ runes_of_ascii "`,  repeat
zchar[
	10
]

pack`
`,@calculatedFrom(	""{,}""  ) 
@lengthOf(  //	t
		Foo
    )
	packetx { // " ++ [128512]%N ++ runes_of_ascii " emoji
	match 
i8i8
    as

    Header {  255 :
Z9_ """ ++ [233]%N ++ runes_of_ascii "t" ++ [233]%N ++ runes_of_ascii """
: tag, [ 7 , 1  , 
""// no comment""
, 
""// no comment"",
    3
, """", 	 // `tick` ""quote"" 'q'

1
    ]
: lengthOf

3:
    asx
	,
    [ 
42

    , 0
    , 1
    ] :	Z9_  ,
10	: A }, 
} , }
	root
    packet
	T 
{/// triple
		int32
	roots`two words`  ,	stringy ,

    @rightPad

    (  '\x00') float64

len
	@lengthOf( 
o )
	,match body	// `tick` ""quote"" 'q'

as

    uint8x{ 10 
: 
tag,
}
,repeat

u8 Pad
    `" ++ [28040; 24687; 31867; 22411]%N ++ runes_of_ascii "`
	,

    repeat
	char[]
	float// c
    ,
	@calculatedFrom( ""packet"" 
) u16  x
    @lengthOf(u8x  )
        // c
  // a // b
  ,} 	 //x
")).
Eval vm_compute in ("<<<M1345>>>" ++ check (runes_of_ascii "
MetaData u128 { } packet string_
{ @lengthOf(	i64_
)
    /// triple
    repeat u16
    a1 , falsey	msg_type `doc`//
,@leftPad('\x00' )
u64 i64_
@calculatedFrom(
    //x
    """ ++ [28040; 24687]%N ++ runes_of_ascii """ )
,
    match
    body as len {""" ++ [128512]%N ++ runes_of_ascii """ :charz
    , //x
} , BodyLength
    `two words` // `tick` ""quote"" 'q'
,  @leftPad ( '0'
) repeat char
o
,
@tag( 42 // `tick` ""quote"" 'q'
) @tag( 1 )@calculatedFrom(""{,}""//
)
    u64 matchKey
@lengthOf( /// triple
charz)
    `// not a comment`
    ,	@calculatedFrom( ""1"")u8
A @lengthOf(
x_y_z )
    ,	@calculatedFrom( // a // b
""// no comment"" ) @lengthOf( falsey )	@calculatedFrom(""\" ++ [233]%N ++ runes_of_ascii """) match tag as f32a { [ ""\n""	, // " ++ [27880; 37322]%N ++ runes_of_ascii "
""x y"" ,
4294967296  , 00 , ""\n"" , 255
]:
    float ,
[ ""\" ++ [233]%N ++ runes_of_ascii """
] :packetx ,
    // " ++ [27880; 37322]%N ++ runes_of_ascii "
    0 :
Z9_
    , [
""" ++ [233]%N ++ runes_of_ascii "t" ++ [233]%N ++ runes_of_ascii """
]// `tick` ""quote"" 'q'
:	rootA
    ,} , } options{ f32a =
char[ 00 ]
    // `tick` ""quote"" 'q'
    ;
tag =
4294967296 ; rootA=""{,}"" } options
    {
//	t
// `tick` ""quote"" 'q'
msg_type =""\n"" ; f32a
=
""// no comment""
//x
// `tick` ""quote"" 'q'
; falsey = 65535 ;}
")).
Eval vm_compute in ("<<<M202>>>" ++ check (runes_of_ascii "root packet body{
@tag(
4294967296
    )
As @calculatedFrom(""" ++ [128512]%N ++ runes_of_ascii """ )
    `a\` , /// triple
} root packet
    uint8x
{ MetaDataX{ repeat
matchKey lengthOf , repeat u32 uint8x
// packet A { u8 x, }
// a // b
`doc`
    /// triple
    ,
} ,  } options { int // a // b
=
    ""abc"" } packet
    // trailing space 
    u8x {
} root
packet // " ++ [128512]%N ++ runes_of_ascii " emoji
falsey {repeat float32	u , repeat	char[]
// " ++ [128512]%N ++ runes_of_ascii " emoji
// packet A { u8 x, }
msg_type
    `
` , @leftPad ( ' ')
    @tag(255
)match Header as msg_type
    { 3 :uint8x
    ,
    255 :
x , // trailing space 
7 // " ++ [27880; 37322]%N ++ runes_of_ascii "
: leftPad
// c
// `tick` ""quote"" 'q'
""" ++ [28040; 24687]%N ++ runes_of_ascii """
// packet A { u8 x, }
// c
: Packet ,[ 4294967296
    ,""1"" ] :
    T , } ,
    //	t
    Logon @calculatedFrom( ""x y"")  `it's`
, string charz @calculatedFrom(
// " ++ [128512]%N ++ runes_of_ascii " emoji
//	t
""abc""
) ,
string options1	,
/// triple
/// triple
@lengthOf(
//
//x
As
    ) repeat zchar[ // `tick` ""quote"" 'q'
7 ]zchar , @lengthOf(
    crc)x_y_z
    @calculatedFrom(
""" ++ [28040; 24687]%N ++ runes_of_ascii """ ) ,
}
")).
Eval vm_compute in ("<<<M3833>>>" ++ check (runes_of_ascii "
packet

x  {
	u16 msg_type @lengthOf(

    BodyLength)	, // trailing space 
    @calculatedFrom( 
""" ++ [28040; 24687]%N ++ runes_of_ascii """ ) repeat
Header 
{  char[

    0123456789]// " ++ [128512]%N ++ runes_of_ascii " emoji

  repeatCount	, zchar[ 7 ]
    i64_ @calculatedFrom(

""" ++ [28040; 24687]%N ++ runes_of_ascii """) ,repeat
    T  zchar`tab	here` ,}

    ,uint8

    body

`doc`,
    repeat char[]i8i8  ,
	uint32 f32a@calculatedFrom(  ""`tick`""

    // packet A { u8 x, }

  // packet A { u8 x, }

	) ,  @rightPad(	' ')

    match	rootA
	as
	matchKey  {
42:
    lengthOf
// `tick` ""quote"" 'q'
	""// no comment""
:  Z9_

    ,[  ""a\\"" ,  /// triple

1 
]

: 
// @lengthOf(
len
	, 
10 
:
trueish	,
},
	f64
Logon  @lengthOf(
T)  //
		`crlf
line`

,match
/// triple
	// @lengthOf(
float
as
i8i8 {

""\n""
	:	i64_  ,
},
    @lengthOf(  u8x  )// trailing space 
@leftPad ('\x00')char[

    007
]
body
`it's` , 
@leftPad
(

'0' ) string 
crc
@calculatedFrom(

    ""a\\""  )`" ++ [28040; 24687; 31867; 22411]%N ++ runes_of_ascii "`  , } ")).
Eval vm_compute in ("<<<M4503>>>" ++ check (runes_of_ascii "  MetaData

    crc  {

    }
packet
options1 { u32  int @lengthOf( int )

,
@leftPad  
  /// triple
		( '\x00' ) repeat
string
uint8x	, @lengthOf(
    T

    )  zchar
trueish
, 
@leftPad
() int32  // a // b
	  i8i8@lengthOf(
u8x 

// " ++ [27880; 37322]%N ++ runes_of_ascii "
    	)  ,
	    // c
	// " ++ [27880; 37322]%N ++ runes_of_ascii "
    repeatCount @calculatedFrom( ""x y""
), Logon

    falsey ,

    }options {
    int
=	""\n"" //	t
    	len=
	true;  _x

    =
    char
As

    =	int16

    ;}packet
Z9_  {	repeat

rootA ,@lengthOf(
a1	)string_	trueish
`" ++ [233]%N ++ runes_of_ascii "` ,
    int8	Foo ,
@tag(007
)
    repeat  falsey

`// not a comment` 	 /// triple
  ,@tag(
0 ) f64 x

@calculatedFrom(

    ""a\\"" 
    // c

  )
`// not a comment` ,// `tick` ""quote"" 'q'
    uint64 Header

    ,
    u8
charz
@calculatedFrom(  """ ++ [128512]%N ++ runes_of_ascii """) `" ++ [28040; 24687; 31867; 22411]%N ++ runes_of_ascii "`,

i32 As
@lengthOf(
	a1

) 
`{ , }`
,  @calculatedFrom(
	""a	b""

    )  uint16 x 
, }
")).
Eval vm_compute in ("<<<M4333>>>" ++ check (runes_of_ascii "packet string_ 
{
A {	// trailing space 

zchar[
    1
] // a // b
	len
,match

leftPad  as
metadata {  
  // " ++ [27880; 37322]%N ++ runes_of_ascii "
    [
4294967296
,  4294967296  ,  00

,	1

    ,
    ""{,}"" 
,007  /// triple
  ,  7]

    : chars 
    /// triple
,	0  : 
i64_

    , }
,
}
    //	t
	,  uint8
    charz

`" ++ [233]%N ++ runes_of_ascii "` 
	    // trailing space 
,  charz  msg_type ,

    @rightPad (  ' ' )
@calculatedFrom(""it's"" ) repeat
    a1
    `it's` 
, //x

	repeat Logon  { 
int

    o

,
	metadata
, zchar[ 0  ]
	msg_type@calculatedFrom("""" )
	,
pack
    ,	}  , 
@calculatedFrom(

    ""it's""
)	char[
    00
	]
int
`u8 x,`  ,
i32 
charz  `{ , }` ,	repeat
	f64 As `" ++ [28040; 24687; 31867; 22411]%N ++ runes_of_ascii "`
    /// triple
// @lengthOf(
	, } MetaData 	 //

	metadata 
{
    string
falsey  , } packet

    o
	{float64 roots

@lengthOf(	body
), 
	    //

}")).
Eval vm_compute in ("<<<M220>>>" ++ check (runes_of_ascii "
MetaData BodyLength
{  int32 chars
    `u8 x,` , char[
0123456789 ] // c
matchKey `a\` ,
char[]
    //
    A , } packet//x
u128
    {}
packet rootA
{float64// c
roots ,  @lengthOf(
    float// `tick` ""quote"" 'q'
)//	t
repeat BodyLength { BodyLength{
    repeat
f64 Packet, char[ 7
/// triple
//	t
] As `doc` ,
}
    ,
} , calculatedFrom
{i16  o@lengthOf(
    Logon ) `doc`, Foo u128 ,	char// @lengthOf(
u @lengthOf(  _x
) ,  },@tag( 1  )@rightPad // `tick` ""quote"" 'q'
(' '
) char[]msg_type
// trailing space 
// trailing space 
, } packet
calculatedFrom
{
    char[] rootA@calculatedFrom( ""a	b"" ) ,
}	options
//	t
// packet A { u8 x, }
{
    o =
""// no comment"" matchKey
    = '\x00' ;
    u
    = """"
leftPad = ""CRC32""; A= ""CRC32"" ; } // trailing space ")).
Eval vm_compute in ("<<<M826>>>" ++ check (runes_of_ascii "packet As {// " ++ [27880; 37322]%N ++ runes_of_ascii "
@leftPad	( '0'
    /// triple
    ) @lengthOf( i64_ )
// @lengthOf(
/// triple
@leftPad (
    '\x00' )
    calculatedFrom  f32a,
match x	as x_y_z { """"
    // c
    : body ,
007
:
o
,
    [	""{,}"" ] :As, ""\n"" : stringy ,4294967296 : roots ,	}
,	calculatedFrom ,
match
Pad as asx
    { [ """ ++ [28040; 24687]%N ++ runes_of_ascii """ , ""1"" ,""a	b"" ,  3 ,""x y""
,00
    ,
10 , ""\" ++ [233]%N ++ runes_of_ascii """ ] :Pad 65535 :x 7
:x_y_z 3 : charz,""" ++ [233]%N ++ runes_of_ascii "t" ++ [233]%N ++ runes_of_ascii """
:lengthOf
} , @calculatedFrom(
    ""{,}"" )
@calculatedFrom( ""CRC32"" ) @calculatedFrom(""a	b"" )
/// triple
// trailing space 
crc As /// triple
,calculatedFrom{
char[]	x
    ``
    , } , @rightPad// `tick` ""quote"" 'q'
(
    '\x00' )
repeat char[]
    asx /// triple
`tab	here` ,f32a
{ repeat char u
,} // `tick` ""quote"" 'q'
,
}")).
Eval vm_compute in ("<<<M3723>>>" ++ check (runes_of_ascii "root packet As {
    repeat x msg_type,
}

MetaData crc {
    u8 x,
}

root packet Logon {
    @calculatedFrom(""1"")
    @rightPad(' ')
    @leftPad()
    string msg_type @lengthOf(uint8x) `a\`,
    match calculatedFrom as i8i8 {
        [""\" ++ [233]%N ++ runes_of_ascii """] : options1,
        // c
        1 : asx,
        [42, 42, 7, """ ++ [28040; 24687]%N ++ runes_of_ascii """, """"] : x_y_z,
        [0] : asx,
        //
        7 : u8x,
        [7] : u,
    },
}

MetaData repeatCount {
    float Foo,
    As i8i8,
}

packet tag {
    @leftPad(' ')
    match Z9_ as msg_type {
        //
        [
            10, 0, 255, 7, 0123456789,
            10, ""a\""b""
        ] : Logon,
        """ ++ [233]%N ++ runes_of_ascii "t" ++ [233]%N ++ runes_of_ascii """ : a1,
        7 : i64_,
        255 : leftPad,
    },
}")).
Eval vm_compute in ("<<<M4039>>>" ++ check (runes_of_ascii "
options

    {
int

=

""`tick`"" ;
Foo =
' '
    ;Foo
=""x y""
;x_y_z =
    ""x y"" 
    //	t
    ; }packet 
uint8x{
@lengthOf( 
int 

// `tick` ""quote"" 'q'
	// trailing space 

	) 
@tag(
	0
)Pad // `tick` ""quote"" 'q'
  ,
    u8
    x
,

    @lengthOf(

Z9_ ) f32 
BodyLength`crlf
line`  , repeat
    char[
255 
]f32a

    ,repeat 
msg_type

lengthOf 
,

    @leftPad('\x00' ) repeat int32 asx
,repeat
    string
f32a  //x
  ,// `tick` ""quote"" 'q'
	} MetaData  packetx {
int64	asx  ,
Foo	len 
`// not a comment`,

i32 MetaDataX

`" ++ [233]%N ++ runes_of_ascii "`

    ,
Foo
    Header `line1
line2` ,	zchar[ 0123456789]lengthOf
, float32 
metadata

, }

")).
Eval vm_compute in ("<<<M3657>>>" ++ check (runes_of_ascii "// top
packet // c0
Sub // c1a
  // c1b
{
    // c2
u8 // c3a
  // c3b
a // c4
,
    // c5
@calculatedFrom( // c6a
  // c6b
""CRC16"" // c7
) // c8a
  // c8b
u16 // c9
SubSum , } // c12a
  // c12b
root
    // c13
packet // c14a
  // c14b
Frame // c15a
  // c15b
{ // c16a
  // c16b
u16
    // c17
MsgType
    // c18
, u16 // c20a
  // c20b
BodyLen
    // c21
@lengthOf( Body // c23a
  // c23b
)
    // c24
, Sub Body
    // c27
, // c28
string // c29
note
    // c30
, @calculatedFrom( // c32a
  // c32b
""CRC16"" )
    // c34
u16 Checksum // c36
, // c37
u8
    // c38
tail // c39a
  // c39b
,
    // c40
} // c41
")).
Eval vm_compute in ("<<<M4088>>>" ++ check (runes_of_ascii "

  options {  tag=

false;
}  root packet MetaDataX {
    repeat a1{  // packet A { u8 x, }
		match options1
    as
_x {
    [
""1"" ]	:  
      //	t
		leftPad,
    """":	Z9_	, 
""a	b"": leftPad
    , 
    /// triple
// " ++ [128512]%N ++ runes_of_ascii " emoji
	} ,

}  ,
	o ,	// @lengthOf(
  @lengthOf(

x  )
calculatedFrom

    {	repeat charz ,char[ 0123456789 
] Pad	,} ,
    }	// a // b
MetaData roots
    {}packet
	    // `tick` ""quote"" 'q'
//	t

  T 
{  match	metadata  // " ++ [128512]%N ++ runes_of_ascii " emoji
as BodyLength 
{

0
	:
    Packet

    ,""" ++ [233]%N ++ runes_of_ascii "t" ++ [233]%N ++ runes_of_ascii """ : f32a	,	//x

	""// no comment""
	:
float  ,

    // packet A { u8 x, }

	//	t

  }

,} ")).
Eval vm_compute in ("<<<M336>>>" ++ check (runes_of_ascii "root
packet  lengthOf { @lengthOf(
    i64_ ) string repeatCount
    @calculatedFrom( """ ++ [28040; 24687]%N ++ runes_of_ascii """
)
    `doc` ,repeat
char[]	f32a `two words` //x
, @lengthOf( //x
i64_) char[]a1 ,//
match float as	BodyLength	{
"""" // " ++ [27880; 37322]%N ++ runes_of_ascii "
:tag , """ ++ [28040; 24687]%N ++ runes_of_ascii """ : roots
, ""// no comment""
    :
A ,
} , metadata , repeat // `tick` ""quote"" 'q'
char[
0123456789 ]
a1 `a\`, @leftPad (
    '\x00'
    )
    zchar lengthOf ,
    repeat
    // a // b
    char[] calculatedFrom
    // @lengthOf(
    , @rightPad( '\x00' ) @rightPad (
    '\x00' // " ++ [27880; 37322]%N ++ runes_of_ascii "
)
    i8
    BodyLength ,	}
options{ } options { }
")).
Eval vm_compute in ("<<<M316>>>" ++ check (runes_of_ascii "options { falsey
// " ++ [128512]%N ++ runes_of_ascii " emoji
// " ++ [27880; 37322]%N ++ runes_of_ascii "
= ""abc""; roots = // c
'0'	;MetaDataX
=
// " ++ [128512]%N ++ runes_of_ascii " emoji
// " ++ [128512]%N ++ runes_of_ascii " emoji
'0' ; //
crc= // " ++ [128512]%N ++ runes_of_ascii " emoji
42 // a // b
x	= '0'
; } packet A {  repeat uint64 u128 , @tag(
65535) int16
options1
    `line1
line2` , } options { // packet A { u8 x, }
int
=
""// no comment""msg_type  = zchar[ 0123456789
    /// triple
    ] ; calculatedFrom =// @lengthOf(
u8	;
    asx=
""" ++ [28040; 24687]%N ++ runes_of_ascii """ ; body = 10 } options { charz = true	metadata = char[]
; Packet// c
=  true}
packet Logon
{
@calculatedFrom( """ ++ [128512]%N ++ runes_of_ascii """ )
    repeat packetx rootA,}

")).
Eval vm_compute in ("<<<M4563>>>" ++ check (runes_of_ascii "
// top
    packet 
    // c0
	float
        // c1
    { 
	    // c2

  repeat
    // c3
  i8i8 
    // c4
	MetaDataX 
// c5
  `it's`

    // c6
  ,
	// c7
rootA
        // c8
  ,
	    // c9
  	repeat
	    // c10
  int8  
  // c11

	int 
    // c12
	, 
	// c13

  match  
      // c14
    repeatCount  
      // c15
	as
    // c16
  x_y_z
        // c17

{

// c18
  ""{,}""
	// c19
    	: 
      // c20
  Logon  
      // c21
  	,
        // c22
      }
	    // c23
  ,  
  // c24
    }
// c25
")).
Eval vm_compute in ("<<<M472>>>" ++ check (runes_of_ascii "MetaData a1{ f64
    int
    , i32
o	`two words` ,
char[3	] lengthOf
    , zchar[ 7
] Header , u32 x_y_z , char[3 ] matchKey
    ,
    }packet falsey{@lengthOf(
    i8i8 ) match MetaDataX	as calculatedFrom  { 00
:
float  , // " ++ [27880; 37322]%N ++ runes_of_ascii "
7 // " ++ [128512]%N ++ runes_of_ascii " emoji
: MetaDataX
,""" ++ [28040; 24687]%N ++ runes_of_ascii """ :
    options1 , [ ""a\\"" // packet A { u8 x, }
]: charz	,
},match T
    // trailing space 
    as Z9_ { [
    ""it's"" ] : falsey //
,
255	:Foo , ""a\\""
    : Header , }, }
    MetaData
    lengthOf { As rootA `doc` , }
")).
Eval vm_compute in ("<<<M3207>>>" ++ check (runes_of_ascii "// top
options
    // c0
{ charz // c2
= // c3a
  // c3b
f64 // c4a
  // c4b
; // c5a
  // c5b
metadata = // c7
7 // c8a
  // c8b
; // c9a
  // c9b
} // c10
options
    // c11
{
    // c12
u128 // c13
=
    // c14
10 // c15
options1 // c16
= // c17
true
    // c18
; zchar // c20
=
    // c21
uint16
    // c22
; lengthOf
    // c24
=
    // c25
true
    // c26
;
    // c27
} // c28a
  // c28b
options // c29
{
    // c30
len = // c32
1
    // c33
}
    // c34
")).
Eval vm_compute in ("<<<M3780>>>" ++ check (runes_of_ascii "MetaData u {
    int8 body,
    string Packet,
}

options {
    matchKey = float64;
}

packet roots {
    @calculatedFrom(""abc"")
    match MetaDataX as _x {
        007 : o,
        [
            42, 65535, 1, 65535, 4294967296,
            00, ""x y"", ""a	b""
        ] : f32a,
        ""CRC32"" : repeatCount,
        ""CRC32"" : u128,
    },
}

options {
}

MetaData uint8x {
    char[] u128,
    body crc `
    `,
    lengthOf rootA,
    i8 crc,
}")).
Eval vm_compute in ("<<<M1090>>>" ++ check (runes_of_ascii "root packet MetaDataX
{@leftPad ( '\x00' ) i8i8 @lengthOf( charz
) ,repeat
u8x `crlf
line` ,
    zchar
    `line1
line2`
, @lengthOf( stringy
    )repeat
char[ 00] // trailing space 
packetx , }
    /// triple
    root packet
charz { match
    repeatCount
    as
float {
    //	t
    0123456789
    // a // b
    : Packet ,	}
    , string
    // trailing space 
    x_y_z	@calculatedFrom(
    ""\n"" )
,
    }  options
{ }")).
Eval vm_compute in ("<<<M4572>>>" ++ check (runes_of_ascii "
// " ++ [128512]%N ++ runes_of_ascii " emoji
    	packet

i64_  { match
repeatCount as u8x {	// packet A { u8 x, }
7 :
crc,
} , 
repeat  uint32
roots
,
}	packet
	options1{ match 
MetaDataX
    as
    chars {
""CRC32"":  tag
, 00
:lengthOf 	 // a // b
	  , """ ++ [233]%N ++ runes_of_ascii "t" ++ [233]%N ++ runes_of_ascii """ :_x , } ,
uint16

trueish ,
    char[	10
    ]
calculatedFrom
    ,

    @calculatedFrom(  ""a\\""	) @tag(65535)	@rightPad ( '\x00'  )

    repeat
	int32
    len  , }
")).
Eval vm_compute in ("<<<M574>>>" ++ check (runes_of_ascii "packet trueish { @tag( 65535	) //
char[  7] rootA // " ++ [128512]%N ++ runes_of_ascii " emoji
`{ , }`,repeat _x// @lengthOf(
{ _x	T ,
    },lengthOf @lengthOf( crc	) ,  metadata trueish `tab	here`,	@rightPad
()	u16 packetx
`u8 x,` , repeat
leftPad
,  @lengthOf( u8x
) repeat
int32 MetaDataX `a\` , //	t
@tag(42  )
    repeat
lengthOf, @lengthOf( x )@calculatedFrom(""1""
) zchar[ 65535
    ] lengthOf`u8 x,` ,
    }")).
Eval vm_compute in ("<<<M3546>>>" ++ check (runes_of_ascii "// top
packet
    // c0
B
    // c1
{ // c2
u8 // c3
a // c4
, } // c6
root packet
    // c8
P {
    // c10
u8 K , // c13a
  // c13b
u64
    // c14
L // c15a
  // c15b
@lengthOf(
    // c16
Body // c17
)
    // c18
, match // c20a
  // c20b
K // c21a
  // c21b
as // c22a
  // c22b
Body
    // c23
{ 1 : // c26a
  // c26b
B , // c28a
  // c28b
} , // c30
}
    // c31
")).
Eval vm_compute in ("<<<M3964>>>" ++ check (runes_of_ascii "
//
	root 
packet 
Foo	{
    char[]  //
leftPad 	 // trailing space 
  ,	}
options
{

}
root
packet

    i64_

    {

    @lengthOf(
	x_y_z	)	@calculatedFrom(
""abc""
)@lengthOf( 
leftPad
	) repeat
    body zchar

    `it's` ,
char[]  metadata 
@lengthOf(  MetaDataX 
	//	t

  /// triple
)`doc`
,repeat	Foo 
Header	,	/// triple
    	}
")).
Eval vm_compute in ("<<<M1131>>>" ++ check (runes_of_ascii "packet
int // a // b
{  match pack as charz {10  :// a // b
i8i8,// @lengthOf(
10 : MetaDataX , [ 42 ]:options1 , } , repeat uint16 zchar , char[007
    ] asx ,
@lengthOf(// " ++ [27880; 37322]%N ++ runes_of_ascii "
As
)  @calculatedFrom( ""1"" )
    lengthOf  @lengthOf(
BodyLength
    )`tab	here`
,char[]T `// not a comment` ,// packet A { u8 x, }
@leftPad(
) packetx , }")).
Eval vm_compute in ("<<<M586>>>" ++ check (runes_of_ascii "options{	i8i8 = 65535
; asx/// triple
=
float64 charz	= ""`tick`"" As//
=
    7 ;
    i8i8 = ""\n"" }
// `tick` ""quote"" 'q'
// " ++ [27880; 37322]%N ++ runes_of_ascii "
packet u{ } options	{
// packet A { u8 x, }
/// triple
f32a =10 chars // trailing space 
=
""\" ++ [233]%N ++ runes_of_ascii """ x =uint8 ;
metadata =42 ;  lengthOf =true ;}
    options {
// " ++ [27880; 37322]%N ++ runes_of_ascii "
// " ++ [128512]%N ++ runes_of_ascii " emoji
BodyLength = true
    ; }")).
Eval vm_compute in ("<<<M1893>>>" ++ check (runes_of_ascii "MetaData
    u { }  options {
// c
// @lengthOf(
float zchar[ int8 ;rootA =false ; As =	int16 // `tick` ""quote"" 'q'
repeatCount
    // trailing space 
    =
    int16
; u8x =
    //	t
    '\x00' ; } options	{
    repeatCount
= 0
u128
    //
    = false ; i64_
// trailing space 
// `tick` ""quote"" 'q'
= '0' ; //	t
}
")).
Eval vm_compute in ("<<<M1891>>>" ++ check (runes_of_ascii "MetaData
    u { }  options {
// c
// @lengthOf(
float = = int8 ;rootA =false ; As =	int16 // `tick` ""quote"" 'q'
repeatCount
    // trailing space 
    =
    int16
; u8x =
    //	t
    '\x00' ; } options	{
    repeatCount
= 0
u128
    //
    = false ; i64_
// trailing space 
// `tick` ""quote"" 'q'
= '0' ; //	t
}
")).
Eval vm_compute in ("<<<M1907>>>" ++ check (runes_of_ascii "MetaData
    u { }  options {
// c
// @lengthOf(
float = int8 ;= rootA false ; As =	int16 // `tick` ""quote"" 'q'
repeatCount
    // trailing space 
    =
    int16
; u8x =
    //	t
    '\x00' ; } options	{
    repeatCount
= 0
u128
    //
    = false ; i64_
// trailing space 
// `tick` ""quote"" 'q'
= '0' ; //	t
}
")).
Eval vm_compute in ("<<<M1952>>>" ++ check (runes_of_ascii "MetaData
    u { }  options {
// c
// @lengthOf(
float = int8 ;rootA =false ; As =	int16 // `tick` ""quote"" 'q'
repeatCount
    // trailing space 
    =
    ;
int16 u8x =
    //	t
    '\x00' ; } options	{
    repeatCount
= 0
u128
    //
    = false ; i64_
// trailing space 
// `tick` ""quote"" 'q'
= '0' ; //	t
}
")).
Eval vm_compute in ("<<<M1900>>>" ++ check (runes_of_ascii "MetaData
    u { }  options {
// c
// @lengthOf(
float = int8 rootA =false ; As =	int16 // `tick` ""quote"" 'q'
repeatCount
    // trailing space 
    =
    int16
; u8x =
    //	t
    '\x00' ; } options	{
    repeatCount
= 0
u128
    //
    = false ; i64_
// trailing space 
// `tick` ""quote"" 'q'
= '0' ; //	t
}
")).
Eval vm_compute in ("<<<M1953>>>" ++ check (runes_of_ascii "MetaData
    u { }  options {
// c
// @lengthOf(
float = int8 ;rootA =false ; As =	int16 // `tick` ""quote"" 'q'
repeatCount
    // trailing space 
    =
    {
; u8x =
    //	t
    '\x00' ; } options	{
    repeatCount
= 0
u128
    //
    = false ; i64_
// trailing space 
// `tick` ""quote"" 'q'
= '0' ; //	t
}
")).
Eval vm_compute in ("<<<M2049>>>" ++ check (runes_of_ascii "MetaData
    u { }  options {
// c
// @lengthOf(
float = int8 ;rootA =false ; As =	int16 // `tick` ""quote"" 'q'
repeatCount
    // trailing space 
    =
    int16
; u8x =
    //	t
    '\x00' ; } options	{
    repeatCount
= 0
u128
    //
    = false ; i64_
// trailing space 
// `tick` ""quote"" 'q'
= '0'")).
Eval vm_compute in ("<<<M4027>>>" ++ check (runes_of_ascii "// top
packet A {
    // c2
    u8 a,// c5a
}

packet B {
    // c9a
    // c9b
    u16 b,
}// c13

root packet P {
    // c17
    u8 K1,// c20a
    // c20b
    u8 K2,// c23
    match K1 as M1 {
        // c28a
        // c28b
        1 : A,
    },
    match K2 as M2 {
        1 : B,
    },
}")).
Eval vm_compute in ("<<<M4145>>>" ++ check (runes_of_ascii "root packet u128 {
}

MetaData u128 {
    int32 chars,
    i8 pack,
    i8i8 options1,
    char[] matchKey,
    string msg_type `doc`,
    string charz,
}

// `tick` ""quote"" 'q'
packet BodyLength {
    @lengthOf(As)
    repeat _x {
        i64_,
    },
    repeat char[3] roots,
}")).
Eval vm_compute in ("<<<M1543>>>" ++ check (runes_of_ascii "packet
//	t
// trailing space 
_x {
// packet A { u8 x, }
// c
char[
3
    ] u8x @lengthOf(
u8x ) , @calculatedFrom( @calculatedFrom(""" ++ [128512]%N ++ runes_of_ascii """ // @lengthOf(
)
i16	Foo
@lengthOf(	string_
    )`doc`	, repeat	i64 metadata , @lengthOf( string_
) i8 // c
u  `line1
line2`	,
}
")).
Eval vm_compute in ("<<<M1625>>>" ++ check (runes_of_ascii "packet
//	t
// trailing space 
_x {
// packet A { u8 x, }
// c
char[
3
    ] u8x @lengthOf(
u8x ) , @calculatedFrom(""" ++ [128512]%N ++ runes_of_ascii """ // @lengthOf(
)
i16	Foo
@lengthOf(	string_
    )`doc`	, repeat	i64 metadata , @lengthOf( string_
@lengthOf( i8 // c
u  `line1
line2`	,
}
")).
Eval vm_compute in ("<<<M1598>>>" ++ check (runes_of_ascii "packet
//	t
// trailing space 
_x {
// packet A { u8 x, }
// c
char[
3
    ] u8x @lengthOf(
u8x ) , @calculatedFrom(""" ++ [128512]%N ++ runes_of_ascii """ // @lengthOf(
)
i16	Foo
@lengthOf(	string_
    )`doc`	, repeat	i64 i64 metadata , @lengthOf( string_
) i8 // c
u  `line1
line2`	,
}
")).
Eval vm_compute in ("<<<M1495>>>" ++ check (runes_of_ascii "packet
//	t
// trailing space 
i16 {
// packet A { u8 x, }
// c
char[
3
    ] u8x @lengthOf(
u8x ) , @calculatedFrom(""" ++ [128512]%N ++ runes_of_ascii """ // @lengthOf(
)
i16	Foo
@lengthOf(	string_
    )`doc`	, repeat	i64 metadata , @lengthOf( string_
) i8 // c
u  `line1
line2`	,
}
")).
Eval vm_compute in ("<<<M1549>>>" ++ check (runes_of_ascii "packet
//	t
// trailing space 
_x {
// packet A { u8 x, }
// c
char[
3
    ] u8x @lengthOf(
u8x ) , @calculatedFrom() // @lengthOf(
""" ++ [128512]%N ++ runes_of_ascii """
i16	Foo
@lengthOf(	string_
    )`doc`	, repeat	i64 metadata , @lengthOf( string_
) i8 // c
u  `line1
line2`	,
}
")).
Eval vm_compute in ("<<<M1537>>>" ++ check (runes_of_ascii "packet
//	t
// trailing space 
_x {
// packet A { u8 x, }
// c
char[
3
    ] u8x @lengthOf(
u8x )  @calculatedFrom(""" ++ [128512]%N ++ runes_of_ascii """ // @lengthOf(
)
i16	Foo
@lengthOf(	string_
    )`doc`	, repeat	i64 metadata , @lengthOf( string_
) i8 // c
u  `line1
line2`	,
}
")).
Eval vm_compute in ("<<<M1582>>>" ++ check (runes_of_ascii "packet
//	t
// trailing space 
_x {
// packet A { u8 x, }
// c
char[
3
    ] u8x @lengthOf(
u8x ) , @calculatedFrom(""" ++ [128512]%N ++ runes_of_ascii """ // @lengthOf(
)
i16	Foo
@lengthOf(	string_
    )	, repeat	i64 metadata , @lengthOf( string_
) i8 // c
u  `line1
line2`	,
}
")).
Eval vm_compute in ("<<<M4160>>>" ++ check (runes_of_ascii "MetaData a1
{
	char[]

    repeatCount

`it's`

, char[ 
4294967296 	 // @lengthOf(
]i8i8// c
    `// not a comment` 
    // packet A { u8 x, }

	,

    // @lengthOf(

/// triple
  float32 zchar
	,	}
packet
    calculatedFrom
	{

    }
")).
Eval vm_compute in ("<<<M504>>>" ++ check (runes_of_ascii "
packet Z9_ { } // " ++ [27880; 37322]%N ++ runes_of_ascii "
MetaData packetx
{ u8 x_y_z
    `it's` , } packet options1
    {
uint16 rootA
    `" ++ [28040; 24687; 31867; 22411]%N ++ runes_of_ascii "`
//x
// `tick` ""quote"" 'q'
, // " ++ [128512]%N ++ runes_of_ascii " emoji
repeat string stringy`" ++ [233]%N ++ runes_of_ascii "` ,
    char[] // @lengthOf(
repeatCount `" ++ [28040; 24687; 31867; 22411]%N ++ runes_of_ascii "`
,
    }")).
Eval vm_compute in ("<<<M2004>>>" ++ check (runes_of_ascii "MetaData
    u { }  options {
// c
// @lengthOf(
float = int8 ;rootA =false ; As =	int16 // `tick` ""quote"" 'q'
repeatCount
    // trailing space 
    =
    int16
; u8x =
    //	t
    '\x00' ; } options	{
    repeatCount")).
Eval vm_compute in ("<<<M764>>>" ++ check (runes_of_ascii "MetaData// packet A { u8 x, }
matchKey { u64
leftPad
    //x
    ,
u32 T `it's` , uint8 x,
    // packet A { u8 x, }
    char[] f32a	`say ""hi""`
, f64// trailing space 
stringy ``	, lengthOf
Packet  `say ""hi""`, }")).
Eval vm_compute in ("<<<M1712>>>" ++ check (runes_of_ascii "options { trueish = ""`tick`"" ; string_= """ ++ [233]%N ++ runes_of_ascii "t" ++ [233]%N ++ runes_of_ascii """ """ ++ [233]%N ++ runes_of_ascii "t" ++ [233]%N ++ runes_of_ascii """
    // c
    } root
    packet body { stringy @calculatedFrom(
""a	b"" ) `line1
line2` , }
packet Logon {
    @leftPad(
    ' ' ) //	t
u16 string_ `u8 x,` ,
}
")).
Eval vm_compute in ("<<<M1717>>>" ++ check (runes_of_ascii "options { trueish = ""`tick`"" ; string_= """ ++ [233]%N ++ runes_of_ascii "t" ++ [233]%N ++ runes_of_ascii """
    // c
    } } root
    packet body { stringy @calculatedFrom(
""a	b"" ) `line1
line2` , }
packet Logon {
    @leftPad(
    ' ' ) //	t
u16 string_ `u8 x,` ,
}
")).
Eval vm_compute in ("<<<M3993>>>" ++ check (runes_of_ascii "options {
    trueish = ""`tick`"";
    string_ = """ ++ [233]%N ++ runes_of_ascii "t" ++ [233]%N ++ runes_of_ascii """
}

root packet body {
    stringy @calculatedFrom(""a	b"") `line1
        line2`,
}

packet Logon {
    @leftPad(' ')
    //	t
    i64 string_ `u8 x,`,
}")).
Eval vm_compute in ("<<<M1798>>>" ++ check (runes_of_ascii "options { trueish = ""`tick`"" ; string_= """ ++ [233]%N ++ runes_of_ascii "t" ++ [233]%N ++ runes_of_ascii """
    // c
    } root
    packet body { stringy @calculatedFrom(
""a	b"" ) `line1
line2` , }
packet Logon {
    @leftPad' '
    ( ) //	t
u16 string_ `u8 x,` ,
}
")).
Eval vm_compute in ("<<<M1853>>>" ++ check (runes_of_ascii "options { trueish = ""`tick`"" ; string_= """ ++ [233]%N ++ runes_of_ascii "t" ++ [233]%N ++ runes_of_ascii """
    // c
    } root
    packet body { na" ++ [239]%N ++ runes_of_ascii "ve @calculatedFrom(
""a	b"" ) `line1
line2` , }
packet Logon {
    @leftPad(
    ' ' ) //	t
u16 string_ `u8 x,` ,
}
")).
Eval vm_compute in ("<<<M690>>>" ++ check (runes_of_ascii "packet // a // b
rootA {Z9_ // c
u `doc`, // packet A { u8 x, }
i16 options1 `// not a comment` , @rightPad
(
' '
    )	lengthOf
{	zchar[// a // b
3 // packet A { u8 x, }
] body,
    }
    , } 	 ")).
Eval vm_compute in ("<<<M1984>>>" ++ check (runes_of_ascii "MetaData
    u { }  options {
// c
// @lengthOf(
float = int8 ;rootA =false ; As =	int16 // `tick` ""quote"" 'q'
repeatCount
    // trailing space 
    =
    int16
; u8x =
    //	t
    '\x00' ;")).
Eval vm_compute in ("<<<M3210>>>" ++ check (runes_of_ascii "packet metadata // c1a
  // c1b
{ Logon // c3
{ // c4
A `" ++ [28040; 24687; 31867; 22411]%N ++ runes_of_ascii "`
    // c6
, // c7a
  // c7b
tag o , // c10a
  // c10b
} // c11a
  // c11b
, // c12
zchar len // c14
`// not a comment` , } ")).
Eval vm_compute in ("<<<M967>>>" ++ check (runes_of_ascii "packet
f32a {int16 x	@calculatedFrom( ""{,}"" ) ,  repeat char[]
    As	, repeat char[] u128 , stringy @calculatedFrom( ""a	b"") ,
    } MetaData A
    { zchar[
    65535	] //
body,}")).
Eval vm_compute in ("<<<M3887>>>" ++ check (runes_of_ascii "
MetaData options1	{
	lengthOf As
	,char[

    255	] crc
, char[]leftPad

    ,As 
    //	t
    	//
    leftPad,
    uint16 
u128 ,f32	//
	x`{ , }`
, } 

    //	t
 
")).
Eval vm_compute in ("<<<M1257>>>" ++ check (runes_of_ascii "root packet falsey {
repeat char[] leftPad	, repeat
f64 // " ++ [128512]%N ++ runes_of_ascii " emoji
_x `{ , }` , @tag(  0)
    // `tick` ""quote"" 'q'
    uint64 float
    @calculatedFrom(""{,}"") , }
")).
Eval vm_compute in ("<<<M2405>>>" ++ check (runes_of_ascii "// c
packet packet x { @lengthOf( metadata ) repeat lengthOf
,a1{
trueish	,// c
repeat//	t
MetaDataX , } , zchar[
    42	] rootA // `tick` ""quote"" 'q'
,
    }
")).
Eval vm_compute in ("<<<M4424>>>" ++ check (runes_of_ascii "packet x_y_z {
    @lengthOf(roots)
    u32 Pad `{ , }`,
    // packet A { u8 x, }
    repeat body {
        repeat body roots `line1
        line2`,
    },
}")).
Eval vm_compute in ("<<<M2374>>>" ++ check (runes_of_ascii "// c
packet x { @lengthOf( metadata ) repeat lengthOf
10 a1{
trueish	,// c
repeat//	t
MetaDataX , } , zchar[
    42	] rootA // `tick` ""quote"" 'q'
,
    }
")).
Eval vm_compute in ("<<<M2130>>>" ++ check (runes_of_ascii "options{
_x
= true
} options
{ o	= /// triple
false
    ; ; chars
= ""\n"" } root packet	Pad
/// triple
// packet A { u8 x, }
{	chars
    // a // b
    ,}")).
Eval vm_compute in ("<<<M2082>>>" ++ check (runes_of_ascii "options _x
{
= true
} options
{ o	= /// triple
false
    ; chars
= ""\n"" } root packet	Pad
/// triple
// packet A { u8 x, }
{	chars
    // a // b
    ,}")).
Eval vm_compute in ("<<<M2106>>>" ++ check (runes_of_ascii "options{
_x
= true
} {
options o	= /// triple
false
    ; chars
= ""\n"" } root packet	Pad
/// triple
// packet A { u8 x, }
{	chars
    // a // b
    ,}")).
Eval vm_compute in ("<<<M2129>>>" ++ check (runes_of_ascii "options{
_x
= true
} options
{ o	= /// triple
false
     chars
= ""\n"" } root packet	Pad
/// triple
// packet A { u8 x, }
{	chars
    // a // b
    ,}")).
Eval vm_compute in ("<<<M3751>>>" ++ check (runes_of_ascii "/// triple

	options {Header
	=
65535;
    calculatedFrom
    =
    ""x y""
	trueish =
	true  i8i8= false metadata// trailing space 
  =
""" ++ [28040; 24687]%N ++ runes_of_ascii """
	; }

")).
Eval vm_compute in ("<<<M2384>>>" ++ check (runes_of_ascii "// c
packet x { @lengthOf( metadata ) repeat lengthOf
,a1{
trueish	,// c
repeat//	t
MetaDataX , } , zchar[
    42	] rootA // `tick` ""quote"" 'q'
,")).
Eval vm_compute in ("<<<M4460>>>" ++ check (runes_of_ascii "
options

    {
    MetaDataX =
""\" ++ [233]%N ++ runes_of_ascii """ 
}
options

{ 

// @lengthOf(
    //	t
    Logon
	=""1""  x_y_z

= 65535 
}
	MetaData 
    //	t
	u8x{}
")).
Eval vm_compute in ("<<<M3678>>>" ++ check (runes_of_ascii "

  options

    { 
Logon
    = char[
0
] 
;

}

packet	chars
    {  u8
u
    `u8 x,`

    , 
}options

    {
metadata
=
	0
    }
")).
Eval vm_compute in ("<<<M4212>>>" ++ check (runes_of_ascii "  options { }

    packet As
{f32 int @calculatedFrom( 
""{,}"" )
	, u8	packetx
	,
u128 
len
    ,

}

packet

    options1	{}
")).
Eval vm_compute in ("<<<M4203>>>" ++ check (runes_of_ascii "packet

    metadata
{  Logon

    { A `" ++ [28040; 24687; 31867; 22411]%N ++ runes_of_ascii "`, tag

    o
, }

,
    zchar  
  // c
      len
	`// not a comment`
	,
	} ")).
Eval vm_compute in ("<<<M1009>>>" ++ check (runes_of_ascii "root packet // @lengthOf(
options1
{ repeat f32a, @calculatedFrom( ""\n"" )
    i8 Packet ,
    }  options { a1 = uint64  ;
}")).
Eval vm_compute in ("<<<M3310>>>" ++ check (runes_of_ascii "// c
root packet matchKey { zchar[ 3 ] pack @calculatedFrom( ""a	b"" ) `doc` , } options { } MetaData A { int8 msg_type , }")).
Eval vm_compute in ("<<<M3343>>>" ++ check (runes_of_ascii "root packet matchKey { zchar[ 3 ] pack @calculatedFrom( ""a	b"" ) `doc` , } options {
// c
} MetaData A { int8 msg_type , }")).
Eval vm_compute in ("<<<M1477>>>" ++ check (runes_of_ascii "
packet
    falsey { Header@calculatedFrom(""packet""  ) , char[
    0123456789 ] packetx
    " ++ [8232]%N ++ runes_of_ascii " , } // `tick` ""quote"" 'q'")).
Eval vm_compute in ("<<<M1429>>>" ++ check (runes_of_ascii "
packet
    falsey { Header@calculatedFrom(""packet""  , ) char[
    0123456789 ] packetx
    , } // `tick` ""quote"" 'q'")).
Eval vm_compute in ("<<<M4184>>>" ++ check (runes_of_ascii "MetaData metadata {
    char[65535] x,
    char[] u128,
    pack Z9_,
}

packet a1 {
    repeat float repeatCount,
}")).
Eval vm_compute in ("<<<M4140>>>" ++ check (runes_of_ascii "root packet options1 {
    repeat f32a,
    @calculatedFrom(""\n"")
    i8 Packet,
}

options {
    a1 = uint64;
}")).
Eval vm_compute in ("<<<M1422>>>" ++ check (runes_of_ascii "
packet
    falsey { Header@calculatedFrom(  ) , char[
    0123456789 ] packetx
    , } // `tick` ""quote"" 'q'")).
Eval vm_compute in ("<<<M864>>>" ++ check (runes_of_ascii "options	{ T = // packet A { u8 x, }
true;_x = false	; A
= ""{,}"" ; leftPad=	zchar[ 0 ] ; trueish=
1 ;//
}")).
Eval vm_compute in ("<<<M289>>>" ++ check (runes_of_ascii "packet a1 {
}
options{
MetaDataX = ""`tick`"" uint8x = false; f32a = zchar[	00] ; } // `tick` ""quote"" 'q'")).
Eval vm_compute in ("<<<M1653>>>" ++ check (runes_of_ascii "packet
//	t
// trailing space 
_x {
// packet A { u8 x, }
// c
char[
3
    ] u8x @lengthOf(
u8x ) , ")).
Eval vm_compute in ("<<<M2959>>>" ++ check (runes_of_ascii "packet A {
  match k as n {
    [""a"", ""bb"", 007, ""d"", ""e"", 66, ""g"", ""h"", 9] : B,
    2 : C
  },
}")).
Eval vm_compute in ("<<<M4461>>>" ++ check (runes_of_ascii "// c
    packet

metadata {
Logon {

A`" ++ [28040; 24687; 31867; 22411]%N ++ runes_of_ascii "`
,tag  o
,
} ,
zchar	len`// not a comment` ,}

")).
Eval vm_compute in ("<<<M1365>>>" ++ check (runes_of_ascii "MetaData x_y_z {
    // " ++ [128512]%N ++ runes_of_ascii " emoji
    x
    i8i8 `// not a comment` ,pack _x, //x
i64_ len ,
}")).
Eval vm_compute in ("<<<M2942>>>" ++ check (runes_of_ascii "packet A {
  match k as n {
    [""a"", 22, ""c c"", 4, ""e"", 66, ""g"", 8] : B,
    2 : C
  },
}")).
Eval vm_compute in ("<<<M3279>>>" ++ check (runes_of_ascii "MetaData float { float64 charz `
` // c
, } root packet chars { @rightPad ( '0' ) Foo , }")).
Eval vm_compute in ("<<<M3490>>>" ++ check (runes_of_ascii "packet chars {
// c
} packet MetaDataX { @tag( 42 ) i16 string_ , repeat x `say ""hi""` , }")).
Eval vm_compute in ("<<<M4554>>>" ++ check (runes_of_ascii "  packet

A {

u16// a
  len// b
	@lengthOf(  // c
body	// d
    )	// e
	`d`// f
  ,	} ")).
Eval vm_compute in ("<<<M2296>>>" ++ check (runes_of_ascii "options
{ } options { ""BodyLength= u16 Header= f64 ; u128 =
    true
    ; } // a // b")).
Eval vm_compute in ("<<<M2218>>>" ++ check (runes_of_ascii "options
{ options } { BodyLength= u16 Header= f64 ; u128 =
    true
    ; } // a // b")).
Eval vm_compute in ("<<<M3229>>>" ++ check (runes_of_ascii "packet metadata { Logon { A `" ++ [28040; 24687; 31867; 22411]%N ++ runes_of_ascii "` , tag // c
o , } , zchar len `// not a comment` , }")).
Eval vm_compute in ("<<<M2236>>>" ++ check (runes_of_ascii "options
{ } options { BodyLength u16 Header= f64 ; u128 =
    true
    ; } // a // b")).
Eval vm_compute in ("<<<M3449>>>" ++ check (runes_of_ascii "packet o { repeat Logon uint8x , } options { asx // c
= zchar[ 3 ] stringy = '\x00' }")).
Eval vm_compute in ("<<<M4573>>>" ++ check (runes_of_ascii "packet stringy {
    @lengthOf(crc)
    string repeatCount @calculatedFrom(""{,}""),
}")).
Eval vm_compute in ("<<<M3394>>>" ++ check (runes_of_ascii "MetaData // c
body { i64 pack `it's` , } packet stringy { int16 calculatedFrom , }")).
Eval vm_compute in ("<<<M1166>>>" ++ check (runes_of_ascii "/// triple
options
{ Z9_ =
007;
// a // b
//
Pad =0123456789
u  = ""CRC32""
    }
")).
Eval vm_compute in ("<<<M2908>>>" ++ check (runes_of_ascii "packet A {
  match k as n {
    [""a"", ""bb"", 007, ""d"", ""e""] : B
    2 : C
  },
}")).
Eval vm_compute in ("<<<M2987>>>" ++ check (runes_of_ascii "packet A { Inner { match k as n { [1,22,007,4,5,66,7,8,9,10,11] : B, }, }, }")).
Eval vm_compute in ("<<<M4501>>>" ++ check (runes_of_ascii "
root
packet 
P {u16	a,
    u32 Sum

@calculatedFrom(
    ""CRC32"" )  ,
}")).
Eval vm_compute in ("<<<M4019>>>" ++ check (runes_of_ascii "packet A {
    match k as n {
        [1] : B,
        2 : C,
    },
}")).
Eval vm_compute in ("<<<M2148>>>" ++ check (runes_of_ascii "options{
_x
= true
} options
{ o	= /// triple
false
    ; chars
=")).
Eval vm_compute in ("<<<M3906>>>" ++ check (runes_of_ascii "packet  A{B	b`a
b` ,
	B`a
b`

    , repeat
B
bs`a
b`

, }
")).
Eval vm_compute in ("<<<M4219>>>" ++ check (runes_of_ascii "

  packet x { 
@rightPad() repeat	roots	Logon
	`doc` ,}// c
 
")).
Eval vm_compute in ("<<<M142>>>" ++ check (runes_of_ascii "options // `tick` ""quote"" 'q'
{ repeatCount = 3/// triple
}")).
Eval vm_compute in ("<<<M3369>>>" ++ check (runes_of_ascii "packet x { // c
@rightPad ( ) repeat roots Logon `doc` , }")).
Eval vm_compute in ("<<<M3172>>>" ++ check (runes_of_ascii "packet A { @tag(1) // a
 @leftPad('0') // b
 char[4] x, }")).
Eval vm_compute in ("<<<M263>>>" ++ check (runes_of_ascii "root
packet i8i8 { @lengthOf(
Packet)
    u32 u8x, }")).
Eval vm_compute in ("<<<M2820>>>" ++ check (runes_of_ascii "true uint8 char[ char[ false i16 @tag( match char[")).
Eval vm_compute in ("<<<M2790>>>" ++ check (runes_of_ascii ", , [ = '\x00' string zchar '\x00' char[ ; root")).
Eval vm_compute in ("<<<M2255>>>" ++ check (runes_of_ascii "options
{ } options { BodyLength= u16 Header")).
Eval vm_compute in ("<<<M2770>>>" ++ check (runes_of_ascii "as match zchar[ packet @leftPad = as zchar[")).
Eval vm_compute in ("<<<M3960>>>" ++ check (runes_of_ascii "  packet
    body
{  // @lengthOf(
    } ")).
Eval vm_compute in ("<<<M371>>>" ++ check (runes_of_ascii "//
packet u8x{
    }	packet
    crc { }")).
Eval vm_compute in ("<<<M2741>>>" ++ check (runes_of_ascii "Si%1~!4?\#L9=!>+J5vW%0b""]sse$x8k|lJ9Z")).
Eval vm_compute in ("<<<M1208>>>" ++ check (runes_of_ascii "options{
Logon
    //x
    = ' '; }")).
Eval vm_compute in ("<<<M2789>>>" ++ check (runes_of_ascii "= packet = ) repeat repeat options")).
Eval vm_compute in ("<<<M1316>>>" ++ check (runes_of_ascii "packet As
{stringy i8i8
,} // c")).
Eval vm_compute in ("<<<M41>>>" ++ check (runes_of_ascii "MetaData crc
{ } // @lengthOf(")).
Eval vm_compute in ("<<<M396>>>" ++ check (runes_of_ascii "  options
{ a1 = ' '
    ; }")).
Eval vm_compute in ("<<<M1884>>>" ++ check (runes_of_ascii "MetaData
    u { }  options")).
Eval vm_compute in ("<<<M2818>>>" ++ check (runes_of_ascii "ykT4r3#5kWpIpr8~:{UG:h?pLl")).
Eval vm_compute in ("<<<M990>>>" ++ check (runes_of_ascii "
root packet
zchar {	}
")).
Eval vm_compute in ("<<<M171>>>" ++ check (runes_of_ascii "packet options1 {  }

")).
Eval vm_compute in ("<<<M2108>>>" ++ check (runes_of_ascii "options{
_x
= true
}")).
Eval vm_compute in ("<<<M2640>>>" ++ check (runes_of_ascii "root MetaData M { }")).
Eval vm_compute in ("<<<M2103>>>" ++ check (runes_of_ascii "options{
_x
= true")).
Eval vm_compute in ("<<<M3130>>>" ++ check (runes_of_ascii "packet A {
}
// c" ++ [8203]%N)).
Eval vm_compute in ("<<<M3083>>>" ++ check (runes_of_ascii "packet A {
}// c" ++ [8192]%N)).
Eval vm_compute in ("<<<M1173>>>" ++ check (runes_of_ascii "packet f32a
{}
")).
Eval vm_compute in ("<<<M4159>>>" ++ check (runes_of_ascii "// @lengthOf(")).
Eval vm_compute in ("<<<M2220>>>" ++ check (runes_of_ascii "options
{")).
Eval vm_compute in ("<<<M2767>>>" ++ check ([65533]%N ++ runes_of_ascii "d" ++ [65533; 65533; 65533]%N ++ runes_of_ascii "R" ++ [27; 8]%N)).
Eval vm_compute in ("<<<M2428>>>" ++ check (runes_of_ascii "char [")).
Eval vm_compute in ("<<<M2467>>>" ++ check (runes_of_ascii "match")).
Eval vm_compute in ("<<<M1021>>>" ++ check (runes_of_ascii "


")).
Eval vm_compute in ("<<<M2439>>>" ++ check (runes_of_ascii "u80")).
Eval vm_compute in ("<<<M247>>>" ++ check (runes_of_ascii "

")).
Eval vm_compute in ("<<<M2554>>>" ++ check ([233]%N)).
